/-
  C07 helper lemmas, part 2: a buffer that `rtosc_valid_message_p` accepts (`validZ`) has the
  layout of an OSC message whose padding bytes are arbitrary (`Layout`, `LaxArgs`):

      '/' path  NUL  (0..3 NUL)  ','  tags  NUL  pad  arguments

  with one argument per payload tag, strings NUL-terminated inside the buffer, blobs with a length
  that fits.  Property theorems are in Props/C07.lean.
-/
import RtoscModel.Proofs.ValidCore
namespace Rtosc.Osc.V
open Rtosc Rtosc.Osc

/-- `e` is an encoding of the argument `a` in which the bytes behind a string terminator / blob
    data (the padding) are arbitrary -/
def LaxEnc : Arg → Bytes → Prop
  | .w32 v, e => ∃ b0 b1 b2 b3, e = [b0, b1, b2, b3] ∧ v = get32 b0 b1 b2 b3
  | .w64 v, e => ∃ b0 b1 b2 b3 b4 b5 b6 b7, e = [b0, b1, b2, b3, b4, b5, b6, b7] ∧
      v = get64 b0 b1 b2 b3 b4 b5 b6 b7
  | .midi a b c d, e => e = [a, b, c, d]
  | .str s, e => NoNul s ∧ ∃ pad, e = s ++ 0 :: pad ∧ pad.length = 3 - s.length % 4
  | .blob d, e => ∃ b0 b1 b2 b3 pad, e = b0 :: b1 :: b2 :: b3 :: (d ++ pad) ∧
      (get32 b0 b1 b2 b3).toNat = d.length ∧ d.length < 2147483648 ∧ pad.length = pad4 d.length

/-- the argument bytes `A` hold, in order, one (lax) encoding per payload tag -/
inductive LaxArgs : Bytes → List Arg → Bytes → Prop
  | nil : LaxArgs [] [] []
  | skip {t : UInt8} {ts : Bytes} {args : List Arg} {A : Bytes} :
      kind t = none → LaxArgs ts args A → LaxArgs (t :: ts) args A
  | take {t : UInt8} {ts : Bytes} {a : Arg} {as : List Arg} {e A : Bytes} :
      kind t = some a.kind → LaxEnc a e → LaxArgs ts as A → LaxArgs (t :: ts) (a :: as) (e ++ A)

structure Layout (bs s tags pad : Bytes) (j : Nat) (args : List Arg) (A : Bytes) : Prop where
  eq : bs = 47 :: (s ++ 0 :: (zeros j ++ 44 :: (tags ++ 0 :: (pad ++ A))))
  printable : ∀ x ∈ s, isprint x = true
  j3 : j ≤ 3
  align : (s.length + 2 + j) % 4 = 0
  tags_nn : NoNul tags
  pad_len : pad.length = 3 - (tags.length + 1) % 4
  args : LaxArgs tags args A

/-! ### generic list facts -/

theorem takeWhile_all {α : Type} (p : α → Bool) : ∀ (l : List α), ∀ x ∈ l.takeWhile p, p x = true := by
  intro l
  induction l with
  | nil => intro x hx; simp at hx
  | cons a l ih =>
    intro x hx
    rw [List.takeWhile_cons] at hx
    split at hx
    · rename_i hp
      rcases List.mem_cons.mp hx with rfl | h
      · exact hp
      · exact ih x h
    · simp at hx

theorem tw_noNul (l : Bytes) : NoNul (l.takeWhile (· ≠ 0)) := by
  intro x hx
  have := takeWhile_all _ l x hx
  simpa using this

theorem drop_split (bs : Bytes) {a b : Nat} (hab : a ≤ b) :
    bs.drop a = (bs.drop a).take (b - a) ++ bs.drop b := by
  have := List.take_append_drop (b - a) (bs.drop a)
  rw [List.drop_drop] at this
  have e : a + (b - a) = b := by omega
  rw [e] at this
  exact this.symm

theorem length_take_drop (bs : Bytes) {a b : Nat} (hab : a ≤ b) (hb : b ≤ bs.length) :
    ((bs.drop a).take (b - a)).length = b - a := by
  simp [List.length_take, List.length_drop]; omega

/-- the bytes from `pos` to the first NUL, and what follows -/
theorem drop_scan (bs : Bytes) (pos : Nat) :
    bs.drop pos = (bs.drop pos).takeWhile (· ≠ 0) ++ bs.drop (scanZ bs pos) := by
  have hp := List.takeWhile_prefix (l := bs.drop pos) (fun b : UInt8 => decide (b ≠ 0))
  have ht := List.prefix_iff_eq_take.mp hp
  have := drop_split bs (a := pos) (b := scanZ bs pos) (scanZ_ge bs pos)
  have e : scanZ bs pos - pos = ((bs.drop pos).takeWhile (· ≠ 0)).length := by unfold scanZ; omega
  rw [e, ← ht] at this
  exact this

theorem scanZ_eq (bs : Bytes) (pos : Nat) :
    scanZ bs pos = pos + ((bs.drop pos).takeWhile (· ≠ 0)).length := rfl

/-- a run of zero bytes -/
theorem take_zeros (bs : Bytes) {a b : Nat} (hab : a ≤ b) (hb : b ≤ bs.length)
    (h : ∀ i, a ≤ i → i < b → dz bs i = 0) : (bs.drop a).take (b - a) = zeros (b - a) := by
  unfold zeros
  rw [List.eq_replicate_iff]
  refine ⟨length_take_drop bs hab hb, ?_⟩
  intro x hx
  obtain ⟨i, hi, rfl⟩ := List.getElem_of_mem hx
  have hi' : i < b - a := by rw [length_take_drop bs hab hb] at hi; exact hi
  rw [List.getElem_take, List.getElem_drop]
  have := h (a + i) (by omega) (by omega)
  rw [dz_of_lt (by omega)] at this
  exact this

theorem drop4 (bs : Bytes) (pos : Nat) (h : pos + 4 ≤ bs.length) :
    bs.drop pos = dz bs pos :: dz bs (pos + 1) :: dz bs (pos + 2) :: dz bs (pos + 3) :: bs.drop (pos + 4) := by
  rw [drop_eq_cons (by omega : pos < bs.length), drop_eq_cons (by omega : pos + 1 < bs.length),
    drop_eq_cons (by omega : pos + 1 + 1 < bs.length), drop_eq_cons (by omega : pos + 1 + 1 + 1 < bs.length)]
  rw [dz_of_lt (by omega), dz_of_lt (by omega), dz_of_lt (by omega), dz_of_lt (by omega)]

theorem drop8 (bs : Bytes) (pos : Nat) (h : pos + 8 ≤ bs.length) :
    bs.drop pos = dz bs pos :: dz bs (pos + 1) :: dz bs (pos + 2) :: dz bs (pos + 3) ::
      dz bs (pos + 4) :: dz bs (pos + 5) :: dz bs (pos + 6) :: dz bs (pos + 7) :: bs.drop (pos + 8) := by
  rw [drop4 bs pos (by omega), drop4 bs (pos + 4) (by omega)]

/-! ### the argument walk yields lax encodings -/

theorem laxArgs_free : ∀ (tags : Bytes), nreserved tags = 0 → LaxArgs tags [] [] := by
  intro tags
  induction tags with
  | nil => intro _; exact .nil
  | cons t ts ih =>
    intro h
    cases hr : hasReserved t with
    | true => rw [nreserved_cons_payload hr] at h; omega
    | false =>
      rw [nreserved_cons_free hr] at h
      have hk : kind t = none := by
        have := hasReserved_eq t; rw [hr] at this
        cases hk : kind t with
        | none => rfl
        | some k => rw [hk] at this; simp at this
      exact .skip hk (ih h)

theorem walk_lax (bs : Bytes) (c : Nat) (h31 : bs.length < 2147483648) : ∀ (tags : Bytes) (pos : Nat),
    c ≤ pos → (pos - c) % 4 = 0 → walk bs c tags pos = some bs.length →
    ∃ args, LaxArgs tags args (bs.drop pos) := by
  intro tags
  induction tags with
  | nil =>
    intro pos _ _ h
    simp only [walk, Option.some.injEq] at h
    rw [h, List.drop_length]; exact ⟨[], .nil⟩
  | cons t ts ih =>
    intro pos hc hal h
    unfold walk at h
    split at h
    · rename_i h0
      simp only [Option.some.injEq] at h
      rw [h, List.drop_length]; exact ⟨[], laxArgs_free _ h0⟩
    · split at h
      · simp at h
      · rename_i hle
        split at h
        · -- 8-byte payload
          rename_i h64
          have hge := walk_ge _ _ _ _ _ h
          obtain ⟨args, ha⟩ := ih (pos + 8) (by omega) (by omega) h
          have hk : kind t = some .w64 := by rcases h64 with rfl | rfl | rfl <;> decide
          refine ⟨.w64 (get64 (dz bs pos) (dz bs (pos + 1)) (dz bs (pos + 2)) (dz bs (pos + 3))
            (dz bs (pos + 4)) (dz bs (pos + 5)) (dz bs (pos + 6)) (dz bs (pos + 7))) :: args, ?_⟩
          rw [drop8 bs pos hge]
          exact .take (e := [_, _, _, _, _, _, _, _]) hk ⟨_, _, _, _, _, _, _, _, rfl, rfl⟩ ha
        · split at h
          · -- 4-byte payload
            rename_i h32
            have hge := walk_ge _ _ _ _ _ h
            obtain ⟨args, ha⟩ := ih (pos + 4) (by omega) (by omega) h
            rw [drop4 bs pos hge]
            by_cases hm : t = 109
            · have hk : kind t = some .midi := by rw [hm]; decide
              exact ⟨.midi (dz bs pos) (dz bs (pos + 1)) (dz bs (pos + 2)) (dz bs (pos + 3)) :: args,
                .take (e := [_, _, _, _]) hk rfl ha⟩
            · have hk : kind t = some .w32 := by
                rcases h32 with rfl | rfl | rfl | rfl | rfl <;> first | decide | exact absurd rfl hm
              exact ⟨.w32 (get32 (dz bs pos) (dz bs (pos + 1)) (dz bs (pos + 2)) (dz bs (pos + 3))) :: args,
                .take (e := [_, _, _, _]) hk ⟨_, _, _, _, rfl, rfl⟩ ha⟩
          · split at h
            · -- string
              rename_i hs
              have hk : kind t = some .str := by rcases hs with rfl | rfl <;> decide
              have hge := walk_ge _ _ _ _ _ h
              have hz1 := scanZ_ge bs pos
              generalize hzdef : scanZ bs pos = z at h hge hz1
              have hzlt : z < bs.length := by omega
              have hz0 : dz bs z = 0 := by rw [← hzdef]; exact dz_scanZ' bs pos
              obtain ⟨args, ha⟩ := ih (z + (4 - (z - c) % 4)) (by omega) (by omega) h
              have hd1 := drop_scan bs pos
              rw [hzdef] at hd1
              have hd2 : bs.drop z = 0 :: bs.drop (z + 1) := by
                rw [drop_eq_cons hzlt]; rw [dz_of_lt hzlt] at hz0; rw [hz0]
              have hd3 := drop_split bs (a := z + 1) (b := z + (4 - (z - c) % 4)) (by omega)
              have hlen := length_take_drop bs (a := z + 1) (b := z + (4 - (z - c) % 4)) (by omega) hge
              have hsl : z = pos + ((bs.drop pos).takeWhile (· ≠ 0)).length := by rw [← hzdef]; rfl
              have hnn := tw_noNul (bs.drop pos)
              generalize (bs.drop pos).takeWhile (· ≠ 0) = s at hd1 hsl hnn
              generalize hpdef : (bs.drop (z + 1)).take (z + (4 - (z - c) % 4) - (z + 1)) = pad at hd3 hlen
              refine ⟨.str s :: args, ?_⟩
              rw [hd1, hd2, hd3]
              have : s ++ 0 :: (pad ++ bs.drop (z + (4 - (z - c) % 4))) =
                  (s ++ 0 :: pad) ++ bs.drop (z + (4 - (z - c) % 4)) := by simp
              rw [this]
              refine .take hk ⟨hnn, _, rfl, ?_⟩ ha
              rw [hlen]; omega
            · split at h
              · -- blob
                rename_i hb
                have hk : kind t = some .blob := by rw [hb]; decide
                split at h
                · simp at h
                · rename_i hfit
                  have hge := walk_ge _ _ _ _ _ h
                  generalize hidef : (rdz bs pos).toNat = i at h hge hfit
                  have hq : pos + 4 + i ≤ bs.length := by omega
                  simp only at h hge
                  generalize hp'def : (if (pos + 4 + i - c) % 4 ≠ 0 then pos + 4 + i + (4 - (pos + 4 + i - c) % 4)
                    else pos + 4 + i) = p' at h hge
                  have hp'1 : pos + 4 + i ≤ p' := by rw [← hp'def]; split <;> omega
                  have hp'2 : p' - (pos + 4 + i) = pad4 i := by
                    rw [← hp'def]; unfold pad4; split <;> omega
                  have hp'3 : (p' - c) % 4 = 0 := by rw [← hp'def]; split <;> omega
                  obtain ⟨args, ha⟩ := ih p' (by omega) hp'3 h
                  have hd1 := drop4 bs pos (by omega)
                  have hd2 := drop_split bs (a := pos + 4) (b := pos + 4 + i) (by omega)
                  have hd3 := drop_split bs (a := pos + 4 + i) (b := p') hp'1
                  have hl2 := length_take_drop bs (a := pos + 4) (b := pos + 4 + i) (by omega) hq
                  have hl3 := length_take_drop bs (a := pos + 4 + i) (b := p') hp'1 hge
                  generalize (bs.drop (pos + 4)).take (pos + 4 + i - (pos + 4)) = d at hd2 hl2
                  generalize (bs.drop (pos + 4 + i)).take (p' - (pos + 4 + i)) = pad at hd3 hl3
                  refine ⟨.blob d :: args, ?_⟩
                  rw [hd1, hd2, hd3]
                  have : dz bs pos :: dz bs (pos + 1) :: dz bs (pos + 2) :: dz bs (pos + 3) ::
                      (d ++ (pad ++ bs.drop p')) =
                      (dz bs pos :: dz bs (pos + 1) :: dz bs (pos + 2) :: dz bs (pos + 3) ::
                      (d ++ pad)) ++ bs.drop p' := by simp
                  rw [this]
                  refine .take hk ⟨_, _, _, _, _, rfl, ?_, ?_, ?_⟩ ha
                  · rw [hl2]; unfold rdz at hidef; omega
                  · rw [hl2]; omega
                  · rw [hl3, hl2, hp'2]; congr 1; omega
              · -- no payload
                rename_i h64 h32 hs hb
                have hr : hasReserved t = false := by
                  simp only [not_or] at h64 h32 hs
                  simp [hasReserved, h64, h32, hs, hb]
                have hk : kind t = none := by
                  have := hasReserved_eq t; rw [hr] at this
                  cases hk : kind t with
                  | none => rfl
                  | some k => rw [hk] at this; simp at this
                obtain ⟨args, ha⟩ := ih pos hc hal h
                exact ⟨args, .skip hk ha⟩

/-! ### the accepted buffer has the layout of a message -/

theorem nullWordZ_spec (bs : Bytes) : ∀ (k pos : Nat),
    pos ≤ nullWordZ bs k pos ∧ nullWordZ bs k pos ≤ pos + k ∧ (1 ≤ k → pos < nullWordZ bs k pos) ∧
    ∀ j, pos < j → j < nullWordZ bs k pos → dz bs j = 0 := by
  intro k
  induction k with
  | zero => intro pos; simp [nullWordZ]; intro j h1 h2; omega
  | succ k ih =>
    intro pos
    unfold nullWordZ
    split
    · refine ⟨by omega, by omega, fun _ => by omega, ?_⟩
      intro j h1 h2; omega
    · rename_i hz
      simp only [ne_eq, Decidable.not_not] at hz
      obtain ⟨h1, h2, _, h4⟩ := ih (pos + 1)
      refine ⟨by omega, by omega, fun _ => by omega, ?_⟩
      intro j hj1 hj2
      by_cases hj : j = pos + 1
      · rw [hj]; exact hz
      · exact h4 j (by omega) hj2

theorem commaZ_eq (bs : Bytes) : ∀ (d o1 : Nat), (∀ j, o1 ≤ j → j < o1 + d → dz bs j ≠ 44) →
    o1 + d < bs.length → dz bs (o1 + d) = 44 → commaZ bs o1 = o1 + d := by
  intro d
  induction d with
  | zero =>
    intro o1 _ hl h
    apply commaZ_stop
    intro hl'
    rw [Nat.add_zero, dz_of_lt hl'] at h
    rw [List.getElem?_eq_getElem hl', h]
  | succ d ih =>
    intro o1 hne hl h
    have hl1 : o1 < bs.length := by omega
    have h1 := hne o1 (Nat.le_refl _) (by omega)
    rw [dz_of_lt hl1] at h1
    rw [commaZ_step hl1 h1, ih (o1 + 1) (fun j a b => hne j (by omega) (by omega)) (by omega)
      (by rw [← h]; congr 1; omega)]
    omega

theorem layout_of_valid (bs : Bytes) (h31 : bs.length < 2147483648) (hv : validZ bs = true) :
    ∃ s tags pad j args A, Layout bs s tags pad j args A := by
  unfold validZ at hv
  split at hv
  · simp at hv
  · rename_i hn
    split at hv
    · simp at hv
    · rename_i h47
      simp only [ne_eq, Decidable.not_not] at h47
      split at hv
      · simp at hv
      · rename_i o1 hp
        split at hv
        · simp at hv
        · rename_i h4
          split at hv
          · simp at hv
          · rename_i hm
            simp only [ne_eq, Decidable.not_not] at hm
            simp only [decide_eq_true_eq] at hv
            -- the path
            have ho1 : o1 = scanZ bs 0 ∧ ((bs.drop 0).takeWhile (· ≠ 0)).all isprint = true := by
              unfold pathZ at hp
              split at hp
              · rename_i hall; simp only [Option.some.injEq] at hp; exact ⟨hp.symm, hall⟩
              · simp at hp
            obtain ⟨ho1, hprint⟩ := ho1
            have hl0 : 0 < bs.length := by omega
            have h47' : bs[0] = 47 := by rw [← dz_of_lt hl0]; exact h47
            have hne0 : dz bs 0 ≠ 0 := by rw [h47]; decide
            have htw0 : (bs.drop 0).takeWhile (· ≠ 0) = 47 :: (bs.drop 1).takeWhile (· ≠ 0) := by
              rw [drop_eq_cons hl0, h47', tw_nz_cons _ (by decide)]
            have ho1' : o1 = 1 + ((bs.drop 1).takeWhile (· ≠ 0)).length := by
              rw [ho1, scanZ_step hne0]; rfl
            -- the message length
            unfold msgLenZ at hv
            split at hv
            · omega
            · rename_i h44
              simp only [ne_eq, Decidable.not_not] at h44
              split at hv
              · omega
              · rename_i r hw
                have hr : r = bs.length := by
                  split at hv
                  · exact hv
                  · omega
                rw [hr] at hw
                -- the comma
                have hcdef : commaOf bs = nullWordZ bs 4 o1 := by rw [ho1]; rfl
                obtain ⟨_, hc2, hc3, hc4⟩ := nullWordZ_spec bs 4 o1
                rw [← hcdef] at hc2 hc3 hc4
                have hc3 := hc3 (by omega)
                generalize hcg : commaOf bs = c at *
                have hcl : c < bs.length := lt_of_dz_ne (by rw [h44]; decide)
                have hz0 : dz bs o1 = 0 := by rw [ho1]; exact dz_scanZ' bs 0
                have hzero : ∀ i, o1 ≤ i → i < c → dz bs i = 0 := by
                  intro i h1 h2
                  by_cases hi : i = o1
                  · rw [hi]; exact hz0
                  · exact hc4 i (by omega) h2
                have hcomma : commaZ bs o1 = c := by
                  have := commaZ_eq bs (c - o1) o1 (by
                    intro j h1 h2; rw [hzero j h1 (by omega)]; decide) (by omega)
                    (by rw [show o1 + (c - o1) = c by omega]; exact h44)
                  rw [this]; omega
                rw [hcomma] at hm
                -- the type tags
                have hge := walk_ge _ _ _ _ _ hw
                unfold argsOf at hw hge
                unfold tagsOf at hw
                rw [hcg] at hw hge
                have hz1 := scanZ_ge bs (c + 1)
                have hzdef : scanZ bs (c + 1) = c + 1 + ((bs.drop (c + 1)).takeWhile (· ≠ 0)).length := rfl
                have hdz : dz bs (scanZ bs (c + 1)) = 0 := dz_scanZ' bs (c + 1)
                generalize hzg : scanZ bs (c + 1) = z at *
                have hzl : z < bs.length := by omega
                obtain ⟨args, ha⟩ := walk_lax bs c h31 _ (z + (4 - (z - c) % 4)) (by omega) (by omega) hw
                -- the pieces
                have e1 := drop_scan bs 0
                rw [← ho1, htw0] at e1
                have e2 := drop_split bs (a := o1) (b := c) (by omega)
                rw [take_zeros bs (by omega) (by omega) hzero] at e2
                have e2' : zeros (c - o1) = 0 :: zeros (c - o1 - 1) := by
                  rw [← zeros_succ]; congr 1; omega
                have e3 : bs.drop c = 44 :: bs.drop (c + 1) := by
                  rw [drop_eq_cons hcl]; rw [dz_of_lt hcl] at h44; rw [h44]
                have e4 := drop_scan bs (c + 1)
                rw [hzg] at e4
                have e5 : bs.drop z = 0 :: bs.drop (z + 1) := by
                  rw [drop_eq_cons hzl]; rw [dz_of_lt hzl] at hdz; rw [hdz]
                have e6 := drop_split bs (a := z + 1) (b := z + (4 - (z - c) % 4)) (by omega)
                have hl6 := length_take_drop bs (a := z + 1) (b := z + (4 - (z - c) % 4)) (by omega) hge
                have hpr : ∀ x ∈ (bs.drop 1).takeWhile (· ≠ 0), isprint x = true := by
                  rw [htw0, List.all_cons, Bool.and_eq_true, List.all_eq_true] at hprint
                  exact hprint.2
                have hnn := tw_noNul (bs.drop (c + 1))
                generalize (bs.drop 1).takeWhile (· ≠ 0) = s at *
                generalize (bs.drop (c + 1)).takeWhile (· ≠ 0) = tags at *
                generalize (bs.drop (z + 1)).take (z + (4 - (z - c) % 4) - (z + 1)) = pad at *
                generalize bs.drop (z + (4 - (z - c) % 4)) = A at *
                refine ⟨s, tags, pad, c - o1 - 1, args, A, ?_, hpr, by omega, by omega,
                  hnn, by rw [hl6]; omega, ha⟩
                rw [List.drop_zero] at e1
                rw [e2, e2', e3, e4, e5, e6] at e1
                exact e1.trans (by simp)

end Rtosc.Osc.V
