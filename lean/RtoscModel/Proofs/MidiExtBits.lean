/-
  C20 (extension) — the last step of the float path: `f32OfDyadic` packs sign, exponent and
  significand into the 32 bits of an IEEE-754 binary32.  `f32Scaled` reads a bit pattern back
  (independent of the packing code: sign = bit 31, biased exponent = bits 30..23, fraction = bits
  22..0) as the exact integer `value * 2^149`; the pattern `f32OfDyadic num e` is finite and denotes
  exactly `rndZ num / 2^e`.  Hence range and monotonicity of `rndZ` (`Proofs/MidiRound.lean`) are range
  and monotonicity of the EMITTED bit pattern.
-/
import RtoscModel.Proofs.MidiRound
namespace Rtosc.Midi

/-- IEEE-754 binary32, read from the bit pattern: `value * 2^149` (an integer for every finite pattern;
    exponent field 0 = subnormal: `frac * 2^-149`; otherwise `(2^23 + frac) * 2^(ex-150)`) -/
def f32Scaled (bits : Nat) : Int :=
  let ex := bits / 2 ^ 23 % 256
  let frac := bits % 2 ^ 23
  let mag : Nat := if ex = 0 then frac else (2 ^ 23 + frac) * 2 ^ (ex - 1)
  if bits / 2 ^ 31 % 2 = 1 then -(mag : Int) else (mag : Int)

/-- a 32-bit pattern that is neither an infinity nor a NaN -/
def f32Finite (bits : Nat) : Prop := bits < 2 ^ 32 ∧ bits / 2 ^ 23 % 256 ≠ 255

/-- the packing step of `f32OfDyadic` -/
def packF32 (neg : Bool) (m : Nat) (q : Int) : Nat :=
  (if neg then 2 ^ 31 else 0) + ((q + 23 + 127).toNat <<< 23) + (m - 2 ^ 23)

theorem f32OfDyadic_eq_pack (num : Int) (e : Nat) (h : num ≠ 0) :
    f32OfDyadic num e = packF32 (decide (num < 0)) (f32Round num.natAbs e).1 (f32Round num.natAbs e).2 := by
  unfold f32OfDyadic packF32
  rw [if_neg h]
  by_cases hn : num < 0 <;> simp [hn]

theorem f32Scaled_pack (neg : Bool) (m : Nat) (q : Int) (hm1 : 2 ^ 23 ≤ m) (hm2 : m < 2 ^ 24)
    (hq1 : -149 ≤ q) (hq2 : q ≤ 104) :
    f32Scaled (packF32 neg m q) =
      (if neg then -((m * 2 ^ (q + 149).toNat : Nat) : Int) else ((m * 2 ^ (q + 149).toNat : Nat) : Int)) ∧
    f32Finite (packF32 neg m q) := by
  have p23 : (2 : Nat) ^ 23 = 8388608 := by decide
  have p24 : (2 : Nat) ^ 24 = 16777216 := by decide
  have p31 : (2 : Nat) ^ 31 = 2147483648 := by decide
  have p32 : (2 : Nat) ^ 32 = 4294967296 := by decide
  obtain ⟨E, hE⟩ : ∃ E : Nat, (q + 23 + 127).toNat = E := ⟨_, rfl⟩
  have hE1 : 1 ≤ E := by omega
  have hE2 : E ≤ 254 := by omega
  have hEq : (q + 149).toNat = E - 1 := by omega
  obtain ⟨F, hF⟩ : ∃ F : Nat, m - 2 ^ 23 = F := ⟨_, rfl⟩
  have hmF : m = 8388608 + F := by omega
  have hF2 : F < 8388608 := by omega
  unfold f32Scaled f32Finite packF32
  rw [hE, hF, Nat.shiftLeft_eq, hEq]
  simp only [p23, p31, p32]
  cases neg
  · have h1 : (0 + E * 8388608 + F) / 8388608 % 256 = E := by omega
    have h2 : (0 + E * 8388608 + F) % 8388608 = F := by omega
    have h3 : (0 + E * 8388608 + F) / 2147483648 % 2 = 0 := by omega
    have h0 : E ≠ 0 := by omega
    simp only [Bool.false_eq_true, if_false, h1, h2, h3, h0, hmF]
    refine ⟨by simp, by omega, by omega⟩
  · have h1 : (2147483648 + E * 8388608 + F) / 8388608 % 256 = E := by omega
    have h2 : (2147483648 + E * 8388608 + F) % 8388608 = F := by omega
    have h3 : (2147483648 + E * 8388608 + F) / 2147483648 % 2 = 1 := by omega
    have h0 : E ≠ 0 := by omega
    simp only [if_true, h1, h2, h3, h0, hmF, if_false]
    refine ⟨trivial, by omega, by omega⟩

theorem bitLen_pos {n : Nat} (hn : 0 < n) : 0 < bitLen n := by
  unfold bitLen; split <;> omega

/-- the quotient `n / 2^(bitLen n - 24)` has exactly 24 bits -/
theorem shift_bounds {n : Nat} (hl : ¬ bitLen n ≤ 24) :
    2 ^ 23 ≤ n >>> (bitLen n - 24) ∧ n >>> (bitLen n - 24) < 2 ^ 24 := by
  have h1 := two_pow_bitLen_le n (by omega)
  have h2 := lt_two_pow_bitLen n
  have hD : 0 < 2 ^ (bitLen n - 24) := Nat.pow_pos (by decide)
  rw [Nat.shiftRight_eq_div_pow]
  constructor
  · rw [Nat.le_div_iff_mul_le hD, ← Nat.pow_add]
    have : 23 + (bitLen n - 24) = bitLen n - 1 := by omega
    rw [this]; exact h1
  · rw [Nat.div_lt_iff_lt_mul hD, ← Nat.pow_add]
    have : 24 + (bitLen n - 24) = bitLen n := by omega
    rw [this]; exact h2

theorem rq_bounds {n : Nat} (hl : ¬ bitLen n ≤ 24) :
    2 ^ 23 ≤ rq n (bitLen n - 24) ∧ rq n (bitLen n - 24) ≤ 2 ^ 24 := by
  obtain ⟨a, b⟩ := shift_bounds hl
  unfold rq
  split <;> omega

/-- `f32Round` returns a normalised significand and an exponent next to `bitLen n - 24 - e` -/
theorem f32Round_mant {n : Nat} (e : Nat) (hn : 0 < n) :
    2 ^ 23 ≤ (f32Round n e).1 ∧ (f32Round n e).1 < 2 ^ 24 ∧
    (bitLen n : Int) - 24 - e ≤ (f32Round n e).2 ∧ (f32Round n e).2 ≤ (bitLen n : Int) - 23 - e := by
  by_cases hl : bitLen n ≤ 24
  · rw [f32Round_small e hl]
    have hp := bitLen_pos hn
    have h1 := two_pow_bitLen_le n hp
    have h2 := lt_two_pow_bitLen n
    have hD : 0 < 2 ^ (24 - bitLen n) := Nat.pow_pos (by decide)
    simp only [Nat.shiftLeft_eq]
    refine ⟨?_, ?_, by omega, by omega⟩
    · have : 2 ^ 23 = 2 ^ (bitLen n - 1) * 2 ^ (24 - bitLen n) := by
        rw [← Nat.pow_add]; congr 1; omega
      rw [this]; exact Nat.mul_le_mul_right _ h1
    · have : 2 ^ 24 = 2 ^ bitLen n * 2 ^ (24 - bitLen n) := by
        rw [← Nat.pow_add]; congr 1; omega
      rw [this]; exact Nat.mul_lt_mul_of_pos_right h2 hD
  · rw [f32Round_big e hl]
    obtain ⟨a, b⟩ := rq_bounds hl
    split
    · refine ⟨Nat.le_refl _, ?_, by omega, by omega⟩
      show (2 : Nat) ^ 23 < 2 ^ 24
      decide
    · rename_i hne
      refine ⟨a, by omega, by omega, by omega⟩

/-- **The emitted bit pattern denotes the rounded value**: for `num / 2^e` of moderate size the pattern
    `f32OfDyadic num e` is a finite binary32 whose exact value is `rndZ num / 2^e`. -/
theorem f32OfDyadic_scaled {num : Int} {e : Nat} (he : e ≤ 125) (hl : bitLen num.natAbs ≤ 100) :
    f32Scaled (f32OfDyadic num e) = rndZ num * 2 ^ (149 - e) ∧ f32Finite (f32OfDyadic num e) := by
  by_cases h0 : num = 0
  · subst h0
    refine ⟨?_, ?_⟩
    · simp [f32OfDyadic, f32Scaled, rndZ, rnd_zero]
    · simp [f32OfDyadic, f32Finite]
  · have hn : 0 < num.natAbs := by omega
    obtain ⟨m1, m2, q1, q2⟩ := f32Round_mant e hn
    obtain ⟨v1, v2⟩ := f32Round_value num.natAbs e
    have hp := bitLen_pos hn
    rw [f32OfDyadic_eq_pack num e h0]
    obtain ⟨hs, hfin⟩ := f32Scaled_pack (decide (num < 0)) (f32Round num.natAbs e).1 (f32Round num.natAbs e).2
      m1 m2 (by omega) (by omega)
    refine ⟨?_, hfin⟩
    rw [hs]
    -- m * 2^(q+149) = rnd n * 2^(149-e)
    have key : (f32Round num.natAbs e).1 * 2 ^ ((f32Round num.natAbs e).2 + 149).toNat =
        rnd num.natAbs * 2 ^ (149 - e) := by
      have e1 : ((f32Round num.natAbs e).2 + 149).toNat =
          ((f32Round num.natAbs e).2 + e + 24).toNat + (125 - e) := by omega
      have e2 : 149 - e = 24 + (125 - e) := by omega
      rw [e1, e2, Nat.pow_add, Nat.pow_add, ← Nat.mul_assoc, ← Nat.mul_assoc, v2]
    rw [key]
    have hcast : ((rnd num.natAbs * 2 ^ (149 - e) : Nat) : Int) = (rnd num.natAbs : Int) * 2 ^ (149 - e) := by
      push_cast; rfl
    unfold rndZ
    by_cases hneg : num < 0
    · simp only [hneg, decide_true, if_true, hcast, Int.neg_mul]
    · simp only [hneg, decide_false, if_false, hcast, Bool.false_eq_true]

end Rtosc.Midi
