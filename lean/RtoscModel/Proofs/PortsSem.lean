/-
  C04 helper lemmas, part 4: what `Ports::dispatch` computes on a well-formed tree, as
  pure functions over the structured tree (`semNo`: without location buffer, `semLoc`:
  with), and the proof that the three lookup strategies of the model compute them:
    `scanNoLoc_sem`   the simple case,
    `scanLoc_sem`     the linear search with location buffer,
    `enterLoc_sem`    a whole nested `dispatch` with location buffer, hashed or not.
-/
import RtoscModel.Proofs.PortsLookup
namespace Rtosc.Ports
open Rtosc Rtosc.Match Rtosc.Ports.Hash

/-! ### well-formedness, unpacked -/

def PTable.pats : PTable → List Pat
  | .nil => []
  | .leaf p r => p :: r.pats
  | .node p _ _ r => p :: r.pats

theorem render_names (t : PTable) : t.render.names = t.pats.map Pat.render := by
  induction t with
  | nil => rfl
  | leaf p r ih => simp [PTable.render, Table.names, PTable.pats, ih]
  | node p c d r _ ih => simp [PTable.render, Table.names, PTable.pats, ih]

theorem nameWf_unpack {p : Pat} (h : nameWf p = true) :
    p.WF0 ∧ p.segs ≠ [] ∧ noAlts p.segs = true ∧ True := by
  simp only [nameWf, Bool.and_eq_true, Bool.not_eq_eq_eq_not, Bool.not_true, List.isEmpty_eq_false_iff] at h
  exact ⟨h.1.1, h.1.2, h.2, trivial⟩

/-- the hypotheses on a message: the remaining address and the type string are C strings,
    indices below 2^31.  (`n` is not used any more: it bounded the longest type alternative of
    the tree by the bytes behind the type string, which the matcher compared them with before
    fixes/C05-args-overread.) -/
structure MsgOK (a tags rest : Bytes) (n : Nat) : Prop where
  a_nul : NulFree a
  a_idx : IdxBounded a
  t_nul : NulFree tags

theorem MsgOK.next {a tags rest : Bytes} {n : Nat} (h : MsgOK a tags rest n) : MsgOK (levelTail a) tags rest n :=
  ⟨NulFree.levelTail h.a_nul, IdxBounded.levelTail h.a_idx, h.t_nul⟩

/-! ### pure versions of the small steps -/

def finNo (dflt : Bool) (tp obj : List Nat) (m : Bytes) (r : List Call × RtData × Bool) : List Call × RtData :=
  if !r.2.2 && dflt then (r.1 ++ [dfltCallOf tp m r.2.1], { r.2.1 with obj := obj }) else (r.1, r.2.1)

theorem finishNoLoc_some (dflt : Bool) (tp obj : List Nat) (m : Bytes) (r : List Call × RtData × Bool) :
    finishNoLoc dflt tp obj m (some r) = some (finNo dflt tp obj m r) := by
  obtain ⟨l, d, b⟩ := r
  simp only [finishNoLoc, finNo]
  split <;> rfl

def finLoc (dflt : Bool) (tp obj : List Nat) (m : Bytes) (r : List Call × RtData × Bool) : List Call × RtData :=
  if !r.2.2 && dflt then
    (r.1 ++ [dfltCallOf tp m { r.2.1 with nmatches := r.2.1.nmatches + 1 }],
     { r.2.1 with nmatches := r.2.1.nmatches + 1, obj := obj })
  else (r.1, r.2.1)

theorem finishLoc_some (dflt : Bool) (tp obj : List Nat) (m : Bytes) (r : List Call × RtData × Bool) :
    finishLoc dflt tp obj m (some r) = some (finLoc dflt tp obj m r) := by
  obtain ⟨l, d, b⟩ := r
  simp only [finishLoc, finLoc]
  split <;> rfl

theorem prepend_some (c : Call) (r : List Call × RtData × Bool) :
    prepend c (some r) = some (c :: r.1, r.2.1, r.2.2) := by
  obtain ⟨l, d, b⟩ := r; rfl

theorem andThen_some (r : List Call × RtData) (cont : RtData → ScanOut) (r' : List Call × RtData × Bool)
    (h : cont r.2 = some r') : andThen (some r) cont = some (r.1 ++ r'.1, r'.2.1, r'.2.2) := by
  obtain ⟨l, d⟩ := r
  obtain ⟨l', d', b⟩ := r'
  simp only [andThen, h]

/-! ### without location buffer -/

def semNo : PTable → List Nat → Nat → List Nat → Bytes → Bytes → Bytes → RtData → Bool → List Call × RtData × Bool
  | .nil, _, _, _, _, _, _, d, mt => ([], d, mt)
  | .leaf p rest, tp, i, obj, a, tags, ex, d, mt =>
    match matchB p a tags with
    | none => semNo rest tp (i + 1) obj a tags ex d mt
    | some _ =>
      let d1 := { d with port := some (tp ++ [i]) }
      let r := semNo rest tp (i + 1) obj a tags ex { d1 with obj := obj } true
      (callOf (tp ++ [i]) true (a ++ 0 :: ex) d1 :: r.1, r.2.1, r.2.2)
  | .node p child cd rest, tp, i, obj, a, tags, ex, d, mt =>
    match matchB p a tags with
    | none => semNo rest tp (i + 1) obj a tags ex d mt
    | some _ =>
      let d1 := { d with port := some (tp ++ [i]) }
      let cobj := tp ++ [i]
      let a' := levelTail a
      let rc := finNo cd cobj cobj (a' ++ 0 :: ex)
        (semNo child cobj 0 cobj a' tags ex { d1 with obj := cobj } false)
      let r := semNo rest tp (i + 1) obj a tags ex { rc.2 with obj := obj } true
      (callOf (tp ++ [i]) false (a ++ 0 :: ex) d1 :: (rc.1 ++ r.1), r.2.1, r.2.2)

/-- **the simple case of `dispatch` computes `semNo`** -/
theorem scanNoLoc_sem (k : Nat) (tags rst : Bytes) (n : Nat) :
    ∀ (t : PTable), t.WF →
    ∀ (tp : List Nat) (i : Nat) (obj : List Nat) (a : Bytes) (d : RtData) (mt : Bool), MsgOK a tags rst n →
    scanNoLoc t.render tp i obj (a ++ 0 :: msgTail k tags rst) d mt =
      some (semNo t tp i obj a tags (msgTail k tags rst) d mt) := by
  intro t
  induction t with
  | nil => intro _ tp i obj a d mt _; rfl
  | leaf p rest ih =>
    intro hwf tp i obj a d mt hm
    simp only [PTable.WF, PTable.wf, Bool.and_eq_true] at hwf
    obtain ⟨hp0, hpne, hpna, _⟩ := nameWf_unpack hwf.1
    obtain ⟨e, hfull, _⟩ := full_render hp0 hpne hpna k rst hm.a_nul hm.a_idx hm.t_nul
    simp only [PTable.render, scanNoLoc, hfull, semNo]
    cases hmb : matchB p a tags with
    | none => simpa using ih hwf.2 tp (i + 1) obj a d mt hm
    | some t =>
      simp only [Option.isSome_some]
      rw [ih hwf.2 tp (i + 1) obj a _ true hm, prepend_some]
  | node p child cd rest ihc ihr =>
    intro hwf tp i obj a d mt hm
    simp only [PTable.WF, PTable.wf, Bool.and_eq_true] at hwf
    have hnw : nameWf p = true := by
      have := hwf.1.1
      simp only [nodeNameWf, Bool.and_eq_true] at this
      exact this.1.1
    obtain ⟨hp0, hpne, hpna, _⟩ := nameWf_unpack hnw
    obtain ⟨e, hfull, _⟩ := full_render hp0 hpne hpna k rst hm.a_nul hm.a_idx hm.t_nul
    simp only [PTable.render, scanNoLoc, hfull, semNo]
    cases hmb : matchB p a tags with
    | none => simpa using ihr hwf.2 tp (i + 1) obj a d mt hm
    | some t =>
      simp only [Option.isSome_some, snip_addr a _ hm.a_nul]
      rw [ihc hwf.1.2 (tp ++ [i]) 0 (tp ++ [i]) (levelTail a) _ false hm.next, finishNoLoc_some]
      rw [andThen_some _ _ _ (ihr hwf.2 tp (i + 1) obj a _ true hm), prepend_some]

/-! ### with location buffer -/

/-- the part of the address a matching name accounts for (`t` = what is left behind
    `*path_end`) -/
def consumed (a t : Bytes) : Bytes := a.take (a.length - t.length)

def semLoc : PTable → List Nat → Nat → List Nat → Bytes → Bytes → Bytes → Bytes → RtData → Bool →
    List Call × RtData × Bool
  | .nil, _, _, _, _, _, _, _, d, mt => ([], d, mt)
  | .leaf p rest, tp, i, obj, L, a, tags, ex, d, mt =>
    match matchB p a tags with
    | none => semLoc rest tp (i + 1) obj L a tags ex d mt
    | some t =>
      let d3 := { (RtData.setLoc { d with nmatches := d.nmatches + 1 } (L ++ consumed a t)) with
                  port := some (tp ++ [i]) }
      let r := semLoc rest tp (i + 1) obj L a tags ex { d3 with obj := obj, loc := some L } true
      (callOf (tp ++ [i]) true (a ++ 0 :: ex) d3 :: r.1, r.2.1, r.2.2)
  | .node p child cd rest, tp, i, obj, L, a, tags, ex, d, mt =>
    match matchB p a tags with
    | none => semLoc rest tp (i + 1) obj L a tags ex d mt
    | some t =>
      let d3 := { (RtData.setLoc d (L ++ consumed a t)) with port := some (tp ++ [i]) }
      let cobj := tp ++ [i]
      let a' := levelTail a
      let rc := finLoc cd cobj cobj (a' ++ 0 :: ex)
        (semLoc child cobj 0 cobj (L ++ consumed a t) a' tags ex { d3 with obj := cobj } false)
      let r := semLoc rest tp (i + 1) obj L a tags ex { rc.2 with obj := obj, loc := some L } true
      (callOf (tp ++ [i]) false (a ++ 0 :: ex) d3 :: (rc.1 ++ r.1), r.2.1, r.2.2)

theorem finLoc_loc (dflt : Bool) (tp obj : List Nat) (m : Bytes) (r : List Call × RtData × Bool) :
    (finLoc dflt tp obj m r).2.loc = r.2.1.loc := by
  simp only [finLoc]; split <;> rfl

/-- `loc` is restored -/
theorem semLoc_loc : ∀ (t : PTable) (tp : List Nat) (i : Nat) (obj : List Nat) (L a tags ex : Bytes)
    (d : RtData) (mt : Bool), d.loc = some L → (semLoc t tp i obj L a tags ex d mt).2.1.loc = some L := by
  intro t
  induction t with
  | nil => intro tp i obj L a tags ex d mt h; exact h
  | leaf p rest ih =>
    intro tp i obj L a tags ex d mt h
    simp only [semLoc]
    split
    · exact ih _ _ _ _ _ _ _ _ _ h
    · exact ih _ _ _ _ _ _ _ _ _ rfl
  | node p child cd rest _ ihr =>
    intro tp i obj L a tags ex d mt h
    simp only [semLoc]
    split
    · exact ihr _ _ _ _ _ _ _ _ _ h
    · exact ihr _ _ _ _ _ _ _ _ _ rfl

/-- the `matched` flag: set iff some port of the table matches -/
theorem semLoc_flag : ∀ (t : PTable) (tp : List Nat) (i : Nat) (obj : List Nat) (L a tags ex : Bytes)
    (d : RtData) (mt : Bool),
    (semLoc t tp i obj L a tags ex d mt).2.2 = (mt || t.pats.any (fun q => (matchB q a tags).isSome)) := by
  intro t
  induction t with
  | nil => intro tp i obj L a tags ex d mt; simp [semLoc, PTable.pats]
  | leaf p rest ih =>
    intro tp i obj L a tags ex d mt
    simp only [semLoc, PTable.pats, List.any_cons]
    cases h : matchB p a tags with
    | none => simp [ih]
    | some t => simp [ih]
  | node p child cd rest _ ihr =>
    intro tp i obj L a tags ex d mt
    simp only [semLoc, PTable.pats, List.any_cons]
    cases h : matchB p a tags with
    | none => simp [ihr]
    | some t => simp [ihr]

/-- a table in which nothing matches -/
theorem semLoc_none : ∀ (t : PTable) (tp : List Nat) (i : Nat) (obj : List Nat) (L a tags ex : Bytes)
    (d : RtData) (mt : Bool), (∀ q ∈ t.pats, matchB q a tags = none) →
    semLoc t tp i obj L a tags ex d mt = ([], d, mt) := by
  intro t
  induction t with
  | nil => intro tp i obj L a tags ex d mt _; rfl
  | leaf p rest ih =>
    intro tp i obj L a tags ex d mt h
    simp only [PTable.pats, List.mem_cons, forall_eq_or_imp] at h
    simp only [semLoc, h.1]
    exact ih _ _ _ _ _ _ _ _ _ h.2
  | node p child cd rest _ ihr =>
    intro tp i obj L a tags ex d mt h
    simp only [PTable.pats, List.mem_cons, forall_eq_or_imp] at h
    simp only [semLoc, h.1]
    exact ihr _ _ _ _ _ _ _ _ _ h.2

/-! ### what is appended to `loc` -/

theorem greedy_suffix (sub : Bool) : ∀ (segs : List Seg) (a t : Bytes), greedy segs sub a = some t →
    ∃ pre, a = pre ++ t := by
  intro segs
  induction segs with
  | nil =>
    intro a t h
    cases sub with
    | false =>
      simp only [greedy] at h
      split at h
      · next ha => cases h; exact ⟨[], by simp [ha]⟩
      · cases h
    | true =>
      cases a with
      | nil => simp [greedy] at h
      | cons d r =>
        simp only [greedy] at h
        split at h
        · next hd => cases h; exact ⟨[d], rfl⟩
        · cases h
  | cons s r ih =>
    intro a t h
    cases s with
    | lit x =>
      simp only [greedy] at h
      split at h
      · obtain ⟨pre, hpre⟩ := ih _ _ h
        exact ⟨a.take x.length ++ pre, by rw [List.append_assoc, ← hpre, List.take_append_drop]⟩
      · cases h
    | enum ds =>
      simp only [greedy] at h
      split at h
      · obtain ⟨pre, hpre⟩ := ih _ _ h
        exact ⟨a.takeWhile isDigit ++ pre, by rw [List.append_assoc, ← hpre, List.takeWhile_append_dropWhile]⟩
      · cases h
    | alts as =>
      simp only [greedy] at h
      split at h
      · next x _ =>
        obtain ⟨pre, hpre⟩ := ih _ _ h
        exact ⟨a.take x.length ++ pre, by rw [List.append_assoc, ← hpre, List.take_append_drop]⟩
      · cases h

theorem consumed_append (pre t : Bytes) : consumed (pre ++ t) t = pre := by
  simp [consumed]

theorem takeWhile_self {α : Type} (q : α → Bool) : ∀ (l : List α), (∀ c ∈ l, q c = true) → l.takeWhile q = l := by
  intro l
  induction l with
  | nil => intro _; rfl
  | cons c r ih =>
    intro h
    simp [List.takeWhile_cons, h c List.mem_cons_self, ih (fun x hx => h x (List.mem_cons_of_mem _ hx))]

theorem copyTo_eq (pre t ex : Bytes) (h : NulFree (pre ++ t)) :
    copyTo (pre ++ t ++ 0 :: ex) (t ++ 0 :: ex) = pre := by
  have hl : (pre ++ t ++ 0 :: ex).length - (t ++ 0 :: ex).length = pre.length := by
    simp only [List.length_append, List.length_cons]; omega
  unfold copyTo
  rw [hl, List.append_assoc, List.take_left' rfl]
  have : ∀ c ∈ pre, (c != 0) = true := fun c hc => by
    have := h c (List.mem_append_left _ hc); simp [this]
  exact takeWhile_self _ _ this

theorem upToColon_render {p : Pat} (hwf : p.WF0) (hna : noAlts p.segs = true) :
    upToColon p.render = keyOf p := by
  have hk := keyOf_chars hwf hna
  have hty := renderTypes_head p.types (wf0_types hwf)
  rw [upToColon, render_eq]
  exact takeWhile_key (keyOf p) (renderTypes p.types) (fun c hc => (hk c hc).2) hty

theorem consumed_lit {p : Pat} (hl : allLit p.segs = true) {a t : Bytes}
    (hg : greedy p.segs p.sub a = some t) : consumed a t = keyOf p := by
  rw [greedy_lits p.segs hl] at hg
  cases hs : p.sub with
  | false =>
    simp only [hs, Bool.false_eq_true, ↓reduceIte] at hg
    split at hg
    · next h => cases hg; subst h; simp [consumed, keyOf, hs]
    · cases hg
  | true =>
    simp only [hs, ↓reduceIte] at hg
    split at hg
    · next h =>
      obtain ⟨r, hr⟩ := List.isPrefixOf_iff_prefix.mp h
      cases hg
      subst hr
      have : List.drop ((renderSegs p.segs).length + 1) (renderSegs p.segs ++ [47] ++ r) = r := by
        rw [List.drop_left' (by simp)]
      rw [this, consumed_append]
      simp [keyOf, hs]
    · cases hg

/-- both ways of appending the matched part to `loc` append the same text -/
theorem locAppend_eq {p : Pat} (hnw : nameWf p = true) {a tags t : Bytes} (ha : NulFree a)
    (hm : matchB p a tags = some t) (L ex : Bytes) (X : RtData) (hX : X.loc = some L) :
    (if hasChar 35 p.render then X.setLoc (X.locStr.take L.length ++ copyTo (a ++ 0 :: ex) (t ++ 0 :: ex))
     else X.setLoc (X.locStr ++ upToColon p.render)) = X.setLoc (L ++ consumed a t) := by
  obtain ⟨hp0, hpne, hpna, _⟩ := nameWf_unpack hnw
  have hg := matchB_greedy hm
  obtain ⟨pre, rfl⟩ := greedy_suffix _ _ _ _ hg
  have hls : X.locStr = L := by simp [RtData.locStr, hX]
  rw [hls, consumed_append]
  cases hh : hasChar 35 p.render with
  | true =>
    simp only [↓reduceIte, List.take_length, copyTo_eq pre t ex ha]
  | false =>
    have hl := allLit_of_noHash hpna hh
    have := consumed_lit hl hg
    rw [consumed_append] at this
    simp only [Bool.false_eq_true, ↓reduceIte, upToColon_render hp0 hpna, this]

end Rtosc.Ports
