/-
  C20 — lemmas behind the clauses of the property: what a `cc` step does, the linear
  bijection, how bindings move under map / unMap / useFreeID, who was ever assigned.
-/
import RtoscModel.Proofs.MidiValues
set_option linter.unusedSimpArgs false
namespace Rtosc.Midi

/-! ### what one incoming controller value does -/

theorem Cb.fire_addr (c : Cb) (x : Nat) : (c.fire x).addr = c.addr := by
  unfold Cb.fire
  split
  · rfl
  · split <;> rfl


/-- complete description of a non-crashing `cc` step in terms of the RT half's binding -/
theorem cc_step_spec {P s id val s' out} (h : step P s (.cc id val) = some (s', out)) :
    (s.rt.binding id = none ∧ out = []) ∨
    (∃ st e old cb, s.rt.storage = some st ∧ st.mapping.find? (fun x => x.id == id) = some e ∧
      st.values[e.slot]? = some old ∧ st.callbacks[e.slot]? = some cb ∧
      s.rt.binding id = some (cb.addr, e.coarse) ∧ out = [cb.fire (blit e.coarse val old)] ∧
      s'.rt.storage = some { st with values := st.values.set e.slot (blit e.coarse val old) } ∧
      s'.rt.pending = s.rt.pending ∧ s'.rt.watch = s.rt.watch ∧
      s'.toNRT = s.toNRT ∧ s'.toRT = s.toRT ∧ s'.nrt = s.nrt) := by
  simp only [step] at h
  cases hm : s.rt.handleCC id val with
  | none => simp [hm] at h
  | some r =>
    obtain ⟨r', m, req⟩ := r
    simp [hm] at h; obtain ⟨rfl, rfl⟩ := h
    unfold RT.handleCC at hm
    cases hst : s.rt.storage with
    | none =>
      left
      simp [hst] at hm
      refine ⟨by simp [RT.binding, hst], ?_⟩
      split at hm <;> (simp at hm; obtain ⟨_, rfl, _⟩ := hm; rfl)
    | some st =>
      simp only [hst] at hm
      cases hf : st.mapping.find? (fun x => x.id == id) with
      | none =>
        left
        simp [Storage.handleCC, hf] at hm
        refine ⟨by simp [RT.binding, hst, Storage.binding, hf], ?_⟩
        split at hm <;> (simp at hm; obtain ⟨_, rfl, _⟩ := hm; rfl)
      | some e =>
        right
        cases hv : st.values[e.slot]? with
        | none => simp [Storage.handleCC, hf, hv] at hm
        | some old =>
          cases hc : st.callbacks[e.slot]? with
          | none => simp [Storage.handleCC, hf, hv, hc] at hm
          | some cb =>
            simp [Storage.handleCC, hf, hv, hc] at hm
            obtain ⟨rfl, rfl, rfl⟩ := hm
            exact ⟨st, e, old, cb, rfl, hf, hv, hc, by simp [RT.binding, hst, Storage.binding, hf, hc],
              rfl, rfl, rfl, rfl, by simp, rfl, rfl⟩

theorem nocc_step_silent {P s op s' out} (h : step P s op = some (s', out)) (hop : ∀ id v, op ≠ .cc id v) :
    out = [] := by
  cases op with
  | cc id v => exact absurd rfl (hop id v)
  | map a k => simp only [step] at h; cases hm : s.nrt.map a k <;> simp [hm] at h; exact h.2
  | unmap a k => simp only [step] at h; cases hm : s.nrt.unMap a k <;> simp [hm] at h; exact h.2
  | clear => simp [step] at h; exact h.2
  | deliverRT =>
    simp only [step] at h
    split at h
    · simp at h; exact h.2
    · rename_i m rest _; cases hm : s.rt.recv m <;> simp [hm] at h; exact h.2
  | deliverNRT =>
    simp only [step] at h
    split at h
    · simp at h; exact h.2
    · rename_i id rest _; cases hm : NRT.useFreeID P s.nrt id <;> simp [hm] at h; exact h.2

/-! ### the linear bijection -/

theorem bijNum_mono {mn mx : Int} (h : mn ≤ mx) {x y : Nat} (hxy : x ≤ y) :
    bijNum mn mx x ≤ bijNum mn mx y := by
  unfold bijNum
  have h1 : (0 : Int) ≤ mx - mn := by omega
  have h2 : (x : Int) ≤ (y : Int) := by exact_mod_cast hxy
  have := Int.mul_le_mul_of_nonneg_right h2 h1
  omega

theorem bijNum_range {mn mx : Int} (h : mn ≤ mx) {x : Nat} (hx : x ≤ 16384) :
    16384 * mn ≤ bijNum mn mx x ∧ bijNum mn mx x ≤ 16384 * mx := by
  have h0 := bijNum_mono h (Nat.zero_le x)
  have h1 := bijNum_mono h hx
  have e0 : bijNum mn mx 0 = 16384 * mn := by simp [bijNum]
  have e1 : bijNum mn mx 16384 = 16384 * mx := by simp only [bijNum]; omega
  rw [e0] at h0; rw [e1] at h1; exact ⟨h0, h1⟩

theorem special_eq (x : Nat) (hx : x < 16384) : (x >>> 7) &&& 0x7f = x / 128 := by
  have h1 : x >>> 7 &&& 0x7f = (x >>> 7) % 128 := Nat.and_two_pow_sub_one_eq_mod _ 7
  rw [h1, Nat.shiftRight_eq_div_pow]
  have : x / 2 ^ 7 < 128 := by omega
  rw [Nat.mod_eq_of_lt this]

theorem compose14_lt {k : Bool} {v o : Nat} (hv : v ≤ 127) (ho : o < 128) : compose14 k v o < 16384 := by
  cases k <;> simp [compose14] <;> omega

theorem compose14_mono {k : Bool} {v v' o o' : Nat} (hv : v ≤ v') (ho : o ≤ o') :
    compose14 k v o ≤ compose14 k v' o' := by
  cases k <;> simp [compose14] <;> omega

theorem blit_compose (k : Bool) (v old : Nat) (hv : v ≤ 127) (ho : old < 16384) :
    ∃ o, o < 128 ∧ blit k v old = compose14 k v o ∧ o = (if k then old % 128 else old / 128) := by
  cases k
  · exact ⟨old / 128, by omega, by rw [blit_fine v old (by omega) ho]; simp [compose14], by simp⟩
  · exact ⟨old % 128, by omega, by rw [blit_coarse]; simp [compose14], by simp⟩

/-! ### bindings under the nRT operations -/

theorem binding_filter (st : Storage) (c : Nat) (v : List Nat) :
    (∀ id, id ≠ c → (⟨st.mapping.filter (fun e => e.id != c), st.callbacks, v⟩ : Storage).binding id = st.binding id) ∧
    (⟨st.mapping.filter (fun e => e.id != c), st.callbacks, v⟩ : Storage).binding c = none := by
  constructor
  · intro id hid; simp only [Storage.binding, find?_filter_ne hid]
  · have : c ∉ ids (st.mapping.filter (fun e => e.id != c)) := fun h => (mem_ids_filter.mp h).2 rfl
    have hf : (st.mapping.filter (fun e => e.id != c)).find? (fun e => e.id == c) = none := by
      rw [List.find?_eq_none]; intro e he hh; simp at hh; exact this (mem_ids.mpr ⟨e, he, hh⟩)
    simp [Storage.binding, hf]

theorem find?_append_old {m : List MapEnt} {id : Nat} (h : id ∈ ids m) (e : MapEnt) :
    (m ++ [e]).find? (fun x => x.id == id) = m.find? (fun x => x.id == id) := by
  obtain ⟨e0, he0, hid⟩ := mem_ids.mp h
  rw [List.find?_append]
  cases hf : m.find? (fun x => x.id == id) with
  | none => have := List.find?_eq_none.mp hf e0 he0; simp [hid] at this
  | some x => simp

theorem find?_append_new {m : List MapEnt} {e : MapEnt} (h : e.id ∉ ids m) :
    (m ++ [e]).find? (fun x => x.id == e.id) = some e := by
  rw [List.find?_append]
  have : m.find? (fun x => x.id == e.id) = none := by
    rw [List.find?_eq_none]; intro x hx hh; simp at hh; exact h (mem_ids.mpr ⟨x, hx, hh⟩)
  simp [this]

theorem binding_some_mem {st : Storage} {id : Nat} {b} (h : st.binding id = some b) : id ∈ ids st.mapping := by
  unfold Storage.binding at h
  split at h
  · simp at h
  · rename_i e he
    have := List.find?_some he; simp at this
    exact mem_ids.mpr ⟨e, List.mem_of_find?_eq_some he, this⟩

/-- appending an entry and extending the callback vector at its end keeps every old binding -/
theorem binding_append_old {st : Storage} (hs : ∀ e ∈ st.mapping, e.slot < st.callbacks.length)
    (e : MapEnt) (extra : List Cb) (v : List Nat) {id : Nat} {b} (h : st.binding id = some b) :
    (⟨st.mapping ++ [e], st.callbacks ++ extra, v⟩ : Storage).binding id = some b := by
  have hm := binding_some_mem h
  unfold Storage.binding at h ⊢
  simp only [find?_append_old hm]
  split at h
  · simp at h
  · rename_i e0 he0
    have := hs e0 (List.mem_of_find?_eq_some he0)
    rw [List.getElem?_append_left this]; exact h

theorem binding_append_new {m : List MapEnt} {e : MapEnt} (h : e.id ∉ ids m) (cbs : List Cb) (v : List Nat)
    {cb : Cb} (hcb : cbs[e.slot]? = some cb) :
    (⟨m ++ [e], cbs, v⟩ : Storage).binding e.id = some (cb.addr, e.coarse) := by
  simp [Storage.binding, find?_append_new h, hcb]

/-- the controller recorded in `inv_map` for `(a,k)` is bound to `(a,k)` in the snapshot … -/
theorem sel_binding {P n a im k c} (h : NrtOk P n) (hl : imLookup n.invMap a = some im)
    (hs : sel k im = some c) : n.binding c = some (a, k) := by
  obtain ⟨st, hst⟩ := h.storage_some hl
  have hent := h.inv_sel a im k c hl hs
  obtain ⟨cb, hcb, hca⟩ := h.inv_slot a im hl
  simp only [NRT.mapping, hst] at hent
  simp only [NRT.callbacks, hst] at hcb
  have hf := find?_of_mem_nodup (h.stok st hst).nodup hent
  simp only at hf
  simp [NRT.binding, hst, Storage.binding, hf, hcb, hca]

/-- … and conversely -/
theorem binding_sel {P n a k id} (h : NrtOk P n) (hb : n.binding id = some (a, k)) :
    ∃ im, imLookup n.invMap a = some im ∧ sel k im = some id := by
  cases hst : n.storage with
  | none => simp [NRT.binding, hst] at hb
  | some st =>
    simp only [NRT.binding, hst, Storage.binding] at hb
    split at hb
    · simp at hb
    · rename_i e he
      have hid : e.id = id := by have := List.find?_some he; simpa using this
      have hem : e ∈ n.mapping := by simpa [NRT.mapping, hst] using List.mem_of_find?_eq_some he
      obtain ⟨cb, im, hcb, hl, _, hs⟩ := h.map_inv e hem
      simp only [NRT.callbacks, hst] at hcb
      simp [hcb] at hb
      obtain ⟨rfl, rfl⟩ := hb
      exact ⟨im, hl, by rw [hs, hid]⟩

/-- `unMap(a,k)`: every binding other than `(a,k)` survives, and nothing is bound to
    `(a,k)` afterwards. -/
theorem unMap_bindings {P n a k n' ms} (h : NrtOk P n) (heq : n.unMap a k = some (n', ms)) :
    (∀ id b, n.binding id = some b → b ≠ (a, k) → n'.binding id = some b) ∧
    (∀ id, n'.binding id ≠ some (a, k)) := by
  obtain ⟨n1, ms1, heq1, hok, _, _, hsel, _, hcase⟩ := unMap_ok h a k
  rw [heq] at heq1; cases heq1
  constructor
  · intro id b hb hne
    rcases hcase with ⟨_, hst⟩ | ⟨c, st, ns, im, hst, _, hl, hs, hns, hst', _⟩
    · simpa [NRT.binding, hst] using hb
    · have hcb := sel_binding h hl hs
      have hidc : id ≠ c := by intro e; subst e; rw [hb] at hcb; cases hcb; exact hne rfl
      simp only [NRT.binding, hst', hns]
      rw [(binding_filter st c _).1 id hidc]
      simpa [NRT.binding, hst] using hb
  · intro id hb
    obtain ⟨im, hl, hs⟩ := binding_sel hok hb
    rw [hsel im hl] at hs; cases hs

theorem map_bindings {P : List PortSpec} {n a k n' ms} (h : NrtOk P n) (ha : a < P.length)
    (heq : n.map a k = some (n', ms)) :
    (∀ id b, n.binding id = some b → b ≠ (a, k) → n'.binding id = some b) := by
  rcases map_ok h a k ha with ⟨_, heq1⟩ | ⟨_, n1, ms1, hun, heq1, _⟩
  · rw [heq] at heq1; cases heq1; intro id b hb _; exact hb
  · rw [heq] at heq1; cases heq1
    have := (unMap_bindings h hun).1
    intro id b hb hne
    have := this id b hb hne
    simpa [NRT.binding] using this

/-- `useFreeID`: the controller gets the oldest queued address, nobody else moves -/
theorem useFreeID_bindings {P n a k q id} (h : NrtOk P n) (hq : n.learnQ = (a, k) :: q)
    (hid : id ∉ ids n.mapping) {n' ms} (heq : NRT.useFreeID P n id = some (n', ms)) :
    n'.binding id = some (a, k) ∧ (∀ id' b, n.binding id' = some b → n'.binding id' = some b) ∧
    n'.learnQ = q ∧ ∃ ns, n'.storage = some ns ∧ ms = [.bind ns (some id)] := by
  obtain ⟨n1, ns, slot, cb, p, extra, heq1, hok, hst, hq', hmp, hcbs, hcb, hca, _, _, _, _, _⟩ :=
    useFreeID_ok id h hq hid
  rw [heq] at heq1; cases heq1
  have hns : ns = ⟨n.mapping ++ [⟨id, k, slot⟩], n.callbacks ++ extra, ns.values⟩ := by
    cases ns; simp_all
  refine ⟨?_, ?_, hq', ns, hst, rfl⟩
  · simp only [NRT.binding, hst]
    rw [hns]
    have := binding_append_new (e := ⟨id, k, slot⟩) (by simpa using hid) (n.callbacks ++ extra) ns.values
      (cb := cb) (by rw [← hcbs]; exact hcb)
    simpa [hca] using this
  · intro id' b hb
    simp only [NRT.binding, hst]
    rw [hns]
    cases hs : n.storage with
    | none => simp [NRT.binding, hs] at hb
    | some st =>
      simp only [NRT.binding, hs] at hb
      have hm : n.mapping = st.mapping := by simp [NRT.mapping, hs]
      have hc : n.callbacks = st.callbacks := by simp [NRT.callbacks, hs]
      rw [hm, hc]
      exact binding_append_old (h.stok st hs).slots _ _ _ hb

/-! ### who was ever assigned -/

/-- the history contains a learn step for `id`: its `/midi-use-CC` request reached
    `useFreeID` while an address was queued -/
def Assigned (h : List (Sys × Op)) (id : Nat) : Prop :=
  ∃ x ∈ h, x.2 = .deliverNRT ∧ x.1.toNRT.head? = some id ∧ x.1.nrt.learnQ ≠ []

/-- `id` occurs in some snapshot of the system -/
def KnownId (s : Sys) (id : Nat) : Prop :=
  id ∈ ids s.nrt.mapping ∨ (∃ st ans, RtMsg.bind st ans ∈ s.toRT ∧ id ∈ ids st.mapping) ∨
  id ∈ ids (omap s.rt.storage)

theorem handleCC_rt_mapping {r r' : RT} {id val m req} (h : r.handleCC id val = some (r', m, req)) :
    omap r'.storage = omap r.storage := by
  unfold RT.handleCC at h
  cases hst : r.storage with
  | none =>
    simp [hst] at h
    split at h <;> (simp at h; obtain ⟨rfl, _⟩ := h; simp [omap, hst])
  | some st =>
    simp only [hst] at h
    cases hh : st.handleCC id val with
    | none => simp [hh] at h
    | some x =>
      obtain ⟨st2, m2⟩ := x
      have hm : st2.mapping = st.mapping := by
        unfold Storage.handleCC at hh
        split at hh
        · simp at hh; obtain ⟨rfl, _⟩ := hh; rfl
        · split at hh
          · simp at hh; obtain ⟨rfl, _⟩ := hh; rfl
          · simp at hh
      simp only [hh, Option.map_some] at h
      cases m2 with
      | some mm => simp at h; obtain ⟨rfl, _⟩ := h; simp [omap, hm]
      | none =>
        simp only at h
        split at h <;> (simp at h; obtain ⟨rfl, _⟩ := h; simp [omap, hm])

theorem knownId_step {P s op s' out} (hi : Inv P s) (hwf : op.wf P) (hz : hazard s op = false)
    (hs : step P s op = some (s', out)) :
    ∀ id, KnownId s' id → KnownId s id ∨
      (op = .deliverNRT ∧ s.toNRT.head? = some id ∧ s.nrt.learnQ ≠ []) := by
  obtain ⟨hz1, hz2⟩ := hazard_false hz
  intro id hk
  cases op with
  | unmap a k =>
    left
    obtain ⟨n', ms, heq, _, _, _, _, _, hcase⟩ := unMap_ok hi.nrt a k
    simp [step, heq] at hs; obtain ⟨rfl, _⟩ := hs
    rcases hcase with ⟨rfl, hst⟩ | ⟨c, st, ns, im, hst, _, _, _, hns, hst', rfl⟩
    · simpa [KnownId, NRT.mapping, hst] using hk
    · have hsub : ∀ x, x ∈ ids ns.mapping → x ∈ ids s.nrt.mapping := by
        intro x hx; rw [hns] at hx; simpa [NRT.mapping, hst] using (mem_ids_filter.mp hx).1
      rcases hk with hk | ⟨st2, ans, hin, hk⟩ | hk
      · exact Or.inl (hsub id (by simpa [NRT.mapping, hst'] using hk))
      · simp only [List.mem_append, List.mem_singleton] at hin
        rcases hin with hin | hin
        · exact Or.inr (Or.inl ⟨st2, ans, hin, hk⟩)
        · cases hin; exact Or.inl (hsub id hk)
      · exact Or.inr (Or.inr hk)
  | map a k =>
    left
    rcases map_ok hi.nrt a k hwf with ⟨_, heq⟩ | ⟨_, n1, ms, hun, heq, _⟩
    · simp [step, heq] at hs; obtain ⟨rfl, _⟩ := hs; simpa [KnownId] using hk
    · obtain ⟨n', ms', heq', _, _, _, _, _, hcase⟩ := unMap_ok hi.nrt a k
      rw [hun] at heq'; cases heq'
      simp [step, heq] at hs; obtain ⟨rfl, _⟩ := hs
      rcases hcase with ⟨rfl, hst⟩ | ⟨c, st, ns, im, hst, _, _, _, hns, hst', rfl⟩
      · rcases hk with hk | ⟨st2, ans, hin, hk⟩ | hk
        · exact Or.inl (by simpa [NRT.mapping, hst] using hk)
        · simp at hin; exact Or.inr (Or.inl ⟨st2, ans, hin, hk⟩)
        · exact Or.inr (Or.inr hk)
      · have hsub : ∀ x, x ∈ ids ns.mapping → x ∈ ids s.nrt.mapping := by
          intro x hx; rw [hns] at hx; simpa [NRT.mapping, hst] using (mem_ids_filter.mp hx).1
        rcases hk with hk | ⟨st2, ans, hin, hk⟩ | hk
        · exact Or.inl (hsub id (by simpa [NRT.mapping, hst'] using hk))
        · simp at hin
          rcases hin with hin | hin
          · exact Or.inr (Or.inl ⟨st2, ans, hin, hk⟩)
          · obtain ⟨rfl, _⟩ := hin; exact Or.inl (hsub id hk)
        · exact Or.inr (Or.inr hk)
  | clear =>
    left
    simp [step, NRT.clear] at hs; obtain ⟨rfl, _⟩ := hs
    rcases hk with hk | ⟨st2, ans, hin, hk⟩ | hk
    · simp [NRT.mapping, Storage.empty] at hk
    · simp at hin
      rcases hin with hin | hin
      · exact Or.inr (Or.inl ⟨st2, ans, hin, hk⟩)
      · obtain ⟨rfl, _⟩ := hin; simp [Storage.empty] at hk
    · exact Or.inr (Or.inr hk)
  | cc cid val =>
    left
    simp only [step] at hs
    cases hm : s.rt.handleCC cid val with
    | none => simp [hm] at hs
    | some r =>
      obtain ⟨r', m, req⟩ := r
      simp [hm] at hs; obtain ⟨rfl, _⟩ := hs
      have := handleCC_rt_mapping hm
      rcases hk with hk | hk | hk
      · exact Or.inl hk
      · exact Or.inr (Or.inl hk)
      · exact Or.inr (Or.inr (by simpa [this] using hk))
  | deliverRT =>
    left
    simp only [step] at hs
    cases hq : s.toRT with
    | nil => simp [hq] at hs; obtain ⟨rfl, _⟩ := hs; exact hk
    | cons m rest =>
      simp only [hq] at hs
      cases hr : s.rt.recv m with
      | none => simp [hr] at hs
      | some r' =>
        simp [hr] at hs; obtain ⟨rfl, _⟩ := hs
        rcases hk with hk | ⟨st2, ans, hin, hk⟩ | hk
        · exact Or.inl hk
        · exact Or.inr (Or.inl ⟨st2, ans, by rw [hq]; exact List.mem_cons_of_mem _ hin, hk⟩)
        · cases m with
          | addWatch => simp [RT.recv] at hr; subst hr; exact Or.inr (Or.inr hk)
          | bind ns ans =>
            have hmap : omap r'.storage = ns.mapping := by
              simp only [RT.recv] at hr
              cases hst : s.rt.storage with
              | none => simp [hst] at hr; subst hr; rfl
              | some old =>
                simp only [hst] at hr
                cases hc : ns.cloneValues old with
                | none => simp [hc] at hr
                | some ns' =>
                  simp [hc] at hr; subst hr
                  unfold Storage.cloneValues at hc
                  split at hc
                  · simp at hc
                  · simp at hc; subst hc; rfl
            exact Or.inr (Or.inl ⟨ns, ans, by rw [hq]; exact List.mem_cons_self, by simpa [hmap] using hk⟩)
  | deliverNRT =>
    simp only [step] at hs
    cases hq : s.toNRT with
    | nil => simp [hq] at hs; obtain ⟨rfl, _⟩ := hs; exact Or.inl hk
    | cons id0 rest =>
      cases hl : s.nrt.learnQ with
      | nil => simp [hazardK1, hq, hl] at hz1
      | cons x q =>
        obtain ⟨a, k⟩ := x
        have hid : id0 ∉ ids s.nrt.mapping := hi.c1 id0 (by simp [hq])
        obtain ⟨n', ns, slot, cb, p, extra, heq, _, hst, _, hmp, _⟩ := useFreeID_ok id0 hi.nrt hl hid
        simp [hq, heq] at hs; obtain ⟨rfl, _⟩ := hs
        have hsub : ∀ x, x ∈ ids ns.mapping → x ∈ ids s.nrt.mapping ∨ x = id0 := by
          intro x hx; rw [hmp] at hx; simpa using hx
        have fin : id ∈ ids s.nrt.mapping ∨ id = id0 → KnownId s id ∨
            (Op.deliverNRT = Op.deliverNRT ∧ (id0 :: rest).head? = some id ∧ ((a, k) :: q) ≠ []) := by
          intro h'; rcases h' with h' | h'
          · exact Or.inl (Or.inl h')
          · right; subst h'; simp
        rcases hk with hk | ⟨st2, ans, hin, hk⟩ | hk
        · exact fin (hsub id (by simpa [NRT.mapping, hst] using hk))
        · simp only [List.mem_append, List.mem_singleton] at hin
          rcases hin with hin | hin
          · exact Or.inl (Or.inr (Or.inl ⟨st2, ans, hin, hk⟩))
          · cases hin; exact fin (hsub id hk)
        · exact Or.inl (Or.inr (Or.inr hk))

/-- along a hazard-free history every controller ID present in any snapshot was assigned
    by a learn step of that history -/
theorem known_assigned {P h s} (t : Trace P h s) (hf : HazardFree h) :
    ∀ id, KnownId s id → Assigned h id := by
  induction t with
  | init => intro id hk; simp [KnownId, Sys.init, NRT.init, RT.init, NRT.mapping, omap] at hk
  | step t hwf hs ih =>
    rename_i h0 s0 s1 op out
    have hf0 : HazardFree h0 := fun x hx => hf x (List.mem_cons_of_mem _ hx)
    have hz : hazard s0 op = false := hf (s0, op) List.mem_cons_self
    intro id hk
    rcases knownId_step (inv_of_trace t hf0) hwf hz hs id hk with h1 | ⟨h1, h2, h3⟩
    · obtain ⟨x, hx, hh⟩ := ih hf0 id h1
      exact ⟨x, List.mem_cons_of_mem _ hx, hh⟩
    · exact ⟨(s0, op), List.mem_cons_self, h1, h2, h3⟩

/-! ### end-to-end handshakes from a quiescent state -/

theorem binding_congr {st st' : Storage} (hm : st'.mapping = st.mapping) (hc : st'.callbacks = st.callbacks) :
    st'.binding = st.binding := by
  funext id; simp [Storage.binding, hm, hc]

theorem binding_none_of_not_mem {st : Storage} {id : Nat} (h : id ∉ ids st.mapping) : st.binding id = none := by
  have : st.mapping.find? (fun e => e.id == id) = none := by
    rw [List.find?_eq_none]; intro x hx hh; simp at hh; exact h (mem_ids.mpr ⟨x, hx, hh⟩)
  simp [Storage.binding, this]

theorem not_mem_of_binding_none {st : Storage} (hs : StOk st) {id : Nat} (h : st.binding id = none) :
    id ∉ ids st.mapping := by
  intro hm
  obtain ⟨e, he, hid⟩ := mem_ids.mp hm
  cases hf : st.mapping.find? (fun e => e.id == id) with
  | none => have := List.find?_eq_none.mp hf e he; simp [hid] at this
  | some e' =>
    have := hs.slots e' (List.mem_of_find?_eq_some hf)
    simp [Storage.binding, hf, List.getElem?_eq_getElem this] at h

/-- nothing under way: both halves act on the same bindings -/
theorem quiescent_bindings {P s} (hi : Inv P s) (hq : s.quiescent) : s.rt.binding = s.nrt.binding := by
  have hl := hi.last
  rw [hq.1] at hl
  simp only [flightOf, lastShape] at hl
  funext id
  cases h1 : s.rt.storage <;> cases h2 : s.nrt.storage <;> simp [h1, h2, Storage.shape] at hl
  · simp [RT.binding, NRT.binding, h1, h2]
  · rename_i st st'
    simp only [RT.binding, NRT.binding, h1, h2]
    rw [binding_congr hl.1 hl.2.1]

theorem rt_binding_none_iff {P s} (hi : Inv P s) (id : Nat) :
    s.rt.binding id = none ↔ id ∉ ids (omap s.rt.storage) := by
  cases h : s.rt.storage with
  | none => simp [RT.binding, h, omap]
  | some st =>
    simp only [RT.binding, h, omap]
    exact ⟨not_mem_of_binding_none (hi.rts st h), binding_none_of_not_mem⟩

/-- an unknown controller arrives while the RT half holds a watch: the request leaves -/
theorem cc_request_spec {P s id val} (hi : Inv P s) (hb : s.rt.binding id = none)
    (hp : id ∉ s.rt.pending) (hw : s.rt.watch ≠ 0) (hlen : s.rt.pending.length ≤ 31) :
    step P s (.cc id val) = some
      ({ s with rt := { s.rt with pending := s.rt.pending ++ [id], watch := s.rt.watch - 1 },
                toNRT := s.toNRT ++ [id] }, []) ∧
    hazard s (.cc id val) = false := by
  have hnm := (rt_binding_none_iff hi id).mp hb
  have hcond : (!s.rt.pending.contains id) = true ∧ s.rt.watch ≠ 0 := ⟨by simpa using hp, hw⟩
  have hins : pendInsert s.rt.pending id = s.rt.pending ++ [id] := by
    have : ¬ s.rt.pending.length > 31 := by omega
    simp [pendInsert, hp, this]
  have hhaz : hazard s (.cc id val) = false := by
    have : ¬ s.rt.pending.length > 31 := by omega
    simp [hazard, hazardK1, hazardK2, this]
  refine ⟨?_, hhaz⟩
  cases hs : s.rt.storage with
  | none =>
    simp only [step, RT.handleCC, hs, Option.map_some]
    rw [if_pos hcond]; simp [hins]
  | some st =>
    have hf : st.mapping.find? (fun e => e.id == id) = none := by
      rw [List.find?_eq_none]; intro x hx hh; simp at hh
      exact hnm (by simpa [omap, hs] using mem_ids.mpr ⟨x, hx, hh⟩)
    simp only [step, RT.handleCC, hs, Storage.handleCC, hf, Option.map_some]
    rw [if_pos hcond]; simp [hins]

/-- an unknown controller arrives while the RT half holds a watch (existential form) -/
theorem cc_request_ok {P s id val} (hi : Inv P s) (hb : s.rt.binding id = none)
    (hp : id ∉ s.rt.pending) (hw : s.rt.watch ≠ 0) (hlen : s.rt.pending.length ≤ 31) :
    ∃ s1, step P s (.cc id val) = some (s1, []) ∧ hazard s (.cc id val) = false ∧ Inv P s1 ∧
      s1.nrt = s.nrt ∧ s1.toRT = s.toRT ∧ s1.toNRT = s.toNRT ++ [id] ∧
      s1.rt.storage = s.rt.storage ∧ s1.rt.pending = s.rt.pending ++ [id] := by
  obtain ⟨h1, hz1⟩ := cc_request_spec (val := val) hi hb hp hw hlen
  obtain ⟨s1', out1, he1, hi1, _⟩ := step_cc_ok hi id val (hazard_false hz1).2
  rw [h1] at he1; cases he1
  exact ⟨_, h1, hz1, hi1, rfl, rfl, rfl, rfl, rfl⟩

/-- a request reaches `useFreeID` while an address is queued (no hazard possible here) -/
theorem deliverNRT_ok {P s id rest a k q} (hi : Inv P s) (hq : s.toNRT = id :: rest)
    (hl : s.nrt.learnQ = (a, k) :: q) :
    ∃ s2 ns, step P s .deliverNRT = some (s2, []) ∧ hazard s .deliverNRT = false ∧ Inv P s2 ∧
      s2.rt = s.rt ∧ s2.toNRT = rest ∧ s2.toRT = s.toRT ++ [.bind ns (some id)] ∧
      s2.nrt.storage = some ns ∧ s2.nrt.learnQ = q ∧ s2.nrt.binding id = some (a, k) ∧
      (∀ id' b, s.nrt.binding id' = some b → s2.nrt.binding id' = some b) := by
  have hz : hazard s .deliverNRT = false := by simp [hazard, hazardK1, hazardK2, hl]
  have hid : id ∉ ids s.nrt.mapping := hi.c1 id (by simp [hq])
  cases hu : NRT.useFreeID P s.nrt id with
  | none =>
    obtain ⟨n', ns, slot, cb, p, extra, heq, _⟩ := useFreeID_ok id hi.nrt hl hid
    rw [hu] at heq; cases heq
  | some r =>
    obtain ⟨n', ms⟩ := r
    obtain ⟨hb, hold, hq', ns, hst, rfl⟩ := useFreeID_bindings hi.nrt hl hid hu
    have hstep : step P s .deliverNRT =
        some ({ s with nrt := n', toNRT := rest, toRT := s.toRT ++ [.bind ns (some id)] }, []) := by
      simp [step, hq, hu]
    obtain ⟨s', out, he, hinv⟩ := inv_step hi (by simp [Op.wf]) hz
    rw [hstep] at he; cases he
    exact ⟨_, ns, hstep, hz, hinv, rfl, rfl, rfl, hst, hq', hb, hold⟩

theorem hazard_deliverRT_answer {s : Sys} {ns id rest} (hq : s.toRT = .bind ns (some id) :: rest) :
    hazard s .deliverRT = false := by
  simp [hazard, hazardK1, hazardK2, hq]

/-- a `midi-bind` reaches the RT half (hazard-free): it acts on that snapshot from now on -/
theorem deliverRT_bind_ok {P s ns ans rest} (hi : Inv P s) (hq : s.toRT = .bind ns ans :: rest)
    (hz : hazard s .deliverRT = false) :
    ∃ s3 ns', step P s .deliverRT = some (s3, []) ∧ Inv P s3 ∧
      s3.nrt = s.nrt ∧ s3.toNRT = s.toNRT ∧ s3.toRT = rest ∧
      s3.rt.storage = some ns' ∧ s3.rt.pending = s.rt.pending.drop 1 ∧ s3.rt.watch = s.rt.watch ∧
      ns'.mapping = ns.mapping ∧ ns'.callbacks = ns.callbacks := by
  obtain ⟨s', out, he, hinv⟩ := inv_step hi (by simp [Op.wf]) hz
  cases hs : s.rt.storage with
  | none =>
    have hstep : step P s .deliverRT =
        some ({ s with rt := { s.rt with pending := s.rt.pending.drop 1, storage := some ns }, toRT := rest }, []) := by
      simp [step, hq, RT.recv, hs]
    rw [hstep] at he; cases he
    exact ⟨_, ns, hstep, hinv, rfl, rfl, rfl, rfl, rfl, rfl, rfl, rfl⟩
  | some old =>
    have hns : StOk ns := hi.fl (ns, ans) (by simp [hq, flightOf])
    obtain ⟨v, hv, _⟩ := cloneValues_ok hns (hi.rts old hs)
    have hstep : step P s .deliverRT =
        some ({ s with rt := { s.rt with pending := s.rt.pending.drop 1, storage := some { ns with values := v } },
                       toRT := rest }, []) := by
      simp [step, hq, RT.recv, hs, hv]
    rw [hstep] at he; cases he
    exact ⟨_, _, hstep, hinv, rfl, rfl, rfl, rfl, rfl, rfl, rfl, rfl⟩

/-- **The learn handshake**, end to end, from a state with nothing under way: an unknown
    controller arrives while an address is queued; after the request and its answer have
    been delivered the controller drives the OLDEST queued address, nothing else moved,
    and again nothing is under way. -/
theorem learn_handshake {P s a k q id val} (hi : Inv P s) (hquiet : s.quiescent)
    (hl : s.nrt.learnQ = (a, k) :: q) (hb : s.rt.binding id = none) :
    ∃ s1 s2 s3,
      step P s (.cc id val) = some (s1, []) ∧ hazard s (.cc id val) = false ∧
      step P s1 .deliverNRT = some (s2, []) ∧ hazard s1 .deliverNRT = false ∧
      step P s2 .deliverRT = some (s3, []) ∧ hazard s2 .deliverRT = false ∧
      Inv P s3 ∧ s3.quiescent ∧ s3.nrt.learnQ = q ∧
      s3.rt.binding id = some (a, k) ∧ s3.nrt.binding id = some (a, k) ∧
      (∀ id' b, s.rt.binding id' = some b → s3.rt.binding id' = some b) := by
  obtain ⟨hq1, hq2⟩ := hquiet
  have hpend : s.rt.pending = [] := by rw [hi.pend, hq1, hq2]; simp [flightOf]
  have hw : s.rt.watch ≠ 0 := by
    have := hi.watch; rw [hl, hq1, hq2] at this; simp [watchesOf] at this; omega
  obtain ⟨s1, h1, hz1, hi1, e1n, e1r, e1q, _, _⟩ :=
    cc_request_ok (val := val) hi hb (by simp [hpend]) hw (by simp [hpend])
  obtain ⟨s2, ns, h2, hz2, hi2, e2rt, e2q, e2r, hst2, hq2', hb2, hold2⟩ :=
    deliverNRT_ok (id := id) (rest := []) hi1 (by rw [e1q, hq2]; rfl) (by rw [e1n]; exact hl)
  have hr2 : s2.toRT = .bind ns (some id) :: [] := by rw [e2r, e1r, hq1]; rfl
  have hz3 := hazard_deliverRT_answer hr2
  obtain ⟨s3, ns', h3, hi3, e3n, e3q, e3r, hst3, _, _, hm3, hc3⟩ := deliverRT_bind_ok hi2 hr2 hz3
  have hrt3 : s3.rt.binding = s2.nrt.binding := by
    funext x; simp only [RT.binding, hst3, NRT.binding, hst2]; rw [binding_congr hm3 hc3]
  refine ⟨s1, s2, s3, h1, hz1, h2, hz2, h3, hz3, hi3, ⟨e3r, by rw [e3q, e2q]⟩, by rw [e3n]; exact hq2',
    by rw [hrt3]; exact hb2, by rw [e3n]; exact hb2, ?_⟩
  intro id' b hb'
  rw [quiescent_bindings hi ⟨hq1, hq2⟩, ← e1n] at hb'
  rw [hrt3]; exact hold2 id' b hb'

theorem hazard_api (s : Sys) : (∀ a k, hazard s (.map a k) = false) ∧ (∀ a k, hazard s (.unmap a k) = false) ∧
    hazard s .clear = false := by
  simp [hazard, hazardK1, hazardK2]

theorem unmap_step_ok {P s} (hi : Inv P s) (a : Nat) (k : Bool) :
    ∃ s1 ms, step P s (.unmap a k) = some (s1, []) ∧ Inv P s1 ∧ s1.rt = s.rt ∧ s1.toNRT = s.toNRT ∧
      s1.toRT = s.toRT ++ ms ∧ s.nrt.unMap a k = some (s1.nrt, ms) := by
  obtain ⟨n', ms, heq, _⟩ := unMap_ok hi.nrt a k
  obtain ⟨s', he, hinv, _⟩ := step_unmap_ok hi a k
  have hstep : step P s (.unmap a k) = some ({ s with nrt := n', toRT := s.toRT ++ ms }, []) := by
    simp [step, heq]
  rw [hstep] at he; cases he
  exact ⟨_, ms, hstep, hinv, rfl, rfl, rfl, heq⟩

/-- **unMap, end to end** from a state with nothing under way: once the resulting
    `midi-bind` (if any) has been delivered, no controller drives `(a,k)` any more and every
    other binding of the RT half is as before. -/
theorem unmap_handshake {P s} (hi : Inv P s) (hquiet : s.quiescent) (a : Nat) (k : Bool) :
    ∃ s1 s2, step P s (.unmap a k) = some (s1, []) ∧ hazard s (.unmap a k) = false ∧
      step P s1 .deliverRT = some (s2, []) ∧ hazard s1 .deliverRT = false ∧
      Inv P s2 ∧ s2.quiescent ∧
      (∀ id, s2.rt.binding id ≠ some (a, k)) ∧
      (∀ id b, s.rt.binding id = some b → b ≠ (a, k) → s2.rt.binding id = some b) := by
  obtain ⟨hq1, hq2⟩ := hquiet
  have hpend : s.rt.pending = [] := by rw [hi.pend, hq1, hq2]; simp [flightOf]
  obtain ⟨s1, ms, h1, hi1, e1rt, e1q, e1r, hun⟩ := unmap_step_ok hi a k
  obtain ⟨hkeep, hstop⟩ := unMap_bindings hi.nrt hun
  obtain ⟨n', ms', heq, _, _, _, _, _, hcase⟩ := unMap_ok hi.nrt a k
  rw [hun] at heq; cases heq
  have hqb := quiescent_bindings hi ⟨hq1, hq2⟩
  rcases hcase with ⟨rfl, hst⟩ | ⟨c, st, ns, im, _, _, _, _, _, hst', rfl⟩
  · -- nothing was bound: no message, the delivery step is a no-op
    have hr1 : s1.toRT = [] := by rw [e1r, hq1]; rfl
    have hz : hazard s1 .deliverRT = false := by simp [hazard, hazardK1, hazardK2, hr1]
    have h2 : step P s1 .deliverRT = some (s1, []) := by simp [step, hr1]
    have hb : s1.rt.binding = s1.nrt.binding := by
      rw [e1rt, hqb]; funext x; simp [NRT.binding, hst]
    refine ⟨s1, s1, h1, (hazard_api s).2.1 a k, h2, hz, hi1, ⟨hr1, by rw [e1q, hq2]⟩, ?_, ?_⟩
    · intro id; rw [hb]; exact hstop id
    · intro id b hb' hne; rw [hb]; rw [hqb] at hb'; exact hkeep id b hb' hne
  · have hr1 : s1.toRT = .bind ns none :: [] := by rw [e1r, hq1]; rfl
    have hz : hazard s1 .deliverRT = false := by
      simp [hazard, hazardK1, hazardK2, hr1, e1rt, hpend]
    obtain ⟨s2, ns', h2, hi2, e2n, e2q, e2r, hst2, _, _, hm, hc⟩ := deliverRT_bind_ok hi1 hr1 hz
    have hb : s2.rt.binding = s1.nrt.binding := by
      funext x; simp only [RT.binding, hst2, NRT.binding, hst']; rw [binding_congr hm hc]
    refine ⟨s1, s2, h1, (hazard_api s).2.1 a k, h2, hz, hi2, ⟨e2r, by rw [e2q, e1q, hq2]⟩, ?_, ?_⟩
    · intro id; rw [hb]; exact hstop id
    · intro id b hb' hne; rw [hb]; rw [hqb] at hb'; exact hkeep id b hb' hne

/-! ### K1 needs `clear` -/

/-- watches the RT half holds or will receive, plus requests under way -/
def Sys.credits (s : Sys) : Nat := s.rt.watch + watchesOf s.toRT + s.toNRT.length

theorem unMap_queue {n n' : NRT} {a k ms} (h : n.unMap a k = some (n', ms)) :
    n'.learnQ = n.learnQ ∧ watchesOf ms = 0 := by
  cases hl : imLookup n.invMap a with
  | none => simp [NRT.unMap, hl] at h; obtain ⟨rfl, rfl⟩ := h; simp [watchesOf]
  | some im =>
    cases hk : (if k then im.coarse else im.fine) with
    | none =>
      simp only [NRT.unMap, hl, hk] at h
      simp at h; obtain ⟨rfl, rfl⟩ := h; simp [watchesOf]
    | some kid =>
      simp only [NRT.unMap, hl, hk] at h
      cases hs : n.storage with
      | none => simp [hs] at h
      | some st =>
        cases hkm : killMap kid st.mapping with
        | none => simp [hs, hkm] at h
        | some mp =>
          simp [hs, hkm] at h; obtain ⟨rfl, rfl⟩ := h
          simp [watchesOf]

theorem map_queue {n n' : NRT} {a k ms} (h : n.map a k = some (n', ms)) :
    n'.learnQ.length = n.learnQ.length + watchesOf ms := by
  unfold NRT.map at h
  split at h
  · simp at h; obtain ⟨rfl, rfl⟩ := h; simp [watchesOf]
  · cases hu : n.unMap a k with
    | none => simp [hu] at h
    | some r =>
      obtain ⟨n1, ms1⟩ := r
      simp [hu] at h; obtain ⟨rfl, rfl⟩ := h
      obtain ⟨h1, h2⟩ := unMap_queue hu
      simp [watchesOf_append, watchesOf, h1, h2]

theorem finishLearn_queue {n n' : NRT} {ns : Storage} {a k id ms}
    (h : n.finishLearn ns a k id = some (n', ms)) : n'.learnQ = n.learnQ ∧ watchesOf ms = 0 := by
  unfold NRT.finishLearn at h
  cases hl : imLookup n.invMap a with
  | none => simp [hl] at h
  | some im =>
    simp only [hl] at h
    split at h
    · simp at h
    · simp at h; obtain ⟨rfl, rfl⟩ := h; simp [watchesOf]

theorem useFreeID_queue {P : List PortSpec} {n n' : NRT} {id ms} (h : NRT.useFreeID P n id = some (n', ms)) :
    n'.learnQ = n.learnQ.drop 1 ∧ watchesOf ms = 0 := by
  cases hq : n.learnQ with
  | nil => simp [NRT.useFreeID, hq] at h; obtain ⟨rfl, rfl⟩ := h; simp [hq, watchesOf]
  | cons x q =>
    obtain ⟨a, k⟩ := x
    simp only [NRT.useFreeID, hq] at h
    cases hp : P[a]? with
    | none => simp [hp] at h
    | some p =>
      simp only [hp] at h
      split at h
      · simp at h
      · rename_i n1 ns hr
        obtain ⟨h1, h2⟩ := finishLearn_queue h
        refine ⟨?_, h2⟩
        rw [h1]
        split at hr
        · simp [NRT.generateNewBijection] at hr; obtain ⟨rfl, _⟩ := hr; simp
        · cases hs : n.storage <;> simp [hs] at hr
          obtain ⟨rfl, _⟩ := hr; simp

theorem handleCC_credits {r r' : RT} {id val m req} (h : r.handleCC id val = some (r', m, req)) :
    r'.watch + req.toList.length = r.watch := by
  unfold RT.handleCC at h
  have tail : ∀ st' : Option Storage,
      (if !r.pending.contains id ∧ r.watch ≠ 0 then
        some (({ storage := st', pending := pendInsert r.pending id, watch := r.watch - 1 } : RT), (none : Option Msg), some id)
       else some ({ r with storage := st' }, none, none)) = some (r', m, req) →
      r'.watch + req.toList.length = r.watch := by
    intro st' hh
    split at hh
    · rename_i hc
      simp at hh; obtain ⟨rfl, _, rfl⟩ := hh
      simp at hc ⊢; omega
    · simp at hh; obtain ⟨rfl, _, rfl⟩ := hh; simp
  cases hst : r.storage with
  | none => simp only [hst] at h; exact tail none h
  | some st =>
    simp only [hst] at h
    cases hh : st.handleCC id val with
    | none => simp [hh] at h
    | some x =>
      obtain ⟨st2, m2⟩ := x
      simp only [hh, Option.map_some] at h
      cases m2 with
      | some mm => simp at h; obtain ⟨rfl, _, rfl⟩ := h; simp
      | none => exact tail (some st2) h

/-- Without `clear`, watches and queued addresses stay in balance, so a request can never
    meet an empty learn queue: the K1 trigger needs a `clear` in the history. -/
theorem k1_free_without_clear (P : List PortSpec) :
    ∀ (ops : List Op) (s : Sys), Op.clear ∉ ops → s.credits = s.nrt.learnQ.length →
      anyStep hazardK1 P s ops = false := by
  intro ops
  induction ops with
  | nil => intro s _ _; rfl
  | cons op ops ih =>
    intro s hnc hbal
    have hnc' : Op.clear ∉ ops := fun h => hnc (List.mem_cons_of_mem _ h)
    have hop : op ≠ .clear := fun h => hnc (h ▸ List.mem_cons_self)
    simp only [anyStep, Bool.or_eq_false_iff]
    constructor
    · cases op <;> simp [hazardK1]
      intro hne
      cases hq : s.toNRT with
      | nil => simp [hq] at hne
      | cons id rest =>
        intro hl
        simp [Sys.credits, hq] at hbal
        cases hlq : s.nrt.learnQ with
        | nil => rw [hlq] at hbal; simp at hbal
        | cons x q => simp [hlq] at hl
    · cases hs : step P s op with
      | none => rfl
      | some r =>
        obtain ⟨s', out⟩ := r
        simp only
        apply ih s' hnc'
        cases op with
        | clear => exact absurd rfl hop
        | map a k =>
          simp only [step] at hs
          cases hm : s.nrt.map a k with
          | none => simp [hm] at hs
          | some r =>
            obtain ⟨n', ms⟩ := r
            simp [hm] at hs; obtain ⟨rfl, _⟩ := hs
            have := map_queue hm
            simp [Sys.credits, watchesOf_append] at hbal ⊢; omega
        | unmap a k =>
          simp only [step] at hs
          cases hm : s.nrt.unMap a k with
          | none => simp [hm] at hs
          | some r =>
            obtain ⟨n', ms⟩ := r
            simp [hm] at hs; obtain ⟨rfl, _⟩ := hs
            obtain ⟨h1, h2⟩ := unMap_queue hm
            simp [Sys.credits, watchesOf_append, h1, h2] at hbal ⊢; omega
        | cc id val =>
          simp only [step] at hs
          cases hm : s.rt.handleCC id val with
          | none => simp [hm] at hs
          | some r =>
            obtain ⟨r', m, req⟩ := r
            simp [hm] at hs; obtain ⟨rfl, _⟩ := hs
            have := handleCC_credits hm
            simp [Sys.credits] at hbal ⊢; omega
        | deliverRT =>
          simp only [step] at hs
          cases hq : s.toRT with
          | nil => simp [hq] at hs; obtain ⟨rfl, _⟩ := hs; exact hbal
          | cons m rest =>
            simp only [hq] at hs
            cases hr : s.rt.recv m with
            | none => simp [hr] at hs
            | some r' =>
              simp [hr] at hs; obtain ⟨rfl, _⟩ := hs
              cases m with
              | addWatch =>
                simp [RT.recv] at hr; subst hr
                simp [Sys.credits, hq, watchesOf] at hbal ⊢; omega
              | bind ns ans =>
                have hw : r'.watch = s.rt.watch := by
                  simp only [RT.recv] at hr
                  cases hst : s.rt.storage with
                  | none => simp [hst] at hr; subst hr; rfl
                  | some old =>
                    simp only [hst] at hr
                    cases hc : ns.cloneValues old with
                    | none => simp [hc] at hr
                    | some ns' => simp [hc] at hr; subst hr; rfl
                simp [Sys.credits, hq, watchesOf, hw] at hbal ⊢; omega
        | deliverNRT =>
          simp only [step] at hs
          cases hq : s.toNRT with
          | nil => simp [hq] at hs; obtain ⟨rfl, _⟩ := hs; exact hbal
          | cons id rest =>
            simp only [hq] at hs
            cases hu : NRT.useFreeID P s.nrt id with
            | none => simp [hu] at hs
            | some r =>
              obtain ⟨n', ms⟩ := r
              simp [hu] at hs; obtain ⟨rfl, _⟩ := hs
              obtain ⟨h1, h2⟩ := useFreeID_queue hu
              simp [Sys.credits, hq, watchesOf_append, h1, h2] at hbal ⊢
              omega

/-! ### the non-realtime half refines the abstract learn table -/

theorem nrt_binding_none_iff {P n} (h : NrtOk P n) (id : Nat) :
    n.binding id = none ↔ id ∉ ids n.mapping := by
  cases hs : n.storage with
  | none => simp [NRT.binding, NRT.mapping, hs]
  | some st =>
    simp only [NRT.binding, NRT.mapping, hs]
    exact ⟨not_mem_of_binding_none (h.stok st hs), binding_none_of_not_mem⟩

theorem unMap_table {P n a k n' ms} (h : NrtOk P n) (heq : n.unMap a k = some (n', ms)) :
    tableOf n' = (tableOf n).unmap a k := by
  obtain ⟨hkeep, hstop⟩ := unMap_bindings h heq
  obtain ⟨n1, ms1, heq1, hok, hq, _, _, _, hcase⟩ := unMap_ok h a k
  rw [heq] at heq1; cases heq1
  simp only [tableOf, Table.unmap, hq, Table.mk.injEq, true_and]
  funext id
  by_cases hb : n.binding id = some (a, k)
  · simp only [hb, ↓reduceIte]
    cases hb' : n'.binding id with
    | none => rfl
    | some b =>
      exfalso
      -- `id` is the controller that was removed
      rcases hcase with ⟨_, hst⟩ | ⟨c, st, ns, im, hst, _, hl, hs, hns, hst', _⟩
      · have : n'.binding id = n.binding id := by simp [NRT.binding, hst]
        rw [this, hb] at hb'; cases hb'; exact hstop id (by rw [this, hb])
      · obtain ⟨im2, hl2, hs2⟩ := binding_sel h hb
        rw [hl] at hl2; cases hl2; rw [hs] at hs2; cases hs2
        have := (binding_filter st id (List.replicate st.values.length 0)).2
        simp [NRT.binding, hst', hns, this] at hb'
  · simp only [hb, ↓reduceIte]
    cases hb0 : n.binding id with
    | some b => exact hkeep id b hb0 (by intro e; subst e; exact hb hb0)
    | none =>
      rw [nrt_binding_none_iff hok]
      have h0 := (nrt_binding_none_iff h id).mp hb0
      rcases hcase with ⟨_, hst⟩ | ⟨c, st, ns, im, hst, _, _, _, hns, hst', _⟩
      · simpa [NRT.mapping, hst] using h0
      · intro hin
        simp only [NRT.mapping, hst', hns] at hin
        exact h0 (by simpa [NRT.mapping, hst] using (mem_ids_filter.mp hin).1)

theorem map_table {P : List PortSpec} {n a k n' ms} (h : NrtOk P n) (ha : a < P.length)
    (heq : n.map a k = some (n', ms)) : tableOf n' = (tableOf n).map a k := by
  rcases map_ok h a k ha with ⟨hin, heq1⟩ | ⟨hnin, n1, ms1, hun, heq1, _⟩
  · rw [heq] at heq1; cases heq1
    simp [Table.map, tableOf, hin]
  · rw [heq] at heq1; cases heq1
    have := unMap_table h hun
    simp only [tableOf, Table.unmap, Table.mk.injEq] at this
    have hq := (unMap_queue hun).1
    simp only [Table.map, tableOf, hnin, ↓reduceIte, Table.unmap, Table.mk.injEq]
    refine ⟨trivial, ?_⟩
    have hb : ({ n1 with learnQ := n.learnQ ++ [(a, k)] } : NRT).binding = n1.binding := by
      funext x; simp [NRT.binding]
    rw [hb]; exact this.2

theorem useFreeID_table {P n a k q id n' ms} (h : NrtOk P n) (hq : n.learnQ = (a, k) :: q)
    (hid : id ∉ ids n.mapping) (heq : NRT.useFreeID P n id = some (n', ms)) :
    tableOf n' = (tableOf n).learn id := by
  obtain ⟨hb, hold, hq', ns, hst, _⟩ := useFreeID_bindings h hq hid heq
  obtain ⟨n1, ns1, slot, cb, p, extra, heq1, hok, hst1, _, hmp, _⟩ := useFreeID_ok id h hq hid
  rw [heq] at heq1; cases heq1
  simp only [tableOf, Table.learn, hq, hq', Table.mk.injEq, true_and]
  funext x
  by_cases hx : x = id
  · subst hx; simp [hb]
  · simp only [hx, ↓reduceIte]
    cases hb0 : n.binding x with
    | some b => exact hold x b hb0
    | none =>
      rw [nrt_binding_none_iff hok]
      have h0 := (nrt_binding_none_iff h x).mp hb0
      intro hin
      rw [hst] at hst1; cases hst1
      simp only [NRT.mapping, hst, hmp, ids_append, ids_cons, ids_nil, List.mem_append, List.mem_singleton] at hin
      rcases hin with hin | hin
      · exact h0 hin
      · exact hx hin

/-! ### the realtime half always acts on a past snapshot of the non-realtime half -/

/-- what `binding` looks at -/
def viewOf (o : Option Storage) : List MapEnt × List Cb :=
  match o with
  | none => ([], [])
  | some st => (st.mapping, st.callbacks)

theorem binding_of_viewOf {r : RT} {n : NRT} (h : viewOf r.storage = viewOf n.storage) :
    r.binding = n.binding := by
  funext id
  cases h1 : r.storage <;> cases h2 : n.storage <;> simp [h1, h2, viewOf] at h
  · simp [RT.binding, NRT.binding, h1, h2]
  · obtain ⟨e1, e2⟩ := h; simp [RT.binding, NRT.binding, h1, h2, Storage.binding, e1]
  · obtain ⟨e1, e2⟩ := h; simp [RT.binding, NRT.binding, h1, h2, Storage.binding, e1]
  · obtain ⟨e1, e2⟩ := h; simp [RT.binding, NRT.binding, h1, h2, Storage.binding, e1, e2]

theorem unMap_sent {n n' : NRT} {a k ms} (h : n.unMap a k = some (n', ms)) :
    (ms = [] ∧ n'.storage = n.storage) ∨ ∃ st, ms = [.bind st none] ∧ n'.storage = some st := by
  cases hl : imLookup n.invMap a with
  | none => simp [NRT.unMap, hl] at h; obtain ⟨rfl, rfl⟩ := h; simp
  | some im =>
    cases hk : (if k then im.coarse else im.fine) with
    | none =>
      simp only [NRT.unMap, hl, hk] at h
      simp at h; obtain ⟨rfl, rfl⟩ := h; simp
    | some kid =>
      simp only [NRT.unMap, hl, hk] at h
      cases hs : n.storage with
      | none => simp [hs] at h
      | some st =>
        cases hkm : killMap kid st.mapping with
        | none => simp [hs, hkm] at h
        | some mp =>
          simp [hs, hkm] at h; obtain ⟨rfl, rfl⟩ := h
          right; exact ⟨_, rfl, rfl⟩

theorem map_sent {n n' : NRT} {a k ms} (h : n.map a k = some (n', ms)) :
    (flightOf ms = [] ∧ n'.storage = n.storage) ∨
    ∃ st, flightOf ms = [(st, none)] ∧ n'.storage = some st := by
  unfold NRT.map at h
  split at h
  · simp at h; obtain ⟨rfl, rfl⟩ := h; simp [flightOf]
  · cases hu : n.unMap a k with
    | none => simp [hu] at h
    | some r =>
      obtain ⟨n1, ms1⟩ := r
      simp [hu] at h; obtain ⟨rfl, rfl⟩ := h
      rcases unMap_sent hu with ⟨rfl, h2⟩ | ⟨st, rfl, h2⟩
      · left; simp [flightOf, h2]
      · right; exact ⟨st, by simp [flightOf], h2⟩

theorem useFreeID_sent {P : List PortSpec} {n n' : NRT} {id ms} (h : NRT.useFreeID P n id = some (n', ms)) :
    (ms = [] ∧ n'.storage = n.storage) ∨ ∃ st, ms = [.bind st (some id)] ∧ n'.storage = some st := by
  cases hq : n.learnQ with
  | nil => simp [NRT.useFreeID, hq] at h; obtain ⟨rfl, rfl⟩ := h; simp
  | cons x q =>
    obtain ⟨a, k⟩ := x
    simp only [NRT.useFreeID, hq] at h
    cases hp : P[a]? with
    | none => simp [hp] at h
    | some p =>
      simp only [hp] at h
      split at h
      · simp at h
      · rename_i n1 ns _
        unfold NRT.finishLearn at h
        cases hl : imLookup n1.invMap a with
        | none => simp [hl] at h
        | some im =>
          simp only [hl] at h
          split at h
          · simp at h
          · simp at h; obtain ⟨rfl, rfl⟩ := h; right; exact ⟨_, rfl, rfl⟩

/-- the non-realtime states of a history: the current one and all earlier ones -/
def pastNrts (h : List (Sys × Op)) (s : Sys) : List NRT := s.nrt :: h.map (·.1.nrt)

/-- Every snapshot in flight, and the one the realtime half acts on, is (mapping and
    callbacks) the current snapshot of the non-realtime half at some moment of the history:
    whatever the delivery order, hazards or not. -/
theorem views_are_past {P h s} (t : Trace P h s) :
    (∃ n ∈ pastNrts h s, viewOf s.rt.storage = viewOf n.storage) ∧
    (∀ st ans, RtMsg.bind st ans ∈ s.toRT → ∃ n ∈ pastNrts h s, viewOf (some st) = viewOf n.storage) := by
  induction t with
  | init => exact ⟨⟨NRT.init, by simp [pastNrts, Sys.init], rfl⟩, by simp [Sys.init]⟩
  | step t hwf hs ih =>
    rename_i h0 s0 s1 op out
    obtain ⟨⟨nr, hnr, hvr⟩, hfl⟩ := ih
    -- older states stay in the past
    have older : ∀ n, n ∈ pastNrts h0 s0 → n ∈ pastNrts ((s0, op) :: h0) s1 := by
      intro n hn; simp only [pastNrts, List.map_cons, List.mem_cons] at hn ⊢
      rcases hn with rfl | hn
      · exact Or.inr (Or.inl rfl)
      · exact Or.inr (Or.inr hn)
    have cur : s1.nrt ∈ pastNrts ((s0, op) :: h0) s1 := by simp [pastNrts]
    -- steps of the nRT half: RT untouched, channel gets at most one bind = new snapshot
    have nrtStep : ∀ (n' : NRT) (ms : List RtMsg), s1.rt = s0.rt → s1.nrt = n' → s1.toRT = s0.toRT ++ ms →
        ((flightOf ms = [] ∧ n'.storage = s0.nrt.storage) ∨ ∃ st a, flightOf ms = [(st, a)] ∧ n'.storage = some st) →
        (∃ n ∈ pastNrts ((s0, op) :: h0) s1, viewOf s1.rt.storage = viewOf n.storage) ∧
        (∀ st ans, RtMsg.bind st ans ∈ s1.toRT → ∃ n ∈ pastNrts ((s0, op) :: h0) s1, viewOf (some st) = viewOf n.storage) := by
      intro n' ms hrt hn hto hcase
      refine ⟨⟨nr, older nr hnr, by rw [hrt]; exact hvr⟩, ?_⟩
      intro st ans hin
      rw [hto, List.mem_append] at hin
      rcases hin with hin | hin
      · obtain ⟨n, hn', hv⟩ := hfl st ans hin; exact ⟨n, older n hn', hv⟩
      · have hmem : (st, ans) ∈ flightOf ms := by
          clear hcase hto
          induction ms with
          | nil => simp at hin
          | cons m r ihm =>
            cases m with
            | addWatch => simp at hin; simp [flightOf, ihm hin]
            | bind st' a' =>
              simp at hin
              rcases hin with ⟨rfl, rfl⟩ | hin
              · simp [flightOf]
              · simp [flightOf, ihm hin]
        rcases hcase with ⟨he, _⟩ | ⟨st', a', he, hst'⟩
        · rw [he] at hmem; simp at hmem
        · rw [he] at hmem; simp at hmem; obtain ⟨rfl, rfl⟩ := hmem
          exact ⟨s1.nrt, cur, by rw [hn, hst']⟩
    cases op with
    | map a k =>
      simp only [step] at hs
      cases hm : s0.nrt.map a k with
      | none => simp [hm] at hs
      | some r =>
        obtain ⟨n', ms⟩ := r
        simp [hm] at hs; obtain ⟨rfl, _⟩ := hs
        apply nrtStep n' ms rfl rfl rfl
        rcases map_sent hm with h1 | ⟨st, h1, h2⟩
        · exact Or.inl h1
        · exact Or.inr ⟨st, none, h1, h2⟩
    | unmap a k =>
      simp only [step] at hs
      cases hm : s0.nrt.unMap a k with
      | none => simp [hm] at hs
      | some r =>
        obtain ⟨n', ms⟩ := r
        simp [hm] at hs; obtain ⟨rfl, _⟩ := hs
        apply nrtStep n' ms rfl rfl rfl
        rcases unMap_sent hm with ⟨rfl, h2⟩ | ⟨st, rfl, h2⟩
        · exact Or.inl ⟨rfl, h2⟩
        · exact Or.inr ⟨st, none, rfl, h2⟩
    | clear =>
      simp [step, NRT.clear] at hs; obtain ⟨rfl, _⟩ := hs
      exact nrtStep _ [.bind Storage.empty none] rfl rfl rfl (Or.inr ⟨Storage.empty, none, rfl, rfl⟩)
    | deliverNRT =>
      simp only [step] at hs
      cases hq : s0.toNRT with
      | nil =>
        simp [hq] at hs; obtain ⟨rfl, _⟩ := hs
        exact nrtStep s0.nrt [] rfl rfl (by simp) (Or.inl ⟨rfl, rfl⟩)
      | cons id rest =>
        simp only [hq] at hs
        cases hu : NRT.useFreeID P s0.nrt id with
        | none => simp [hu] at hs
        | some r =>
          obtain ⟨n', ms⟩ := r
          simp [hu] at hs; obtain ⟨rfl, _⟩ := hs
          apply nrtStep n' ms rfl rfl rfl
          rcases useFreeID_sent hu with ⟨rfl, h2⟩ | ⟨st, rfl, h2⟩
          · exact Or.inl ⟨rfl, h2⟩
          · exact Or.inr ⟨st, some id, rfl, h2⟩
    | cc id val =>
      simp only [step] at hs
      cases hm : s0.rt.handleCC id val with
      | none => simp [hm] at hs
      | some r =>
        obtain ⟨r', m, req⟩ := r
        simp [hm] at hs; obtain ⟨rfl, _⟩ := hs
        have hview : viewOf r'.storage = viewOf s0.rt.storage := by
          have i0 := inv0_of_reach (reach_of_trace t)
          unfold RT.handleCC at hm
          cases hst : s0.rt.storage with
          | none =>
            simp [hst] at hm
            split at hm <;> (simp at hm; obtain ⟨rfl, _⟩ := hm; rfl)
          | some st =>
            simp only [hst] at hm
            cases hh : st.handleCC id val with
            | none => simp [hh] at hm
            | some y =>
              obtain ⟨st2, m2⟩ := y
              obtain ⟨_, a2, a3⟩ := handleCC_small (st := st) hwf (i0.rt st hst).2 hh
              simp only [hh, Option.map_some] at hm
              cases m2 with
              | some mm => simp at hm; obtain ⟨rfl, _⟩ := hm; simp [viewOf, a2, a3]
              | none =>
                simp only at hm
                split at hm <;> (simp at hm; obtain ⟨rfl, _⟩ := hm; simp [viewOf, a2, a3])
        refine ⟨⟨nr, older nr hnr, by simp only; rw [hview]; exact hvr⟩, ?_⟩
        intro st ans hin
        obtain ⟨n, hn', hv⟩ := hfl st ans hin; exact ⟨n, older n hn', hv⟩
    | deliverRT =>
      simp only [step] at hs
      cases hq : s0.toRT with
      | nil =>
        simp [hq] at hs; obtain ⟨rfl, _⟩ := hs
        exact ⟨⟨nr, older nr hnr, hvr⟩, fun st ans hin => by
          obtain ⟨n, hn', hv⟩ := hfl st ans hin; exact ⟨n, older n hn', hv⟩⟩
      | cons m rest =>
        simp only [hq] at hs
        cases hr : s0.rt.recv m with
        | none => simp [hr] at hs
        | some r' =>
          simp [hr] at hs; obtain ⟨rfl, _⟩ := hs
          have hrest : ∀ st ans, RtMsg.bind st ans ∈ rest →
              ∃ n ∈ pastNrts ((s0, Op.deliverRT) :: h0) { s0 with rt := r', toRT := rest },
                viewOf (some st) = viewOf n.storage := by
            intro st ans hin
            obtain ⟨n, hn', hv⟩ := hfl st ans (by rw [hq]; exact List.mem_cons_of_mem _ hin)
            exact ⟨n, older n hn', hv⟩
          refine ⟨?_, hrest⟩
          cases m with
          | addWatch =>
            simp [RT.recv] at hr; subst hr
            exact ⟨nr, older nr hnr, hvr⟩
          | bind ns ans =>
            obtain ⟨n, hn', hv⟩ := hfl ns ans (by rw [hq]; exact List.mem_cons_self)
            have hview : viewOf r'.storage = viewOf (some ns) := by
              simp only [RT.recv] at hr
              cases hst : s0.rt.storage with
              | none => simp [hst] at hr; subst hr; rfl
              | some old =>
                simp only [hst] at hr
                cases hc : ns.cloneValues old with
                | none => simp [hc] at hr
                | some ns' =>
                  simp [hc] at hr; subst hr
                  unfold Storage.cloneValues at hc
                  split at hc
                  · simp at hc
                  · simp at hc; subst hc; rfl
            exact ⟨n, older n hn', by simp only; rw [hview]; exact hv⟩

/-! ### the history of a concrete run, as data -/

/-- the (state before, op) pairs of a run, most recent first -/
def histOf (P : List PortSpec) : Sys → List Op → List (Sys × Op)
  | _, [] => []
  | s, op :: ops =>
    match step P s op with
    | none => []
    | some (s', _) => histOf P s' ops ++ [(s, op)]

theorem trace_histOf {P : List PortSpec} :
    ∀ (ops : List Op) (h0 : List (Sys × Op)) (s0 s : Sys) (outs : List (List Msg)),
      Trace P h0 s0 → (∀ op ∈ ops, op.wf P) → run P s0 ops = some (s, outs) →
      Trace P (histOf P s0 ops ++ h0) s := by
  intro ops
  induction ops with
  | nil =>
    intro h0 s0 s outs t _ hr
    simp only [run, Option.some.injEq, Prod.mk.injEq] at hr
    obtain ⟨rfl, _⟩ := hr
    simpa [histOf] using t
  | cons op ops ih =>
    intro h0 s0 s outs t hwf hr
    simp only [run] at hr
    cases hs : step P s0 op with
    | none => simp [hs] at hr
    | some r =>
      obtain ⟨s1, out⟩ := r
      simp only [hs] at hr
      cases hr2 : run P s1 ops with
      | none => simp [hr2] at hr
      | some r2 =>
        obtain ⟨s2, outs2⟩ := r2
        simp only [hr2, Option.some.injEq, Prod.mk.injEq] at hr
        obtain ⟨rfl, _⟩ := hr
        have t1 : Trace P ((s0, op) :: h0) s1 := Trace.step t (hwf op List.mem_cons_self) hs
        have := ih ((s0, op) :: h0) s1 s2 outs2 t1 (fun o ho => hwf o (List.mem_cons_of_mem _ ho)) hr2
        simpa [histOf, hs] using this

instance (h : List (Sys × Op)) (id : Nat) : Decidable (Assigned h id) := by
  unfold Assigned; infer_instance

theorem step_one_msg {P s op} (h : (step P s op).map (fun r => r.2.length) = some 1) :
    ∃ s' m, step P s op = some (s', [m]) := by
  cases hs : step P s op with
  | none => simp [hs] at h
  | some r =>
    obtain ⟨s', out⟩ := r
    simp [hs] at h
    match out, h with
    | [m], _ => exact ⟨s', m, rfl⟩

/-! ### plumbing for the concrete witnesses of Props/C20.lean -/

instance (s : Sys) : Decidable s.quiescent := by unfold Sys.quiescent; infer_instance

/-- port table of the witnesses: `p0:i` 0..127, `p1:f` -1..1, `p2:f` 0..1 -/
def exPorts : List PortSpec := [⟨true, 0, 1016⟩, ⟨false, -8, 8⟩, ⟨false, 0, 8⟩]

theorem wf_all (ops : List Op) (h : ops.all (fun op => decide (op.wf exPorts)) = true) :
    ∀ op ∈ ops, op.wf exPorts := by
  intro op hop; have := List.all_eq_true.mp h op hop; simpa using this

/-- a concrete run is a history, and that history is data (`histOf`) -/
theorem trace_of_concrete_run {ops : List Op} (hwf : ops.all (fun op => decide (op.wf exPorts)) = true)
    (hsome : (run exPorts Sys.init ops).isSome = true) :
    Trace exPorts (histOf exPorts Sys.init ops) (((run exPorts Sys.init ops).map (·.1)).getD Sys.init) := by
  cases hr : run exPorts Sys.init ops with
  | none => simp [hr] at hsome
  | some r =>
    have t := trace_histOf ops [] Sys.init r.1 r.2 Trace.init (wf_all ops hwf) hr
    simpa using t

end Rtosc.Midi
