/-
  C09 helper lemmas, part 5: a reported address against C05's model of `rtosc_match_path`.
  `WName.toPat` is the table string (`toPat_cstr`) and of C05's documented form
  (`toPat_wf0`); every expansion spells it (`spells_parts`); hence the matcher accepts it and
  `*path_end` is where the rest of the address starts.
-/
import RtoscModel.Proofs.WalkTree
import RtoscModel.Props.C05
namespace Rtosc.Walk
open Rtosc Rtosc.Path Rtosc.Match

theorem renderSegs_append (a b : List Seg) : renderSegs (a ++ b) = renderSegs a ++ renderSegs b := by
  induction a with
  | nil => rfl
  | cons s r ih => simp [renderSegs, ih]

theorem renderSegs_litSeg (t : Bytes) : renderSegs (litSeg t) = t := by
  cases t with
  | nil => rfl
  | cons c r => simp [litSeg, renderSegs, Seg.render]

theorem renderSegs_partSegs (ps : List (Bytes × Bytes)) : renderSegs (partSegs ps) = renderParts ps := by
  induction ps with
  | nil => rfl
  | cons p r ih =>
    obtain ⟨ds, t⟩ := p
    simp [partSegs, renderSegs, Seg.render, renderSegs_append, renderSegs_litSeg, ih, renderParts]

/-- the pattern C05 talks about is the string in the port table -/
theorem toPat_cstr (w : WName) : w.toPat.cstr = w.render ++ [0] := by
  obtain ⟨head, parts, slash, types⟩ := w
  cases slash <;>
    simp [Pat.cstr, Pat.render, WName.toPat, Pat.tail, renderSegs_append, renderSegs_litSeg,
      renderSegs_partSegs, WName.render, WName.body, slashIf]

/-! ### the pattern is of C05's documented form -/

theorem litSeg_wf {t : Bytes} (h : textOk t = true) : ∀ s ∈ litSeg t, s.wf = true := by
  intro s hs
  cases t with
  | nil => simp [litSeg] at hs
  | cons c r =>
    simp only [litSeg, List.isEmpty_cons, Bool.false_eq_true, ↓reduceIte, List.mem_singleton] at hs
    subst hs
    simpa [Seg.wf, textOk] using h

theorem numOk_wf {ds : Bytes} (h : numOk ds = true) : (Seg.enum ds).wf = true := by
  simpa [Seg.wf, numOk] using h

theorem lit_wf {t : Bytes} (h : textOk t = true) (hne : t ≠ []) : (Seg.lit t).wf = true := by
  cases t with
  | nil => exact absurd rfl hne
  | cons c r => simpa [Seg.wf, textOk] using h

theorem segsWf_parts (sub : Bool) : ∀ (ps : List (Bytes × Bytes)), partsOk ps = true →
    (sub = true ∨ ∀ p, ps.getLast? = some p → p.2.getLast? ≠ some 47) →
    segsWf sub (partSegs ps) = true := by
  intro ps
  induction ps with
  | nil => intros; rfl
  | cons p r ih =>
    obtain ⟨ds, t⟩ := p
    intro hok hlast
    obtain ⟨hnum, htext, htd, htr, hrest⟩ := partsOk_cons hok
    have hsub : (sub || decide (t.getLast? ≠ some 47)) = true ∨ r ≠ [] := by
      cases r with
      | cons _ _ => exact Or.inr (by simp)
      | nil =>
        left
        rcases hlast with h | h
        · simp [h]
        · have := h (ds, t) (by simp)
          simp [this]
    cases t with
    | nil =>
      have hr : r = [] := by
        rcases htr with h | h
        · exact absurd rfl h
        · exact h
      subst hr
      simp [partSegs, litSeg, segsWf, numOk_wf hnum]
    | cons c tr =>
      have hlw := lit_wf htext (by simp : c :: tr ≠ [])
      have hsd : (Seg.lit (c :: tr)).startsWithDigit = false := by simpa [Seg.startsWithDigit, startsWithDigit] using htd
      cases r with
      | nil =>
        rcases hsub with h | h
        · simp only [Bool.or_eq_true, decide_eq_true_eq] at h
          simp only [partSegs, litSeg, List.isEmpty_cons, Bool.false_eq_true, ↓reduceIte, List.append_nil,
            List.singleton_append, segsWf, numOk_wf hnum, hsd, Bool.not_false, Bool.and_self, hlw, Bool.true_and,
            Bool.or_eq_true, bne_iff_ne, ne_eq]
          rcases h with h | h
          · exact Or.inl h
          · exact Or.inr h
        · exact absurd rfl h
      | cons p' r' =>
        obtain ⟨ds', t'⟩ := p'
        have := ih hrest (by
          rcases hlast with h | h
          · exact Or.inl h
          · right; intro p hp; exact h p (by simpa [List.getLast?_cons_cons] using hp))
        simp only [partSegs] at this
        simp only [partSegs, litSeg, List.isEmpty_cons, Bool.false_eq_true, ↓reduceIte, List.singleton_append,
          List.cons_append, List.nil_append, segsWf, numOk_wf hnum, hsd, Bool.not_false, Bool.and_self, hlw,
          Bool.true_and, Bool.and_true]
        exact this

theorem typesOk_wf {ty : Option (List Bytes)} (h : typesOk ty = true) : typesWf ty = true := by
  cases ty with
  | none => rfl
  | some ts =>
    simp only [typesOk, Bool.and_eq_true] at h
    simp only [typesWf, Bool.and_eq_true]
    refine ⟨h.1, ?_⟩
    apply List.all_eq_true.mpr
    intro t ht
    apply List.all_eq_true.mpr
    intro c hc
    have := List.all_eq_true.mp (List.all_eq_true.mp h.2 t ht) c hc
    simp only [Bool.and_eq_true] at this
    exact this.1

theorem toPat_wf0 {w : WName} (h : w.ok = true) : w.toPat.WF0 := by
  obtain ⟨hhead, hparts, htypes⟩ := WName.ok_spec h
  have hl : w.slash = true ∨ w.lastText.getLast? ≠ some 47 := by
    simp only [WName.ok, Bool.and_eq_true, Bool.or_eq_true, bne_iff_ne, ne_eq] at h
    exact h.2
  have hps : segsWf w.slash (partSegs w.parts) = true := by
    apply segsWf_parts _ _ hparts
    rcases hl with h1 | h1
    · exact Or.inl h1
    · right
      intro p hp
      simpa [WName.lastText, hp] using h1
  simp only [Pat.WF0, Pat.wf0, WName.toPat, Bool.and_eq_true]
  refine ⟨?_, typesOk_wf htypes⟩
  cases hh : w.head with
  | nil => simpa [litSeg] using hps
  | cons c tr =>
    have hlw : (Seg.lit (c :: tr)).wf = true := lit_wf (by rw [← hh]; exact hhead) (by simp)
    cases hp : w.parts with
    | nil =>
      simp only [litSeg, List.isEmpty_cons, Bool.false_eq_true, ↓reduceIte, partSegs, List.append_nil, segsWf,
        hlw, Bool.true_and, Bool.or_eq_true, bne_iff_ne, ne_eq]
      rcases hl with h1 | h1
      · exact Or.inl h1
      · right; simpa [WName.lastText, hp, hh] using h1
    | cons p r =>
      obtain ⟨ds, t⟩ := p
      rw [hp] at hps
      have hps' : segsWf w.slash (Seg.enum ds :: (litSeg t ++ partSegs r)) = true := by
        simpa [partSegs] using hps
      show segsWf w.slash (litSeg (c :: tr) ++ partSegs ((ds, t) :: r)) = true
      have e : litSeg (c :: tr) ++ partSegs ((ds, t) :: r) = Seg.lit (c :: tr) :: Seg.enum ds :: (litSeg t ++ partSegs r) := by
        simp [litSeg, partSegs]
      rw [e]
      simp only [segsWf, hlw, Bool.true_and, Bool.and_true]
      exact hps'
theorem spells_litSeg (t : Bytes) {segs : List Seg} {a r : Bytes} (h : SpellsAll segs a r) :
    SpellsAll (litSeg t ++ segs) (t ++ a) r := by
  cases t with
  | nil => simpa [litSeg] using h
  | cons c tr => simpa [litSeg] using SpellsAll.lit (c :: tr) h

/-- every expansion spells the enumerations of the name; `x` is what follows in the address -/
theorem spells_parts : ∀ (ps : List (Bytes × Bytes)) (a x : Bytes), partsOk ps = true →
    a ∈ expandParts ps → startsWithDigit x = false → SpellsAll (partSegs ps) (a ++ x) x := by
  intro ps
  induction ps with
  | nil =>
    intro a x _ ha _
    simp [expandParts] at ha
    subst ha
    exact SpellsAll.nil x
  | cons p r ih =>
    obtain ⟨ds, t⟩ := p
    intro a x hok ha hx
    obtain ⟨hnum, htext, htd, htr, hrest⟩ := partsOk_cons hok
    simp only [expandParts, List.mem_flatMap, List.mem_range, List.mem_map] at ha
    obtain ⟨i, hi, a', ha', rfl⟩ := ha
    have hsp := spells_litSeg t (ih a' x hrest ha' hx)
    have e : natDigits i ++ t ++ a' ++ x = natDigits i ++ (t ++ (a' ++ x)) := by simp
    rw [e]
    refine SpellsAll.enum ds (natDigits i) (natDigits_ne_nil i) (natDigits_digits i) ?_
      (by rw [decVal_natDigits]; exact hi) hsp
    intro c tl hc
    have hsd : startsWithDigit (t ++ (a' ++ x)) = false := by
      cases t with
      | cons c' tr => simpa [startsWithDigit] using htd
      | nil =>
        have hr : r = [] := by
          rcases htr with h | h
          · exact absurd rfl h
          · exact h
        subst hr
        simp [expandParts] at ha'
        subst ha'
        simpa using hx
    rw [hc] at hsd
    simpa [startsWithDigit] using hsd

theorem partSegs_prefixFree (ps : List (Bytes × Bytes)) : segsPrefixFree (partSegs ps) = true := by
  induction ps with
  | nil => rfl
  | cons p r ih =>
    obtain ⟨ds, t⟩ := p
    cases t with
    | nil => simpa [partSegs, litSeg, segsPrefixFree, Seg.prefixFree] using ih
    | cons c tr => simpa [partSegs, litSeg, segsPrefixFree, Seg.prefixFree] using ih

theorem toPat_prefixFree (w : WName) : segsPrefixFree w.toPat.segs = true := by
  have := partSegs_prefixFree w.parts
  cases hh : w.head with
  | nil => simpa [WName.toPat, hh, litSeg] using this
  | cons c tr =>
    simp only [segsPrefixFree] at this
    simp [WName.toPat, hh, litSeg, segsPrefixFree, Seg.prefixFree, this]

/-- the whole name is spelled by head + expansion -/
theorem spells_name (w : WName) (hok : w.ok = true) (a x : Bytes) (ha : a ∈ expandParts w.parts)
    (hx : startsWithDigit x = false) : SpellsAll w.toPat.segs (w.head ++ a ++ x) x := by
  obtain ⟨_, hparts, _⟩ := WName.ok_spec hok
  have := spells_litSeg w.head (spells_parts w.parts a x hparts ha hx)
  simpa [WName.toPat] using this

/-- `rtosc_match_path` on a sub-tree port and an address that continues behind its '/':
    accepted, `*path_end` is the rest -/
theorem path_sub (w : WName) (hok : w.ok = true) (hslash : w.slash = true) (a rest ex : Bytes)
    (ha : a ∈ expandParts w.parts) (hnul : NulFree (w.head ++ a ++ 47 :: rest))
    (hb : IdxBounded (w.head ++ a ++ 47 :: rest)) :
    Match.path (w.render ++ [0]) ((w.head ++ a ++ 47 :: rest) ++ 0 :: ex) =
      .ok (renderTypes w.types ++ [0], rest ++ 0 :: ex) := by
  have hsp := spells_name w hok a (47 :: rest) ha (startsWithDigit_slash rest)
  have hg := greedy_complete w.toPat.sub [] hsp (toPat_prefixFree w)
  rw [List.append_nil] at hg
  rw [← toPat_cstr, path_rendered (toPat_wf0 hok) ex hnul hb, hg]
  simp [greedy, WName.toPat, hslash]

/-- … and on a leaf port and its whole address -/
theorem path_leaf (w : WName) (hok : w.ok = true) (a ex : Bytes)
    (ha : a ∈ expandParts w.parts) (hnul : NulFree (w.head ++ a ++ slashIf w.slash))
    (hb : IdxBounded (w.head ++ a ++ slashIf w.slash)) :
    Accepts w.render (w.head ++ a ++ slashIf w.slash) ex := by
  have hsp := spells_name w hok a (slashIf w.slash) ha (startsWithDigit_slashIf _)
  have hg := greedy_complete w.toPat.sub [] hsp (toPat_prefixFree w)
  rw [List.append_nil] at hg
  unfold Accepts
  rw [← toPat_cstr, path_rendered (toPat_wf0 hok) ex hnul hb, hg]
  cases hs : w.slash <;> simp [greedy, WName.toPat, hs, slashIf]


theorem toPorts_getElem? (ts : List STree) (n : Nat) : (toPorts ts)[n]? = (ts[n]?).map STree.toPort := by
  induction ts generalizing n with
  | nil => simp [toPorts]
  | cons t r ih =>
    cases n with
    | zero => simp [toPorts]
    | succ n => simp [toPorts, ih]

theorem toPort_name (t : STree) : t.toPort.name = t.name.render := by
  cases t <;> simp [STree.toPort, STree.name, PortT.name]

theorem toPort_hasPorts_leaf (w : WName) (md : Option Bytes) : (STree.leaf w md).toPort.hasPorts = false := by
  simp [STree.toPort, PortT.hasPorts]

theorem toPort_sub (w : WName) (md : Option Bytes) (kids : List STree) :
    (STree.sub w md kids).toPort.hasPorts = true ∧ (STree.sub w md kids).toPort.children = toPorts kids := by
  simp [STree.toPort, PortT.hasPorts, PortT.children]

theorem wfList_get {ts : List STree} (h : wfList ts = true) {n : Nat} {t : STree} (ht : ts[n]? = some t) :
    t.wf = true := by
  induction ts generalizing n with
  | nil => simp at ht
  | cons u r ih =>
    simp only [wfList, Bool.and_eq_true] at h
    cases n with
    | zero => simp at ht; subst ht; exact h.1
    | succ n => simp at ht; exact ih h.2 ht

theorem wf_name_ok {t : STree} (h : t.wf = true) : t.name.ok = true := by
  cases t with
  | leaf w md => simpa [STree.wf, WName.leafOk, STree.name] using h
  | sub w md kids =>
    simp only [STree.wf, Bool.and_eq_true] at h
    exact (WName.subOk_spec h.1).1

theorem kidsApart_get {ts : List STree} (h : kidsApart ts) {n : Nat} {w : WName} {md : Option Bytes}
    {kids : List STree} (ht : ts[n]? = some (.sub w md kids)) : SiblingsApart kids := by
  induction ts generalizing n with
  | nil => simp at ht
  | cons u r ih =>
    cases n with
    | zero =>
      simp at ht; subst ht
      simp only [kidsApart] at h
      exact h.1
    | succ n =>
      simp at ht
      cases u with
      | leaf _ _ => simp only [kidsApart] at h; exact ih h ht
      | sub _ _ _ => simp only [kidsApart] at h; exact ih h.2 ht

theorem siblingsApart_spec {ts : List STree} (h : SiblingsApart ts) :
    (∀ (i j : Nat) (t u : STree), i ≠ j → ts[i]? = some t → ts[j]? = some u → Apart t.name u.name) ∧ kidsApart ts := by
  unfold SiblingsApart at h
  exact h

theorem mem_enumList (pre : Bytes) (path : List Nat) (c : Call) : ∀ (ts : List STree) (i0 : Nat),
    c ∈ enumList pre path ts i0 ↔ ∃ n t, ts[n]? = some t ∧ c ∈ enumTree pre (path ++ [i0 + n]) t := by
  intro ts
  induction ts with
  | nil => intro i0; simp [enumList]
  | cons u r ih =>
    intro i0
    simp only [enumList, List.mem_append, ih]
    constructor
    · rintro (h | ⟨n, t, h1, h2⟩)
      · exact ⟨0, u, by simp, by simpa using h⟩
      · exact ⟨n + 1, t, by simpa using h1, by
          have : i0 + (n + 1) = i0 + 1 + n := by omega
          rw [this]; exact h2⟩
    · rintro ⟨n, t, h1, h2⟩
      cases n with
      | zero => simp at h1; subst h1; left; simpa using h2
      | succ n =>
        right
        refine ⟨n, t, by simpa using h1, ?_⟩
        have : i0 + (n + 1) = i0 + 1 + n := by omega
        rw [this] at h2; exact h2

/-- the "no other row accepts" half, from `Apart` -/
theorem no_other (only : Bool) (ex : Bytes) (tab : List STree) (n : Nat) (t : STree) (rel : Bytes)
    (ht : tab[n]? = some t) (hwf : wfList tab = true) (hs : only = true → SiblingsApart tab)
    (hspec : PathSpec t.name.toPat rel) (hnul : NulFree rel) (hb : IdxBounded rel) :
    only = true → ∀ j q, j ≠ n → (toPorts tab)[j]? = some q → ¬ Accepts q.name rel ex := by
  intro ho j q hj hq hacc
  rw [toPorts_getElem?] at hq
  cases hu : tab[j]? with
  | none => simp [hu] at hq
  | some u =>
    simp only [hu, Option.map_some, Option.some.injEq] at hq
    subst hq
    rw [toPort_name] at hacc
    have huok := wf_name_ok (wfList_get hwf hu)
    have hm : PathMatches u.name.toPat.cstr (rel ++ 0 :: ex) := by
      rw [toPat_cstr]; exact hacc
    have hps := match_sound (toPat_wf0 huok) ex hnul hb hm
    exact (siblingsApart_spec (hs ho)).1 n j t u (Ne.symm hj) ht hu rel ⟨hspec, hps⟩


theorem nulFree_append_left {a b : Bytes} (h : NulFree (a ++ b)) : NulFree a :=
  fun c hc => h c (List.mem_append_left _ hc)
theorem nulFree_append_right {a b : Bytes} (h : NulFree (a ++ b)) : NulFree b :=
  fun c hc => h c (List.mem_append_right _ hc)

mutual
theorem delivers_list (only : Bool) (ex : Bytes) : ∀ (ts front : List STree) (pre : Bytes) (path ix : List Nat)
    (addr : Bytes), wfList (front ++ ts) = true → (only = true → SiblingsApart (front ++ ts)) →
    (ix, addr) ∈ enumList pre path ts front.length →
    ∃ n ixr rel, ix = path ++ n :: ixr ∧ addr = pre ++ rel ∧ NulFree rel ∧
      (IdxBounded rel → Delivers only ex (n :: ixr) (toPorts (front ++ ts)) rel)
  | [], _, _, _, _, _, _, _, h => by simp [enumList] at h
  | t :: r, front, pre, path, ix, addr, hwf, hs, h => by
    simp only [enumList, List.mem_append] at h
    rcases h with h | h
    · have hget : (front ++ t :: r)[front.length]? = some t := by simp
      obtain ⟨ixr, rel, h1, h2, h3, h4⟩ := delivers_tree only ex t (front ++ t :: r) front.length pre path ix addr hget hwf hs h
      exact ⟨front.length, ixr, rel, h1, h2, h3, h4⟩
    · have e : front ++ t :: r = (front ++ [t]) ++ r := by simp
      have el : front.length + 1 = (front ++ [t]).length := by simp
      rw [e] at hwf hs ⊢
      rw [el] at h
      exact delivers_list only ex r (front ++ [t]) pre path ix addr hwf hs h
theorem delivers_tree (only : Bool) (ex : Bytes) : ∀ (t : STree) (tab : List STree) (n : Nat) (pre : Bytes)
    (path ix : List Nat) (addr : Bytes), tab[n]? = some t → wfList tab = true →
    (only = true → SiblingsApart tab) → (ix, addr) ∈ enumTree pre (path ++ [n]) t →
    ∃ ixr rel, ix = path ++ n :: ixr ∧ addr = pre ++ rel ∧ NulFree rel ∧
      (IdxBounded rel → Delivers only ex (n :: ixr) (toPorts tab) rel)
  | .leaf w md, tab, n, pre, path, ix, addr, ht, hwf, hs, h => by
    simp only [enumTree, List.mem_map, Prod.mk.injEq] at h
    obtain ⟨a, ha, h1, h2⟩ := h
    have hok : w.ok = true := wf_name_ok (t := .leaf w md) (wfList_get hwf ht)
    obtain ⟨hhead, hparts, _⟩ := WName.ok_spec hok
    have hnul : NulFree (w.head ++ a ++ slashIf w.slash) :=
      NulFree.append (NulFree.append (textOk_nulfree hhead) (expandParts_nulfree w.parts hparts a ha)) (nulFree_slashIf _)
    refine ⟨[], w.head ++ a ++ slashIf w.slash, by simp [← h1], by simp [← h2], hnul, ?_⟩
    intro hb
    simp only [Delivers]
    refine ⟨(STree.leaf w md).toPort, by simp [toPorts_getElem?, ht], toPort_hasPorts_leaf w md, ?_, ?_⟩
    · rw [toPort_name]; exact path_leaf w hok a ex ha hnul hb
    · have hsp := spells_name w hok a (slashIf w.slash) ha (startsWithDigit_slashIf _)
      have hspec : PathSpec (STree.leaf w md).name.toPat (w.head ++ a ++ slashIf w.slash) := by
        refine ⟨slashIf w.slash, hsp, ?_⟩
        cases hsl : w.slash <;> simp [WName.toPat, STree.name, hsl, slashIf]
      exact no_other only ex tab n _ _ ht hwf hs hspec hnul hb
  | .sub w md kids, tab, n, pre, path, ix, addr, ht, hwf, hs, h => by
    have hwft := wfList_get hwf ht
    have hok : w.ok = true := wf_name_ok (t := .sub w md kids) hwft
    simp only [STree.wf, Bool.and_eq_true] at hwft
    obtain ⟨_, _, hslash, _⟩ := WName.subOk_spec hwft.1
    simp only [enumTree, List.mem_flatMap] at h
    obtain ⟨a, ha, h⟩ := h
    have hs' : only = true → SiblingsApart ([] ++ kids) := by
      intro ho
      simpa using kidsApart_get (siblingsApart_spec (hs ho)).2 ht
    obtain ⟨m, ixr, rel', h1, h2, hnul', h3⟩ := delivers_list only ex kids [] (pre ++ w.head ++ a ++ [47]) (path ++ [n]) ix addr
      (by simpa using hwft.2) hs' (by simpa using h)
    obtain ⟨hhead, hparts, _⟩ := WName.ok_spec hok
    have hnul : NulFree (w.head ++ a ++ 47 :: rel') := by
      have e : w.head ++ a ++ 47 :: rel' = (w.head ++ a ++ [47]) ++ rel' := by simp
      rw [e]
      exact NulFree.append (NulFree.append (NulFree.append (textOk_nulfree hhead)
        (expandParts_nulfree w.parts hparts a ha)) nulFree_slash) hnul'
    refine ⟨m :: ixr, w.head ++ a ++ 47 :: rel', by simp [h1], by simp [h2], hnul, ?_⟩
    intro hb
    have hb' : IdxBounded rel' := by
      have e : w.head ++ a ++ 47 :: rel' = (w.head ++ a ++ [47]) ++ rel' := by simp
      rw [e] at hb
      exact hb.suffix
    simp only [Delivers]
    refine ⟨(STree.sub w md kids).toPort, renderTypes w.types ++ [0], rel', by simp [toPorts_getElem?, ht],
      (toPort_sub w md kids).1, ?_, ?_, ?_⟩
    · rw [toPort_name]; exact path_sub w hok hslash a rel' ex ha hnul hb
    · have hsp := spells_name w hok a (47 :: rel') ha (startsWithDigit_slash rel')
      have hspec : PathSpec (STree.sub w md kids).name.toPat (w.head ++ a ++ 47 :: rel') :=
        ⟨47 :: rel', hsp, by simp [WName.toPat, STree.name, hslash]⟩
      exact no_other only ex tab n _ _ ht hwf hs hspec hnul hb
    · rw [(toPort_sub w md kids).2]
      simpa using h3 hb'
end


theorem head_prefix {w : WName} {a : Bytes} (h : PathSpec w.toPat a) : w.head <+: a := by
  obtain ⟨rest, hsp, _⟩ := h
  cases hh : w.head with
  | nil => exact List.nil_prefix
  | cons c tr =>
    simp only [WName.toPat, hh, litSeg, List.isEmpty_cons, Bool.false_eq_true, ↓reduceIte,
      List.singleton_append] at hsp
    cases hsp with
    | lit s _ => exact List.prefix_append _ _

/-- the decidable criterion is sufficient -/
theorem apart_of_heads {w v : WName} (h : headsApart w v = true) : Apart w v := by
  intro a ⟨h1, h2⟩
  simp only [headsApart, Bool.and_eq_true, Bool.not_eq_eq_eq_not, Bool.not_true] at h
  have p1 := head_prefix h1
  have p2 := head_prefix h2
  rcases Nat.le_total w.head.length v.head.length with hl | hl
  · have := List.isPrefixOf_iff_prefix.mpr (List.prefix_of_prefix_length_le p1 p2 hl)
    rw [this] at h; exact absurd h.1 (by simp)
  · have := List.isPrefixOf_iff_prefix.mpr (List.prefix_of_prefix_length_le p2 p1 hl)
    rw [this] at h; exact absurd h.2 (by simp)


/-! ### the walk as a whole -/

theorem expandFirst_eq_expandParts (ps : List (Bytes × Bytes)) (h : ps.length ≤ 1) :
    expandFirst ps = expandParts ps := by
  cases ps with
  | nil => rfl
  | cons p r =>
    obtain ⟨ds, t⟩ := p
    cases r with
    | nil =>
      simp only [expandFirst, expandParts, renderParts, List.append_nil, List.map_cons, List.map_nil]
      generalize List.range (decVal ds) = l
      induction l with
      | nil => rfl
      | cons i l ih => simp [ih]
    | cons _ _ => simp at h

mutual
theorem codeList_eq_enumList : ∀ (ts : List STree) (pre : Bytes) (path : List Nat) (i : Nat),
    multiHashLeafList ts = false → codeList pre path ts i = enumList pre path ts i
  | [], _, _, _, _ => rfl
  | t :: r, pre, path, i, h => by
    simp only [multiHashLeafList, Bool.or_eq_false_iff] at h
    simp only [codeList, enumList, codeTree_eq_enumTree t pre (path ++ [i]) h.1, codeList_eq_enumList r pre path (i + 1) h.2]
theorem codeTree_eq_enumTree : ∀ (t : STree) (pre : Bytes) (ix : List Nat),
    t.multiHashLeaf = false → codeTree pre ix t = enumTree pre ix t
  | .leaf w md, pre, ix, h => by
    simp only [STree.multiHashLeaf, decide_eq_false_iff_not, Nat.not_le] at h
    simp only [codeTree, enumTree, expandFirst_eq_expandParts w.parts (by omega)]
  | .sub w md kids, pre, ix, h => by
    simp only [STree.multiHashLeaf] at h
    simp only [codeTree, enumTree]
    congr 1
    funext a
    exact codeList_eq_enumList kids _ ix 0 h
end

/-- `walk_ports` as a whole, on a buffer that holds a non-empty address -/
theorem walkPorts_code (ts : List STree) (pre J : Buf) (hwf : TreeWF ts) (hpre : PrefixOk pre)
    (hcap : needList ts ≤ J.length) :
    ∃ J', walkPorts {} (toPorts ts) none (pre ++ 0 :: J) = .ok (codeList pre [] ts 0, pre ++ 0 :: J') ∧
      J'.length = J.length := by
  obtain ⟨J', h1, l1⟩ := walkList_spec ts (toPorts ts) [] 0 pre J hwf hpre.2 hpre.1 hcap
  refine ⟨J', ?_, l1⟩
  rw [walkPorts, walkTable_static _ _ _ _ _ hpre.2 hpre.1, h1]

/-- … and on an empty buffer: the root '/' is written first -/
theorem walkPorts_code_empty (ts : List STree) (J : Buf) (hwf : TreeWF ts) (hcap : needList ts ≤ J.length) :
    ∃ J', walkPorts {} (toPorts ts) none (0 :: 0 :: J) = .ok (codeList [47] [] ts 0, [47] ++ 0 :: J') ∧
      J'.length = J.length := by
  have hp : PrefixOk [47] := ⟨by simp, by intro c hc; simp at hc; subst hc; decide⟩
  obtain ⟨J', h1, l1⟩ := walkList_spec ts (toPorts ts) [] 0 [47] J hwf hp.2 hp.1 hcap
  refine ⟨J', ?_, l1⟩
  have h0 : rd (0 :: 0 :: J) 0 = .ok 0 := rfl
  have hw : wr (0 :: 0 :: J) 0 47 = .ok ([47] ++ 0 :: J) := by simp [wr]
  have hl := strlenAt_zero [47] J hp.2
  simp only [walkPorts, walkTable, bind, Except.bind, h0, ↓reduceIte, hw, hl, portIsEnabled_static, pure,
    Except.pure]
  have : ([47] : Buf).length = 1 := rfl
  rw [this] at h1
  simp only [List.length_cons, List.length_nil, Nat.zero_add, h1, List.nil_append]

/-! ### counting -/

theorem length_flatMap_const {α β : Type} (l : List α) (f : α → List β) (c : Nat) (h : ∀ a ∈ l, (f a).length = c) :
    (l.flatMap f).length = l.length * c := by
  induction l with
  | nil => simp
  | cons x r ih =>
    simp only [List.flatMap_cons, List.length_append, List.length_cons, h x List.mem_cons_self,
      ih (fun a ha => h a (List.mem_cons_of_mem _ ha))]
    rw [Nat.add_mul, Nat.one_mul, Nat.add_comm]

theorem expandParts_length (ps : List (Bytes × Bytes)) : (expandParts ps).length = partsCount ps := by
  induction ps with
  | nil => rfl
  | cons p r ih =>
    obtain ⟨ds, t⟩ := p
    simp only [expandParts, partsCount]
    rw [length_flatMap_const _ _ (partsCount r) (by intro i _; simp [ih])]
    simp

mutual
theorem enumList_length : ∀ (ts : List STree) (pre : Bytes) (path : List Nat) (i : Nat),
    (enumList pre path ts i).length = countList ts
  | [], _, _, _ => rfl
  | t :: r, pre, path, i => by
    simp only [enumList, countList, List.length_append, enumTree_length t pre (path ++ [i]), enumList_length r pre path (i + 1)]
theorem enumTree_length : ∀ (t : STree) (pre : Bytes) (ix : List Nat), (enumTree pre ix t).length = countTree t
  | .leaf w md, pre, ix => by simp [enumTree, countTree, expandParts_length]
  | .sub w md kids, pre, ix => by
    simp only [enumTree, countTree]
    rw [length_flatMap_const _ _ (countList kids) (fun a _ => enumList_length kids _ ix 0), expandParts_length]
end

end Rtosc.Walk
