/-
  C14 — delivery through the address walk of `Ports::dispatch` / `rRecur` (the model of C04,
  Ports/Dispatch.lean): what the callback of *one given port* of a tree of any depth is
  handed.  C04's `loc_full_address` says that `loc` and `msg` of every callback together make
  the full address; here the port is identified (`PTable.find`: the port with a given tree
  path) and the split is named: `msg` is the part of the address that the port's own name
  matches (`matchB`), `loc` the whole address in front of it plus the part the name accounts
  for — for a port whose name has no trailing '/', the full address.
-/
import RtoscModel.Props.C04
namespace Rtosc.Ports
open Rtosc Rtosc.Match Rtosc.Ports.Hash

/-- the port with tree path `q` in a table whose first port has index `i`: its structured
    name, and whether it is a port without sub-table -/
def PTable.find : PTable → Nat → List Nat → Option (Pat × Bool)
  | .nil, _, _ => none
  | .leaf p r, i, q =>
    match q with
    | [] => none
    | j :: js => if j = i then (if js.isEmpty then some (p, true) else none) else r.find (i + 1) (j :: js)
  | .node p c _ r, i, q =>
    match q with
    | [] => none
    | j :: js => if j = i then (if js.isEmpty then some (p, false) else c.find 0 js) else r.find (i + 1) (j :: js)

theorem PTable.find_ge : ∀ (t : PTable) (i j : Nat) (js : List Nat) (v : Pat × Bool),
    t.find i (j :: js) = some v → i ≤ j := by
  intro t
  induction t with
  | nil => intro i j js v h; simp [PTable.find] at h
  | leaf p r ih =>
    intro i j js v h
    simp only [PTable.find] at h
    split at h
    · omega
    · have := ih _ _ _ _ h; omega
  | node p c cd r _ ihr =>
    intro i j js v h
    simp only [PTable.find] at h
    split at h
    · omega
    · have := ihr _ _ _ _ h; omega

theorem PTable.find_ne_nil (t : PTable) (i : Nat) (q : List Nat) (v : Pat × Bool) (h : t.find i q = some v) :
    q ≠ [] := by
  intro hq; subst hq
  cases t <;> simp [PTable.find] at h

/-- a port of the rest of the table is a port of the table -/
theorem PTable.find_leaf_rest (p : Pat) (r : PTable) (i : Nat) (q : List Nat) (v : Pat × Bool)
    (h : r.find (i + 1) q = some v) : (PTable.leaf p r).find i q = some v := by
  cases q with
  | nil => exact absurd rfl (PTable.find_ne_nil _ _ _ _ h)
  | cons j js =>
    have := PTable.find_ge _ _ _ _ _ h
    have hne : j ≠ i := by omega
    simp only [PTable.find, hne, ↓reduceIte]
    exact h

theorem PTable.find_node_rest (p : Pat) (c : PTable) (cd : Bool) (r : PTable) (i : Nat) (q : List Nat) (v : Pat × Bool)
    (h : r.find (i + 1) q = some v) : (PTable.node p c cd r).find i q = some v := by
  cases q with
  | nil => exact absurd rfl (PTable.find_ne_nil _ _ _ _ h)
  | cons j js =>
    have := PTable.find_ge _ _ _ _ _ h
    have hne : j ≠ i := by omega
    simp only [PTable.find, hne, ↓reduceIte]
    exact h

theorem PTable.find_node_child (p : Pat) (c : PTable) (cd : Bool) (r : PTable) (i : Nat) (q : List Nat) (v : Pat × Bool)
    (h : c.find 0 q = some v) : (PTable.node p c cd r).find i (i :: q) = some v := by
  have hq := PTable.find_ne_nil _ _ _ _ h
  have : q.isEmpty = false := by cases q <;> simp_all
  simp only [PTable.find, ↓reduceIte, this, Bool.false_eq_true]
  exact h

/-- what the callback of a port is handed, relative to the table `t` (first index `i`, table
    path `tp`): the port is the one `find` names, `full = pfx ++ path` where `path` is what the
    port's own name matches (leaving `t'` behind `*path_end`), `msg` points at `path`, and
    `loc` holds `pfx` and the part of `path` the name accounts for -/
def Handed (t : PTable) (i : Nat) (tp : List Nat) (full tags ex : Bytes) (c : Call) : Prop :=
  ∀ x, c.who = .port x → ∃ q p pfx path t', x = tp ++ q ∧ t.find i q = some (p, c.isLeaf) ∧
    full = pfx ++ path ∧ matchB p path tags = some t' ∧
    c.loc = some (pfx ++ consumed path t') ∧ c.m = path ++ 0 :: ex

theorem Handed.leaf_rest {p : Pat} {r : PTable} {i : Nat} {tp : List Nat} {full tags ex : Bytes} {c : Call}
    (h : Handed r (i + 1) tp full tags ex c) : Handed (.leaf p r) i tp full tags ex c := by
  intro x hx
  obtain ⟨q, p', pfx, path, t', h1, h2, h3⟩ := h x hx
  exact ⟨q, p', pfx, path, t', h1, PTable.find_leaf_rest _ _ _ _ _ h2, h3⟩

theorem Handed.node_rest {p : Pat} {ch : PTable} {cd : Bool} {r : PTable} {i : Nat} {tp : List Nat}
    {full tags ex : Bytes} {c : Call}
    (h : Handed r (i + 1) tp full tags ex c) : Handed (.node p ch cd r) i tp full tags ex c := by
  intro x hx
  obtain ⟨q, p', pfx, path, t', h1, h2, h3⟩ := h x hx
  exact ⟨q, p', pfx, path, t', h1, PTable.find_node_rest _ _ _ _ _ _ _ h2, h3⟩

theorem Handed.node_child {p : Pat} {ch : PTable} {cd : Bool} {r : PTable} {i : Nat} {tp : List Nat}
    {full tags ex : Bytes} {c : Call}
    (h : Handed ch 0 (tp ++ [i]) full tags ex c) : Handed (.node p ch cd r) i tp full tags ex c := by
  intro x hx
  obtain ⟨q, p', pfx, path, t', h1, h2, h3⟩ := h x hx
  exact ⟨i :: q, p', pfx, path, t', by rw [h1]; simp, PTable.find_node_child _ _ _ _ _ _ _ h2, h3⟩

/-- **what every port callback is handed, on `semLoc`** -/
theorem semLoc_handed : ∀ (t : PTable), t.WF →
    ∀ (tp : List Nat) (i : Nat) (obj : List Nat) (L a tags ex : Bytes) (d : RtData) (mt : Bool),
    ∀ c ∈ (semLoc t tp i obj L a tags ex d mt).1, Handed t i tp (L ++ a) tags ex c := by
  intro t
  induction t with
  | nil => intro _ tp i obj L a tags ex d mt c hc; simp [semLoc] at hc
  | leaf p rest ih =>
    intro hwf tp i obj L a tags ex d mt c hc
    simp only [PTable.WF, PTable.wf, Bool.and_eq_true] at hwf
    simp only [semLoc] at hc
    split at hc
    · exact (ih hwf.2 _ _ _ _ _ _ _ _ _ c hc).leaf_rest
    · next t hm =>
      rcases List.mem_cons.mp hc with rfl | hc
      · intro x hx
        simp only [callOf, Who.port.injEq] at hx
        refine ⟨[i], p, L, a, t, hx.symm, by simp [PTable.find, callOf], rfl, hm, ?_, ?_⟩
        · simp [callOf, RtData.setLoc]
        · simp [callOf]
      · exact (ih hwf.2 _ _ _ _ _ _ _ _ _ c hc).leaf_rest
  | node p child cd rest ihc ihr =>
    intro hwf tp i obj L a tags ex d mt c hc
    simp only [PTable.WF, PTable.wf, Bool.and_eq_true] at hwf
    simp only [semLoc] at hc
    split at hc
    · exact (ihr hwf.2 _ _ _ _ _ _ _ _ _ c hc).node_rest
    · next t hm =>
      obtain ⟨hsplit, _⟩ := matchB_shape hm
      have htail := node_tail hwf.1.1 hm
      have hfull : L ++ consumed a t ++ levelTail a = L ++ a := by
        rw [htail, List.append_assoc, ← hsplit]
      rcases List.mem_cons.mp hc with rfl | hc
      · intro x hx
        simp only [callOf, Who.port.injEq] at hx
        refine ⟨[i], p, L, a, t, hx.symm, by simp [PTable.find, callOf], rfl, hm, ?_, ?_⟩
        · simp [callOf, RtData.setLoc]
        · simp [callOf]
      · rcases List.mem_append.mp hc with hc | hc
        · rcases mem_finLoc hc with hc | ⟨_, _, rfl⟩
          · have := ihc hwf.1.2 _ _ _ _ _ _ _ _ _ c hc
            rw [hfull] at this
            exact this.node_child
          · intro x hx; simp [dfltCallOf] at hx
        · exact (ihr hwf.2 _ _ _ _ _ _ _ _ _ c hc).node_rest

/-- **dispatch_handed** (any tree of the scope of C04, any depth, any lookup strategy, with a
    location buffer): the callback of the port with tree path `q` is handed
    `msg` = the part `path` of the address that its own name matches and, in `loc`, everything
    in front of it (`pfx`: the address of the object the port belongs to) followed by what the
    name accounts for; `pfx ++ path` is the full address of the message. -/
theorem dispatch_handed {mk : List Bytes → Option Matcher} (hmk : MkOK mk) {P : PPorts} {addr tags rest : Bytes}
    (h : InScope P addr tags rest) (k : Nat) (base : Bool) (d : RtData) (L0 : Bytes)
    (hd : d.loc = some L0) (hsz : d.locSize ≠ 0) :
    ∃ log d', dispatch mk P.render (msgBuf addr tags k rest) d base = some (log, d') ∧
      ∀ c ∈ log, ∀ q, c.who = .port q → ∃ p pfx path t',
        P.tab.find 0 q = some (p, c.isLeaf) ∧
        rootLoc base L0 ++ rootAddr base addr = pfx ++ path ∧ matchB p path tags = some t' ∧
        c.loc = some (pfx ++ consumed path t') ∧ c.m = path ++ 0 :: msgTail k tags rest := by
  obtain ⟨log, d', hdisp, hlog, hd'⟩ := some_pair (dispatch_loc_sem hmk h k base d L0 hd hsz)
  refine ⟨log, d', hdisp, ?_⟩
  subst hlog hd'
  intro c hc q hq
  rcases mem_finLoc hc with hc | ⟨_, _, rfl⟩
  · obtain ⟨q', p, pfx, path, t', h1, h2, h3⟩ := semLoc_handed P.tab h.wf _ _ _ _ _ _ _ _ _ c hc q hq
    simp only [List.nil_append] at h1
    subst h1
    exact ⟨p, pfx, path, t', h2, h3⟩
  · simp [dfltCallOf] at hq

/-- a port whose name has no trailing '/' sees the full address in `loc` -/
theorem matchB_nosub {p : Pat} (hs : p.sub = false) {path tags t' : Bytes} (hm : matchB p path tags = some t') :
    t' = [] ∧ consumed path t' = path := by
  obtain ⟨h1, h2⟩ := matchB_shape hm
  simp only [hs, Bool.false_eq_true, ↓reduceIte] at h2
  subst h2
  exact ⟨rfl, by simp [consumed]⟩

/-- the ports of a well-formed tree have well-formed names -/
theorem PTable.find_wf : ∀ (t : PTable), t.WF → ∀ (i : Nat) (q : List Nat) (p : Pat) (lf : Bool),
    t.find i q = some (p, lf) → nameWf p = true := by
  intro t
  induction t with
  | nil => intro _ i q p lf h; simp [PTable.find] at h
  | leaf p0 r ih =>
    intro hwf i q p lf h
    simp only [PTable.WF, PTable.wf, Bool.and_eq_true] at hwf
    cases q with
    | nil => simp [PTable.find] at h
    | cons j js =>
      simp only [PTable.find] at h
      split at h
      · split at h
        · simp only [Option.some.injEq, Prod.mk.injEq] at h; rw [← h.1]; exact hwf.1
        · cases h
      · exact ih hwf.2 _ _ _ _ h
  | node p0 c cd r ihc ihr =>
    intro hwf i q p lf h
    simp only [PTable.WF, PTable.wf, Bool.and_eq_true] at hwf
    cases q with
    | nil => simp [PTable.find] at h
    | cons j js =>
      simp only [PTable.find] at h
      split at h
      · split at h
        · simp only [Option.some.injEq, Prod.mk.injEq] at h
          rw [← h.1]
          have := hwf.1.1
          simp only [nodeNameWf, Bool.and_eq_true] at this
          exact this.1.1
        · exact ihc hwf.1.2 _ _ _ _ h
      · exact ihr hwf.2 _ _ _ _ h
end Rtosc.Ports
