/-
  C04 helper lemmas, part 1: `rtosc_match` on the suffix of a message that a nested
  dispatch sees, for port names of the documented form without `{}` groups.
  Builds on C05 (Proofs/MatchLemmas.lean): `greedy`, `typesCode`, `path_rendered`, …
-/
import RtoscModel.Proofs.MatchLemmas
import RtoscModel.Ports.Dispatch
import RtoscModel.Ports.Spec
namespace Rtosc.Ports
open Rtosc Rtosc.Match

/-- what follows the (remaining) address in the message buffer: `k` padding NULs, the
    type string behind its ',', and the rest of the buffer (padding, payload, …) -/
def msgTail (k : Nat) (tags rest : Bytes) : Bytes :=
  List.replicate k 0 ++ 44 :: (tags ++ 0 :: rest)

/-- `rtosc_argument_string` on a pointer *into* the address: as long as at least one
    address character is left it finds the type string -/
theorem argString_suffix (c : UInt8) (a : Bytes) (h : NulFree (c :: a)) (k : Nat) (tags rest : Bytes) :
    argString ((c :: a) ++ 0 :: msgTail k tags rest) = some (tags ++ 0 :: rest) := by
  have hn := toNul_nulfree a (msgTail k tags rest) h.tail
  simp only [List.cons_append, argString, hn]
  have := skipZeros_replicate k 44 (tags ++ 0 :: rest) (by decide)
  simp only [msgTail, this]

/-- no `{}` group -/
def noAlts (segs : List Seg) : Bool := segs.all (fun s => !Seg.isAlts s)

/-- what `rtosc_match` computes for a structured name: the rest of the address behind
    `*path_end` if the message matches -/
def matchB (p : Pat) (a tags : Bytes) : Option Bytes :=
  match greedy p.segs p.sub a with
  | none => none
  | some t =>
    match p.types with
    | none => some t
    | some ts => if typesCode ts tags then some t else none

theorem greedy_ne_nil {sub : Bool} : ∀ {segs : List Seg} {a t : Bytes}, segs ≠ [] → noAlts segs = true →
    segsWf sub segs = true → greedy segs sub a = some t → a ≠ [] := by
  intro segs a t hne hna hwf hg
  cases segs with
  | nil => exact absurd rfl hne
  | cons s r =>
    obtain ⟨hs, _, _, _⟩ := segsWf_cons hwf
    cases s with
    | lit x =>
      simp only [Seg.wf, Bool.and_eq_true, Bool.not_eq_eq_eq_not, Bool.not_true, List.isEmpty_eq_false_iff] at hs
      simp only [greedy] at hg
      split at hg
      · next hp =>
        intro h; subst h
        have := List.isPrefixOf_iff_prefix.mp hp
        exact hs.1 (List.prefix_nil.mp this)
      · cases hg
    | enum ds =>
      simp only [greedy] at hg
      split at hg
      · next hp => intro h; subst h; simp at hp
      · cases hg
    | alts as => simp [noAlts, Seg.isAlts] at hna

/-- **`rtosc_match` on a name of the documented form and a message suffix** -/
theorem full_name {p : Pat} (hwf : p.WF0) (hne : p.segs ≠ []) (hna : noAlts p.segs = true)
    {a tags : Bytes} (k : Nat) (rest : Bytes)
    (ha : NulFree a) (hb : IdxBounded a) (ht : NulFree tags) :
    full p.cstr (a ++ 0 :: msgTail k tags rest) =
      match greedy p.segs p.sub a with
      | none => some (false, none)
      | some t => some (match p.types with
                        | none => true
                        | some ts => typesCode ts tags, some (t ++ 0 :: msgTail k tags rest)) := by
  have hp := path_rendered hwf (msgTail k tags rest) ha hb
  cases hg : greedy p.segs p.sub a with
  | none =>
    simp only [hg] at hp
    simp [full, hp]
  | some t =>
    simp only [hg] at hp
    have hane := greedy_ne_nil hne hna (wf0_segs hwf) hg
    cases hty : p.types with
    | none =>
      simp only [hty, renderTypes, List.nil_append] at hp
      simp [full, hp]
    | some ts =>
      have htw := wf0_types hwf
      simp only [hty, typesWf, Bool.and_eq_true, Bool.not_eq_eq_eq_not, Bool.not_true,
        List.isEmpty_eq_false_iff, List.all_eq_true] at htw
      obtain ⟨x, ts', rfl⟩ := List.exists_cons_of_ne_nil htw.1
      simp only [hty, renderTypes, renderTypeAlts, List.cons_append, List.append_assoc] at hp
      obtain ⟨c, a', rfl⟩ := List.exists_cons_of_ne_nil hane
      have hk := argString_suffix c a' ha k tags rest
      have hargs := argsStart_types_eq tags rest ht (x :: ts') htw.1 htw.2
      simp only at hargs
      simp only [full, hp, ↓reduceIte, hk, args_colon]
      simp [hargs]

/-- the model's `Match.full (name ++ [0])` is `full p.cstr` -/
theorem full_render {p : Pat} (hwf : p.WF0) (hne : p.segs ≠ []) (hna : noAlts p.segs = true)
    {a tags : Bytes} (k : Nat) (rest : Bytes)
    (ha : NulFree a) (hb : IdxBounded a) (ht : NulFree tags) :
    ∃ e, full (p.render ++ [0]) (a ++ 0 :: msgTail k tags rest) = some ((matchB p a tags).isSome, e) ∧
      ∀ t, matchB p a tags = some t → e = some (t ++ 0 :: msgTail k tags rest) := by
  have h := full_name hwf hne hna k rest ha hb ht
  simp only [Pat.cstr] at h
  rw [h]
  unfold matchB
  cases hg : greedy p.segs p.sub a with
  | none => exact ⟨none, rfl, by intro t ht; cases ht⟩
  | some t =>
    cases hty : p.types with
    | none => exact ⟨_, rfl, by intro t' ht'; cases ht'; rfl⟩
    | some ts =>
      by_cases hc : typesCode ts tags = true
      · simp only [hc, ↓reduceIte]
        exact ⟨_, rfl, by intro t' ht'; cases ht'; rfl⟩
      · have hc' : typesCode ts tags = false := by simpa using hc
        simp only [hc', Bool.false_eq_true, ↓reduceIte]
        exact ⟨some (t ++ 0 :: msgTail k tags rest), rfl, by intro t' ht'; cases ht'⟩

/-! ### `SNIP` and the next level -/

theorem snip_addr (a ex : Bytes) (ha : NulFree a) :
    snip (a ++ 0 :: ex) = some (levelTail a ++ 0 :: ex) := by
  induction a with
  | nil => simp [snip, levelTail]
  | cons c r ih =>
    have hc : c ≠ 0 := ha.head
    by_cases h47 : c = 47
    · subst h47; simp [snip, levelTail]
    · have : (c != 47) = true := by simp [h47]
      simp only [List.cons_append, snip, hc, ↓reduceIte, h47, ih ha.tail, levelTail, List.dropWhile_cons, this]

theorem levelTail_suffix (a : Bytes) : ∃ pre, a = pre ++ levelTail a := by
  have h1 : (levelTail a) <:+ a :=
    (List.drop_suffix _ _).trans (List.dropWhile_suffix _)
  obtain ⟨pre, hpre⟩ := h1
  exact ⟨pre, hpre.symm⟩

theorem NulFree.levelTail {a : Bytes} (h : NulFree a) : NulFree (levelTail a) := by
  obtain ⟨pre, hpre⟩ := levelTail_suffix a
  intro c hc
  exact h c (by rw [hpre]; exact List.mem_append_right _ hc)

theorem IdxBounded.levelTail {a : Bytes} (h : IdxBounded a) : IdxBounded (levelTail a) := by
  obtain ⟨pre, hpre⟩ := levelTail_suffix a
  rw [hpre] at h
  exact h.suffix

end Rtosc.Ports
