/-
  C19 — the ghost field `Automation.bound` is exactly "the parameter this automation was last
  bound to": every operation changes the binding table `boundsOf` as the specification
  `absBind` (RtoscModel/AutoSpec.lean) says.
-/
import RtoscModel.Proofs.AutoLemmas
namespace Rtosc.Auto
open Rtosc
variable {F : Type}

theorem modify_eq_set {α} (l : List α) (i : Nat) (f : α → α) (x : α) (h : l[i]? = some x) :
    l.modify i f = l.set i (f x) := by
  apply List.ext_getElem?
  intro j
  simp only [List.getElem?_modify, List.getElem?_set]
  by_cases hij : i = j
  · subst hij
    have hlt := getElem?_some_lt h
    have hx : l[i] = x := by
      rw [List.getElem?_eq_getElem hlt] at h; exact Option.some.inj h
    simp [hlt, hx]
  · simp [hij]

theorem modify_id_at {α} (l : List α) (i : Nat) (f : α → α) (h : ∀ x, l[i]? = some x → f x = x) :
    l.modify i f = l := by
  apply List.ext_getElem?
  intro j
  simp only [List.getElem?_modify]
  by_cases hij : i = j
  · subst hij
    cases hx : l[i]? with
    | none => simp
    | some x => simp [h x hx]
  · simp [hij]

theorem boundsOf_autosOf (m : Mgr F) : boundsOf m = (autosOf m).map (fun l => l.map (·.bound)) := by
  simp [boundsOf, autosOf, List.map_map]

theorem boundsOf_modifyAuto_inv (m : Mgr F) (s j : Nat) (f : Automation F → Automation F)
    (hf : ∀ au, (f au).bound = au.bound) : boundsOf (modifyAuto m s j f) = boundsOf m := by
  simp only [boundsOf, modifyAuto]
  apply map_modify_inv
  intro sl
  exact map_modify_inv (·.bound) f hf sl.autos j

theorem firstNone_map (l : List (Automation F)) (i : Nat)
    (h : ∀ au ∈ l, (au.used = false ↔ au.bound = none)) :
    firstNone (l.map (·.bound)) i = firstFree l i := by
  induction l generalizing i with
  | nil => rfl
  | cons a r ih =>
    simp only [List.map_cons, firstNone, firstFree]
    have ha := h a (by simp)
    by_cases hu : a.used = false
    · simp [hu, ha.mp hu]
    · have hb : ¬ a.bound = none := fun hb => hu (ha.mpr hb)
      have : a.bound.isNone = false := by
        cases hab : a.bound with
        | none => exact absurd hab hb
        | some _ => rfl
      simp only [this, Bool.false_eq_true, ↓reduceIte, hu]
      exact ih (i + 1) (fun au hau => h au (by simp [hau]))

theorem good_used_iff (A : Arith F) (au : Automation F) (h : Good A au) :
    au.used = false ↔ au.bound = none := by
  constructor
  · exact h.2
  · intro hb
    cases hu : au.used with
    | false => rfl
    | true =>
      obtain ⟨_, _, _, _, _, _, _, _, e0, _⟩ := (h.1 hu).1
      rw [hb] at e0; cases e0

theorem binding_step (A : Arith F) (m m' : Mgr F) (op : Op F) (ms : List (Msg F))
    (ha : AllAutos m (Good A)) (hs : step A m op = some (m', ms)) :
    boundsOf m' = absBind m.perSlot (boundsOf m) op := by
  cases op with
  | bind s path port learn =>
    simp only [step, Option.map_eq_some_iff, Prod.mk.injEq] at hs
    obtain ⟨m1, hc, rfl, _⟩ := hs
    rcases createBinding_cases A m m1 s path port learn hc with ⟨rfl, hbs⟩ | ⟨p, sl, ind, au, au1, hp, hoob, hsl, hff, hau, hbi, rfl⟩
    · simp only [absBind]
      cases hp : portUsable port with
      | none => rfl
      | some p =>
        simp only
        symm
        apply modify_id_at
        intro row hrow
        simp only [boundsOf, List.getElem?_map] at hrow
        cases hsl : m1.slots[s.toNat]? with
        | none => simp [hsl] at hrow
        | some sl =>
          simp only [hsl, Option.map_some, Option.some.injEq] at hrow
          subst hrow
          have hoob : m1.slotOob s = false := by
            cases ho : m1.slotOob s with
            | false => rfl
            | true => simp [createBinding, hp, ho] at hc
          rw [firstNone_map sl.autos 0 (fun au hau => good_used_iff A au (ha sl (List.mem_of_getElem? hsl) au hau))]
          simp only [bindSucceeds, hp, Option.isSome_some, hoob, Bool.not_false, Bool.and_self, hsl,
            Bool.true_and] at hbs
          cases hff : firstFree sl.autos 0 with
          | none => rfl
          | some k => simp [hff] at hbs
    · simp only [absBind, hp]
      have hrow : (boundsOf m)[s.toNat]? = some (sl.autos.map (·.bound)) := by
        simp [boundsOf, hsl]
      rw [modify_eq_set _ _ _ _ hrow]
      rw [firstNone_map sl.autos 0 (fun au hau => good_used_iff A au (ha sl (List.mem_of_getElem? hsl) au hau)), hff]
      simp only [boundsOf, List.map_set]
      congr 1
      rw [(bindInfo_bound A au au1 path p hbi).1.symm]
      rfl
  | setPath s j path port =>
    simp only [step, Option.map_eq_some_iff, Prod.mk.injEq] at hs
    obtain ⟨m1, hc, rfl, _⟩ := hs
    unfold setSlotSubPath at hc
    simp only [absBind]
    split at hc
    · rename_i hoob
      cases hc
      by_cases hneg : s < 0
      · simp [hneg]
      · simp only [hneg, ↓reduceIte]
        have hge : m.slots.length ≤ s.toNat := by
          simp only [Mgr.slotOob, Bool.or_eq_true, decide_eq_true_eq] at hoob
          omega
        cases portUsable port with
        | none => rfl
        | some p =>
          simp only
          symm
          apply modify_id_at
          intro row hrow
          have : (boundsOf m)[s.toNat]? = none := by
            apply List.getElem?_eq_none; simp [boundsOf]; exact hge
          rw [this] at hrow; cases hrow
    · rename_i hoob
      have hneg : ¬ s < 0 := by
        simp only [Mgr.slotOob, Bool.or_eq_true, decide_eq_true_eq, not_or] at hoob
        omega
      simp only [hneg, ↓reduceIte]
      split at hc
      · rename_i hp; cases hc; rw [hp]
      · rename_i p hp
        rw [hp]
        split at hc
        · cases hc
        · split at hc
          · cases hc
          · rename_i sl hsl
            split at hc
            · cases hc
            · rename_i au hau
              split at hc
              · cases hc
              · rename_i au1 hbi
                cases hc
                have hrow : (boundsOf m)[s.toNat]? = some (sl.autos.map (·.bound)) := by
                  simp [boundsOf, hsl]
                simp only
                rw [modify_eq_set _ _ _ _ hrow]
                simp only [boundsOf, List.map_set]
                congr 1
                rw [(bindInfo_bound A au au1 path p hbi).1.symm]
                rfl
  | clearSlot s =>
    simp only [step, Option.some.injEq, Prod.mk.injEq] at hs
    obtain ⟨rfl, _⟩ := hs
    simp only [absBind]
    unfold clearSlot
    split
    · rename_i hoob
      by_cases hneg : s < 0
      · simp [hneg]
      · simp only [hneg, ↓reduceIte]
        have hge : m.slots.length ≤ s.toNat := by
          simp only [Mgr.slotOob, Bool.or_eq_true, decide_eq_true_eq] at hoob
          omega
        symm
        apply modify_id_at
        intro row hrow
        have : (boundsOf m)[s.toNat]? = none := by
          apply List.getElem?_eq_none; simp [boundsOf]; exact hge
        rw [this] at hrow; cases hrow
    · rename_i hoob
      have hneg : ¬ s < 0 := by
        simp only [Mgr.slotOob, Bool.or_eq_true, decide_eq_true_eq, not_or] at hoob
        omega
      simp only [hneg, ↓reduceIte]
      split
      · rename_i hnone
        symm
        apply modify_id_at
        intro row hrow
        simp [boundsOf, hnone] at hrow
      · rename_i sl hsl
        simp only [boundsOf]
        rw [map_modify_comm (fun sl : Slot F => sl.autos.map (·.bound)) _ (fun row => row.map (fun _ => none))
          (by intro x; simp [List.map_map, Function.comp_def, Automation.clear])]
        congr 1
        split
        · rw [List.map_map]
          apply List.map_congr_left
          intro y _
          simp only [Function.comp]
          unfold decAbove; split <;> rfl
        · rfl
  | clearSub s j =>
    simp only [step, Option.some.injEq, Prod.mk.injEq] at hs
    obtain ⟨rfl, _⟩ := hs
    simp only [absBind]
    unfold clearSlotSub
    by_cases hg : s < 0 ∨ j < 0 ∨ j ≥ (m.perSlot : Int)
    · have : (m.slotOob s || m.subOob j) = true := by
        simp only [Mgr.slotOob, Mgr.subOob, Bool.or_eq_true, decide_eq_true_eq]; omega
      simp [hg, this]
    · simp only [hg, ↓reduceIte]
      split
      · rename_i hoob
        have hge : m.slots.length ≤ s.toNat := by
          simp only [Mgr.slotOob, Mgr.subOob, Bool.or_eq_true, decide_eq_true_eq] at hoob
          omega
        symm
        apply modify_id_at
        intro row hrow
        have : (boundsOf m)[s.toNat]? = none := by
          apply List.getElem?_eq_none; simp [boundsOf]; exact hge
        rw [this] at hrow; cases hrow
      · simp only [boundsOf, modifyAuto]
        exact map_modify_comm (fun sl : Slot F => sl.autos.map (·.bound))
          (fun sl : Slot F => { sl with autos := sl.autos.modify j.toNat (Automation.clear A) })
          (fun row : List (Option (Bytes × PortInfo F)) => row.modify j.toNat (fun _ => none))
          (by intro sl; exact map_modify_comm (·.bound) (Automation.clear A) (fun _ => none) (fun _ => rfl) sl.autos j.toNat) _ _
  | gain s j x =>
    simp only [step, Option.some.injEq, Prod.mk.injEq] at hs
    obtain ⟨rfl, _⟩ := hs
    simp only [absBind]
    rw [gain_eq]; split
    · rfl
    · exact boundsOf_modifyAuto_inv m _ _ _ (fun au => rfl)
  | offset s j x =>
    simp only [step, Option.some.injEq, Prod.mk.injEq] at hs
    obtain ⟨rfl, _⟩ := hs
    simp only [absBind]
    rw [offset_eq]; split
    · rfl
    · exact boundsOf_modifyAuto_inv m _ _ _ (fun au => rfl)
  | setSlot s x =>
    simp only [step, Option.some.injEq] at hs
    have : m' = (setSlot A m s x).1 := by rw [hs]
    subst this
    simp only [absBind, boundsOf_autosOf, autosOf_setSlot]
  | setSub s j x =>
    simp only [step, Option.some.injEq, Prod.mk.injEq] at hs
    obtain ⟨rfl, _⟩ := hs
    rfl
  | midi c t v =>
    simp only [step, Option.some.injEq] at hs
    have : m' = (handleMidi A m c t v).1 := by rw [hs]
    subst this
    simp only [absBind, boundsOf_autosOf, autosOf_handleMidi]

theorem boundsOf_init (A : Arith F) (n p : Nat) :
    boundsOf (Mgr.init A n p) = List.replicate n (List.replicate p none) := by
  simp [boundsOf, Mgr.init, Slot.init, Automation.init]

end Rtosc.Auto
