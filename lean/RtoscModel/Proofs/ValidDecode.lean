/-
  C07 helper lemmas, part 4: the reference decoder (`Osc/Decode.lean`) on a buffer with the
  `Layout` of part 2, and strict ⇒ lax.  Property theorems are in Props/C07.lean.
-/
import RtoscModel.Proofs.ValidAccess
import RtoscModel.Osc.Decode
namespace Rtosc.Osc.V
open Rtosc Rtosc.Osc

/-! ### big-endian values -/

theorem beVal4 (b0 b1 b2 b3 : UInt8) :
    beVal [b0, b1, b2, b3] = b0.toNat * 16777216 + b1.toNat * 65536 + b2.toNat * 256 + b3.toNat := by
  simp [beVal]; omega

theorem beVal8 (b0 b1 b2 b3 b4 b5 b6 b7 : UInt8) :
    beVal [b0, b1, b2, b3, b4, b5, b6, b7] =
      b0.toNat * 72057594037927936 + b1.toNat * 281474976710656 + b2.toNat * 1099511627776 +
      b3.toNat * 4294967296 + b4.toNat * 16777216 + b5.toNat * 65536 + b6.toNat * 256 + b7.toNat := by
  simp [beVal]; omega

theorem ofNat_beVal4 (b0 b1 b2 b3 : UInt8) : UInt32.ofNat (beVal [b0, b1, b2, b3]) = get32 b0 b1 b2 b3 := by
  apply UInt32.toNat_inj.mp
  rw [get32_toNat, beVal4]
  have h0 := b0.toNat_lt; have h1 := b1.toNat_lt; have h2 := b2.toNat_lt; have h3 := b3.toNat_lt
  simp only [Nat.reducePow] at h0 h1 h2 h3
  simp; omega

theorem ofNat_beVal8 (b0 b1 b2 b3 b4 b5 b6 b7 : UInt8) :
    UInt64.ofNat (beVal [b0, b1, b2, b3, b4, b5, b6, b7]) = get64 b0 b1 b2 b3 b4 b5 b6 b7 := by
  apply UInt64.toNat_inj.mp
  rw [get64_toNat, beVal8]
  have h0 := b0.toNat_lt; have h1 := b1.toNat_lt; have h2 := b2.toNat_lt; have h3 := b3.toNat_lt
  have h4 := b4.toNat_lt; have h5 := b5.toNat_lt; have h6 := b6.toNat_lt; have h7 := b7.toNat_lt
  simp only [Nat.reducePow] at h0 h1 h2 h3 h4 h5 h6 h7
  simp; omega

/-! ### OSC-strings -/

theorem tw_append_nul (x r : Bytes) (h : NoNul x) : (x ++ 0 :: r).takeWhile (· ≠ 0) = x := by
  induction x with
  | nil => exact tw_nz_zero r
  | cons c x ih => rw [List.cons_append, tw_nz_cons _ h.head, ih h.tail]

/-- an OSC-string with `k` arbitrary padding bytes, lax -/
theorem takeStr_lax (x pad r : Bytes) (h : NoNul x) (hp : pad.length = 3 - x.length % 4) :
    takeStr false (x ++ 0 :: (pad ++ r)) = some (x, r) := by
  unfold takeStr
  rw [tw_append_nul x _ h]
  have hl : (x ++ 0 :: (pad ++ r)).length = x.length + 1 + pad.length + r.length := by
    simp only [List.length_append, List.length_cons]; omega
  have hd : (x ++ 0 :: (pad ++ r)).drop (x.length + (4 - x.length % 4)) = r := by
    have : x ++ 0 :: (pad ++ r) = (x ++ 0 :: pad) ++ r := by simp
    rw [this]
    have hl' : x.length + (4 - x.length % 4) = (x ++ 0 :: pad).length := by
      simp only [List.length_append, List.length_cons]; omega
    rw [hl', List.drop_left]
  simp only [hd]
  rw [if_pos]
  exact ⟨by rw [hl]; omega, by simp⟩

/-- an OSC-string with NUL padding, strict -/
theorem takeStr_strict (x r : Bytes) (k : Nat) (h : NoNul x) (hk : k = 3 - x.length % 4) :
    takeStr true (x ++ 0 :: (zeros k ++ r)) = some (x, r) := by
  unfold takeStr
  rw [tw_append_nul x _ h]
  have hl : (x ++ 0 :: (zeros k ++ r)).length = x.length + 1 + k + r.length := by
    simp only [List.length_append, List.length_cons, zeros_length]; omega
  have hl' : x.length + (4 - x.length % 4) = (x ++ 0 :: zeros k).length := by
    simp only [List.length_append, List.length_cons, zeros_length]; omega
  have hsplit : x ++ 0 :: (zeros k ++ r) = (x ++ 0 :: zeros k) ++ r := by simp
  have hd : (x ++ 0 :: (zeros k ++ r)).drop (x.length + (4 - x.length % 4)) = r := by
    rw [hsplit, hl', List.drop_left]
  have ht : ((x ++ 0 :: (zeros k ++ r)).take (x.length + (4 - x.length % 4))).drop x.length = 0 :: zeros k := by
    rw [hsplit, hl', List.take_left, List.drop_left]
  simp only [hd, ht]
  rw [if_pos]
  refine ⟨by rw [hl]; omega, Or.inr ?_⟩
  simp [allZero, zeros]

/-! ### arguments -/

theorem takeArg_lax {a : Arg} {e : Bytes} (R : Bytes) (he : LaxEnc a e) :
    takeArg false a.kind (e ++ R) = some (a, R) := by
  cases a with
  | w32 v =>
    obtain ⟨b0, b1, b2, b3, rfl, rfl⟩ := he
    simp [takeArg, Arg.kind, ofNat_beVal4]
  | w64 v =>
    obtain ⟨b0, b1, b2, b3, b4, b5, b6, b7, rfl, rfl⟩ := he
    simp [takeArg, Arg.kind, ofNat_beVal8]
  | midi x y z w =>
    have he' : e = [x, y, z, w] := he
    subst he'; simp [takeArg, Arg.kind]
  | str s =>
    obtain ⟨hs, pad, rfl, hpad⟩ := he
    have : (s ++ 0 :: pad) ++ R = s ++ 0 :: (pad ++ R) := by simp
    simp only [takeArg, Arg.kind, this, takeStr_lax s pad R hs hpad, Option.map_some]
  | blob d =>
    obtain ⟨b0, b1, b2, b3, pad, rfl, hlen, hlt, hpad⟩ := he
    have hn : beVal [b0, b1, b2, b3] = d.length := by
      rw [← hlen, get32_toNat, beVal4]
    have hsplit : (b0 :: b1 :: b2 :: b3 :: (d ++ pad)) ++ R = b0 :: b1 :: b2 :: b3 :: (d ++ (pad ++ R)) := by simp
    rw [hsplit]
    simp only [takeArg, Arg.kind, hn]
    have h1 : (d ++ (pad ++ R)).take d.length = d := List.take_left
    have h2 : (d ++ (pad ++ R)).drop (d.length + pad4 d.length) = R := by
      have : d ++ (pad ++ R) = (d ++ pad) ++ R := by simp
      rw [this, ← hpad, ← List.length_append, List.drop_left]
    rw [if_pos, h1, h2]
    refine ⟨hlt, ?_, by simp⟩
    simp only [List.length_append]; omega

theorem decodeArgs_lax : ∀ {tags : Bytes} {args : List Arg} {A : Bytes}, LaxArgs tags args A →
    ∀ R, decodeArgs false tags (A ++ R) = some (args, R) := by
  intro tags args A h
  induction h with
  | nil => intro R; simp [decodeArgs]
  | skip hk _ ih => intro R; simp only [decodeArgs, hk]; exact ih R
  | take hk he _ ih =>
    intro R
    simp only [decodeArgs, hk, List.append_assoc, takeArg_lax _ he, ih R]

/-! ### the whole message -/

theorem decodeLax_of_layout {bs s tags pad : Bytes} {j : Nat} {args : List Arg} {A : Bytes}
    (L : Layout bs s tags pad j args A) : Spec.decodeLax bs = some ⟨47 :: s, tags, args⟩ := by
  have hsnn : NoNul (47 :: s) := by
    intro x hx
    rcases List.mem_cons.mp hx with rfl | h
    · decide
    · exact isprint_ne_zero (L.printable x h)
  have hj : j = 3 - (47 :: s).length % 4 := by
    have := L.align; have := L.j3; simp only [List.length_cons]; omega
  have h1 : takeStr true bs = some (47 :: s, 44 :: (tags ++ 0 :: (pad ++ A))) := by
    have := takeStr_strict (47 :: s) (44 :: (tags ++ 0 :: (pad ++ A))) j hsnn hj
    rw [L.eq]; simpa using this
  have hcn : NoNul (44 :: tags) := by
    intro x hx
    rcases List.mem_cons.mp hx with rfl | h
    · decide
    · exact L.tags_nn x h
  have h2 : takeStr false (44 :: (tags ++ 0 :: (pad ++ A))) = some (44 :: tags, A) := by
    have := takeStr_lax (44 :: tags) pad A hcn (by have := L.pad_len; simp only [List.length_cons]; omega)
    simpa using this
  have h3 : decodeArgs false tags A = some (args, []) := by
    have := decodeArgs_lax L.args []
    simpa using this
  have hpr : (47 :: s).all printable = true := by
    rw [List.all_cons, Bool.and_eq_true, List.all_eq_true]
    exact ⟨by decide, fun x hx => L.printable x hx⟩
  unfold Spec.decodeLax decodeWith
  simp only [h1, h2, h3, hpr, List.head?_cons, and_self, if_true, true_or]

/-! ### strict ⇒ lax -/

theorem takeStr_mono {bs : Bytes} {x : Bytes × Bytes} (h : takeStr true bs = some x) : takeStr false bs = some x := by
  simp only [takeStr] at h ⊢
  split at h
  · rename_i hc; rw [if_pos ⟨hc.1, by simp⟩]; exact h
  · simp at h

theorem takeArg_mono {k : Kind} {bs : Bytes} {x : Arg × Bytes} (h : takeArg true k bs = some x) :
    takeArg false k bs = some x := by
  cases k with
  | w32 => unfold takeArg at h ⊢; split at h <;> simp_all
  | w64 => unfold takeArg at h ⊢; split at h <;> simp_all
  | midi => unfold takeArg at h ⊢; split at h <;> simp_all
  | str =>
    simp only [takeArg] at h ⊢
    cases hs : takeStr true bs with
    | none => rw [hs] at h; simp at h
    | some y => rw [hs] at h; rw [takeStr_mono hs]; exact h
  | blob =>
    match bs, h with
    | b0 :: b1 :: b2 :: b3 :: r, h =>
      simp only [takeArg] at h ⊢
      split at h
      · rename_i hc; rw [if_pos ⟨hc.1, hc.2.1, by simp⟩]; exact h
      · simp at h
    | [], h => simp [takeArg] at h
    | [_], h => simp [takeArg] at h
    | [_, _], h => simp [takeArg] at h
    | [_, _, _], h => simp [takeArg] at h

theorem decodeArgs_mono : ∀ (tags bs : Bytes) (x : List Arg × Bytes), decodeArgs true tags bs = some x →
    decodeArgs false tags bs = some x := by
  intro tags
  induction tags with
  | nil => intro bs x h; simpa [decodeArgs] using h
  | cons t ts ih =>
    intro bs x h
    unfold decodeArgs at h ⊢
    cases hk : kind t with
    | none => simp only [hk] at h ⊢; exact ih bs x h
    | some k =>
      simp only [hk] at h ⊢
      cases ha : takeArg true k bs with
      | none => simp [ha] at h
      | some y =>
        obtain ⟨a, r⟩ := y
        simp only [ha] at h
        rw [takeArg_mono ha]
        simp only
        cases hr : decodeArgs true ts r with
        | none => simp [hr] at h
        | some z => simp only [hr] at h; rw [ih r z hr]; exact h

theorem decode_strict_lax {bs : Bytes} {m : Msg} (h : Spec.decode bs = some m) : Spec.decodeLax bs = some m := by
  unfold Spec.decode decodeWith at h
  unfold Spec.decodeLax decodeWith
  cases h1 : takeStr true bs with
  | none => simp [h1] at h
  | some x =>
    obtain ⟨addr, r1⟩ := x
    simp only [h1] at h ⊢
    split at h
    · rename_i hc
      rw [if_pos hc]
      cases h2 : takeStr true r1 with
      | none => simp [h2] at h
      | some y =>
        rw [takeStr_mono h2]
        obtain ⟨ts, r2⟩ := y
        simp only [h2] at h
        match ts, h with
        | 44 :: tags, h =>
          simp only at h ⊢
          split at h
          · simp only [true_or, if_true]
            cases h3 : decodeArgs true tags r2 with
            | none => simp [h3] at h
            | some z =>
              rw [decodeArgs_mono tags r2 z h3]
              simp only [h3] at h
              exact h
          · simp at h
        | [], h => simp at h
        | c :: tags, h =>
          by_cases hc44 : c = 44
          · subst hc44
            simp only at h ⊢
            split at h
            · simp only [true_or, if_true]
              cases h3 : decodeArgs true tags r2 with
              | none => simp [h3] at h
              | some z =>
                rw [decodeArgs_mono tags r2 z h3]
                simp only [h3] at h
                exact h
            · simp at h
          · exfalso
            revert h
            split <;> simp_all
    · simp at h

end Rtosc.Osc.V
