/-
  C20 — facts that hold in EVERY reachable state, hazards or not (`Inv0`): callbacks carry
  their port's type and range, the realtime half's values are 14-bit; and the arithmetic of
  the 7-bit blits and of the linear bijection.
-/
import RtoscModel.Proofs.MidiInv
set_option linter.unusedSimpArgs false
namespace Rtosc.Midi

/-- the callback `generateNewBijection` builds for port `p` at address `a` -/
def portCb (a : Nat) (p : PortSpec) : Cb := ⟨a, p.isInt, p.min8, p.max8⟩

/-- a callback carries the type and range of the port at its address -/
def CbOk (P : List PortSpec) (cb : Cb) : Prop := ∃ p, P[cb.addr]? = some p ∧ cb = portCb cb.addr p

def StCb (P : List PortSpec) (st : Storage) : Prop := ∀ cb ∈ st.callbacks, CbOk P cb

def Small (vals : List Nat) : Prop := ∀ v ∈ vals, v < 16384

theorem small_set {vals : List Nat} (h : Small vals) (i x : Nat) (hx : x < 16384) : Small (vals.set i x) := by
  intro v hv
  rcases List.mem_or_eq_of_mem_set hv with h1 | h1
  · exact h v h1
  · rw [h1]; exact hx

theorem small_replicate (n : Nat) : Small (List.replicate n 0) := by
  intro v hv; rw [(List.mem_replicate.mp hv).2]; decide

theorem unMap_cbs {n n' : NRT} {a k ms} (h : n.unMap a k = some (n', ms)) :
    n'.callbacks = n.callbacks ∧
    ∀ st ans, RtMsg.bind st ans ∈ ms → st.callbacks = n.callbacks ∧ Small st.values := by
  cases hl : imLookup n.invMap a with
  | none => simp [NRT.unMap, hl] at h; obtain ⟨rfl, rfl⟩ := h; simp
  | some im =>
    cases hk : (if k then im.coarse else im.fine) with
    | none =>
      simp only [NRT.unMap, hl, hk] at h
      simp at h; obtain ⟨rfl, rfl⟩ := h; simp [NRT.callbacks]
    | some kid =>
      simp only [NRT.unMap, hl, hk] at h
      cases hs : n.storage with
      | none => simp [hs] at h
      | some st =>
        cases hkm : killMap kid st.mapping with
        | none => simp [hs, hkm] at h
        | some mp =>
          simp [hs, hkm] at h; obtain ⟨rfl, rfl⟩ := h
          simp [NRT.callbacks, hs, Storage.clone, small_replicate]

theorem map_cbs {n n' : NRT} {a k ms} (h : n.map a k = some (n', ms)) :
    n'.callbacks = n.callbacks ∧
    ∀ st ans, RtMsg.bind st ans ∈ ms → st.callbacks = n.callbacks ∧ Small st.values := by
  unfold NRT.map at h
  split at h
  · simp at h; obtain ⟨rfl, rfl⟩ := h; simp
  · cases hu : n.unMap a k with
    | none => simp [hu] at h
    | some r =>
      obtain ⟨n1, ms1⟩ := r
      simp [hu] at h; obtain ⟨rfl, rfl⟩ := h
      obtain ⟨h1, h2⟩ := unMap_cbs hu
      refine ⟨by simpa [NRT.callbacks] using h1, ?_⟩
      intro st ans hm
      simp at hm
      exact h2 st ans hm

theorem finishLearn_cbs {n n' : NRT} {ns : Storage} {a k id ms}
    (h : n.finishLearn ns a k id = some (n', ms)) :
    n'.callbacks = ns.callbacks ∧
    ∀ st ans, RtMsg.bind st ans ∈ ms → st.callbacks = ns.callbacks ∧ st.values = ns.values := by
  unfold NRT.finishLearn at h
  cases hl : imLookup n.invMap a with
  | none => simp [hl] at h
  | some im =>
    simp only [hl] at h
    split at h
    · simp at h
    · rename_i killed ns2 hkilled
      simp at h; obtain ⟨rfl, rfl⟩ := h
      have hcb : ns2.callbacks = ns.callbacks ∧ ns2.values = ns.values := by
        split at hkilled
        · split at hkilled
          · simp at hkilled; obtain ⟨mp, _, rfl⟩ := hkilled; exact ⟨rfl, rfl⟩
          · simp at hkilled; subst hkilled; exact ⟨rfl, rfl⟩
        · split at hkilled
          · simp at hkilled; obtain ⟨mp, _, rfl⟩ := hkilled; exact ⟨rfl, rfl⟩
          · simp at hkilled
          · simp at hkilled; subst hkilled; exact ⟨rfl, rfl⟩
      simp [NRT.callbacks, hcb.1, hcb.2]

theorem useFreeID_cbs {P : List PortSpec} {n n' : NRT} {id ms} (h : NRT.useFreeID P n id = some (n', ms)) :
    (∀ cb ∈ n'.callbacks, cb ∈ n.callbacks ∨ CbOk P cb) ∧
    ∀ st ans, RtMsg.bind st ans ∈ ms →
      (∀ cb ∈ st.callbacks, cb ∈ n.callbacks ∨ CbOk P cb) ∧ Small st.values := by
  cases hq : n.learnQ with
  | nil => simp [NRT.useFreeID, hq] at h; obtain ⟨rfl, rfl⟩ := h; simp; intro cb hcb; exact Or.inl hcb
  | cons x q =>
    obtain ⟨a, k⟩ := x
    simp only [NRT.useFreeID, hq] at h
    cases hp : P[a]? with
    | none => simp [hp] at h
    | some p =>
      simp only [hp] at h
      have key : ∀ (n1 : NRT) (ns : Storage), (∀ cb ∈ ns.callbacks, cb ∈ n.callbacks ∨ CbOk P cb) →
          Small ns.values → n1.finishLearn ns a k id = some (n', ms) →
          (∀ cb ∈ n'.callbacks, cb ∈ n.callbacks ∨ CbOk P cb) ∧
          ∀ st ans, RtMsg.bind st ans ∈ ms →
            (∀ cb ∈ st.callbacks, cb ∈ n.callbacks ∨ CbOk P cb) ∧ Small st.values := by
        intro n1 ns hns hsm hh
        obtain ⟨h1, h2⟩ := finishLearn_cbs hh
        exact ⟨by rw [h1]; exact hns, fun st ans hm => by rw [(h2 st ans hm).1, (h2 st ans hm).2]; exact ⟨hns, hsm⟩⟩
      cases hl0 : imLookup n.invMap a with
      | none =>
        simp only [hl0] at h
        refine key _ _ ?_ ?_ h
        · intro cb hcb
          simp only [NRT.generateNewBijection] at hcb
          cases hs : n.storage with
          | none =>
            simp [hs] at hcb; subst hcb
            right; exact ⟨p, hp, rfl⟩
          | some st =>
            simp [hs] at hcb
            rcases hcb with hcb | rfl
            · left; simpa [NRT.callbacks, hs] using hcb
            · right; exact ⟨p, hp, rfl⟩
        · simp only [NRT.generateNewBijection]
          cases hs : n.storage with
          | none => intro v hv; simp at hv; subst hv; decide
          | some st => exact small_replicate _
      | some im0 =>
        simp only [hl0] at h
        cases hs : n.storage with
        | none => simp [hs] at h
        | some st =>
          simp only [hs, Option.map_some] at h
          refine key _ _ ?_ ?_ h
          · intro cb hcb
            left; simpa [NRT.callbacks, hs, Storage.clone] using hcb
          · exact small_replicate _

/-! ### 7-bit blits -/

theorem blit_coarse (v old : Nat) : blit true v old = v * 128 + old % 128 := by
  have h1 : old &&& 0x7f = old % 128 := Nat.and_two_pow_sub_one_eq_mod old 7
  have h2 : old % 128 < 2 ^ 7 := Nat.mod_lt _ (by decide)
  simp only [blit, ↓reduceIte, h1]
  rw [← Nat.shiftLeft_add_eq_or_of_lt h2, Nat.shiftLeft_eq]

theorem and_shiftLeft_mask (x m n : Nat) : x &&& (m <<< n) = ((x >>> n) &&& m) <<< n := by
  apply Nat.eq_of_testBit_eq
  intro i
  simp only [Nat.testBit_and, Nat.testBit_shiftLeft, Nat.testBit_shiftRight]
  by_cases h : n ≤ i
  · have : n + (i - n) = i := by omega
    simp [h, this]
  · simp [h]

theorem and_3f80 (old : Nat) (ho : old < 16384) : old &&& 0x3f80 = old / 128 * 128 := by
  have h : (0x3f80 : Nat) = 0x7f <<< 7 := by decide
  rw [h, and_shiftLeft_mask, Nat.shiftLeft_eq, Nat.shiftRight_eq_div_pow]
  have h1 : old / 2 ^ 7 &&& 0x7f = (old / 2 ^ 7) % 128 := Nat.and_two_pow_sub_one_eq_mod _ 7
  rw [h1]
  have : old / 2 ^ 7 < 128 := by omega
  rw [Nat.mod_eq_of_lt this]

theorem blit_fine (v old : Nat) (hv : v < 128) (ho : old < 16384) :
    blit false v old = old / 128 * 128 + v := by
  simp only [blit, Bool.false_eq_true, ↓reduceIte, and_3f80 old ho]
  have : old / 128 * 128 = (old / 128) <<< 7 := by rw [Nat.shiftLeft_eq]
  rw [this, Nat.or_comm, ← Nat.shiftLeft_add_eq_or_of_lt (by simpa using hv)]

theorem blit_lt (k : Bool) (v old : Nat) (hv : v < 128) (ho : old < 16384) : blit k v old < 16384 := by
  cases k
  · rw [blit_fine v old hv ho]; omega
  · rw [blit_coarse]; omega

/-! ### values stay 14-bit -/

theorem part_lt (c : Bool) (sv : Nat) (h : sv < 16384) :
    (if c then sv >>> 7 else sv &&& 0x7f) < 128 := by
  cases c
  · have : sv &&& 0x7f = sv % 128 := Nat.and_two_pow_sub_one_eq_mod sv 7
    simp [this]; omega
  · simp [Nat.shiftRight_eq_div_pow]; omega

theorem cloneInner_small (d : MapEnt) (src : Storage) (hs : Small src.values) :
    ∀ (l : List MapEnt) (vals v : List Nat), Small vals → cloneInner d src l vals = some v → Small v := by
  intro l
  induction l with
  | nil => intro vals v hv h; simp [cloneInner] at h; subst h; exact hv
  | cons s rest ih =>
    intro vals v hv h
    unfold cloneInner at h
    split at h
    · split at h
      · rename_i sv dv hsv hdv
        have hsv' : sv < 16384 := hs sv (List.mem_of_getElem? hsv)
        have hdv' : dv < 16384 := hv dv (List.mem_of_getElem? hdv)
        exact ih _ v (small_set hv _ _ (blit_lt _ _ _ (part_lt _ _ hsv') hdv')) h
      · simp at h
    · exact ih vals v hv h

theorem cloneOuter_small (src : Storage) (hs : Small src.values) :
    ∀ (l : List MapEnt) (vals v : List Nat), Small vals → cloneOuter src l vals = some v → Small v := by
  intro l
  induction l with
  | nil => intro vals v hv h; simp [cloneOuter] at h; subst h; exact hv
  | cons d rest ih =>
    intro vals v hv h
    unfold cloneOuter at h
    split at h
    · simp at h
    · rename_i v1 h1
      exact ih v1 v (cloneInner_small d src hs _ _ _ hv h1) h

theorem cloneValues_small {n old n' : Storage} (ho : Small old.values) (h : n.cloneValues old = some n') :
    Small n'.values ∧ n'.callbacks = n.callbacks ∧ n'.mapping = n.mapping := by
  unfold Storage.cloneValues at h
  split at h
  · simp at h
  · rename_i v hv
    simp at h; subst h
    exact ⟨cloneOuter_small old ho _ _ _ (small_replicate _) hv, rfl, rfl⟩

theorem handleCC_small {st st' : Storage} {id val : Nat} {m} (hv : val ≤ 127) (hs : Small st.values)
    (h : st.handleCC id val = some (st', m)) :
    Small st'.values ∧ st'.callbacks = st.callbacks ∧ st'.mapping = st.mapping := by
  unfold Storage.handleCC at h
  split at h
  · simp at h; obtain ⟨rfl, _⟩ := h; exact ⟨hs, rfl, rfl⟩
  · split at h
    · rename_i old cb hold hcb
      simp at h; obtain ⟨rfl, _⟩ := h
      exact ⟨small_set hs _ _ (blit_lt _ _ _ (by omega) (hs old (List.mem_of_getElem? hold))), rfl, rfl⟩
    · simp at h

/-- Holds in every reachable state, whatever the delivery order and whether or not a
    hazard occurred. -/
structure Inv0 (P : List PortSpec) (s : Sys) : Prop where
  nrt : ∀ cb ∈ s.nrt.callbacks, CbOk P cb
  fl : ∀ st ans, RtMsg.bind st ans ∈ s.toRT → StCb P st ∧ Small st.values
  rt : ∀ st, s.rt.storage = some st → StCb P st ∧ Small st.values

theorem inv0_init (P) : Inv0 P Sys.init := by
  constructor <;> simp [Sys.init, NRT.init, RT.init, NRT.callbacks]

theorem inv0_step {P s op s' out} (h : Inv0 P s) (hwf : op.wf P) (hs : step P s op = some (s', out)) :
    Inv0 P s' := by
  cases op with
  | map a k =>
    simp only [step] at hs
    cases hm : s.nrt.map a k with
    | none => simp [hm] at hs
    | some r =>
      obtain ⟨n', ms⟩ := r
      simp [hm] at hs; obtain ⟨rfl, _⟩ := hs
      obtain ⟨h1, h2⟩ := map_cbs hm
      refine ⟨by simpa [h1] using h.nrt, ?_, h.rt⟩
      intro st ans hin
      simp only [List.mem_append] at hin
      rcases hin with hin | hin
      · exact h.fl st ans hin
      · obtain ⟨hc, hv⟩ := h2 st ans hin
        exact ⟨by intro cb hcb; rw [hc] at hcb; exact h.nrt cb hcb, hv⟩
  | unmap a k =>
    simp only [step] at hs
    cases hm : s.nrt.unMap a k with
    | none => simp [hm] at hs
    | some r =>
      obtain ⟨n', ms⟩ := r
      simp [hm] at hs; obtain ⟨rfl, _⟩ := hs
      obtain ⟨h1, h2⟩ := unMap_cbs hm
      refine ⟨by simpa [h1] using h.nrt, ?_, h.rt⟩
      intro st ans hin
      simp only [List.mem_append] at hin
      rcases hin with hin | hin
      · exact h.fl st ans hin
      · obtain ⟨hc, hv⟩ := h2 st ans hin
        exact ⟨by intro cb hcb; rw [hc] at hcb; exact h.nrt cb hcb, hv⟩
  | clear =>
    simp [step, NRT.clear] at hs; obtain ⟨rfl, _⟩ := hs
    refine ⟨by simp [NRT.callbacks, Storage.empty], ?_, h.rt⟩
    intro st ans hin
    simp only [List.mem_append, List.mem_singleton] at hin
    rcases hin with hin | hin
    · exact h.fl st ans hin
    · cases hin; exact ⟨by simp [StCb, Storage.empty], by simp [Small, Storage.empty]⟩
  | cc id val =>
    simp only [step] at hs
    cases hm : s.rt.handleCC id val with
    | none => simp [hm] at hs
    | some r =>
      obtain ⟨r', m, req⟩ := r
      simp [hm] at hs; obtain ⟨rfl, _⟩ := hs
      refine ⟨h.nrt, h.fl, ?_⟩
      -- the snapshot of the RT half only has a value written
      intro st' hst'
      simp only at hst'
      unfold RT.handleCC at hm
      cases hst : s.rt.storage with
      | none =>
        simp [hst] at hm
        split at hm <;> (simp at hm; obtain ⟨rfl, _⟩ := hm; simp at hst')
      | some st =>
        obtain ⟨hcb, hsm⟩ := h.rt st hst
        simp only [hst] at hm
        cases hh : st.handleCC id val with
        | none => simp [hh] at hm
        | some x =>
          obtain ⟨st2, m2⟩ := x
          obtain ⟨a1, a2, a3⟩ := handleCC_small hwf hsm hh
          have good : StCb P st2 ∧ Small st2.values := ⟨by intro cb hc; rw [a2] at hc; exact hcb cb hc, a1⟩
          simp only [hh, Option.map_some] at hm
          cases m2 with
          | some mm => simp at hm; obtain ⟨rfl, _⟩ := hm; simp at hst'; subst hst'; exact good
          | none =>
            simp only at hm
            split at hm <;> (simp at hm; obtain ⟨rfl, _⟩ := hm; simp at hst'; subst hst'; exact good)
  | deliverRT =>
    simp only [step] at hs
    cases hq : s.toRT with
    | nil => simp [hq] at hs; obtain ⟨rfl, _⟩ := hs; exact h
    | cons m rest =>
      simp only [hq] at hs
      cases hr : s.rt.recv m with
      | none => simp [hr] at hs
      | some r' =>
        simp [hr] at hs; obtain ⟨rfl, _⟩ := hs
        have hfl : ∀ st ans, RtMsg.bind st ans ∈ rest → StCb P st ∧ Small st.values :=
          fun st ans hin => h.fl st ans (by rw [hq]; exact List.mem_cons_of_mem _ hin)
        refine ⟨h.nrt, hfl, ?_⟩
        cases m with
        | addWatch => simp [RT.recv] at hr; subst hr; exact h.rt
        | bind ns ans =>
          obtain ⟨hcb, hsm⟩ := h.fl ns ans (by rw [hq]; exact List.mem_cons_self)
          simp only [RT.recv] at hr
          cases hst : s.rt.storage with
          | none =>
            simp [hst] at hr; subst hr
            intro st' hst'; simp at hst'; subst hst'; exact ⟨hcb, hsm⟩
          | some old =>
            simp only [hst] at hr
            cases hc : ns.cloneValues old with
            | none => simp [hc] at hr
            | some ns' =>
              simp [hc] at hr; subst hr
              obtain ⟨b1, b2, _⟩ := cloneValues_small (h.rt old hst).2 hc
              intro st' hst'; simp at hst'; subst hst'
              exact ⟨by intro cb hcb'; rw [b2] at hcb'; exact hcb cb hcb', b1⟩
  | deliverNRT =>
    simp only [step] at hs
    cases hq : s.toNRT with
    | nil => simp [hq] at hs; obtain ⟨rfl, _⟩ := hs; exact h
    | cons id rest =>
      simp only [hq] at hs
      cases hu : NRT.useFreeID P s.nrt id with
      | none => simp [hu] at hs
      | some r =>
        obtain ⟨n', ms⟩ := r
        simp [hu] at hs; obtain ⟨rfl, _⟩ := hs
        obtain ⟨h1, h2⟩ := useFreeID_cbs hu
        have old : ∀ cb, cb ∈ s.nrt.callbacks ∨ CbOk P cb → CbOk P cb := by
          intro cb hcb; rcases hcb with hcb | hcb
          · exact h.nrt cb hcb
          · exact hcb
        refine ⟨fun cb hcb => old cb (h1 cb hcb), ?_, h.rt⟩
        intro st ans hin
        simp only [List.mem_append] at hin
        rcases hin with hin | hin
        · exact h.fl st ans hin
        · obtain ⟨hc, hv⟩ := h2 st ans hin
          exact ⟨fun cb hcb => old cb (hc cb hcb), hv⟩

/-- reachable states (any delivery order, hazards allowed) -/
inductive Reach (P : List PortSpec) : Sys → Prop
  | init : Reach P Sys.init
  | step {s s' op out} : Reach P s → op.wf P → step P s op = some (s', out) → Reach P s'

theorem inv0_of_reach {P s} (r : Reach P s) : Inv0 P s := by
  induction r with
  | init => exact inv0_init P
  | step _ hwf hs ih => exact inv0_step ih hwf hs

theorem reach_of_trace {P h s} (t : Trace P h s) : Reach P s := by
  induction t with
  | init => exact Reach.init
  | step _ hwf hs ih => exact Reach.step ih hwf hs

end Rtosc.Midi
