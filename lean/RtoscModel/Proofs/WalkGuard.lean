/-
  C09 helper lemmas, part 8: the walk with a runtime object on trees *with* "enabled by"
  properties — the whole pruning clause (`walkPorts_full`): NULL pointers, toggles of the
  table that contains the guarded sub-tree port, toggles inside the guarded sub-tree
  (`name/toggle`), the toggle named by a table's own `self:` port.

  * `PathPrefix`: the table's address is "/" or "/c1/…/cn/" with ordinary components, so that
    C18's `collapse_eq_spec` says what `Ports::collapsePath` makes of `loc ++ "../" ++ guard`.
  * `guardsList` / `GuardsOK`: the decidable side conditions under which `port_is_enabled` is
    defined at all (see there).
  * the induction is that of `walkList_pruned`, with `portIsEnabled_self`, `portIsEnabled_sibling`,
    `portIsEnabled_inner` at the gates.
-/
import RtoscModel.Proofs.WalkRuntime
import RtoscModel.Proofs.WalkOnce
import RtoscModel.Props.C18
namespace Rtosc.Walk
open Rtosc Rtosc.Path Rtosc.Match

/-! ### collapsePath on the addresses the walk forms -/

theorem foldl_stackStep_plain : ∀ (cs st : List Bytes), (∀ c ∈ cs, c ≠ DOTDOT) →
    cs.foldl stackStep st = cs.reverse ++ st
  | [], st, _ => by simp
  | c :: r, st, h => by
    have hc : c ≠ DOTDOT := h c List.mem_cons_self
    simp only [List.foldl_cons, stackStep, hc, ↓reduceIte]
    rw [foldl_stackStep_plain r (c :: st) (fun x hx => h x (List.mem_cons_of_mem _ hx))]
    simp

/-- an address without ".." components is left as it is -/
theorem cancel_plain (cs : List Bytes) (h : ∀ c ∈ cs, c ≠ DOTDOT) : cancel cs = cs := by
  simp [cancel, foldl_stackStep_plain cs [] h]

/-- "x/../" is removed -/
theorem cancel_dotdot (cs es : List Bytes) (x : Bytes) (h : ∀ c ∈ cs, c ≠ DOTDOT) (hx : x ≠ DOTDOT)
    (he : ∀ c ∈ es, c ≠ DOTDOT) : cancel (cs ++ [x, DOTDOT] ++ es) = cs ++ es := by
  simp only [cancel, List.foldl_append, foldl_stackStep_plain cs [] h, List.foldl_cons, List.foldl_nil,
    stackStep, hx, ↓reduceIte, List.drop_one, List.tail_cons, List.append_nil]
  rw [foldl_stackStep_plain es _ he]
  simp

/-- an ordinary path component: no NUL, no '/', not ".." -/
def CompOk (c : Bytes) : Prop := CompWF c ∧ c ≠ DOTDOT

/-- the address of a table: "/" or "/c1/…/cn/" -/
def PathPrefix (pre : Bytes) : Prop := ∃ cs : List Bytes, (∀ c ∈ cs, CompOk c) ∧ pre = render cs ++ [47]

theorem compWF_dotdot : CompWF DOTDOT := by
  intro x hx
  simp only [DOTDOT, DOT, List.mem_cons, List.not_mem_nil, or_false, or_self] at hx
  subst hx
  exact ⟨by decide, by decide⟩

theorem render_snoc (cs : List Bytes) (c : Bytes) : render (cs ++ [c]) = render cs ++ 47 :: c := by
  rw [render_append, render_cons]
  simp [render, SLASH]

theorem render_nil : render [] = [] := rfl

/-- `collapsePath(pre ++ es)` for `pre = "/c1/…/cn/"` and ordinary components `es` (at least one) -/
theorem collapse_plain (cs es : List Bytes) (e : Bytes) (hcs : ∀ c ∈ cs, CompOk c) (hes : ∀ c ∈ es ++ [e], CompOk c) :
    ∃ off, collapseStr (render cs ++ [47] ++ (render es).drop 1 ++ (if es = [] then [] else [47]) ++ e ++ [0]) =
      some (off, render (cs ++ es ++ [e])) := by
  have hall : ∀ c ∈ cs ++ es ++ [e], CompOk c := by
    intro c hc
    rcases List.mem_append.mp hc with h | h
    · rcases List.mem_append.mp h with h | h
      · exact hcs c h
      · exact hes c (List.mem_append_left _ h)
    · exact hes c (List.mem_append_right _ h)
  have hstr : render cs ++ [47] ++ (render es).drop 1 ++ (if es = [] then [] else [47]) ++ e =
      render (cs ++ es ++ [e]) := by
    cases es with
    | nil => simp [render_snoc, render_nil]
    | cons x r =>
      rw [render_snoc, render_append, render_cons]
      simp [SLASH]
  have h := collapse_eq_spec (cs ++ es ++ [e]) [] (fun c hc => (hall c hc).1)
  rw [cancel_plain _ (fun c hc => (hall c hc).2)] at h
  rw [hstr]
  exact ⟨_, h⟩

/-- `collapsePath(pre ++ x ++ "/../" ++ …)` -/
theorem collapse_dotdot (cs es : List Bytes) (x e : Bytes) (hcs : ∀ c ∈ cs, CompOk c) (hx : CompOk x)
    (hes : ∀ c ∈ es ++ [e], CompOk c) :
    ∃ off, collapseStr (render cs ++ [47] ++ x ++ [47] ++ DOTDOTSLASH ++ (render es).drop 1 ++
        (if es = [] then [] else [47]) ++ e ++ [0]) = some (off, render (cs ++ es ++ [e])) := by
  have hstr : render cs ++ [47] ++ x ++ [47] ++ DOTDOTSLASH ++ (render es).drop 1 ++
      (if es = [] then [] else [47]) ++ e = render (cs ++ [x, DOTDOT] ++ (es ++ [e])) := by
    have e1 : render (cs ++ [x, DOTDOT] ++ (es ++ [e])) = render cs ++ 47 :: x ++ 47 :: DOTDOT ++ render (es ++ [e]) := by
      rw [render_append, render_append, render_cons, render_cons, render_nil]
      simp [SLASH]
    rw [e1]
    cases es with
    | nil => simp [render_cons, render_nil, SLASH, DOTDOTSLASH, DOTDOT, DOT]
    | cons y r =>
      rw [render_snoc, render_cons]
      simp [SLASH, DOTDOTSLASH, DOTDOT, DOT]
  have hall : ∀ c ∈ cs ++ [x, DOTDOT] ++ (es ++ [e]), CompWF c := by
    intro c hc
    rcases List.mem_append.mp hc with h | h
    · rcases List.mem_append.mp h with h | h
      · exact (hcs c h).1
      · simp only [List.mem_cons, List.not_mem_nil, or_false] at h
        rcases h with rfl | rfl
        · exact hx.1
        · exact compWF_dotdot
    · exact (hes c h).1
  have h := collapse_eq_spec (cs ++ [x, DOTDOT] ++ (es ++ [e])) [] hall
  rw [cancel_dotdot cs (es ++ [e]) x (fun c hc => (hcs c hc).2) hx.2 (fun c hc => (hes c hc).2)] at h
  rw [hstr, h, List.append_assoc cs es [e]]
  exact ⟨_, rfl⟩

/-- a table's own toggle: `collapsePath(pre ++ ep)` -/
theorem collapse_self (cs : List Bytes) (ep : Bytes) (hcs : ∀ c ∈ cs, CompOk c) (hep : CompOk ep) :
    ∃ off, collapseStr (render cs ++ [47] ++ [] ++ ep ++ [0]) = some (off, render cs ++ [47] ++ ep) := by
  obtain ⟨off, h⟩ := collapse_plain cs [] ep hcs (by simpa using hep)
  refine ⟨off, ?_⟩
  simpa [render_snoc, render_nil] using h

/-- a sibling toggle: `collapsePath(pre ++ x ++ "/../" ++ ep)` -/
theorem collapse_sibling (cs : List Bytes) (x ep : Bytes) (hcs : ∀ c ∈ cs, CompOk c) (hx : CompOk x) (hep : CompOk ep) :
    ∃ off, collapseStr (render cs ++ [47] ++ x ++ [47] ++ DOTDOTSLASH ++ ep ++ [0]) = some (off, render cs ++ [47] ++ ep) := by
  obtain ⟨off, h⟩ := collapse_dotdot cs [] x ep hcs hx (by simpa using hep)
  refine ⟨off, ?_⟩
  simpa [render_snoc, render_nil] using h

/-- a toggle of the sub-tree itself: `collapsePath(pre ++ x ++ "/../" ++ h ++ "/" ++ t)` -/
theorem collapse_inner (cs : List Bytes) (x h t : Bytes) (hcs : ∀ c ∈ cs, CompOk c) (hx : CompOk x) (hh : CompOk h)
    (ht : CompOk t) :
    ∃ off, collapseStr (render cs ++ [47] ++ x ++ [47] ++ DOTDOTSLASH ++ (h ++ 47 :: t) ++ [0]) =
      some (off, render cs ++ [47] ++ h ++ [47] ++ t) := by
  obtain ⟨off, hc⟩ := collapse_dotdot cs [h] x t hcs hx (by
    intro c hc
    simp only [List.cons_append, List.nil_append, List.mem_cons, List.not_mem_nil, or_false] at hc
    rcases hc with rfl | rfl
    · exact hh
    · exact ht)
  refine ⟨off, ?_⟩
  simpa [render_append, render_cons, render_nil, SLASH, List.append_assoc] using hc

/-! ### port_is_enabled at the three kinds of gate -/

theorem guardOf_some {md : Option Bytes} {ep : Bytes} (h : guardOf md = some ep) :
    ∃ m, Meta.portMeta md = some m ∧ Meta.lookup m ENABLED_BY = some (some ep) := by
  simp only [guardOf] at h
  cases hm : Meta.portMeta md with
  | none => simp [hm] at h
  | some m =>
    simp only [hm] at h
    cases hl : Meta.lookup m ENABLED_BY with
    | none => simp [hl] at h
    | some v =>
      cases v with
      | none => simp [hl] at h
      | some e => simp only [hl, Option.some.injEq] at h; subst h; exact ⟨m, rfl, hl⟩

/-- readable metadata without "enabled by" -/
theorem unguarded_spec {md : Option Bytes} (h : unguarded md = true) :
    ∃ m, Meta.portMeta md = some m ∧ Meta.lookup m ENABLED_BY = some none := by
  simp only [unguarded] at h
  cases hm : Meta.portMeta md with
  | none => simp [hm] at h
  | some m =>
    simp only [hm] at h
    cases hl : Meta.lookup m ENABLED_BY with
    | none => simp [hl] at h
    | some v =>
      cases v with
      | none => exact ⟨m, rfl, hl⟩
      | some e => simp [hl] at h

/-- an "enabled by" value without '/' never denotes a port inside the guarded sub-tree -/
theorem subportScan_flat : ∀ (n e : Bytes), (∀ c ∈ e, c ≠ 47) → (subportScan n e).1 = false
  | [], e, _ => by unfold subportScan; rfl
  | c :: nr, [], _ => by unfold subportScan; rfl
  | c :: nr, d :: er, h => by
    unfold subportScan
    by_cases hc : c = d ∧ c ≠ 47
    · show (if c = d ∧ c ≠ 47 then subportScan nr er else (decide (c = 47 ∧ d = 47), d :: er)).1 = false
      rw [if_pos hc]
      exact subportScan_flat nr er (fun x hx => h x (List.mem_cons_of_mem _ hx))
    · have hd : d ≠ 47 := h d List.mem_cons_self
      simp [hc, hd]

/-- `name/port`: the first component of the guard is the first component of the port's name -/
theorem subportScan_inner : ∀ (h x t : Bytes), (∀ c ∈ h, c ≠ 47) →
    subportScan (h ++ 47 :: x) (h ++ 47 :: t) = (true, 47 :: t)
  | [], x, t, _ => by unfold subportScan; simp
  | c :: r, x, t, hh => by
    have hc : c ≠ 47 := hh c List.mem_cons_self
    unfold subportScan
    simp only [List.cons_append, hc, ne_eq, not_false_eq_true, and_self, ↓reduceIte]
    exact subportScan_inner r x t (fun y hy => hh y (List.mem_cons_of_mem _ hy))

/-- the `self:` port of a table (`rel = false`): the toggle is a row of the same table, asked on
    the table's object; if it answers false it is reported under its own address -/
theorem portIsEnabled_self (j : Nat) (sp : PortT) (b : Buf) (tab : List PortT) (path : List Nat) (obj : Obj)
    (cs : List Bytes) (ep : Bytes) (k : Nat) (ask : PortT) (v : Bool)
    (hg : guardOf sp.metadata = some ep)
    (hk : index tab ep = some k) (hask : tab[k]? = some ask) (hlit : lit ask.name = ep)
    (hv : obj.toggle ep = some v) (hloc : cstrAt b 0 = .ok (render cs ++ [47]))
    (hcs : ∀ c ∈ cs, CompOk c) (hep : CompOk ep) :
    portIsEnabled (some (j, sp)) b tab path (some obj) false none =
      .ok (v, if v then [] else [(path ++ [k], render cs ++ [47] ++ ep)]) := by
  obtain ⟨m, hm, hl⟩ := guardOf_some hg
  have hflat : ∀ c ∈ ep, c ≠ 47 := fun c hc => (hep.1 c hc).2
  have hs : subportScan sp.name ep = (false, (subportScan sp.name ep).2) := by
    rw [← subportScan_flat sp.name ep hflat]
  obtain ⟨off, hcol⟩ := collapse_self cs ep hcs hep
  simp only [portIsEnabled, hm, hl]
  rw [hs]
  simp only [Bool.false_eq_true, ↓reduceIte, hk, hask, hloc, hcol, hlit, hv, Bool.false_or]
  cases v <;> simp

/-- a sub-tree port guarded by a toggle of the table that contains it (`rel = true`): asked on
    that table's object; nothing is reported -/
theorem portIsEnabled_sibling (i : Nat) (p : PortT) (b : Buf) (base : List PortT) (path : List Nat) (obj : Obj)
    (child : Option Obj) (cs : List Bytes) (x ep : Bytes) (k : Nat) (ask : PortT) (v : Bool)
    (hg : guardOf p.metadata = some ep)
    (hk : index base ep = some k) (hask : base[k]? = some ask) (hlit : lit ask.name = ep)
    (hv : obj.toggle ep = some v) (hloc : cstrAt b 0 = .ok (render cs ++ [47] ++ x ++ [47]))
    (hcs : ∀ c ∈ cs, CompOk c) (hx : CompOk x) (hep : CompOk ep) :
    portIsEnabled (some (i, p)) b base path (some obj) true child = .ok (v, []) := by
  obtain ⟨m, hm, hl⟩ := guardOf_some hg
  have hflat : ∀ c ∈ ep, c ≠ 47 := fun c hc => (hep.1 c hc).2
  have hs : subportScan p.name ep = (false, (subportScan p.name ep).2) := by
    rw [← subportScan_flat p.name ep hflat]
  obtain ⟨off, hcol⟩ := collapse_sibling cs x ep hcs hx hep
  simp only [portIsEnabled, hm, hl]
  rw [hs]
  simp only [Bool.false_eq_true, ↓reduceIte, hk, hask, hloc, hcol, hlit, hv, Bool.false_or]
  cases v <;> simp

/-- a sub-tree port `h/` guarded by `h/t`, a toggle of its own table: asked on the sub-tree's
    object; if it answers false it is reported under its own address -/
theorem portIsEnabled_inner (i : Nat) (p : PortT) (b : Buf) (base : List PortT) (path : List Nat) (obj child : Obj)
    (cs : List Bytes) (h ty t : Bytes) (q : PortT) (k : Nat) (ask : PortT) (v : Bool)
    (hname : p.name = h ++ 47 :: ty) (hg : guardOf p.metadata = some (h ++ 47 :: t))
    (hj : index base p.name = some i) (hq : base[i]? = some q) (hqp : q.hasPorts = true)
    (hk : index q.children t = some k) (hask : q.children[k]? = some ask) (hlit : lit ask.name = t)
    (hv : child.toggle t = some v) (hloc : cstrAt b 0 = .ok (render cs ++ [47] ++ h ++ [47]))
    (hcs : ∀ c ∈ cs, CompOk c) (hh : CompOk h) (ht : CompOk t) :
    portIsEnabled (some (i, p)) b base path (some obj) true (some child) =
      .ok (v, if v then [] else [(path ++ [i] ++ [k], render cs ++ [47] ++ h ++ [47] ++ t)]) := by
  obtain ⟨m, hm, hl⟩ := guardOf_some hg
  have hs : subportScan p.name (h ++ 47 :: t) = (true, 47 :: t) := by
    rw [hname]; exact subportScan_inner h ty t (fun c hc => (hh.1 c hc).2)
  obtain ⟨off, hcol⟩ := collapse_inner cs h h t hcs hh hh ht
  simp only [portIsEnabled, hm, hl, hs, ↓reduceIte, List.drop_one, List.tail_cons, hj, hq, hqp, hk, hask, hloc, hcol,
    Option.getD_some, hlit, hv, Bool.true_or]
  cases v <;> simp

/-! ### the decidable side conditions, unfolded -/

theorem compOk_of_B {c : Bytes} (h : compOkB c = true) : CompOk c := by
  simp only [compOkB, Bool.and_eq_true, List.all_eq_true, bne_iff_ne, ne_eq] at h
  exact ⟨fun x hx => ⟨(h.1 x hx).1, (h.1 x hx).2⟩, h.2⟩

theorem unguarded_guardOf {md : Option Bytes} (h : unguarded md = true) : guardOf md = none := by
  obtain ⟨m, hm, hl⟩ := unguarded_spec h
  simp [guardOf, hm, hl]

theorem metaOk_cases {md : Option Bytes} (h : metaOk md = true) :
    unguarded md = true ∨ ∃ ep, guardOf md = some ep := by
  simp only [metaOk, Bool.or_eq_true] at h
  rcases h with h | h
  · exact Or.inl h
  · right
    cases hg : guardOf md with
    | none => simp [hg] at h
    | some ep => exact ⟨ep, rfl⟩

theorem toggleOk_spec {tab : List PortT} {obj : Obj} {ep : Bytes} (h : toggleOk tab obj ep = true) :
    CompOk ep ∧ ∃ k ask v, index tab ep = some k ∧ tab[k]? = some ask ∧ lit ask.name = ep ∧ obj.toggle ep = some v := by
  simp only [toggleOk, Bool.and_eq_true] at h
  refine ⟨compOk_of_B h.1, ?_⟩
  cases hk : index tab ep with
  | none => simp [hk] at h
  | some k =>
    cases ha : tab[k]? with
    | none => simp [hk, ha] at h
    | some ask =>
      simp only [hk, ha, Bool.and_eq_true, beq_iff_eq] at h
      cases hv : obj.toggle ep with
      | none => simp [hv] at h
      | some v => exact ⟨k, ask, v, rfl, ha, h.2.1, by first | exact hv | rfl⟩

theorem expandParts_flat : ∀ (ps : List (Bytes × Bytes)), (ps.all fun p => p.2.all (· != 47)) = true →
    ∀ a ∈ expandParts ps, ∀ c ∈ a, c ≠ 47
  | [], _, a, ha, c, hc => by rw [expandParts_nil_mem] at ha; subst ha; simp at hc
  | (ds, t) :: r, h, a, ha, c, hc => by
    simp only [List.all_cons, Bool.and_eq_true, List.all_eq_true, bne_iff_ne, ne_eq] at h
    obtain ⟨i, _, b, hb, rfl⟩ := mem_expandParts_cons.mp ha
    simp only [List.mem_append] at hc
    rcases hc with (hc | hc) | hc
    · exact (isDigit_ne (natDigits_digits i c hc)).2.2.2.1
    · exact h.1 c hc
    · exact expandParts_flat r (by simpa [List.all_eq_true] using h.2) b hb c hc

theorem expandParts_head_digit : ∀ (ps : List (Bytes × Bytes)) (a : Bytes), a ∈ expandParts ps →
    a = [] ∨ ∃ d r, a = d :: r ∧ Match.isDigit d = true
  | [], a, ha => by rw [expandParts_nil_mem] at ha; exact Or.inl ha
  | (ds, t) :: r, a, ha => by
    obtain ⟨i, _, b, _, rfl⟩ := mem_expandParts_cons.mp ha
    right
    cases hn : natDigits i with
    | nil => exact absurd hn (natDigits_ne_nil i)
    | cons d q =>
      refine ⟨d, q ++ t ++ b, by simp, ?_⟩
      exact natDigits_digits i d (by rw [hn]; exact List.mem_cons_self)

/-- the one path component a sub-tree port adds to the address -/
theorem flat_comp {w : WName} (hflat : flatName w = true) (hhead : textOk w.head = true) (hne : w.head ≠ [])
    (hparts : partsOk w.parts = true) {a : Bytes} (ha : a ∈ expandParts w.parts) : CompOk (w.head ++ a) := by
  simp only [flatName, Bool.and_eq_true, List.all_eq_true, bne_iff_ne, ne_eq] at hflat
  refine ⟨?_, ?_⟩
  · intro c hc
    rcases List.mem_append.mp hc with h | h
    · exact ⟨textOk_nulfree hhead c h, hflat.1.1 c h⟩
    · exact ⟨expandParts_nulfree w.parts hparts a ha c h,
        expandParts_flat w.parts (by simpa [List.all_eq_true] using hflat.1.2) a ha c h⟩
  · intro he
    rcases expandParts_head_digit w.parts a ha with rfl | ⟨d, r, rfl, hd⟩
    · exact hflat.2 (by simpa using he)
    · -- head ++ d :: r = ".." with head ≠ []: d would be '.'
      cases hh : w.head with
      | nil => exact hne hh
      | cons x q =>
        rw [hh] at he
        simp only [DOTDOT, DOT, List.cons_append, List.cons.injEq] at he
        cases q with
        | nil =>
          simp only [List.nil_append, List.cons.injEq] at he
          have := he.2.1
          subst this
          exact absurd hd (by decide)
        | cons y z => simp at he

theorem render_snoc_slash (cs : List Bytes) (c : Bytes) : render cs ++ [47] ++ c ++ [47] = render (cs ++ [c]) ++ [47] := by
  rw [render_snoc]; simp

theorem prefix_nulfree {cs : List Bytes} (hcs : ∀ c ∈ cs, CompOk c) : NulFree (render cs ++ [47]) := by
  refine NulFree.append ?_ nulFree_slash
  exact render_no_nul cs (fun c hc => (hcs c hc).1)

/-! ### walk_ports on a table with a `self:` port -/

theorem walkTable_full (loop : Nat → Buf → M (List Call × Buf)) (tab : List PortT) (path : List Nat) (c : Obj)
    (cs : List Bytes) (Y : Buf) (body : List Call) (hcs : ∀ x ∈ cs, CompOk x) (hself : selfOk tab c = true)
    (hloop : ∃ Y', loop (render cs ++ [47]).length ((render cs ++ [47]) ++ 0 :: Y) = .ok (body, (render cs ++ [47]) ++ 0 :: Y') ∧
      Y'.length = Y.length) :
    ∃ Y', walkTable loop tab path (some c) ((render cs ++ [47]) ++ 0 :: Y) =
        .ok (tableGate tab path (render cs ++ [47]) (some c) body, (render cs ++ [47]) ++ 0 :: Y') ∧
      Y'.length = Y.length := by
  obtain ⟨Y1, hl1, hl2⟩ := hloop
  have hQ : NulFree (render cs ++ [47]) := prefix_nulfree hcs
  have hloc := cstrAt_zero (render cs ++ [47]) Y hQ
  have hlen := strlenAt_zero (render cs ++ [47]) Y hQ
  obtain ⟨c0, r0, hQe⟩ : ∃ c0 r0, render cs ++ [47] = c0 :: r0 := by
    cases h : render cs ++ [47] with
    | nil => simp at h
    | cons c0 r0 => exact ⟨c0, r0, rfl⟩
  have hc0 : c0 ≠ 0 := hQ c0 (by rw [hQe]; exact List.mem_cons_self)
  have h0 : rd ((render cs ++ [47]) ++ 0 :: Y) 0 = .ok c0 := by rw [hQe]; simp [rd]
  -- the decision of the self: port
  have key : ∃ en ex, portIsEnabled ((index tab SELF).bind fun j => (tab[j]?).map fun p => (j, p))
        ((render cs ++ [47]) ++ 0 :: Y) tab path (some c) false = .ok (en, ex) ∧
      tableGate tab path (render cs ++ [47]) (some c) body = (if en then ex ++ body else ex) := by
    simp only [selfOk] at hself
    simp only [tableGate]
    cases hi : index tab SELF with
    | none => exact ⟨true, [], by simp [portIsEnabled], by simp⟩
    | some j =>
      cases hj : tab[j]? with
      | none => exact ⟨true, [], by simp [portIsEnabled, hj], by simp [hj]⟩
      | some sp =>
        simp only [hi, Option.bind_some, hj, Bool.and_eq_true] at hself
        simp only [Option.bind_some, hj, Option.map_some]
        rcases metaOk_cases hself.1 with hu | ⟨ep, hg⟩
        · refine ⟨true, [], portIsEnabled_unguarded j sp _ _ _ _ _ _ hu, ?_⟩
          simp [unguarded_guardOf hu]
        · simp only [hg] at hself
          obtain ⟨hep, k, ask, v, hk, hask, hlit, hv⟩ := toggleOk_spec hself.2
          refine ⟨v, _, portIsEnabled_self j sp _ tab path c cs ep k ask v hg hk hask hlit hv hloc hcs hep, ?_⟩
          simp only [hg, hv, hk]
          cases v <;> simp
  obtain ⟨en, ex, hen, hgate⟩ := key
  simp only [walkTable, bind, Except.bind, h0, hc0, ↓reduceIte, pure, Except.pure, hlen, hen]
  rw [hgate]
  cases en with
  | true =>
    simp only [↓reduceIte, hl1]
    exact ⟨Y1, rfl, hl2⟩
  | false =>
    simp only [Bool.false_eq_true, ↓reduceIte]
    exact ⟨Y, rfl, rfl⟩

/-! ### the induction over the tree -/

/-- what the pruning clause says about one concrete address `Q = pre ++ rel` of a sub-tree port -/
def subBody (obj : Obj) (w : WName) (md : Option Bytes) (kids : List STree) (ix : List Nat) (Q rel : Bytes) : List Call :=
  match obj.kid rel with
  | some (some c) =>
    let below := tableGate (toPorts kids) ix Q (some c) (fullList Q ix (some c) kids 0)
    match guardOf md with
    | none => below
    | some ep =>
      let (sub, e) := subportScan w.render ep
      if sub then
        if c.toggle (e.drop 1) == some true then below
        else match index (toPorts kids) (e.drop 1) with
          | some k => [(ix ++ [k], Q ++ e.drop 1)]
          | none => []
      else if obj.toggle ep == some true then below else []
  | _ => []

theorem fullTree_sub (pre : Bytes) (ix : List Nat) (obj : Obj) (w : WName) (md : Option Bytes) (kids : List STree) :
    fullTree pre ix (some obj) (.sub w md kids) =
      (expandParts w.parts).flatMap fun a => subBody obj w md kids ix (pre ++ w.head ++ a ++ [47]) (w.head ++ a ++ [47]) := by
  simp only [fullTree, subBody]
  congr 1

theorem drop_cons_get {α : Type} {l : List α} {i : Nat} {x : α} {r : List α} (h : l.drop i = x :: r) :
    l[i]? = some x ∧ l.drop (i + 1) = r := by
  constructor
  · have := congrArg List.head? h
    simpa [List.head?_drop] using this
  · have := congrArg List.tail h
    simpa [List.tail_drop] using this

mutual
theorem walkList_full : ∀ (ts : List STree) (base : List PortT) (path : List Nat) (obj : Obj) (i : Nat)
    (cs : List Bytes) (J : Buf), wfList ts = true → multiHashLeafList ts = false →
    guardsList base obj ts i = true → base.drop i = toPorts ts → (∀ c ∈ cs, CompOk c) →
    needList ts ≤ J.length → (render cs ++ [47]).length + needList ts + 10 ≤ SCRATCH →
    ∃ J', walkList {} base path (some obj) (render cs ++ [47]).length (toPorts ts) i ((render cs ++ [47]) ++ 0 :: J) =
        .ok (fullList (render cs ++ [47]) path (some obj) ts i, (render cs ++ [47]) ++ 0 :: J') ∧ J'.length = J.length
  | [], base, path, obj, i, cs, J, _, _, _, _, _, _, _ => ⟨J, by simp [toPorts, walkList, fullList], rfl⟩
  | t :: r, base, path, obj, i, cs, J, hwf, hmh, hg, hbase, hcs, hcap, hlen => by
    simp only [wfList, Bool.and_eq_true] at hwf
    simp only [multiHashLeafList, Bool.or_eq_false_iff] at hmh
    simp only [guardsList, Bool.and_eq_true] at hg
    simp only [needList] at hcap hlen
    simp only [toPorts] at hbase
    obtain ⟨hrow, hrest⟩ := drop_cons_get hbase
    have hpre := prefix_nulfree hcs
    obtain ⟨s, J1, hs, h1, l1⟩ := walkPort_full t base path obj i cs J hwf.1 hmh.1 hg.1 hrow hcs (by omega) (by omega)
    obtain ⟨J2, h2, l2⟩ := erase_spec (render cs ++ [47]) s J1 hs
    obtain ⟨J3, h3, l3⟩ := walkList_full r base path obj (i + 1) cs J2 hwf.2 hmh.2 hg.2 hrest hcs (by omega) (by omega)
    refine ⟨J3, ?_, by omega⟩
    simp only [toPorts, walkList, h1, h2, h3, fullList]
theorem walkPort_full : ∀ (t : STree) (base : List PortT) (path : List Nat) (obj : Obj) (i : Nat)
    (cs : List Bytes) (J : Buf), t.wf = true → t.multiHashLeaf = false →
    guardsTree base obj i t = true → base[i]? = some t.toPort → (∀ c ∈ cs, CompOk c) →
    t.need ≤ J.length → (render cs ++ [47]).length + t.need + 10 ≤ SCRATCH →
    ∃ s J', NulFree s ∧
      walkPort {} base path (some obj) (render cs ++ [47]).length i t.toPort ((render cs ++ [47]) ++ 0 :: J) =
        .ok (fullTree (render cs ++ [47]) (path ++ [i]) (some obj) t, (render cs ++ [47]) ++ s ++ 0 :: J') ∧
      s.length + J'.length = J.length
  | .leaf w md, base, path, obj, i, cs, J, hwf, hmh, _, _, hcs, hcap, _ => by
    obtain ⟨s, J', h1, h2, h3⟩ := walkPort_leaf base path (some obj) i w md (render cs ++ [47]) J
      (by simpa [STree.wf, WName.leafOk] using hwf) (prefix_nulfree hcs) hcap
    refine ⟨s, J', h1, ?_, h3⟩
    rw [h2]
    have hle : w.parts.length ≤ 1 := by
      simp only [STree.multiHashLeaf, decide_eq_false_iff_not] at hmh
      omega
    simp only [codeTree, fullTree, expandFirst_eq_expandParts w.parts hle]
  | .sub w md kids, base, path, obj, i, cs, J, hwf, hmh, hg, hrow, hcs, hcap, hlen => by
    simp only [STree.wf, Bool.and_eq_true] at hwf
    simp only [STree.multiHashLeaf] at hmh
    simp only [guardsTree, Bool.and_eq_true, List.all_eq_true] at hg
    obtain ⟨⟨hflat, hmeta⟩, hkids⟩ := hg
    obtain ⟨hok, hheadne, hslash, hpos⟩ := WName.subOk_spec hwf.1
    obtain ⟨hhead, hparts, htypes⟩ := WName.ok_spec hok
    simp only [STree.need] at hcap hlen
    have hpre := prefix_nulfree hcs
    have hne : render cs ++ [47] ≠ [] := by simp
    have hname : w.render = w.head ++ renderParts w.parts ++ 47 :: renderTypes w.types := by
      simp [WName.render, WName.body, hslash, slashIf]
    let pre := render cs ++ [47]
    let L := (pre ++ 0 :: J).length
    let k : Buf → M (List Call × Buf) := fun b' =>
      match recurseGate (.mk w.render md true (toPorts kids)) i b' base path (some obj) pre.length with
      | .error e => .error e
      | .ok (none, calls) => .ok (calls, b')
      | .ok (some rt', calls) =>
        match walkTable (fun oe bb => walkList {} (toPorts kids) (path ++ [i]) rt' oe (toPorts kids) 0 bb)
            (toPorts kids) (path ++ [i]) rt' b' with
        | .error e => .error e
        | .ok (c2, b2) => .ok (calls ++ c2, b2)
    let calls : Bytes → List Call := fun Q => subBody obj w md kids (path ++ [i]) Q (Q.drop pre.length)
    have hk : ∀ a ∈ expandParts w.parts, ∀ Y', ((pre ++ w.head ++ a ++ [47]) ++ 0 :: Y').length = L →
        ∃ Y'', k ((pre ++ w.head ++ a ++ [47]) ++ 0 :: Y') =
            .ok (calls (pre ++ w.head ++ a ++ [47]), (pre ++ w.head ++ a ++ [47]) ++ 0 :: Y'') ∧
          Y''.length = Y'.length := by
      intro a ha Y' hlenL
      have hnm : CompOk (w.head ++ a) := flat_comp hflat hhead hheadne hparts ha
      have hcs' : ∀ c ∈ cs ++ [w.head ++ a], CompOk c := by
        intro c hc
        rcases List.mem_append.mp hc with h | h
        · exact hcs c h
        · simp only [List.mem_cons, List.not_mem_nil, or_false] at h; subst h; exact hnm
      have eQ : pre ++ w.head ++ a ++ [47] = render (cs ++ [w.head ++ a]) ++ [47] := by
        simp only [pre, render_snoc]; simp
      have eQ2 : pre ++ w.head ++ a ++ [47] = pre ++ (w.head ++ a ++ [47]) := by simp
      have eQ3 : pre ++ w.head ++ a ++ [47] = render cs ++ [47] ++ (w.head ++ a) ++ [47] := by simp [pre]
      have hrelnul : NulFree (w.head ++ a ++ [47]) :=
        NulFree.append (NulFree.append (textOk_nulfree hhead) (expandParts_nulfree w.parts hparts a ha)) nulFree_slash
      have hQ : NulFree (pre ++ w.head ++ a ++ [47]) := by rw [eQ2]; exact NulFree.append hpre hrelnul
      have hma := mem_maxLen ha
      have hroom : needList kids ≤ Y'.length := by
        simp only [List.length_append, List.length_cons, List.length_nil, L, pre] at hlenL ⊢
        omega
      have hdrop : (pre ++ w.head ++ a ++ [47]).drop pre.length = w.head ++ a ++ [47] := by
        rw [eQ2, List.drop_left]
      have hrel : cstrAt ((pre ++ w.head ++ a ++ [47]) ++ 0 :: Y') pre.length = .ok (w.head ++ a ++ [47]) := by
        rw [eQ2]; exact cstrAt_mid pre _ Y' hrelnul
      have hloc : cstrAt ((pre ++ w.head ++ a ++ [47]) ++ 0 :: Y') 0 = .ok (pre ++ w.head ++ a ++ [47]) :=
        cstrAt_zero _ Y' hQ
      have hQlen : (pre ++ w.head ++ a ++ [47]).length + needList kids + 10 ≤ SCRATCH := by
        simp only [List.length_append, List.length_cons, List.length_nil, pre] at hlen ⊢
        omega
      have hfit : ¬ ((pre ++ w.head ++ a ++ [47]).length + 10 > SCRATCH) := by omega
      have hd := hkids a ha
      cases hkid : obj.kid (w.head ++ a ++ [47]) with
      | none => rw [hkid] at hd; simp at hd
      | some v =>
        cases v with
        | none =>
          refine ⟨Y', ?_, rfl⟩
          simp only [k, recurseGate, hloc, hfit, ↓reduceIte, hrel, hkid, calls, hdrop, subBody]
        | some c =>
          simp only [hkid, Bool.and_eq_true] at hd
          obtain ⟨⟨hsg, hself⟩, hgk⟩ := hd
          -- the walk of the sub-table, were it entered
          have hwl := walkList_full kids (toPorts kids) (path ++ [i]) c 0 (cs ++ [w.head ++ a]) Y' hwf.2 hmh hgk
            (by simp) hcs' hroom (by rw [← eQ]; exact hQlen)
          have hwt := walkTable_full (fun oe bb => walkList {} (toPorts kids) (path ++ [i]) (some c) oe (toPorts kids) 0 bb)
            (toPorts kids) (path ++ [i]) c (cs ++ [w.head ++ a]) Y' _ hcs' hself hwl
          rw [← eQ] at hwt
          obtain ⟨Y2, hwt1, hwt2⟩ := hwt
          -- the gate
          have hgate : ∃ en ex, portIsEnabled (some (i, .mk w.render md true (toPorts kids)))
                ((pre ++ w.head ++ a ++ [47]) ++ 0 :: Y') base path (some obj) true (some c) = .ok (en, ex) ∧
              calls (pre ++ w.head ++ a ++ [47]) = (if en then ex ++ tableGate (toPorts kids) (path ++ [i])
                (pre ++ w.head ++ a ++ [47]) (some c) (fullList (pre ++ w.head ++ a ++ [47]) (path ++ [i]) (some c) kids 0)
                else ex) := by
            simp only [calls, hdrop, subBody, hkid]
            rcases metaOk_cases hmeta with hu | ⟨ep, hgd⟩
            · refine ⟨true, [], portIsEnabled_unguarded i _ _ base path (some obj) true (some c)
                (by simpa [PortT.metadata] using hu), ?_⟩
              simp [unguarded_guardOf hu]
            · simp only [subGuardOk, hgd] at hsg
              by_cases hsl : ep.contains 47 = true
              · -- name/port
                simp only [hsl, ↓reduceIte, Bool.and_eq_true, List.isEmpty_iff, beq_iff_eq] at hsg
                obtain ⟨⟨⟨hp0, hidx⟩, htake⟩, htog⟩ := hsg
                obtain ⟨hct, kk, ask, v, hkk, hask, hlit, hv⟩ := toggleOk_spec htog
                have hep : ep = w.head ++ 47 :: ep.drop (w.head.length + 1) := by
                  have := List.take_append_drop (w.head.length + 1) ep
                  rw [htake] at this
                  simpa using this.symm
                have ha0 : a = [] := by
                  rw [hp0] at ha; exact expandParts_nil_mem.mp ha
                subst ha0
                have hren : w.render = w.head ++ 47 :: renderTypes w.types := by
                  rw [hname, hp0]; simp [renderParts]
                have hhc : CompOk w.head := by simpa using hnm
                have hen := portIsEnabled_inner i (.mk w.render md true (toPorts kids))
                  ((pre ++ w.head ++ [] ++ [47]) ++ 0 :: Y') base path obj c cs w.head (renderTypes w.types)
                  (ep.drop (w.head.length + 1)) (.mk w.render md true (toPorts kids)) kk ask v
                  hren (by rw [← hep]; simpa [PortT.metadata] using hgd) (by simpa [PortT.name] using hidx)
                  (by simpa [STree.toPort] using hrow) rfl (by simpa [PortT.children] using hkk)
                  (by simpa [PortT.children] using hask) hlit hv (by simpa [pre] using hloc) hcs hhc hct
                refine ⟨v, _, hen, ?_⟩
                have hscan : subportScan w.render ep = (true, 47 :: ep.drop (w.head.length + 1)) := by
                  rw [hren]
                  conv => lhs; rw [hep]
                  exact subportScan_inner w.head _ _ (fun c hc => (hhc.1 c hc).2)
                simp only [hgd, hscan, ↓reduceIte, List.drop_one, List.tail_cons, hv, hkk]
                cases v <;> simp [pre]
              · -- a toggle of the table that contains the port
                simp only [hsl, Bool.false_eq_true, ↓reduceIte] at hsg
                obtain ⟨hce, kk, ask, v, hkk, hask, hlit, hv⟩ := toggleOk_spec hsg
                have hen := portIsEnabled_sibling i (.mk w.render md true (toPorts kids))
                  ((pre ++ w.head ++ a ++ [47]) ++ 0 :: Y') base path obj (some c) cs (w.head ++ a) ep kk ask v
                  (by simpa [PortT.metadata] using hgd) hkk hask hlit hv (by rw [← eQ3]; exact hloc) hcs hnm hce
                refine ⟨v, [], hen, ?_⟩
                have hscan : subportScan w.render ep = (false, (subportScan w.render ep).2) := by
                  rw [← subportScan_flat w.render ep (fun c hc => (hce.1 c hc).2)]
                simp only [hgd]
                rw [hscan]
                simp only [Bool.false_eq_true, ↓reduceIte, hv]
                cases v <;> simp
          obtain ⟨en, ex, hen, hcalls⟩ := hgate
          rw [hcalls]
          cases en with
          | false =>
            refine ⟨Y', ?_, rfl⟩
            simp only [k, recurseGate, hloc, hfit, ↓reduceIte, hrel, hkid, hen, Bool.false_eq_true]
          | true =>
            refine ⟨Y2, ?_, hwt2⟩
            simp only [k, recurseGate, hloc, hfit, ↓reduceIte, hrel, hkid, hen, hwt1]
    obtain ⟨s, Y'', hs, h2, l2⟩ := recurse0_spec k calls (renderTypes w.types)
      (renderTypes_shape htypes) (renderTypes_no_hash htypes) L w.parts w.head pre (0 :: J) (w.render.length + 1)
      hparts hpos hhead (Or.inl hheadne) hne hpre
      (by
        have := renderParts_length w.parts
        rw [hname]
        simp only [List.length_append, List.length_cons]
        omega)
      rfl
      (by
        intro a ha
        have := mem_maxLen ha
        simp only [List.length_cons]
        omega)
      hk
    refine ⟨s, Y'', hs, ?_, by
      simp only [List.length_append, List.length_cons, L, pre] at l2 ⊢; omega⟩
    simp only [STree.toPort, walkPort, ↓reduceIte]
    rw [← hname] at h2
    refine Eq.trans h2 ?_
    congr 2
    rw [fullTree_sub]
    apply flatMap_congr_mem
    intro a _
    have eQ2 : pre ++ w.head ++ a ++ [47] = pre ++ (w.head ++ a ++ [47]) := by simp
    simp only [calls, eQ2, List.drop_left]
    simp only [pre, List.append_assoc]
end

/-- `walk_ports` with a runtime object on a tree with guards: the whole pruning clause -/
theorem walkPorts_full (ts : List STree) (obj : Obj) (cs : List Bytes) (J : Buf) (hwf : TreeWF ts)
    (hmh : multiHashLeafList ts = false) (hg : GuardsOK ts obj) (hcs : ∀ c ∈ cs, CompOk c)
    (hcap : needList ts ≤ J.length) (hlen : (render cs ++ [47]).length + needList ts + 10 ≤ SCRATCH) :
    ∃ J', walkPorts {} (toPorts ts) (some obj) ((render cs ++ [47]) ++ 0 :: J) =
        .ok (prunedFull (render cs ++ [47]) [] (toPorts ts) ts (some obj), (render cs ++ [47]) ++ 0 :: J') ∧
      J'.length = J.length := by
  have hwl := walkList_full ts (toPorts ts) [] obj 0 cs J hwf hmh hg.2 (by simp) hcs hcap hlen
  exact walkTable_full _ (toPorts ts) [] obj cs J _ hcs hg.1 hwl

end Rtosc.Walk
