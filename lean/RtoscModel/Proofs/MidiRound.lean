/-
  C20 — the value that is actually EMITTED: `Cb.fire` rounds the exact value of the linear
  map (`bijNum / 2^17`) to `float` and, for an `i` port, truncates it to `int`.
  `rnd n` is the numerator after rounding (`f32Round` without the exponent bookkeeping):
  round-to-nearest-even of `n` to 24 significant bits.  Rounding never crosses a grid point
  (`rnd_sandwich`), hence it is monotone and keeps every value between two numbers that are
  themselves representable; truncation toward zero keeps it between two INTEGERS.
-/
import RtoscModel.Midi
namespace Rtosc.Midi

/-- round `n` to a multiple of `2^sh`, nearest, ties to even (the `else` branch of `f32Round`) -/
def rq (n sh : Nat) : Nat :=
  if n % 2 ^ sh > 2 ^ (sh - 1) ∨ (n % 2 ^ sh = 2 ^ (sh - 1) ∧ (n >>> sh) % 2 = 1) then (n >>> sh) + 1 else n >>> sh

def rndTo (n sh : Nat) : Nat := rq n sh * 2 ^ sh

/-- the numerator of the `float` nearest to `n / 2^e` over the same denominator -/
def rnd (n : Nat) : Nat := if bitLen n ≤ 24 then n else rndTo n (bitLen n - 24)

/-- rounding to a grid never crosses a grid point -/
theorem rndTo_sandwich (n sh : Nat) (_hsh : 0 < sh) (k : Nat) :
    (k * 2 ^ sh ≤ n → k * 2 ^ sh ≤ rndTo n sh) ∧ (n ≤ k * 2 ^ sh → rndTo n sh ≤ k * 2 ^ sh) := by
  have hD : 0 < 2 ^ sh := Nat.pow_pos (by decide)
  have hdm := Nat.div_add_mod n (2 ^ sh)
  have hrem : n % 2 ^ sh < 2 ^ sh := Nat.mod_lt _ hD
  have hhalf : 0 < 2 ^ (sh - 1) := Nat.pow_pos (by decide)
  simp only [rndTo, rq, Nat.shiftRight_eq_div_pow]
  generalize hq : n / 2 ^ sh = q at *
  generalize hr : n % 2 ^ sh = rem at *
  generalize hDD : 2 ^ sh = D at *
  constructor
  · intro h
    have hk : k ≤ q := by
      have : k * D / D ≤ n / D := Nat.div_le_div_right h
      rw [Nat.mul_div_cancel _ hD, hq] at this; exact this
    split
    · exact Nat.mul_le_mul_right D (by omega)
    · exact Nat.mul_le_mul_right D hk
  · intro h
    by_cases hz : rem = 0
    · have hnot : ¬(rem > 2 ^ (sh - 1) ∨ rem = 2 ^ (sh - 1) ∧ q % 2 = 1) := by omega
      rw [if_neg hnot]
      have : D * q = q * D := Nat.mul_comm _ _
      omega
    · have hk : q + 1 ≤ k := by
        apply Nat.lt_of_not_le
        intro hle
        have : k * D ≤ q * D := Nat.mul_le_mul_right D hle
        have : D * q = q * D := Nat.mul_comm _ _
        omega
      have h1 : (q + 1) * D ≤ k * D := Nat.mul_le_mul_right D hk
      split
      · exact h1
      · have : q * D ≤ (q + 1) * D := Nat.mul_le_mul_right D (by omega)
        omega

theorem bitLen_le_iff (n l : Nat) : bitLen n ≤ l ↔ n < 2 ^ l := by
  unfold bitLen
  split
  · subst_vars; simp [Nat.pow_pos]
  · rename_i h
    rw [← Nat.lt_iff_add_one_le, Nat.log2_lt h]

theorem lt_two_pow_bitLen (n : Nat) : n < 2 ^ bitLen n := (bitLen_le_iff n _).mp (Nat.le_refl _)

theorem two_pow_bitLen_le (n : Nat) (h : 0 < bitLen n) : 2 ^ (bitLen n - 1) ≤ n := by
  apply Nat.le_of_not_lt
  intro hlt
  have := (bitLen_le_iff n (bitLen n - 1)).mpr hlt
  omega

/-- `rnd` never crosses a number `g = k * 2^t` whose grid is at least as coarse as `n`'s -/
theorem rnd_sandwich (n k t : Nat) (ht : bitLen n - 24 ≤ t) :
    (k * 2 ^ t ≤ n → k * 2 ^ t ≤ rnd n) ∧ (n ≤ k * 2 ^ t → rnd n ≤ k * 2 ^ t) := by
  unfold rnd
  split
  · exact ⟨id, id⟩
  · rename_i hl
    have e : k * 2 ^ t = (k * 2 ^ (t - (bitLen n - 24))) * 2 ^ (bitLen n - 24) := by
      rw [Nat.mul_assoc, ← Nat.pow_add]; congr 2; omega
    rw [e]
    exact rndTo_sandwich n _ (by omega) _

theorem rndTo_mono {n n' : Nat} (sh : Nat) (h : n ≤ n') : rndTo n sh ≤ rndTo n' sh := by
  have hD : 0 < 2 ^ sh := Nat.pow_pos (by decide)
  have hdm := Nat.div_add_mod n (2 ^ sh)
  have hdm' := Nat.div_add_mod n' (2 ^ sh)
  have hqq : n / 2 ^ sh ≤ n' / 2 ^ sh := Nat.div_le_div_right h
  simp only [rndTo, rq, Nat.shiftRight_eq_div_pow]
  apply Nat.mul_le_mul_right
  by_cases hq : n / 2 ^ sh = n' / 2 ^ sh
  · rw [hq] at hdm ⊢
    have hr : n % 2 ^ sh ≤ n' % 2 ^ sh := by omega
    split <;> split <;> omega
  · split <;> split <;> omega

/-- rounding is monotone -/
theorem rnd_mono {n n' : Nat} (h : n ≤ n') : rnd n ≤ rnd n' := by
  by_cases hl : bitLen n = bitLen n'
  · unfold rnd
    rw [← hl]
    split
    · exact h
    · exact rndTo_mono _ h
  · -- different lengths: a power of two lies between them
    have hlt : bitLen n < bitLen n' := by
      apply Nat.lt_of_le_of_ne _ hl
      rw [bitLen_le_iff]
      exact Nat.lt_of_le_of_lt h (lt_two_pow_bitLen n')
    have h1 : rnd n ≤ 1 * 2 ^ bitLen n :=
      (rnd_sandwich n 1 (bitLen n) (by omega)).2 (by have := lt_two_pow_bitLen n; omega)
    have h2 : 1 * 2 ^ (bitLen n' - 1) ≤ rnd n' :=
      (rnd_sandwich n' 1 (bitLen n' - 1) (by omega)).1 (by have := two_pow_bitLen_le n' (by omega); omega)
    have h3 : 2 ^ bitLen n ≤ 2 ^ (bitLen n' - 1) := Nat.pow_le_pow_right (by decide) (by omega)
    omega

/-! ### `f32Round` computes `rnd` -/

theorem rnd_zero : rnd 0 = 0 := by simp [rnd, bitLen]

theorem f32Round_small {n : Nat} (e : Nat) (h : bitLen n ≤ 24) :
    f32Round n e = (n <<< (24 - bitLen n), (bitLen n : Int) - 24 - e) := by
  simp [f32Round, h]

theorem f32Round_big {n : Nat} (e : Nat) (h : ¬ bitLen n ≤ 24) :
    f32Round n e = if rq n (bitLen n - 24) = 2 ^ 24 then (2 ^ 23, ((bitLen n - 24 : Nat) : Int) + 1 - e)
      else (rq n (bitLen n - 24), ((bitLen n - 24 : Nat) : Int) - e) := by
  simp only [f32Round, h, rq, if_false]
  rfl

/-- the (significand, exponent) pair `f32Round` returns denotes `rnd n / 2^e` -/
theorem f32Round_value (n e : Nat) :
    0 ≤ (f32Round n e).2 + e + 24 ∧
    (f32Round n e).1 * 2 ^ ((f32Round n e).2 + e + 24).toNat = rnd n * 2 ^ 24 := by
  by_cases hl : bitLen n ≤ 24
  · rw [f32Round_small e hl]
    simp only [rnd, hl, if_true]
    refine ⟨by omega, ?_⟩
    have : ((bitLen n : Int) - 24 - e + e + 24).toNat = bitLen n := by omega
    simp only [this, Nat.shiftLeft_eq]
    rw [Nat.mul_assoc, ← Nat.pow_add]; congr 2; omega
  · rw [f32Round_big e hl]
    simp only [rnd, hl, if_false, rndTo]
    split
    · rename_i hc
      refine ⟨by omega, ?_⟩
      have : (((bitLen n - 24 : Nat) : Int) + 1 - e + e + 24).toNat = (bitLen n - 24) + 25 := by omega
      simp only [this, hc]
      rw [Nat.mul_assoc, ← Nat.pow_add, ← Nat.pow_add, ← Nat.pow_add]; congr 1; omega
    · refine ⟨by omega, ?_⟩
      have : (((bitLen n - 24 : Nat) : Int) - e + e + 24).toNat = (bitLen n - 24) + 24 := by omega
      simp only [this]
      rw [Nat.mul_assoc, ← Nat.pow_add]

theorem scale_eq (m k e : Nat) (z : Int) (hz : z = (k : Int) - e) :
    (if z ≥ 0 then m <<< z.toNat else m >>> (-z).toNat) = m * 2 ^ k / 2 ^ e := by
  have hE : 0 < 2 ^ e := Nat.pow_pos (by decide)
  split
  · rename_i h
    have : z.toNat = k - e := by omega
    rw [this, Nat.shiftLeft_eq]
    have : m * 2 ^ k = m * 2 ^ (k - e) * 2 ^ e := by
      rw [Nat.mul_assoc, ← Nat.pow_add]; congr 2; omega
    rw [this, Nat.mul_div_cancel _ hE]
  · rename_i h
    have : (-z).toNat = e - k := by omega
    rw [this, Nat.shiftRight_eq_div_pow]
    have : 2 ^ e = 2 ^ (e - k) * 2 ^ k := by rw [← Nat.pow_add]; congr 1; omega
    rw [this, Nat.mul_div_mul_right _ _ (Nat.pow_pos (by decide))]

/-- the magnitude `truncF32OfDyadic` computes is `⌊rnd n / 2^e⌋` -/
theorem trunc_mag (n e : Nat) :
    (if (f32Round n e).2 ≥ 0 then (f32Round n e).1 <<< (f32Round n e).2.toNat
     else (f32Round n e).1 >>> (-(f32Round n e).2).toNat) = rnd n / 2 ^ e := by
  by_cases hl : bitLen n ≤ 24
  · rw [f32Round_small e hl]
    simp only [rnd, hl, if_true]
    have hE : 0 < 2 ^ (24 - bitLen n) := Nat.pow_pos (by decide)
    split
    · rename_i h
      have h1 : bitLen n = 24 := by omega
      have h2 : e = 0 := by omega
      simp [h1, h2]
    · rename_i h
      have : (-((bitLen n : Int) - 24 - e)).toNat = (24 - bitLen n) + e := by omega
      rw [this, Nat.shiftLeft_eq, Nat.shiftRight_eq_div_pow, Nat.pow_add, Nat.mul_comm (2 ^ (24 - bitLen n)),
        Nat.mul_div_mul_right _ _ hE]
  · rw [f32Round_big e hl]
    simp only [rnd, hl, if_false, rndTo]
    split
    · rename_i hc
      rw [hc]
      have := scale_eq (2 ^ 23) (bitLen n - 24 + 1) e (((bitLen n - 24 : Nat) : Int) + 1 - e) (by omega)
      simp only at this ⊢
      rw [this]; congr 1
      rw [← Nat.pow_add, ← Nat.pow_add]; congr 1; omega
    · exact scale_eq _ _ _ _ rfl

theorem truncF32OfDyadic_eq (num : Int) (e : Nat) :
    truncF32OfDyadic num e =
      if num < 0 then -((rnd num.natAbs / 2 ^ e : Nat) : Int) else ((rnd num.natAbs / 2 ^ e : Nat) : Int) := by
  unfold truncF32OfDyadic
  split
  · subst_vars; simp [rnd_zero]
  · have := trunc_mag num.natAbs e
    simp only at this ⊢
    rw [← this]

/-- truncation after rounding is monotone -/
theorem truncF32OfDyadic_mono {a b : Int} (e : Nat) (h : a ≤ b) :
    truncF32OfDyadic a e ≤ truncF32OfDyadic b e := by
  rw [truncF32OfDyadic_eq, truncF32OfDyadic_eq]
  split <;> split
  · have : b.natAbs ≤ a.natAbs := by omega
    have := Nat.div_le_div_right (c := 2 ^ e) (rnd_mono this)
    generalize rnd a.natAbs / 2 ^ e = x at *
    generalize rnd b.natAbs / 2 ^ e = y at *
    omega
  · generalize rnd a.natAbs / 2 ^ e = x at *
    generalize rnd b.natAbs / 2 ^ e = y at *
    omega
  · omega
  · have : a.natAbs ≤ b.natAbs := by omega
    have := Nat.div_le_div_right (c := 2 ^ e) (rnd_mono this)
    generalize rnd a.natAbs / 2 ^ e = x at *
    generalize rnd b.natAbs / 2 ^ e = y at *
    omega

/-- between two integers `lo ≤ hi` (numerators `lo * 2^e ≤ num ≤ hi * 2^e`, the grid of `num` not
    coarser than `2^e`) the emitted `int` stays between `lo` and `hi` -/
theorem truncF32OfDyadic_range {num lo hi : Int} {e : Nat} (hg : bitLen num.natAbs ≤ 24 + e)
    (h1 : lo * 2 ^ e ≤ num) (h2 : num ≤ hi * 2 ^ e) :
    lo ≤ truncF32OfDyadic num e ∧ truncF32OfDyadic num e ≤ hi := by
  have hEn : 0 < 2 ^ e := Nat.pow_pos (by decide)
  have hcast : ((2 ^ e : Nat) : Int) = 2 ^ e := by push_cast; rfl
  have hE0 : (0 : Int) ≤ 2 ^ e := by rw [← hcast]; exact Int.natCast_nonneg _
  have sand := fun k => rnd_sandwich num.natAbs k e (by omega)
  -- facts about a bound `b` with `b * 2^e` on one side of `num`, as naturals
  have up : ∀ b : Int, 0 ≤ b → (num.natAbs : Int) ≤ b * 2 ^ e → rnd num.natAbs / 2 ^ e ≤ b.natAbs := by
    intro b hb hle
    have hle' : num.natAbs ≤ b.natAbs * 2 ^ e := by
      have : ((b.natAbs * 2 ^ e : Nat) : Int) = b * 2 ^ e := by
        rw [Int.natCast_mul, hcast, Int.natAbs_of_nonneg hb]
      omega
    have := (sand b.natAbs).2 hle'
    exact Nat.div_le_of_le_mul (by rw [Nat.mul_comm]; exact this)
  have dn : ∀ b : Int, 0 ≤ b → b * 2 ^ e ≤ (num.natAbs : Int) → b.natAbs ≤ rnd num.natAbs / 2 ^ e := by
    intro b hb hle
    have hle' : b.natAbs * 2 ^ e ≤ num.natAbs := by
      have : ((b.natAbs * 2 ^ e : Nat) : Int) = b * 2 ^ e := by
        rw [Int.natCast_mul, hcast, Int.natAbs_of_nonneg hb]
      omega
    have := (sand b.natAbs).1 hle'
    exact (Nat.le_div_iff_mul_le hEn).mpr this
  rw [truncF32OfDyadic_eq]
  split
  · rename_i hneg
    have habs : (num.natAbs : Int) = -num := by omega
    constructor
    · -- lo ≤ -(…): lo < 0 necessarily or trivial
      by_cases hlo : 0 ≤ lo
      · have := Int.mul_nonneg hlo hE0
        omega
      · have := up (-lo) (by omega) (by rw [Int.neg_mul]; omega)
        generalize rnd num.natAbs / 2 ^ e = x at *
        omega
    · by_cases hhi : 0 ≤ hi
      · generalize rnd num.natAbs / 2 ^ e = x at *
        omega
      · have := dn (-hi) (by omega) (by rw [Int.neg_mul]; omega)
        generalize rnd num.natAbs / 2 ^ e = x at *
        omega
  · rename_i hneg
    have habs : (num.natAbs : Int) = num := by omega
    constructor
    · by_cases hlo : 0 ≤ lo
      · have := dn lo hlo (by omega)
        generalize rnd num.natAbs / 2 ^ e = x at *
        omega
      · generalize rnd num.natAbs / 2 ^ e = x at *
        omega
    · by_cases hhi : 0 ≤ hi
      · have := up hi hhi (by omega)
        generalize rnd num.natAbs / 2 ^ e = x at *
        omega
      · have hEp : (0 : Int) < 2 ^ e := by rw [← hcast]; exact Int.natCast_pos.mpr hEn
        have := Int.mul_neg_of_neg_of_pos (by omega : hi < 0) hEp
        omega

/-! ### the float path: the rounded numerator -/

/-- the numerator (over `2^e`) of the `float` that `f32OfDyadic num e` encodes: `f32Round` is applied to
    `|num|` (`f32Round_value`: its significand/exponent pair denotes `rnd |num| / 2^e`), the sign is kept -/
def rndZ (num : Int) : Int := if num < 0 then -(rnd num.natAbs : Int) else (rnd num.natAbs : Int)

theorem rndZ_mono {a b : Int} (h : a ≤ b) : rndZ a ≤ rndZ b := by
  unfold rndZ
  split <;> split
  · have : b.natAbs ≤ a.natAbs := by omega
    have := rnd_mono this
    omega
  · omega
  · omega
  · have : a.natAbs ≤ b.natAbs := by omega
    have := rnd_mono this
    omega

/-- rounding to `float` does not leave an interval whose ends `lo * 2^t`, `hi * 2^t` are representable
    on `num`'s grid -/
theorem rndZ_range {num lo hi : Int} {t : Nat} (hg : bitLen num.natAbs ≤ 24 + t)
    (h1 : lo * 2 ^ t ≤ num) (h2 : num ≤ hi * 2 ^ t) : lo * 2 ^ t ≤ rndZ num ∧ rndZ num ≤ hi * 2 ^ t := by
  have hEn : 0 < 2 ^ t := Nat.pow_pos (by decide)
  have hcast : ((2 ^ t : Nat) : Int) = 2 ^ t := by push_cast; rfl
  have hEp : (0 : Int) < 2 ^ t := by rw [← hcast]; exact Int.natCast_pos.mpr hEn
  have sand := fun k => rnd_sandwich num.natAbs k t (by omega)
  have cast : ∀ b : Int, 0 ≤ b → ((b.natAbs * 2 ^ t : Nat) : Int) = b * 2 ^ t := by
    intro b hb; rw [Int.natCast_mul, hcast, Int.natAbs_of_nonneg hb]
  have up : ∀ b : Int, 0 ≤ b → (num.natAbs : Int) ≤ b * 2 ^ t → (rnd num.natAbs : Int) ≤ b * 2 ^ t := by
    intro b hb hle
    have := (sand b.natAbs).2 (by have := cast b hb; omega)
    have := cast b hb; omega
  have dn : ∀ b : Int, 0 ≤ b → b * 2 ^ t ≤ (num.natAbs : Int) → b * 2 ^ t ≤ (rnd num.natAbs : Int) := by
    intro b hb hle
    have := (sand b.natAbs).1 (by have := cast b hb; omega)
    have := cast b hb; omega
  unfold rndZ
  split
  · rename_i hneg
    constructor
    · by_cases hlo : 0 ≤ lo
      · have := Int.mul_nonneg hlo (Int.le_of_lt hEp); omega
      · have := up (-lo) (by omega) (by rw [Int.neg_mul]; omega)
        rw [Int.neg_mul] at this; omega
    · by_cases hhi : 0 ≤ hi
      · have := Int.mul_nonneg hhi (Int.le_of_lt hEp); omega
      · have := dn (-hi) (by omega) (by rw [Int.neg_mul]; omega)
        rw [Int.neg_mul] at this; omega
  · rename_i hneg
    constructor
    · by_cases hlo : 0 ≤ lo
      · exact dn lo hlo (by omega)
      · have := Int.mul_neg_of_neg_of_pos (by omega : lo < 0) hEp; omega
    · by_cases hhi : 0 ≤ hi
      · exact up hi hhi (by omega)
      · have := Int.mul_neg_of_neg_of_pos (by omega : hi < 0) hEp; omega

/-! ### the port declaration: which type `generateNewBijection` picks -/

theorem isPrefixL_cons_ne {p c : Char} (ps cs : List Char) (h : p ≠ c) : isPrefixL (p :: ps) (c :: cs) = false := by
  simp [isPrefixL, h]

/-- in front of the first `':'` nothing can match `":i"` -/
theorem hasInfix_append_of_no_colon (pre s : List Char) (h : ':' ∉ pre) :
    hasInfix [':', 'i'] (pre ++ s) = hasInfix [':', 'i'] s := by
  induction pre with
  | nil => rfl
  | cons c cs ih =>
    have hc : ':' ≠ c := fun e => h (List.mem_cons.mpr (Or.inl e))
    have hcs : ':' ∉ cs := fun e => h (List.mem_cons.mpr (Or.inr e))
    simp only [List.cons_append, hasInfix, isPrefixL_cons_ne _ _ hc, Bool.false_or]
    exact ih hcs

theorem padText_no_colon : ':' ∉ padText := by decide

/-- **the type follows the signature**: for every port the protocol can declare (index ≤ 9, any padding
    of the name), `strstr(name, ":i")` finds a match exactly when the signature accepts an `i` argument -/
theorem PortDecl.toSpec_isInt (d : PortDecl) (hk : d.idx ≤ 9) : d.toSpec.isInt = d.sig.acceptsInt := by
  have hdig : ':' ≠ Char.ofNat (48 + d.idx) := by
    have : d.idx = 0 ∨ d.idx = 1 ∨ d.idx = 2 ∨ d.idx = 3 ∨ d.idx = 4 ∨ d.idx = 5 ∨ d.idx = 6 ∨ d.idx = 7 ∨
        d.idx = 8 ∨ d.idx = 9 := by omega
    rcases this with h | h | h | h | h | h | h | h | h | h <;> rw [h] <;> decide
  have hpre : ':' ∉ 'p' :: Char.ofNat (48 + d.idx) :: padText.take d.pad := by
    intro hm
    rcases List.mem_cons.mp hm with h | hm
    · exact absurd h (by decide)
    rcases List.mem_cons.mp hm with h | hm
    · exact hdig h
    · exact padText_no_colon (List.mem_of_mem_take hm)
  have e : d.name = ('p' :: Char.ofNat (48 + d.idx) :: padText.take d.pad) ++ d.sig.text := by
    simp [PortDecl.name]
  simp only [PortDecl.toSpec, e, hasInfix_append_of_no_colon _ _ hpre]
  cases d.sig <;> rfl

end Rtosc.Midi
