/-
  C11 — per-construct agreement: the two `switch`es read every spelling below as the value it
  denotes (`ValOK`).  The case analyses of the per-type scanner / checker functions are C10's
  lemmas (`Proofs/PrettyTok*.lean`), which are stated for arbitrary recursion handlers; here they
  are packaged at the level of the `switch` so that they serve the C11 model as well, and
  extended by spellings the printer never produces (`now`, white space inside strings …).
-/
import RtoscModel.Proofs.ScanTransfer
import RtoscModel.Proofs.PrettyTokHuge
import RtoscModel.Proofs.PrettyTokWord
import RtoscModel.Proofs.PrettyTokChar
import RtoscModel.Proofs.PrettyTokStr
import RtoscModel.Proofs.PrettyTokSym
import RtoscModel.Proofs.PrettyTokBlob
namespace Rtosc.Pretty.C11
open Rtosc Rtosc.Libc Rtosc.Pretty
open Rtosc.ArgVal (Cell)

/-! ### integers in decimal notation -/

theorem valOK_int (v : Int) (h1 : -2147483648 ≤ v) (h2 : v ≤ 2147483647) :
    ValOK (fmtDec v) (Cell.int .i v) := by
  have hn := decNum_fmtDec v (by omega) (by omega)
  have hstart : hd (fmtDec v) = 45 ∨ isdigit (hd (fmtDec v)) = true := hn.chars _ (hd_mem _ hn.ne)
  obtain ⟨_, _, _, _, _, _, _, _, a91, _, _, _, b1, b2, b3, b4, b5, b6, b7⟩ := numStart_facts _ hstart
  refine ⟨⟨hn.ne, b1, b2, b3, b4, b5, b6, b7⟩, rfl, a91, ?_, ?_⟩
  · intro se rest prev hs
    have hne := sep_numEnd rest hs
    rw [scanValue_num _ _ _ (by rw [hd_append_of_ne_nil _ _ hn.ne]; exact hstart) (hn.nomult rest hne) (hn.nodate rest hne)]
    exact scanNumeric_int _ rest v hn hs h1 h2
  · intro sk rest ty ib hs
    have hne := sep_numEnd rest hs
    refine ⟨0, ?_⟩
    rw [skipValue_num _ _ _ _ (by rw [hd_append_of_ne_nil _ _ hn.ne]; exact hstart) (hn.nomult rest hne) (hn.nodate rest hne)]
    rw [skipNumericArg_int _ rest v ty hn hs]
    rfl

theorem valOK_huge (v : Int) (h1 : -9223372036854775808 ≤ v) (h2 : v ≤ 9223372036854775807) :
    ValOK (fmtDec v ++ [104]) (Cell.huge v) := by
  have hn := decNum_fmtDec v h1 h2
  have hstart : hd (fmtDec v) = 45 ∨ isdigit (hd (fmtDec v)) = true := hn.chars _ (hd_mem _ hn.ne)
  have hne' : fmtDec v ++ [104] ≠ [] := by simp
  have hhd : ∀ rest : Bytes, hd ((fmtDec v ++ [104]) ++ rest) = hd (fmtDec v) := by
    intro rest; rw [List.append_assoc]; exact hd_append_of_ne_nil _ _ hn.ne
  have hhd0 : hd (fmtDec v ++ [104]) = hd (fmtDec v) := hd_append_of_ne_nil _ _ hn.ne
  obtain ⟨_, _, _, _, _, _, _, _, a91, _, _, _, b1, b2, b3, b4, b5, b6, b7⟩ := numStart_facts _ hstart
  refine ⟨?_, rfl, by rw [hhd0]; exact a91, ?_, ?_⟩
  · rw [TokStart, hhd0]; exact ⟨hne', b1, b2, b3, b4, b5, b6, b7⟩
  · intro se rest prev hs
    have e : (fmtDec v ++ [104]) ++ rest = fmtDec v ++ 104 :: rest := by simp
    rw [scanValue_num _ _ _ (by rw [hhd]; exact hstart) (by rw [e]; exact hn.nomult _ (numEnd_h rest))
      (by rw [e]; exact hn.nodate _ (numEnd_h rest)), e]
    exact scanNumeric_huge _ rest v hn hs h1 h2
  · intro sk rest ty ib hs
    refine ⟨0, ?_⟩
    have e : (fmtDec v ++ [104]) ++ rest = fmtDec v ++ 104 :: rest := by simp
    rw [skipValue_num _ _ _ _ (by rw [hhd]; exact hstart) (by rw [e]; exact hn.nomult _ (numEnd_h rest))
      (by rw [e]; exact hn.nodate _ (numEnd_h rest)), e]
    rw [skipNumericArg_huge _ rest v ty hn hs]
    rfl

/-! ### characters -/

theorem valOK_char_plain (x : UInt8) (hx : x ≠ 92) : ValOK [39, x, 39] (Cell.int .c (scharVal x)) := by
  refine ⟨⟨by simp, by simp only [hd_cons]; decide⟩, rfl, by simp only [hd_cons]; decide, ?_, ?_⟩
  · intro se rest prev hs
    rw [scanValue_char _ _ _ rfl]
    simp [scanChar, advance, hx, bind, Except.bind, pure, Except.pure]
  · intro sk rest ty ib hs
    refine ⟨0, ?_⟩
    rw [skipValue_char _ _ _ _ rfl]
    simp [skipChar, hx]
    rfl

theorem valOK_char_esc (e : UInt8) (he : getEscapedChar e true ≠ 0 ∨ e = 48) :
    ValOK [39, 92, e, 39] (Cell.int .c (scharVal (getEscapedChar e true))) := by
  refine ⟨⟨by simp, by simp only [hd_cons]; decide⟩, rfl, by simp only [hd_cons]; decide, ?_, ?_⟩
  · intro se rest prev hs
    rw [scanValue_char _ _ _ rfl]
    simp [scanChar, advance, at?, isspace, bind, Except.bind, pure, Except.pure]
  · intro sk rest ty ib hs
    refine ⟨0, ?_⟩
    rw [skipValue_char _ _ _ _ rfl]
    have : (getEscapedChar e true = 0 ∧ ¬ e = 48) → False := by
      intro ⟨h0, h48⟩
      rcases he with he | he
      · exact he h0
      · exact h48 he
    simp [skipChar, isspace]
    rw [if_neg (fun h => this h)]
    rfl

/-! ### strings and quoted symbols -/

theorem valOK_string (t k : Bytes) (h : StrBody t k) :
    ValOK (34 :: t ++ [34]) (Cell.str .s (some k)) := by
  refine ⟨tokStart_quote _, rfl, by simp only [List.cons_append, hd_cons]; decide, ?_, ?_⟩
  · intro se rest prev hs
    have e : (34 :: t ++ [34]) ++ rest = 34 :: t ++ 34 :: rest := by simp
    rw [e, scanValue_quote _ _ _ (by simp)]
    exact scanString_s t k rest h hs
  · intro sk rest ty ib hs
    refine ⟨0, ?_⟩
    have e : (34 :: t ++ [34]) ++ rest = 34 :: t ++ 34 :: rest := by simp
    rw [e, skipValue_quote _ _ _ _ (by simp), skipString_s t k rest h hs]
    rfl

theorem valOK_symbol_quoted (t k : Bytes) (h : StrBody t k) :
    ValOK (34 :: t ++ [34, 83]) (Cell.str .S (some k)) := by
  refine ⟨tokStart_quote _, rfl, by simp only [List.cons_append, hd_cons]; decide, ?_, ?_⟩
  · intro se rest prev hs
    have e : (34 :: t ++ [34, 83]) ++ rest = 34 :: t ++ 34 :: 83 :: rest := by simp
    rw [e, scanValue_quote _ _ _ (by simp)]
    exact scanString_S t k rest h
  · intro sk rest ty ib hs
    refine ⟨0, ?_⟩
    have e : (34 :: t ++ [34, 83]) ++ rest = 34 :: t ++ 34 :: 83 :: rest := by simp
    rw [e, skipValue_quote _ _ _ _ (by simp), skipString_S t k rest h]
    rfl

/-! ### identifiers -/

theorem valOK_ident (s : Bytes) (hq : symbolPlain s = true) : ValOK s (Cell.str .S (some s)) := by
  obtain ⟨hs, hne⟩ := symbolPlain_ident s hq
  obtain ⟨_, _, _, _, _, a91, b1, b2, b3, b4, b5, b6, b7⟩ := identStart_facts _ hs.1
  refine ⟨⟨identText_ne_nil s hs, b1, b2, b3, b4, b5, b6, b7⟩, rfl, a91, ?_, ?_⟩
  · intro se rest prev hsep
    have hr := (sep_hd_facts rest hsep).2.2.2.2.2.2.1
    exact scanValue_ident _ s rest prev hs hne hr
  · intro sk rest ty ib hsep
    have hr := (sep_hd_facts rest hsep).2.2.2.2.2.2.1
    exact ⟨0, skipValue_ident _ s rest ty ib hs hne hr⟩

/-! ### keywords -/

theorem valOK_of_keyword (w : Bytes) (c : Cell) (hne : w ≠ []) (hsc : c.isScalar = true)
    (h1 : hd w = 116 ∨ hd w = 102 ∨ hd w = 110 ∨ hd w = 105)
    (hscan : ∀ rest, Sep rest → scanKeyword (w ++ rest) = ⟨rest, [c], true⟩)
    (hskip : ∀ rest, Sep rest → skipKeyword (w ++ rest) = ⟨some rest, 1, c.type, 0⟩) : ValOK w c := by
  refine ⟨⟨hne, ?_⟩, hsc, ?_, ?_, ?_⟩
  · rcases h1 with h | h | h | h <;> rw [h] <;> decide
  · rcases h1 with h | h | h | h <;> rw [h] <;> decide
  · intro se rest prev hs
    have hh : hd (w ++ rest) = hd w := hd_append_of_ne_nil _ _ hne
    unfold Pretty.scanValue
    simp only [hh, h1, ↓reduceIte, hscan rest hs]
    rfl
  · intro sk rest ty ib hs
    refine ⟨0, ?_⟩
    have hh : hd (w ++ rest) = hd w := hd_append_of_ne_nil _ _ hne
    unfold Pretty.skipValue
    simp only [hh, h1, ↓reduceIte, hskip rest hs]
    rfl

theorem valOK_true : ValOK (lit "true") (Cell.flag .T) := by
  apply valOK_of_keyword _ _ (by decide) rfl (by decide)
  · intro rest hs
    have hw := skipWord_self (lit "true") rest hs
    unfold scanKeyword
    rw [hw]
    simp [lit_true, lit_immediately, lit_now, skipWord_ne, startsWith, List.isPrefixOf]
  · intro rest hs
    have hw := skipWord_self (lit "true") rest hs
    unfold skipKeyword
    rw [hw]
    simp [lit_true]
    rfl

theorem valOK_false : ValOK (lit "false") (Cell.flag .F) := by
  apply valOK_of_keyword _ _ (by decide) rfl (by decide)
  · intro rest hs
    have hw := skipWord_self (lit "false") rest hs
    unfold scanKeyword
    rw [hw]
    simp [lit_false, lit_true, lit_immediately, lit_now, skipWord_ne, startsWith, List.isPrefixOf]
  · intro rest hs
    have hw := skipWord_self (lit "false") rest hs
    unfold skipKeyword
    rw [hw]
    simp [lit_false]
    rfl

theorem valOK_nil : ValOK (lit "nil") (Cell.flag .N) := by
  apply valOK_of_keyword _ _ (by decide) rfl (by decide)
  · intro rest hs
    have hw := skipWord_self (lit "nil") rest hs
    unfold scanKeyword
    rw [hw]
    simp [lit_nil, lit_false, lit_true, lit_immediately, lit_now, skipWord_ne, startsWith, List.isPrefixOf]
  · intro rest hs
    have hw := skipWord_self (lit "nil") rest hs
    unfold skipKeyword
    rw [hw]
    simp [lit_nil]
    rfl

theorem valOK_inf : ValOK (lit "inf") (Cell.flag .I) := by
  apply valOK_of_keyword _ _ (by decide) rfl (by decide)
  · intro rest hs
    have hw := skipWord_self (lit "inf") rest hs
    unfold scanKeyword
    rw [hw]
    simp [lit_inf, lit_nil, lit_false, lit_true, lit_immediately, lit_now, skipWord_ne, startsWith, List.isPrefixOf]
  · intro rest hs
    have hw := skipWord_self (lit "inf") rest hs
    unfold skipKeyword
    rw [hw]
    simp [lit_inf]
    rfl

theorem valOK_immediately : ValOK (lit "immediately") (Cell.time 1) := by
  apply valOK_of_keyword _ _ (by decide) rfl (by decide)
  · intro rest hs
    have hw := skipWord_self (lit "immediately") rest hs
    unfold scanKeyword
    rw [hw]
  · intro rest hs
    have hw := skipWord_self (lit "immediately") rest hs
    unfold skipKeyword
    rw [hw]
    simp [lit_inf, lit_immediately, skipWord_ne, startsWith, List.isPrefixOf]
    rfl

/-- `now`: the other spelling of the time tag 1 (the printer never writes it) -/
theorem valOK_now : ValOK (lit "now") (Cell.time 1) := by
  apply valOK_of_keyword _ _ (by decide) rfl (by decide)
  · intro rest hs
    have hw := skipWord_self (lit "now") rest hs
    unfold scanKeyword
    rw [hw]
    simp [lit_now, lit_immediately, skipWord_ne, startsWith, List.isPrefixOf]
  · intro rest hs
    have hw := skipWord_self (lit "now") rest hs
    unfold skipKeyword
    rw [hw]
    simp [lit_now, lit_nil, skipWord_ne, startsWith, List.isPrefixOf]
    rfl

/-! ### colours -/

theorem valOK_color (v : Int) (h1 : -2147483648 ≤ v) (h2 : v ≤ 2147483647) :
    ValOK (35 :: hex8 (v % 4294967296).toNat) (Cell.int .r v) := by
  have hu : (v % 4294967296).toNat < 4294967296 := by omega
  have hv : toI32 ((v % 4294967296).toNat : Int) = v := by unfold toI32; omega
  generalize (v % 4294967296).toNat = u at hu hv
  refine ⟨⟨by simp, by simp only [hd_cons]; decide⟩, rfl, by simp only [hd_cons]; decide, ?_, ?_⟩
  · intro se rest prev hs
    rw [scanValue_color _ _ _ rfl]
    obtain ⟨d, ds, he⟩ := hex8_cons u
    have hall := hex8_xdigit u
    have hval := digitsVal_hex8 u hu
    have hlen := hex8_length u
    rw [he] at hall hval hlen
    have hsc := scanInt_hex d ds rest (hall d (by simp)) (fun c hc => hall c (by simp [hc])) (sep_hexEnd rest hs)
      (by rw [hval]; omega)
    rw [hval] at hsc
    have hss : sscanf [.int .x none false] (d :: ds ++ rest) = [.int (u : Int)] := by
      unfold sscanf
      rw [sscanfGo_int_some _ _ _ _ _ _ _ _ _ hsc]
      simp [sscanfGo]
    have hadv : advance (d :: ds ++ rest) 8 = .ok rest := by
      unfold advance
      rw [← hlen]
      simp
    simp only [List.length_cons] at hlen
    simp only [scanColor, he, List.cons_append, List.drop_succ_cons, List.drop_zero]
    simp only [List.cons_append] at hss hadv
    simp [hss, hadv, hv, bind, Except.bind, pure, Except.pure]
  · intro sk rest ty ib hs
    refine ⟨0, ?_⟩
    rw [skipValue_color _ _ _ _ rfl]
    have hall := hex8_xdigit u
    have hlen := hex8_length u
    have htake : ((35 :: hex8 u ++ rest).drop 1).take 8 = hex8 u := by
      simp only [List.cons_append, List.drop_succ_cons, List.drop_zero]
      rw [← hlen]; simp
    have hdrop : (35 :: hex8 u ++ rest).drop 9 = rest := by
      simp only [List.cons_append, List.drop_succ_cons]
      rw [← hlen]; simp
    unfold skipColor
    rw [htake, hdrop]
    have hall' : (hex8 u).all isxdigit = true := by simpa [List.all_eq_true] using hall
    simp [hlen, hall']
    rfl

/-! ### MIDI, blobs -/

theorem valOK_midi (a b c d : UInt8) : ValOK (midiText a b c d) (Cell.midi a b c d) := by
  refine ⟨⟨by simp [midiText], by simp only [midiText, List.cons_append, hd_cons]; decide⟩, rfl,
    by simp only [midiText, List.cons_append, hd_cons]; decide, ?_, ?_⟩
  · intro se rest prev hs
    rw [scanValue_midi _ _ _ (by simp [midiText])]
    unfold scanMidi
    rw [if_pos (midi_guard a b c d rest), sscanf_midi]
    simp [midi_drop, u8_toNat, pure, Except.pure]
  · intro sk rest ty ib hs
    refine ⟨0, ?_⟩
    rw [skipValue_midi _ _ _ _ (by simp [midiText])]
    unfold skipMidi skipFmt scanRd
    rw [if_pos (midi_guard a b c d rest), sscanf_midi]
    simp [midi_drop]
    rfl

theorem valOK_blob (l : List (Bytes × UInt8)) (hl : ∀ p ∈ l, WSep p.1) (hlen : l.length ≤ 2147483647) :
    ValOK (blobText l.length l) (Cell.blob (l.map Prod.snd)) := by
  have hne : blobText (l.length : Int) l ≠ [] := by simp [blobText]
  have hhd : ∀ rest, hd (blobText (l.length : Int) l ++ rest) = 66 := by
    intro rest; rw [blobText_append]; rfl
  have h66 : hd (blobText (l.length : Int) l) = 66 := by simpa using hhd []
  refine ⟨⟨hne, by rw [h66]; decide⟩, rfl, by rw [h66]; decide, ?_, ?_⟩
  · intro se rest prev hs
    rw [scanValue_B _ _ _ (hhd rest)]
    exact scanBlob_text l rest hl hlen
  · intro sk rest ty ib hs
    refine ⟨0, ?_⟩
    rw [skipValue_B _ _ _ _ (hhd rest), skipBlob_text l rest hl hlen]
    rfl

end Rtosc.Pretty.C11
