/-
  C13 — Kahn's algorithm as written in `dispatch_printed_messages` (model:
  `RtoscModel/Save/Deps.lean`, `kahn`): for an acyclic dependency graph whose edges all
  point to existing messages the loop ends within its fuel, the counters never wrap
  (`decSize` is never applied to 0), every message is dispatched exactly once and every
  message stands behind all the messages it depends on.
-/
import RtoscModel.Save.Deps

namespace Rtosc.Save

/-! ### in-degrees, counted with multiplicity -/

/-- number of occurrences of `j` in the given adjacency lists -/
def inS : List (List Nat) → Nat → Nat
  | [], _ => 0
  | l :: ls, j => l.count j + inS ls j

/-- number of edges (with multiplicity) into `j` that start at a node of `R` -/
def inW (deps : List (List Nat)) : List Nat → Nat → Nat
  | [], _ => 0
  | i :: R, j => (deps.getD i []).count j + inW deps R j

theorem inW_eq_inS (deps : List (List Nat)) (R : List Nat) (j : Nat) :
    inW deps R j = inS (R.map fun i => deps.getD i []) j := by
  induction R with
  | nil => rfl
  | cons a R ih => simp only [inW, List.map_cons, inS, ih]

theorem map_getD_range (deps : List (List Nat)) :
    ((List.range deps.length).map fun i => deps.getD i []) = deps := by
  apply List.ext_getElem
  · simp
  · intro i h1 h2
    simp [List.getD_eq_getElem?_getD, h2]

theorem inW_range (deps : List (List Nat)) (j : Nat) :
    inW deps (List.range deps.length) j = inS deps j := by
  rw [inW_eq_inS, map_getD_range]

theorem inW_erase (deps : List (List Nat)) (R : List Nat) (m j : Nat) (h : m ∈ R) :
    inW deps R j = (deps.getD m []).count j + inW deps (R.erase m) j := by
  induction R with
  | nil => simp at h
  | cons a R ih =>
    by_cases ham : a = m
    · subst ham; simp [inW]
    · have hm : m ∈ R := by
        rcases List.mem_cons.1 h with h | h
        · exact absurd h.symm ham
        · exact h
      rw [List.erase_cons_tail (by simpa using ham)]
      simp only [inW, ih hm]; omega

theorem inW_eq_zero (deps : List (List Nat)) (R : List Nat) (j : Nat) :
    inW deps R j = 0 ↔ ∀ i ∈ R, j ∉ deps.getD i [] := by
  induction R with
  | nil => simp [inW]
  | cons a R ih =>
    simp only [inW, Nat.add_eq_zero_iff, ih, List.count_eq_zero, List.mem_cons, forall_eq_or_imp]

theorem getD_range (deps : List (List Nat))
    (hrange : ∀ l ∈ deps, ∀ j ∈ l, j < deps.length) (i j : Nat) (h : j ∈ deps.getD i []) :
    j < deps.length ∧ i < deps.length := by
  rw [List.getD_eq_getElem?_getD] at h
  by_cases hi : i < deps.length
  · rw [List.getElem?_eq_getElem hi] at h
    exact ⟨hrange _ (List.getElem_mem hi) j h, hi⟩
  · rw [List.getElem?_eq_none (by omega)] at h
    simp at h

/-! ### `countInputs` -/

theorem countInner_spec (l : List Nat) (cnt : List Nat) (h : ∀ d ∈ l, d < cnt.length) :
    (l.foldl (fun cnt d => cnt.modify d (· + 1)) cnt).length = cnt.length ∧
    ∀ j, (l.foldl (fun cnt d => cnt.modify d (· + 1)) cnt).getD j 0 = cnt.getD j 0 + l.count j := by
  induction l generalizing cnt with
  | nil => simp
  | cons d ds ih =>
    have hd : d < cnt.length := h d (by simp)
    have := ih (cnt.modify d (· + 1)) (by
      intro e he; simp only [List.length_modify]; exact h e (by simp [he]))
    simp only [List.foldl_cons]
    refine ⟨by simpa using this.1, fun j => ?_⟩
    rw [this.2 j]
    simp only [List.getD_eq_getElem?_getD, List.getElem?_modify, List.count_cons]
    by_cases hdj : d = j
    · subst hdj; simp [List.getElem?_eq_getElem hd]; omega
    · simp [hdj]

theorem countOuter_spec (ds : List (List Nat)) (cnt : List Nat)
    (h : ∀ l ∈ ds, ∀ d ∈ l, d < cnt.length) :
    (ds.foldl (fun cnt l => l.foldl (fun cnt d => cnt.modify d (· + 1)) cnt) cnt).length
      = cnt.length ∧
    ∀ j, (ds.foldl (fun cnt l => l.foldl (fun cnt d => cnt.modify d (· + 1)) cnt) cnt).getD j 0
      = cnt.getD j 0 + inS ds j := by
  induction ds generalizing cnt with
  | nil => simp [inS]
  | cons l ls ih =>
    have h1 := countInner_spec l cnt (h l (by simp))
    have h2 := ih (l.foldl (fun cnt d => cnt.modify d (· + 1)) cnt) (by
      intro l' hl' d hd; rw [h1.1]; exact h l' (by simp [hl']) d hd)
    simp only [List.foldl_cons]
    refine ⟨by rw [h2.1, h1.1], fun j => ?_⟩
    rw [h2.2 j, h1.2 j]; simp only [inS]; omega

theorem countInputs_spec (deps : List (List Nat))
    (hrange : ∀ l ∈ deps, ∀ j ∈ l, j < deps.length) :
    (countInputs deps).length = deps.length ∧
    ∀ j, (countInputs deps).getD j 0 = inW deps (List.range deps.length) j := by
  have := countOuter_spec deps (List.replicate deps.length 0) (by simpa using hrange)
  unfold countInputs
  refine ⟨by simpa using this.1, fun j => ?_⟩
  rw [this.2 j, inW_range]
  simp [List.getD_eq_getElem?_getD, List.getElem?_replicate]
  split <;> simp

/-! ### `relax` -/

theorem count_cons_ite (d : Nat) (ds : List Nat) (j : Nat) :
    (d :: ds).count j = ds.count j + if j = d then 1 else 0 := by
  rw [List.count_cons]
  by_cases h : j = d
  · subst h; simp
  · have : ¬ (d == j) = true := by simpa using Ne.symm h
    simp [h, this]

theorem relax_spec (l : List Nat) (cnt q : List Nat)
    (hlt : ∀ d ∈ l, d < cnt.length)
    (hnowrap : ∀ j, l.count j ≤ cnt.getD j 0) :
    ∃ ext, relax l (cnt, q) = ((relax l (cnt, q)).1, q ++ ext) ∧
      (relax l (cnt, q)).1.length = cnt.length ∧
      (∀ j, (relax l (cnt, q)).1.getD j 0 = cnt.getD j 0 - l.count j) ∧
      ext.Nodup ∧
      ∀ j, j ∈ ext ↔ j ∈ l ∧ cnt.getD j 0 = l.count j := by
  induction l generalizing cnt q with
  | nil => exact ⟨[], by simp [relax]⟩
  | cons d ds ih =>
    have hd : d < cnt.length := hlt d (by simp)
    have hd1 : 1 ≤ cnt.getD d 0 := by
      have h1 := hnowrap d
      rw [count_cons_ite] at h1
      simp only [if_true] at h1; omega
    have hdec : decSize (cnt.getD d 0) = cnt.getD d 0 - 1 := by
      unfold decSize; rw [if_neg (by omega)]
    have hget : ∀ j, (cnt.set d (decSize (cnt.getD d 0))).getD j 0 =
        if j = d then cnt.getD d 0 - 1 else cnt.getD j 0 := by
      intro j
      rw [hdec]
      simp only [List.getD_eq_getElem?_getD, List.getElem?_set]
      by_cases hjd : j = d
      · subst hjd; simp [hd]
      · simp [hjd, Ne.symm hjd]
    have hnw' : ∀ j, ds.count j ≤ (cnt.set d (decSize (cnt.getD d 0))).getD j 0 := by
      intro j
      have h1 := hnowrap j
      rw [hget j]
      rw [count_cons_ite] at h1
      by_cases hjd : j = d
      · subst hjd; simp only [if_true] at h1 ⊢; omega
      · simp only [hjd, if_false] at h1 ⊢; omega
    have hlt' : ∀ e ∈ ds, e < (cnt.set d (decSize (cnt.getD d 0))).length := by
      intro e he; simp only [List.length_set]; exact hlt e (by simp [he])
    have hmemds : ∀ j, j ∈ ds ↔ ds.count j ≠ 0 := by
      intro j; rw [Ne, List.count_eq_zero]; simp
    by_cases hc : decSize (cnt.getD d 0) = 0
    · obtain ⟨ext, e1, e2, e3, e4, e5⟩ :=
        ih (cnt.set d (decSize (cnt.getD d 0))) (q ++ [d]) hlt' hnw'
      have hrel : relax (d :: ds) (cnt, q) =
          relax ds (cnt.set d (decSize (cnt.getD d 0)), q ++ [d]) := by
        simp only [relax, hc, if_true]
      rw [hrel]
      rw [hdec] at hc
      refine ⟨d :: ext, ?_, ?_, ?_, ?_, ?_⟩
      · rw [e1]; simp
      · simpa using e2
      · intro j; rw [e3 j, hget j, count_cons_ite]
        by_cases hjd : j = d
        · subst hjd; simp only [if_true]; omega
        · simp only [hjd, if_false]; omega
      · refine List.nodup_cons.2 ⟨?_, e4⟩
        intro hmem
        have h5 := (e5 d).1 hmem
        rw [hmemds, hget d] at h5
        simp only [if_true] at h5
        omega
      · intro j
        rw [List.mem_cons, List.mem_cons, e5 j, hget j, count_cons_ite, hmemds]
        have h1 := hnowrap j
        rw [count_cons_ite] at h1
        by_cases hjd : j = d
        · subst hjd; simp only [if_true, true_or, true_and, true_iff] at h1 ⊢; omega
        · simp only [hjd, if_false, false_or] at h1 ⊢; omega
    · obtain ⟨ext, e1, e2, e3, e4, e5⟩ :=
        ih (cnt.set d (decSize (cnt.getD d 0))) q hlt' hnw'
      have hrel : relax (d :: ds) (cnt, q) =
          relax ds (cnt.set d (decSize (cnt.getD d 0)), q) := by
        simp only [relax, hc, if_false]
      rw [hrel]
      rw [hdec] at hc
      refine ⟨ext, e1, by simpa using e2, ?_, e4, ?_⟩
      · intro j; rw [e3 j, hget j, count_cons_ite]
        by_cases hjd : j = d
        · subst hjd; simp only [if_true]; omega
        · simp only [hjd, if_false]; omega
      · intro j
        rw [List.mem_cons, e5 j, hget j, count_cons_ite, hmemds]
        have h1 := hnowrap j
        rw [count_cons_ite] at h1
        by_cases hjd : j = d
        · subst hjd; simp only [if_true, true_or, true_and] at h1 ⊢; omega
        · simp only [hjd, if_false, false_or] at h1 ⊢; omega

/-! ### the loop invariant -/

/-- `R`: the messages not yet dispatched (ghost state) -/
structure KInv (deps : List (List Nat)) (q cnt order R : List Nat) : Prop where
  perm : (order ++ R).Perm (List.range deps.length)
  len : cnt.length = deps.length
  cntW : ∀ j, j < deps.length → cnt.getD j 0 = inW deps R j
  qnd : q.Nodup
  qmem : ∀ j, j ∈ q ↔ j ∈ R ∧ inW deps R j = 0
  zero : ∀ j ∈ order, inW deps R j = 0
  prec : ∀ i j b : Nat, j ∈ deps.getD i [] → order[b]? = some j → ∃ a, a < b ∧ order[a]? = some i

theorem exists_min_rank (rank : Nat → Nat) (R : List Nat) (h : R ≠ []) :
    ∃ j ∈ R, ∀ i ∈ R, rank j ≤ rank i := by
  induction R with
  | nil => exact absurd rfl h
  | cons a R ih =>
    by_cases hR : R = []
    · subst hR; exact ⟨a, by simp, by simp⟩
    · obtain ⟨j, hj, hmin⟩ := ih hR
      by_cases hle : rank a ≤ rank j
      · refine ⟨a, by simp, ?_⟩
        intro i hi
        rcases List.mem_cons.1 hi with rfl | hi
        · exact Nat.le_refl _
        · exact Nat.le_trans hle (hmin i hi)
      · refine ⟨j, by simp [hj], ?_⟩
        intro i hi
        rcases List.mem_cons.1 hi with rfl | hi
        · omega
        · exact hmin i hi

theorem KInv.init (deps : List (List Nat))
    (hrange : ∀ l ∈ deps, ∀ j ∈ l, j < deps.length) :
    KInv deps (initialQueue (countInputs deps)) (countInputs deps) [] (List.range deps.length) := by
  obtain ⟨hlen, hcnt⟩ := countInputs_spec deps hrange
  refine ⟨by simp, hlen, fun j _ => hcnt j, ?_, ?_, by simp, by simp⟩
  · unfold initialQueue
    exact List.Pairwise.filter _ List.nodup_range
  · intro j
    unfold initialQueue
    rw [List.mem_filter, List.mem_range, List.mem_range, hlen, ← hcnt j]
    constructor
    · rintro ⟨hj, h⟩
      refine ⟨hj, ?_⟩
      rw [List.getD_eq_getElem?_getD, List.getElem?_eq_getElem (by omega)] at h ⊢
      simpa using h
    · rintro ⟨hj, h⟩
      refine ⟨hj, ?_⟩
      rw [List.getD_eq_getElem?_getD, List.getElem?_eq_getElem (by omega)] at h ⊢
      simpa using h

theorem KInv.done (deps : List (List Nat)) (rank : Nat → Nat)
    (hacyc : ∀ i, ∀ j ∈ deps.getD i [], rank i < rank j)
    (cnt order R : List Nat) (h : KInv deps [] cnt order R) : R = [] := by
  by_cases hR : R = []
  · exact hR
  · exfalso
    obtain ⟨j, hj, hmin⟩ := exists_min_rank rank R hR
    have : j ∈ ([] : List Nat) := by
      rw [h.qmem j]
      refine ⟨hj, ?_⟩
      rw [inW_eq_zero]
      intro i hi hmem
      have := hacyc i j hmem
      have := hmin i hi
      omega
    simp at this

theorem KInv.step (deps : List (List Nat))
    (hrange : ∀ l ∈ deps, ∀ j ∈ l, j < deps.length)
    (rank : Nat → Nat)
    (hacyc : ∀ i, ∀ j ∈ deps.getD i [], rank i < rank j)
    (m : Nat) (q cnt order R : List Nat) (h : KInv deps (m :: q) cnt order R) :
    m ∈ R ∧
    KInv deps (relax (deps.getD m []) (cnt, q)).2 (relax (deps.getD m []) (cnt, q)).1
      (order ++ [m]) (R.erase m) := by
  have hmR : m ∈ R ∧ inW deps R m = 0 := (h.qmem m).1 (by simp)
  refine ⟨hmR.1, ?_⟩
  have hndall : (order ++ R).Nodup := h.perm.nodup_iff.2 List.nodup_range
  have hRnd : R.Nodup := (List.nodup_append.1 hndall).2.1
  have hdisj : ∀ a ∈ order, ∀ b ∈ R, a ≠ b := (List.nodup_append.1 hndall).2.2
  have hmem_all : ∀ i, i < deps.length → i ∈ order ∨ i ∈ R := by
    intro i hi
    have : i ∈ order ++ R := h.perm.mem_iff.2 (List.mem_range.2 hi)
    exact List.mem_append.1 this
  have hRlt : ∀ i ∈ R, i < deps.length := by
    intro i hi
    exact List.mem_range.1 (h.perm.mem_iff.1 (List.mem_append.2 (Or.inr hi)))
  have hW : ∀ j, inW deps R j = (deps.getD m []).count j + inW deps (R.erase m) j :=
    fun j => inW_erase deps R m j hmR.1
  have hl : ∀ d ∈ deps.getD m [], d < cnt.length := by
    intro d hd; rw [h.len]; exact (getD_range deps hrange m d hd).1
  have hcount_pos : ∀ j, j ∈ deps.getD m [] ↔ (deps.getD m []).count j ≠ 0 := by
    intro j; rw [Ne, List.count_eq_zero]; simp
  have hnowrap : ∀ j, (deps.getD m []).count j ≤ cnt.getD j 0 := by
    intro j
    by_cases hj : j < deps.length
    · rw [h.cntW j hj, hW j]; omega
    · have : (deps.getD m []).count j = 0 := by
        rw [List.count_eq_zero]
        intro hmem
        exact hj (getD_range deps hrange m j hmem).1
      omega
  obtain ⟨ext, e1, e2, e3, e4, e5⟩ := relax_spec (deps.getD m []) cnt q hl hnowrap
  have hq2 : (relax (deps.getD m []) (cnt, q)).2 = q ++ ext := by rw [e1]
  rw [hq2]
  have hqnd : q.Nodup := (List.nodup_cons.1 h.qnd).2
  have hmq : m ∉ q := (List.nodup_cons.1 h.qnd).1
  have hqR : ∀ j ∈ q, j ∈ R ∧ inW deps R j = 0 := fun j hj => (h.qmem j).1 (by simp [hj])
  -- members of `ext`
  have hext : ∀ j ∈ ext, j ∈ R.erase m ∧ inW deps (R.erase m) j = 0 ∧ j ∉ q := by
    intro j hj
    obtain ⟨hjl, hjc⟩ := (e5 j).1 hj
    have hjn := (getD_range deps hrange m j hjl).1
    rw [h.cntW j hjn] at hjc
    have hpos := (hcount_pos j).1 hjl
    have hWj := hW j
    have hjm : j ≠ m := by
      intro e; have := hacyc m j hjl; rw [e] at this; omega
    have hjR : j ∈ R := by
      rcases hmem_all j hjn with ho | hr
      · have := h.zero j ho; omega
      · exact hr
    refine ⟨(hRnd.mem_erase_iff).2 ⟨hjm, hjR⟩, by omega, ?_⟩
    intro hjq
    have := (hqR j hjq).2
    omega
  constructor
  · -- perm
    have h1 : (order ++ [m] ++ R.erase m).Perm (order ++ R) := by
      rw [List.append_assoc]
      exact (List.perm_cons_erase hmR.1).symm.append_left order
    exact h1.trans h.perm
  · rw [e2, h.len]
  · intro j hj
    rw [e3 j, h.cntW j hj, hW j]; omega
  · rw [List.nodup_append]
    refine ⟨hqnd, e4, ?_⟩
    intro a ha b hb e
    subst e
    exact (hext a hb).2.2 ha
  · intro j
    rw [List.mem_append]
    constructor
    · rintro (hj | hj)
      · have := hqR j hj
        have hjm : j ≠ m := fun e => hmq (e ▸ hj)
        have hWj := hW j
        exact ⟨(hRnd.mem_erase_iff).2 ⟨hjm, this.1⟩, by omega⟩
      · exact ⟨(hext j hj).1, (hext j hj).2.1⟩
    · rintro ⟨hjR', hz⟩
      obtain ⟨hjm, hjR⟩ := (hRnd.mem_erase_iff).1 hjR'
      have hjn := hRlt j hjR
      have hWj := hW j
      by_cases hc : (deps.getD m []).count j = 0
      · left
        have : j ∈ m :: q := (h.qmem j).2 ⟨hjR, by omega⟩
        rcases List.mem_cons.1 this with e | hq
        · exact absurd e hjm
        · exact hq
      · right
        rw [e5 j, hcount_pos j, h.cntW j hjn]
        exact ⟨hc, by omega⟩
  · intro j hj
    have hWj := hW j
    rcases List.mem_append.1 hj with ho | hm
    · have := h.zero j ho; omega
    · have : j = m := by simpa using hm
      subst this
      have := hmR.2; omega
  · intro i j b hij hb
    by_cases hbl : b < order.length
    · rw [List.getElem?_append_left hbl] at hb
      obtain ⟨a, hab, ha⟩ := h.prec i j b hij hb
      exact ⟨a, hab, by rw [List.getElem?_append_left (by omega)]; exact ha⟩
    · have hb' := hb
      rw [List.getElem?_append_right (by omega)] at hb'
      have hb0 : b - order.length = 0 := by
        by_cases h0 : b - order.length = 0
        · exact h0
        · rw [List.getElem?_eq_none (by simp; omega)] at hb'
          simp at hb'
      have hjm : j = m := by
        rw [hb0] at hb'; simpa using hb'.symm
      subst hjm
      have hin := (getD_range deps hrange i j hij).2
      have hiR : i ∉ R := by
        intro hiR
        exact ((inW_eq_zero deps R j).1 hmR.2 i hiR) hij
      have hio : i ∈ order := by
        rcases hmem_all i hin with ho | hr
        · exact ho
        · exact absurd hr hiR
      obtain ⟨a, ha⟩ := List.mem_iff_getElem?.1 hio
      have hal : a < order.length := by
        by_cases hal : a < order.length
        · exact hal
        · rw [List.getElem?_eq_none (by omega)] at ha; simp at ha
      exact ⟨a, by omega, by rw [List.getElem?_append_left hal]; exact ha⟩

/-! ### the loop -/

theorem kahnLoop_spec (deps : List (List Nat))
    (hrange : ∀ l ∈ deps, ∀ j ∈ l, j < deps.length)
    (rank : Nat → Nat)
    (hacyc : ∀ i, ∀ j ∈ deps.getD i [], rank i < rank j)
    (fuel : Nat) (q cnt order R : List Nat) (h : KInv deps q cnt order R)
    (hfuel : R.length ≤ fuel) :
    ∃ order' cnt', kahnLoop deps fuel q cnt order = some (order', cnt') ∧
      order'.Perm (List.range deps.length) ∧
      ∀ i j b : Nat, j ∈ deps.getD i [] → order'[b]? = some j →
        ∃ a, a < b ∧ order'[a]? = some i := by
  induction fuel generalizing q cnt order R with
  | zero =>
    have hR : R = [] := List.length_eq_zero_iff.1 (Nat.le_zero.1 hfuel)
    subst hR
    cases q with
    | nil =>
      refine ⟨order, cnt, by simp [kahnLoop], ?_, h.prec⟩
      simpa using h.perm
    | cons m q =>
      have := (h.qmem m).1 (by simp)
      simp at this
  | succ fuel ih =>
    cases q with
    | nil =>
      have hR := KInv.done deps rank hacyc cnt order R h
      subst hR
      refine ⟨order, cnt, by simp [kahnLoop], ?_, h.prec⟩
      simpa using h.perm
    | cons m q =>
      obtain ⟨hmR, hstep⟩ := KInv.step deps hrange rank hacyc m q cnt order R h
      have hlen : (R.erase m).length ≤ fuel := by
        rw [List.length_erase_of_mem hmR]; omega
      obtain ⟨order', cnt', hk, hp, hprec⟩ := ih _ _ _ _ hstep hlen
      exact ⟨order', cnt', by simpa [kahnLoop] using hk, hp, hprec⟩

/-- The loop of `kahn` ends within its fuel (`deps.length` iterations are enough, the
    model gives it one more). -/
theorem kahn_fuel_suffices (deps : List (List Nat))
    (hrange : ∀ l ∈ deps, ∀ j ∈ l, j < deps.length)
    (rank : Nat → Nat)
    (hacyc : ∀ i, ∀ j ∈ deps.getD i [], rank i < rank j)
    (fuel : Nat) (hfuel : deps.length ≤ fuel) :
    (kahnLoop deps fuel (initialQueue (countInputs deps)) (countInputs deps) []).isSome := by
  obtain ⟨o, c, hk, _⟩ := kahnLoop_spec deps hrange rank hacyc fuel _ _ _ _
    (KInv.init deps hrange) (by simpa using hfuel)
  rw [hk]; rfl

theorem kahn_spec (deps : List (List Nat))
    (hrange : ∀ l ∈ deps, ∀ j ∈ l, j < deps.length)
    (rank : Nat → Nat)
    (hacyc : ∀ i, ∀ j ∈ deps.getD i [], rank i < rank j) :
    ∃ order, kahn deps = some order ∧ order.Perm (List.range deps.length) ∧
      ∀ i j, j ∈ deps.getD i [] → ∀ a b : Nat, order[a]? = some i → order[b]? = some j → a < b := by
  obtain ⟨order, cnt, hk, hp, hprec⟩ := kahnLoop_spec deps hrange rank hacyc (deps.length + 1) _ _ _ _
    (KInv.init deps hrange) (by simp)
  refine ⟨order, ?_, hp, ?_⟩
  · unfold kahn
    simp only [hk, Option.map_some]
  · intro i j hij a b ha hb
    obtain ⟨a', hab, ha'⟩ := hprec i j b hij hb
    have hnd : order.Nodup := hp.nodup_iff.2 List.nodup_range
    have hal : a < order.length := by
      by_cases hal : a < order.length
      · exact hal
      · rw [List.getElem?_eq_none (by omega)] at ha; simp at ha
    have : a = a' := (List.getElem?_inj hal hnd).1 (ha.trans ha'.symm)
    omega

end Rtosc.Save
