/-
  C01 helper lemmas about the readers run on `Spec.encode m ++ rest`.
  Property theorems are in Props/C01.lean.
-/
import RtoscModel.Proofs.OscEncode
namespace Rtosc.Osc
open Rtosc

theorem NoNul.tail {c : UInt8} {k : Bytes} (h : NoNul (c :: k)) : NoNul k :=
  fun x hx => h x (List.mem_cons_of_mem _ hx)
theorem NoNul.head {c : UInt8} {k : Bytes} (h : NoNul (c :: k)) : c ≠ 0 :=
  h c (List.mem_cons_self)

theorem getElem?_of_drop {m : Bytes} {p : Nat} {c : UInt8} {r : Bytes} (h : m.drop p = c :: r) :
    m[p]? = some c := by
  have := List.getElem?_drop (xs := m) (i := p) (j := 0)
  rw [h] at this; simpa using this.symm

theorem getElem?_of_drop' {m : Bytes} {p j : Nat} {x : Bytes} (h : m.drop p = x) :
    m[p + j]? = x[j]? := by
  rw [← h, List.getElem?_drop]

theorem drop_add_of_drop {m : Bytes} {p : Nat} {x y : Bytes} (h : m.drop p = x ++ y) :
    m.drop (p + x.length) = y := by
  rw [← List.drop_drop, h, List.drop_left]

theorem length_of_drop {m : Bytes} {p : Nat} {x : Bytes} (h : m.drop p = x) (hx : x ≠ []) :
    m.length = p + x.length := by
  have : (m.drop p).length = x.length := by rw [h]
  rw [List.length_drop] at this
  have : x.length ≠ 0 := by simpa using hx
  omega

theorem nulIdx_append (s r : Bytes) (h : NoNul s) : nulIdx (s ++ 0 :: r) = some s.length := by
  induction s with
  | nil => simp [nulIdx]
  | cons c s ih => simp [nulIdx, h.head, ih h.tail]

theorem nonNulIdx_zeros (j : Nat) (c : UInt8) (r : Bytes) (hc : c ≠ 0) :
    nonNulIdx (zeros j ++ c :: r) = some j := by
  induction j with
  | zero => simp [zeros, nonNulIdx, hc]
  | succ j ih => rw [zeros_succ]; simp [nonNulIdx, ih]

theorem cstr_append (s r : Bytes) (h : NoNul s) : cstr (s ++ 0 :: r) = some s := by
  induction s with
  | nil => simp [cstr]
  | cons c s ih => simp [cstr, h.head, ih h.tail]

/-- `while(*++p);` when the memory at `p` is one (skipped) byte, a NUL-free run, a NUL -/
theorem skipToNul_of_drop {m : Bytes} {p : Nat} {c : UInt8} {s r : Bytes}
    (h : m.drop p = c :: (s ++ 0 :: r)) (hs : NoNul s) : skipToNul m p = some (p + 1 + s.length) := by
  have : m.drop (p + 1) = s ++ 0 :: r := by
    have := drop_add_of_drop (x := [c]) (y := s ++ 0 :: r) (by simpa using h)
    simpa using this
  simp [skipToNul, this, nulIdx_append s r hs]; omega

theorem skipNuls_of_drop {m : Bytes} {p j : Nat} {c c' : UInt8} {r : Bytes}
    (h : m.drop p = c' :: (zeros j ++ c :: r)) (hc : c ≠ 0) : skipNuls m p = some (p + 1 + j) := by
  have : m.drop (p + 1) = zeros j ++ c :: r := by
    have := drop_add_of_drop (x := [c']) (y := zeros j ++ c :: r) (by simpa using h)
    simpa using this
  simp [skipNuls, this, nonNulIdx_zeros j c r hc]; omega

/-- `while(*p) ++p;` when the memory at `p` is a NUL-free run followed by a NUL -/
theorem scanToNul_of_drop {m : Bytes} {p : Nat} {s r : Bytes}
    (h : m.drop p = s ++ 0 :: r) (hs : NoNul s) : scanToNul m p = some (p + s.length) := by
  simp [scanToNul, h, nulIdx_append s r hs]; omega

theorem padStr_eq (s : Bytes) : padStr s = s ++ 0 :: zeros (3 - s.length % 4) := by
  have : 4 - s.length % 4 = (3 - s.length % 4) + 1 := by omega
  rw [padStr, this, zeros_succ]

theorem rd32_of_drop {m : Bytes} {p : Nat} {v : UInt32} {r : Bytes} (h : m.drop p = be32 v ++ r) :
    rd32 m p = some v := by
  obtain ⟨b0, b1, b2, b3, hb, hg⟩ := get32_be32 v
  rw [hb] at h
  have e0 := getElem?_of_drop' (j := 0) h
  have e1 := getElem?_of_drop' (j := 1) h
  have e2 := getElem?_of_drop' (j := 2) h
  have e3 := getElem?_of_drop' (j := 3) h
  simp at e0 e1 e2 e3
  simp [rd32, e0, e1, e2, e3, hg]

theorem rd64_of_drop {m : Bytes} {p : Nat} {v : UInt64} {r : Bytes} (h : m.drop p = be64 v ++ r) :
    rd64 m p = some v := by
  obtain ⟨b0, b1, b2, b3, b4, b5, b6, b7, hb, hg⟩ := get64_be64 v
  rw [hb] at h
  have e0 := getElem?_of_drop' (j := 0) h
  have e1 := getElem?_of_drop' (j := 1) h
  have e2 := getElem?_of_drop' (j := 2) h
  have e3 := getElem?_of_drop' (j := 3) h
  have e4 := getElem?_of_drop' (j := 4) h
  have e5 := getElem?_of_drop' (j := 5) h
  have e6 := getElem?_of_drop' (j := 6) h
  have e7 := getElem?_of_drop' (j := 7) h
  simp at e0 e1 e2 e3 e4 e5 e6 e7
  simp [rd64, e0, e1, e2, e3, e4, e5, e6, e7, hg]


theorem hasReserved_zero : hasReserved 0 = false := by decide

/-- `arg_size` on an encoded argument is the length of its encoding -/
theorem argSize_enc {m : Bytes} {p : Nat} {t : UInt8} {a : Arg} {R : Bytes}
    (hd : m.drop p = encArg a ++ R) (hk : kind t = some a.kind) (hwf : a.WF)
    (hsz : (encArg a).length < 4294967296) : argSize m p t = some (encArg a).length := by
  cases a with
  | w32 v =>
    obtain ⟨hr, ht⟩ := kind_w32 t hk
    rcases ht with rfl | rfl | rfl | rfl <;> simp [argSize, hasReserved, encArg, be32_length]
  | w64 v =>
    obtain ⟨hr, ht⟩ := kind_w64 t hk
    rcases ht with rfl | rfl | rfl <;> simp [argSize, hasReserved, encArg, be64_length]
  | midi x y z w =>
    obtain ⟨hr, ht⟩ := kind_midi t hk
    subst ht; simp [argSize, hasReserved, encArg]
  | str s =>
    obtain ⟨hr, ht⟩ := kind_str t hk
    have hs : NoNul s := hwf
    have hq : ∃ q, scanToNul m p = some q ∧ q - p + (4 - (q - p) % 4) = (padStr s).length := by
      refine ⟨p + s.length, scanToNul_of_drop (r := zeros (3 - s.length % 4) ++ R) ?_ hs, ?_⟩
      · rw [hd, encArg, padStr_eq]; simp
      · rw [padStr_length]; omega
    obtain ⟨q, hq1, hq2⟩ := hq
    simp only [encArg] at hsz ⊢
    rcases ht with rfl | rfl <;> simp [argSize, hasReserved, hq1, hq2, u32_id hsz]
  | blob d =>
    obtain ⟨hr, ht⟩ := kind_blob t hk
    have hb : d.length < 2147483648 := hwf
    subst ht
    simp only [encArg, List.append_assoc] at hd
    have hl : (UInt32.ofNat d.length).toNat = d.length := by simp; omega
    simp only [argSize, hasReserved, rd32_of_drop hd, hl, encArg, List.length_append, be32_length,
      zeros_length, pad4]
    simp
    split
    · rw [u32_id (by omega)]; omega
    · rw [u32_id (n := d.length + (4 - d.length % 4)) (by omega), u32_id (by omega)]; omega

theorem extract_flag (m : Bytes) (p : Nat) {t : UInt8} (hr : hasReserved t = false) :
    (extractArg m p t).bind (CVal.view m) = some (flagVal t) := by
  simp only [extractArg, hr, Bool.not_false, if_true, flagVal]
  split
  · simp [CVal.view]
  · split <;> simp [CVal.view]

/-- `extract_arg` on an encoded argument, pointers followed, gives the argument back -/
theorem extract_enc {m : Bytes} {p : Nat} {t : UInt8} {a : Arg} {R : Bytes}
    (hd : m.drop p = encArg a ++ R) (hk : kind t = some a.kind) (hwf : a.WF) :
    (extractArg m p t).bind (CVal.view m) = some (.arg a) := by
  cases a with
  | w32 v =>
    obtain ⟨hr, ht⟩ := kind_w32 t hk
    have := rd32_of_drop (v := v) (r := R) hd
    rcases ht with rfl | rfl | rfl | rfl <;> simp [extractArg, hasReserved, this, CVal.view]
  | w64 v =>
    obtain ⟨hr, ht⟩ := kind_w64 t hk
    have := rd64_of_drop (v := v) (r := R) hd
    rcases ht with rfl | rfl | rfl <;> simp [extractArg, hasReserved, this, CVal.view]
  | midi x y z w =>
    obtain ⟨hr, ht⟩ := kind_midi t hk
    subst ht
    have e0 := getElem?_of_drop' (j := 0) hd
    have e1 := getElem?_of_drop' (j := 1) hd
    have e2 := getElem?_of_drop' (j := 2) hd
    have e3 := getElem?_of_drop' (j := 3) hd
    simp [encArg] at e0 e1 e2 e3
    simp [extractArg, hasReserved, e0, e1, e2, e3, CVal.view]
  | str s =>
    obtain ⟨hr, ht⟩ := kind_str t hk
    have hs : NoNul s := hwf
    have hc : cstr (m.drop p) = some s := by
      rw [hd, encArg, padStr_eq, List.append_assoc]; exact cstr_append s _ hs
    rcases ht with rfl | rfl <;> simp [extractArg, hasReserved, CVal.view, hc]
  | blob d =>
    obtain ⟨hr, ht⟩ := kind_blob t hk
    have hb : d.length < 2147483648 := hwf
    subst ht
    simp only [encArg, List.append_assoc] at hd
    have hl : (UInt32.ofNat d.length).toNat = d.length := by simp; omega
    have hlen := length_of_drop hd (by simp [be32, beN])
    have hd4 : m.drop (p + 4) = d ++ (zeros (pad4 d.length) ++ R) := by
      have := drop_add_of_drop hd; rwa [be32_length] at this
    simp only [extractArg, hasReserved, rd32_of_drop hd]
    simp only [List.length_append, be32_length] at hlen
    simp [CVal.view, hl, hd4, hb]
    omega

/-! ### layout of an encoded message -/

theorem encode_layout (m : Msg) (rest : Bytes) :
    Spec.encode m ++ rest = m.addr ++ 0 :: (zeros (3 - m.addr.length % 4) ++ 44 :: (m.tags ++ 0 ::
      (zeros (3 - (m.tags.length + 1) % 4) ++ (m.args.flatMap encArg ++ rest)))) := by
  simp [Spec.encode, padStr_eq]

/-- offset of the ',' -/
def Aoff (m : Msg) : Nat := (padStr m.addr).length
/-- length of the padded type tag string -/
def Boff (m : Msg) : Nat := (padStr (44 :: m.tags)).length

theorem drop_comma (m : Msg) (rest : Bytes) :
    (Spec.encode m ++ rest).drop (Aoff m) =
      44 :: (m.tags ++ 0 :: (zeros (3 - (m.tags.length + 1) % 4) ++ (m.args.flatMap encArg ++ rest))) := by
  have : Spec.encode m ++ rest = padStr m.addr ++ (44 :: (m.tags ++ 0 ::
      (zeros (3 - (m.tags.length + 1) % 4) ++ (m.args.flatMap encArg ++ rest)))) := by
    simp [Spec.encode, padStr_eq]
  rw [this, Aoff, List.drop_left]

theorem drop_tags (m : Msg) (rest : Bytes) :
    (Spec.encode m ++ rest).drop (Aoff m + 1) =
      m.tags ++ 0 :: (zeros (3 - (m.tags.length + 1) % 4) ++ (m.args.flatMap encArg ++ rest)) := by
  have := drop_add_of_drop (x := [44]) (by simpa using drop_comma m rest)
  simpa using this

theorem drop_vals (m : Msg) (rest : Bytes) :
    (Spec.encode m ++ rest).drop (Aoff m + Boff m) = m.args.flatMap encArg ++ rest := by
  have : Spec.encode m ++ rest = (padStr m.addr ++ padStr (44 :: m.tags)) ++
      (m.args.flatMap encArg ++ rest) := by simp [Spec.encode]
  rw [this, Aoff, Boff, ← List.length_append, List.drop_left]

theorem argString_enc (m : Msg) (rest : Bytes) (hwf : m.WF) :
    argString (Spec.encode m ++ rest) = some (Aoff m + 1) := by
  obtain ⟨c, s, hcs⟩ : ∃ c s, m.addr = c :: s := by
    cases h : m.addr with
    | nil => exact absurd h hwf.addr_ne
    | cons c s => exact ⟨c, s, rfl⟩
  have hnn : NoNul s := by have := hwf.addr_nonul; rw [hcs] at this; exact this.tail
  have hl := encode_layout m rest
  have h1 : skipToNul (Spec.encode m ++ rest) 0 = some (0 + 1 + s.length) := by
    have h0 : (Spec.encode m ++ rest).drop 0 = c :: (s ++ 0 :: (zeros (3 - m.addr.length % 4) ++ 44 ::
        (m.tags ++ 0 :: (zeros (3 - (m.tags.length + 1) % 4) ++ (m.args.flatMap encArg ++ rest))))) := by
      rw [List.drop_zero, hl, hcs]; simp
    exact skipToNul_of_drop h0 hnn
  have h2 : (Spec.encode m ++ rest).drop (0 + 1 + s.length) =
      0 :: (zeros (3 - m.addr.length % 4) ++ 44 :: (m.tags ++ 0 ::
      (zeros (3 - (m.tags.length + 1) % 4) ++ (m.args.flatMap encArg ++ rest)))) := by
    have : 0 + 1 + s.length = m.addr.length := by rw [hcs]; simp; omega
    rw [this]
    conv => lhs; rw [hl]
    rw [List.drop_left]
  have h3 := skipNuls_of_drop h2 (by decide : (44 : UInt8) ≠ 0)
  simp only [argString, h1, h3, Aoff, padStr_length, hcs, List.length_cons]
  congr 1; omega

theorem argBase_enc (m : Msg) (rest : Bytes) (hwf : m.WF) :
    argBase (Spec.encode m ++ rest) (Aoff m + 1) = some (Aoff m + Boff m) := by
  have ht := drop_tags m rest
  have hB : Boff m = m.tags.length + 1 + (4 - (m.tags.length + 1) % 4) := by
    simp [Boff, padStr_length]
  have hnn : NoNul m.tags := fun x hx => (isTag_ne_zero x (hwf.tags_ok x hx)).1
  simp only [argBase, scanToNul_of_drop ht hnn, hB]
  simp; omega

/-! ### walking the type tags -/

theorem isBracket_iff (t : UInt8) : isBracket t = true ↔ (t = 91 ∨ t = 93) := by
  simp [isBracket]

theorem bracket_kind : ∀ t : UInt8, isBracket t = true → kind t = none ∧ hasReserved t = false ∧ t ≠ 0 :=
  forall_uint8 (by decide +kernel)

theorem valuesOf_bracket {t : UInt8} (ts : Bytes) (as : List Arg) (h : isBracket t = true) :
    Spec.valuesOf (t :: ts) as = Spec.valuesOf ts as := by simp [Spec.valuesOf, h]

theorem valuesOf_flag {t : UInt8} (ts : Bytes) (as : List Arg) (h : isBracket t = false)
    (hk : kind t = none) :
    Spec.valuesOf (t :: ts) as = (t, flagVal t) :: Spec.valuesOf ts as := by
  simp [Spec.valuesOf, h, hk]

theorem valuesOf_arg {t : UInt8} (ts : Bytes) (a : Arg) (as : List Arg) (h : isBracket t = false)
    {k : Kind} (hk : kind t = some k) :
    Spec.valuesOf (t :: ts) (a :: as) = (t, .arg a) :: Spec.valuesOf ts as := by
  simp [Spec.valuesOf, h, hk]

def TagsOK (tags : Bytes) : Prop := ∀ t ∈ tags, isTag t = true

theorem TagsOK.tail {t : UInt8} {ts : Bytes} (h : TagsOK (t :: ts)) : TagsOK ts :=
  fun x hx => h x (List.mem_cons_of_mem _ hx)
theorem TagsOK.head {t : UInt8} {ts : Bytes} (h : TagsOK (t :: ts)) : t ≠ 0 :=
  (isTag_ne_zero t (h t List.mem_cons_self)).1

/-- one step of a walk over the tags: bracket / flag / payload -/
theorem tag_step {t : UInt8} {ts : Bytes} {args : List Arg} (hm : Matches (t :: ts) args) :
    (isBracket t = true ∧ kind t = none ∧ hasReserved t = false ∧ Matches ts args ∧
      Spec.valuesOf (t :: ts) args = Spec.valuesOf ts args) ∨
    (isBracket t = false ∧ kind t = none ∧ hasReserved t = false ∧ Matches ts args ∧
      Spec.valuesOf (t :: ts) args = (t, flagVal t) :: Spec.valuesOf ts args) ∨
    (isBracket t = false ∧ hasReserved t = true ∧ ∃ a as, args = a :: as ∧ kind t = some a.kind ∧
      Matches ts as ∧ Spec.valuesOf (t :: ts) args = (t, .arg a) :: Spec.valuesOf ts as) := by
  cases hb : isBracket t with
  | true =>
    obtain ⟨hk, hr, _⟩ := bracket_kind t hb
    exact Or.inl ⟨rfl, hk, hr, (matches_skip hk).mp hm, valuesOf_bracket ts args hb⟩
  | false =>
    cases hk : kind t with
    | none =>
      have hr : hasReserved t = false := by rw [hasReserved_eq, hk]; rfl
      exact Or.inr (Or.inl ⟨rfl, rfl, hr, (matches_skip hk).mp hm, valuesOf_flag ts args hb hk⟩)
    | some k =>
      have hr : hasReserved t = true := by rw [hasReserved_eq, hk]; rfl
      obtain ⟨a, as, rfl, hak, hm'⟩ := matches_take hk hm
      exact Or.inr (Or.inr ⟨rfl, hr, a, as, rfl, by rw [hak], hm', valuesOf_arg ts a as hb hk⟩)

theorem countArgs_spec (tags : Bytes) : ∀ (args : List Arg) (X : Bytes), Matches tags args → TagsOK tags →
    countArgs (tags ++ 0 :: X) = some (Spec.valuesOf tags args).length := by
  induction tags with
  | nil => intro args X _ _; simp [countArgs, Spec.valuesOf]
  | cons t ts ih =>
    intro args X hm hok
    have ht0 := hok.head
    rcases tag_step hm with ⟨hb, _, _, hm', hv⟩ | ⟨hb, _, _, hm', hv⟩ | ⟨hb, _, a, as, rfl, _, hm', hv⟩
    · rw [hv]; have := (isBracket_iff t).mp hb
      simp only [List.cons_append, countArgs, ht0, if_false, ih args X hm' hok.tail, Option.map_some]
      rcases this with rfl | rfl <;> simp
    · rw [hv]
      have : ¬ (t = 93 ∨ t = 91) := by
        intro h; have := (isBracket_iff t).mpr (h.symm); simp [hb] at this
      simp [countArgs, ht0, ih args X hm' hok.tail, this]
    · rw [hv]
      have : ¬ (t = 93 ∨ t = 91) := by
        intro h; have := (isBracket_iff t).mpr (h.symm); simp [hb] at this
      simp [countArgs, ht0, ih as X hm' hok.tail, this]

theorem typeLoop_spec (tags : Bytes) : ∀ (args : List Arg) (X : Bytes) (n : Nat) (t : UInt8) (v : Val),
    Matches tags args → TagsOK tags → (Spec.valuesOf tags args)[n]? = some (t, v) →
    typeLoop (tags ++ 0 :: X) n = some t := by
  induction tags with
  | nil => intro args X n t v _ _ h; simp [Spec.valuesOf] at h
  | cons c ts ih =>
    intro args X n t v hm hok h
    have ht0 := hok.head
    rcases tag_step hm with ⟨hb, _, _, hm', hv⟩ | ⟨hb, _, _, hm', hv⟩ | ⟨hb, _, a, as, rfl, _, hm', hv⟩
    · rw [hv] at h
      have := (isBracket_iff c).mp hb
      simp only [List.cons_append, typeLoop, this, if_true]
      exact ih args X n t v hm' hok.tail h
    · rw [hv] at h
      have hnb : ¬ (c = 91 ∨ c = 93) := by
        intro h; have := (isBracket_iff c).mpr h; simp [hb] at this
      simp only [List.cons_append, typeLoop, hnb, if_false, ht0, or_false]
      cases n with
      | zero => simp at h; simp [h.1]
      | succ n =>
        simp only [List.getElem?_cons_succ] at h
        simp only [Nat.add_one_ne_zero, if_false, Nat.add_sub_cancel]
        exact ih args X n t v hm' hok.tail h
    · rw [hv] at h
      have hnb : ¬ (c = 91 ∨ c = 93) := by
        intro h; have := (isBracket_iff c).mpr h; simp [hb] at this
      simp only [List.cons_append, typeLoop, hnb, if_false, ht0, or_false]
      cases n with
      | zero => simp at h; simp [h.1]
      | succ n =>
        simp only [List.getElem?_cons_succ] at h
        simp only [Nat.add_one_ne_zero, if_false, Nat.add_sub_cancel]
        exact ih as X n t v hm' hok.tail h

def NoLead (ts : Bytes) : Prop := ∀ c r, ts = c :: r → isBracket c = false

theorem lead_spec (tags : Bytes) : ∀ (args : List Arg) (X : Bytes), Matches tags args → TagsOK tags →
    ∃ j ts', bracketRun (tags ++ 0 :: X) = some j ∧ tags.drop j = ts' ∧ NoLead ts' ∧
      Spec.valuesOf ts' args = Spec.valuesOf tags args ∧ Matches ts' args ∧ TagsOK ts' ∧
      j ≤ tags.length := by
  induction tags with
  | nil =>
    intro args X hm hok
    exact ⟨0, [], (by simp [bracketRun]), rfl, (fun c r h => by cases h), rfl, hm, hok, Nat.le_refl _⟩
  | cons c ts ih =>
    intro args X hm hok
    cases hb : isBracket c with
    | true =>
      obtain ⟨hk, _, _⟩ := bracket_kind c hb
      obtain ⟨j, ts', h1, h2, h3, h4, h5, h6, h7⟩ := ih args X ((matches_skip hk).mp hm) hok.tail
      refine ⟨j + 1, ts', ?_, (by simpa using h2), h3, (by rw [h4, valuesOf_bracket ts args hb]), h5, h6,
        (by simp; omega)⟩
      simp [bracketRun, (isBracket_iff c).mp hb, h1]
    | false =>
      have hnb : ¬ (c = 91 ∨ c = 93) := by
        intro h; have := (isBracket_iff c).mpr h; simp [hb] at this
      refine ⟨0, c :: ts, (by simp [bracketRun, hnb]), rfl, ?_, rfl, hm, hok, Nat.zero_le _⟩
      intro c' r h; cases h; exact hb

theorem offLoop_zero (m ts : Bytes) (pos : Nat) : offLoop m ts 0 pos = some pos := by
  simp [offLoop]

theorem flagVal_ne_arg (t : UInt8) (a : Arg) : flagVal t ≠ .arg a := by
  unfold flagVal; split
  · simp
  · split <;> simp

theorem offLoop_spec (m : Bytes) (tags : Bytes) : ∀ (args : List Arg) (idx pos : Nat) (R X : Bytes)
    (t : UInt8) (v : Val),
    Matches tags args → TagsOK tags → (∀ a ∈ args, a.WF) →
    m.drop pos = args.flatMap encArg ++ R → pos + (args.flatMap encArg).length < 4294967296 →
    (Spec.valuesOf tags args)[idx]? = some (t, v) →
    ∃ pos', offLoop m (tags ++ 0 :: X) idx pos = some pos' ∧
      pos' ≤ pos + (args.flatMap encArg).length ∧
      (∀ a, v = .arg a → ∃ R', m.drop pos' = encArg a ++ R' ∧ kind t = some a.kind ∧ a.WF) := by
  induction tags with
  | nil => intro args idx pos R X t v _ _ _ _ _ h; simp [Spec.valuesOf] at h
  | cons c ts ih =>
    intro args idx pos R X t v hm hok hwf hd hlt h
    have hc0 := hok.head
    rcases tag_step hm with ⟨hb, _, hr, hm', hv⟩ | ⟨hb, _, hr, hm', hv⟩ | ⟨hb, hr, a, as, rfl, hka, hm', hv⟩
    · -- bracket
      rw [hv] at h
      obtain ⟨pos', h1, h2, h3⟩ := ih args idx pos R X t v hm' hok.tail hwf hd hlt h
      refine ⟨pos', ?_, h2, h3⟩
      cases idx with
      | zero => rw [offLoop_zero] at h1 ⊢; exact h1
      | succ n => simp only [List.cons_append, offLoop, (isBracket_iff c).mp hb, if_true]; exact h1
    · -- flag
      rw [hv] at h
      have hnb : ¬ (c = 91 ∨ c = 93) := by
        intro h; have := (isBracket_iff c).mpr h; simp [hb] at this
      cases idx with
      | zero =>
        simp only [List.getElem?_cons_zero, Option.some.injEq, Prod.mk.injEq] at h
        refine ⟨pos, offLoop_zero _ _ _, Nat.le_add_right _ _, ?_⟩
        intro a ha; rw [← h.2] at ha; exact absurd ha (flagVal_ne_arg c a)
      | succ n =>
        simp only [List.getElem?_cons_succ] at h
        obtain ⟨pos', h1, h2, h3⟩ := ih args n pos R X t v hm' hok.tail hwf hd hlt h
        refine ⟨pos', ?_, h2, h3⟩
        simp only [List.cons_append, offLoop, hnb, if_false, argSize, hr, Bool.not_false, if_true,
          Nat.add_zero]
        exact h1
    · -- payload
      rw [hv] at h
      have hnb : ¬ (c = 91 ∨ c = 93) := by
        intro h; have := (isBracket_iff c).mpr h; simp [hb] at this
      have hwa : a.WF := hwf a List.mem_cons_self
      have hwf' : ∀ x ∈ as, x.WF := fun x hx => hwf x (List.mem_cons_of_mem _ hx)
      simp only [List.flatMap_cons, List.append_assoc, List.length_append] at hd hlt ⊢
      cases idx with
      | zero =>
        simp only [List.getElem?_cons_zero, Option.some.injEq, Prod.mk.injEq] at h
        refine ⟨pos, offLoop_zero _ _ _, Nat.le_add_right _ _, ?_⟩
        intro a' ha'
        rw [← h.2] at ha'; cases ha'
        exact ⟨_, hd, by rw [← h.1]; exact hka, hwa⟩
      | succ n =>
        simp only [List.getElem?_cons_succ] at h
        have hsz := argSize_enc hd hka hwa (by omega)
        have hd' := drop_add_of_drop hd
        obtain ⟨pos', h1, h2, h3⟩ := ih as n (pos + (encArg a).length) R X t v hm' hok.tail hwf' hd'
          (by omega) h
        refine ⟨pos', ?_, by omega, h3⟩
        simp only [List.cons_append, offLoop, hnb, if_false, hsz]
        exact h1

def viewPair (m : Bytes) (x : UInt8 × CVal) : Option (UInt8 × Val) :=
  (x.2.view m).map (fun v => (x.1, v))

theorem iterLoop_spec (m : Bytes) : ∀ (fuel : Nat) (tags : Bytes) (args : List Arg) (tp vp : Nat)
    (R X : Bytes),
    Matches tags args → TagsOK tags → NoLead tags → (∀ a ∈ args, a.WF) →
    m.drop tp = tags ++ 0 :: X → m.drop vp = args.flatMap encArg ++ R →
    vp + (args.flatMap encArg).length < 2147483648 → tags.length < fuel →
    ∃ l, iterLoop m fuel ⟨tp, vp⟩ = some l ∧ l.mapM (viewPair m) = some (Spec.valuesOf tags args) := by
  intro fuel
  induction fuel with
  | zero => intro tags args tp vp R X _ _ _ _ _ _ _ h; omega
  | succ fuel ih =>
    intro tags args tp vp R X hm hok hnl hwf htp hvp hlt hfuel
    cases tags with
    | nil =>
      have h0 : m[tp]? = some 0 := getElem?_of_drop (by simpa using htp)
      exact ⟨[], by simp [iterLoop, itrEnd, h0], by simp [Spec.valuesOf]⟩
    | cons c ts =>
      have hc0 := hok.head
      have hcb : isBracket c = false := hnl c ts rfl
      have hmc : m[tp]? = some c := getElem?_of_drop (by simpa using htp)
      have htp1 : m.drop (tp + 1) = ts ++ 0 :: X := by
        have := drop_add_of_drop (x := [c]) (y := ts ++ 0 :: X) (by simpa using htp)
        simpa using this
      rcases tag_step hm with ⟨hb, _⟩ | ⟨_, hk, hr, hm', hv⟩ | ⟨_, hr, a, as, rfl, hka, hm', hv⟩
      · rw [hcb] at hb; cases hb
      · -- flag
        obtain ⟨j, ts', hj1, hj2, hj3, hj4, hj5, hj6, hj7⟩ := lead_spec ts args X hm' hok.tail
        have hadv : advancePast m (tp + 1) = some (j + (tp + 1)) := by
          simp [advancePast, htp1, hj1]
        have htp' : m.drop (j + (tp + 1)) = ts' ++ 0 :: X := by
          rw [Nat.add_comm, ← List.drop_drop, htp1, List.drop_append_of_le_length hj7, hj2]
        have hlen : ts'.length < fuel := by
          have : ts'.length ≤ ts.length := by rw [← hj2, List.length_drop]; omega
          simp only [List.length_cons] at hfuel; omega
        obtain ⟨l, hl1, hl2⟩ := ih ts' args (j + (tp + 1)) vp R X hj5 hj6 hj3 hwf htp' hvp hlt hlen
        have hex := extract_flag m vp hr
        cases hx : extractArg m vp c with
        | none => rw [hx] at hex; simp at hex
        | some cv =>
          rw [hx] at hex; simp only [Option.bind_some] at hex
          refine ⟨(c, cv) :: l, ?_, ?_⟩
          · simp [iterLoop, itrEnd, itrNext, hmc, hc0, hx, hadv, argSize, hr, hl1]
          · rw [hv, ← hj4]
            simp [List.mapM_cons, viewPair, hex, hl2]
      · -- payload
        have hwa : a.WF := hwf a List.mem_cons_self
        have hwf' : ∀ x ∈ as, x.WF := fun x hx => hwf x (List.mem_cons_of_mem _ hx)
        simp only [List.flatMap_cons, List.append_assoc, List.length_append] at hvp hlt
        obtain ⟨j, ts', hj1, hj2, hj3, hj4, hj5, hj6, hj7⟩ := lead_spec ts as X hm' hok.tail
        have hadv : advancePast m (tp + 1) = some (j + (tp + 1)) := by
          simp [advancePast, htp1, hj1]
        have htp' : m.drop (j + (tp + 1)) = ts' ++ 0 :: X := by
          rw [Nat.add_comm, ← List.drop_drop, htp1, List.drop_append_of_le_length hj7, hj2]
        have hlen : ts'.length < fuel := by
          have : ts'.length ≤ ts.length := by rw [← hj2, List.length_drop]; omega
          simp only [List.length_cons] at hfuel; omega
        have hsz := argSize_enc hvp hka hwa (by omega)
        have hvp' := drop_add_of_drop hvp
        obtain ⟨l, hl1, hl2⟩ := ih ts' as (j + (tp + 1)) (vp + (encArg a).length) R X hj5 hj6 hj3 hwf'
          htp' hvp' (by omega) hlen
        have hex := extract_enc hvp hka hwa
        cases hx : extractArg m vp c with
        | none => rw [hx] at hex; simp at hex
        | some cv =>
          rw [hx] at hex; simp only [Option.bind_some] at hex
          refine ⟨(c, cv) :: l, ?_, ?_⟩
          · have hlt' : (encArg a).length < 2147483648 := by omega
            simp [iterLoop, itrEnd, itrNext, hmc, hc0, hx, hadv, hsz, hlt', hl1]
          · rw [hv, ← hj4]
            simp [List.mapM_cons, viewPair, hex, hl2]
end Rtosc.Osc
