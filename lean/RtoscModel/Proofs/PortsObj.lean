/-
  C04 helper lemmas, part 8: what a dispatch leaves behind in the `RtData` besides `loc`:
  `d.obj` is the object it was called with (every branch of `Ports::dispatch` ends in
  `d.obj = obj`), `loc_size` and the NULL-ness of `loc` are never touched.  Used by the
  theorems about operation histories on one `RtData` (Props/C04.lean: `obj_restored`,
  `history_obj_handed_down`).
-/
import RtoscModel.Proofs.PortsRoot
namespace Rtosc.Ports
open Rtosc Rtosc.Match Rtosc.Ports.Hash

theorem finNo_obj (cd : Bool) (tp obj : List Nat) (m : Bytes) (r : List Call × RtData × Bool)
    (h : r.2.1.obj = obj) : (finNo cd tp obj m r).2.obj = obj := by
  simp only [finNo]; split
  · rfl
  · exact h

theorem finLoc_obj (cd : Bool) (tp obj : List Nat) (m : Bytes) (r : List Call × RtData × Bool)
    (h : r.2.1.obj = obj) : (finLoc cd tp obj m r).2.obj = obj := by
  simp only [finLoc]; split
  · rfl
  · exact h

theorem semNo_obj : ∀ (t : PTable) (tp : List Nat) (i : Nat) (obj : List Nat) (a tags ex : Bytes)
    (d : RtData) (mt : Bool), d.obj = obj → (semNo t tp i obj a tags ex d mt).2.1.obj = obj := by
  intro t
  induction t with
  | nil => intro tp i obj a tags ex d mt h; exact h
  | leaf p rest ih =>
    intro tp i obj a tags ex d mt h
    simp only [semNo]
    split
    · exact ih _ _ _ _ _ _ _ _ h
    · exact ih _ _ _ _ _ _ _ _ rfl
  | node p child cd rest _ ihr =>
    intro tp i obj a tags ex d mt h
    simp only [semNo]
    split
    · exact ihr _ _ _ _ _ _ _ _ h
    · exact ihr _ _ _ _ _ _ _ _ rfl

theorem finLoc_locSize (cd : Bool) (tp obj : List Nat) (m : Bytes) (r : List Call × RtData × Bool) :
    (finLoc cd tp obj m r).2.locSize = r.2.1.locSize := by
  simp only [finLoc]; split <;> rfl

theorem semLoc_locSize : ∀ (t : PTable) (tp : List Nat) (i : Nat) (obj : List Nat) (L a tags ex : Bytes)
    (d : RtData) (mt : Bool), (semLoc t tp i obj L a tags ex d mt).2.1.locSize = d.locSize := by
  intro t
  induction t with
  | nil => intro tp i obj L a tags ex d mt; rfl
  | leaf p rest ih =>
    intro tp i obj L a tags ex d mt
    simp only [semLoc]
    split
    · exact ih _ _ _ _ _ _ _ _ _
    · rw [ih]; rfl
  | node p child cd rest ihc ihr =>
    intro tp i obj L a tags ex d mt
    simp only [semLoc]
    split
    · exact ihr _ _ _ _ _ _ _ _ _
    · rw [ihr]
      simp only [finLoc_locSize, ihc]
      rfl

theorem finNo_loc (cd : Bool) (tp obj : List Nat) (m : Bytes) (r : List Call × RtData × Bool) :
    (finNo cd tp obj m r).2.loc = r.2.1.loc := by
  simp only [finNo]; split <;> rfl

theorem semNo_loc : ∀ (t : PTable) (tp : List Nat) (i : Nat) (obj : List Nat) (a tags ex : Bytes)
    (d : RtData) (mt : Bool), (semNo t tp i obj a tags ex d mt).2.1.loc = d.loc := by
  intro t
  induction t with
  | nil => intro tp i obj a tags ex d mt; rfl
  | leaf p rest ih =>
    intro tp i obj a tags ex d mt
    simp only [semNo]
    split
    · exact ih _ _ _ _ _ _ _ _
    · rw [ih]
  | node p child cd rest ihc ihr =>
    intro tp i obj a tags ex d mt
    simp only [semNo]
    split
    · exact ihr _ _ _ _ _ _ _ _
    · rw [ihr]
      simp only [finNo_loc, ihc]

theorem rootDataNo_obj (base : Bool) (d : RtData) : (rootDataNo base d).obj = d.obj := by
  cases base <;> rfl

theorem rootDataNo_loc (base : Bool) (d : RtData) : (rootDataNo base d).loc = d.loc := by
  cases base <;> rfl

theorem rootDataLoc_locSize (base : Bool) (d : RtData) : (rootDataLoc base d).locSize = d.locSize := by
  simp only [rootDataLoc]; cases base <;> simp <;> split <;> rfl

end Rtosc.Ports
