/-
  C12 — a concrete application for the non-vacuity examples of the text-level theorems
  (Props/C12Text.lean) on array lines with compressed runs: one array port `/a#6` of ints without
  dependency metadata.  It satisfies every hypothesis of the theorems (App.WF, MetaCovers,
  MetaRanked).
-/
import RtoscModel.Save.Spec
namespace Rtosc.Save.RunsExample
open Rtosc.Save

/-- `/a#6`  rArrayI, rDefault(0) -/
def rParams : List Param := [
  { addr := "/a0".toList, kind := .int none none, dflt := .const (.int 0), guards := [], anc := [], canon := .int 0 },
  { addr := "/a1".toList, kind := .int none none, dflt := .const (.int 0), guards := [], anc := [], canon := .int 0 },
  { addr := "/a2".toList, kind := .int none none, dflt := .const (.int 0), guards := [], anc := [], canon := .int 0 },
  { addr := "/a3".toList, kind := .int none none, dflt := .const (.int 0), guards := [], anc := [], canon := .int 0 },
  { addr := "/a4".toList, kind := .int none none, dflt := .const (.int 0), guards := [], anc := [], canon := .int 0 },
  { addr := "/a5".toList, kind := .int none none, dflt := .const (.int 0), guards := [], anc := [], canon := .int 0 } ]

def rApp : App :=
  { name := "runs".toList, params := rParams, walk := [.array "/a".toList 0 6], apropos := fun _ => none }

theorem r_size : rApp.size = 6 := rfl

theorem r_cases {i : Nat} (hi : i < rApp.size) : i = 0 ∨ i = 1 ∨ i = 2 ∨ i = 3 ∨ i = 4 ∨ i = 5 := by
  rw [r_size] at hi; omega

theorem r_walk_array {base : Path} {first len : Nat} (h : Item.array base first len ∈ rApp.walk) :
    base = "/a".toList ∧ first = 0 ∧ len = 6 := by
  change _ ∈ [Item.array "/a".toList 0 6] at h
  simp only [List.mem_cons, List.not_mem_nil, or_false, Item.array.injEq] at h
  exact h

set_option maxRecDepth 4000 in
theorem r_wf : rApp.WF where
  addr_nodup := by decide
  anc_lt := by decide
  anc_closed := by decide
  guards_anc := by decide
  preset_anc := by
    intro i hi par tbl fb h
    rcases r_cases hi with rfl | rfl | rfl | rfl | rfl | rfl <;> cases h
  kind_ok := by
    intro i hi
    rcases r_cases hi with rfl | rfl | rfl | rfl | rfl | rfl <;> exact trivial
  dflt_storable := by
    intro i hi
    rcases r_cases hi with rfl | rfl | rfl | rfl | rfl | rfl <;> (unfold Storable; decide)
  canon_ok := by
    intro i hi
    rcases r_cases hi with rfl | rfl | rfl | rfl | rfl | rfl <;> rfl
  walk_tiles := ⟨[.array "/a".toList 0 6], List.Perm.refl _, by
    simp [Tiling, Item.lo, Item.hi, r_size]⟩
  item_addr_nodup := by decide
  array_ok := by
    intro base first len h
    obtain ⟨rfl, rfl, rfl⟩ := r_walk_array h
    refine ⟨by decide, ?_⟩
    intro k hk
    have : k = 0 ∨ k = 1 ∨ k = 2 ∨ k = 3 ∨ k = 4 ∨ k = 5 := by omega
    rcases this with rfl | rfl | rfl | rfl | rfl | rfl <;> refine ⟨by decide, by decide, by decide, by decide⟩

theorem r_refs (X : Path) : refsOf (fun _ => none) X = [] := by
  simp [refsOf, rawRefs, refsAt, selfMeta]

theorem r_covers : rApp.MetaCovers := by
  constructor
  · intro d hd a ha
    rcases r_cases hd with rfl | rfl | rfl | rfl | rfl | rfl <;> cases ha
  · intro base first len h a ha
    obtain ⟨rfl, rfl, rfl⟩ := r_walk_array h
    cases ha

theorem r_ranked : MetaRanked rApp.apropos := by
  refine ⟨fun _ => 0, ?_, ?_⟩
  · intro X Y hY
    change Y ∈ refsOf (fun _ => none) X at hY
    rw [r_refs] at hY
    cases hY
  · intro X
    show 0 < scanFuel
    unfold scanFuel
    omega

/-- the first five elements set to 7, the last one to 1 -/
def rState : State :=
  rApp.run [("/a0".toList, [.int 7]), ("/a1".toList, [.int 7]), ("/a2".toList, [.int 7]), ("/a3".toList, [.int 7]),
    ("/a4".toList, [.int 7]), ("/a5".toList, [.int 1])] rApp.init

theorem r_save : rApp.save rState = [⟨"/a".toList, .arr [.int 7, .int 7, .int 7, .int 7, .int 7, .int 1]⟩] := by
  decide

end Rtosc.Save.RunsExample
