/-
  C08 helper lemmas about the readers `rtosc_bundle_elements / _fetch / _size` run on a block
  that holds an encoded bundle followed by `rest`.
-/
import RtoscModel.Proofs.BundleWrite
namespace Rtosc.Osc
open Rtosc

theorem wordsAdvance_eq {n : Nat} (h4 : n % 4 = 0) (hlt : n < 4294967296) :
    wordsAdvance (UInt32.ofNat n) = 4 + n := by
  simp only [wordsAdvance, ofNat_toNat_of_lt hlt]; omega

theorem ofNat_ne_zero {n : Nat} (h0 : n ≠ 0) (hlt : n < 4294967296) : UInt32.ofNat n ≠ 0 := by
  intro h
  have := congrArg UInt32.toNat h
  rw [ofNat_toNat_of_lt hlt] at this
  simp at this; omega

/-- sizes of the elements of a bundle shorter than 2^32 -/
def SmallElems (es : List Elem) : Prop := (Spec.encodeElems es).length < 4294967296

theorem SmallElems.head {e : Elem} {es : List Elem} (h : SmallElems (e :: es)) :
    (Spec.encodeElem e).length < 4294967296 := by
  unfold SmallElems at h; rw [encodeElems_cons_length] at h; omega

theorem SmallElems.tail {e : Elem} {es : List Elem} (h : SmallElems (e :: es)) : SmallElems es := by
  unfold SmallElems at h ⊢; rw [encodeElems_cons_length] at h; omega

/-- where the size field of element `i` is, and what follows it -/
theorem drop_elem {m : Bytes} : ∀ (es : List Elem) (i p : Nat) (rest : Bytes) (hi : i < es.length),
    m.drop p = Spec.encodeElems es ++ rest →
    m.drop (p + Spec.elemRel es i) = be32 (UInt32.ofNat (Spec.encodeElem es[i]).length) ++
      (Spec.encodeElem es[i] ++ (Spec.encodeElems (es.drop (i + 1)) ++ rest)) := by
  intro es
  induction es with
  | nil => intro i p rest hi; simp at hi
  | cons e es ih =>
    intro i p rest hi hd
    cases i with
    | zero => simpa [Spec.elemRel, Spec.encodeElems] using hd
    | succ i =>
      have hd' : m.drop (p + (4 + (Spec.encodeElem e).length)) = Spec.encodeElems es ++ rest := by
        have := drop_add_of_drop (x := be32 (UInt32.ofNat (Spec.encodeElem e).length) ++ Spec.encodeElem e)
          (y := Spec.encodeElems es ++ rest) (by rw [hd]; simp [Spec.encodeElems])
        simpa [be32_length] using this
      have := ih i _ rest (by simpa using hi) hd'
      simp only [Spec.elemRel, List.getElem_cons_succ, List.drop_succ_cons]
      rw [← this]; congr 1; omega

theorem fetchLoop_spec {m : Bytes} : ∀ (es : List Elem) (i p : Nat) (rest : Bytes),
    m.drop p = Spec.encodeElems es ++ rest → i < es.length → SmallElems es →
    fetchLoop m i p = some (some (p + Spec.elemRel es i + 4)) := by
  intro es
  induction es with
  | nil => intro i p rest _ hi; simp at hi
  | cons e es ih =>
    intro i p rest hd hi hs
    cases i with
    | zero => simp [fetchLoop, Spec.elemRel]
    | succ i =>
      have h8 := encodeElem_length_ge e
      have hrd : rd32 m p = some (UInt32.ofNat (Spec.encodeElem e).length) := by
        apply rd32_of_drop (r := Spec.encodeElem e ++ (Spec.encodeElems es ++ rest))
        rw [hd]; simp [Spec.encodeElems]
      have hd' : m.drop (p + (4 + (Spec.encodeElem e).length)) = Spec.encodeElems es ++ rest := by
        have := drop_add_of_drop (x := be32 (UInt32.ofNat (Spec.encodeElem e).length) ++ Spec.encodeElem e)
          (y := Spec.encodeElems es ++ rest) (by rw [hd]; simp [Spec.encodeElems])
        simpa [be32_length] using this
      simp only [fetchLoop, hrd, ofNat_ne_zero (by omega) hs.head, if_false,
        wordsAdvance_eq (encodeElem_mod4 e) hs.head]
      rw [ih i _ rest hd' (by simpa using hi) hs.tail]
      simp only [Spec.elemRel]; congr 2; omega

theorem bsizeLoop_spec {m : Bytes} : ∀ (es : List Elem) (i p last : Nat) (rest : Bytes) (hi : i < es.length),
    m.drop p = Spec.encodeElems es ++ rest → SmallElems es →
    bsizeLoop m (i + 1) p last = some (Spec.encodeElem es[i]).length := by
  intro es
  induction es with
  | nil => intro i p last rest hi; simp at hi
  | cons e es ih =>
    intro i p last rest hi hd hs
    have h8 := encodeElem_length_ge e
    have hrd : rd32 m p = some (UInt32.ofNat (Spec.encodeElem e).length) := by
      apply rd32_of_drop (r := Spec.encodeElem e ++ (Spec.encodeElems es ++ rest))
      rw [hd]; simp [Spec.encodeElems]
    have hd' : m.drop (p + (4 + (Spec.encodeElem e).length)) = Spec.encodeElems es ++ rest := by
      have := drop_add_of_drop (x := be32 (UInt32.ofNat (Spec.encodeElem e).length) ++ Spec.encodeElem e)
        (y := Spec.encodeElems es ++ rest) (by rw [hd]; simp [Spec.encodeElems])
      simpa [be32_length] using this
    simp only [bsizeLoop, hrd, ofNat_ne_zero (by omega) hs.head, if_false,
      wordsAdvance_eq (encodeElem_mod4 e) hs.head, ofNat_toNat_of_lt hs.head]
    cases i with
    | zero => simp [bsizeLoop]
    | succ i =>
      rw [ih i _ _ rest (by simpa using hi) hd' hs.tail]
      simp

/-- `rtosc_bundle_elements`: with the exact `len` nothing behind the bundle is read; with a
    larger `len` the word behind the last element is read and has to be zero. -/
theorem elementsLoop_spec {m : Bytes} (len : Nat) : ∀ (es : List Elem) (p n fuel : Nat) (rest : Bytes),
    m.drop p = Spec.encodeElems es ++ rest → SmallElems es → es.length < fuel →
    (p + (Spec.encodeElems es).length = len ∨
      (p + (Spec.encodeElems es).length ≤ len ∧ ∃ x, rest = 0 :: 0 :: 0 :: 0 :: x)) →
    elementsLoop m len fuel p n = .ok (n + es.length) := by
  intro es
  induction es with
  | nil =>
    intro p n fuel rest hd _ hf hend
    obtain ⟨f, rfl⟩ : ∃ f, fuel = f + 1 := ⟨fuel - 1, by simp at hf; omega⟩
    simp only [Spec.encodeElems, List.length_nil, Nat.add_zero, List.nil_append] at hend hd
    rcases hend with h | ⟨h, x, rfl⟩
    · simp [elementsLoop, h]
    · have hrd : rd32 m p = some 0 := by
        apply rd32_of_drop (r := x); rw [hd]; simp [be32, beN]
      simp only [elementsLoop, hrd]
      split <;> simp
  | cons e es ih =>
    intro p n fuel rest hd hs hf hend
    obtain ⟨f, rfl⟩ : ∃ f, fuel = f + 1 := ⟨fuel - 1, by simp at hf; omega⟩
    have h8 := encodeElem_length_ge e
    have hrd : rd32 m p = some (UInt32.ofNat (Spec.encodeElem e).length) := by
      apply rd32_of_drop (r := Spec.encodeElem e ++ (Spec.encodeElems es ++ rest))
      rw [hd]; simp [Spec.encodeElems]
    have hd' : m.drop (p + (4 + (Spec.encodeElem e).length)) = Spec.encodeElems es ++ rest := by
      have := drop_add_of_drop (x := be32 (UInt32.ofNat (Spec.encodeElem e).length) ++ Spec.encodeElem e)
        (y := Spec.encodeElems es ++ rest) (by rw [hd]; simp [Spec.encodeElems])
      simpa [be32_length] using this
    rw [encodeElems_cons_length] at hend
    have hp : p < len := by rcases hend with h | ⟨h, _⟩ <;> omega
    have hnext : ¬ (p + (4 + (Spec.encodeElem e).length) > len) := by
      rcases hend with h | ⟨h, _⟩ <;> omega
    simp only [elementsLoop, if_pos hp, hrd, ofNat_ne_zero (by omega) hs.head, if_false,
      wordsAdvance_eq (encodeElem_mod4 e) hs.head, if_neg hnext]
    rw [ih _ (n + 1) f rest hd' hs.tail (by simp at hf; omega)
      (by rcases hend with h | ⟨h, hx⟩
          · left; omega
          · right; exact ⟨by omega, hx⟩)]
    simp only [List.length_cons]; congr 1; omega

theorem elems_length_le (es : List Elem) : es.length ≤ (Spec.encodeElems es).length := by
  induction es with
  | nil => simp
  | cons e es ih => rw [encodeElems_cons_length]; simp only [List.length_cons]; omega

end Rtosc.Osc
