/-
  C18 — `rtosc_match_path` on enumerated port names (`pre#N post`, the `#` branch with
  `rtosc_match_number`; model: `matchPathM` in RtoscModel/Path/Apropos.lean).

  The lemmas say what the lookup needs of one row: the pattern `pre#N post/…` matches an
  address component `pre k post/` for every index `k < N` and hands the rest of the
  address on (`matchPath_enum_dir`); the leaf pattern `pre#N post[:args]` matches
  `pre k post` to its end (`matchPath_enum_leaf`); an index `k ≥ N` does not match
  (`matchPath_enum_out_of_range`).  Numbers are given by their digit strings (`atoi` is
  the model's reading of them), so nothing is assumed about how an index is printed
  beyond "a non-empty run of digits".
-/
import RtoscModel.Proofs.PathApropos
namespace Rtosc.Path
open Rtosc

/-- a non-empty run of decimal digits -/
def Digits (d : Bytes) : Prop := d ≠ [] ∧ ∀ c ∈ d, isDigit c = true

theorem isDigit_hd_nil : isDigit (hd []) = false := by decide

theorem dropWhile_digits : ∀ (d rest : Bytes), (∀ c ∈ d, isDigit c = true) → isDigit (hd rest) = false →
    (d ++ rest).dropWhile isDigit = rest
  | [], rest, _, hr => by
    cases rest with
    | nil => rfl
    | cons c r => simp only [hd_cons] at hr; simp [hr]
  | c :: d, rest, hd', hr => by
    have hc : isDigit c = true := hd' c List.mem_cons_self
    simp only [List.cons_append, List.dropWhile_cons, hc, ↓reduceIte]
    exact dropWhile_digits d rest (fun x hx => hd' x (List.mem_cons_of_mem _ hx)) hr

theorem atoiAux_append : ∀ (d rest : Bytes) (acc : Nat), (∀ c ∈ d, isDigit c = true) → isDigit (hd rest) = false →
    atoiAux acc (d ++ rest) = atoiAux acc d
  | [], rest, acc, _, hr => by
    cases rest with
    | nil => rfl
    | cons c r => simp only [hd_cons] at hr; simp [atoiAux, hr]
  | c :: d, rest, acc, hd', hr => by
    have hc : isDigit c = true := hd' c List.mem_cons_self
    simp only [List.cons_append, atoiAux, hc, ↓reduceIte]
    exact atoiAux_append d rest _ (fun x hx => hd' x (List.mem_cons_of_mem _ hx)) hr

theorem atoi_append (d rest : Bytes) (hd' : ∀ c ∈ d, isDigit c = true) (hr : isDigit (hd rest) = false) :
    atoi (d ++ rest) = atoi d := atoiAux_append d rest 0 hd' hr

/-- `while(isdigit(**pattern))++*pattern;` and back to the main loop -/
theorem matchPathM_skip : ∀ (d P msg : Bytes), (∀ c ∈ d, isDigit c = true) → isDigit (hd P) = false →
    matchPathM true (d ++ P) msg = matchPathM false P msg
  | [], P, msg, _, hP => by
    cases P with
    | nil => simp [matchPathM]
    | cons c r =>
      simp only [hd_cons] at hP
      simp only [List.nil_append]
      rw [matchPathM, matchPathM]
      simp [hP]
  | c :: d, P, msg, hd', hP => by
    have hc : isDigit c = true := hd' c List.mem_cons_self
    simp only [List.cons_append]
    rw [matchPathM]
    simp only [hc, and_self, ↓reduceIte]
    exact matchPathM_skip d P msg (fun x hx => hd' x (List.mem_cons_of_mem _ hx)) hP

/-- a plain prefix common to pattern and address is stepped over -/
theorem matchPath_pre (l : Bytes) : ∀ (P M : Bytes), (∀ c ∈ l, PlainChar c) → hd P ≠ 0 → hd P ≠ COLON →
    matchPath (l ++ P) (l ++ M) = matchPath P M := by
  induction l with
  | nil => intro P M _ _ _; rfl
  | cons c l' ih =>
    intro P M hl h0 h1
    obtain ⟨c0, _, _, _, c4⟩ := hl c List.mem_cons_self
    have hl' : ∀ d ∈ l', PlainChar d := fun d hd => hl d (List.mem_cons_of_mem _ hd)
    have hnext : ¬ (hd (l' ++ P) = 0 ∨ hd (l' ++ P) = COLON) := by
      cases l' with
      | nil => simp [h0, h1]
      | cons d _ =>
        obtain ⟨d0, _, _, _, d4⟩ := hl' d List.mem_cons_self
        simp [d0, d4]
    simp only [List.cons_append]
    rw [matchPath_plain (hl c List.mem_cons_self)]
    simp only [hd_cons, and_self]
    by_cases hs : c = SLASH
    · subst hs
      simp only [↓reduceIte, List.drop_succ_cons, List.drop_zero]
      rw [if_neg hnext]
      exact ih P M hl' h0 h1
    · simp only [hs, ↓reduceIte, ne_eq, c0, not_false_eq_true, List.drop_succ_cons, List.drop_zero]
      exact ih P M hl' h0 h1

theorem hd_digits_append {d : Bytes} (h : Digits d) (r : Bytes) : isDigit (hd (d ++ r)) = true := by
  obtain ⟨hne, hall⟩ := h
  cases d with
  | nil => exact absurd rfl hne
  | cons c t => exact hall c List.mem_cons_self

/-- `#N` against an index: `rtosc_match_number` succeeds iff the index is below `N` -/
theorem matchPath_hash (dn dk P M : Bytes) (hn : Digits dn) (hk : Digits dk)
    (hP : isDigit (hd P) = false) (hM : isDigit (hd M) = false)
    (hmax : atoi dn < 2147483648) (hval : atoi dk < 2147483648) :
    matchPath (35 :: (dn ++ P)) (dk ++ M) = if atoi dk < atoi dn then matchPath P M else .null := by
  simp only [matchPath]
  rw [matchPathM]
  have e1 : ¬ ((35 : UInt8) = COLON) := by decide
  have e2 : ¬ ((35 : UInt8) = 123) := by decide
  have e3 : ¬ ((35 : UInt8) = 42) := by decide
  have e4 : ¬ ((35 : UInt8) = SLASH) := by decide
  simp only [Bool.false_eq_true, false_and, ↓reduceIte, e1, e2, e3, e4,
    hd_digits_append hn, hd_digits_append hk, and_self,
    atoi_append dn P hn.2 hP, atoi_append dk M hk.2 hM, hmax, hval,
    dropWhile_digits dk M hk.2 hM]
  by_cases h : atoi dk < atoi dn
  · rw [if_pos h, if_pos h]
    exact matchPathM_skip dn P M hn.2 hP
  · rw [if_neg h, if_neg h]

theorem hd_append_ne {l : Bytes} (hl : ∀ c ∈ l, PlainChar c) (x : UInt8) (t : Bytes) (hx : PlainChar x) :
    PlainChar (hd (l ++ x :: t)) := by
  cases l with
  | nil => exact hx
  | cons c _ => exact hl c List.mem_cons_self

/-- **enumerated sub-tree row**: the pattern `pre#N post/tail` (`tail` empty or `:args`)
    matches the address `pre k post/rest` for every index `k < N` and leaves `rest` — the
    string handed to the sub-table's lookup. -/
theorem matchPath_enum_dir (pre dn post tail dk rest : Bytes)
    (hpre : ∀ c ∈ pre, PlainChar c) (hpost : ∀ c ∈ post, PlainChar c) (ht : TailOK tail)
    (hn : Digits dn) (hk : Digits dk) (hpd : isDigit (hd (post ++ [SLASH])) = false)
    (hmax : atoi dn < 2147483648) (hlt : atoi dk < atoi dn) :
    matchPath (pre ++ 35 :: (dn ++ (post ++ SLASH :: tail))) (pre ++ (dk ++ (post ++ SLASH :: rest))) =
      .ok tail rest := by
  have hnd : ∀ t : Bytes, isDigit (hd (post ++ SLASH :: t)) = false := by
    intro t
    cases post with
    | nil => show isDigit SLASH = false; decide
    | cons c _ => simpa using hpd
  rw [matchPath_pre pre _ _ hpre (by simp) (by simp [COLON]),
    matchPath_hash dn dk _ _ hn hk (hnd tail) (hnd rest) hmax (by omega), if_pos hlt]
  exact matchPath_dir post tail rest hpost ht

/-- **enumerated leaf row**: the pattern `pre#N post[:args]` matches the address
    `pre k post` to its end for every index `k < N`. -/
theorem matchPath_enum_leaf (pre dn post tail dk : Bytes)
    (hpre : ∀ c ∈ pre, PlainChar c) (hpost : ∀ c ∈ post, PlainChar c) (ht : TailOK tail)
    (hn : Digits dn) (hk : Digits dk) (hpd : isDigit (hd post) = false)
    (hmax : atoi dn < 2147483648) (hlt : atoi dk < atoi dn) :
    ∃ p, matchPath (pre ++ 35 :: (dn ++ (post ++ tail))) (pre ++ (dk ++ post)) = .ok p [] := by
  have hP : isDigit (hd (post ++ tail)) = false := by
    cases post with
    | nil =>
      rcases ht with rfl | ht
      · decide
      · simp only [List.nil_append]; rw [ht]; decide
    | cons c _ => simpa using hpd
  rw [matchPath_pre pre _ _ hpre (by simp) (by simp [COLON]),
    matchPath_hash dn dk _ _ hn hk hP hpd hmax (by omega), if_pos hlt]
  exact matchPath_self post tail hpost ht

/-- an index at or above `N` is not matched -/
theorem matchPath_enum_out_of_range (pre dn P dk M : Bytes)
    (hpre : ∀ c ∈ pre, PlainChar c) (hn : Digits dn) (hk : Digits dk)
    (hP : isDigit (hd P) = false) (hM : isDigit (hd M) = false)
    (hmax : atoi dn < 2147483648) (hval : atoi dk < 2147483648) (hge : atoi dn ≤ atoi dk) :
    matchPath (pre ++ 35 :: (dn ++ P)) (pre ++ (dk ++ M)) = .null := by
  rw [matchPath_pre pre _ _ hpre (by simp) (by simp [COLON]),
    matchPath_hash dn dk _ _ hn hk hP hM hmax hval, if_neg (by omega)]

end Rtosc.Path
