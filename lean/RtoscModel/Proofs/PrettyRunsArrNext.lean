/-
  C10 — tier 3, compressed runs AND arrays (6): when `rtosc_convert_to_range` finds a run that is
  followed by further arguments which may be ARRAYS (cf. PrettyRunsExtConv, where everything behind
  the run is a scalar): the type-counting loop steps over whole arrays (`incsize`), the
  run-extension loop only looks at the first cell behind the run.
-/
import RtoscModel.Proofs.PrettyRunsArrDefs
set_option linter.unusedSimpArgs false
set_option linter.unusedVariables false
namespace Rtosc.Pretty
open Rtosc Rtosc.Libc
open Rtosc.ArgVal (Cell)

/-- a cell list in which every array header is followed by its cells -/
inductive WFCells : List Cell → Prop
  | nil : WFCells []
  | scalar (c : Cell) (r : List Cell) : c.isScalar = true → WFCells r → WFCells (c :: r)
  | arr (ety : UInt8) (es r : List Cell) : WFCells r → WFCells (Cell.arr ety es.length :: (es ++ r))

theorem WFCells.append_scalars {l r : List Cell} (hl : ∀ c ∈ l, c.isScalar = true) (hr : WFCells r) : WFCells (l ++ r) := by
  induction l with
  | nil => exact hr
  | cons c l ih => exact .scalar c _ (hl c (by simp)) (ih (fun x hx => hl x (by simp [hx])))

theorem wfCells_replicate_arr (n : Nat) (ety : UInt8) (es : List Cell) {r : List Cell} (h : WFCells r) :
    WFCells ((List.replicate n (Cell.arr ety es.length :: es)).flatten ++ r) := by
  induction n with
  | zero => simpa using h
  | succ k ihk =>
    simp only [List.replicate_succ, List.flatten_cons, List.cons_append, List.append_assoc]
    exact .arr _ _ _ ihk

theorem wfCells_cellsAllA {opt : POpt} {xs : List ASeg} (h : ASegmented opt xs) : WFCells (cellsAllA xs) := by
  induction h with
  | nil => exact .nil
  | tok c xs hsc _ _ _ ih => exact .scalar c _ hsc ih
  | crun n c xs hsc _ _ _ _ _ ih =>
    show WFCells (List.replicate n c ++ cellsAllA xs)
    exact WFCells.append_scalars (by intro x hx; rw [(List.mem_replicate.mp hx).2]; exact hsc) ih
  | irun a d n xs _ _ _ ih =>
    show WFCells (arithRun a d n ++ cellsAllA xs)
    exact WFCells.append_scalars (by
      intro x hx; simp only [arithRun, List.mem_map] at hx; obtain ⟨k, _, rfl⟩ := hx; rfl) ih
  | arr body xs _ _ _ _ ih =>
    simp only [cellsAllA, ASeg.cells, arrHdr, List.cons_append]
    exact .arr _ _ _ ih
  | arun n body xs _ _ _ _ _ _ ih =>
    simp only [cellsAllA, ASeg.cells, arrHdr]
    exact wfCells_replicate_arr n _ _ ih

/-- the type-counting loop returns on well-formed cells, with at least the count it started with -/
theorem countCommon_total (ty : UInt8) {R : List Cell} (hR : WFCells R) :
    ∀ (pre : List Cell) (fuel n0 : Nat), R.length < fuel →
      ∃ m, n0 ≤ m ∧ countCommon fuel ty (pre ++ R) (pre ++ R).length pre.length n0 = .ok m := by
  induction hR with
  | nil =>
    intro pre fuel n0 hf
    obtain ⟨f, rfl⟩ : ∃ f, fuel = f + 1 := ⟨fuel - 1, by omega⟩
    refine ⟨n0, Nat.le_refl _, ?_⟩
    rw [countCommon]
    simp [pure, Except.pure]
  | scalar c r hsc _ ih =>
    intro pre fuel n0 hf
    obtain ⟨f, rfl⟩ : ∃ f, fuel = f + 1 := ⟨fuel - 1, by omega⟩
    rw [countCommon]
    have hlt : pre.length < (pre ++ c :: r).length := by simp
    simp only [hlt, ↓reduceIte, List.drop_left', deref, bind, Except.bind, incsize_scalar c r hsc]
    split
    · exact ⟨n0, Nat.le_refl _, rfl⟩
    · obtain ⟨m, hm, hcc⟩ := ih (pre ++ [c]) f (n0 + 1) (by simp only [List.length_cons] at hf; omega)
      refine ⟨m, by omega, ?_⟩
      simpa [List.append_assoc] using hcc
  | arr ety es r _ ih =>
    intro pre fuel n0 hf
    obtain ⟨f, rfl⟩ : ∃ f, fuel = f + 1 := ⟨fuel - 1, by omega⟩
    rw [countCommon]
    have hlt : pre.length < (pre ++ Cell.arr ety es.length :: (es ++ r)).length := by simp
    have hne : ¬ ((es.length : Int) < 0) := by omega
    simp only [hlt, ↓reduceIte, List.drop_left', deref, bind, Except.bind, incsize, hne, pure, Except.pure,
      Int.toNat_natCast]
    split
    · exact ⟨n0, Nat.le_refl _, rfl⟩
    · obtain ⟨m, hm, hcc⟩ := ih (pre ++ Cell.arr ety es.length :: es) f (n0 + 1) (by
        simp only [List.length_cons, List.length_append] at hf; omega)
      refine ⟨m, by omega, ?_⟩
      have e : pre ++ Cell.arr ety es.length :: es ++ r = pre ++ Cell.arr ety es.length :: (es ++ r) := by simp
      have e2 : (pre ++ Cell.arr ety es.length :: es).length = pre.length + (es.length + 1) := by simp
      rw [e, e2] at hcc
      exact hcc

/-- … and counts at least the leading scalars of the type -/
theorem countCommon_prefix (ty : UInt8) {R : List Cell} (hR : WFCells R) :
    ∀ (P pre : List Cell) (fuel n0 : Nat), (∀ c ∈ P, c.isScalar = true ∧ c.type = ty) → P.length + R.length < fuel →
      ∃ m, n0 + P.length ≤ m ∧ countCommon fuel ty (pre ++ (P ++ R)) (pre ++ (P ++ R)).length pre.length n0 = .ok m := by
  intro P
  induction P with
  | nil =>
    intro pre fuel n0 _ hf
    obtain ⟨m, hm, hcc⟩ := countCommon_total ty hR pre fuel n0 (by simpa using hf)
    exact ⟨m, by simpa using hm, by simpa using hcc⟩
  | cons c P ih =>
    intro pre fuel n0 hP hf
    obtain ⟨f, rfl⟩ : ∃ f, fuel = f + 1 := ⟨fuel - 1, by omega⟩
    obtain ⟨hsc, hty⟩ := hP c (by simp)
    rw [countCommon]
    have hlt : pre.length < (pre ++ (c :: P ++ R)).length := by simp
    simp only [hlt, ↓reduceIte, List.drop_left', List.cons_append, deref, bind, Except.bind, incsize_scalar c _ hsc,
      hty, ne_eq, not_true_eq_false]
    obtain ⟨m, hm, hcc⟩ := ih (pre ++ [c]) f (n0 + 1) (fun x hx => hP x (by simp [hx])) (by
      simp only [List.length_cons] at hf; omega)
    refine ⟨m, by simp only [List.length_cons]; omega, ?_⟩
    simpa [List.append_assoc] using hcc

/-- **a constant run followed by further arguments, arrays included**: `rtosc_convert_to_range`
    converts exactly the run when the cell behind it is not identical to the run's value -/
theorem convertToRange_crun_of_nextW (opt : POpt) (hc : opt.compress = true) (c : Cell) (hsc : c.isScalar = true)
    (hid : SelfIdentical c) (n : Nat) (hn5 : 5 ≤ n) (R : List Cell) (hR : WFCells R)
    (hnext : R = [] ∨ ∀ more, rangeArgsIdentical (c :: more) R = .ok false) :
    convertToRange opt (List.replicate n c ++ R) (n + R.length) = .ok (some (n, [Cell.rep n 0, c])) := by
  have h0 : List.replicate n c ++ R = c :: (List.replicate (n - 0 - 1) c ++ R) := by
    simpa using drop_replicate_append n 0 c R (by omega)
  have hlenA : (List.replicate n c ++ R).length = n + R.length := by simp
  obtain ⟨m, hm, hcc⟩ := countCommon_prefix c.type hR (List.replicate n c) [] (n + R.length + 1) 0 (by
    intro x hx; rw [(List.mem_replicate.mp hx).2]; exact ⟨hsc, rfl⟩) (by simp)
  simp only [List.nil_append, List.length_nil, List.length_replicate, Nat.zero_add, hlenA] at hm hcc
  have her := extendRun_replicate_next c hsc hid n R hnext (n + R.length + 1) 1 1 (by omega) (by omega) (by omega)
  unfold convertToRange
  have hs : ¬ (n + R.length < rangeMin) := by unfold rangeMin; omega
  simp only [hs, ↓reduceIte, bind, Except.bind]
  rw [h0] at hcc her ⊢
  simp only [deref, scalar_type_ne_range c hsc, hc, Bool.not_true, Bool.false_eq_true, or_self, ↓reduceIte, hcc,
    incsize_scalar c _ hsc]
  have hident : rangeArgsIdentical (c :: (List.replicate (n - 0 - 1) c ++ R))
      (List.drop 1 (c :: (List.replicate (n - 0 - 1) c ++ R))) = .ok true := by
    simp only [List.drop_succ_cons, List.drop_zero]
    obtain ⟨k, hk⟩ : ∃ k, n - 0 - 1 = k + 1 := ⟨n - 2, by omega⟩
    rw [hk, List.replicate_succ]; exact hid _ _
  have hs' : ¬ (m < rangeMin) := by unfold rangeMin; omega
  simp only [hs', ↓reduceIte, hident, pure, Except.pure, her]
  have e1 : 1 + (n - 1) = n := by omega
  have hge : n ≥ rangeMin := by unfold rangeMin; omega
  simp [e1, hge]

/-- **an arithmetic run followed by further arguments, arrays included**: `rtosc_convert_to_range`
    converts exactly the run when the cell behind it does not continue it -/
theorem convertToRange_irun_of_nextW (opt : POpt) (hc : opt.compress = true) {a d : Int} {n : Nat} (h : RunHyp a d n)
    (R : List Cell) (hR : WFCells R)
    (hnext : R = [] ∨ eqSingle [Cell.int .i (a + (n : Int) * d)] R = .ok false) :
    convertToRange opt (arithRun a d n ++ R) (n + R.length) =
      .ok (some (n, [Cell.rep n 1, Cell.int .i d, Cell.int .i a])) := by
  have hn := h.hn
  have hdb := h.dbound
  have hr0 := h.r0
  have hr1 := h.r1
  have hlenA : (arithRun a d n ++ R).length = n + R.length := by simp [arithRun_length]
  obtain ⟨m, hm, hcc⟩ := countCommon_prefix 105 hR (arithRun a d n) [] (n + R.length + 1) 0 (by
    intro x hx; simp only [arithRun, List.mem_map] at hx; obtain ⟨k, _, rfl⟩ := hx; exact ⟨rfl, rfl⟩)
    (by simp [arithRun_length])
  simp only [List.nil_append, List.length_nil, arithRun_length, Nat.zero_add, hlenA] at hm hcc
  have h0 : arithRun a d n ++ R = Cell.int .i a :: ((arithRun a d n).drop 1 ++ R) := by
    have := arithRun_drop_append a d n 0 R (by omega)
    simpa using this
  have hd1 : (arithRun a d n).drop 1 ++ R = Cell.int .i (a + d) :: ((arithRun a d n).drop 2 ++ R) := by
    have := arithRun_drop a d n 1 (by omega)
    rw [this]; simp
  have hnot : ¬ (n + R.length < rangeMin) := by unfold rangeMin; omega
  have hnotm : ¬ (m < rangeMin) := by unfold rangeMin; omega
  unfold convertToRange
  rw [h0]
  simp only [hnot, ↓reduceIte, deref, bind, Except.bind, hc, Bool.not_true, Bool.false_eq_true, or_false,
    type_int_i, ArgVal.tyRange, show ((105 : UInt8) = 45) = False from by decide]
  rw [← h0, hcc]
  simp only [hnotm, ↓reduceIte]
  rw [h0]
  simp only [incsize_scalar _ _ (show (Cell.int .i a).isScalar = true from rfl), List.drop_succ_cons, List.drop_zero]
  rw [← h0, hd1]
  have hne : ¬ (a = a + d) := by have := h.hd; omega
  have hident : rangeArgsIdentical (arithRun a d n ++ R) (Cell.int .i (a + d) :: ((arithRun a d n).drop 2 ++ R)) =
      .ok false := by
    unfold rangeArgsIdentical
    rw [h0]
    simp [eqSingle_int, hne, bind, Except.bind, pure, Except.pure]
  have hsub : subAV (Cell.int .i (a + d)) (Cell.int .i a) = .ok (some (Cell.int .i d)) := by
    rw [subAV_int, toI32_id _ (by omega) (by omega)]
    congr 3; omega
  have hso : rangeStepOverflows (Cell.int .i a) (Cell.int .i d) = false := by
    simp only [rangeStepOverflows, Bool.or_eq_false_iff, decide_eq_false_iff_not]
    omega
  simp only [hident, Bool.false_eq_true, ↓reduceIte, show (lit "cihTF").contains (105 : UInt8) = true from by decide,
    hsub, must, bind, Except.bind, pure, Except.pure, hso]
  rw [extendRun_run_next h R hnext (n + R.length + 1) 1 1 (by omega) (by omega) (by omega)]
  have : 1 + (n - 1) = n := by omega
  simp only [this, rangeMin, ge_iff_le, hn, ↓reduceIte, Option.isSome_some, List.cons_append, List.nil_append]
  rw [h0]
  simp

end Rtosc.Pretty
