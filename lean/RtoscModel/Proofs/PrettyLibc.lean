/-
  C10 — lemmas about the libc sub-models (digit strings, integer conversions of sscanf).
-/
import RtoscModel.Libc.Scanf
namespace Rtosc.Libc
open Rtosc

theorem decDigitsFuel_indep : ∀ (f1 f2 n : Nat) (acc : Bytes), n ≤ f1 → n ≤ f2 →
    decDigitsFuel f1 n acc = decDigitsFuel f2 n acc := by
  intro f1
  induction f1 with
  | zero => intro f2 n acc h _; have : n = 0 := by omega
            subst this; cases f2 <;> simp [decDigitsFuel]
  | succ f ih =>
    intro f2 n acc h h'
    cases f2 with
    | zero => have : n = 0 := by omega
              subst this; simp [decDigitsFuel]
    | succ g =>
      simp only [decDigitsFuel]
      split
      · rfl
      · apply ih <;> omega

theorem decDigitsAux_eq (n : Nat) (acc : Bytes) :
    decDigitsAux n acc = if n = 0 then acc else decDigitsAux (n / 10) (digitChar (n % 10) :: acc) := by
  unfold decDigitsAux
  cases n with
  | zero => simp [decDigitsFuel]
  | succ m =>
    simp only [decDigitsFuel]
    rw [decDigitsFuel_indep m ((m+1)/10) _ _ (by omega) (by omega)]

theorem hexDigitsFuel_indep : ∀ (f1 f2 n : Nat) (acc : Bytes), n ≤ f1 → n ≤ f2 →
    hexDigitsFuel f1 n acc = hexDigitsFuel f2 n acc := by
  intro f1
  induction f1 with
  | zero => intro f2 n acc h _; have : n = 0 := by omega
            subst this; cases f2 <;> simp [hexDigitsFuel]
  | succ f ih =>
    intro f2 n acc h h'
    cases f2 with
    | zero => have : n = 0 := by omega
              subst this; simp [hexDigitsFuel]
    | succ g =>
      simp only [hexDigitsFuel]
      split
      · rfl
      · apply ih <;> omega

theorem hexDigitsAux_eq (n : Nat) (acc : Bytes) :
    hexDigitsAux n acc = if n = 0 then acc else hexDigitsAux (n / 16) (hexDigitChar (n % 16) :: acc) := by
  unfold hexDigitsAux
  cases n with
  | zero => simp [hexDigitsFuel]
  | succ m =>
    simp only [hexDigitsFuel]
    rw [hexDigitsFuel_indep m ((m+1)/16) _ _ (by omega) (by omega)]

/-- `decDigitsAux n acc = digits n ++ acc` -/
theorem decDigitsAux_acc (n : Nat) (acc : Bytes) : decDigitsAux n acc = decDigitsAux n [] ++ acc := by
  induction n using Nat.strongRecOn generalizing acc with
  | _ n ih =>
    rw [decDigitsAux_eq n acc, decDigitsAux_eq n []]
    split
    · simp
    · rw [ih (n/10) (by omega) (digitChar (n % 10) :: acc), ih (n/10) (by omega) [digitChar (n % 10)]]
      simp

theorem isdigit_digitChar (d : Nat) (h : d < 10) : isdigit (digitChar d) = true := by
  have : ∀ d : Fin 10, isdigit (digitChar d.val) = true := by decide
  exact this ⟨d, h⟩

theorem dval_digitChar (d : Nat) (h : d < 10) : dval (digitChar d) = d := by
  have : ∀ d : Fin 10, dval (digitChar d.val) = d.val := by decide
  exact this ⟨d, h⟩

theorem xval_digitChar (d : Nat) (h : d < 10) : xval (digitChar d) = d := by
  have : ∀ d : Fin 10, xval (digitChar d.val) = d.val := by decide
  exact this ⟨d, h⟩

theorem decDigits_all_digit (n : Nat) : ∀ c ∈ decDigitsAux n [], isdigit c = true := by
  induction n using Nat.strongRecOn with
  | _ n ih =>
    rw [decDigitsAux_eq]
    split
    · simp
    · rw [decDigitsAux_acc]
      intro c hc
      simp only [List.mem_append, List.mem_singleton] at hc
      rcases hc with hc | hc
      · exact ih (n/10) (by omega) c hc
      · subst hc; exact isdigit_digitChar _ (by omega)

theorem foldl_digits_start (b : Nat) (y : Bytes) : ∀ a : Nat,
    List.foldl (fun v c => v * b + xval c) a y = a * b ^ y.length + List.foldl (fun v c => v * b + xval c) 0 y := by
  induction y with
  | nil => intro a; simp
  | cons c r ih =>
    intro a
    simp only [List.foldl_cons, List.length_cons]
    rw [ih (a * b + xval c), ih (0 * b + xval c)]
    rw [Nat.pow_succ, Nat.add_mul, Nat.zero_mul, Nat.zero_add, Nat.mul_assoc, Nat.add_assoc, Nat.mul_comm b]

theorem digitsVal_append (b : Nat) (x y : Bytes) :
    digitsVal b (x ++ y) = digitsVal b x * b ^ y.length + digitsVal b y := by
  unfold digitsVal
  rw [List.foldl_append, foldl_digits_start]

theorem digitsVal_decDigits (n : Nat) : digitsVal 10 (decDigitsAux n []) = n := by
  induction n using Nat.strongRecOn with
  | _ n ih =>
    rw [decDigitsAux_eq]
    split
    · next h => subst h; rfl
    · rw [decDigitsAux_acc, digitsVal_append, ih (n/10) (by omega)]
      simp only [List.length_singleton, Nat.pow_one, digitsVal, List.foldl_cons, List.foldl_nil, Nat.zero_mul, Nat.zero_add]
      rw [xval_digitChar _ (by omega)]
      omega

end Rtosc.Libc
