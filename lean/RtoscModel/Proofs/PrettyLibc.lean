/-
  C10 — lemmas about the libc sub-models (digit strings, integer conversions of sscanf).
-/
import RtoscModel.Libc.Scanf
namespace Rtosc.Libc
open Rtosc

theorem decDigitsFuel_indep : ∀ (f1 f2 n : Nat) (acc : Bytes), n ≤ f1 → n ≤ f2 →
    decDigitsFuel f1 n acc = decDigitsFuel f2 n acc := by
  intro f1
  induction f1 with
  | zero => intro f2 n acc h _; have : n = 0 := by omega
            subst this; cases f2 <;> simp [decDigitsFuel]
  | succ f ih =>
    intro f2 n acc h h'
    cases f2 with
    | zero => have : n = 0 := by omega
              subst this; simp [decDigitsFuel]
    | succ g =>
      simp only [decDigitsFuel]
      split
      · rfl
      · apply ih <;> omega

theorem decDigitsAux_eq (n : Nat) (acc : Bytes) :
    decDigitsAux n acc = if n = 0 then acc else decDigitsAux (n / 10) (digitChar (n % 10) :: acc) := by
  unfold decDigitsAux
  cases n with
  | zero => simp [decDigitsFuel]
  | succ m =>
    simp only [decDigitsFuel]
    rw [decDigitsFuel_indep m ((m+1)/10) _ _ (by omega) (by omega)]

theorem hexDigitsFuel_indep : ∀ (f1 f2 n : Nat) (acc : Bytes), n ≤ f1 → n ≤ f2 →
    hexDigitsFuel f1 n acc = hexDigitsFuel f2 n acc := by
  intro f1
  induction f1 with
  | zero => intro f2 n acc h _; have : n = 0 := by omega
            subst this; cases f2 <;> simp [hexDigitsFuel]
  | succ f ih =>
    intro f2 n acc h h'
    cases f2 with
    | zero => have : n = 0 := by omega
              subst this; simp [hexDigitsFuel]
    | succ g =>
      simp only [hexDigitsFuel]
      split
      · rfl
      · apply ih <;> omega

theorem hexDigitsAux_eq (n : Nat) (acc : Bytes) :
    hexDigitsAux n acc = if n = 0 then acc else hexDigitsAux (n / 16) (hexDigitChar (n % 16) :: acc) := by
  unfold hexDigitsAux
  cases n with
  | zero => simp [hexDigitsFuel]
  | succ m =>
    simp only [hexDigitsFuel]
    rw [hexDigitsFuel_indep m ((m+1)/16) _ _ (by omega) (by omega)]

/-- `decDigitsAux n acc = digits n ++ acc` -/
theorem decDigitsAux_acc (n : Nat) (acc : Bytes) : decDigitsAux n acc = decDigitsAux n [] ++ acc := by
  induction n using Nat.strongRecOn generalizing acc with
  | _ n ih =>
    rw [decDigitsAux_eq n acc, decDigitsAux_eq n []]
    split
    · simp
    · rw [ih (n/10) (by omega) (digitChar (n % 10) :: acc), ih (n/10) (by omega) [digitChar (n % 10)]]
      simp

theorem isdigit_digitChar (d : Nat) (h : d < 10) : isdigit (digitChar d) = true := by
  have : ∀ d : Fin 10, isdigit (digitChar d.val) = true := by decide
  exact this ⟨d, h⟩

theorem dval_digitChar (d : Nat) (h : d < 10) : dval (digitChar d) = d := by
  have : ∀ d : Fin 10, dval (digitChar d.val) = d.val := by decide
  exact this ⟨d, h⟩

theorem xval_digitChar (d : Nat) (h : d < 10) : xval (digitChar d) = d := by
  have : ∀ d : Fin 10, xval (digitChar d.val) = d.val := by decide
  exact this ⟨d, h⟩

theorem decDigits_all_digit (n : Nat) : ∀ c ∈ decDigitsAux n [], isdigit c = true := by
  induction n using Nat.strongRecOn with
  | _ n ih =>
    rw [decDigitsAux_eq]
    split
    · simp
    · rw [decDigitsAux_acc]
      intro c hc
      simp only [List.mem_append, List.mem_singleton] at hc
      rcases hc with hc | hc
      · exact ih (n/10) (by omega) c hc
      · subst hc; exact isdigit_digitChar _ (by omega)

theorem foldl_digits_start (b : Nat) (y : Bytes) : ∀ a : Nat,
    List.foldl (fun v c => v * b + xval c) a y = a * b ^ y.length + List.foldl (fun v c => v * b + xval c) 0 y := by
  induction y with
  | nil => intro a; simp
  | cons c r ih =>
    intro a
    simp only [List.foldl_cons, List.length_cons]
    rw [ih (a * b + xval c), ih (0 * b + xval c)]
    rw [Nat.pow_succ, Nat.add_mul, Nat.zero_mul, Nat.zero_add, Nat.mul_assoc, Nat.add_assoc, Nat.mul_comm b]

theorem digitsVal_append (b : Nat) (x y : Bytes) :
    digitsVal b (x ++ y) = digitsVal b x * b ^ y.length + digitsVal b y := by
  unfold digitsVal
  rw [List.foldl_append, foldl_digits_start]

theorem digitsVal_decDigits (n : Nat) : digitsVal 10 (decDigitsAux n []) = n := by
  induction n using Nat.strongRecOn with
  | _ n ih =>
    rw [decDigitsAux_eq]
    split
    · next h => subst h; rfl
    · rw [decDigitsAux_acc, digitsVal_append, ih (n/10) (by omega)]
      simp only [List.length_singleton, Nat.pow_one, digitsVal, List.foldl_cons, List.foldl_nil, Nat.zero_mul, Nat.zero_add]
      rw [xval_digitChar _ (by omega)]
      omega

theorem UInt8.forall_of_fin (P : UInt8 → Prop) (h : ∀ n : Fin 256, P (UInt8.ofNat n.val)) : ∀ c, P c := by
  intro c
  have := h ⟨c.toNat, c.toNat_lt⟩
  simpa using this

theorem isdigit_facts (c : UInt8) (h : isdigit c = true) :
    c ≠ 45 ∧ c ≠ 43 ∧ isspace c = false ∧ dval c < 10 ∧ xval c = dval c ∧ digitOk 10 c = true ∧ c ≠ 0 := by
  revert h; revert c
  apply UInt8.forall_of_fin
  decide +kernel

theorem skipSpace_nonspace (c : UInt8) (r : Bytes) (h : isspace c = false) : skipSpace (c :: r) = c :: r := by
  simp [skipSpace, h]

theorem takeDigits_split (base : Nat) : ∀ (s : Bytes) (w : Option Nat),
    s = (takeDigits base s w).1 ++ (takeDigits base s w).2 := by
  intro s
  induction s with
  | nil => intro w; simp [takeDigits]
  | cons c t ih =>
    intro w
    simp only [takeDigits]
    split
    · simp only [List.cons_append, List.cons.injEq, true_and]
      exact ih (wDec w)
    · simp

theorem digitOk10_hd_false (rest : Bytes) (hr : isdigit (hd rest) = false) :
    ∀ w, takeDigits 10 rest w = ([], rest) := by
  intro w
  cases rest with
  | nil => rfl
  | cons c r =>
    simp only [hd] at hr
    simp [takeDigits, digitOk, hr]

theorem takeDigits10 (ds rest : Bytes) (hds : ∀ c ∈ ds, isdigit c = true) (hr : isdigit (hd rest) = false) :
    takeDigits 10 (ds ++ rest) none = (ds, rest) := by
  induction ds with
  | nil => exact digitOk10_hd_false rest hr none
  | cons c r ih =>
    have hc := hds c (by simp)
    obtain ⟨_, _, _, _, _, hok, _⟩ := isdigit_facts c hc
    have := ih (fun x hx => hds x (by simp [hx]))
    simp [takeDigits, wOk, wDec, hok, this]

/-- what is left after a run of decimal digits has been (partly) taken starts with a digit of the
    run or is what follows the run -/
theorem takeDigits10_rest (ds rest : Bytes) (w : Option Nat)
    (hds : ∀ c ∈ ds, isdigit c = true) (hr : isdigit (hd rest) = false) :
    isdigit (hd (takeDigits 10 (ds ++ rest) w).2) = true ∨ (takeDigits 10 (ds ++ rest) w).2 = rest := by
  induction ds generalizing w with
  | nil => right; rw [List.nil_append, digitOk10_hd_false rest hr w]
  | cons c r ih =>
    have hc := hds c (by simp)
    obtain ⟨_, _, _, _, _, hok, _⟩ := isdigit_facts c hc
    simp only [List.cons_append, takeDigits]
    by_cases hw : wOk w = true
    · simp only [hw, hok, Bool.and_self, ↓reduceIte]
      exact ih (wDec w) (fun x hx => hds x (by simp [hx]))
    · left
      simp only [hw, Bool.false_and, Bool.false_eq_true, ↓reduceIte, hd, hc]

@[simp] theorem hd_cons (c : UInt8) (r : Bytes) : hd (c :: r) = c := rfl
@[simp] theorem hd_nil : hd ([] : Bytes) = 0 := rfl

theorem intPrefix_nonzero (b : Nat) (c : UInt8) (r : Bytes) (w : Option Nat) (h : c ≠ 48) :
    intPrefix b (c :: r) w = (false, if b = 0 then 10 else b, c :: r, w) := by
  simp [intPrefix, h]

theorem intPrefix_nil (b : Nat) (w : Option Nat) :
    intPrefix b [] w = (false, if b = 0 then 10 else b, [], w) := by
  simp [intPrefix]

/-- base 10: a leading "0" is read as a digit, an "x" behind it is left alone -/
theorem intPrefix10_zero (r : Bytes) (w : Option Nat) (hw : wOk w = true) :
    intPrefix 10 (48 :: r) w = (true, 10, r, wDec w) := by
  simp only [intPrefix, hw, hd_cons, decide_true, Bool.and_self, List.isEmpty_cons, Bool.not_false,
    ↓reduceIte, List.drop_succ_cons, List.drop_zero, Nat.reduceEqDiff, or_self]
  split <;> rfl

theorem intPrefix10_fst_snd (s : Bytes) (w : Option Nat) :
    (intPrefix 10 s w).2.1 = 10 ∧
    ((intPrefix 10 s w).2.2.1 = s ∨ (intPrefix 10 s w).2.2.1 = s.drop 1) := by
  unfold intPrefix
  split
  · split
    · simp
    · simp
  · simp

/-- unsigned digit string without leading zero, `%d` / `%i` -/
theorem scanInt_digits_pos (conv : IntConv) (hconv : conv ≠ .x) (d : UInt8) (ds rest : Bytes)
    (hd0 : isdigit d = true) (hnz : d ≠ 48)
    (hds : ∀ c ∈ ds, isdigit c = true) (hr : isdigit (hd rest) = false) :
    scanInt conv none (d :: ds ++ rest) =
      some (clampI64 (digitsVal 10 (d :: ds) : Int), rest) := by
  obtain ⟨h45, h43, hsp, _, _, _, _⟩ := isdigit_facts d hd0
  have htd := takeDigits10 (d :: ds) rest (by intro c hc; simp at hc; rcases hc with rfl | hc; exact hd0; exact hds c hc) hr
  simp only [List.cons_append] at htd
  unfold scanInt
  simp only [List.cons_append, skipSpace, hsp, Bool.false_eq_true, ↓reduceIte]
  cases conv with
  | x => exact absurd rfl hconv
  | d => simp [h45, h43, intPrefix_nonzero _ _ _ _ hnz, htd, intValue]
  | i => simp [h45, h43, intPrefix_nonzero _ _ _ _ hnz, htd, intValue]

/-- "-" followed by a digit string without leading zero, `%d` / `%i` -/
theorem scanInt_digits_neg (conv : IntConv) (hconv : conv ≠ .x) (d : UInt8) (ds rest : Bytes)
    (hd0 : isdigit d = true) (hnz : d ≠ 48)
    (hds : ∀ c ∈ ds, isdigit c = true) (hr : isdigit (hd rest) = false) :
    scanInt conv none (45 :: d :: ds ++ rest) =
      some (clampI64 (-(digitsVal 10 (d :: ds) : Int)), rest) := by
  have htd := takeDigits10 (d :: ds) rest (by intro c hc; simp at hc; rcases hc with rfl | hc; exact hd0; exact hds c hc) hr
  simp only [List.cons_append] at htd
  unfold scanInt
  have h45sp : isspace 45 = false := by decide
  simp only [List.cons_append, skipSpace, h45sp, Bool.false_eq_true, ↓reduceIte]
  cases conv with
  | x => exact absurd rfl hconv
  | d => simp [intPrefix_nonzero _ _ _ _ hnz, htd, intValue, wDec]
  | i => simp [intPrefix_nonzero _ _ _ _ hnz, htd, intValue, wDec]

/-- the single digit "0", `%d` -/
theorem scanInt_zero_d (rest : Bytes) (hr : isdigit (hd rest) = false) :
    scanInt .d none (48 :: rest) = some (0, rest) := by
  have htd := digitOk10_hd_false rest hr
  unfold scanInt
  have h48sp : isspace 48 = false := by decide
  simp only [skipSpace, h48sp, Bool.false_eq_true, ↓reduceIte]
  simp [intPrefix10_zero rest none rfl, htd, digitsVal, intValue, clampI64]

/-- `%d` with any field width on a decimal token: what is left starts with a digit of the token
    or is what follows the token -/
theorem scanInt_d_rest (w : Option Nat) (neg : Bool) (d : UInt8) (ds rest : Bytes)
    (hd0 : isdigit d = true) (hds : ∀ c ∈ ds, isdigit c = true) (hr : isdigit (hd rest) = false)
    (v : Int) (r : Bytes)
    (h : scanInt .d w ((if neg then [45] else []) ++ d :: ds ++ rest) = some (v, r)) :
    isdigit (hd r) = true ∨ r = rest := by
  obtain ⟨h45, h43, hsp, _, _, _, _⟩ := isdigit_facts d hd0
  have hall : ∀ c ∈ d :: ds, isdigit c = true := by
    intro c hc; simp at hc; rcases hc with rfl | hc; exact hd0; exact hds c hc
  have A := fun w' => takeDigits10_rest (d :: ds) rest w' hall hr
  have B := fun w' => takeDigits10_rest ds rest w' hds hr
  simp only [List.cons_append] at A
  have key : ∀ w', isdigit (hd (takeDigits (intPrefix 10 (d :: (ds ++ rest)) w').2.1
      (intPrefix 10 (d :: (ds ++ rest)) w').2.2.1 (intPrefix 10 (d :: (ds ++ rest)) w').2.2.2).2) = true ∨
      (takeDigits (intPrefix 10 (d :: (ds ++ rest)) w').2.1
      (intPrefix 10 (d :: (ds ++ rest)) w').2.2.1 (intPrefix 10 (d :: (ds ++ rest)) w').2.2.2).2 = rest := by
    intro w'
    obtain ⟨hb, hs⟩ := intPrefix10_fst_snd (d :: (ds ++ rest)) w'
    rw [hb]
    rcases hs with hs | hs
    · rw [hs]; exact A _
    · rw [hs]; simp only [List.drop_succ_cons, List.drop_zero]; exact B _
  unfold scanInt at h
  cases neg
  · simp only [Bool.false_eq_true, ↓reduceIte, List.nil_append, List.cons_append, skipSpace, hsp] at h
    simp only [h45, h43, decide_false, Bool.or_self, Bool.false_eq_true, ↓reduceIte] at h
    split at h
    · cases h
    · simp only [Option.some.injEq, Prod.mk.injEq] at h
      rw [← h.2]; exact key _
  · have h45sp : isspace 45 = false := by decide
    simp only [↓reduceIte, List.cons_append, List.nil_append, skipSpace, h45sp, Bool.false_eq_true] at h
    simp only [decide_true, Bool.true_or, ↓reduceIte] at h
    split at h
    · cases h
    · simp only [Option.some.injEq, Prod.mk.injEq] at h
      rw [← h.2]; exact key _

theorem decDigits_snoc (n : Nat) (h : n ≠ 0) :
    decDigitsAux n [] = decDigitsAux (n / 10) [] ++ [digitChar (n % 10)] := by
  rw [decDigitsAux_eq n []]
  simp only [h, ↓reduceIte]
  rw [decDigitsAux_acc]

theorem decDigits_zero : decDigitsAux 0 [] = [] := by
  rw [decDigitsAux_eq]; simp

theorem digitChar_ne_zero (d : Nat) (h1 : 0 < d) (h2 : d < 10) : digitChar d ≠ 48 := by
  have : ∀ d : Fin 10, 0 < d.val → digitChar d.val ≠ 48 := by decide
  exact this ⟨d, h2⟩ h1

/-- the digits of a positive number start with a non-zero digit -/
theorem decDigits_head (n : Nat) (h : 0 < n) :
    ∃ d ds, decDigitsAux n [] = d :: ds ∧ isdigit d = true ∧ d ≠ 48 := by
  induction n using Nat.strongRecOn with
  | _ n ih =>
    rw [decDigits_snoc n (by omega)]
    by_cases h10 : n / 10 = 0
    · rw [h10, decDigits_zero]
      refine ⟨digitChar (n % 10), [], rfl, isdigit_digitChar _ (by omega), digitChar_ne_zero _ (by omega) (by omega)⟩
    · obtain ⟨d, ds, he, hd1, hd2⟩ := ih (n / 10) (by omega) (by omega)
      exact ⟨d, ds ++ [digitChar (n % 10)], by rw [he]; rfl, hd1, hd2⟩

/-- the shape of `%d` output -/
theorem fmtDec_shape (v : Int) :
    (v = 0 ∧ fmtDec v = [48]) ∨
    (∃ d ds, isdigit d = true ∧ d ≠ 48 ∧ (∀ c ∈ ds, isdigit c = true) ∧
      fmtDec v = (if v < 0 then [45] else []) ++ d :: ds ∧ digitsVal 10 (d :: ds) = v.natAbs) := by
  by_cases hv : v = 0
  · left; subst hv; exact ⟨rfl, by decide⟩
  · right
    have hn : 0 < v.natAbs := by omega
    obtain ⟨d, ds, he, hd1, hd2⟩ := decDigits_head v.natAbs hn
    refine ⟨d, ds, hd1, hd2, ?_, ?_, ?_⟩
    · intro c hc
      exact decDigits_all_digit v.natAbs c (by rw [he]; simp [hc])
    · unfold fmtDec fmtNat
      have : v.natAbs ≠ 0 := by omega
      simp only [this, ↓reduceIte, he]
      split <;> simp
    · rw [← he]; exact digitsVal_decDigits _

end Rtosc.Libc
