/-
  C12, text level — criteria on the VALUES of an array line for `ArrCutOK` (Proofs/SaveText.lean):
  which arrays, of any length, the printer cuts into plain values, constant runs and int32
  arithmetic runs.

  * `ArrCutOK.cons_tok` / `cons_crun` / `cons_irun`: a cut is extended to the left by a value in front of
    fewer than five cells of its type, by a constant run of `n ≥ 5` covered values in front of a
    different value, by an int32 arithmetic run in front of a value that does not continue it;
  * `arrCutOK_const`, `arrCutOK_arith`: an array that is one constant run / one arithmetic run, of
    any length up to 2^31-1.
-/
import RtoscModel.Proofs.SaveText
set_option linter.unusedSimpArgs false
set_option linter.unusedVariables false
namespace Rtosc.Save.Text
open Rtosc Rtosc.Libc Rtosc.Pretty Rtosc.Save
open Rtosc.ArgVal (Cell)

/-- a finite float compares equal to itself (`rtosc_arg_vals_eq_single` on 'f' is numeric) -/
theorem feq_self_finite (b : UInt32) (h : f32.expField b.toNat ≠ 255) : ArgVal.f32.feq b.toNat b.toNat = true := by
  have hb : b.toNat < 4294967296 := b.toNat_lt
  simp only [FFmt.expField, FFmt.mag, FFmt.signBit, f32] at h
  simp only [ArgVal.FFmt.feq, ArgVal.FFmt.isNaN, ArgVal.FFmt.mag, ArgVal.FFmt.signBit, ArgVal.FFmt.infBits,
    ArgVal.FFmt.expMax, ArgVal.f32, Bool.and_eq_true, Bool.not_eq_true', beq_self_eq_true,
    and_true, and_self]
  norm_num at h ⊢
  omega

/-- a covered value is identical to itself in the sense of `range_args_identical` -/
theorem selfIdentical_cellOfVal (v : Val) (h : ValTextOK v) : SelfIdentical (cellOfVal v) := by
  cases v with
  | int i => exact selfIdentical_int _ _
  | chr c => exact selfIdentical_int _ _
  | flt b => exact selfIdentical_flt b (feq_self_finite b h)
  | bool b => cases b <;> exact selfIdentical_flag _
  | sym s => exact selfIdentical_str _ _
  | str bs => exact selfIdentical_str _ _

theorem cellsAll_scalar_of_arrCut {vs : List Val} {body : List RSeg} (h : ArrCutOK vs body) :
    ∀ x ∈ cellsAll body, x.isScalar = true := by
  intro x hx
  rw [h.1] at hx
  simp only [List.mem_map] at hx
  obtain ⟨v, _, rfl⟩ := hx
  exact cellOfVal_scalar v

/-- a cut is extended to the left by any segment the printer decides on -/
theorem ArrCutOK.cons_seg {vs ws : List Val} {body : List RSeg} {s : RSeg} (h : ArrCutOK vs body)
    (hs : s.cells = ws.map cellOfVal) (hstep : SegStep s (vs.map cellOfVal)) : ArrCutOK (ws ++ vs) (s :: body) := by
  refine ⟨by simp [cellsAll, hs, h.1], .cons s body ?_ h.2⟩
  rw [h.1]; exact hstep

/-- **a value in front of fewer than five cells of its type** (in what is left of the array) is
    printed as it is -/
theorem ArrCutOK.cons_tok {vs : List Val} {body : List RSeg} (h : ArrCutOK vs body) (v : Val)
    (hshort : shortRun (cellOfVal v :: vs.map cellOfVal) = true) :
    ArrCutOK (v :: vs) (.tok (cellOfVal v) :: body) := by
  have := h.cons_seg (ws := [v]) (s := .tok (cellOfVal v)) rfl
    (SegStep.tok_of_short _ _ (by
      intro x hx
      simp only [List.mem_cons, List.mem_map] at hx
      rcases hx with rfl | ⟨w, _, rfl⟩ <;> exact cellOfVal_scalar _) hshort)
  simpa using this

/-- **`n ≥ 5` equal covered values are a constant run** when the element behind them (if any) is not
    identical to them (`range_args_identical`: another type, another value, other float bits) -/
theorem ArrCutOK.cons_crun {vs : List Val} {body : List RSeg} (h : ArrCutOK vs body) (n : Nat) (v : Val)
    (hv : ValTextOK v) (h5 : 5 ≤ n) (h2 : n ≤ 2147483647)
    (hnext : vs = [] ∨ ∀ more, rangeArgsIdentical (cellOfVal v :: more) (vs.map cellOfVal) = .ok false) :
    ArrCutOK (List.replicate n v ++ vs) (.crun n (cellOfVal v) :: body) := by
  refine h.cons_seg (by simp [RSeg.cells]) ?_
  refine SegStep.crun_of_next n _ _ (cellOfVal_scalar v) (selfIdentical_cellOfVal v hv) h5 h2 ?_ ?_
  · intro x hx
    simp only [List.mem_map] at hx
    obtain ⟨w, _, rfl⟩ := hx
    exact cellOfVal_scalar w
  · rcases hnext with rfl | hn
    · exact Or.inl rfl
    · exact Or.inr hn

/-- the int32 values `a, a+d, …, a+(n-1)d` -/
def arithVals (a d : Int) (n : Nat) : List Val := (List.range n).map fun (k : Nat) => Val.int (a + (k : Int) * d)

theorem arithVals_cells (a d : Int) (n : Nat) : (arithVals a d n).map cellOfVal = arithRun a d n := by
  simp [arithVals, arithRun, cellOfVal]

/-- **an int32 arithmetic run of five or more elements is one segment** when it satisfies C10's
    guards (`RunHyp`: step not 0, all elements and the element behind the last one in int32 range,
    width and count in range) and the element behind it (if any) does not continue it -/
theorem ArrCutOK.cons_irun {vs : List Val} {body : List RSeg} (h : ArrCutOK vs body) {a d : Int} {n : Nat}
    (hr : RunHyp a d n)
    (hnext : vs = [] ∨ eqSingle [Cell.int .i (a + (n : Int) * d)] (vs.map cellOfVal) = .ok false) :
    ArrCutOK (arithVals a d n ++ vs) (.irun a d n :: body) := by
  refine h.cons_seg (by simp [RSeg.cells, arithVals_cells]) ?_
  refine SegStep.irun_of_next hr _ ?_ ?_
  · intro x hx
    simp only [List.mem_map] at hx
    obtain ⟨w, _, rfl⟩ := hx
    exact cellOfVal_scalar w
  · rcases hnext with rfl | hn
    · exact Or.inl rfl
    · exact Or.inr hn

theorem arrCutOK_nil : ArrCutOK [] [] := ⟨rfl, .nil⟩

/-- **an array of `n ≥ 5` equal covered values**, of any length -/
theorem arrCutOK_const (n : Nat) (v : Val) (hv : ValTextOK v) (h5 : 5 ≤ n) (h2 : n ≤ 2147483647) :
    ArrCutOK (List.replicate n v) [.crun n (cellOfVal v)] := by
  simpa using arrCutOK_nil.cons_crun n v hv h5 h2 (Or.inl rfl)

/-- **an array that is one int32 arithmetic run**, of any length -/
theorem arrCutOK_arith {a d : Int} {n : Nat} (hr : RunHyp a d n) : ArrCutOK (arithVals a d n) [.irun a d n] := by
  simpa using arrCutOK_nil.cons_irun hr (Or.inl rfl)

end Rtosc.Save.Text
