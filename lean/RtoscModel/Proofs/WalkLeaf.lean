/-
  C09 helper lemmas, part 3: what the pieces of a well-formed name look like, and the two
  leaf cases of `walk_ports` (plain name: `scat`; name with '#': `bundle_foreach`).
-/
import RtoscModel.Proofs.WalkLibc
namespace Rtosc.Walk
open Rtosc Rtosc.Path Rtosc.Match

/-! ### characters -/

theorem textOk_ne {t : Bytes} (h : textOk t = true) : ∀ c ∈ t, c ≠ 0 ∧ c ≠ 35 ∧ c ≠ 58 := by
  intro c hc
  have := litChar_ne (List.all_eq_true.mp h c hc)
  exact ⟨this.1, this.2.1, this.2.2.2.2⟩

theorem textOk_nulfree {t : Bytes} (h : textOk t = true) : NulFree t := fun c hc => (textOk_ne h c hc).1

theorem NulFree.append {a b : Bytes} (ha : NulFree a) (hb : NulFree b) : NulFree (a ++ b) := by
  intro c hc
  rcases List.mem_append.mp hc with h | h
  · exact ha c h
  · exact hb c h

theorem nulFree_nil : NulFree ([] : Bytes) := fun _ h => by simp at h

theorem nulFree_slash : NulFree ([47] : Bytes) := by
  intro c hc; simp at hc; subst hc; decide

theorem nulFree_slashIf (b : Bool) : NulFree (slashIf b) := by
  cases b
  · exact nulFree_nil
  · exact nulFree_slash

/-- the type part is empty or begins with ':' and holds no '#' -/
theorem renderTypeAlts_shape (ts : List Bytes) (hne : ts ≠ []) : ∃ r, renderTypeAlts ts = 58 :: r := by
  cases ts with
  | nil => exact absurd rfl hne
  | cons t r => exact ⟨_, rfl⟩

theorem renderTypes_shape {ty : Option (List Bytes)} (h : typesOk ty = true) :
    renderTypes ty = [] ∨ ∃ r, renderTypes ty = 58 :: r := by
  cases ty with
  | none => exact Or.inl rfl
  | some ts =>
    right
    simp only [typesOk, Bool.and_eq_true, Bool.not_eq_eq_eq_not, Bool.not_true,
      List.isEmpty_eq_false_iff] at h
    exact renderTypeAlts_shape ts h.1

theorem renderTypeAlts_no_hash (ts : List Bytes)
    (h : ts.all (fun t => t.all fun c => tagChar c && c != 35) = true) : ∀ c ∈ renderTypeAlts ts, c ≠ 35 := by
  induction ts with
  | nil => intro c hc; simp [renderTypeAlts] at hc
  | cons t r ih =>
    simp only [List.all_cons, Bool.and_eq_true] at h
    intro c hc
    simp only [renderTypeAlts, List.mem_cons, List.mem_append] at hc
    rcases hc with (rfl | hc) | hc
    · decide
    · have := List.all_eq_true.mp h.1 c hc
      simp only [Bool.and_eq_true, bne_iff_ne, ne_eq] at this
      exact this.2
    · exact ih h.2 c hc

theorem renderTypes_no_hash {ty : Option (List Bytes)} (h : typesOk ty = true) :
    ∀ c ∈ renderTypes ty, c ≠ 35 := by
  cases ty with
  | none => intro c hc; simp [renderTypes] at hc
  | some ts =>
    simp only [typesOk, Bool.and_eq_true] at h
    exact renderTypeAlts_no_hash ts h.2

/-! ### the pieces of `partsOk` -/

theorem partsOk_cons {ds t : Bytes} {r : List (Bytes × Bytes)} (h : partsOk ((ds, t) :: r) = true) :
    numOk ds = true ∧ textOk t = true ∧ startsWithDigit t = false ∧ (t ≠ [] ∨ r = []) ∧ partsOk r = true := by
  cases r with
  | nil =>
    simp only [partsOk, Bool.and_eq_true, Bool.not_eq_eq_eq_not, Bool.not_true] at h
    exact ⟨h.1.1, h.1.2, h.2, Or.inr rfl, rfl⟩
  | cons p r =>
    simp only [partsOk, Bool.and_eq_true, Bool.not_eq_eq_eq_not, Bool.not_true,
      List.isEmpty_eq_false_iff] at h
    exact ⟨h.1.1.1.1, h.1.1.1.2, h.1.1.2, Or.inl h.1.2, h.2⟩

theorem numOk_spec {ds : Bytes} (h : numOk ds = true) :
    ds ≠ [] ∧ (∀ c ∈ ds, Match.isDigit c = true) ∧ decVal ds < 2 ^ 31 := by
  simp only [numOk, Bool.and_eq_true, Bool.not_eq_eq_eq_not, Bool.not_true, List.isEmpty_eq_false_iff,
    decide_eq_true_eq] at h
  exact ⟨h.1.1, fun c hc => List.all_eq_true.mp h.1.2 c hc, h.2⟩

/-- `renderParts` never starts with a digit, and a text that does not either stays so -/
theorem startsWithDigit_append (t x : Bytes) (ht : startsWithDigit t = false)
    (hx : startsWithDigit x = false) : startsWithDigit (t ++ x) = false := by
  cases t with
  | nil => simpa using hx
  | cons c r => simpa [startsWithDigit] using ht

theorem startsWithDigit_renderParts (ps : List (Bytes × Bytes)) : startsWithDigit (renderParts ps) = false := by
  cases ps with
  | nil => rfl
  | cons p r => obtain ⟨ds, t⟩ := p; simp [renderParts, startsWithDigit]; decide

theorem startsWithDigit_slashIf (b : Bool) : startsWithDigit (slashIf b) = false := by
  cases b <;> simp [slashIf, startsWithDigit] <;> decide

theorem startsWithDigit_types {ty : Option (List Bytes)} (h : typesOk ty = true) :
    startsWithDigit (renderTypes ty) = false := by
  rcases renderTypes_shape h with e | ⟨r, e⟩ <;> rw [e] <;> simp [startsWithDigit] <;> decide

/-- text, parts and '/' are NUL-free and hold no ':' -/
theorem renderParts_ne (ps : List (Bytes × Bytes)) (h : partsOk ps = true) :
    ∀ c ∈ renderParts ps, c ≠ 0 ∧ c ≠ 58 := by
  induction ps with
  | nil => intro c hc; simp [renderParts] at hc
  | cons p r ih =>
    obtain ⟨ds, t⟩ := p
    obtain ⟨h1, h2, _, _, h5⟩ := partsOk_cons h
    obtain ⟨_, hd, _⟩ := numOk_spec h1
    intro c hc
    simp only [renderParts, List.mem_cons, List.mem_append] at hc
    rcases hc with ((rfl | hc) | hc) | hc
    · decide
    · have := isDigit_ne (hd c hc); exact ⟨this.1, this.2.2.1⟩
    · have := textOk_ne h2 c hc; exact ⟨this.1, this.2.2⟩
    · exact ih h5 c hc

/-! ### strchr / the copy loops on a name -/

theorem findHash_none (s : Bytes) (h : ∀ c ∈ s, c ≠ 35) : findHash s = none := by
  induction s with
  | nil => rfl
  | cons c r ih =>
    simp [findHash, h c List.mem_cons_self, ih (fun x hx => h x (List.mem_cons_of_mem _ hx))]

theorem findHash_append (s x : Bytes) (h : ∀ c ∈ s, c ≠ 35) : findHash (s ++ 35 :: x) = some s.length := by
  induction s with
  | nil => simp [findHash]
  | cons c r ih =>
    simp [findHash, h c List.mem_cons_self, ih (fun x hx => h x (List.mem_cons_of_mem _ hx))]

theorem bfCopyToHash_spec : ∀ (h x X J : Buf), (∀ c ∈ h, c ≠ 35) → h.length ≤ J.length →
    ∃ J', bfCopyToHash (h ++ 35 :: x) (X ++ J) X.length = .ok (35 :: x, X ++ h ++ J', X.length + h.length) ∧
      J'.length + h.length = J.length := by
  intro h
  induction h with
  | nil => intro x X J _ _; exact ⟨J, by simp [bfCopyToHash], by simp⟩
  | cons c r ih =>
    intro x X J hh hl
    cases J with
    | nil => simp at hl
    | cons d Y =>
      simp only [List.length_cons, Nat.add_le_add_iff_right] at hl
      have hc : c ≠ 35 := hh c List.mem_cons_self
      obtain ⟨J', h1, h2⟩ := ih x (X ++ [c]) Y (fun y hy => hh y (List.mem_cons_of_mem _ hy)) hl
      refine ⟨J', ?_, by simp only [List.length_cons]; omega⟩
      simp only [List.cons_append, bfCopyToHash, hc, ↓reduceIte, wr_at]
      have : X ++ c :: Y = (X ++ [c]) ++ Y := by simp
      rw [this]
      have hl' : (X ++ [c]).length = X.length + 1 := by simp
      have e : X.length + 1 + r.length = X.length + (r.length + 1) := by omega
      rw [← hl', h1]
      simp only [List.append_assoc, List.cons_append, List.nil_append, List.length_append,
        List.length_cons, List.length_nil, e]

/-- `while(to_copy-->0 && *read_head != ':')` on `s ++ tl`: either exactly `s` is to be copied,
    or more but `tl` begins with ':' -/
theorem copyN_spec : ∀ (s tl X J : Buf) (k : Nat), (∀ c ∈ s, c ≠ 58) →
    (k = 0 ∨ ∃ r, tl = 58 :: r) → s.length ≤ J.length →
    ∃ J', copyN (s.length + k) (s ++ tl) (X ++ J) X.length = .ok (tl, X ++ s ++ J', X.length + s.length) ∧
      J'.length + s.length = J.length := by
  intro s
  induction s with
  | nil =>
    intro tl X J k _ hk _
    refine ⟨J, ?_, by simp⟩
    rcases hk with rfl | ⟨r, rfl⟩
    · simp [copyN]
    · cases k <;> simp [copyN]
  | cons c r ih =>
    intro tl X J k hs hk hl
    cases J with
    | nil => simp at hl
    | cons d Y =>
      simp only [List.length_cons, Nat.add_le_add_iff_right] at hl
      have hc : c ≠ 58 := hs c List.mem_cons_self
      obtain ⟨J', h1, h2⟩ := ih tl (X ++ [c]) Y k (fun y hy => hs y (List.mem_cons_of_mem _ hy)) hk hl
      refine ⟨J', ?_, by simp only [List.length_cons]; omega⟩
      have e0 : (c :: r).length + k = (r.length + k) + 1 := by simp only [List.length_cons]; omega
      rw [e0]
      simp only [List.cons_append, copyN, hc, ↓reduceIte, wr_at]
      have : X ++ c :: Y = (X ++ [c]) ++ Y := by simp
      rw [this]
      have hl' : (X ++ [c]).length = X.length + 1 := by simp
      have e : X.length + 1 + r.length = X.length + (r.length + 1) := by omega
      rw [← hl', h1]
      simp only [List.append_assoc, List.cons_append, List.nil_append, List.length_append,
        List.length_cons, List.length_nil, e]

theorem mem_maxLen {l : List Bytes} {a : Bytes} (h : a ∈ l) : a.length ≤ maxLen l := by
  induction l with
  | nil => simp at h
  | cons b r ih =>
    simp only [List.mem_cons] at h
    simp only [maxLen]
    rcases h with rfl | h
    · omega
    · have := ih h; omega

end Rtosc.Walk
