/-
  C10 — `scanf_fmtstr` tries its numeric formats in a fixed order and takes the first one that
  consumes exactly the numeric word.  Two neighbouring tries that can never both do so may be
  swapped without changing any answer.  Proved here for the one such pair of neighbours,
  "%*lfd%n" / "%*ff%n" (a word that ends in 'd' resp. in 'f'), so that `tryOrder_agrees`
  (Props/C10Tables.lean) accepts both orders of the source.
-/
import RtoscModel.Pretty.Lex
namespace Rtosc.Pretty
open Rtosc Rtosc.Libc

theorem strtodMag_isSome (F G : FFmt) (buf : Bytes) : (strtodMag F buf).isSome = (strtodMag G buf).isSome := by
  unfold strtodMag
  grind

theorem strtodMag_none_iff (F G : FFmt) (buf : Bytes) : strtodMag F buf = none ↔ strtodMag G buf = none := by
  have h := strtodMag_isSome F G buf
  cases h1 : strtodMag F buf <;> cases h2 : strtodMag G buf <;> simp_all

/-- the text a float conversion leaves is the same for `%f` and `%lf` -/
theorem scanFloat_rest (s : Bytes) :
    (scanFloat f32 s).map Prod.snd = (scanFloat f64 s).map Prod.snd := by
  unfold scanFloat
  simp only []
  repeat' split
  all_goals first | rfl | (have := strtodMag_none_iff f32 f64; grind)

/-- with an empty numeric word, "%*lih%n" or "%*ii%n" "matches" (both cannot succeed) -/
theorem tryH_or_tryII_zero (s : Bytes) :
    scanRd NumFmt.h.tryDirs s = 0 ∨ scanRd NumFmt.ii.tryDirs s = 0 := by
  simp only [NumFmt.tryDirs, scanRd, sscanf, sscanfGo]
  cases scanInt .i none s with
  | none => left; rfl
  | some p =>
    obtain ⟨v, r⟩ := p
    cases r with
    | nil => left; rfl
    | cons x r' =>
      by_cases hx : x = 104
      · right; subst hx; simp
      · left; simp [hx]

/-- "%*lfd%n" and "%*ff%n" never both consume the same non-empty word: it ends in 'd' resp. 'f' -/
theorem tryLfd_tryFf_exclusive (s : Bytes) (n : Nat) (hn : n ≠ 0)
    (h1 : scanRd NumFmt.lfd.tryDirs s = n) (h2 : scanRd NumFmt.ff.tryDirs s = n) : False := by
  have hr := scanFloat_rest s
  simp only [NumFmt.tryDirs, scanRd, sscanf, sscanfGo, Bool.false_eq_true, ↓reduceIte] at h1 h2
  cases hf : scanFloat f32 s with
  | none => rw [hf] at h2; simp at h2; omega
  | some p =>
    cases hd : scanFloat f64 s with
    | none => rw [hd] at h1; simp at h1; omega
    | some q =>
      obtain ⟨b, r⟩ := p
      obtain ⟨b', r'⟩ := q
      rw [hf, hd] at hr
      simp only [Option.map_some, Option.some.injEq] at hr
      subst hr
      rw [hf] at h2; rw [hd] at h1
      cases r with
      | nil => simp at h1; omega
      | cons x t =>
        simp only at h1 h2
        by_cases hx : x = 100
        · subst hx; simp at h2; omega
        · simp [hx] at h1; omega

/-- **the two mutually exclusive tries may be swapped**: `scanf_fmtstr` gives the same answer when
    "%*ff%n" is tried before "%*lfd%n" -/
theorem scanfFmtstr_swap_lfd_ff (s : Bytes) :
    scanfFmtstr s =
      [NumFmt.h, .d, .ii, .x, .ff, .lfd, .f].find? (fun nf => scanRd nf.tryDirs s = numWordLen s) := by
  unfold scanfFmtstr
  have hA := tryH_or_tryII_zero s
  have hB := tryLfd_tryFf_exclusive s (numWordLen s)
  simp only [List.find?_cons]
  by_cases h0 : numWordLen s = 0
  · rcases hA with h | h
    · simp [h, h0]
    · by_cases hh : scanRd NumFmt.h.tryDirs s = 0
      · simp [hh, h0]
      · by_cases hd : scanRd NumFmt.d.tryDirs s = 0
        · simp [hh, hd, h0]
        · simp [hh, hd, h, h0]
  · by_cases p1 : scanRd NumFmt.lfd.tryDirs s = numWordLen s
    · by_cases p2 : scanRd NumFmt.ff.tryDirs s = numWordLen s
      · exact (hB h0 p1 p2).elim
      · simp [p1, p2]
    · simp [p1]
end Rtosc.Pretty
