/-
  C10 — tier 3, compressed runs in context (2): the syntax checker.

  `rtosc_skip_next_printed_arg` on a range `x ... z` inspects the text of the previous argument
  (`llhssrc`): `CheckL ll0 tail c` says what it finds there (the value `c`), for the three kinds of
  previous arguments the printer writes (a token, `nxT`, a range).  Then the loop of
  `rtosc_count_printed_arg_vals` over a text of segments (`countLoop_segs`).
-/
import RtoscModel.Proofs.PrettyRunsExtScan
set_option linter.unusedSimpArgs false
set_option linter.unusedVariables false
namespace Rtosc.Pretty
open Rtosc Rtosc.Libc
open Rtosc.ArgVal (Cell)

/-! ### no token of a scalar value looks like a range multiplier -/

theorem nomult_of_tokOK {t : Bytes} {c : Cell} (htok : TokOK t c) (rest : Bytes) (hS : Sep rest) :
    isRangeMultiplier (t ++ rest) = false := by
  obtain ⟨r, hr, _⟩ := htok.skip rest 0 0 none false hS
  cases h : isRangeMultiplier (t ++ rest) with
  | false => rfl
  | true =>
    exfalso
    have hd0 : isdigit (hd (t ++ rest)) = true := by
      simp only [isRangeMultiplier, Bool.and_eq_true] at h
      exact h.1.1
    unfold skipNextPrintedArg at hr
    rw [skipValue_mult _ _ _ _ hd0 h] at hr
    simp [skipMultiplier, skipNextPrintedArg, bind, Except.bind] at hr

/-! ### `nxT` followed by more text -/

theorem skipNext_runG (n : Nat) (hn : 1 ≤ n) (t : Bytes) (c : Cell) (htok : TokOK t c) (hsc : c.isScalar = true)
    (fuel : Nat) (ty : UInt8) (llhs : Option Bytes) (fe ib : Bool) (rest : Bytes) (hrest : Sep rest) :
    skipNextPrintedArg (fuel + 2) (runText n t ++ rest) ty llhs fe ib = .ok ⟨some rest, 2, 45⟩ := by
  obtain ⟨r, hr, hsrc, hsk, hty⟩ := htok.skip rest fuel 0 none ib hrest
  have hr' := skipNext_noEllipsis fuel (t ++ rest) 0 none none ib r hr (by rw [hsrc]; simp)
    (by rw [hty]; exact scalar_type_ne_range c hsc)
  have h3 := hrest.2.2
  rw [runText_append]
  unfold skipNextPrintedArg
  rw [skipValue_mult _ _ _ _ (hd_mult n hn (t ++ rest)) (isRangeMultiplier_mult n hn (t ++ rest))]
  unfold skipMultiplier
  simp only [afterX_mult n hn (t ++ rest), hr', bind, Except.bind, hsrc, hsk, pure, Except.pure, h3]
  simp

/-! ### what the checker finds left of a range -/

/-- the text `rtosc_skip_next_printed_arg` takes for the left neighbour of a range: `ll0` is
    `llhssrc`, `a0` what follows its first value, `tail` the text behind the range's "..." -/
def pickLl1 (ll0 a0 tail : Bytes) : Bytes :=
  if (skipSpace a0).length > (46 :: 46 :: 46 :: tail).length ∧ startsWith (skipSpace a0) [46, 46, 46] = true then
    skipSpace (List.drop 3 (skipSpace a0))
  else if isRangeMultiplier ll0 = true then afterX ll0 else ll0

/-- in the text `ll0` of the previous argument the checker finds the value `c` -/
def CheckL (ll0 tail : Bytes) (c : Cell) : Prop :=
  ∀ (f : Nat) (ib : Bool), ∃ (ra : SkipRes) (a0 : Bytes) (rl : SkipRes),
    skipNextPrintedArg (f + 2) ll0 0 none false ib = .ok ra ∧ ra.src = some a0 ∧
    skipNextPrintedArg (f + 2) (pickLl1 ll0 a0 tail) 0 none false ib = .ok rl ∧ rl.type = c.type ∧
    (typesMatch c.type 105 = true → scanOne (pickLl1 ll0 a0 tail) = .ok c)

/-- **`rtosc_skip_next_printed_arg` on `x ... z`** followed by more text, with any previous
    argument: three cells, provided `delta_from_arg_vals` succeeds -/
theorem skipNext_ellG (f : Nat) (x z : Int) (hx1 : -2147483648 ≤ x) (hx2 : x ≤ 2147483647)
    (hz1 : -2147483648 ≤ z) (hz2 : z ≤ 2147483647) (sep : Bytes) (hsep : IsSepTxt sep) (rest : Bytes) (hrest : SepW rest)
    (ty : UInt8) (ib : Bool) (llhs : Option Bytes) (L : Option Cell)
    (hll : (llhs = none ∧ L = none) ∨
      ∃ ll0 c, llhs = some ll0 ∧ L = some c ∧ CheckL ll0 (sep ++ (fmtDec z ++ rest)) c)
    (useless : Bool) (hu : UselessFor L x useless) (num : Int) (dl : Cell)
    (hdelta : deltaFromArgVals (if useless then none else L) (Cell.int .i x) (some (Cell.int .i z)) useless = .ok (num, dl))
    (hnum : num ≠ -1) :
    skipNextPrintedArg (f + 3) (fmtDec x ++ ellRest sep (fmtDec z ++ rest)) ty llhs true ib = .ok ⟨some rest, 3, 45⟩ := by
  have hZs := tokStart_fmtDec z hz1 hz2
  obtain ⟨hW, hsk1, hsk2⟩ := ellRest_factsG sep (fmtDec z) rest hsep hZs
  have h93 : hd (fmtDec z ++ rest) ≠ 93 := (tokStart_append_ri _ rest hZs).2.2.2.2.2.2.2
  have hrsk := skipNext_int_noell (f + 1) z hz1 hz2 rest hrest 120 none ib
  have hrsc := scanOne_int z hz1 hz2 rest hrest
  have hlsc := scanOne_int x hx1 hx2 _ hW
  have hnm := nomult_int x hx1 hx2 _ hW
  unfold skipNextPrintedArg
  simp only [skipValue_intW _ x _ hW ty ib hx1 hx2, bind, Except.bind, hsk1, startsWith, List.cons_append,
    List.nil_append, List.isPrefixOf, BEq.rfl, Bool.and_self, and_self, ↓reduceIte]
  unfold ellipsisTail
  rcases hll with ⟨rfl, rfl⟩ | ⟨ll0, c, rfl, rfl, hck⟩
  · have hu' : useless = true := hu
    subst hu'
    simp only [↓reduceIte] at hdelta
    simp only [List.drop_succ_cons, List.drop_zero, hsk2, hnm, Bool.false_eq_true, ↓reduceIte, ne_eq,
      not_true_eq_false, show numericRangeTypes.contains (105 : UInt8) = true from by decide, or_true, h93,
      Bool.not_true, hrsk, hrsc, hlsc, hdelta, hnum, bind, Except.bind, pure, Except.pure, true_or, and_true,
      decide_true]
    rfl
  · obtain ⟨ra, a0, rl, h1, h2, h3, h4, h5⟩ := hck f ib
    have hpick : (if (skipSpace a0).length > (46 :: 46 :: 46 :: (sep ++ (fmtDec z ++ rest))).length ∧
          startsWith (skipSpace a0) [46, 46, 46] = true then skipSpace (List.drop 3 (skipSpace a0))
        else if isRangeMultiplier ll0 = true then afterX ll0 else ll0) = pickLl1 ll0 a0 (sep ++ (fmtDec z ++ rest)) := rfl
    rcases hu with ⟨hty, rfl⟩ | ⟨p, rfl, rfl⟩
    · simp only [↓reduceIte] at hdelta
      simp only [List.drop_succ_cons, List.drop_zero, hsk2, hnm, Bool.false_eq_true, ↓reduceIte, ne_eq,
        not_true_eq_false, show numericRangeTypes.contains (105 : UInt8) = true from by decide, or_true, h93,
        Bool.not_true, hrsk, hrsc, hlsc, bind, Except.bind, pure, Except.pure,
        decide_true, h1, h2, Option.map_some, hpick, h3, h4, hty, and_false, hdelta, hnum, true_or, and_true]
      rfl
    · have hsc1 := h5 rfl
      by_cases hpx : p = x
      · subst hpx
        simp only [decide_true, ↓reduceIte] at hdelta
        simp only [List.drop_succ_cons, List.drop_zero, hsk2, hnm, Bool.false_eq_true, ↓reduceIte, ne_eq,
          not_true_eq_false, show numericRangeTypes.contains (105 : UInt8) = true from by decide, or_true, h93,
          Bool.not_true, hrsk, hrsc, hlsc, bind, Except.bind, pure, Except.pure,
          decide_true, h1, h2, Option.map_some, hpick, h3, h4, type_int_i, show typesMatch 105 105 = true from by decide,
          and_self, hsc1, cmpCell_int, cmp3_self, delta_llhs_irrel, hdelta, hnum, true_or, and_true]
        rfl
      · have hc0 := cmp3_ne p x hpx
        simp only [hpx, decide_false, Bool.false_eq_true, ↓reduceIte] at hdelta
        simp only [List.drop_succ_cons, List.drop_zero, hsk2, hnm, Bool.false_eq_true, ↓reduceIte, ne_eq,
          not_true_eq_false, show numericRangeTypes.contains (105 : UInt8) = true from by decide, or_true, h93,
          Bool.not_true, hrsk, hrsc, hlsc, bind, Except.bind, pure, Except.pure,
          decide_true, h1, h2, Option.map_some, hpick, h3, h4, type_int_i, show typesMatch 105 105 = true from by decide,
          and_self, hsc1, cmpCell_int, hc0, hdelta, hnum, or_self, and_false]
        rfl

/-! ### the three kinds of previous arguments -/

theorem scanOne_of_scan (s : Bytes) (k : Nat) (c : Cell) (hsc : c.isScalar = true) (hint : typesMatch c.type 105 = true)
    (h : scanArgVal (s.length + 2) s [] 0 false = .ok (k, [c])) : scanOne s = .ok c := by
  obtain ⟨p, rfl⟩ := typesMatch_105 c hint
  unfold scanOne
  simp [h, bind, Except.bind]

/-- a token in front of the range -/
theorem checkL_tok {t : Bytes} {c : Cell} (htok : TokOK t c) (hsc : c.isScalar = true) (sp cur tail : Bytes)
    (hsp : IsSepTxt sp) (hcur : TokStart cur) : CheckL (t ++ (sp ++ cur)) tail c := by
  intro f ib
  have hS := sep_of_next sp cur hsp hcur
  obtain ⟨r, hr, hsrc, hsk, hty⟩ := htok.skip (sp ++ cur) (f + 1) 0 none ib hS
  have hr' := skipNext_noEllipsis (f + 1) (t ++ (sp ++ cur)) 0 none none ib r hr (by rw [hsrc]; simp)
    (by rw [hty]; exact scalar_type_ne_range c hsc)
  have hpick : pickLl1 (t ++ (sp ++ cur)) (sp ++ cur) tail = t ++ (sp ++ cur) := by
    unfold pickLl1
    rw [skipSpace_sep sp cur hsp hcur, startsWith_ell_of_tokStart cur hcur, nomult_of_tokOK htok _ hS]
    simp
  refine ⟨r, sp ++ cur, r, hr', hsrc, by rw [hpick]; exact hr', hty, ?_⟩
  intro hint
  rw [hpick]
  apply scanOne_of_scan _ t.length c hsc hint
  apply scanArgVal_noEllipsis
  exact htok.scan (sp ++ cur) _ [] 0 hS

/-- `nxT` in front of the range -/
theorem checkL_crun (n : Nat) (hn : 1 ≤ n) {t : Bytes} {c : Cell} (htok : TokOK t c) (hsc : c.isScalar = true)
    (sp cur tail : Bytes) (hsp : IsSepTxt sp) (hcur : TokStart cur) : CheckL (runText n t ++ (sp ++ cur)) tail c := by
  intro f ib
  have hS := sep_of_next sp cur hsp hcur
  obtain ⟨r, hr, hsrc, hsk, hty⟩ := htok.skip (sp ++ cur) (f + 1) 0 none ib hS
  have hr' := skipNext_noEllipsis (f + 1) (t ++ (sp ++ cur)) 0 none none ib r hr (by rw [hsrc]; simp)
    (by rw [hty]; exact scalar_type_ne_range c hsc)
  have hpick : pickLl1 (runText n t ++ (sp ++ cur)) (sp ++ cur) tail = t ++ (sp ++ cur) := by
    unfold pickLl1
    rw [skipSpace_sep sp cur hsp hcur, startsWith_ell_of_tokStart cur hcur, runText_append,
      isRangeMultiplier_mult n hn, afterX_mult n hn]
    simp
  refine ⟨⟨some (sp ++ cur), 2, 45⟩, sp ++ cur, r, skipNext_runG n hn t c htok hsc f 0 none false ib _ hS, rfl,
    by rw [hpick]; exact hr', hty, ?_⟩
  intro hint
  rw [hpick]
  apply scanOne_of_scan _ t.length c hsc hint
  apply scanArgVal_noEllipsis
  exact htok.scan (sp ++ cur) _ [] 0 hS

/-- a range `x' ... z'` in front of the range: its last value -/
theorem checkL_ell (x' z' : Int) (hx1 : -2147483648 ≤ x') (hx2 : x' ≤ 2147483647) (hz1 : -2147483648 ≤ z')
    (hz2 : z' ≤ 2147483647) (sp' : Bytes) (hsp' : IsSepTxt sp') (sp cur tail : Bytes) (hsp : IsSepTxt sp)
    (hcur : TokStart cur) (hlen : tail.length ≤ cur.length) :
    CheckL (fmtDec x' ++ ellRest sp' (fmtDec z' ++ (sp ++ cur))) tail (Cell.int .i z') := by
  intro f ib
  have hS := sep_of_next sp cur hsp hcur
  obtain ⟨hW, hsk1, hsk2⟩ := ellRest_factsG sp' (fmtDec z') (sp ++ cur) hsp' (tokStart_fmtDec z' hz1 hz2)
  have hpick : pickLl1 (fmtDec x' ++ ellRest sp' (fmtDec z' ++ (sp ++ cur))) (ellRest sp' (fmtDec z' ++ (sp ++ cur))) tail =
      fmtDec z' ++ (sp ++ cur) := by
    unfold pickLl1
    rw [hsk1]
    have hgt : ([46, 46, 46] ++ (sp' ++ (fmtDec z' ++ (sp ++ cur)))).length > (46 :: 46 :: 46 :: tail).length := by
      have : 1 ≤ sp.length := by rcases hsp with rfl | rfl <;> simp
      simp only [List.length_append, List.length_cons, List.length_nil]
      omega
    have hsw : startsWith ([46, 46, 46] ++ (sp' ++ (fmtDec z' ++ (sp ++ cur)))) [46, 46, 46] = true := by
      simp [startsWith, List.isPrefixOf]
    rw [if_pos ⟨hgt, hsw⟩]
    simpa using hsk2
  refine ⟨⟨some (ellRest sp' (fmtDec z' ++ (sp ++ cur))), 1, 105⟩, _, ⟨some (sp ++ cur), 1, 105⟩,
    skipNext_int_noell (f + 1) x' hx1 hx2 _ hW 0 none ib, rfl, ?_, rfl, ?_⟩
  · rw [hpick]; exact skipNext_int_noell (f + 1) z' hz1 hz2 _ hS.toW 0 none ib
  · intro _
    rw [hpick]; exact scanOne_int z' hz1 hz2 _ hS.toW

/-! ### the checker's loop -/

/-- one argument in the loop of `rtosc_count_printed_arg_vals` -/
theorem countLoop_one (T sep text : Bytes) (hT : TokStart T) (htail : Tail sep text) (f : Nat) (recent : Option Bytes)
    (num k : Int) (ty : UInt8)
    (hskip : skipNextPrintedArg ((T ++ (sep ++ text)).length + 2) (T ++ (sep ++ text)) 0 recent true false =
      .ok ⟨some (sep ++ text), k, ty⟩) :
    countLoop (f + 1) (some (T ++ (sep ++ text))) recent num =
      countLoop f (some text) (some (T ++ (sep ++ text))) (num + k) := by
  have hskip := skipNextPrintedArg_checkFuel hskip
  obtain ⟨hne, _, h0, _, _, _, h47, _⟩ := hT
  have hhd : hd (T ++ (sep ++ text)) = hd T := hd_append_of_ne_nil _ _ hne
  have hpos : 0 < T.length := List.length_pos_iff.mpr hne
  have hprog : ¬ (text.length ≥ (T ++ (sep ++ text)).length) := by
    simp only [List.length_append]; omega
  rw [countLoop]
  rcases htail with ⟨rfl, rfl⟩ | ⟨hsep, hstart⟩
  · simp only [List.append_nil] at *
    simp only [hhd, h0, h47, ne_eq, not_false_eq_true, and_self, ↓reduceIte, hskip, bind, Except.bind,
      skipSpace, hd_nil, not_true_eq_false, pure, Except.pure, List.length_nil, ge_iff_le, Nat.le_zero_eq,
      show ¬ (T.length = 0) from by omega]
  · have h0' : hd text ≠ 0 := hstart.2.2.1
    have h37 : hd text ≠ 37 := hstart.2.2.2.2.2.1
    simp only [hhd, h0, h47, ne_eq, not_false_eq_true, and_self, ↓reduceIte, hskip, bind, Except.bind,
      skipSpace_sep sep text hsep hstart, h0', skipCommentLines_none _ text h37, pure, Except.pure, ge_iff_le]
    simp only [ge_iff_le] at hprog
    simp only [hprog, ↓reduceIte]

/-- what the checker knows in front of the text `cur`: nothing, or the previous argument's text -/
def CheckInv (L : Option Cell) (recent : Option Bytes) (cur : Bytes) : Prop :=
  match L with
  | none => recent = none
  | some c => ∃ ll0, recent = some ll0 ∧ (TokStart cur → ∀ tail : Bytes, tail.length ≤ cur.length → CheckL ll0 tail c)

theorem checkInv_hll {L : Option Cell} {recent : Option Bytes} {cur : Bytes} (h : CheckInv L recent cur)
    (hcur : TokStart cur) (tail : Bytes) (hlen : tail.length ≤ cur.length) :
    (recent = none ∧ L = none) ∨ ∃ ll0 c, recent = some ll0 ∧ L = some c ∧ CheckL ll0 tail c := by
  cases L with
  | none => exact Or.inl ⟨h, rfl⟩
  | some c =>
    obtain ⟨ll0, h1, h2⟩ := h
    exact Or.inr ⟨ll0, c, h1, rfl, h2 hcur tail hlen⟩

theorem Tail.cur {sep text : Bytes} (h : Tail sep text) (hcur : TokStart text) : IsSepTxt sep := by
  rcases h with ⟨_, rfl⟩ | ⟨h, _⟩
  · exact absurd rfl hcur.1
  · exact h

theorem ellRest_length (sep Z : Bytes) : (ellRest sep Z).length = 4 + sep.length + Z.length := by
  simp [ellRest]; omega

/-- **one segment in the loop of `rtosc_count_printed_arg_vals`** -/
theorem countLoop_seg {L : Option Cell} {s : RSeg} {T : Bytes} (hT : SegText L s T) (sep text : Bytes)
    (htail : Tail sep text) (recent : Option Bytes) (hinv : CheckInv L recent (T ++ (sep ++ text))) (f : Nat) (num : Int) :
    ∃ recent', countLoop (f + s.nargs L) (some (T ++ (sep ++ text))) recent num =
        countLoop f (some text) recent' (num + ((s.scanned L).length : Nat)) ∧
      CheckInv (some s.last) recent' text := by
  have hS := htail.sep
  have hTs := hT.start
  cases hT with
  | tok t c ht hsc =>
    obtain ⟨r, hr, hsrc, hsk, hty⟩ := ht.skip (sep ++ text) ((T ++ (sep ++ text)).length + 1) 0 recent false hS
    refine ⟨some (T ++ (sep ++ text)), ?_, ?_⟩
    · simp only [RSeg.nargs, RSeg.scanned, List.length_singleton]
      have := countLoop_one T sep text hTs htail f recent num 1 c.type (by
        rw [hr]; cases r; simp_all)
      simpa using this
    · exact ⟨_, rfl, fun hcur tail _ => checkL_tok ht hsc sep text tail (htail.cur hcur) hcur⟩
  | crun m t c ht hsc hm1 hm2 =>
    refine ⟨some (runText m t ++ (sep ++ text)), ?_, ?_⟩
    · simp only [RSeg.nargs, RSeg.scanned, List.length_cons, List.length_nil]
      have := countLoop_one (runText m t) sep text hTs htail f recent num 2 45
        (skipNext_runG m hm1 t c ht hsc _ 0 recent true false _ hS)
      simpa using this
    · exact ⟨_, rfl, fun hcur tail _ => checkL_crun m hm1 ht hsc sep text tail (htail.cur hcur) hcur⟩
  | short a d m sp h hsf hsp =>
    obtain ⟨hu, hnc⟩ := shortForm_unit hsf
    have hn := h.hn
    have hn32 := h.hn32
    have e : fmtDec a ++ ellRest sp (fmtDec (zOf a d m)) ++ (sep ++ text) =
        fmtDec a ++ ellRest sp (fmtDec (zOf a d m) ++ (sep ++ text)) := by
      rw [List.append_assoc, ellRest_append]
    refine ⟨some (fmtDec a ++ ellRest sp (fmtDec (zOf a d m)) ++ (sep ++ text)), ?_, ?_⟩
    · simp only [RSeg.nargs, RSeg.scanned, hsf, ↓reduceIte, List.length_cons, List.length_nil]
      have hll := checkInv_hll hinv (tokStart_append_ri _ _ hTs) (sp ++ (fmtDec (zOf a d m) ++ (sep ++ text))) (by
        rw [e]; simp only [List.length_append, ellRest_length]; omega)
      have hskip := skipNext_ellG ((fmtDec a ++ ellRest sp (fmtDec (zOf a d m)) ++ (sep ++ text)).length - 1)
        a (zOf a d m) h.r0.1 h.r0.2 h.rz.1 h.rz.2 sp hsp (sep ++ text) hS.toW 0 false recent L hll true
        (uselessFor_of_not_confusing L a hnc) m (Cell.int .i d) (by simpa [zOf] using delta_run_unit h hu) (by omega)
      have hlen : (fmtDec a ++ ellRest sp (fmtDec (zOf a d m)) ++ (sep ++ text)).length - 1 + 3 =
          (fmtDec a ++ ellRest sp (fmtDec (zOf a d m)) ++ (sep ++ text)).length + 2 := by
        have := List.length_pos_iff.mpr (tokStart_append_ri _ (sep ++ text) hTs).1
        omega
      rw [hlen, ← e] at hskip
      have := countLoop_one _ sep text hTs htail f recent num 3 45 hskip
      simpa using this
    · refine ⟨_, rfl, fun hcur tail hlen => ?_⟩
      rw [e]
      exact checkL_ell a (zOf a d m) h.r0.1 h.r0.2 h.rz.1 h.rz.2 sp hsp sep text tail (htail.cur hcur) hcur hlen
  | long a d m sp h hsf hsp =>
    have hn := h.hn
    have hn32 := h.hn32
    have hne : a ≠ a + d := by have := h.hd; omega
    -- the text behind the first token
    generalize hT2 : fmtDec (a + d) ++ ellRest sp (fmtDec (zOf a d m)) = T2 at *
    have hT2s : TokStart T2 := by rw [← hT2]; exact tokStart_append_ri _ _ (tokStart_fmtDec _ h.r1.1 h.r1.2)
    have e1 : fmtDec a ++ ([32] ++ T2) ++ (sep ++ text) = fmtDec a ++ ([32] ++ (T2 ++ (sep ++ text))) := by
      simp [List.append_assoc]
    have e2 : T2 ++ (sep ++ text) = fmtDec (a + d) ++ ellRest sp (fmtDec (zOf a d m) ++ (sep ++ text)) := by
      rw [← hT2, List.append_assoc, ellRest_append]
    have hstart2 : TokStart (T2 ++ (sep ++ text)) := tokStart_append_ri _ _ hT2s
    have htail1 : Tail [32] (T2 ++ (sep ++ text)) := Or.inr ⟨Or.inl rfl, hstart2⟩
    have hta := tokOK_int a h.r0.1 h.r0.2
    obtain ⟨r, hr, hsrc, hsk, hty⟩ := hta.skip ([32] ++ (T2 ++ (sep ++ text)))
      ((fmtDec a ++ ([32] ++ (T2 ++ (sep ++ text)))).length + 1) 0 recent false htail1.sep
    have h1 := countLoop_one (fmtDec a) [32] (T2 ++ (sep ++ text)) hta.start htail1 (f + 1) recent num 1 105 (by
      rw [hr]; cases r; simp_all [type_int_i])
    have hck : CheckL (fmtDec a ++ ([32] ++ (T2 ++ (sep ++ text)))) (sp ++ (fmtDec (zOf a d m) ++ (sep ++ text)))
        (Cell.int .i a) := checkL_tok hta rfl [32] _ _ (Or.inl rfl) hstart2
    have hskip := skipNext_ellG ((T2 ++ (sep ++ text)).length - 1)
      (a + d) (zOf a d m) h.r1.1 h.r1.2 h.rz.1 h.rz.2 sp hsp (sep ++ text) hS.toW 0 false
      (some (fmtDec a ++ ([32] ++ (T2 ++ (sep ++ text))))) (some (Cell.int .i a))
      (Or.inr ⟨_, _, rfl, rfl, hck⟩) false (Or.inr ⟨a, rfl, by simp [hne]⟩) ((m : Int) - 1) (Cell.int .i d)
      (by simpa [zOf] using delta_run_step h) (by omega)
    have hlen : (T2 ++ (sep ++ text)).length - 1 + 3 = (T2 ++ (sep ++ text)).length + 2 := by
      have := List.length_pos_iff.mpr hstart2.1
      omega
    rw [hlen, ← e2] at hskip
    have h2 := countLoop_one T2 sep text hT2s htail f (some (fmtDec a ++ ([32] ++ (T2 ++ (sep ++ text))))) (num + 1) 3 45
      hskip
    refine ⟨some (T2 ++ (sep ++ text)), ?_, ?_⟩
    · simp only [RSeg.nargs, RSeg.scanned, hsf, Bool.false_eq_true, ↓reduceIte, List.length_cons, List.length_nil]
      rw [e1, show f + 2 = (f + 1) + 1 from rfl, h1, h2]
      congr 1
      omega
    · refine ⟨_, rfl, fun hcur tail hlen => ?_⟩
      rw [e2]
      exact checkL_ell (a + d) (zOf a d m) h.r1.1 h.r1.2 h.rz.1 h.rz.2 sp hsp sep text tail (htail.cur hcur) hcur hlen

/-- the loop of `rtosc_count_printed_arg_vals` counts the scanned cells of a text of segments -/
theorem countLoop_segs {L : Option Cell} {segs : List RSeg} {text : Bytes} (h : SegsText L segs text) :
    ∀ (f : Nat) (recent : Option Bytes) (num : Int), CheckInv L recent text → nargsAll L segs + 1 ≤ f →
      countLoop f (some text) recent num = .ok (num + ((scannedAll L segs).length : Nat)) := by
  induction h with
  | nil L =>
    intro f recent num _ hf
    obtain ⟨g, rfl⟩ : ∃ g, f = g + 1 := ⟨f - 1, by omega⟩
    simp [countLoop, scannedAll]
  | cons L s segs T sep text hT hrest h1 h2 ih =>
    intro f recent num hinv hf
    have htail := hrest.tail h1 h2
    simp only [nargsAll] at hf
    obtain ⟨g, rfl⟩ : ∃ g, f = g + s.nargs L := ⟨f - s.nargs L, by omega⟩
    obtain ⟨recent', hstep, hinv'⟩ := countLoop_seg hT sep text htail recent hinv g num
    rw [hstep, ih g recent' _ hinv' (by omega)]
    simp only [scannedAll, List.length_append, Int.natCast_add]
    congr 1
    omega

/-- **`rtosc_count_printed_arg_vals` on a text of segments** -/
theorem countPrintedArgVals_segs {segs : List RSeg} {text : Bytes} (h : SegsText none segs text) :
    countPrintedArgVals text = .ok ((scannedAll none segs).length : Int) := by
  unfold countPrintedArgVals
  by_cases hne : segs = []
  · subst hne
    cases h
    simp [skipSpace, skipCommentLines, countLoop, bind, Except.bind, scannedAll]
  · have hstart := h.start hne
    have h37 : hd text ≠ 37 := hstart.2.2.2.2.2.1
    simp only [skipSpace_tokStart text hstart, skipCommentLines_none _ text h37, bind, Except.bind]
    have hle : nargsAll none segs ≤ text.length := by
      have key : ∀ {L : Option Cell} {segs : List RSeg} {text : Bytes}, SegsText L segs text → nargsAll L segs ≤ text.length := by
        intro L segs text h
        induction h with
        | nil => simp [nargsAll]
        | cons L s segs T sep text hT _ _ _ ih =>
          have : s.nargs L ≤ T.length := by
            cases hT with
            | tok t c ht _ => have := List.length_pos_iff.mpr ht.start.1; simp [RSeg.nargs]; omega
            | crun m t c ht _ hm _ => have := List.length_pos_iff.mpr (tokStart_run m hm t).1; simp [RSeg.nargs]; omega
            | short a d m sp h hsf _ => simp [RSeg.nargs, hsf, ellRest_length]; omega
            | long a d m sp h hsf _ => simp [RSeg.nargs, hsf, ellRest_length]; omega
          simp only [nargsAll, List.length_append]
          omega
      exact key h
    rw [countLoop_segs h _ none 0 rfl (by omega)]
    simp

end Rtosc.Pretty
