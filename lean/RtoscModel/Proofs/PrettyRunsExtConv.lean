/-
  C10 — tier 3, compressed runs in context (5): when `rtosc_convert_to_range` finds a run that is
  followed by further values — the `some` hypotheses of `Segmented`, from conditions on the values:
  the value behind a constant run is not identical to it, the value behind an arithmetic run does
  not continue it.
-/
import RtoscModel.Proofs.PrettyRunsExtPrint
set_option linter.unusedSimpArgs false
set_option linter.unusedVariables false
namespace Rtosc.Pretty
open Rtosc Rtosc.Libc
open Rtosc.ArgVal (Cell)

/-- the type-counting loop counts at least the leading cells of the type -/
theorem countCommon_ge (ty : UInt8) (arg : List Cell) (hsc : ∀ c ∈ arg, c.isScalar = true) (size K : Nat)
    (hK : K ≤ size) (hty : ∀ j, j < K → (arg.getD j (.flag .N)).type = ty) :
    ∀ (fuel i n m : Nat), size ≤ arg.length → countCommon fuel ty arg size i n = .ok m → n + (K - i) ≤ m := by
  intro fuel
  induction fuel with
  | zero => intro i n m _ h; simp [countCommon] at h
  | succ f ih =>
    intro i n m hsz h
    unfold countCommon at h
    by_cases hlt : i < size
    · simp only [hlt, ↓reduceIte] at h
      obtain ⟨c, more, hd⟩ : ∃ c more, arg.drop i = c :: more := by
        cases hd : arg.drop i with
        | nil => have := List.drop_eq_nil_iff.mp hd; omega
        | cons c more => exact ⟨c, more, rfl⟩
      have hc : arg.getD i (.flag .N) = c := by
        have : (arg.drop i).head? = some c := by rw [hd]; rfl
        rw [List.head?_drop] at this
        simp [List.getD, this]
      have hcs : c.isScalar = true := hsc c (List.mem_of_mem_drop (by rw [hd]; simp))
      simp only [hd, deref, bind, Except.bind, incsize_scalar c more hcs] at h
      split at h
      · next hne =>
        simp only [pure, Except.pure, Except.ok.injEq] at h
        have : ¬ (i < K) := by
          intro hik
          have := hty i hik
          rw [hc] at this
          exact hne this
        omega
      · have := ih (i + 1) (n + 1) m hsz h
        omega
    · simp only [hlt, ↓reduceIte, pure, Except.pure, Except.ok.injEq] at h
      omega

theorem drop_replicate_append (n s : Nat) (c : Cell) (R : List Cell) (hs : s < n) :
    (List.replicate n c ++ R).drop s = c :: (List.replicate (n - s - 1) c ++ R) := by
  rw [List.drop_append_of_le_length (by simp; omega), drop_replicate_cons n s c hs]
  rfl

theorem drop_replicate_append_all (n : Nat) (c : Cell) (R : List Cell) : (List.replicate n c ++ R).drop n = R := by
  have := @List.drop_left _ (List.replicate n c) R
  rw [List.length_replicate] at this
  exact this

/-- the run-extension loop on a constant run followed by a value that is not identical to it -/
theorem extendRun_replicate_next (c : Cell) (hsc : c.isScalar = true) (hid : SelfIdentical c) (n : Nat) (R : List Cell)
    (hnext : R = [] ∨ ∀ more, rangeArgsIdentical (c :: more) R = .ok false) :
    ∀ (fuel s k : Nat), 1 ≤ s → s < n → n - s ≤ fuel →
      extendRun fuel (List.replicate n c ++ R) (n + R.length) none s k = .ok (n, k + (n - s)) := by
  intro fuel
  induction fuel with
  | zero => intro s k _ h1 h2; omega
  | succ f ih =>
    intro s k hs1 hs hf
    unfold extendRun
    simp only [drop_replicate_append n s c R hs, incsize_scalar c _ hsc, bind, Except.bind]
    have h0 : List.replicate n c ++ R = c :: (List.replicate (n - 0 - 1) c ++ R) := by
      simpa using drop_replicate_append n 0 c R (by omega)
    by_cases hlt : s + 1 < n
    · have hge : ¬ (s + 1 ≥ n + R.length) := by omega
      simp only [hge, ↓reduceIte]
      rw [drop_replicate_append n (s + 1) c R hlt]
      rw [h0, hid]
      simp only [Bool.not_true, Bool.false_eq_true, ↓reduceIte]
      rw [← h0, ih (s + 1) (k + 1) (by omega) hlt (by omega)]
      congr 2; omega
    · have hsn : s + 1 = n := by omega
      rcases hnext with rfl | hnx
      · have hge : s + 1 ≥ n + ([] : List Cell).length := by simp; omega
        simp only [hge, ↓reduceIte, pure, Except.pure]
        congr 2 <;> omega
      · by_cases hR : R = []
        · subst hR
          have hge : s + 1 ≥ n + ([] : List Cell).length := by simp; omega
          simp only [hge, ↓reduceIte, pure, Except.pure]
          congr 2 <;> omega
        · have hpos : 0 < R.length := List.length_pos_iff.mpr hR
          have hge : ¬ (s + 1 ≥ n + R.length) := by omega
          simp only [hge, ↓reduceIte]
          rw [hsn, drop_replicate_append_all, h0, hnx]
          simp only [Bool.not_false, ↓reduceIte, pure, Except.pure]
          congr 2 <;> omega

/-- **a constant run followed by further values**: `rtosc_convert_to_range` converts exactly the
    run when the value behind it is not identical to the run's value -/
theorem convertToRange_crun_of_next (opt : POpt) (hc : opt.compress = true) (c : Cell) (hsc : c.isScalar = true)
    (hid : SelfIdentical c) (n : Nat) (hn5 : 5 ≤ n) (R : List Cell) (hR : ∀ x ∈ R, x.isScalar = true)
    (hnext : R = [] ∨ ∀ more, rangeArgsIdentical (c :: more) R = .ok false) :
    convertToRange opt (List.replicate n c ++ R) (n + R.length) = .ok (some (n, [Cell.rep n 0, c])) := by
  have h0 : List.replicate n c ++ R = c :: (List.replicate (n - 0 - 1) c ++ R) := by
    simpa using drop_replicate_append n 0 c R (by omega)
  have hall : ∀ x ∈ List.replicate n c ++ R, x.isScalar = true := by
    intro x hx
    rcases List.mem_append.mp hx with h | h
    · rw [(List.mem_replicate.mp h).2]; exact hsc
    · exact hR x h
  have hlenA : (List.replicate n c ++ R).length = n + R.length := by simp
  obtain ⟨m, hcc⟩ := countCommon_ok c.type (List.replicate n c ++ R) hall (n + R.length) (by omega)
    (n + R.length + 1) 0 0 (by omega)
  have hm : n ≤ m := by
    have := countCommon_ge c.type (List.replicate n c ++ R) hall (n + R.length) n (by omega) (by
      intro j hj
      have : (List.replicate n c ++ R).getD j (.flag .N) = c := by
        simp [List.getD, List.getElem?_append_left (show j < (List.replicate n c).length by simpa using hj), hj]
      rw [this]) (n + R.length + 1) 0 0 m (by omega) hcc
    omega
  have her := extendRun_replicate_next c hsc hid n R hnext (n + R.length + 1) 1 1 (by omega) (by omega) (by omega)
  unfold convertToRange
  have hs : ¬ (n + R.length < rangeMin) := by unfold rangeMin; omega
  simp only [hs, ↓reduceIte, bind, Except.bind]
  rw [h0] at hcc her ⊢
  simp only [deref, scalar_type_ne_range c hsc, hc, Bool.not_true, Bool.false_eq_true, or_self, ↓reduceIte, hcc,
    incsize_scalar c _ hsc]
  have hident : rangeArgsIdentical (c :: (List.replicate (n - 0 - 1) c ++ R))
      (List.drop 1 (c :: (List.replicate (n - 0 - 1) c ++ R))) = .ok true := by
    simp only [List.drop_succ_cons, List.drop_zero]
    obtain ⟨k, hk⟩ : ∃ k, n - 0 - 1 = k + 1 := ⟨n - 2, by omega⟩
    rw [hk, List.replicate_succ]; exact hid _ _
  have hs' : ¬ (m < rangeMin) := by unfold rangeMin; omega
  simp only [hs', ↓reduceIte, hident, pure, Except.pure, her]
  have e1 : 1 + (n - 1) = n := by omega
  have hge : n ≥ rangeMin := by unfold rangeMin; omega
  simp [e1, hge]

/-! ### arithmetic runs -/

theorem arithRun_drop_append (a d : Int) (n k : Nat) (R : List Cell) (hk : k < n) :
    (arithRun a d n ++ R).drop k = Cell.int .i (a + (k : Int) * d) :: ((arithRun a d n).drop (k + 1) ++ R) := by
  rw [List.drop_append_of_le_length (by rw [arithRun_length]; omega), arithRun_drop a d n k hk]
  rfl

theorem arithRun_drop_append_all (a d : Int) (n : Nat) (R : List Cell) : (arithRun a d n ++ R).drop n = R := by
  have := @List.drop_left _ (arithRun a d n) R
  rwa [arithRun_length] at this

/-- the run-extension loop on an arithmetic run followed by a value that does not continue it -/
theorem extendRun_run_next {a d : Int} {n : Nat} (h : RunHyp a d n) (R : List Cell)
    (hnext : R = [] ∨ eqSingle [Cell.int .i (a + (n : Int) * d)] R = .ok false) :
    ∀ (fuel s c : Nat), 1 ≤ s → s < n → n - s < fuel →
      extendRun fuel (arithRun a d n ++ R) (n + R.length) (some (Cell.int .i d)) s c = .ok (n, c + (n - s)) := by
  intro fuel
  induction fuel with
  | zero => intro s c _ _ hf; omega
  | succ f ih =>
    intro s c hs1 hsn hf
    unfold extendRun
    have hr := h.hrange (s + 1) (by omega)
    have hr0 := h.hrange s (by omega)
    rw [succ_mul'] at hr
    have hso : rangeStepOverflows (Cell.int .i (a + (s : Int) * d)) (Cell.int .i d) = false := by
      simp only [rangeStepOverflows, Bool.or_eq_false_iff, decide_eq_false_iff_not]
      omega
    have hadd : addAV (Cell.int .i (a + (s : Int) * d)) (Cell.int .i d) =
        .ok (some (Cell.int .i (a + ((s + 1 : Nat) : Int) * d))) := by
      rw [addAV_int, succ_mul', toI32_id _ (by omega) (by omega), Int.add_assoc]
    have h0 : arithRun a d n ++ R = Cell.int .i a :: ((arithRun a d n).drop 1 ++ R) := by
      have := arithRun_drop_append a d n 0 R (by omega)
      simpa using this
    simp only [arithRun_drop_append a d n s R hsn, deref, bind, Except.bind,
      incsize_scalar _ _ (show (Cell.int .i (a + (s : Int) * d)).isScalar = true from rfl), hso, hadd, must,
      pure, Except.pure, Bool.false_eq_true, ↓reduceIte]
    by_cases hlt : s + 1 < n
    · have hge : ¬ (s + 1 ≥ n + R.length) := by omega
      have hw := h.mul (s + 1) (by omega)
      have hwo : rangeWidthOverflows (Cell.int .i a) (Cell.int .i (a + ((s + 1 : Nat) : Int) * d)) = false := by
        simp only [rangeWidthOverflows, Bool.or_eq_false_iff, decide_eq_false_iff_not]
        omega
      simp only [hge, ↓reduceIte, arithRun_drop_append a d n (s + 1) R hlt, eqSingle_int, decide_true, Bool.not_true,
        Bool.false_eq_true]
      rw [h0]
      simp only [hwo, Bool.false_eq_true, ↓reduceIte]
      rw [← h0, ih (s + 1) (c + 1) (by omega) hlt (by omega)]
      congr 2; omega
    · have hsn' : s + 1 = n := by omega
      by_cases hR : R = []
      · subst hR
        have hge : s + 1 ≥ n + ([] : List Cell).length := by simp; omega
        simp only [hge, ↓reduceIte]
        congr 2 <;> omega
      · have hpos : 0 < R.length := List.length_pos_iff.mpr hR
        have hge : ¬ (s + 1 ≥ n + R.length) := by omega
        have hnx : eqSingle [Cell.int .i (a + (n : Int) * d)] R = .ok false := by
          rcases hnext with h | h
          · exact absurd h hR
          · exact h
        simp only [hge, ↓reduceIte]
        rw [hsn', arithRun_drop_append_all, hnx]
        simp only [Bool.not_false, ↓reduceIte]
        congr 2 <;> omega

/-- **an arithmetic run followed by further values**: `rtosc_convert_to_range` converts exactly the
    run when the value behind it does not continue it -/
theorem convertToRange_irun_of_next (opt : POpt) (hc : opt.compress = true) {a d : Int} {n : Nat} (h : RunHyp a d n)
    (R : List Cell) (hR : ∀ x ∈ R, x.isScalar = true)
    (hnext : R = [] ∨ eqSingle [Cell.int .i (a + (n : Int) * d)] R = .ok false) :
    convertToRange opt (arithRun a d n ++ R) (n + R.length) =
      .ok (some (n, [Cell.rep n 1, Cell.int .i d, Cell.int .i a])) := by
  have hn := h.hn
  have hdb := h.dbound
  have hr0 := h.r0
  have hr1 := h.r1
  have hall : ∀ x ∈ arithRun a d n ++ R, x.isScalar = true := by
    intro x hx
    rcases List.mem_append.mp hx with hx | hx
    · simp only [arithRun, List.mem_map] at hx
      obtain ⟨k, _, rfl⟩ := hx
      rfl
    · exact hR x hx
  have hlenA : (arithRun a d n ++ R).length = n + R.length := by simp [arithRun_length]
  obtain ⟨m, hcc⟩ := countCommon_ok 105 (arithRun a d n ++ R) hall (n + R.length) (by omega)
    (n + R.length + 1) 0 0 (by omega)
  have hm : n ≤ m := by
    have := countCommon_ge 105 (arithRun a d n ++ R) hall (n + R.length) n (by omega) (by
      intro j hj
      have : (arithRun a d n ++ R).getD j (.flag .N) = Cell.int .i (a + (j : Int) * d) := by
        have hj' : j < (arithRun a d n).length := by rw [arithRun_length]; exact hj
        have e : (arithRun a d n ++ R)[j]? = some (Cell.int .i (a + (j : Int) * d)) := by
          rw [List.getElem?_append_left hj']; simp [arithRun, hj]
        simp [List.getD, e]
      rw [this]; rfl) (n + R.length + 1) 0 0 m (by omega) hcc
    omega
  have h0 : arithRun a d n ++ R = Cell.int .i a :: ((arithRun a d n).drop 1 ++ R) := by
    have := arithRun_drop_append a d n 0 R (by omega)
    simpa using this
  have hd1 : (arithRun a d n).drop 1 ++ R = Cell.int .i (a + d) :: ((arithRun a d n).drop 2 ++ R) := by
    have := arithRun_drop a d n 1 (by omega)
    rw [this]; simp
  have hnot : ¬ (n + R.length < rangeMin) := by unfold rangeMin; omega
  have hnotm : ¬ (m < rangeMin) := by unfold rangeMin; omega
  unfold convertToRange
  rw [h0]
  simp only [hnot, ↓reduceIte, deref, bind, Except.bind, hc, Bool.not_true, Bool.false_eq_true, or_false,
    type_int_i, ArgVal.tyRange, show ((105 : UInt8) = 45) = False from by decide]
  rw [← h0, hcc]
  simp only [hnotm, ↓reduceIte]
  rw [h0]
  simp only [incsize_scalar _ _ (show (Cell.int .i a).isScalar = true from rfl), List.drop_succ_cons, List.drop_zero]
  rw [← h0, hd1]
  have hne : ¬ (a = a + d) := by have := h.hd; omega
  have hident : rangeArgsIdentical (arithRun a d n ++ R) (Cell.int .i (a + d) :: ((arithRun a d n).drop 2 ++ R)) =
      .ok false := by
    unfold rangeArgsIdentical
    rw [h0]
    simp [eqSingle_int, hne, bind, Except.bind, pure, Except.pure]
  have hsub : subAV (Cell.int .i (a + d)) (Cell.int .i a) = .ok (some (Cell.int .i d)) := by
    rw [subAV_int, toI32_id _ (by omega) (by omega)]
    congr 3; omega
  have hso : rangeStepOverflows (Cell.int .i a) (Cell.int .i d) = false := by
    simp only [rangeStepOverflows, Bool.or_eq_false_iff, decide_eq_false_iff_not]
    omega
  simp only [hident, Bool.false_eq_true, ↓reduceIte, show (lit "cihTF").contains (105 : UInt8) = true from by decide,
    hsub, must, bind, Except.bind, pure, Except.pure, hso]
  rw [extendRun_run_next h R hnext (n + R.length + 1) 1 1 (by omega) (by omega) (by omega)]
  have : 1 + (n - 1) = n := by omega
  simp only [this, rangeMin, ge_iff_le, hn, ↓reduceIte, Option.isSome_some, List.cons_append, List.nil_append]
  rw [h0]
  simp

end Rtosc.Pretty
