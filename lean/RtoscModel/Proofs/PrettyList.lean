/-
  C10 — tier 2: argument lists of scalar values.  From per-type token facts (`PrintsTok`) to the
  round trip of `rtosc_print_arg_vals` → `rtosc_count_printed_arg_vals` → `rtosc_scan_arg_vals`:
  the printer's loop with its line breaking (`printLoop_spec`), the scanner's loop
  (`scanLoop_tokText`), the checker's loop (`countLoop_tokText`).
-/
import RtoscModel.Proofs.PrettyTok
import RtoscModel.Proofs.PrettyCheckFuel
namespace Rtosc.Pretty
open Rtosc Rtosc.Libc
open Rtosc.ArgVal (Cell)

/-- the two separators the printer puts between arguments -/
def IsSepTxt (s : Bytes) : Prop := s = [32] ∨ s = [10, 32, 32, 32, 32]

/-- scanner and checker read the text `t`, with nothing behind it, as the single cell `c`
    (weaker than `TokOK`; enough for the last token of a text) -/
structure TokEnd (t : Bytes) (c : Cell) : Prop where
  start : TokStart t
  scan : ∀ (fuel : Nat) (prev : List Cell) (ab : Nat),
    scanArgVal (fuel + 1) t prev ab true = .ok (t.length, [c])
  skip : ∀ (fuel : Nat) (ty : UInt8) (llhs : Option Bytes) (ib : Bool),
    ∃ r, skipNextPrintedArg (fuel + 1) t ty llhs true ib = .ok r ∧
      r.src = some [] ∧ r.skipped = 1 ∧ r.type = c.type

/-- `text` consists of good tokens for the scalar cells `cs`, separated by a blank or a line break -/
inductive TokText : List Cell → Bytes → Prop
  | nil : TokText [] []
  | one (t : Bytes) (c : Cell) : TokEnd t c → c.isScalar = true → TokText [c] t
  | cons (t : Bytes) (c : Cell) (sep : Bytes) (cs : List Cell) (text : Bytes) :
      TokOK t c → c.isScalar = true → IsSepTxt sep → cs ≠ [] → TokText cs text →
      TokText (c :: cs) (t ++ (sep ++ text))

theorem TokText.start {cs : List Cell} {text : Bytes} (h : TokText cs text) (hne : cs ≠ []) : TokStart text := by
  cases h with
  | nil => exact absurd rfl hne
  | one t c ht _ => exact ht.start
  | cons t c sep cs text ht _ _ _ _ =>
    obtain ⟨h0, h1⟩ := ht.start
    refine ⟨by simp [h0], ?_⟩
    rw [hd_append_of_ne_nil _ _ h0]; exact h1

theorem skipSpace_sep (sep text : Bytes) (hs : IsSepTxt sep) (ht : TokStart text) : skipSpace (sep ++ text) = text := by
  obtain ⟨hne, hsp, _⟩ := ht
  cases text with
  | nil => exact absurd rfl hne
  | cons c r =>
    simp only [hd_cons] at hsp
    have h32 : isspace 32 = true := by decide
    have h10 : isspace 10 = true := by decide
    rcases hs with rfl | rfl <;>
      simp only [List.cons_append, List.nil_append, skipSpace, h32, h10, hsp, ↓reduceIte, Bool.false_eq_true]

theorem skipSpace_tokStart (text : Bytes) (ht : TokStart text) : skipSpace text = text := by
  obtain ⟨hne, hsp, _⟩ := ht
  cases text with
  | nil => rfl
  | cons c r => simp only [hd_cons] at hsp; simp [skipSpace, hsp]

/-- a separator followed by the next token may follow a token -/
theorem sep_of_next (sep text : Bytes) (hs : IsSepTxt sep) (ht : TokStart text) : Sep (sep ++ text) := by
  have h1 := skipSpace_sep sep text hs ht
  obtain ⟨hne, _, _, h40, h46, _⟩ := ht
  refine ⟨?_, ?_, ?_⟩
  · right; left; rcases hs with rfl | rfl <;> rfl
  · rw [h1]; exact h40
  · rw [h1]
    cases text with
    | nil => exact absurd rfl hne
    | cons c r =>
      simp only [hd_cons] at h46
      simp [startsWith, List.isPrefixOf]
      intro h; exact absurd h.symm h46

theorem sep_nil : Sep [] := by
  refine ⟨Or.inl rfl, by decide, by decide⟩

theorem TokOK.toEnd {t : Bytes} {c : Cell} (h : TokOK t c) : TokEnd t c := by
  refine ⟨h.start, ?_, ?_⟩
  · intro fuel prev ab
    have := h.scan [] fuel prev ab sep_nil
    simpa using this
  · intro fuel ty llhs ib
    have := h.skip [] fuel ty llhs ib sep_nil
    simpa using this



theorem skipFmt_space (s : Bytes) : skipFmt fmtSpace s = s.length - (skipSpace s).length := by
  simp [skipFmt, scanRd, sscanf, fmtSpace, sscanfGo]

theorem skipSpaceComments_sep (fuel : Nat) (sep text : Bytes) (hs : IsSepTxt sep) (ht : TokStart text) :
    skipSpaceComments (fuel + 1) (sep ++ text) = .ok sep.length := by
  have h1 := skipSpace_sep sep text hs ht
  have h37 : hd text ≠ 37 := ht.2.2.2.2.2.1
  unfold skipSpaceComments
  simp only [skipFmt_space, h1, List.length_append, Nat.add_sub_cancel, List.drop_left, h37, ↓reduceIte]
  rfl

theorem skipSpaceComments_nil (fuel : Nat) : skipSpaceComments (fuel + 1) [] = .ok 0 := by
  unfold skipSpaceComments
  simp [skipFmt_space, skipSpace]
  rfl

theorem nextArgOffset_scalar (fuel : Nat) (c : Cell) (more : List Cell) (h : c.isScalar = true) :
    nextArgOffset (fuel + 1) (c :: more) = .ok 1 := by
  unfold nextArgOffset
  cases c <;> simp_all [deref, ArgVal.Cell.isScalar, bind, Except.bind, pure, Except.pure]

/-- `can_precede_range` of a scalar value -/
theorem canPrecedeRange_scalar (c : Cell) (more : List Cell) (h : c.isScalar = true) :
    canPrecedeRange (c :: more) = .ok true := by
  unfold canPrecedeRange
  cases c <;> simp_all [deref, ArgVal.Cell.isScalar, bind, Except.bind, pure, Except.pure]

/-- nothing is skipped in front of a token (`rtosc_scan_arg_vals` looks for white space and
    comments in front of the first value) -/
theorem skipSpaceComments_tokStart (fuel : Nat) (text : Bytes) (ht : TokStart text) :
    skipSpaceComments (fuel + 1) text = .ok 0 := by
  have h1 := skipSpace_tokStart text ht
  have h37 : hd text ≠ 37 := ht.2.2.2.2.2.1
  unfold skipSpaceComments
  simp only [skipFmt_space, h1, Nat.sub_self, List.drop_zero, h37, ↓reduceIte]
  rfl

/-- the scanner's loop reads a token text back as its cells -/
theorem scanLoop_tokText {cs : List Cell} {text : Bytes} (h : TokText cs text) :
    ∀ (fuel n i : Nat) (pok : Bool) (done : List Cell) (rd : Nat), n = i + cs.length → cs.length + 1 ≤ fuel →
      scanArgValsLoop fuel text n i pok done rd = .ok (rd + text.length, done ++ cs) := by
  induction h with
  | nil =>
    intro fuel n i pok done rd hn hf
    cases fuel with
    | zero => omega
    | succ f =>
      simp at hn
      simp [scanArgValsLoop, hn, pure, Except.pure]
  | one t c ht hsc =>
    intro fuel n i pok done rd hn hf
    cases fuel with
    | zero => omega
    | succ f =>
      cases f with
      | zero => simp at hf
      | succ g =>
        have hscan := ht.scan (t.length + 1) done.reverse (if pok then i else 0)
        simp only [List.length_singleton] at hn
        unfold scanArgValsLoop
        have hlt : i < n := by omega
        simp only [hlt, ↓reduceIte, hscan, bind, Except.bind, advance, Nat.le_refl, List.drop_length,
          nextArgOffset_scalar _ c [] hsc, List.length_singleton, ne_eq, not_true_eq_false, List.length_nil,
          skipSpaceComments_nil, List.drop_zero, canPrecedeRange_scalar c [] hsc]
        unfold scanArgValsLoop
        have : ¬ (i + 1 < n) := by omega
        simp [this, pure, Except.pure]
  | cons t c sep cs text ht hsc hsep hne hrest ih =>
    intro fuel n i pok done rd hn hf
    cases fuel with
    | zero => omega
    | succ f =>
      have hstart := hrest.start hne
      have hS := sep_of_next sep text hsep hstart
      have hscan := ht.scan (sep ++ text) ((t ++ (sep ++ text)).length + 1) done.reverse (if pok then i else 0) hS
      simp only [List.length_cons] at hn hf
      unfold scanArgValsLoop
      have hlt : i < n := by omega
      have hadv : advance (t ++ (sep ++ text)) t.length = .ok (sep ++ text) := by
        simp [advance]
      simp only [hlt, ↓reduceIte, hscan, bind, Except.bind, hadv,
        nextArgOffset_scalar _ c [] hsc, List.length_singleton, ne_eq, not_true_eq_false,
        canPrecedeRange_scalar c [] hsc]
      have hlen : (sep ++ text).length + 1 = ((sep ++ text).length) + 1 := rfl
      rw [skipSpaceComments_sep _ sep text hsep hstart]
      simp only [List.drop_left]
      rw [ih f n (i + 1) true (done ++ [c]) (rd + t.length + sep.length) (by omega) (by omega)]
      simp only [List.length_append, List.append_assoc, List.singleton_append]
      congr 2
      omega



/-- `rtosc_scan_arg_vals` reads a token text back as its cells -/
theorem scanArgVals_tokText {cs : List Cell} {text : Bytes} (h : TokText cs text) :
    scanArgVals text cs.length = .ok (text.length, cs) := by
  unfold scanArgVals
  have hsk : skipSpaceComments (text.length + 1) text = .ok 0 := by
    by_cases hne : cs = []
    · subst hne; cases h; exact skipSpaceComments_nil _
    · exact skipSpaceComments_tokStart _ text (h.start hne)
  have := scanLoop_tokText h (cs.length + 1) cs.length 0 true [] 0 (by simp) (Nat.le_refl _)
  simpa [hsk, bind, Except.bind] using this

theorem skipCommentLines_none (fuel : Nat) (s : Bytes) (h : hd s ≠ 37) : skipCommentLines (fuel + 1) s = .ok s := by
  unfold skipCommentLines; simp [h]

/-- the checker's loop counts the cells of a token text -/
theorem countLoop_tokText {cs : List Cell} {text : Bytes} (h : TokText cs text) :
    ∀ (fuel : Nat) (recent : Option Bytes) (num : Int), cs.length + 1 ≤ fuel →
      countLoop fuel (some text) recent num = .ok (num + cs.length) := by
  induction h with
  | nil =>
    intro fuel recent num hf
    cases fuel with
    | zero => omega
    | succ f => simp [countLoop]
  | one t c ht hsc =>
    intro fuel recent num hf
    cases fuel with
    | zero => omega
    | succ f =>
      cases f with
      | zero => simp at hf
      | succ g =>
        obtain ⟨hne, _, h0, _, _, _, h47, _⟩ := ht.start
        obtain ⟨r, hr, hsrc, hsk, _⟩ := ht.skip (t.length + 1) 0 recent false
        have hr := skipNextPrintedArg_checkFuel hr
        unfold countLoop
        simp only [h0, h47, ne_eq, not_false_eq_true, and_self, ↓reduceIte, hr, bind, Except.bind, hsrc, hsk,
          skipSpace, hd_nil, not_true_eq_false, pure, Except.pure, List.length_nil]
        have hpos : 0 < t.length := List.length_pos_iff.mpr hne
        have : ¬ (0 ≥ t.length) := by omega
        simp only [ge_iff_le, this, ↓reduceIte]
        simp [countLoop]
  | cons t c sep cs text ht hsc hsep hne hrest ih =>
    intro fuel recent num hf
    cases fuel with
    | zero => omega
    | succ f =>
      have hstart := hrest.start hne
      have hS := sep_of_next sep text hsep hstart
      obtain ⟨hne', _, h0, _, _, _, h47, _⟩ := ht.start
      obtain ⟨r, hr, hsrc, hsk, _⟩ := ht.skip (sep ++ text) ((t ++ (sep ++ text)).length + 1) 0 recent false hS
      have hr := skipNextPrintedArg_checkFuel hr
      have hhd : hd (t ++ (sep ++ text)) = hd t := hd_append_of_ne_nil _ _ hne'
      have h0' : hd text ≠ 0 := hstart.2.2.1
      have h37 : hd text ≠ 37 := hstart.2.2.2.2.2.1
      simp only [List.length_cons] at hf
      unfold countLoop
      simp only [hhd, h0, h47, ne_eq, not_false_eq_true, and_self, ↓reduceIte, hr, bind, Except.bind, hsrc, hsk,
        skipSpace_sep sep text hsep hstart, h0', skipCommentLines_none _ text h37, pure, Except.pure]
      have hpos : 0 < t.length := List.length_pos_iff.mpr hne'
      have : ¬ (text.length ≥ (t ++ (sep ++ text)).length) := by
        simp only [List.length_append]; omega
      simp only [ge_iff_le, this, ↓reduceIte]
      rw [ih f (some (t ++ (sep ++ text))) (num + 1) (by omega)]
      simp only [List.length_cons]
      congr 1
      omega

theorem countPrintedArgVals_tokText {cs : List Cell} {text : Bytes} (h : TokText cs text) :
    countPrintedArgVals text = .ok (cs.length : Int) := by
  unfold countPrintedArgVals
  by_cases hne : cs = []
  · subst hne
    cases h
    simp [skipSpace, skipCommentLines, countLoop, bind, Except.bind]
  · have hstart := h.start hne
    have h37 : hd text ≠ 37 := hstart.2.2.2.2.2.1
    simp only [skipSpace_tokStart text hstart, skipCommentLines_none _ text h37, bind, Except.bind]
    rw [countLoop_tokText h _ none 0 (by
      have := TokText.rec (motive := fun cs text _ => cs.length ≤ text.length) (by simp)
        (fun t c ht _ => by have := List.length_pos_iff.mpr ht.start.1; simp only [List.length_singleton]; omega)
        (fun t c sep cs text ht _ _ _ _ ih => by
          have := List.length_pos_iff.mpr ht.start.1
          simp only [List.length_cons, List.length_append]; omega) h
      omega)]
    simp



def nl4 : Bytes := [10, 32, 32, 32, 32]

/-- `linebreak_check_after_write` after the token `t` has been appended: the separator in front of
    it stays or becomes a line break; `wrt` grows accordingly -/
theorem linebreakCheck_tok (out t : Bytes) (cols : Int) (wrt : Nat) (lastSep : Int) (awl : Nat) (ll : Int)
    (hinv : awl = 0 ∨ ∃ base, out = base ++ [32] ∧ lastSep = (base.length : Int)) :
    ∃ pre cols' awl', linebreakCheck ⟨out ++ t, cols⟩ wrt lastSep t.length awl ll =
        .ok (⟨pre ++ t, cols'⟩, wrt + (pre.length - out.length), awl') ∧ 1 ≤ awl' ∧
      (pre = out ∨ ∃ base, out = base ++ [32] ∧ pre = base ++ nl4) := by
  unfold linebreakCheck
  by_cases hbr : cols > ll ∧ awl + 1 > 1
  · have hawl : awl ≠ 0 := by omega
    rcases hinv with h | ⟨base, hout, hls⟩
    · exact absurd h hawl
    · refine ⟨base ++ nl4, 4 + (t.length : Int), 1, ?_, by omega, Or.inr ⟨base, hout, rfl⟩⟩
      subst hout; subst hls
      have h1 : ¬ ((base.length : Int) < 0 ∨ (base.length : Int) ≥ ((base ++ [32] ++ t).length : Int)) := by
        simp only [List.length_append, List.length_singleton]; omega
      simp only [hbr, and_self, ↓reduceIte, h1, Int.toNat_natCast]
      have h2 : (base ++ [32] ++ t).drop (base.length + 1) = t := by
        rw [show base.length + 1 = (base ++ [32]).length from by simp]; exact List.drop_left
      have h3 : (base ++ [32] ++ t).take base.length = base := by
        rw [List.append_assoc]; exact List.take_left
      rw [h2, h3]
      have : ¬ (t.length > t.length + 1) := by omega
      simp only [this, ↓reduceIte, nl4, List.length_append, List.length_cons, List.length_nil]
      congr 3
      omega
  · refine ⟨out, cols, awl + 1, ?_, by omega, Or.inl rfl⟩
    simp only [hbr, ↓reduceIte, Nat.sub_self, Nat.add_zero]



theorem drop_eq_cons_lt {α} (l : List α) (i : Nat) (c : α) (more : List α) (h : l.drop i = c :: more) :
    i < l.length ∧ l.drop (i + 1) = more := by
  constructor
  · rcases Nat.lt_or_ge i l.length with h1 | h1
    · exact h1
    · have : l.drop i = [] := List.drop_eq_nil_of_le h1
      rw [this] at h; cases h
  · rw [← List.drop_drop, h]; rfl

/-- one iteration of the printer's loop for a scalar argument that is not turned into a range -/
theorem printLoop_step (opt : POpt) (args : List Cell) (c : Cell) (more : List Cell) (i f : Nat) (st : PSt)
    (wrt : Nat) (lastSep : Int) (awl : Nat)
    (hi : args.drop i = c :: more) (hlt : i < args.length) (hsc : c.isScalar = true)
    (t : Bytes) (cols' : Int)
    (hprint : printArgVal ((c :: more).length + 2 + 1) opt (c :: more)
      (if i = 0 then none else (args.drop (i - 1)).head?) st = .ok (⟨st.out ++ t, cols'⟩, t.length))
    (hconv : convertToRange opt (c :: more) (args.length - i) = .ok none)
    (hinv : awl = 0 ∨ ∃ base, st.out = base ++ [32] ∧ lastSep = (base.length : Int)) :
    ∃ (pre1 : Bytes) (cols1 : Int) (awl1 : Nat),
      (pre1 = st.out ∨ ∃ base, st.out = base ++ [32] ∧ pre1 = base ++ nl4) ∧
      printArgValsLoop (f + 1) opt args args.length i st wrt lastSep awl =
        (if i + 1 < args.length then
          printArgValsLoop f opt args args.length (i + 1) ⟨pre1 ++ t ++ [32], cols1 + 1⟩
            (wrt + t.length + (pre1.length - st.out.length) + 1) ((pre1 ++ t).length : Int) awl1
         else printArgValsLoop f opt args args.length (i + 1) ⟨pre1 ++ t, cols1⟩
            (wrt + t.length + (pre1.length - st.out.length)) lastSep awl1) := by
  have hlb : ∃ pre1 cols1 awl1, (if !breaksItself c
        then linebreakCheck ⟨st.out ++ t, cols'⟩ (wrt + t.length) lastSep t.length awl opt.linelength
        else (pure (⟨st.out ++ t, cols'⟩, wrt + t.length, awl) : Res (PSt × Nat × Nat))) =
        .ok (⟨pre1 ++ t, cols1⟩, wrt + t.length + (pre1.length - st.out.length), awl1) ∧
      (pre1 = st.out ∨ ∃ base, st.out = base ++ [32] ∧ pre1 = base ++ nl4) := by
    by_cases hb : breaksItself c = true
    · exact ⟨st.out, cols', awl, by simp [hb, pure, Except.pure], Or.inl rfl⟩
    · obtain ⟨pre, cols1, awl1, h1, _, h3⟩ := linebreakCheck_tok st.out t cols' (wrt + t.length) lastSep awl opt.linelength hinv
      exact ⟨pre, cols1, awl1, by simp [hb, h1], h3⟩
  obtain ⟨pre1, cols1, awl1, hlb, hpre1⟩ := hlb
  refine ⟨pre1, cols1, awl1, hpre1, ?_⟩
  rw [printArgValsLoop]
  simp only [hlt, ↓reduceIte, hi, deref, hconv, bind, Except.bind]
  rw [show (c :: more).length + 3 = ((c :: more).length + 2) + 1 from rfl, hprint]
  simp only [nextArgOffset_scalar _ c more hsc]
  cases hb : (!breaksItself c)
  · rw [hb] at hlb
    simp only [Bool.false_eq_true, ↓reduceIte] at hlb ⊢
    rw [hlb]
  · rw [hb] at hlb
    simp only [↓reduceIte] at hlb ⊢
    rw [hlb]



/-- the printer's loop over scalar arguments that are not turned into ranges -/
theorem printLoop_spec (opt : POpt) (args : List Cell)
    (hP : ∀ c ∈ args, c.isScalar = true ∧ PrintsTok opt c)
    (hconv : ∀ i, i < args.length → convertToRange opt (args.drop i) (args.length - i) = .ok none) :
    ∀ (rem : List Cell) (i : Nat), args.drop i = rem →
      ∀ (fuel : Nat) (st : PSt) (wrt : Nat) (lastSep : Int) (awl : Nat), rem.length + 1 ≤ fuel →
        (awl = 0 ∨ ∃ base, st.out = base ++ [32] ∧ lastSep = (base.length : Int)) →
        ∃ (st' : PSt) (pre body : Bytes),
          printArgValsLoop fuel opt args args.length i st wrt lastSep awl =
            .ok (st', wrt + ((pre ++ body).length - st.out.length)) ∧
          st'.out = pre ++ body ∧ TokText rem body ∧
          (pre = st.out ∨ ∃ base, st.out = base ++ [32] ∧ pre = base ++ nl4) := by
  intro rem
  induction rem with
  | nil =>
    intro i hi fuel st wrt lastSep awl hf _
    have hge : args.length ≤ i := List.drop_eq_nil_iff.mp hi
    cases fuel with
    | zero => omega
    | succ f =>
      refine ⟨st, st.out, [], ?_, by simp, TokText.nil, Or.inl rfl⟩
      unfold printArgValsLoop
      have : ¬ (i < args.length) := by omega
      simp [this, pure, Except.pure]
  | cons c more ih =>
    intro i hi fuel st wrt lastSep awl hf hinv
    obtain ⟨hlt, hdrop⟩ := drop_eq_cons_lt args i c more hi
    have hmem : c ∈ args := by
      have : c ∈ args.drop i := by rw [hi]; simp
      exact List.mem_of_mem_drop this
    obtain ⟨hsc, hpt⟩ := hP c hmem
    cases fuel with
    | zero => omega
    | succ f =>
      have hc := hconv i hlt
      rw [hi] at hc
      obtain ⟨t, cols', hprint, htok⟩ := hpt ((c :: more).length + 2) more
        (if i = 0 then none else (args.drop (i - 1)).head?) st
      obtain ⟨pre1, cols1, awl1, hpre1, hstep⟩ :=
        printLoop_step opt args c more i f st wrt lastSep awl hi hlt hsc t cols' hprint hc hinv
      have hpre1len : st.out.length ≤ pre1.length := by
        rcases hpre1 with h | ⟨base, h1, h2⟩
        · rw [h]; exact Nat.le_refl _
        · rw [h1, h2]; simp [nl4]
      rw [hstep]
      by_cases hmore : more = []
      · -- last argument
        subst hmore
        have hn : args.length = i + 1 := by
          have := congrArg List.length hi
          simp only [List.length_drop, List.length_singleton] at this
          omega
        have hnot : ¬ (i + 1 < args.length) := by omega
        simp only [hnot, ↓reduceIte]
        cases f with
        | zero => simp at hf
        | succ g =>
          refine ⟨⟨pre1 ++ t, cols1⟩, pre1, t, ?_, rfl, TokText.one t c htok.toEnd hsc, hpre1⟩
          unfold printArgValsLoop
          simp only [hnot, ↓reduceIte, pure, Except.pure, List.length_append]
          congr 2
          omega
      · have hlt2 : i + 1 < args.length := by
          have := congrArg List.length hdrop
          simp only [List.length_drop] at this
          have : 0 < more.length := List.length_pos_iff.mpr hmore
          omega
        simp only [hlt2, ↓reduceIte]
        obtain ⟨st', pre', body', hrun, hout, htt, hpre'⟩ :=
          ih (i + 1) hdrop f ⟨pre1 ++ t ++ [32], cols1 + 1⟩ (wrt + t.length + (pre1.length - st.out.length) + 1)
            ((pre1 ++ t).length : Int) awl1 (by simp only [List.length_cons] at hf; omega)
            (Or.inr ⟨pre1 ++ t, rfl, rfl⟩)
        rw [hrun]
        -- the separator in front of the next token
        rcases hpre' with hp | ⟨base, hb1, hb2⟩
        · refine ⟨st', pre1, t ++ ([32] ++ body'), ?_, ?_, TokText.cons t c [32] more body' htok hsc (Or.inl rfl) hmore htt, hpre1⟩
          · congr 2
            simp only [hp, List.length_append, List.length_cons, List.length_nil]
            omega
          · rw [hout, hp]; simp
        · have hbase : base = pre1 ++ t := by
            have := List.append_inj_left' hb1 rfl
            exact this.symm
          refine ⟨st', pre1, t ++ (nl4 ++ body'), ?_, ?_, TokText.cons t c nl4 more body' htok hsc (Or.inr rfl) hmore htt, hpre1⟩
          · congr 2
            simp only [hb2, hbase, nl4, List.length_append, List.length_cons, List.length_nil]
            omega
          · rw [hout, hb2, hbase]; simp



/-- **Tier 2, argument lists.**  For scalar arguments whose tokens are good and which the printer
    does not turn into ranges: the printer returns the length of the text it wrote, the checker
    counts exactly the arguments, the scanner consumes the whole text and returns the arguments. -/
theorem list_roundtrip_of_tokens (opt : POpt) (args : List Cell)
    (hP : ∀ c ∈ args, c.isScalar = true ∧ PrintsTok opt c)
    (hconv : ∀ i, i < args.length → convertToRange opt (args.drop i) (args.length - i) = .ok none) :
    ∃ (st : PSt) (ret : Nat),
      printArgVals opt args ⟨[], 0⟩ = .ok (st, ret) ∧ ret = st.out.length ∧
      countPrintedArgVals st.out = .ok (args.length : Int) ∧
      scanArgVals st.out args.length = .ok (st.out.length, args) := by
  obtain ⟨st', pre, body, hrun, hout, htt, hpre⟩ :=
    printLoop_spec opt args hP hconv args 0 (by simp) (args.length + 1) ⟨[], 0⟩ 0 (-1) 0 (Nat.le_refl _) (Or.inl rfl)
  have hpre0 : pre = [] := by
    rcases hpre with h | ⟨base, h1, _⟩
    · exact h
    · simp at h1
  subst hpre0
  simp only [List.nil_append, List.length_nil, Nat.sub_zero, Nat.zero_add] at hrun hout
  refine ⟨st', body.length, ?_, by rw [hout], ?_, ?_⟩
  · unfold printArgVals
    simpa using hrun
  · rw [hout]; exact countPrintedArgVals_tokText htt
  · rw [hout]
    exact scanArgVals_tokText htt


end Rtosc.Pretty
