/-
  C10 — time tags ('t') WITH a second fraction, printed in lossless mode:
  `YYYY-MM-DD HH:MM:SS.ddd (...+0x1.8p-3s)` is a good token when the fraction is representable
  as a `float` (`frac = m · 2^k`, `m < 2^24`).

  Part 1 (namespace `Rtosc.Libc`): hexadecimal float texts with several integer digits and an
  arbitrary non-digit character behind them; `%f` on `.ddd`; `%d` / `%x` on digit runs with leading
  zeros; the double `frac · 2^-32` (`FracRep`), `secfracs2float`, `doubleToSecfracs`, its `%a` text.
  Part 2 (namespace `Rtosc.Pretty.TokTimeFrac`): `scanDate`, `skipDate`, the printer.
  Part 3 (namespace `Rtosc.Pretty`): `printsTok_time_frac`.
-/
import RtoscModel.Proofs.PrettyTokTime
import RtoscModel.Proofs.PrettyTokFloat
import RtoscModel.Proofs.PrettyTokWord

set_option linter.unusedSimpArgs false
set_option linter.unusedVariables false

/-! ## Part 1: libc-level facts -/
namespace Rtosc.Libc
open Rtosc

/-! ### hexadecimal float text with a run of integer digits and any non-digit behind it -/

/-- the part of a hexadecimal float text behind `0x`: integer digits, optional fraction, exponent -/
def hexGen (xs fr : Bytes) (eneg : Bool) (eds : Bytes) : Bytes :=
  xs ++ ((if fr.isEmpty then [] else 46 :: fr) ++ 112 :: (if eneg then 45 else 43) :: eds)

theorem hexBody_hexGen (lead : UInt8) (fr : Bytes) (eneg : Bool) (eds : Bytes) :
    hexBody lead fr eneg eds = hexGen [lead] fr eneg eds := rfl

theorem collectFloat_stop_exp (tail : Bytes) (gd : Bool) (h : isdigit (hd tail) = false) :
    collectFloat tail ⟨gd, true, true, true, false⟩ = ([], tail) := by
  cases tail with
  | nil => rfl
  | cons c r => simp only [hd_cons] at h; simp [collectFloat, h]

theorem collectFloat_expTail (eneg : Bool) (eds tail : Bytes) (heds : ∀ c ∈ eds, isdigit c = true)
    (ht : isdigit (hd tail) = false) (gdot : Bool) :
    collectFloat (112 :: (if eneg then 45 else 43) :: (eds ++ tail)) ⟨true, false, gdot, true, false⟩ =
      (112 :: (if eneg then 45 else 43) :: eds, tail) := by
  have h1 : isdigit 112 = false := by decide
  have h2 : isxdigit 112 = false := by decide
  have h3 : tolower 112 = 112 := by decide
  have hstop := fun gd' => collectFloat_stop_exp tail gd' ht
  cases eneg
  · have b1 : isdigit 43 = false := by decide
    simp [collectFloat, h1, h2, h3, b1, collectFloat_digits eds tail heds, hstop]
  · have b1 : isdigit 45 = false := by decide
    simp [collectFloat, h1, h2, h3, b1, collectFloat_digits eds tail heds, hstop]

theorem collectFloat_hexGen (xs fr : Bytes) (eneg : Bool) (eds tail : Bytes)
    (hxs : ∀ c ∈ xs, isxdigit c = true) (hne : xs ≠ []) (hfr : ∀ c ∈ fr, isxdigit c = true)
    (heds : ∀ c ∈ eds, isdigit c = true) (ht : isdigit (hd tail) = false) :
    collectFloat (hexGen xs fr eneg eds ++ tail) ⟨false, false, false, true, false⟩ =
      (hexGen xs fr eneg eds, tail) := by
  have hxe : xs.isEmpty = false := by cases xs <;> simp at hne ⊢
  unfold hexGen
  rw [List.append_assoc, collectFloat_xdigits xs _ hxs]
  simp only [hxe, Bool.not_false, Bool.or_true, Bool.and_false]
  by_cases hfe : fr.isEmpty = true
  · simp only [hfe, ↓reduceIte, List.nil_append, List.cons_append]
    rw [collectFloat_expTail eneg eds tail heds ht false]
  · have : (fr.isEmpty) = false := by simpa using hfe
    simp only [hfe, Bool.false_eq_true, ↓reduceIte, List.cons_append, List.append_assoc]
    rw [collectFloat_dot, collectFloat_xdigits fr _ hfr]
    simp only [this, Bool.not_false, Bool.or_true, Bool.and_false]
    rw [collectFloat_expTail eneg eds tail heds ht true]

/-- `strtod` on the characters of a hexadecimal float with a run of integer digits -/
theorem strtodMag_hexGen (F : FFmt) (xs fr : Bytes) (eneg : Bool) (eds : Bytes)
    (hxs : ∀ c ∈ xs, isxdigit c = true) (hxne : xs ≠ []) (hfr : ∀ c ∈ fr, isxdigit c = true)
    (hne : eds ≠ []) (heds : ∀ c ∈ eds, isdigit c = true) :
    ∃ n, strtodMag F (48 :: 120 :: hexGen xs fr eneg eds) =
      some (hexToBits F (digitsVal 16 xs * 16 ^ fr.length + digitsVal 16 fr)
        ((if eneg then -(digitsVal 10 eds : Int) else (digitsVal 10 eds : Int)) - 4 * (fr.length : Int)), n) := by
  have h120 : tolower 120 = 120 := by decide
  have hxl : xs.length ≠ 0 := by
    intro h0; exact hxne (List.length_eq_zero_iff.mp h0)
  unfold strtodMag hexGen
  simp only [h120, ↓reduceIte]
  by_cases hfe : fr.isEmpty = true
  · have hnil : fr = [] := by simpa using hfe
    subst hnil
    have h1 := takeHex_run xs (112 :: (if eneg then 45 else 43) :: eds) hxs (by rw [hd_cons]; decide) 0 0
    simp only [Nat.zero_mul, Nat.zero_add] at h1
    simp only [List.isEmpty_nil, ↓reduceIte, List.nil_append, h1]
    simp [takeExp_p eneg eds hne heds, digitsVal, hxl]
  · have hfe' : fr.isEmpty = false := by simpa using hfe
    have h1 := takeHex_run xs (46 :: (fr ++ 112 :: (if eneg then 45 else 43) :: eds)) hxs (by rw [hd_cons]; decide) 0 0
    simp only [Nat.zero_mul, Nat.zero_add] at h1
    have h2 := takeHex_run fr (112 :: (if eneg then 45 else 43) :: eds) hfr (by rw [hd_cons]; decide) (digitsVal 16 xs) 0
    simp only [Nat.zero_add] at h2
    have hlen : fr.length ≠ 0 := by
      intro h0; rw [List.length_eq_zero_iff.mp h0] at hfe'; simp at hfe'
    simp only [hfe', Bool.false_eq_true, ↓reduceIte, List.cons_append, h1, h2, takeExp_p eneg eds hne heds]
    simp [hxne]

theorem hexGen_length (xs fr : Bytes) (eneg : Bool) (eds : Bytes) :
    (hexGen xs fr eneg eds).length =
      xs.length + (if fr.isEmpty then 0 else fr.length + 1) + 2 + eds.length := by
  unfold hexGen
  split <;> simp <;> omega

/-- `%f` / `%lf` of sscanf on an unsigned hexadecimal float that is followed by a non-digit -/
theorem scanFloat_hexGen (F : FFmt) (xs fr : Bytes) (eneg : Bool) (eds tail : Bytes)
    (hxs : ∀ c ∈ xs, isxdigit c = true) (hxne : xs ≠ []) (hfr : ∀ c ∈ fr, isxdigit c = true)
    (hne : eds ≠ []) (heds : ∀ c ∈ eds, isdigit c = true) (ht : isdigit (hd tail) = false) :
    scanFloat F (48 :: 120 :: (hexGen xs fr eneg eds ++ tail)) =
      some (hexToBits F (digitsVal 16 xs * 16 ^ fr.length + digitsVal 16 fr)
          ((if eneg then -(digitsVal 10 eds : Int) else (digitsVal 10 eds : Int)) - 4 * (fr.length : Int)),
        tail) := by
  obtain ⟨n, hn⟩ := strtodMag_hexGen F xs fr eneg eds hxs hxne hfr hne heds
  have hcf := collectFloat_hexGen xs fr eneg eds tail hxs hxne hfr heds ht
  have hlen := hexGen_length xs fr eneg eds
  have hxl : 0 < xs.length := List.length_pos_iff.mpr hxne
  have hlen2 : (hexGen xs fr eneg eds).length + 2 ≠ 2 := by omega
  have h48 : isspace 48 = false := by decide
  have ht48 : tolower 48 = 48 := by decide
  have ht120 : tolower 120 = 120 := by decide
  unfold scanFloat
  simp [skipSpace, h48, ht48, ht120, hcf, hn, hlen2]

/-! ### `%f` on `.ddd`, `%d` / `%x` on digit runs -/

theorem strtodMag_dotdigits (F : FFmt) (fr : Bytes) (hne : fr ≠ []) (hfr : ∀ c ∈ fr, isdigit c = true) :
    ∃ v, strtodMag F (46 :: fr) = some v := by
  rcases strtodMag_dec F (46 :: fr) with h | h
  · rw [h]
    unfold strtodDec
    have h46 : isdigit 46 = false := by decide
    have h2 := takeDec_run fr [] hfr (by decide) 0 0
    simp only [List.append_nil, Nat.zero_mul, Nat.zero_add] at h2
    have hlen : fr.length ≠ 0 := by
      intro h0; exact hne (List.length_eq_zero_iff.mp h0)
    simp [takeDec, h46, h2, hlen]
  · exact h

/-- `%f` / `%lf` on `.ddd` (no integer part): everything is consumed and a value is delivered -/
theorem scanFloat_dotdigits (F : FFmt) (fr tail : Bytes) (hne : fr ≠ []) (hfr : ∀ c ∈ fr, isdigit c = true)
    (h1 : isdigit (hd tail) = false) (h2 : tolower (hd tail) ≠ 101) :
    ∃ v, scanFloat F (46 :: (fr ++ tail)) = some (v, tail) := by
  obtain ⟨_, t110, t105, hsp, h45, h43⟩ := digit_or_dot_facts 46 (Or.inr rfl)
  obtain ⟨v, hv⟩ := strtodMag_dotdigits F fr hne hfr
  have hcf : collectFloat (46 :: (fr ++ tail)) ⟨false, false, false, false, false⟩ = (46 :: fr, tail) := by
    rw [collectFloat_dot, collectFloat_digits fr _ hfr]
    simp only [Bool.false_and]
    rw [collectFloat_stop_dec tail _ h1 h2]
    simp
  refine ⟨v.1, ?_⟩
  unfold scanFloat
  simp [skipSpace, hsp, t110, t105, hcf, hv]

theorem digitsVal_cons_zero (b : Nat) (ds : Bytes) : digitsVal b (48 :: ds) = digitsVal b ds := by
  rw [digitsVal_cons]
  have : xval 48 = 0 := by decide
  simp [this]

/-- `%d` on a run of digits (leading zeros are digits) -/
theorem scanInt_d_run (ds tail : Bytes) (hne : ds ≠ []) (hds : ∀ c ∈ ds, isdigit c = true)
    (ht : isdigit (hd tail) = false) :
    scanInt .d none (ds ++ tail) = some (clampI64 (digitsVal 10 ds : Int), tail) := by
  cases ds with
  | nil => exact absurd rfl hne
  | cons d ds' =>
    have hd0 := hds d (by simp)
    have hds' : ∀ c ∈ ds', isdigit c = true := fun c hc => hds c (by simp [hc])
    by_cases h48 : d = 48
    · subst h48
      have htd := takeDigits10 ds' tail hds' ht
      have h48sp : isspace 48 = false := by decide
      rw [digitsVal_cons_zero]
      unfold scanInt
      simp only [List.cons_append, skipSpace, h48sp, Bool.false_eq_true, ↓reduceIte]
      simp [intPrefix10_zero (ds' ++ tail) none rfl, wDec, htd, intValue]
    · exact scanInt_digits_pos .d (by decide) d ds' tail hd0 h48 hds' ht

theorem takeDigits16 (xs rest : Bytes) (hxs : ∀ c ∈ xs, isxdigit c = true) (hr : isxdigit (hd rest) = false) :
    takeDigits 16 (xs ++ rest) none = (xs, rest) := by
  induction xs with
  | nil => exact takeDigits_nondigit 16 rest none (by simp [digitOk, hr])
  | cons c r ih =>
    have hc := hxs c (by simp)
    have := ih (fun x hx => hxs x (by simp [hx]))
    simp [takeDigits, wOk, wDec, digitOk, hc, this]

theorem isxdigit_facts (c : UInt8) (h : isxdigit c = true) :
    c ≠ 45 ∧ c ≠ 43 ∧ isspace c = false ∧ tolower c ≠ 120 ∧ c ≠ 46 ∧ c ≠ 112 := by
  revert h; revert c; apply UInt8.forall_of_fin; decide +kernel

/-- `%x` on a run of hexadecimal digits -/
theorem scanInt_x_run (xs tail : Bytes) (hne : xs ≠ []) (hxs : ∀ c ∈ xs, isxdigit c = true)
    (ht : isxdigit (hd tail) = false) (ht2 : tolower (hd tail) ≠ 120) :
    ∃ v, scanInt .x none (xs ++ tail) = some (v, tail) := by
  cases xs with
  | nil => exact absurd rfl hne
  | cons c xs' =>
    have hc := hxs c (by simp)
    have hxs' : ∀ c ∈ xs', isxdigit c = true := fun c hc => hxs c (by simp [hc])
    obtain ⟨h45, h43, hsp, _, _, _⟩ := isxdigit_facts c hc
    have hnx : tolower (hd (xs' ++ tail)) ≠ 120 := by
      cases xs' with
      | nil => simpa using ht2
      | cons e t => simpa using (isxdigit_facts e (hxs' e (by simp))).2.2.2.1
    unfold scanInt
    simp only [List.cons_append, skipSpace, hsp, Bool.false_eq_true, ↓reduceIte]
    apply exists_of_map_snd
    by_cases h48 : c = 48
    · subst h48
      have htd := takeDigits16 xs' tail hxs' ht
      simp [intPrefix, wOk, wDec, hnx, htd]
    · have htd := takeDigits16 (c :: xs') tail hxs ht
      simp only [List.cons_append] at htd
      simp [h45, h43, intPrefix_nonzero _ _ _ _ h48, htd]

/-! ### the double `frac · 2^-32` -/

theorem f32_assemble (ef fr : Nat) (hef : ef < 256) (hfr : fr < 2 ^ 23) :
    f32.sign (ef * 2 ^ 23 + fr) = false ∧ f32.expField (ef * 2 ^ 23 + fr) = ef ∧
    f32.frac (ef * 2 ^ 23 + fr) = fr := by
  simp only [FFmt.expField, FFmt.mag, FFmt.frac, FFmt.sign, FFmt.signBit, f32, Nat.reduceAdd, Nat.reducePow]
  refine ⟨?_, by omega, by omega⟩
  apply decide_eq_false
  omega

/-- `B` is the (normal, positive) double with the value `frac · 2^-32`, `1 ≤ frac < 2^32` -/
structure FracRep (frac B : Nat) : Prop where
  fin : f64.expField B ≠ 2047
  lt : B < 2 ^ 64
  pos : f64.sign B = false
  shape : ∃ j : Nat, j ≤ 31 ∧ f64.expField B = j + 991 ∧ f64.sig B = frac * 2 ^ (52 - j)

theorem mul_pow2_pow2 (a p q : Nat) : a * 2 ^ p * 2 ^ q = a * 2 ^ (p + q) := by
  rw [Nat.mul_assoc, ← Nat.pow_add]

/-- the `float` nearest to `frac · 2^-32` is exact when `frac = m · 2^k`, `m < 2^24`; promoted to
    double it is the double `frac · 2^-32` -/
theorem fracRep_promote (frac : Nat) (hf0 : 0 < frac) (hf1 : frac < 4294967296)
    (hrep : ∃ m k : Nat, m < 16777216 ∧ frac = m * 2 ^ k) :
    FracRep frac (promote (hexToBits f32 frac (-32))) := by
  obtain ⟨m, k, hm, hfk⟩ := hrep
  have hm0 : m ≠ 0 := by intro h; subst h; simp at hfk; omega
  generalize hLd : Nat.log2 m = L
  have hlo : 2 ^ L ≤ m := by rw [← hLd]; exact Nat.log2_self_le hm0
  have hhi : m < 2 ^ (L + 1) := by rw [← hLd]; exact Nat.lt_log2_self
  have hL : L ≤ 23 := by
    have h1 : 2 ^ L < 2 ^ 24 := by
      have : (2 : Nat) ^ 24 = 16777216 := by norm_num
      omega
    have := (Nat.pow_lt_pow_iff_right (by decide : 1 < 2)).mp h1
    omega
  have hLk : L + k ≤ 31 := by
    have h1 : 2 ^ (L + k) < 2 ^ 32 := by
      have e : (2 : Nat) ^ 32 = 4294967296 := by norm_num
      rw [Nat.pow_add, e]
      calc 2 ^ L * 2 ^ k ≤ m * 2 ^ k := Nat.mul_le_mul_right _ hlo
        _ < 4294967296 := by rw [← hfk]; exact hf1
    have := (Nat.pow_lt_pow_iff_right (by decide : 1 < 2)).mp h1
    omega
  -- the 24-bit significand
  have hp : (2 : Nat) ^ L * 2 ^ (23 - L) = 2 ^ 23 := by rw [← Nat.pow_add]; congr 1; omega
  have hp' : (2 : Nat) ^ (L + 1) * 2 ^ (23 - L) = 2 ^ 24 := by rw [← Nat.pow_add]; congr 1; omega
  have hMlo : 2 ^ 23 ≤ m * 2 ^ (23 - L) := by rw [← hp]; exact Nat.mul_le_mul_right _ hlo
  have hMhi : m * 2 ^ (23 - L) < 2 ^ 24 := by
    rw [← hp']; exact Nat.mul_lt_mul_of_pos_right hhi (Nat.two_pow_pos _)
  generalize hMd : m * 2 ^ (23 - L) = M at hMlo hMhi
  have hq32 : f32.qmin = -149 := by decide
  have hm32 : f32.mbits = 23 := by decide
  have hx32 : f32.expMax = 255 := by decide
  have hM0 : M ≠ 0 := by have : 0 < 2 ^ 23 := Nat.two_pow_pos _; omega
  have hbits : hexToBits f32 frac (-32) = encBits f32 M (((k + L : Nat) : Int) - 55) := by
    apply hexToBits_exact f32 frac (-32) M _ (23 - L) k
    · rw [hfk, ← hMd]; ring
    · omega
    · exact hM0
    · rw [hm32]; exact hMhi
    · rw [hq32]; omega
    · left; rw [hm32]; exact hMlo
    · rw [hq32, hx32]; omega
    · omega
    · rw [hm32]; omega
  have henc : encBits f32 M (((k + L : Nat) : Int) - 55) = (k + L + 95) * 2 ^ 23 + (M - 2 ^ 23) := by
    unfold encBits
    rw [hm32, hq32]
    have hnlt : ¬ (M < 2 ^ 23) := by omega
    simp only [hnlt, ↓reduceIte]
    have : (((k + L : Nat) : Int) - 55 - -149 + 1).toNat = k + L + 95 := by omega
    rw [this]
  rw [hbits, henc]
  generalize hbd : (k + L + 95) * 2 ^ 23 + (M - 2 ^ 23) = b
  obtain ⟨a1, a2, a3⟩ := f32_assemble (k + L + 95) (M - 2 ^ 23) (by omega) (by omega)
  rw [hbd] at a1 a2 a3
  have hsig : f32.sig b = M := by
    rw [sig_eq f32, a2, a3, hm32]
    have : k + L + 95 ≠ 0 := by omega
    simp only [this, ↓reduceIte]; omega
  have hexq : f32.exq b = ((k + L : Nat) : Int) - 55 := by
    rw [exq_eq f32, a2]
    have : k + L + 95 ≠ 0 := by omega
    have hb : (f32.bias : Int) = 127 := by decide
    simp only [this, ↓reduceIte, hb, hm32]; omega
  obtain ⟨hPfin, hPlt, hPsign, hP⟩ := promote_fin b (by rw [a2]; omega)
  rcases hP with ⟨hs0, _⟩ | ⟨_, s, hs1, hs2⟩
  · rw [hsig] at hs0; exact absurd hs0 hM0
  · rw [hsig] at hs1
    rw [hexq] at hs2
    generalize promote b = B at *
    obtain ⟨hsigB, _, _, _, _⟩ := f64_fields B
    have hq64 : f64.qmin = -1074 := by decide
    have hm64 : f64.mbits = 52 := by decide
    have hb64 : (f64.bias : Int) = 1023 := by decide
    have hs_le : s ≤ 29 := by
      have h1 : 2 ^ (23 + s) < 2 ^ 53 := by
        rw [Nat.pow_add]
        calc 2 ^ 23 * 2 ^ s ≤ M * 2 ^ s := Nat.mul_le_mul_right _ hMlo
          _ < 2 ^ 53 := by rw [← hs1]; exact hsigB
      have := (Nat.pow_lt_pow_iff_right (by decide : 1 < 2)).mp h1
      omega
    have hexp0 : f64.expField B ≠ 0 := by
      intro h0
      rw [exq_eq f64, if_pos h0, hq64] at hs2
      omega
    have hs_ge : 29 ≤ s := by
      have h1 : 2 ^ 52 < 2 ^ (24 + s) := by
        rw [Nat.pow_add]
        have h2 : 2 ^ 52 ≤ f64.sig B := by
          rw [sig_eq f64, if_neg hexp0, hm64]; omega
        calc 2 ^ 52 ≤ M * 2 ^ s := by rw [← hs1]; exact h2
          _ < 2 ^ 24 * 2 ^ s := Nat.mul_lt_mul_of_pos_right hMhi (Nat.two_pow_pos _)
      have := (Nat.pow_lt_pow_iff_right (by decide : 1 < 2)).mp h1
      omega
    have hs29 : s = 29 := by omega
    subst hs29
    refine ⟨hPfin, hPlt, by rw [hPsign, a1], k + L, by omega, ?_, ?_⟩
    · rw [exq_eq f64, if_neg hexp0, hb64, hm64] at hs2
      omega
    · have he : 23 - L + 29 = k + (52 - (k + L)) := by omega
      rw [hs1, ← hMd, hfk, mul_pow2_pow2, mul_pow2_pow2, he]

/-- `(uint64_t)(d * 4294967296.0)` of the double `frac · 2^-32` -/
theorem FracRep.value (frac B : Nat) (h : FracRep frac B) (hf0 : 0 < frac) :
    f64.classify B = .fin (f64.sig B) (f64.exq B) ∧
    ∃ j : Nat, j ≤ 31 ∧ f64.expField B = j + 991 ∧ f64.sig B = frac * 2 ^ (52 - j) ∧ f64.exq B = (j : Int) - 84 := by
  obtain ⟨j, hj, hexp, hsig⟩ := h.shape
  have hmax : f64.expMax = 2047 := by decide
  have hb64 : (f64.bias : Int) = 1023 := by decide
  have hm64 : (f64.mbits : Int) = 52 := by decide
  have hs : f64.sig B ≠ 0 := by
    rw [hsig]
    have : 0 < frac * 2 ^ (52 - j) := Nat.mul_pos hf0 (Nat.two_pow_pos _)
    omega
  have hexq : f64.exq B = (j : Int) - 84 := by
    rw [exq_eq f64, hexp]
    have : j + 991 ≠ 0 := by omega
    simp only [this, ↓reduceIte, hb64, hm64]; omega
  rcases classify_fin f64 B (by rw [hmax]; exact h.fin) with ⟨h0, _⟩ | ⟨_, hc⟩
  · exact absurd h0 hs
  · exact ⟨hc, j, hj, hexp, hsig, hexq⟩

/-- the shape of the `%a` text of the double `frac · 2^-32`: `0x1[.hhh]p-N`, `1 ≤ N ≤ 32` -/
theorem fmtA_fracRep (frac B : Nat) (h : FracRep frac B) :
    ∃ fr eds, fmtA B = hexTxt false 49 fr true eds ∧ (∀ c ∈ fr, isxdigit c = true) ∧ stripZeros fr = fr ∧
      eds ≠ [] ∧ (∀ c ∈ eds, isdigit c = true) ∧ 0 < digitsVal 10 eds ∧ digitsVal 10 eds ≤ 32 := by
  obtain ⟨j, hj, hexp, hsig⟩ := h.shape
  have hmax : f64.expMax = 2047 := by decide
  have hexp0 : f64.expField B ≠ 0 := by omega
  obtain ⟨_, hfrac, _, _, _⟩ := f64_fields B
  obtain ⟨hflen, hfall, hfval⟩ := hexFixed_facts 13 (f64.frac B) (by
    have : (16 : Nat) ^ 13 = 2 ^ 52 := by norm_num
    rw [this]; exact hfrac)
  obtain ⟨hn1, hn2, hn3⟩ := fmtNat_facts (32 - j)
  refine ⟨stripZeros (hexFixed 13 (f64.frac B)), fmtNat (32 - j), ?_, ?_, stripZeros_idem _, hn1, hn2, ?_, ?_⟩
  · have hc : f64.classify B =
        .fin (2 ^ f64.mbits + f64.frac B) ((f64.expField B : Int) - (f64.bias : Int) - (f64.mbits : Int)) := by
      unfold FFmt.classify
      rw [hmax]
      simp only [h.fin, hexp0, ↓reduceIte]
    have hex : (j : Int) + 991 < 1023 := by omega
    have hna : ((j : Int) + 991 - 1023).natAbs = 32 - j := by omega
    unfold fmtA hexTxt
    simp only [hc, h.pos, hexp0, ↓reduceIte, hexp]
    simp [hex, hna]
  · intro c hc'
    exact hfall c (stripZeros_mem _ c hc')
  · rw [hn3]; omega
  · rw [hn3]; omega

/-- `%lf` reads the `%a` text of a positive finite double back bit-exactly, whatever non-digit follows -/
theorem scanFloat_fmtA_tail (B : Nat) (hB : B < 2 ^ 64) (hfin : f64.expField B ≠ 2047)
    (hpos : f64.sign B = false) (tail : Bytes) (ht : isdigit (hd tail) = false) :
    scanFloat f64 (fmtA B ++ tail) = some (B, tail) := by
  obtain ⟨lead, fr, eneg, eds, htxt, hlead, hfr, _, hne, heds, hval⟩ := fmtA_fin B hfin
  obtain ⟨_, _, _, hmag, hsplit⟩ := f64_fields B
  rw [Nat.mod_eq_of_lt hB, hpos] at hsplit
  obtain ⟨_, _, _, _, hxv, _, _⟩ := isdigit_facts lead hlead
  have hxl : isxdigit lead = true := by simp [isxdigit, hlead]
  have hv1 : digitsVal 16 [lead] = dval lead := by simp [digitsVal, hxv]
  have hshape : fmtA B ++ tail = 48 :: 120 :: (hexGen [lead] fr eneg eds ++ tail) := by
    rw [htxt, hpos, hexTxt_eq, hexBody_hexGen]; simp
  rw [hshape, scanFloat_hexGen f64 [lead] fr eneg eds tail (by simpa using hxl) (by simp) hfr hne heds ht, hv1]
  congr 2
  rcases hval with ⟨hs, hm⟩ | ⟨hs, z, hm, hx⟩
  · rw [hm, hexToBits_zero]
    have : f64.mag B = 0 := by
      rw [hmag]
      unfold FFmt.sig at hs
      have hp : 0 < 2 ^ f64.mbits := Nat.two_pow_pos _
      by_cases h0 : f64.expField B = 0
      · simp only [h0, ↓reduceIte, Nat.zero_add] at hs; simp [h0, hs]
      · simp only [h0, ↓reduceIte] at hs; omega
    simp at hsplit; omega
  · obtain ⟨a1, a2, a3, a4, a5, a6, a7⟩ := encBits_f64 B hfin hs
    rw [hexToBits_exact f64 _ _ (f64.sig B) (f64.exq B) (4 * z) 0 (by simpa using hm) (by push_cast; omega)
      hs a1 a2 a3 a4 a5 a6, a7]
    simp at hsplit; omega

/-! ### `%.Nf` -/

theorem fmtF_noalt (p B : Nat) (hp : p ≠ 0) : fmtF false p B = fmtF true p B := by
  unfold fmtF
  simp [hp]

theorem dropWhile_ne46 (ds tl : Bytes) (hds : ∀ c ∈ ds, isdigit c = true) :
    (ds ++ 46 :: tl).dropWhile (· ≠ 46) = 46 :: tl := by
  induction ds with
  | nil => simp [List.dropWhile]
  | cons c r ih =>
    have hc := hds c (by simp)
    have hne : c ≠ 46 := by intro h; subst h; revert hc; decide
    rw [List.cons_append, List.dropWhile_cons_of_pos (by simpa using hne)]
    exact ih (fun x hx => hds x (by simp [hx]))

/-- the part of the `%.Nf` text of a positive finite double from the '.' on: '.', then `N` digits -/
theorem fmtF_fracTxt (p B : Nat) (hp : p ≠ 0) (hfin : f64.expField B ≠ 2047) (hpos : f64.sign B = false) :
    ∃ ip fr, fmtF false p B = ip ++ 46 :: fr ∧ (fmtF false p B).dropWhile (· ≠ 46) = 46 :: fr ∧
      (∀ c ∈ fr, isdigit c = true) ∧ fr.length = p := by
  obtain ⟨n, fr, he, hfr, hlen⟩ := fmtF_fin p B hfin
  obtain ⟨_, hn2, _⟩ := fmtNat_facts n
  rw [hpos] at he
  simp only [Bool.false_eq_true, ↓reduceIte, List.nil_append] at he
  refine ⟨fmtNat n, fr, ?_, ?_, hfr, hlen⟩
  · rw [fmtF_noalt p B hp, he]
  · rw [fmtF_noalt p B hp, he]; exact dropWhile_ne46 _ _ hn2

end Rtosc.Libc

/-! ## Part 2: scanner, checker and printer on the text of a time tag with a fraction -/
namespace Rtosc.Pretty.TokTimeFrac
open Rtosc Rtosc.Libc Rtosc.Libc.TimeFmt Rtosc.Pretty Rtosc.Pretty.TokTime
open Rtosc.ArgVal (Cell)

/-- `rtosc_secfracs2float` is `strtof` of `0x<frac>p-32` -/
theorem secfracs2float_eq (frac : Nat) (hf0 : 0 < frac) (hf1 : frac < 4294967296) :
    secfracs2float frac = .ok (hexToBits f32 frac (-32)) := by
  have hne : frac ≠ 0 := by omega
  have hxs := hexDigits_all frac
  have hval := digitsVal_hexDigits frac
  have hxne : hexDigitsAux frac [] ≠ [] := by
    intro h; rw [h] at hval; simp [digitsVal] at hval; omega
  have htxt : lit "0x" ++ fmtHex (frac % 4294967296) ++ lit "p-32" =
      (48 :: 120 :: hexGen (hexDigitsAux frac []) [] true [51, 50]) ++ [] := by
    rw [Nat.mod_eq_of_lt hf1]
    have e1 : lit "0x" = [48, 120] := by decide
    have e2 : lit "p-32" = [112, 45, 51, 50] := by decide
    simp [fmtHex, hne, e1, e2, hexGen]
  have hsc := scanFloat_hexGen f32 (hexDigitsAux frac []) [] true [51, 50] [] hxs hxne (by simp) (by simp)
    (by decide) (by decide)
  have e3 : digitsVal 10 [51, 50] = 32 := by decide
  have e4 : digitsVal 16 ([] : Bytes) = 0 := rfl
  simp only [hval, e3, e4, List.length_nil, Nat.pow_zero, Nat.mul_one, Nat.add_zero, ↓reduceIte] at hsc
  have e5 : (-((32 : Nat) : Int) - 4 * ((0 : Nat) : Int)) = -32 := by decide
  rw [e5] at hsc
  unfold secfracs2float
  rw [htxt]
  unfold fmtScFloat
  rw [sscanf_flt_n false false (48 :: 120 :: hexGen (hexDigitsAux frac []) [] true [51, 50]) [] _ hsc]
  rfl

/-! ### scanner -/

theorem skipFmt_scFracOpen (dfr tl : Bytes) (hne : dfr ≠ []) (hdfr : ∀ c ∈ dfr, isdigit c = true) :
    skipFmt fmtScFracOpen (46 :: (dfr ++ 32 :: 40 :: tl)) = dfr.length + 3 := by
  obtain ⟨v, hv⟩ := scanFloat_dotdigits f32 dfr (32 :: 40 :: tl) hne hdfr (by rw [hd_cons]; decide)
    (by rw [hd_cons]; decide)
  have h32 : isspace 32 = true := by decide
  have h40 : isspace 40 = false := by decide
  unfold skipFmt scanRd sscanf fmtScFracOpen
  rw [sscanfGo_flt_some false true _ _ _ _ _ _ hv]
  simp [sscanfGo, skipSpace, h32, h40]
  omega

theorem sscanf_scLoss (hx rest : Bytes) (B : Nat)
    (hsp : skipSpace (hx ++ 115 :: 41 :: rest) = hx ++ 115 :: 41 :: rest)
    (hscan : scanFloat f64 (hx ++ 115 :: 41 :: rest) = some (B, 115 :: 41 :: rest)) :
    sscanf fmtScLoss (46 :: 46 :: 46 :: 43 :: (hx ++ 115 :: 41 :: rest)) = [.flt B, .pos (hx.length + 6)] := by
  have h46 : isspace 46 = false := by decide
  have h43 : isspace 43 = false := by decide
  have h115 : isspace 115 = false := by decide
  have h41 : isspace 41 = false := by decide
  unfold sscanf fmtScLoss
  simp only [sscanfGo, skipSpace, h46, h43, Bool.false_eq_true, ↓reduceIte, hsp]
  simp [hscan, skipSpace, h115, h41]
  omega

theorem drop_fracOpen (dfr tl : Bytes) : (46 :: (dfr ++ 32 :: 40 :: tl)).drop (dfr.length + 3) = tl := by
  have : 46 :: (dfr ++ 32 :: 40 :: tl) = (46 :: (dfr ++ [32, 40])) ++ tl := by simp
  rw [this]
  apply List.drop_left'
  simp

theorem drop_loss (hx rest : Bytes) :
    (46 :: 46 :: 46 :: 43 :: (hx ++ 115 :: 41 :: rest)).drop (hx.length + 6) = rest := by
  have : 46 :: 46 :: 46 :: 43 :: (hx ++ 115 :: 41 :: rest) = (46 :: 46 :: 46 :: 43 :: (hx ++ [115, 41])) ++ rest := by simp
  rw [this]
  apply List.drop_left'
  simp

/-- `YYYY-MM-DD HH:MM:SS.ddd (...+<hex>s)` -/
theorem scanDate_frac (ya yb yc yd ma mb da db ha hb na nb sa sb : UInt8) (dfr hx rest : Bytes) (B frac : Nat)
    (h : DateDigits ya yb yc yd ma mb da db) (h1 : isdigit ha = true) (h2 : isdigit hb = true)
    (h3 : isdigit na = true) (h4 : isdigit nb = true) (h5 : isdigit sa = true) (h6 : isdigit sb = true)
    (hdne : dfr ≠ []) (hdfr : ∀ c ∈ dfr, isdigit c = true)
    (hsp : skipSpace (hx ++ 115 :: 41 :: rest) = hx ++ 115 :: 41 :: rest)
    (hscan : scanFloat f64 (hx ++ 115 :: 41 :: rest) = some (B, 115 :: 41 :: rest))
    (hsf : doubleToSecfracs B = .ok frac) :
    scanDate (ya :: yb :: yc :: yd :: 45 :: ma :: mb :: 45 :: da :: db :: 32 :: ha :: hb :: 58 :: na :: nb :: 58 :: sa :: sb ::
        46 :: (dfr ++ 32 :: 40 :: 46 :: 46 :: 46 :: 43 :: (hx ++ 115 :: 41 :: rest))) =
      .ok ⟨rest, [Cell.time (timeFromParams ⟨dv4 ya yb yc yd, dv2 ma mb, dv2 da db, dv2 ha hb, dv2 na nb, dv2 sa sb⟩ frac)], true⟩ := by
  have hopen := skipFmt_scFracOpen dfr (46 :: 46 :: 46 :: 43 :: (hx ++ 115 :: 41 :: rest)) hdne hdfr
  have hdrop1 := drop_fracOpen dfr (46 :: 46 :: 46 :: 43 :: (hx ++ 115 :: 41 :: rest))
  have hloss := sscanf_scLoss hx rest B hsp hscan
  have hdrop2 := drop_loss hx rest
  have hne0 : dfr.length + 3 ≠ 0 := by omega
  simp [scanDate, sscanf_scDate _ _ _ _ _ _ _ _ _ h, sscanf_scHM _ _ _ _ _ h1 h2 h3 h4, sscanf_scS _ _ _ h5 h6,
    toI32_dv2 _ _ h.hma h.hmb, toI32_dv2 _ _ h.hda h.hdb, toI32_dv2 _ _ h1 h2, toI32_dv2 _ _ h3 h4, toI32_dv2 _ _ h5 h6,
    toI32_dv4 _ _ _ _ h.hya h.hyb h.hyc h.hyd, hopen, hdrop1, hloss, hdrop2, hsf, hne0,
    bind, Except.bind, pure, Except.pure]

theorem timeFromParams_frac (tm : Tm) (secs frac : Nat) (h : secs < 4294967296) (hf : frac < 4294967296)
    (hm : mktime tm = (secs : Int)) :
    timeFromParams tm frac = secs * 4294967296 + frac := by
  have ht : (((secs : Nat) : Int) % 18446744073709551616).toNat = secs := by omega
  have hx : secs * 4294967296 % 18446744073709551616 = secs * 4294967296 := by omega
  have hfm : frac % 18446744073709551616 = frac := by omega
  simp only [timeFromParams, hm, ht, hx, hfm]
  show frac ||| secs * 4294967296 = secs * 4294967296 + frac
  have e : (4294967296 : Nat) = 2 ^ 32 := by norm_num
  have key := Nat.shiftLeft_add_eq_or_of_lt (i := 32) (b := frac) (by rw [← e]; exact hf) secs
  rw [Nat.shiftLeft_eq, ← e] at key
  rw [Nat.or_comm, key]

/-! ### checker -/

/-- `.%*d%n` on `.ddd` -/
theorem skipFmt_ckFrac (dfr tl : Bytes) (hne : dfr ≠ []) (hdfr : ∀ c ∈ dfr, isdigit c = true)
    (ht : isdigit (hd tl) = false) :
    skipFmt fmtCkFrac (46 :: (dfr ++ tl)) = dfr.length + 1 := by
  have hsc := scanInt_d_run dfr tl hne hdfr ht
  unfold skipFmt scanRd sscanf fmtCkFrac
  simp [sscanfGo, hsc]
  omega

/-- ` ( ... + 0x%n` -/
theorem skipFmt_ckLossOpen (tl : Bytes) :
    skipFmt fmtCkLossOpen (32 :: 40 :: 46 :: 46 :: 46 :: 43 :: 48 :: 120 :: tl) = 8 := by
  have h32 : isspace 32 = true := by decide
  have h40 : isspace 40 = false := by decide
  have h46 : isspace 46 = false := by decide
  have h43 : isspace 43 = false := by decide
  have h48 : isspace 48 = false := by decide
  simp [skipFmt, scanRd, sscanf, fmtCkLossOpen, sscanfGo, skipSpace, h32, h40, h46, h43, h48]

/-- `%*x<c>%n` on hexadecimal digits followed by `c` ('.' or 'p') -/
theorem skipFmt_x_lit (c : UInt8) (xs tl : Bytes) (hc : c = 46 ∨ c = 112) (hne : xs ≠ [])
    (hxs : ∀ c ∈ xs, isxdigit c = true) :
    skipFmt [.int .x none true, .lit c, .n] (xs ++ c :: tl) = xs.length + 1 := by
  obtain ⟨v, hv⟩ := scanInt_x_run xs (c :: tl) hne hxs (by rcases hc with rfl | rfl <;> (rw [hd_cons]; decide))
    (by rcases hc with rfl | rfl <;> (rw [hd_cons]; decide))
  unfold skipFmt scanRd sscanf
  simp [sscanfGo, hv]

/-- `%*x.%n` fails harmlessly when the hexadecimal digits are followed by 'p' -/
theorem skipFmt_ckHexDot_p (xs tl : Bytes) (hne : xs ≠ []) (hxs : ∀ c ∈ xs, isxdigit c = true) :
    skipFmt fmtCkHexDot (xs ++ 112 :: tl) = 0 := by
  obtain ⟨v, hv⟩ := scanInt_x_run xs (112 :: tl) hne hxs (by rw [hd_cons]; decide) (by rw [hd_cons]; decide)
  unfold skipFmt scanRd sscanf fmtCkHexDot
  simp [sscanfGo, hv]

/-- `-%d s )%n` -/
theorem sscanf_ckExp (eds rest : Bytes) (hne : eds ≠ []) (heds : ∀ c ∈ eds, isdigit c = true)
    (hv1 : digitsVal 10 eds ≤ 32) :
    sscanf fmtCkExp (45 :: (eds ++ 115 :: 41 :: rest)) = [.int (digitsVal 10 eds : Int), .pos (eds.length + 3)] := by
  have hsc := scanInt_d_run eds (115 :: 41 :: rest) hne heds (by rw [hd_cons]; decide)
  rw [clampI64_id _ (by omega) (by omega)] at hsc
  have h115 : isspace 115 = false := by decide
  have h41 : isspace 41 = false := by decide
  unfold sscanf fmtCkExp
  simp [sscanfGo, hsc, skipSpace, h115, h41]
  omega

theorem drop_cons_append (c : UInt8) (xs tl : Bytes) : (c :: (xs ++ tl)).drop (xs.length + 1) = tl := by
  simp

theorem drop_exp (eds rest : Bytes) : (45 :: (eds ++ 115 :: 41 :: rest)).drop (eds.length + 3) = rest := by
  have : 45 :: (eds ++ 115 :: 41 :: rest) = (45 :: (eds ++ [115, 41])) ++ rest := by simp
  rw [this]
  apply List.drop_left'
  simp

/-- the checker behind `YYYY-MM-DD HH:MM:SS`: `.ddd (...+0x1[.hhh]p-Ns)` -/
theorem skipDate_frac (ya yb yc yd ma mb da db ha hb na nb sa sb : UInt8) (dfr xfr eds rest : Bytes)
    (h1 : isdigit ha = true) (h2 : isdigit hb = true)
    (h3 : isdigit na = true) (h4 : isdigit nb = true) (h5 : isdigit sa = true) (h6 : isdigit sb = true)
    (hdne : dfr ≠ []) (hdfr : ∀ c ∈ dfr, isdigit c = true)
    (hxfr : ∀ c ∈ xfr, isxdigit c = true) (hene : eds ≠ []) (heds : ∀ c ∈ eds, isdigit c = true)
    (hv0 : 0 < digitsVal 10 eds) (hv1 : digitsVal 10 eds ≤ 32) :
    skipDate (ya :: yb :: yc :: yd :: 45 :: ma :: mb :: 45 :: da :: db :: 32 :: ha :: hb :: 58 :: na :: nb :: 58 :: sa :: sb ::
        46 :: (dfr ++ 32 :: 40 :: 46 :: 46 :: 46 :: 43 :: (hexTxt false 49 xfr true eds ++ 115 :: 41 :: rest))) 10 =
      ⟨some rest, 1, 116, 0⟩ := by
  have hx1 : ∀ c ∈ ([49] : Bytes), isxdigit c = true := by
    intro c hc; simp at hc; subst hc; decide
  have hckF := skipFmt_ckFrac dfr (32 :: 40 :: 46 :: 46 :: 46 :: 43 :: (hexTxt false 49 xfr true eds ++ 115 :: 41 :: rest))
    hdne hdfr (by rw [hd_cons]; decide)
  have hdropF := drop_cons_append 46 dfr (32 :: 40 :: 46 :: 46 :: 46 :: 43 :: (hexTxt false 49 xfr true eds ++ 115 :: 41 :: rest))
  have hexp := sscanf_ckExp eds rest hene heds hv1
  have hdropE := drop_exp eds rest
  have hti : toI32 (digitsVal 10 eds : Int) = (digitsVal 10 eds : Int) := toI32_id _ (by omega) (by omega)
  have hpos : (0 : Int) < (digitsVal 10 eds : Int) := by omega
  have hle : (digitsVal 10 eds : Int) ≤ 32 := by omega
  have hneF : dfr.length + 1 ≠ 0 := by omega
  have hneE : eds.length + 3 ≠ 0 := by omega
  have hnz : digitsVal 10 eds ≠ 0 := by omega
  by_cases hfe : xfr = []
  · subst hfe
    have htxt : hexTxt false 49 [] true eds ++ 115 :: 41 :: rest =
        48 :: 120 :: 49 :: 112 :: 45 :: (eds ++ 115 :: 41 :: rest) := by
      simp [hexTxt]
    have hdot := skipFmt_ckHexDot_p [49] (45 :: (eds ++ 115 :: 41 :: rest)) (by simp) hx1
    have hp := skipFmt_x_lit 112 [49] (45 :: (eds ++ 115 :: 41 :: rest)) (Or.inr rfl) (by simp) hx1
    simp only [List.cons_append, List.nil_append, List.length_singleton] at hdot hp
    rw [htxt] at hckF hdropF ⊢
    simp [skipDate, skipFmt_ckHM _ _ _ _ _ h1 h2 h3 h4, skipFmt_ckS _ _ _ h5 h6, hckF, hdropF, hneF,
      skipFmt_ckLossOpen, hdot, fmtCkHexP, hp, hexp, hdropE, hneE, hti, hpos, hle, hnz]
  · have hfe' : xfr.isEmpty = false := by cases xfr <;> simp at hfe ⊢
    have htxt : hexTxt false 49 xfr true eds ++ 115 :: 41 :: rest =
        48 :: 120 :: 49 :: 46 :: (xfr ++ 112 :: 45 :: (eds ++ 115 :: 41 :: rest)) := by
      simp [hexTxt, hfe']
    have hdot := skipFmt_x_lit 46 [49] (xfr ++ 112 :: 45 :: (eds ++ 115 :: 41 :: rest)) (Or.inl rfl) (by simp) hx1
    have hp := skipFmt_x_lit 112 xfr (45 :: (eds ++ 115 :: 41 :: rest)) (Or.inr rfl) hfe hxfr
    simp only [List.cons_append, List.nil_append, List.length_singleton] at hdot
    have hneP : xfr.length + 1 ≠ 0 := by omega
    rw [htxt] at hckF hdropF ⊢
    simp [skipDate, skipFmt_ckHM _ _ _ _ _ h1 h2 h3 h4, skipFmt_ckS _ _ _ h5 h6, hckF, hdropF, hneF,
      skipFmt_ckLossOpen, fmtCkHexDot, hdot, fmtCkHexP, hp, hneP, hexp, hdropE, hneE, hti, hpos, hle, hnz]

/-! ### printer -/

/-- `remove_trailing_zeroes` leaves `%a` output unchanged, whatever follows it -/
theorem removeTrailingZeroes_hexTxt_tail (lead : UInt8) (fr : Bytes) (eneg : Bool) (eds : Bytes)
    (h : HNum lead fr eds) (hstrip : stripZeros fr = fr) (tail : Bytes) :
    removeTrailingZeroes (hexTxt false lead fr eneg eds ++ tail) = .ok (hexTxt false lead fr eneg eds ++ tail, 0) := by
  have hx112 : isxdigit 112 = false := by decide
  rw [hexTxt_eq, hexBody_eq]
  unfold hexRest
  by_cases hfe : fr.isEmpty = true
  · have hnil : fr = [] := by simpa using hfe
    subst hnil
    simp [removeTrailingZeroes]
  · have hfe' : fr.isEmpty = false := by simpa using hfe
    have hne : fr ≠ [] := by intro h0; subst h0; simp at hfe
    have htw : List.takeWhile isxdigit (fr ++ 112 :: (if eneg then 45 else 43) :: (eds ++ tail)) = fr := by
      rw [List.takeWhile_append_of_pos h.hfr]
      simp [List.takeWhile, hx112]
    have hk : (stripZeros fr).isEmpty = false := by rw [hstrip]; exact hfe'
    simp [removeTrailingZeroes, hfe', htw, hstrip, hk]

theorem lit_loss : lit " (...+" = [32, 40, 46, 46, 46, 43] := by decide
theorem lit_s : lit "s)" = [115, 41] := by decide

/-- the text of a time tag with fraction in lossless mode -/
def fracTok (tm : Tm) (dfr hex : Bytes) : Bytes :=
  (fmtDate tm ++ 32 :: fmtHM tm ++ 58 :: fmtS tm) ++ 46 :: dfr ++ [32, 40, 46, 46, 46, 43] ++ (hex ++ [115, 41])

theorem printArgVal_time_frac (fuel : Nat) (opt : POpt) (v secs frac : Nat) (more : List Cell) (prev : Option Cell)
    (st : PSt) (hl : opt.lossless = true) (hp : opt.prec ≤ 9)
    (hv1 : v ≠ 1) (hdiv : v / 4294967296 = secs) (hmod : v % 4294967296 = frac) (hf0 : frac ≠ 0)
    (b : Nat) (hflt : secfracs2float frac = .ok b) (hB : FracRep frac (promote b)) :
    ∃ dfr, dfr ≠ [] ∧ (∀ c ∈ dfr, isdigit c = true) ∧
      printArgVal (fuel + 1) opt (Cell.time v :: more) prev st =
        .ok (⟨st.out ++ fracTok (localtime (secs : Int)) dfr (fmtA (promote b)),
              st.cols + ((fracTok (localtime (secs : Int)) dfr (fmtA (promote b))).length : Nat)⟩,
          (fracTok (localtime (secs : Int)) dfr (fmtA (promote b))).length) := by
  generalize hprecd : (if opt.prec < 1 then 1 else opt.prec) = prec
  have hprec0 : prec ≠ 0 := by rw [← hprecd]; split <;> omega
  obtain ⟨ip, dfr0, hnum, hdw, hdfr0, hlen0⟩ := fmtF_fracTxt prec (promote b) hprec0 hB.fin hB.pos
  obtain ⟨xfr, eds, hA, hxfr, hstrip, hene, heds, _, _⟩ := fmtA_fracRep frac _ hB
  have hrtz := removeTrailingZeroes_hexTxt_tail 49 xfr true eds ⟨by decide, hxfr, hene, heds⟩ hstrip (lit "s)")
  -- fix C10-17: the digits are all '9' when the decimal text has rounded up to "1.00…"
  generalize hdfr' : (if hd (fmtF false prec (promote b)) ≠ 48 then List.replicate dfr0.length 57 else dfr0) = dfr
  have hlen : dfr.length = prec := by
    rw [← hdfr']; split <;> simp [hlen0]
  have hdfr : ∀ c ∈ dfr, isdigit c = true := by
    rw [← hdfr']; split
    · intro c hc; rw [List.eq_of_mem_replicate hc]; decide
    · exact hdfr0
  have hfrac : (if hd (fmtF false prec (promote b)) ≠ 48 then 46 :: List.replicate ((46 :: dfr0).length - 1) 57
      else 46 :: dfr0) = 46 :: dfr := by
    rw [← hdfr']; split <;> simp
  have hdne : dfr ≠ [] := by
    intro h0; rw [h0] at hlen; simp at hlen; omega
  refine ⟨dfr, hdne, hdfr, ?_⟩
  have hprec : ¬ (opt.prec > 9) := by omega
  have htrue : (frac ≠ 0 ∨ (localtime (secs : Int)).sec ≠ 0) = True := by simp [hf0]
  simp only [printArgVal, deref, bind, Except.bind, pure, Except.pure, hv1, hdiv, hmod, hf0, ↓reduceIte,
    htrue, hprec, hprecd, hflt, hl, ne_eq, not_false_eq_true]
  simp only [ne_eq] at hdw
  rw [← hA] at hrtz
  simp only [hdw, hrtz, true_or, ↓reduceIte, List.isEmpty_cons, Bool.false_eq_true]
  simp only [ne_eq] at hfrac
  rw [hfrac]
  generalize localtime (secs : Int) = tm
  have hout : fmtDate tm ++ 32 :: fmtHM tm ++ 58 :: fmtS tm ++ 46 :: dfr ++ lit " (...+" ++
      (fmtA (promote b) ++ lit "s)") = fracTok tm dfr (fmtA (promote b)) := by
    rw [lit_loss, lit_s]; rfl
  have hw : (fmtDate tm ++ 32 :: fmtHM tm ++ 58 :: fmtS tm).length + (fmtF false prec (promote b)).length -
      ((fmtF false prec (promote b)).length - (46 :: dfr).length) + (6 + (fmtA (promote b) ++ lit "s)").length) - 0 =
      (fracTok tm dfr (fmtA (promote b))).length := by
    rw [← hout, hnum, lit_s, lit_loss]
    simp only [List.length_append, List.length_cons, List.length_nil]
    omega
  rw [hout, hw]

/-! ### the token -/

/-- `(uint64_t)(d * 4294967296.0)` of the double `frac · 2^-32` is `frac` -/
theorem doubleToSecfracs_rep (frac B : Nat) (h : FracRep frac B) (hf0 : 0 < frac) (hf1 : frac < 4294967296) :
    doubleToSecfracs B = .ok frac := by
  obtain ⟨hc, j, hj, hexp, hsig, hexq⟩ := FracRep.value frac B h hf0
  unfold doubleToSecfracs
  simp only [h.pos, hc, Bool.false_eq_true, ↓reduceIte]
  rw [hexq, hsig]
  have hneg : ¬ ((j : Int) - 84 + 32 ≥ 0) := by omega
  have hto : (-((j : Int) - 84 + 32)).toNat = 52 - j := by omega
  simp only [hneg, ↓reduceIte, hto, Nat.mul_div_cancel _ (Nat.two_pow_pos _)]
  have : ¬ (frac ≥ 18446744073709551616) := by omega
  simp only [this, ↓reduceIte]

theorem skipSpace_hex49 (fr : Bytes) (eneg : Bool) (eds tail : Bytes) :
    skipSpace (hexTxt false 49 fr eneg eds ++ tail) = hexTxt false 49 fr eneg eds ++ tail :=
  skipSpace_hexTxt false 49 fr eneg eds tail

theorem tokOK_frac_digits (ya yb yc yd ma mb da db ha hb na nb sa sb : UInt8) (dfr xfr eds : Bytes) (B frac : Nat)
    (h : DateDigits ya yb yc yd ma mb da db) (h1 : isdigit ha = true) (h2 : isdigit hb = true)
    (h3 : isdigit na = true) (h4 : isdigit nb = true) (h5 : isdigit sa = true) (h6 : isdigit sb = true)
    (hdne : dfr ≠ []) (hdfr : ∀ c ∈ dfr, isdigit c = true)
    (hxfr : ∀ c ∈ xfr, isxdigit c = true) (hene : eds ≠ []) (heds : ∀ c ∈ eds, isdigit c = true)
    (hv0 : 0 < digitsVal 10 eds) (hv1 : digitsVal 10 eds ≤ 32)
    (hscan : ∀ rest, scanFloat f64 (hexTxt false 49 xfr true eds ++ 115 :: 41 :: rest) = some (B, 115 :: 41 :: rest))
    (hsf : doubleToSecfracs B = .ok frac) :
    TokOK ([ya, yb, yc, yd, 45, ma, mb, 45, da, db] ++ 32 :: [ha, hb, 58, na, nb] ++ 58 :: [sa, sb] ++ 46 :: dfr ++
        [32, 40, 46, 46, 46, 43] ++ (hexTxt false 49 xfr true eds ++ [115, 41]))
      (Cell.time (timeFromParams ⟨dv4 ya yb yc yd, dv2 ma mb, dv2 da db, dv2 ha hb, dv2 na nb, dv2 sa sb⟩ frac)) := by
  have happ : ∀ rest, ([ya, yb, yc, yd, 45, ma, mb, 45, da, db] ++ 32 :: [ha, hb, 58, na, nb] ++ 58 :: [sa, sb] ++ 46 :: dfr ++
        [32, 40, 46, 46, 46, 43] ++ (hexTxt false 49 xfr true eds ++ [115, 41])) ++ rest =
      ya :: yb :: yc :: yd :: 45 :: ma :: mb :: 45 :: da :: db :: 32 :: ha :: hb :: 58 :: na :: nb :: 58 :: sa :: sb ::
        46 :: (dfr ++ 32 :: 40 :: 46 :: 46 :: 46 :: 43 :: (hexTxt false 49 xfr true eds ++ 115 :: 41 :: rest)) := by
    intro rest; simp
  refine ⟨?_, ?_, ?_⟩
  · have := tokStart_digit ya ([yb, yc, yd, 45, ma, mb, 45, da, db] ++ 32 :: [ha, hb, 58, na, nb] ++ 58 :: [sa, sb] ++ 46 :: dfr ++
        [32, 40, 46, 46, 46, 43] ++ (hexTxt false 49 xfr true eds ++ [115, 41])) h.hya
    simpa using this
  · intro rest fuel prev ab hs
    apply scanArgVal_of_value _ _ _ _ _ _ hs
    rw [happ]
    rw [scanValue_date _ _ _ _ h.hya (isRangeMultiplier_date _ _ _ _ _ h.hyb h.hyc h.hyd)
      (by rw [skipFmt_isDate _ _ _ _ _ _ _ _ _ h]; decide)]
    exact scanDate_frac ya yb yc yd ma mb da db ha hb na nb sa sb dfr _ rest B frac h h1 h2 h3 h4 h5 h6 hdne hdfr
      (skipSpace_hex49 _ _ _ _) (hscan rest) hsf
  · intro rest fuel ty llhs ib hs
    apply skipNext_of_value _ _ 116 0 _ _ _ _ hs
    rw [happ]
    rw [skipValue_date _ _ _ _ _ h.hya (isRangeMultiplier_date _ _ _ _ _ h.hyb h.hyc h.hyd)
      (by rw [skipFmt_isDate _ _ _ _ _ _ _ _ _ h]; decide)]
    rw [skipFmt_isDate _ _ _ _ _ _ _ _ _ h,
      skipDate_frac ya yb yc yd ma mb da db ha hb na nb sa sb dfr xfr eds rest h1 h2 h3 h4 h5 h6 hdne hdfr hxfr hene heds
        hv0 hv1]

end Rtosc.Pretty.TokTimeFrac

/-! ## Part 3: the token theorem -/
namespace Rtosc.Pretty
open Rtosc Rtosc.Libc Rtosc.Libc.TimeFmt Rtosc.Pretty.TokTime Rtosc.Pretty.TokTimeFrac
open Rtosc.ArgVal (Cell)

/-- 't' with second fractions in lossless mode:
    `YYYY-MM-DD HH:MM:SS.ddd (...+0x1.8p-3s)` -/
theorem printsTok_time_frac (opt : POpt) (hl : opt.lossless = true) (hp : opt.prec ≤ 9)
    (secs frac : Nat) (hs : secs < 4294967296) (hf0 : 0 < frac) (hf1 : frac < 4294967296)
    (hrep : ∃ m k : Nat, m < 16777216 ∧ frac = m * 2 ^ k) :
    PrintsTok opt (Cell.time (secs * 4294967296 + frac)) := by
  by_cases hv1 : secs * 4294967296 + frac = 1
  · rw [hv1]; exact printsTok_immediately opt
  intro fuel more prev st
  obtain ⟨hmk, hr, _⟩ := localtime_facts (secs : Int) (by omega) (by omega)
  have hflt := secfracs2float_eq frac hf0 hf1
  have hB := fracRep_promote frac hf0 hf1 hrep
  obtain ⟨dfr, hdne, hdfr, hprint⟩ := printArgVal_time_frac fuel opt (secs * 4294967296 + frac) secs frac more prev st
    hl hp hv1 (by omega) (by omega) (by omega) _ hflt hB
  refine ⟨_, _, hprint, ?_⟩
  generalize promote (hexToBits f32 frac (-32)) = B at *
  obtain ⟨xfr, eds, hA, hxfr, hstrip, hene, heds, hv0, hv1'⟩ := fmtA_fracRep frac B hB
  have hscan : ∀ rest, scanFloat f64 (hexTxt false 49 xfr true eds ++ 115 :: 41 :: rest) =
      some (B, 115 :: 41 :: rest) := by
    intro rest
    rw [← hA]
    exact scanFloat_fmtA_tail B hB.lt hB.fin hB.pos _ (by rw [hd_cons]; decide)
  have hsf := doubleToSecfracs_rep frac B hB hf0 hf1
  rw [← timeFromParams_frac (localtime (secs : Int)) secs frac hs hf1 hmk]
  generalize localtime (secs : Int) = tm at *
  obtain ⟨ya, yb, yc, yd, ma, mb, da, db, ha, hb, na, nb, sa, sb, hdig, h1, h2, h3, h4, h5, h6, eD, eHM, eS, etm⟩ :=
    tm_digits tm hr
  unfold fracTok
  rw [eD, eHM, eS, hA, etm]
  exact tokOK_frac_digits ya yb yc yd ma mb da db ha hb na nb sa sb dfr xfr eds B frac hdig h1 h2 h3 h4 h5 h6
    hdne hdfr hxfr hene heds hv0 hv1' hscan hsf

end Rtosc.Pretty
