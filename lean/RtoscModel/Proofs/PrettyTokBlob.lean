/-
  C10 — the token of a blob ('b'): `BLOB [n 0xhh 0xhh …]`, where every separator is a space or,
  where the printer breaks the line, a newline and four spaces (`BLOB [0]` for the empty blob).
  The possible texts are `blobText n l` for a list `l` of (separator, byte) pairs; the printer
  produces one of them (`printBlobBytes_spec`), and scanner and checker read every one of them
  back as the blob (`tokOK_blob`).
-/
import RtoscModel.Proofs.PrettyTokNum
namespace Rtosc.Pretty
open Rtosc Rtosc.Libc
open Rtosc.ArgVal (Cell)

theorem lit_blob : lit "BLOB [" = [66,76,79,66,32,91] := by decide
theorem lits_blob : lits "BLOB" = [.lit 66, .lit 76, .lit 79, .lit 66] := by decide

/-- a separator inside a blob: white space only, not empty -/
def WSep (w : Bytes) : Prop := w ≠ [] ∧ ∀ c ∈ w, isspace c = true

/-- the bytes of a blob, each with the separator in front of it -/
def blobBody : List (Bytes × UInt8) → Bytes
  | [] => []
  | p :: r => p.1 ++ 48 :: 120 :: hexDigitChar (p.2.toNat / 16 % 16) :: hexDigitChar (p.2.toNat % 16) :: blobBody r

def blobText (n : Int) (l : List (Bytes × UInt8)) : Bytes :=
  [66,76,79,66,32,91] ++ fmtDec n ++ blobBody l ++ [93]

theorem blobText_append (n : Int) (l : List (Bytes × UInt8)) (rest : Bytes) :
    blobText n l ++ rest = 66 :: 76 :: 79 :: 66 :: 32 :: 91 :: (fmtDec n ++ (blobBody l ++ 93 :: rest)) := by
  simp [blobText]

theorem blobBody_length (l : List (Bytes × UInt8)) : l.length ≤ (blobBody l).length := by
  induction l with
  | nil => simp [blobBody]
  | cons p r ih => simp [blobBody]; omega

/-! ### white space -/

theorem skipSpace_length_le (s : Bytes) : (skipSpace s).length ≤ s.length := by
  induction s with
  | nil => simp [skipSpace]
  | cons c r ih =>
    simp only [skipSpace]
    split
    · simp; omega
    · simp

theorem skipSpace_drop (s : Bytes) : s.drop (s.length - (skipSpace s).length) = skipSpace s := by
  induction s with
  | nil => simp [skipSpace]
  | cons c r ih =>
    have hle := skipSpace_length_le r
    simp only [skipSpace]
    split
    · have : (c :: r).length - (skipSpace r).length = (r.length - (skipSpace r).length) + 1 := by
        simp; omega
      rw [this, List.drop_succ_cons]; exact ih
    · simp

theorem skipSpace_ws (w : Bytes) (c0 : UInt8) (R : Bytes) (hw : ∀ c ∈ w, isspace c = true)
    (h0 : isspace c0 = false) : skipSpace (w ++ c0 :: R) = c0 :: R := by
  induction w with
  | nil => simp [skipSpace, h0]
  | cons c r ih =>
    simp [skipSpace, hw c (by simp), ih (fun x hx => hw x (by simp [hx]))]

/-- the characters that can follow the length or a byte of a blob: white space or ']' -/
theorem spaceOr93_facts (c : UInt8) (h : isspace c = true ∨ c = 93) :
    isdigit c = false ∧ c ≠ 45 ∧ c ≠ 120 ∧ c ≠ 88 ∧ isxdigit c = false ∧ c ≠ 48 := by
  revert h; revert c; apply UInt8.forall_of_fin; decide +kernel

theorem blobTail_hd (l : List (Bytes × UInt8)) (rest : Bytes) (hl : ∀ p ∈ l, WSep p.1) :
    isspace (hd (blobBody l ++ 93 :: rest)) = true ∨ hd (blobBody l ++ 93 :: rest) = 93 := by
  cases l with
  | nil => right; rfl
  | cons p r =>
    left
    obtain ⟨hne, hall⟩ := hl p (by simp)
    simp only [blobBody, List.append_assoc]
    rw [hd_append_of_ne_nil _ _ hne]
    exact hall _ (hd_mem _ hne)

theorem blobTail_numEnd (l : List (Bytes × UInt8)) (rest : Bytes) (hl : ∀ p ∈ l, WSep p.1) :
    NumEnd (blobBody l ++ 93 :: rest) := by
  obtain ⟨a, b, c, d, _⟩ := spaceOr93_facts _ (blobTail_hd l rest hl)
  exact ⟨a, b, c, d⟩

theorem skipSpace_blobTail_nil (rest : Bytes) : skipSpace (blobBody [] ++ 93 :: rest) = 93 :: rest := by
  simp [blobBody, skipSpace, isspace]

theorem skipSpace_blobTail_cons (p : Bytes × UInt8) (r : List (Bytes × UInt8)) (rest : Bytes) (hp : WSep p.1) :
    skipSpace (blobBody (p :: r) ++ 93 :: rest) =
      48 :: 120 :: hexDigitChar (p.2.toNat / 16 % 16) :: hexDigitChar (p.2.toNat % 16) :: (blobBody r ++ 93 :: rest) := by
  simp only [blobBody, List.append_assoc, List.cons_append]
  exact skipSpace_ws _ _ _ hp.2 (by decide)

/-! ### two hexadecimal digits -/

theorem xdigit_facts (c : UInt8) (h : isxdigit c = true) :
    isspace c = false ∧ c ≠ 45 ∧ c ≠ 43 ∧ tolower c ≠ 120 ∧ digitOk 16 c = true ∧ xval c < 16 := by
  revert h; revert c; apply UInt8.forall_of_fin; decide +kernel

theorem takeDigits16_stop (R : Bytes) (hR : isxdigit (hd R) = false) (w : Option Nat) :
    takeDigits 16 R w = ([], R) := by
  cases R with
  | nil => rfl
  | cons c r => simp only [hd_cons] at hR; simp [takeDigits, digitOk, hR]

/-- `%x` on two hexadecimal digits that are followed by something else -/
theorem scanInt_x_2 (h1 h2 : UInt8) (R : Bytes) (hx1 : isxdigit h1 = true) (hx2 : isxdigit h2 = true)
    (hR : isxdigit (hd R) = false) :
    scanInt .x none (h1 :: h2 :: R) = some (((xval h1 * 16 + xval h2 : Nat) : Int), R) := by
  obtain ⟨a1, a2, a3, a4, a5, a6⟩ := xdigit_facts h1 hx1
  obtain ⟨b1, b2, b3, b4, b5, b6⟩ := xdigit_facts h2 hx2
  have hstop := takeDigits16_stop R hR
  have hval : ∀ m : Nat, m < 256 → intValue .x false m = (m : Int) := by
    intro m hm
    simp only [intValue]
    have : ¬ m > 18446744073709551615 := by omega
    simp [this]
  unfold scanInt
  simp only [skipSpace, a1, Bool.false_eq_true, ↓reduceIte]
  by_cases h48 : h1 = 48
  · subst h48
    have : xval 48 = 0 := by decide
    simp [intPrefix, wOk, wDec, b4, takeDigits, b5, hstop, digitsVal, this, hval (xval h2) (by omega)]
  · simp [a2, a3, intPrefix_nonzero _ _ _ _ h48, takeDigits, wOk, wDec, a5, b5, hstop, digitsVal,
      hval (xval h1 * 16 + xval h2) (by omega)]

theorem hexDigitChar_facts (d : Nat) (h : d < 16) : isxdigit (hexDigitChar d) = true ∧ xval (hexDigitChar d) = d := by
  have : ∀ d : Fin 16, isxdigit (hexDigitChar d.val) = true ∧ xval (hexDigitChar d.val) = d.val := by decide
  exact this ⟨d, h⟩

theorem u8_of_byte (b : UInt8) : ((((b.toNat : Nat) : Int) % 256).toNat).toUInt8 = b := by
  have : (((b.toNat : Nat) : Int) % 256).toNat = b.toNat := by
    have := b.toNat_lt; omega
  rw [this]; simp

/-- "0x%x %n" on one printed byte -/
theorem sscanf_blobByte (b : UInt8) (X : Bytes) (hX : isspace (hd X) = true ∨ hd X = 93) :
    sscanf (fmtBlobByte false)
      (48 :: 120 :: hexDigitChar (b.toNat / 16 % 16) :: hexDigitChar (b.toNat % 16) :: X) =
      [.int (b.toNat : Int), .pos (4 + (X.length - (skipSpace X).length))] := by
  obtain ⟨_, _, _, _, hxd, _⟩ := spaceOr93_facts _ hX
  obtain ⟨c1, c2⟩ := hexDigitChar_facts (b.toNat / 16 % 16) (by omega)
  obtain ⟨d1, d2⟩ := hexDigitChar_facts (b.toNat % 16) (by omega)
  have hsc := scanInt_x_2 _ _ X c1 d1 hxd
  rw [c2, d2] at hsc
  have hb : b.toNat / 16 % 16 * 16 + b.toNat % 16 = b.toNat := by have := b.toNat_lt; omega
  rw [hb] at hsc
  unfold sscanf fmtBlobByte hx
  simp only [List.cons_append, List.nil_append, sscanfGo, ↓reduceIte]
  rw [hsc]
  simp
  omega

theorem skipFmt_blobByte (b : UInt8) (X : Bytes) (hX : isspace (hd X) = true ∨ hd X = 93) :
    skipFmt (fmtBlobByte true)
      (48 :: 120 :: hexDigitChar (b.toNat / 16 % 16) :: hexDigitChar (b.toNat % 16) :: X) =
      4 + (X.length - (skipSpace X).length) := by
  obtain ⟨_, _, _, _, hxd, _⟩ := spaceOr93_facts _ hX
  obtain ⟨c1, c2⟩ := hexDigitChar_facts (b.toNat / 16 % 16) (by omega)
  obtain ⟨d1, d2⟩ := hexDigitChar_facts (b.toNat % 16) (by omega)
  have hsc := scanInt_x_2 _ _ X c1 d1 hxd
  unfold skipFmt scanRd sscanf fmtBlobByte hx
  simp only [List.cons_append, List.nil_append, sscanfGo, ↓reduceIte]
  rw [hsc]
  simp
  omega

theorem drop_blobByte (a b c d : UInt8) (X : Bytes) :
    (a :: b :: c :: d :: X).drop (4 + (X.length - (skipSpace X).length)) = skipSpace X := by
  rw [show 4 + (X.length - (skipSpace X).length) = (X.length - (skipSpace X).length) + 1 + 1 + 1 + 1 from by omega]
  simp only [List.drop_succ_cons]
  exact skipSpace_drop X

/-! ### the byte loops -/

theorem scanBlobBytes_body (l : List (Bytes × UInt8)) (rest : Bytes) (hl : ∀ p ∈ l, WSep p.1) :
    ∀ acc : Bytes, scanBlobBytes l.length (skipSpace (blobBody l ++ 93 :: rest)) acc =
      .ok (93 :: rest, acc ++ l.map Prod.snd) := by
  induction l with
  | nil => intro acc; simp [scanBlobBytes, skipSpace_blobTail_nil]
  | cons p r ih =>
    intro acc
    have hr : ∀ q ∈ r, WSep q.1 := fun q hq => hl q (by simp [hq])
    rw [skipSpace_blobTail_cons p r rest (hl p (by simp))]
    simp only [List.length_cons, scanBlobBytes]
    rw [sscanf_blobByte p.2 _ (blobTail_hd r rest hr)]
    simp only [drop_blobByte, u8_of_byte]
    rw [ih hr]
    simp

theorem skipBlobBytes_body (l : List (Bytes × UInt8)) (rest : Bytes) (hl : ∀ p ∈ l, WSep p.1) :
    ∀ (fuel : Nat) (k : Int), l.length ≤ fuel →
      skipBlobBytes fuel (some (skipSpace (blobBody l ++ 93 :: rest))) k = (some (93 :: rest), k - l.length) := by
  induction l with
  | nil =>
    intro fuel k _
    rw [skipSpace_blobTail_nil]
    cases fuel <;> simp [skipBlobBytes]
  | cons p r ih =>
    intro fuel k hf
    have hr : ∀ q ∈ r, WSep q.1 := fun q hq => hl q (by simp [hq])
    rw [skipSpace_blobTail_cons p r rest (hl p (by simp))]
    cases fuel with
    | zero => simp at hf
    | succ f =>
      simp only [skipBlobBytes, hd_cons, ↓reduceIte]
      rw [skipFmt_blobByte p.2 _ (blobTail_hd r rest hr)]
      have : 4 + ((blobBody r ++ 93 :: rest).length - (skipSpace (blobBody r ++ 93 :: rest)).length) ≠ 0 := by omega
      simp only [this, ↓reduceIte, drop_blobByte]
      rw [ih hr f (k - 1) (by simpa using hf)]
      simp only [List.length_cons]
      congr 1
      omega

/-! ### the head of the blob: `BLOB [n ` -/

theorem skipSpace_of_hd (s : Bytes) (h : isspace (hd s) = false) : skipSpace s = s := by
  cases s with
  | nil => rfl
  | cons c r => simp only [hd_cons] at h; simp [skipSpace, h]

theorem decNum_hd (t : Bytes) (v : Int) (hn : DecNum t v) (T : Bytes) : isspace (hd (t ++ T)) = false := by
  rw [hd_append_of_ne_nil _ _ hn.ne]
  exact (numStart_facts _ (hn.chars _ (hd_mem _ hn.ne))).2.2.2.2.2.2.2.2.2.2.2.2.1

theorem skipSpace_open (X : Bytes) : skipSpace (32 :: 91 :: X) = 91 :: X := by
  simp [skipSpace, isspace]

/-- "BLOB [ %i %n" -/
theorem sscanf_blobOpenLen (t : Bytes) (v : Int) (hn : DecNum t v) (T : Bytes) (hT : NumEnd T) :
    sscanf fmtBlobOpenLen (66 :: 76 :: 79 :: 66 :: 32 :: 91 :: (t ++ T)) =
      [.int v, .pos (6 + t.length + (T.length - (skipSpace T).length))] := by
  have hsc := hn.scan_i T hT
  have hsp := skipSpace_of_hd _ (decNum_hd t v hn T)
  unfold sscanf fmtBlobOpenLen
  rw [lits_blob]
  simp only [List.cons_append, List.nil_append, sscanfGo, ↓reduceIte, skipSpace_open, hsp, hsc]
  simp

/-- "BLOB [ %n" -/
theorem skipFmt_blobOpen (t : Bytes) (v : Int) (hn : DecNum t v) (T : Bytes) :
    skipFmt fmtBlobOpen (66 :: 76 :: 79 :: 66 :: 32 :: 91 :: (t ++ T)) = 6 := by
  have hsp := skipSpace_of_hd _ (decNum_hd t v hn T)
  unfold skipFmt scanRd sscanf fmtBlobOpen
  rw [lits_blob]
  simp only [List.cons_append, List.nil_append, sscanfGo, ↓reduceIte, skipSpace_open, hsp]
  simp

/-- "%i %n" -/
theorem sscanf_blobLen (t : Bytes) (v : Int) (hn : DecNum t v) (T : Bytes) (hT : NumEnd T) :
    sscanf fmtBlobLen (t ++ T) = [.int v, .pos (t.length + (T.length - (skipSpace T).length))] := by
  have hsc := hn.scan_i T hT
  unfold sscanf fmtBlobLen
  simp only [sscanfGo, hsc]
  simp

theorem drop_append_skipSpace (t T : Bytes) :
    (t ++ T).drop (t.length + (T.length - (skipSpace T).length)) = skipSpace T := by
  rw [← List.drop_drop]
  simp [skipSpace_drop]

/-! ### the two `case 'B':` -/

theorem scanValue_B (se : ElemScanner) (s : Bytes) (prev : List Cell) (h : hd s = 66) :
    scanValue se s prev = scanBlob s := by
  unfold scanValue
  simp [h]

theorem skipValue_B (sk : ArgSkipper) (s : Bytes) (ty : UInt8) (ib : Bool) (h : hd s = 66) :
    skipValue sk s ty ib = .ok (some (skipBlob s)) := by
  unfold skipValue
  simp [h, pure, Except.pure]

theorem scanBlob_text (l : List (Bytes × UInt8)) (rest : Bytes) (hl : ∀ p ∈ l, WSep p.1)
    (hlen : l.length ≤ 2147483647) :
    scanBlob (blobText l.length l ++ rest) = .ok ⟨rest, [Cell.blob (l.map Prod.snd)], true⟩ := by
  have hn := decNum_fmtDec (l.length : Int) (by omega) (by omega)
  have hT := blobTail_numEnd l rest hl
  rw [blobText_append]
  unfold scanBlob
  rw [sscanf_blobOpenLen _ _ hn _ hT]
  have hne : 6 + (fmtDec (l.length : Int)).length +
      ((blobBody l ++ 93 :: rest).length - (skipSpace (blobBody l ++ 93 :: rest)).length) ≠ 0 := by omega
  have hi : toI32 (l.length : Int) = l.length := toI32_id _ (by omega) (by omega)
  have hdrop : (66 :: 76 :: 79 :: 66 :: 32 :: 91 :: (fmtDec (l.length : Int) ++ (blobBody l ++ 93 :: rest))).drop
      (6 + (fmtDec (l.length : Int)).length +
      ((blobBody l ++ 93 :: rest).length - (skipSpace (blobBody l ++ 93 :: rest)).length)) =
      skipSpace (blobBody l ++ 93 :: rest) := by
    rw [show 6 + (fmtDec (l.length : Int)).length +
      ((blobBody l ++ 93 :: rest).length - (skipSpace (blobBody l ++ 93 :: rest)).length) =
      ((fmtDec (l.length : Int)).length +
      ((blobBody l ++ 93 :: rest).length - (skipSpace (blobBody l ++ 93 :: rest)).length)) + 1 + 1 + 1 + 1 + 1 + 1 from by omega]
    simp only [List.drop_succ_cons]
    exact drop_append_skipSpace _ _
  simp only [hne, ↓reduceIte, hi, hdrop]
  have : ¬ ((l.length : Int) < 0) := by omega
  simp only [this, ↓reduceIte, Int.toNat_natCast, scanBlobBytes_body l rest hl, bind, Except.bind]
  simp [advance, pure, Except.pure]

theorem skipBlob_text (l : List (Bytes × UInt8)) (rest : Bytes) (hl : ∀ p ∈ l, WSep p.1)
    (hlen : l.length ≤ 2147483647) :
    skipBlob (blobText l.length l ++ rest) = ⟨some rest, 1, 98, 0⟩ := by
  have hn := decNum_fmtDec (l.length : Int) (by omega) (by omega)
  have hT := blobTail_numEnd l rest hl
  rw [blobText_append]
  unfold skipBlob
  rw [skipFmt_blobOpen _ _ hn]
  rw [if_pos (by decide : (6 : Nat) ≠ 0)]
  simp only [List.drop_succ_cons, List.drop_zero]
  rw [sscanf_blobLen _ _ hn _ hT]
  have hpos : 0 < (fmtDec (l.length : Int)).length := List.length_pos_iff.mpr hn.ne
  have hne : (fmtDec (l.length : Int)).length +
      ((blobBody l ++ 93 :: rest).length - (skipSpace (blobBody l ++ 93 :: rest)).length) ≠ 0 := by omega
  have hi : toI32 (l.length : Int) = l.length := toI32_id _ (by omega) (by omega)
  simp only [if_pos hne, hi, drop_append_skipSpace]
  have hf : l.length ≤ (fmtDec (l.length : Int) ++ (blobBody l ++ 93 :: rest)).length + 1 := by
    have := blobBody_length l
    simp only [List.length_append]; omega
  rw [skipBlobBytes_body l rest hl _ _ hf]
  simp

/-- the texts of a blob are good tokens -/
theorem tokOK_blob (l : List (Bytes × UInt8)) (hl : ∀ p ∈ l, WSep p.1) (hlen : l.length ≤ 2147483647) :
    TokOK (blobText l.length l) (Cell.blob (l.map Prod.snd)) := by
  have hne : blobText (l.length : Int) l ≠ [] := by simp [blobText]
  have hhd : ∀ rest, hd (blobText (l.length : Int) l ++ rest) = 66 := by
    intro rest; rw [blobText_append]; rfl
  refine ⟨?_, ?_, ?_⟩
  · have h66 : hd (blobText (l.length : Int) l) = 66 := by simpa using hhd []
    refine ⟨hne, ?_⟩
    rw [h66]; decide
  · intro rest fuel prev ab hs
    apply scanArgVal_of_value _ _ _ _ _ _ hs
    rw [scanValue_B _ _ _ (hhd rest)]
    exact scanBlob_text l rest hl hlen
  · intro rest fuel ty llhs ib hs
    apply skipNext_of_value _ _ 98 0 _ _ _ _ hs
    rw [skipValue_B _ _ _ _ (hhd rest), skipBlob_text l rest hl hlen]

/-! ### the printer -/

theorem wsep_space : WSep [32] := ⟨by simp, by intro c hc; simp at hc; subst hc; decide⟩
theorem wsep_break : WSep [10, 32, 32, 32, 32] :=
  ⟨by simp, by intro c hc; simp at hc; rcases hc with rfl | rfl <;> decide⟩

/-- the byte loop of the printer, started behind a space, appends a blob body and a space -/
theorem printBlobBytes_spec (ll : Int) : ∀ (data pre : Bytes) (cols : Int) (wrt : Nat),
    ∃ (l : List (Bytes × UInt8)) (cols' : Int), l.map Prod.snd = data ∧ (∀ p ∈ l, WSep p.1) ∧
      printBlobBytes ll data ⟨pre ++ [32], cols⟩ wrt =
        (⟨pre ++ blobBody l ++ [32], cols'⟩, wrt + (blobBody l).length) := by
  intro data
  induction data with
  | nil => intro pre cols wrt; exact ⟨[], cols, rfl, by simp, by simp [printBlobBytes, blobBody]⟩
  | cons b r ih =>
    intro pre cols wrt
    by_cases hb : cols ≥ ll - 6
    · obtain ⟨l, cols', h1, h2, h3⟩ := ih (pre ++ [10, 32, 32, 32, 32] ++ [48, 120] ++ fmtHex2 b.toNat) (4 + 5) (wrt + 4 + 5)
      refine ⟨([10, 32, 32, 32, 32], b) :: l, cols', by simp [h1], ?_, ?_⟩
      · intro p hp
        simp only [List.mem_cons] at hp
        rcases hp with rfl | hp
        · exact wsep_break
        · exact h2 p hp
      · simp only [printBlobBytes, hb, ↓reduceIte, List.dropLast_concat]
        rw [h3]
        simp [blobBody, fmtHex2]
        omega
    · obtain ⟨l, cols', h1, h2, h3⟩ := ih (pre ++ [32] ++ [48, 120] ++ fmtHex2 b.toNat) (cols + 5) (wrt + 5)
      refine ⟨([32], b) :: l, cols', by simp [h1], ?_, ?_⟩
      · intro p hp
        simp only [List.mem_cons] at hp
        rcases hp with rfl | hp
        · exact wsep_space
        · exact h2 p hp
      · simp only [printBlobBytes, hb, ↓reduceIte]
        rw [h3]
        simp [blobBody, fmtHex2]
        omega

/-- 'b': `BLOB [n 0x.. 0x.. …]`, with line breaks (`newline` + 4 spaces instead of a space) wherever
    the printer puts them -/
theorem printsTok_blob (opt : POpt) (data : Bytes) (hlen : data.length ≤ 2147483647) :
    PrintsTok opt (Cell.blob data) := by
  intro fuel more prev st
  obtain ⟨l, cols', h1, h2, h3⟩ := printBlobBytes_spec opt.linelength data
    (st.out ++ lit "BLOB [" ++ fmtDec (data.length : Int))
    (st.cols + ((lit "BLOB [" ++ fmtDec (data.length : Int) ++ [32]).length : Nat))
    (lit "BLOB [" ++ fmtDec (data.length : Int) ++ [32]).length
  have hll : l.length = data.length := by rw [← h1]; simp
  refine ⟨blobText l.length l, cols', ?_, ?_⟩
  · simp only [printArgVal, deref, bind, Except.bind, pure, Except.pure]
    simp only [← List.append_assoc]
    rw [h3]
    simp only [List.dropLast_concat]
    simp [blobText, lit_blob, hll]
    omega
  · subst h1
    exact tokOK_blob l h2 (by simpa using hlen)

end Rtosc.Pretty
