/-
  C04 helper lemmas, part 5: with a location buffer, every lookup strategy computes
  `semLoc` — the linear search directly, the hashed lookup because the tables satisfy
  `HashOK` (`MkOK`: whatever table-construction function is used, as long as its guards
  establish `HashOK`; `matcherOf_MkOK`: `refreshMagic` with any heuristic search does).
-/
import RtoscModel.Proofs.PortsSem
namespace Rtosc.Ports
open Rtosc Rtosc.Match Rtosc.Ports.Hash

/-- what the proofs need of the table-construction function -/
structure MkOK (mk : List Bytes → Option Matcher) : Prop where
  total : ∀ names, ∃ pm, mk names = some pm
  ok : ∀ names pm, mk names = some pm → pm.pos ≠ [] → HashOK names pm

/-- `refreshMagic`, with whatever heuristic search, is such a function -/
theorem matcherOf_MkOK (S : Search) : MkOK (matcherOf S) where
  ok := matcherOf_HashOK S
  total := by
    intro names
    unfold matcherOf
    simp only
    split
    · exact ⟨_, rfl⟩
    · split
      · exact ⟨_, rfl⟩
      · split
        · exact ⟨_, rfl⟩
        · split <;> exact ⟨_, rfl⟩

/-! ### well-formedness of the rows -/

theorem wf_pats : ∀ {t : PTable}, t.WF → ∀ q ∈ t.pats, nameWf q = true := by
  intro t
  induction t with
  | nil => intro _ q hq; simp [PTable.pats] at hq
  | leaf p r ih =>
    intro h q hq
    simp only [PTable.WF, PTable.wf, Bool.and_eq_true] at h
    rcases List.mem_cons.mp hq with rfl | hq
    · exact h.1
    · exact ih h.2 q hq
  | node p c d r _ ih =>
    intro h q hq
    simp only [PTable.WF, PTable.wf, Bool.and_eq_true, nodeNameWf] at h
    rcases List.mem_cons.mp hq with rfl | hq
    · exact h.1.1.1.1
    · exact ih h.2 q hq

/-! ### the hashed lookup, seen from the table -/

/-- what the hashed lookup finds, under `HashOK`: the one port that matches, or nothing
    when nothing matches -/
theorem lookup_cases {t : PTable} {n : Nat} (hwf : t.WF) {pm : Matcher}
    (hok : HashOK (t.pats.map Pat.render) pm) {a tags rst : Bytes} (k : Nat) (hm : MsgOK a tags rst n) :
    ∃ r, lookup pm (a ++ 0 :: msgTail k tags rst) = some r ∧
      match r with
      | .slot j true => ∃ p t', t.pats[j]? = some p ∧ allLit p.segs = true ∧ matchB p a tags = some t' ∧
          (∀ j' q, t.pats[j']? = some q → j' ≠ j → matchB q a tags = none) ∧
          pm.fixed[j]? = some (keyOf p) ∧ pm.enump[j]? = some false
      | _ => ∀ q ∈ t.pats, matchB q a tags = none := by
  -- completeness, for every row
  have hcomplete : ∀ j q t', t.pats[j]? = some q → matchB q a tags = some t' →
      lookup pm (a ++ 0 :: msgTail k tags rst) = some (.slot j true) := by
    intro j q t' hj hq
    have hqm : q ∈ t.pats := List.mem_of_getElem? hj
    obtain ⟨h0, hne, hna, _⟩ := nameWf_unpack (wf_pats hwf q hqm)
    exact lookup_complete hok h0 hne hna j (by simp [hj]) k rst hm.a_nul hm.t_nul hq
  -- the lookup itself
  have hl : lookup pm (a ++ 0 :: msgTail k tags rst) =
      match pm.remap[hashStr pm.pos pm.assoc ((a ++ 0 :: msgTail k tags rst).take (compLen a))]? with
      | none => some .outside
      | some j => (hardMatch pm j (a ++ 0 :: msgTail k tags rst)).map (Lookup.slot j) := by
    unfold lookup
    rw [firstLen_addr a _ hm.a_nul]
    rfl
  cases hr : pm.remap[hashStr pm.pos pm.assoc ((a ++ 0 :: msgTail k tags rst).take (compLen a))]? with
  | none =>
    simp only [hr] at hl
    refine ⟨.outside, hl, ?_⟩
    intro q hq
    cases hmq : matchB q a tags with
    | none => rfl
    | some t' =>
      obtain ⟨j, hjlt, hj⟩ := List.getElem_of_mem hq
      have := hcomplete j q t' (by simp [hj, hjlt]) hmq
      rw [hl] at this; cases this
  | some j =>
    simp only [hr] at hl
    have hjlt : j < t.pats.length := by
      have := hok.remapRange j (List.mem_of_getElem? hr)
      simpa using this
    have hjp : t.pats[j]? = some t.pats[j] := List.getElem?_eq_getElem hjlt
    have hqm : t.pats[j] ∈ t.pats := List.getElem_mem hjlt
    obtain ⟨h0, hne, hna, _⟩ := nameWf_unpack (wf_pats hwf _ hqm)
    have hrm : t.pats[j].render ∈ t.pats.map Pat.render := List.mem_map.mpr ⟨_, hqm, rfl⟩
    have hlit := allLit_of_noHash hna (hok.noHash _ hrm)
    have hsplit := splitName_render h0 hne hna
    have hfix : pm.fixed[j]? = some (keyOf t.pats[j]) := by
      rw [hok.fixed]; simp [keysOf, hjp, hsplit]
    have hspec : pm.argSpec[j]? = some (specOf t.pats[j]) := by
      rw [hok.argSpec]; simp [specsOf, hjp, hsplit]
    have hen : pm.enump[j]? = some false := by
      rw [hok.enump]; simp [hjp, hok.noHash _ hrm]
    have hhm := hardMatch_lit h0 hne hlit pm j hfix hspec k rst hm.a_nul hm.t_nul
    rw [hhm] at hl
    simp only [Option.map_some] at hl
    cases hmb : matchB t.pats[j] a tags with
    | none =>
      rw [hmb] at hl
      refine ⟨_, hl, ?_⟩
      simp only [Option.isSome_none]
      intro q hq
      cases hmq : matchB q a tags with
      | none => rfl
      | some t' =>
        obtain ⟨j', hjlt', hj'⟩ := List.getElem_of_mem hq
        have := hcomplete j' q t' (by simp [hj', hjlt']) hmq
        rw [hl] at this; cases this
    | some t' =>
      rw [hmb] at hl
      refine ⟨_, hl, ?_⟩
      simp only [Option.isSome_some]
      refine ⟨_, t', hjp, hlit, hmb, ?_, hfix, hen⟩
      intro j' q hj' hne'
      cases hmq : matchB q a tags with
      | none => rfl
      | some t'' =>
        have := hcomplete j' q t'' hj' hmq
        rw [hl] at this
        simp only [Option.some.injEq, Lookup.slot.injEq] at this
        exact absurd this.1.symm hne'

/-! ### the three loops against `semLoc` -/

theorem cutLoc_eq (d : RtData) (L c : Bytes) (h : d.loc = some (L ++ c)) :
    d.cutLoc L.length = { d with loc := some L } := by
  simp [RtData.cutLoc, RtData.locStr, h]

theorem cutLoc_self (d : RtData) (L : Bytes) (h : d.loc = some L) :
    d.cutLoc L.length = d := by
  cases d
  simp only [RtData.cutLoc, RtData.locStr] at h ⊢
  subst h
  simp

theorem missLoc_eq (cd : Bool) (tp obj : List Nat) (m : Bytes) (d : RtData) :
    missLoc cd tp obj m d = some (finLoc cd tp obj m ([], d, false)) := by
  cases cd <;> simp [missLoc, finLoc]

/-- the linear search with location buffer computes `semLoc` -/
def LinOK (mk : List Bytes → Option Matcher) (k : Nat) (tags rst : Bytes) (n : Nat) (t : PTable) : Prop :=
  ∀ (tp : List Nat) (i : Nat) (obj : List Nat) (L a : Bytes) (d : RtData) (mt : Bool),
    MsgOK a tags rst n → d.loc = some L → L ≠ [] →
    scanLoc mk t.render tp i obj L.length (a ++ 0 :: msgTail k tags rst) d mt =
      some (semLoc t tp i obj L a tags (msgTail k tags rst) d mt)

/-- the code behind a successful `hard_match`, for the one row that matches -/
def HshOK (mk : List Bytes → Option Matcher) (k : Nat) (tags rst : Bytes) (n : Nat) (t : PTable) : Prop :=
  ∀ (tp : List Nat) (i j : Nat) (obj : List Nat) (L a : Bytes) (d : RtData) (p : Pat) (t' : Bytes),
    MsgOK a tags rst n → d.loc = some L → L ≠ [] → t.pats[j]? = some p → allLit p.segs = true →
    matchB p a tags = some t' → (∀ j' q, t.pats[j']? = some q → j' ≠ j → matchB q a tags = none) →
    hashedAt mk t.render tp i (i + j) obj L.length (keyOf p) false (a ++ 0 :: msgTail k tags rst) d =
      some ((semLoc t tp i obj L a tags (msgTail k tags rst) d false).1,
            (semLoc t tp i obj L a tags (msgTail k tags rst) d false).2.1)

/-- a whole nested `dispatch` with location buffer -/
def EntOK (mk : List Bytes → Option Matcher) (k : Nat) (tags rst : Bytes) (n : Nat) (t : PTable) : Prop :=
  ∀ (cd : Bool) (tp : List Nat) (L a : Bytes) (d : RtData),
    MsgOK a tags rst n → d.loc = some L → L ≠ [] →
    enterLoc mk t.render.names cd tp (a ++ 0 :: msgTail k tags rst) d
      (fun oe dd => scanLoc mk t.render tp 0 d.obj oe (a ++ 0 :: msgTail k tags rst) dd false)
      (fun oe k' key en dd => hashedAt mk t.render tp 0 k' d.obj oe key en (a ++ 0 :: msgTail k tags rst) dd) =
    some (finLoc cd tp d.obj (a ++ 0 :: msgTail k tags rst)
            (semLoc t tp 0 d.obj L a tags (msgTail k tags rst) d false))

theorem ent_of {mk : List Bytes → Option Matcher} (hmk : MkOK mk) {k : Nat} {tags rst : Bytes} {n : Nat}
    {t : PTable} (hwf : t.WF)
    (hlin : LinOK mk k tags rst n t) (hhsh : HshOK mk k tags rst n t) : EntOK mk k tags rst n t := by
  intro cd tp L a d hm hloc hL
  have hls : d.locStr = L := by simp [RtData.locStr, hloc]
  have hemp : L.isEmpty = false := by simpa using hL
  obtain ⟨pm, hpm⟩ := hmk.total t.render.names
  unfold enterLoc
  simp only [hls, hemp, Bool.false_eq_true, ↓reduceIte, hpm]
  by_cases hpos : pm.pos.isEmpty = true
  · simp only [hpos, ↓reduceIte]
    rw [hlin tp 0 d.obj L a d false hm hloc hL, finishLoc_some]
  · simp only [hpos, Bool.false_eq_true, ↓reduceIte]
    have hok := hmk.ok _ _ hpm (by simpa using hpos)
    rw [render_names] at hok
    obtain ⟨r, hr, hcase⟩ := lookup_cases hwf hok k hm
    rw [hr]
    cases r with
    | outside =>
      simp only at hcase
      simp only [missLoc_eq, semLoc_none t tp 0 d.obj L a tags _ d false hcase]
    | slot j b =>
      cases b with
      | false =>
        simp only at hcase
        simp only [missLoc_eq, semLoc_none t tp 0 d.obj L a tags _ d false hcase]
      | true =>
        simp only at hcase
        obtain ⟨p, t', hjp, hlit, hmb, huniq, hfix, hen⟩ := hcase
        simp only [hfix, hen]
        have := hhsh tp 0 j d.obj L a d p t' hm hloc hL hjp hlit hmb huniq
        rw [Nat.zero_add] at this
        rw [this]
        have hflag := semLoc_flag t tp 0 d.obj L a tags (msgTail k tags rst) d false
        have hany : t.pats.any (fun q => (matchB q a tags).isSome) = true := by
          simp only [List.any_eq_true]
          exact ⟨p, List.mem_of_getElem? hjp, by simp [hmb]⟩
        rw [hany] at hflag
        simp only [Bool.or_true] at hflag
        simp only [finLoc, hflag, Bool.not_true, Bool.false_and, Bool.false_eq_true, ↓reduceIte]

theorem node_lin_step (c : Call) (E : Out) (X : List Call × RtData) (hE : E = some X)
    (L cs : Bytes) (hX : X.2.loc = some (L ++ cs)) (obj : List Nat)
    (scan : RtData → ScanOut) (sem : RtData → List Call × RtData × Bool)
    (hs : ∀ d', d'.loc = some L → scan d' = some (sem d')) :
    prepend c (andThen E (fun d4 => scan (RtData.cutLoc { d4 with obj := obj } L.length))) =
      some (c :: (X.1 ++ (sem { X.2 with obj := obj, loc := some L }).1),
            (sem { X.2 with obj := obj, loc := some L }).2.1,
            (sem { X.2 with obj := obj, loc := some L }).2.2) := by
  subst hE
  have hc : RtData.cutLoc { X.2 with obj := obj } L.length = { X.2 with obj := obj, loc := some L } :=
    cutLoc_eq _ L cs hX
  have := hs { X.2 with obj := obj, loc := some L } rfl
  rw [andThen_some X _ _ (by simp only [hc]; exact this), prepend_some]

theorem node_hsh_step (c : Call) (E : Out) (X : List Call × RtData) (hE : E = some X)
    (L cs : Bytes) (hX : X.2.loc = some (L ++ cs)) (obj : List Nat) :
    (match E with
     | none => none
     | some (l, d4) => some (c :: l, RtData.cutLoc { d4 with obj := obj } L.length)) =
      some (c :: X.1, { X.2 with obj := obj, loc := some L }) := by
  subst hE
  obtain ⟨l, d4⟩ := X
  have hc : RtData.cutLoc { d4 with obj := obj } L.length = { d4 with obj := obj, loc := some L } :=
    cutLoc_eq _ L cs hX
  simp only [hc]

theorem lin_hsh {mk : List Bytes → Option Matcher} (hmk : MkOK mk) (k : Nat) (tags rst : Bytes) (n : Nat) :
    ∀ (t : PTable), t.WF → LinOK mk k tags rst n t ∧ HshOK mk k tags rst n t := by
  intro t
  induction t with
  | nil =>
    intro _
    refine ⟨?_, ?_⟩
    · intro tp i obj L a d mt _ _ _; rfl
    · intro tp i j obj L a d p t' _ _ _ hj; simp [PTable.pats] at hj
  | leaf p rest ih =>
    intro hwf
    simp only [PTable.WF, PTable.wf, Bool.and_eq_true] at hwf
    obtain ⟨ihL, ihH⟩ := ih hwf.2
    obtain ⟨hp0, hpne, hpna, _⟩ := nameWf_unpack hwf.1
    refine ⟨?_, ?_⟩
    · intro tp i obj L a d mt hm hloc hL
      obtain ⟨e, hfull, he⟩ := full_render hp0 hpne hpna k rst hm.a_nul hm.a_idx hm.t_nul
      simp only [PTable.render, scanLoc, hfull, semLoc]
      cases hmb : matchB p a tags with
      | none => simpa using ihL tp (i + 1) obj L a d mt hm hloc hL
      | some t =>
        have hee := he t hmb
        subst hee
        simp only [Option.isSome_some]
        have happ := locAppend_eq hwf.1 hm.a_nul hmb L (msgTail k tags rst)
          { d with nmatches := d.nmatches + 1 } hloc
        rw [happ, cutLoc_eq _ L (consumed a t) rfl]
        rw [ihL tp (i + 1) obj L a _ true hm rfl hL, prepend_some]
    · intro tp i j obj L a d q t' hm hloc hL hj hlit hmb huniq
      cases j with
      | zero =>
        simp only [PTable.pats, List.getElem?_cons_zero, Option.some.injEq] at hj
        subst hj
        have hrest : ∀ q ∈ rest.pats, matchB q a tags = none := by
          intro q hq
          obtain ⟨j', hjlt, hj'⟩ := List.getElem_of_mem hq
          exact huniq (j' + 1) q (by simp [PTable.pats, hj', hjlt]) (by omega)
        have hcl := consumed_lit hlit (matchB_greedy hmb)
        simp only [PTable.render, hashedAt, Nat.add_zero, ↓reduceIte, Bool.false_eq_true, semLoc, hmb,
          semLoc_none rest tp (i + 1) obj L a tags _ _ true hrest]
        have hls : ({ d with nmatches := d.nmatches + 1 } : RtData).locStr = L := by simp [RtData.locStr, hloc]
        rw [hls, List.take_length, ← hcl, cutLoc_eq _ L (consumed a t') rfl]
      | succ j =>
        simp only [PTable.pats, List.getElem?_cons_succ] at hj
        have hp : matchB p a tags = none := huniq 0 p (by simp [PTable.pats]) (by omega)
        have hne : ¬ i = i + (j + 1) := by omega
        simp only [PTable.render, hashedAt, hne, ↓reduceIte, semLoc, hp]
        have := ihH tp (i + 1) j obj L a d q t' hm hloc hL hj hlit hmb (by
          intro j' q' hj' hne'
          exact huniq (j' + 1) q' (by simpa [PTable.pats] using hj') (by omega))
        rw [show i + (j + 1) = i + 1 + j by omega]
        exact this
  | node p child cd rest ihc ihr =>
    intro hwf
    simp only [PTable.WF, PTable.wf, Bool.and_eq_true] at hwf
    obtain ⟨ihL, ihH⟩ := ihr hwf.2
    obtain ⟨icL, icH⟩ := ihc hwf.1.2
    have hent := ent_of hmk hwf.1.2 icL icH
    have hnw : nameWf p = true := by
      have := hwf.1.1
      simp only [nodeNameWf, Bool.and_eq_true] at this
      exact this.1.1
    obtain ⟨hp0, hpne, hpna, _⟩ := nameWf_unpack hnw
    refine ⟨?_, ?_⟩
    · intro tp i obj L a d mt hm hloc hL
      obtain ⟨e, hfull, he⟩ := full_render hp0 hpne hpna k rst hm.a_nul hm.a_idx hm.t_nul
      simp only [PTable.render, scanLoc, hfull, semLoc]
      cases hmb : matchB p a tags with
      | none => simpa using ihL tp (i + 1) obj L a d mt hm hloc hL
      | some t =>
        have hee := he t hmb
        subst hee
        simp only [Option.isSome_some, snip_addr a _ hm.a_nul]
        have happ := locAppend_eq hnw hm.a_nul hmb L (msgTail k tags rst) d hloc
        rw [happ]
        have hne : L ++ consumed a t ≠ [] := by simp [hL]
        have hE := hent cd (tp ++ [i]) (L ++ consumed a t) (levelTail a)
          { ({ (d.setLoc (L ++ consumed a t)) with port := some (tp ++ [i]) } : RtData) with obj := tp ++ [i] }
          hm.next rfl hne
        have hlocc : (finLoc cd (tp ++ [i]) (tp ++ [i]) (levelTail a ++ 0 :: msgTail k tags rst)
            (semLoc child (tp ++ [i]) 0 (tp ++ [i]) (L ++ consumed a t) (levelTail a) tags (msgTail k tags rst)
              { ({ (d.setLoc (L ++ consumed a t)) with port := some (tp ++ [i]) } : RtData) with obj := tp ++ [i] }
              false)).2.loc = some (L ++ consumed a t) := by
          rw [finLoc_loc]; exact semLoc_loc _ _ _ _ _ _ _ _ _ _ rfl
        exact node_lin_step _ _ _ hE L (consumed a t) hlocc obj
          (fun d' => scanLoc mk rest.render tp (i + 1) obj L.length (a ++ 0 :: msgTail k tags rst) d' true)
          (fun d' => semLoc rest tp (i + 1) obj L a tags (msgTail k tags rst) d' true)
          (fun d' h => ihL tp (i + 1) obj L a d' true hm h hL)
    · intro tp i j obj L a d q t' hm hloc hL hj hlit hmb huniq
      cases j with
      | zero =>
        simp only [PTable.pats, List.getElem?_cons_zero, Option.some.injEq] at hj
        subst hj
        have hrest : ∀ q ∈ rest.pats, matchB q a tags = none := by
          intro q hq
          obtain ⟨j', hjlt, hj'⟩ := List.getElem_of_mem hq
          exact huniq (j' + 1) q (by simp [PTable.pats, hj', hjlt]) (by omega)
        have hcl := consumed_lit hlit (matchB_greedy hmb)
        have hls : d.locStr = L := by simp [RtData.locStr, hloc]
        have hne : L ++ consumed a t' ≠ [] := by simp [hL]
        have hE := hent cd (tp ++ [i]) (L ++ consumed a t') (levelTail a)
          { ({ (d.setLoc (L ++ consumed a t')) with port := some (tp ++ [i]) } : RtData) with obj := tp ++ [i] }
          hm.next rfl hne
        have hlocc : (finLoc cd (tp ++ [i]) (tp ++ [i]) (levelTail a ++ 0 :: msgTail k tags rst)
            (semLoc child (tp ++ [i]) 0 (tp ++ [i]) (L ++ consumed a t') (levelTail a) tags (msgTail k tags rst)
              { ({ (d.setLoc (L ++ consumed a t')) with port := some (tp ++ [i]) } : RtData) with obj := tp ++ [i] }
              false)).2.loc = some (L ++ consumed a t') := by
          rw [finLoc_loc]; exact semLoc_loc _ _ _ _ _ _ _ _ _ _ rfl
        simp only [PTable.render, hashedAt, Nat.add_zero, ↓reduceIte, Bool.false_eq_true, semLoc, hmb,
          snip_addr a _ hm.a_nul, hls, List.take_length, ← hcl,
          semLoc_none rest tp (i + 1) obj L a tags _ _ true hrest, List.append_nil]
        exact node_hsh_step _ _ _ hE L (consumed a t') hlocc obj
      | succ j =>
        simp only [PTable.pats, List.getElem?_cons_succ] at hj
        have hp : matchB p a tags = none := huniq 0 p (by simp [PTable.pats]) (by omega)
        have hne : ¬ i = i + (j + 1) := by omega
        simp only [PTable.render, hashedAt, hne, ↓reduceIte, semLoc, hp]
        have := ihH tp (i + 1) j obj L a d q t' hm hloc hL hj hlit hmb (by
          intro j' q' hj' hne'
          exact huniq (j' + 1) q' (by simpa [PTable.pats] using hj') (by omega))
        rw [show i + (j + 1) = i + 1 + j by omega]
        exact this

end Rtosc.Ports
