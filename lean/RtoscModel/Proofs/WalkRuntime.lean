/-
  C09 helper lemmas, part 6: the walk with a runtime object, for trees without
  "enabled by" properties — pruning by NULL object pointers (`walkPorts_pruned`).
  Same induction as `walkList_spec`, with the gate of `walk_ports_recurse` in the middle.
-/
import RtoscModel.Proofs.WalkDispatch
namespace Rtosc.Walk
open Rtosc Rtosc.Path Rtosc.Match

theorem portIsEnabled_unguarded (i : Nat) (p : PortT) (b : Buf) (base : List PortT) (path : List Nat)
    (rt : Option Obj) (rel : Bool) (portRt : Option Obj) (h : unguarded p.metadata = true) :
    portIsEnabled (some (i, p)) b base path rt rel portRt = .ok (true, []) := by
  cases rt with
  | none => rfl
  | some obj =>
    simp only [unguarded] at h
    simp only [portIsEnabled]
    cases hm : Meta.portMeta p.metadata with
    | none => simp [hm] at h
    | some m =>
      simp only [hm] at h ⊢
      cases hl : Meta.lookup m ENABLED_BY with
      | none => simp [hl] at h
      | some v =>
        cases v with
        | none => rfl
        | some ep => simp [hl] at h

theorem toPort_metadata (t : STree) : t.toPort.metadata = (match t with | .leaf _ md => md | .sub _ md _ => md) := by
  cases t <;> simp [STree.toPort, PortT.metadata]

theorem noGuards_mem : ∀ (ts : List STree), NoGuards ts = true → ∀ p ∈ toPorts ts, unguarded p.metadata = true
  | [], _, p, hp => by simp [toPorts] at hp
  | t :: r, h, p, hp => by
    simp only [NoGuards, Bool.and_eq_true] at h
    simp only [toPorts, List.mem_cons] at hp
    rcases hp with rfl | hp
    · cases t with
      | leaf w md => simpa [STree.noGuards, STree.toPort, PortT.metadata] using h.1
      | sub w md kids =>
        simp only [STree.noGuards, Bool.and_eq_true] at h
        simpa [STree.toPort, PortT.metadata] using h.1.1
    · exact noGuards_mem r h.2 p hp

/-- `walk_ports` with a runtime object on a table without guards: straight into the loop -/
theorem walkTable_noguard (loop : Nat → Buf → M (List Call × Buf)) (ts : List STree) (path : List Nat)
    (rt : Option Obj) (Q Y : Buf) (hQ : NulFree Q) (hne : Q ≠ []) (hng : NoGuards ts = true) :
    walkTable loop (toPorts ts) path rt (Q ++ 0 :: Y) =
      (match loop Q.length (Q ++ 0 :: Y) with
       | .error e => .error e
       | .ok (cs, b) => .ok (cs, b)) := by
  cases Q with
  | nil => exact absurd rfl hne
  | cons c r =>
    have hc : c ≠ 0 := hQ c List.mem_cons_self
    have h0 : rd (c :: r ++ 0 :: Y) 0 = .ok c := by simp [rd]
    have hl := strlenAt_zero (c :: r) Y hQ
    have hen : portIsEnabled ((index (toPorts ts) SELF).bind fun j => ((toPorts ts)[j]?).map fun p => (j, p))
        (c :: r ++ 0 :: Y) (toPorts ts) path rt false = .ok (true, []) := by
      cases hi : index (toPorts ts) SELF with
      | none => simp only [Option.bind_none]; cases rt <;> rfl
      | some j =>
        cases hj : (toPorts ts)[j]? with
        | none => simp only [Option.bind_some, hj, Option.map_none]; cases rt <;> rfl
        | some p =>
          simp only [Option.bind_some, hj, Option.map_some]
          exact portIsEnabled_unguarded j p _ _ _ _ _ _ (noGuards_mem ts hng p (List.mem_of_getElem? hj))
    simp only [walkTable, bind, Except.bind, h0, hc, ↓reduceIte, pure, Except.pure, hl, hen]
    cases loop (c :: r).length (c :: r ++ 0 :: Y) with
    | error e => rfl
    | ok v => obtain ⟨cs, b⟩ := v; simp

theorem flatMap_congr_mem {α β : Type} {l : List α} {f g : α → List β} (h : ∀ a ∈ l, f a = g a) :
    l.flatMap f = l.flatMap g := by
  induction l with
  | nil => rfl
  | cons x r ih =>
    simp only [List.flatMap_cons, h x List.mem_cons_self, ih (fun a ha => h a (List.mem_cons_of_mem _ ha))]

theorem definedTree_none (t : STree) : definedTree none t = true := by
  cases t <;> rfl

theorem definedList_none : ∀ (ts : List STree), definedList none ts = true
  | [] => rfl
  | t :: r => by simp [definedList, definedTree_none t, definedList_none r]

mutual
theorem walkList_pruned : ∀ (ts : List STree) (base : List PortT) (path : List Nat) (rt : Option Obj) (i : Nat)
    (pre J : Buf), wfList ts = true → NoGuards ts = true → definedList rt ts = true →
    NulFree pre → pre ≠ [] → needList ts ≤ J.length → (rt ≠ none → pre.length + needList ts + 10 ≤ SCRATCH) →
    ∃ J', walkList {} base path rt pre.length (toPorts ts) i (pre ++ 0 :: J) =
        .ok (prunedList pre path rt ts i, pre ++ 0 :: J') ∧ J'.length = J.length
  | [], base, path, rt, i, pre, J, _, _, _, _, _, _, _ => ⟨J, by simp [toPorts, walkList, prunedList], rfl⟩
  | t :: r, base, path, rt, i, pre, J, hwf, hng, hdef, hpre, hne, hcap, hlen => by
    simp only [wfList, Bool.and_eq_true] at hwf
    simp only [NoGuards, Bool.and_eq_true] at hng
    simp only [definedList, Bool.and_eq_true] at hdef
    simp only [needList] at hcap hlen
    obtain ⟨s, J1, hs, h1, l1⟩ := walkPort_pruned t base path rt i pre J hwf.1 hng.1 hdef.1 hpre hne (by omega)
      (fun h => by have := hlen h; omega)
    obtain ⟨J2, h2, l2⟩ := erase_spec pre s J1 hs
    obtain ⟨J3, h3, l3⟩ := walkList_pruned r base path rt (i + 1) pre J2 hwf.2 hng.2 hdef.2 hpre hne (by omega)
      (fun h => by have := hlen h; omega)
    refine ⟨J3, ?_, by omega⟩
    simp only [toPorts, walkList, h1, h2, h3, prunedList]
theorem walkPort_pruned : ∀ (t : STree) (base : List PortT) (path : List Nat) (rt : Option Obj) (i : Nat)
    (pre J : Buf), t.wf = true → t.noGuards = true → definedTree rt t = true →
    NulFree pre → pre ≠ [] → t.need ≤ J.length → (rt ≠ none → pre.length + t.need + 10 ≤ SCRATCH) →
    ∃ s J', NulFree s ∧
      walkPort {} base path rt pre.length i t.toPort (pre ++ 0 :: J) =
        .ok (prunedTree pre (path ++ [i]) rt t, pre ++ s ++ 0 :: J') ∧
      s.length + J'.length = J.length
  | .leaf w md, base, path, rt, i, pre, J, hwf, _, _, hpre, _, hcap, _ => by
    obtain ⟨s, J', h1, h2, h3⟩ := walkPort_leaf base path rt i w md pre J (by simpa [STree.wf, WName.leafOk] using hwf) hpre hcap
    exact ⟨s, J', h1, by simpa [codeTree, prunedTree] using h2, h3⟩
  | .sub w md kids, base, path, rt, i, pre, J, hwf, hng, hdef, hpre, hne, hcap, hlen => by
    simp only [STree.wf, Bool.and_eq_true] at hwf
    simp only [STree.noGuards, Bool.and_eq_true] at hng
    obtain ⟨hok, hheadne, hslash, hpos⟩ := WName.subOk_spec hwf.1
    obtain ⟨hhead, hparts, htypes⟩ := WName.ok_spec hok
    simp only [STree.need] at hcap hlen
    have hname : w.render = w.head ++ renderParts w.parts ++ 47 :: renderTypes w.types := by
      simp [WName.render, WName.body, hslash, slashIf]
    let L := (pre ++ 0 :: J).length
    let k : Buf → M (List Call × Buf) := fun b' =>
      match recurseGate (.mk w.render md true (toPorts kids)) i b' base path rt pre.length with
      | .error e => .error e
      | .ok (none, calls) => .ok (calls, b')
      | .ok (some rt', calls) =>
        match walkTable (fun oe bb => walkList {} (toPorts kids) (path ++ [i]) rt' oe (toPorts kids) 0 bb)
            (toPorts kids) (path ++ [i]) rt' b' with
        | .error e => .error e
        | .ok (c2, b2) => .ok (calls ++ c2, b2)
    let calls : Bytes → List Call := fun Q =>
      match rt with
      | none => prunedList Q (path ++ [i]) none kids 0
      | some obj =>
        match obj.kid (Q.drop pre.length) with
        | some (some c) => prunedList Q (path ++ [i]) (some c) kids 0
        | _ => []
    have hk : ∀ a ∈ expandParts w.parts, ∀ Y', ((pre ++ w.head ++ a ++ [47]) ++ 0 :: Y').length = L →
        ∃ Y'', k ((pre ++ w.head ++ a ++ [47]) ++ 0 :: Y') =
            .ok (calls (pre ++ w.head ++ a ++ [47]), (pre ++ w.head ++ a ++ [47]) ++ 0 :: Y'') ∧
          Y''.length = Y'.length := by
      intro a ha Y' hlen
      have hrelnul : NulFree (w.head ++ a ++ [47]) :=
        NulFree.append (NulFree.append (textOk_nulfree hhead) (expandParts_nulfree w.parts hparts a ha)) nulFree_slash
      have eQ : pre ++ w.head ++ a ++ [47] = pre ++ (w.head ++ a ++ [47]) := by simp
      have hQ : NulFree (pre ++ w.head ++ a ++ [47]) := by rw [eQ]; exact NulFree.append hpre hrelnul
      have hQne : pre ++ w.head ++ a ++ [47] ≠ [] := by simp
      have hma := mem_maxLen ha
      have hroom : needList kids ≤ Y'.length := by
        simp only [List.length_append, List.length_cons, List.length_nil, L] at hlen ⊢
        omega
      have hdrop : (pre ++ w.head ++ a ++ [47]).drop pre.length = w.head ++ a ++ [47] := by
        rw [eQ, List.drop_left]
      cases rt with
      | none =>
        obtain ⟨Y'', h1, l1⟩ := walkList_pruned kids (toPorts kids) (path ++ [i]) none 0 (pre ++ w.head ++ a ++ [47]) Y'
          hwf.2 hng.2 (definedList_none kids) hQ hQne hroom (fun h => absurd rfl h)
        refine ⟨Y'', ?_, l1⟩
        simp only [k, recurseGate, calls]
        rw [walkTable_noguard _ kids _ _ _ _ hQ hQne hng.2, h1]
        simp
      | some obj =>
        have hrel : cstrAt ((pre ++ w.head ++ a ++ [47]) ++ 0 :: Y') pre.length = .ok (w.head ++ a ++ [47]) := by
          rw [eQ]; exact cstrAt_mid pre _ Y' hrelnul
        have hloc : cstrAt ((pre ++ w.head ++ a ++ [47]) ++ 0 :: Y') 0 = .ok (pre ++ w.head ++ a ++ [47]) :=
          cstrAt_zero _ Y' hQ
        have hlen' := hlen (by simp)
        have hfit : ¬ ((pre ++ w.head ++ a ++ [47]).length + 10 > SCRATCH) := by
          simp only [List.length_append, List.length_cons, List.length_nil]
          omega
        simp only [definedTree, List.all_eq_true] at hdef
        have hd := hdef a ha
        cases hkid : obj.kid (w.head ++ a ++ [47]) with
        | none => rw [hkid] at hd; simp at hd
        | some v =>
          cases v with
          | none =>
            refine ⟨Y', ?_, rfl⟩
            simp only [k, recurseGate, hloc, hfit, ↓reduceIte, hrel, hkid, calls, hdrop]
          | some c =>
            simp only [hkid] at hd
            obtain ⟨Y'', h1, l1⟩ := walkList_pruned kids (toPorts kids) (path ++ [i]) (some c) 0
              (pre ++ w.head ++ a ++ [47]) Y' hwf.2 hng.2 hd hQ hQne hroom
              (fun _ => by simp only [List.length_append, List.length_cons, List.length_nil]; omega)
            refine ⟨Y'', ?_, l1⟩
            have hen := portIsEnabled_unguarded i (.mk w.render md true (toPorts kids))
              ((pre ++ w.head ++ a ++ [47]) ++ 0 :: Y') base path (some obj) true (some c) (by simpa [PortT.metadata] using hng.1)
            simp only [k, recurseGate, hloc, hfit, hrel, hkid, hen, calls, hdrop, ↓reduceIte]
            rw [walkTable_noguard _ kids _ _ _ _ hQ hQne hng.2, h1]
            simp
    obtain ⟨s, Y'', hs, h2, l2⟩ := recurse0_spec k calls (renderTypes w.types)
      (renderTypes_shape htypes) (renderTypes_no_hash htypes) L w.parts w.head pre (0 :: J) (w.render.length + 1)
      hparts hpos hhead (Or.inl hheadne) hne hpre
      (by
        have := renderParts_length w.parts
        rw [hname]
        simp only [List.length_append, List.length_cons]
        omega)
      rfl
      (by
        intro a ha
        have := mem_maxLen ha
        simp only [List.length_cons]
        omega)
      hk
    refine ⟨s, Y'', hs, ?_, by
      simp only [List.length_append, List.length_cons, L] at l2 ⊢; omega⟩
    simp only [STree.toPort, walkPort, ↓reduceIte]
    rw [← hname] at h2
    refine Eq.trans h2 ?_
    congr 2
    simp only [prunedTree, calls]
    apply flatMap_congr_mem
    intro a _
    have eQ : pre ++ w.head ++ a ++ [47] = pre ++ (w.head ++ a ++ [47]) := by simp
    cases rt with
    | none => rfl
    | some obj => simp only [eQ, List.drop_left]; rfl
end

/-- `walk_ports` with a runtime object on a tree without guards -/
theorem walkPorts_pruned (ts : List STree) (rt : Option Obj) (pre J : Buf) (hwf : TreeWF ts)
    (hng : NoGuards ts = true) (hpre : PrefixOk pre) (hcap : needList ts ≤ J.length)
    (hlen : pre.length + needList ts + 10 ≤ SCRATCH) (hdef : RuntimeDefined ts rt) :
    ∃ J', walkPorts {} (toPorts ts) rt (pre ++ 0 :: J) = .ok (prunedList pre [] rt ts 0, pre ++ 0 :: J') ∧
      J'.length = J.length := by
  obtain ⟨J', h1, l1⟩ := walkList_pruned ts (toPorts ts) [] rt 0 pre J hwf hng hdef hpre.2 hpre.1 hcap (fun _ => hlen)
  refine ⟨J', ?_, l1⟩
  rw [walkPorts, walkTable_noguard _ ts _ _ _ _ hpre.2 hpre.1 hng, h1]

end Rtosc.Walk
