/-
  C06 — the invariant of the two-thread model and its preservation by every step of
  either thread (no bound on histories, interleavings or memcpy chunking).
-/
import RtoscModel.Proofs.RingLemmas
import RtoscModel.Proofs.RingSeq
import RtoscModel.Ring.Spec
namespace Rtosc.Ring
open Rtosc

/-! ### logs -/

theorem pubOf_append_false (log : List (Bytes × Bool)) (m : Bytes) :
    pubOf (log ++ [(m, false)]) = pubOf log := by
  simp [pubOf, List.filter_append]

theorem pubOf_append_true (log : List (Bytes × Bool)) (m : Bytes) :
    pubOf (log ++ [(m, true)]) = pubOf log ++ [m] := by
  simp [pubOf, List.filter_append]

theorem retOf_append_hasNext (log : List ROut) (l b : Bool) :
    retOf (log ++ [.hasNext l b]) = retOf log := by
  simp [retOf, List.filterMap_append, retSel]

theorem retOf_append_la (log : List ROut) (m : Bytes) :
    retOf (log ++ [.read true m]) = retOf log := by
  simp [retOf, List.filterMap_append, retSel]

theorem retOf_append_nil (log : List ROut) :
    retOf (log ++ [.read false []]) = retOf log := by
  simp [retOf, List.filterMap_append, retSel]

theorem retOf_append_msg (log : List ROut) {m : Bytes} (h : m ≠ []) :
    retOf (log ++ [.read false m]) = retOf log ++ [m] := by
  simp [retOf, List.filterMap_append, retSel, h]

theorem wSkip_spec (frame : Bytes → Nat) (maxMsg : Nat) (ops : List WOp) (log : List (Bytes × Bool)) :
    pubOf (wSkip frame maxMsg ops log).2 = pubOf log ∧
    (∀ op, op ∈ (wSkip frame maxMsg ops log).1 → op ∈ ops) ∧
    (∀ b rest, (wSkip frame maxMsg ops log).1 = .rawWrite b :: rest → frame b ≤ maxMsg) := by
  induction ops generalizing log with
  | nil => simp [wSkip]
  | cons op ops ih =>
    cases op with
    | write m => simp [wSkip]
    | rawWrite b =>
      unfold wSkip
      by_cases h : frame b ≤ maxMsg
      · rw [if_pos h]
        refine ⟨rfl, fun op h => h, ?_⟩
        intro b' rest e
        simp only [List.cons.injEq, WOp.rawWrite.injEq] at e
        rw [← e.1]; exact h
      · rw [if_neg h]
        obtain ⟨h1, h2, h3⟩ := ih (log ++ [(b, false)])
        refine ⟨by rw [h1, pubOf_append_false], ?_, h3⟩
        intro op hop
        exact List.mem_cons_of_mem _ (h2 op hop)

/-! ### the invariant -/

def WPc.inflight : WPc → Bytes
  | .copying _ d _ => d
  | .idle => []

def WPc.prog : WPc → Nat
  | .copying _ _ k => k
  | .idle => 0

/-- what the reader's pc knows, `L` = number of published messages before the lookahead cursor -/
def RInv (P : List Bytes) (C L N : Nat) (rbuf : Bytes) : RPc → Prop
  | .idle => True
  | .framing l wv => ∃ j, (if l then L else C) ≤ j ∧ j ≤ P.length ∧ wv = offs P j % N
  | .copying l len k =>
    k ≤ len ∧ (len = 0 ∨ ∃ h : (if l then L else C) < P.length,
      len = P[if l then L else C].length ∧ rbuf.take k = P[if l then L else C].take k)

/-- The invariant, over the components of a state.  `P` = published messages, `Rt` = messages
    returned by consuming reads.  Absolute positions: the writer is at `P.flatten.length`,
    the reader at `offs P Rt.length`; the ring offsets are these modulo `N`. -/
structure InvC (frame : Bytes → Nat) (IsMsg : Bytes → Prop) (N maxMsg : Nat) (buf : Bytes) (w r : Nat)
    (wops : List WOp) (wpc : WPc) (P : List Bytes) (rpc : RPc) (la : Nat) (rbuf : Bytes)
    (Rt : List Bytes) (fault : Bool) : Prop where
  hN : 0 < N
  hbuf : buf.length = N
  hrbuf : rbuf.length = maxMsg
  hfault : fault = false
  hops : ∀ op, op ∈ wops → IsMsg op.msg
  hnorm : wpc = .idle → ∀ b rest, wops = .rawWrite b :: rest → frame b ≤ maxMsg
  hP : ∀ m, m ∈ P → IsMsg m ∧ m.length ≤ maxMsg
  hret : Rt = P.take Rt.length
  hw : w = P.flatten.length % N
  hr : r = offs P Rt.length % N
  hspace : P.flatten.length + wpc.inflight.length + 1 ≤ offs P Rt.length + N
  hcontent : Holds buf N (P.flatten ++ wpc.inflight) (offs P Rt.length) (P.flatten.length + wpc.prog)
  hwpc : ∀ m d k, wpc = .copying m d k → k ≤ d.length ∧ (d = [] ∨ (IsMsg d ∧ d.length ≤ maxMsg))
  hreader : ∃ L, Rt.length ≤ L ∧ L ≤ P.length ∧ la = offs P L % N ∧ RInv P Rt.length L N rbuf rpc

def Inv (frame : Bytes → Nat) (IsMsg : Bytes → Prop) (s : Conc) : Prop :=
  InvC frame IsMsg s.N s.maxMsg s.buf s.w s.r s.wops s.wpc (pubOf s.wlog) s.rpc s.la s.rbuf
    (retOf s.rlog) s.fault

theorem InvC.hC {frame IsMsg N maxMsg buf w r wops wpc P rpc la rbuf Rt fault}
    (inv : InvC frame IsMsg N maxMsg buf w r wops wpc P rpc la rbuf Rt fault) :
    Rt.length ≤ P.length := by
  have := congrArg List.length inv.hret
  rw [List.length_take] at this
  omega

theorem RInv.append {P : List Bytes} {C L N : Nat} {rbuf : Bytes} {pc : RPc} (d : Bytes)
    (h : RInv P C L N rbuf pc) :
    RInv (P ++ [d]) C L N rbuf pc := by
  cases pc with
  | idle => trivial
  | framing l wv =>
    obtain ⟨j, h1, h2, h3⟩ := h
    exact ⟨j, h1, by simp; omega, by rw [offs_append d h2]; exact h3⟩
  | copying l len k =>
    obtain ⟨h1, h2⟩ := h
    refine ⟨h1, ?_⟩
    rcases h2 with h2 | ⟨hx, h3, h4⟩
    · exact Or.inl h2
    · refine Or.inr ⟨by simp; omega, ?_⟩
      rw [List.getElem_append_left hx]
      exact ⟨h3, h4⟩

theorem wData_ok {frame : Bytes → Nat} {IsMsg : Bytes → Prop} (fr : Framing frame IsMsg)
    {maxMsg : Nat} {op : WOp} (h1 : IsMsg op.msg)
    (h2 : ∀ b, op = .rawWrite b → frame b ≤ maxMsg) :
    (wData frame maxMsg op).2 = [] ∨
      (IsMsg (wData frame maxMsg op).2 ∧ (wData frame maxMsg op).2.length ≤ maxMsg) := by
  cases op with
  | write m =>
    simp only [wData]
    by_cases h : m.length ≤ maxMsg
    · rw [if_pos h]; exact Or.inr ⟨h1, h⟩
    · rw [if_neg h]; exact Or.inl rfl
  | rawWrite b =>
    simp only [wData]
    have hb : IsMsg b := h1
    have e : frame b = b.length := by
      have := fr.msg b [] hb
      rwa [List.append_nil] at this
    have hl := h2 b rfl
    rw [e, List.take_length]
    exact Or.inr ⟨hb, by omega⟩

/-- the free space computed from the loaded indices is the true free space -/
theorem InvC.writeSize {frame IsMsg N maxMsg buf w r wops P rpc la rbuf Rt fault}
    (inv : InvC frame IsMsg N maxMsg buf w r wops .idle P rpc la rbuf Rt fault) :
    Ring.writeSize w r N + P.flatten.length = N - 1 + offs P Rt.length := by
  have h1 := offs_le_total P Rt.length
  have hsp := inv.hspace
  simp only [WPc.inflight, List.length_nil, Nat.add_zero] at hsp
  have e : P.flatten.length = offs P Rt.length + (P.flatten.length - offs P Rt.length) := by omega
  have := writeSize_eq (A := offs P Rt.length) (D := P.flatten.length - offs P Rt.length) inv.hN (by omega)
  rw [← e, ← inv.hw, ← inv.hr] at this
  omega

theorem wStep_inv {frame : Bytes → Nat} {IsMsg : Bytes → Prop} (fr : Framing frame IsMsg)
    {s s' : Conc} {e : Ev} (inv : Inv frame IsMsg s) (h : s.wStep frame = some (s', e)) :
    Inv frame IsMsg s' := by
  unfold Inv at inv
  unfold Conc.wStep at h
  cases hpc : s.wpc with
  | idle =>
    rw [hpc] at h inv
    simp only at h
    cases hops : s.wops with
    | nil => rw [hops] at h; simp at h
    | cons op rest =>
      rw [hops] at h inv
      simp only at h
      have hop : IsMsg op.msg := inv.hops op List.mem_cons_self
      have hraw : ∀ b, op = .rawWrite b → frame b ≤ s.maxMsg := by
        intro b hb; exact inv.hnorm rfl b rest (by rw [hb])
      have hdata := wData_ok fr hop hraw
      have hws := inv.writeSize
      have hcont := inv.hcontent
      have hsp := inv.hspace
      simp only [WPc.inflight, WPc.prog, List.length_nil, Nat.add_zero, List.append_nil] at hcont hsp
      split at h
      · -- accepted
        rename_i hfit
        simp only [Option.some.injEq, Prod.mk.injEq] at h
        obtain ⟨rfl, -⟩ := h
        show InvC frame IsMsg s.N s.maxMsg s.buf s.w s.r rest
          (.copying (wData frame s.maxMsg op).1 (wData frame s.maxMsg op).2 0) (pubOf s.wlog)
          s.rpc s.la s.rbuf (retOf s.rlog) s.fault
        exact {
          hN := inv.hN, hbuf := inv.hbuf, hrbuf := inv.hrbuf, hfault := inv.hfault
          hops := fun op' h' => inv.hops op' (List.mem_cons_of_mem _ h')
          hnorm := fun h' => by cases h'
          hP := inv.hP, hret := inv.hret, hw := inv.hw, hr := inv.hr
          hspace := by have := inv.hN; simp only [WPc.inflight]; omega
          hcontent := by
            simp only [WPc.inflight, WPc.prog, Nat.add_zero]
            intro i h1 h2
            rw [getD_append_left' (by omega)]
            exact hcont i h1 h2
          hwpc := by
            intro m d k hk
            simp only [WPc.copying.injEq] at hk
            obtain ⟨-, rfl, rfl⟩ := hk
            exact ⟨Nat.zero_le _, hdata⟩
          hreader := inv.hreader }
      · -- dropped: does not fit
        simp only [Option.some.injEq, Prod.mk.injEq] at h
        obtain ⟨rfl, -⟩ := h
        obtain ⟨k1, k2, k3⟩ := wSkip_spec frame s.maxMsg rest (s.wlog ++ [((wData frame s.maxMsg op).1, false)])
        rw [pubOf_append_false] at k1
        show InvC frame IsMsg s.N s.maxMsg s.buf s.w s.r
          (wSkip frame s.maxMsg rest (s.wlog ++ [((wData frame s.maxMsg op).1, false)])).1 .idle
          (pubOf (wSkip frame s.maxMsg rest (s.wlog ++ [((wData frame s.maxMsg op).1, false)])).2)
          s.rpc s.la s.rbuf (retOf s.rlog) s.fault
        rw [k1]
        exact {
          hN := inv.hN, hbuf := inv.hbuf, hrbuf := inv.hrbuf, hfault := inv.hfault
          hops := fun op' h' => inv.hops op' (List.mem_cons_of_mem _ (k2 op' h'))
          hnorm := fun _ => k3
          hP := inv.hP, hret := inv.hret, hw := inv.hw, hr := inv.hr
          hspace := inv.hspace, hcontent := inv.hcontent
          hwpc := by intro m d k hk; cases hk
          hreader := inv.hreader }
  | copying m data k =>
    rw [hpc] at h inv
    simp only at h
    have hN := inv.hN
    have hsp := inv.hspace
    have hcont := inv.hcontent
    obtain ⟨hkle, hdata⟩ := inv.hwpc m data k rfl
    simp only [WPc.inflight, WPc.prog] at hsp hcont
    have hC := inv.hC
    have hoff := offs_le_total (pubOf s.wlog) (retOf s.rlog).length
    split at h
    · -- one memcpy step into the ring
      rename_i hk
      have hspec := chunkAt_spec (A := (pubOf s.wlog).flatten.length) (len := data.length)
        (N := s.N) (chunk := s.chunk) (k := k) hN (by omega) hk
      rw [← inv.hw] at hspec
      generalize chunkAt s.N s.w data.length s.chunk k = oc at h hspec
      obtain ⟨off, c⟩ := oc
      simp only at h hspec
      obtain ⟨hc0, hc1, hc2, hc3⟩ := hspec
      have hsl : ((data.drop k).take c).length = c := by simp; omega
      have hok : off + ((data.drop k).take c).length ≤ s.buf.length := by rw [hsl, inv.hbuf]; exact hc2
      have hb2 : (blit s.buf off ((data.drop k).take c)).2 = true := by rw [blit_ok hok]
      have hbl := blit_length hok
      have hnew := Holds.blit (src := (data.drop k).take c) (off := off) hcont inv.hbuf
        (by rw [hsl]; omega) (by rw [hsl]; exact hc2)
        (by intro i hi; rw [hsl] at hi; rw [Nat.add_assoc]; exact hc3 i hi)
        (by
          intro i hi; rw [hsl] at hi
          rw [getD_take' hi, getD_drop', getD_append_right' (by omega)]
          congr 1; omega)
      rw [hsl] at hnew
      generalize blit s.buf off ((data.drop k).take c) = bo at h hb2 hbl hnew
      obtain ⟨b, ok⟩ := bo
      simp only at h hb2 hbl hnew
      simp only [Option.some.injEq, Prod.mk.injEq] at h
      obtain ⟨rfl, -⟩ := h
      show InvC frame IsMsg s.N s.maxMsg b s.w s.r s.wops (.copying m data (k + c)) (pubOf s.wlog)
        s.rpc s.la s.rbuf (retOf s.rlog) (s.fault || !ok)
      exact {
        hN := inv.hN, hbuf := by rw [hbl]; exact inv.hbuf, hrbuf := inv.hrbuf
        hfault := by rw [inv.hfault, hb2]; rfl
        hops := inv.hops
        hnorm := fun h' => by cases h'
        hP := inv.hP, hret := inv.hret, hw := inv.hw, hr := inv.hr
        hspace := by simp only [WPc.inflight]; exact hsp
        hcontent := by simp only [WPc.inflight, WPc.prog]; rw [← Nat.add_assoc]; exact hnew
        hwpc := by
          intro m' d' k' hk'
          simp only [WPc.copying.injEq] at hk'
          obtain ⟨-, rfl, rfl⟩ := hk'
          exact ⟨hc1, hdata⟩
        hreader := inv.hreader }
    · -- publish: store ring->write
      rename_i hk
      have hkeq : k = data.length := by omega
      subst hkeq
      have hwlt : s.w < s.N := by rw [inv.hw]; exact Nat.mod_lt _ hN
      by_cases hd : data = []
      · subst hd
        rw [if_pos rfl] at h
        obtain ⟨k1, k2, k3⟩ := wSkip_spec frame s.maxMsg s.wops (s.wlog ++ [(m, false)])
        rw [pubOf_append_false] at k1
        generalize wSkip frame s.maxMsg s.wops (s.wlog ++ [(m, false)]) = sk at h k1 k2 k3
        obtain ⟨ops, log⟩ := sk
        simp only [Option.some.injEq, Prod.mk.injEq] at h k1 k2 k3
        obtain ⟨rfl, -⟩ := h
        show InvC frame IsMsg s.N s.maxMsg s.buf ((s.w + ([] : Bytes).length) % s.N) s.r ops .idle (pubOf log)
          s.rpc s.la s.rbuf (retOf s.rlog) s.fault
        rw [k1]
        simp only [List.length_nil, Nat.add_zero, List.append_nil] at hsp hcont ⊢
        rw [Nat.mod_eq_of_lt hwlt]
        exact {
          hN := inv.hN, hbuf := inv.hbuf, hrbuf := inv.hrbuf, hfault := inv.hfault
          hops := fun op' h' => inv.hops op' (k2 op' h')
          hnorm := fun _ => k3
          hP := inv.hP, hret := inv.hret, hw := inv.hw, hr := inv.hr
          hspace := by simp only [WPc.inflight, List.length_nil, Nat.add_zero]; exact hsp
          hcontent := by simp only [WPc.inflight, WPc.prog, List.append_nil, Nat.add_zero]; exact hcont
          hwpc := by intro m d k hk; cases hk
          hreader := inv.hreader }
      · rw [if_neg hd] at h
        obtain ⟨k1, k2, k3⟩ := wSkip_spec frame s.maxMsg s.wops (s.wlog ++ [(data, true)])
        rw [pubOf_append_true] at k1
        generalize wSkip frame s.maxMsg s.wops (s.wlog ++ [(data, true)]) = sk at h k1 k2 k3
        obtain ⟨ops, log⟩ := sk
        simp only [Option.some.injEq, Prod.mk.injEq] at h k1 k2 k3
        obtain ⟨rfl, -⟩ := h
        show InvC frame IsMsg s.N s.maxMsg s.buf ((s.w + data.length) % s.N) s.r ops .idle (pubOf log)
          s.rpc s.la s.rbuf (retOf s.rlog) s.fault
        rw [k1]
        have hdm : IsMsg data ∧ data.length ≤ s.maxMsg := by
          rcases hdata with h' | h'
          · exact absurd h' hd
          · exact h'
        have hfl : (pubOf s.wlog ++ [data]).flatten = (pubOf s.wlog).flatten ++ data := by simp
        have hoC : offs (pubOf s.wlog ++ [data]) (retOf s.rlog).length =
            offs (pubOf s.wlog) (retOf s.rlog).length := offs_append data hC
        obtain ⟨L, hL1, hL2, hL3, hL4⟩ := inv.hreader
        exact {
          hN := inv.hN, hbuf := inv.hbuf, hrbuf := inv.hrbuf, hfault := inv.hfault
          hops := fun op' h' => inv.hops op' (k2 op' h')
          hnorm := fun _ => k3
          hP := by
            intro m' hm'
            rcases List.mem_append.mp hm' with h' | h'
            · exact inv.hP m' h'
            · rw [List.mem_singleton.mp h']; exact hdm
          hret := by rw [List.take_append_of_le_length hC]; exact inv.hret
          hw := by rw [hfl, List.length_append, inv.hw, Nat.mod_add_mod]
          hr := by rw [hoC]; exact inv.hr
          hspace := by
            rw [hoC, hfl, List.length_append]
            simp only [WPc.inflight, List.length_nil, Nat.add_zero]; exact hsp
          hcontent := by
            rw [hoC, hfl, List.length_append]
            simp only [WPc.inflight, WPc.prog, List.append_nil, Nat.add_zero]; exact hcont
          hwpc := by intro m d k hk; cases hk
          hreader := ⟨L, hL1, by rw [List.length_append]; simp; omega,
            by rw [offs_append data hL2]; exact hL3, RInv.append data hL4⟩ }

theorem InvC.prog_le {frame IsMsg N maxMsg buf w r wops wpc P rpc la rbuf Rt fault}
    (inv : InvC frame IsMsg N maxMsg buf w r wops wpc P rpc la rbuf Rt fault) :
    wpc.prog ≤ wpc.inflight.length := by
  cases wpc with
  | idle => exact Nat.le_refl _
  | copying m d k => exact (inv.hwpc m d k rfl).1

theorem rStep_inv {frame : Bytes → Nat} {IsMsg : Bytes → Prop} (fr : Framing frame IsMsg)
    {s s' : Conc} {e : Ev} (inv : Inv frame IsMsg s) (h : s.rStep frame = some (s', e)) :
    Inv frame IsMsg s' := by
  unfold Inv at inv
  unfold Conc.rStep at h
  have hN := inv.hN
  have hC := inv.hC
  have hprog := inv.prog_le
  have hoffC := offs_le_total (pubOf s.wlog) (retOf s.rlog).length
  obtain ⟨L, hL1, hL2, hL3, hL4⟩ := inv.hreader
  cases hpc : s.rpc with
  | idle =>
    rw [hpc] at h inv hL4
    simp only at h
    cases hops : s.rops with
    | nil => rw [hops] at h; simp at h
    | cons op rest =>
      rw [hops] at h
      cases op with
      | hasNext l =>
        simp only [Option.some.injEq, Prod.mk.injEq] at h
        obtain ⟨rfl, -⟩ := h
        show InvC frame IsMsg s.N s.maxMsg s.buf s.w s.r s.wops s.wpc (pubOf s.wlog) .idle s.la s.rbuf
          (retOf (s.rlog ++ [.hasNext l _])) s.fault
        rw [retOf_append_hasNext]
        exact inv
      | read l =>
        simp only [Option.some.injEq, Prod.mk.injEq] at h
        obtain ⟨rfl, -⟩ := h
        show InvC frame IsMsg s.N s.maxMsg s.buf s.w s.r s.wops s.wpc (pubOf s.wlog) (.framing l s.w)
          s.la s.rbuf (retOf s.rlog) s.fault
        exact { inv with
          hreader := ⟨L, hL1, hL2, hL3, (pubOf s.wlog).length,
            by split <;> omega, Nat.le_refl _, by rw [offs_length]; exact inv.hw⟩ }
  | framing l wv =>
    rw [hpc] at h inv hL4
    simp only at h
    obtain ⟨j, hj1, hj2, hj3⟩ := hL4
    -- X: index of the message the view starts with; x: its ring offset
    have hXC : (retOf s.rlog).length ≤ (if l = true then L else (retOf s.rlog).length) := by
      split <;> omega
    have hxX : (if l = true then s.la else s.r) =
        offs (pubOf s.wlog) (if l = true then L else (retOf s.rlog).length) % s.N := by
      cases l
      · simpa using inv.hr
      · simpa using hL3
    generalize hXdef : (if l = true then L else (retOf s.rlog).length) = X at *
    generalize hxdef : (if l = true then s.la else s.r) = x at *
    have ho1 : offs (pubOf s.wlog) (retOf s.rlog).length ≤ offs (pubOf s.wlog) X := offs_mono hXC
    have ho2 : offs (pubOf s.wlog) X ≤ offs (pubOf s.wlog) j := offs_mono hj1
    have ho3 : offs (pubOf s.wlog) j ≤ (pubOf s.wlog).flatten.length := offs_le_total _ _
    have hsp := inv.hspace
    have hwv : wv = (offs (pubOf s.wlog) X + (offs (pubOf s.wlog) j - offs (pubOf s.wlog) X)) % s.N := by
      rw [hj3]; congr 1; omega
    have hview := readVector_holds (A := offs (pubOf s.wlog) X)
      (V := offs (pubOf s.wlog) j - offs (pubOf s.wlog) X) hN inv.hbuf (by omega)
      (inv.hcontent.mono ho1 (by omega)) (by rw [List.length_append]; omega)
    rw [← hwv, ← hxX, stream_view _ hj1] at hview
    generalize readVector s.buf s.N wv x = rv at h hview
    obtain ⟨d0, d1, ok⟩ := rv
    simp only at h hview
    obtain ⟨hok, hv⟩ := hview
    subst hok
    -- what the framing finds
    have hlen : frame (d0 ++ d1) = 0 ∨ ∃ hx : X < (pubOf s.wlog).length, frame (d0 ++ d1) = (pubOf s.wlog)[X].length := by
      by_cases hXj : X < j
      · right
        refine ⟨by omega, ?_⟩
        rw [hv, view_head hXj hj2]
        exact fr.msg _ _ (inv.hP _ (List.getElem_mem _)).1
      · left
        have : X = j := by omega
        subst this
        have hnil : ((pubOf s.wlog).take X).drop X = [] := by
          apply List.drop_eq_nil_of_le; rw [List.length_take]; exact Nat.min_le_left _ _
        have := fr.le (d0 ++ d1)
        rw [hv, hnil] at this
        rw [hv, hnil]
        simpa using this
    generalize frame (d0 ++ d1) = len at h hlen
    have hxlt : x < s.N := by rw [hxX]; exact Nat.mod_lt _ hN
    split at h
    · -- lookahead read that finds nothing
      rename_i hc
      obtain ⟨hl, hlen0⟩ := hc
      subst hl; subst hlen0
      simp only [Option.some.injEq, Prod.mk.injEq] at h
      obtain ⟨rfl, -⟩ := h
      show InvC frame IsMsg s.N s.maxMsg s.buf s.w s.r s.wops s.wpc (pubOf s.wlog) .idle
        ((x + 0) % s.N) s.rbuf (retOf (s.rlog ++ [.read true []])) (s.fault || !true)
      rw [retOf_append_la, Nat.add_zero, Nat.mod_eq_of_lt hxlt]
      have hxla : s.la = x := by simpa using hxdef
      exact { inv with
        hfault := by rw [inv.hfault]; rfl
        hreader := ⟨L, hL1, hL2, by rw [← hxla]; exact hL3, trivial⟩ }
    · simp only [Option.some.injEq, Prod.mk.injEq] at h
      obtain ⟨rfl, -⟩ := h
      show InvC frame IsMsg s.N s.maxMsg s.buf s.w s.r s.wops s.wpc (pubOf s.wlog) (.copying l len 0)
        s.la s.rbuf (retOf s.rlog) (s.fault || !true)
      exact { inv with
        hfault := by rw [inv.hfault]; rfl
        hreader := ⟨L, hL1, hL2, hL3, Nat.zero_le _, by
          rcases hlen with h0 | ⟨hx, hl⟩
          · exact Or.inl h0
          · rw [hXdef]; exact Or.inr ⟨hx, hl, by simp⟩⟩ }
  | copying l len k =>
    rw [hpc] at h inv hL4
    simp only at h
    obtain ⟨hkle, hmsg⟩ := hL4
    have hXC : (retOf s.rlog).length ≤ (if l = true then L else (retOf s.rlog).length) := by
      split <;> omega
    have hxX : (if l = true then s.la else s.r) =
        offs (pubOf s.wlog) (if l = true then L else (retOf s.rlog).length) % s.N := by
      cases l
      · simpa using inv.hr
      · simpa using hL3
    generalize hXdef : (if l = true then L else (retOf s.rlog).length) = X at *
    generalize hxdef : (if l = true then s.la else s.r) = x at *
    have ho1 : offs (pubOf s.wlog) (retOf s.rlog).length ≤ offs (pubOf s.wlog) X := offs_mono hXC
    have hsp := inv.hspace
    have hxlt : x < s.N := by rw [hxX]; exact Nat.mod_lt _ hN
    split at h
    · -- one memcpy step out of the ring
      rename_i hk
      rcases hmsg with h0 | ⟨hx, hlen, hrb⟩
      · omega
      have htot := getElem_length_le_total hx
      have hmx := (inv.hP _ (List.getElem_mem hx)).2
      have hspec := chunkAt_spec (A := offs (pubOf s.wlog) X) (len := len) (N := s.N) (chunk := s.chunk)
        (k := k) hN (by omega) hk
      rw [← hxX] at hspec
      generalize chunkAt s.N x len s.chunk k = oc at h hspec
      obtain ⟨off, c⟩ := oc
      simp only at h hspec
      obtain ⟨hc0, hc1, hc2, hc3⟩ := hspec
      have hsl := slice_holds (p := offs (pubOf s.wlog) X + k) (c := c) (off := off) inv.hbuf inv.hcontent
        (by omega) (by omega) (by rw [List.length_append]; omega) hc2
        (by intro i hi; rw [Nat.add_assoc]; exact hc3 i hi)
      rw [stream_msg _ hx (by omega)] at hsl
      rw [hsl] at h
      simp only at h
      have hbl : (((pubOf s.wlog)[X].drop k).take c).length = c := by simp; omega
      have hok : k + (((pubOf s.wlog)[X].drop k).take c).length ≤ s.rbuf.length := by
        rw [hbl, inv.hrbuf]; omega
      have hrbl := blit_length hok
      have hrbt : (blit s.rbuf k (((pubOf s.wlog)[X].drop k).take c)).1.take (k + c) =
          (pubOf s.wlog)[X].take (k + c) := by
        rw [blit_ok hok]
        simp only
        have hl1 : (s.rbuf.take k ++ ((pubOf s.wlog)[X].drop k).take c).length = k + c := by
          rw [List.length_append, hbl, List.length_take]; omega
        rw [List.take_left' hl1, hrb, List.take_add]
      rw [blit_ok hok] at h
      rw [blit_ok hok] at hrbl hrbt
      simp only at h hrbl hrbt
      split at h
      · -- last chunk of a lookahead read
        rename_i hc
        obtain ⟨hl, hfin⟩ := hc
        subst hl
        have hkc : k + c = len := by omega
        have hXL : L = X := by simpa using hXdef
        have hxla : s.la = x := by simpa using hxdef
        subst hXL
        simp only [Option.some.injEq, Prod.mk.injEq] at h
        obtain ⟨rfl, -⟩ := h
        show InvC frame IsMsg s.N s.maxMsg s.buf s.w s.r s.wops s.wpc (pubOf s.wlog) .idle
          ((x + len) % s.N) _ (retOf (s.rlog ++ [.read true _])) (s.fault || !(true && true))
        rw [retOf_append_la]
        exact { inv with
          hrbuf := by rw [hrbl]; exact inv.hrbuf
          hfault := by rw [inv.hfault]; rfl
          hreader := ⟨L + 1, by omega, by omega,
            by rw [hxX, Nat.mod_add_mod, offs_succ hx, hlen], trivial⟩ }
      · simp only [Option.some.injEq, Prod.mk.injEq] at h
        obtain ⟨rfl, -⟩ := h
        show InvC frame IsMsg s.N s.maxMsg s.buf s.w s.r s.wops s.wpc (pubOf s.wlog) (.copying l len (k + c))
          s.la _ (retOf s.rlog) (s.fault || !(true && true))
        exact { inv with
          hrbuf := by rw [hrbl]; exact inv.hrbuf
          hfault := by rw [inv.hfault]; rfl
          hreader := ⟨L, hL1, hL2, hL3, hc1, by rw [hXdef]; exact Or.inr ⟨hx, hlen, hrbt⟩⟩ }
    · rename_i hk
      have hkeq : k = len := by omega
      subst hkeq
      cases l with
      | true => simp at h
      | false =>
        simp only [Bool.false_eq_true, if_false] at h hXdef hxdef
        subst hXdef; subst hxdef
        simp only [Option.some.injEq, Prod.mk.injEq] at h
        obtain ⟨rfl, -⟩ := h
        show InvC frame IsMsg s.N s.maxMsg s.buf s.w ((s.r + k) % s.N) s.wops s.wpc (pubOf s.wlog) .idle
          ((s.r + k) % s.N) s.rbuf (retOf (s.rlog ++ [.read false (s.rbuf.take k)])) s.fault
        rcases hmsg with h0 | ⟨hx, hlen, hrb⟩
        · -- nothing was there: the indices stay
          subst h0
          rw [List.take_zero, retOf_append_nil, Nat.add_zero, Nat.mod_eq_of_lt hxlt]
          exact { inv with
            hreader := ⟨(retOf s.rlog).length, Nat.le_refl _, hC, inv.hr, trivial⟩ }
        · -- the head message is consumed
          have hfull : s.rbuf.take k = (pubOf s.wlog)[(retOf s.rlog).length] := by
            rw [hrb, hlen, List.take_length]
          have hne : (pubOf s.wlog)[(retOf s.rlog).length] ≠ [] :=
            fr.ne _ (inv.hP _ (List.getElem_mem hx)).1
          rw [hfull, retOf_append_msg _ hne]
          have hsucc := offs_succ hx
          have hlen1 : (retOf s.rlog ++ [(pubOf s.wlog)[(retOf s.rlog).length]]).length =
              (retOf s.rlog).length + 1 := by simp
          have hnext : (s.r + k) % s.N = offs (pubOf s.wlog) ((retOf s.rlog).length + 1) % s.N := by
            rw [inv.hr, Nat.mod_add_mod, hsucc, hlen]
          exact { inv with
            hret := by
              rw [hlen1, List.take_succ_eq_append_getElem hx, ← inv.hret]
            hr := by rw [hlen1]; exact hnext
            hspace := by rw [hlen1, hsucc]; omega
            hcontent := by rw [hlen1]; exact inv.hcontent.mono (by rw [hsucc]; omega) (Nat.le_refl _)
            hreader := ⟨(retOf s.rlog).length + 1, by rw [hlen1]; exact Nat.le_refl _, by omega, hnext, trivial⟩ }

theorem step_inv {frame : Bytes → Nat} {IsMsg : Bytes → Prop} (fr : Framing frame IsMsg)
    {s s' : Conc} {e : Ev} (t : Tid) (inv : Inv frame IsMsg s) (h : s.step frame t = some (s', e)) :
    Inv frame IsMsg s' := by
  cases t with
  | writer => exact wStep_inv fr inv h
  | reader => exact rStep_inv fr inv h

theorem init_inv {frame : Bytes → Nat} {IsMsg : Bytes → Prop} (maxMsg nmsgs chunk : Nat)
    (wops : List WOp) (rops : List ROp) (hN : 0 < maxMsg * nmsgs) (hops : ∀ op, op ∈ wops → IsMsg op.msg) :
    Inv frame IsMsg (Conc.init frame maxMsg nmsgs chunk wops rops) := by
  obtain ⟨k1, k2, k3⟩ := wSkip_spec frame maxMsg wops []
  unfold Conc.init
  generalize wSkip frame maxMsg wops [] = sk at k1 k2 k3
  obtain ⟨ops, log⟩ := sk
  simp only at k1 k2 k3 ⊢
  have hp : pubOf log = [] := by rw [k1]; rfl
  show InvC frame IsMsg (maxMsg * nmsgs) maxMsg (List.replicate (maxMsg * nmsgs) 0) 0 0 ops .idle (pubOf log)
    .idle 0 (List.replicate maxMsg 0) (retOf []) false
  rw [hp]
  exact {
    hN := hN, hbuf := by simp, hrbuf := by simp, hfault := rfl
    hops := fun op h => hops op (k2 op h)
    hnorm := fun _ => k3
    hP := by intro m hm; cases hm
    hret := rfl
    hw := by simp
    hr := by simp [offs, retOf]
    hspace := by simp [offs, retOf, WPc.inflight]; omega
    hcontent := by intro i h1 h2; simp [WPc.prog] at h2
    hwpc := by intro m d k hk; cases hk
    hreader := ⟨0, by simp [retOf], by simp, by simp [offs], trivial⟩ }

/-- the invariant holds in every reachable state -/
theorem reach_inv {frame : Bytes → Nat} {IsMsg : Bytes → Prop} (fr : Framing frame IsMsg)
    {s0 s : Conc} (h0 : Inv frame IsMsg s0) (h : Conc.Reach frame s0 s) : Inv frame IsMsg s := by
  induction h with
  | refl => exact h0
  | step t _ hs ih => exact step_inv fr t ih hs

/-! ### data-race freedom on ring bytes -/

theorem inv_drf {frame : Bytes → Nat} {IsMsg : Bytes → Prop} {s : Conc} (inv : Inv frame IsMsg s)
    (o : Nat) (hw : o ∈ s.writerWrites) (hr : o ∈ s.readerReads) : False := by
  unfold Inv at inv
  have hN := inv.hN
  have hC := inv.hC
  have hoffC := offs_le_total (pubOf s.wlog) (retOf s.rlog).length
  obtain ⟨L, hL1, hL2, hL3, hL4⟩ := inv.hreader
  unfold Conc.writerWrites at hw
  cases hpc : s.wpc with
  | idle => rw [hpc] at hw; simp at hw
  | copying m data k =>
    rw [hpc] at hw inv
    simp only at hw
    have hsp := inv.hspace
    simp only [WPc.inflight] at hsp
    split at hw
    · rename_i hk
      have hspec := chunkAt_spec (A := (pubOf s.wlog).flatten.length) (len := data.length)
        (N := s.N) (chunk := s.chunk) (k := k) hN (by omega) hk
      rw [← inv.hw] at hspec
      generalize chunkAt s.N s.w data.length s.chunk k = oc at hw hspec
      obtain ⟨off, c⟩ := oc
      simp only at hw hspec
      obtain ⟨-, hc1, -, hc3⟩ := hspec
      obtain ⟨i, hi, rfl⟩ := List.mem_map.mp hw
      have hi : i < c := List.mem_range.mp hi
      -- the writer touches absolute position p = W + k + i
      have hp := hc3 i hi
      unfold Conc.readerReads at hr
      cases hrpc : s.rpc with
      | idle => rw [hrpc] at hr; simp at hr
      | framing l wv =>
        rw [hrpc] at hr hL4
        simp only at hr
        obtain ⟨j, hj1, hj2, hj3⟩ := hL4
        have hXC : (retOf s.rlog).length ≤ (if l = true then L else (retOf s.rlog).length) := by
          split <;> omega
        have hxX : (if l = true then s.la else s.r) =
            offs (pubOf s.wlog) (if l = true then L else (retOf s.rlog).length) % s.N := by
          cases l
          · simpa using inv.hr
          · simpa using hL3
        generalize (if l = true then L else (retOf s.rlog).length) = X at *
        generalize (if l = true then s.la else s.r) = x at *
        have ho1 : offs (pubOf s.wlog) (retOf s.rlog).length ≤ offs (pubOf s.wlog) X := offs_mono hXC
        have ho2 : offs (pubOf s.wlog) X ≤ offs (pubOf s.wlog) j := offs_mono hj1
        have ho3 : offs (pubOf s.wlog) j ≤ (pubOf s.wlog).flatten.length := offs_le_total _ _
        have hrs : readSize wv x s.N = offs (pubOf s.wlog) j - offs (pubOf s.wlog) X := by
          rw [hxX, hj3]
          have := readSize_eq (A := offs (pubOf s.wlog) X)
            (D := offs (pubOf s.wlog) j - offs (pubOf s.wlog) X) hN (by omega)
          rw [← this]; congr 2; omega
        rw [hrs] at hr
        obtain ⟨i', hi', he⟩ := List.mem_map.mp hr
        have hi' : i' < _ := List.mem_range.mp hi'
        rw [hxX, Nat.mod_add_mod] at he
        rw [← hp] at he
        exact mod_ne_of_lt_of_lt (i := offs (pubOf s.wlog) X + i')
          (j := (pubOf s.wlog).flatten.length + (k + i)) (by omega) (by omega) he
      | copying l len k' =>
        rw [hrpc] at hr hL4
        simp only at hr
        obtain ⟨-, hmsg⟩ := hL4
        have hXC : (retOf s.rlog).length ≤ (if l = true then L else (retOf s.rlog).length) := by
          split <;> omega
        have hxX : (if l = true then s.la else s.r) =
            offs (pubOf s.wlog) (if l = true then L else (retOf s.rlog).length) % s.N := by
          cases l
          · simpa using inv.hr
          · simpa using hL3
        generalize (if l = true then L else (retOf s.rlog).length) = X at *
        generalize (if l = true then s.la else s.r) = x at *
        have ho1 : offs (pubOf s.wlog) (retOf s.rlog).length ≤ offs (pubOf s.wlog) X := offs_mono hXC
        split at hr
        · rename_i hk'
          rcases hmsg with h0 | ⟨hx, hlen, -⟩
          · omega
          have htot := getElem_length_le_total hx
          have hspec' := chunkAt_spec (A := offs (pubOf s.wlog) X) (len := len) (N := s.N)
            (chunk := s.chunk) (k := k') hN (by omega) hk'
          rw [← hxX] at hspec'
          generalize chunkAt s.N x len s.chunk k' = oc' at hr hspec'
          obtain ⟨off', c'⟩ := oc'
          simp only at hr hspec'
          obtain ⟨-, hd1, -, hd3⟩ := hspec'
          obtain ⟨i', hi', he⟩ := List.mem_map.mp hr
          have hi' : i' < c' := List.mem_range.mp hi'
          rw [← hd3 i' hi', ← hp] at he
          exact mod_ne_of_lt_of_lt (i := offs (pubOf s.wlog) X + (k' + i'))
            (j := (pubOf s.wlog).flatten.length + (k + i)) (by omega) (by omega) he
        · simp at hr
    · simp at hw

/-! ### hasNext -/

theorem inv_hasNext {frame : Bytes → Nat} {IsMsg : Bytes → Prop} (fr : Framing frame IsMsg)
    {s : Conc} (inv : Inv frame IsMsg s) :
    readSize s.w s.r s.N ≠ 0 ↔ s.returned.length < s.published.length := by
  unfold Inv at inv
  have hN := inv.hN
  have hC := inv.hC
  have hoffC := offs_le_total (pubOf s.wlog) (retOf s.rlog).length
  have hsp := inv.hspace
  show _ ↔ (retOf s.rlog).length < (pubOf s.wlog).length
  have hrs : readSize s.w s.r s.N =
      (pubOf s.wlog).flatten.length - offs (pubOf s.wlog) (retOf s.rlog).length := by
    rw [inv.hw, inv.hr]
    have := readSize_eq (A := offs (pubOf s.wlog) (retOf s.rlog).length)
      (D := (pubOf s.wlog).flatten.length - offs (pubOf s.wlog) (retOf s.rlog).length) hN (by omega)
    rw [← this]; congr 2; omega
  rw [hrs]
  constructor
  · intro h
    by_cases hlt : (retOf s.rlog).length < (pubOf s.wlog).length
    · exact hlt
    · have : (retOf s.rlog).length = (pubOf s.wlog).length := by omega
      rw [this, offs_length] at h
      omega
  · intro h
    have := offs_lt_of_lt (fun m hm => fr.ne m (inv.hP m hm).1) h (Nat.le_refl _)
    rw [offs_length] at this
    omega

/-! ### accounting: every writer operation is logged once, in order -/

def WPc.msgs : WPc → List Bytes
  | .copying m _ _ => [m]
  | .idle => []

/-- messages given to the writer: already logged, in progress, still to come -/
def Conc.allMsgs (s : Conc) : List Bytes :=
  s.wlog.map (·.1) ++ s.wpc.msgs ++ s.wops.map WOp.msg

structure Acct (s : Conc) (msgs0 : List Bytes) : Prop where
  hall : s.allMsgs = msgs0
  hdata : ∀ m d k, s.wpc = .copying m d k → d = [] ∨ d = m

theorem wSkip_msgs (frame : Bytes → Nat) (maxMsg : Nat) (ops : List WOp) (log : List (Bytes × Bool)) :
    (wSkip frame maxMsg ops log).2.map (·.1) ++ (wSkip frame maxMsg ops log).1.map WOp.msg =
      log.map (·.1) ++ ops.map WOp.msg := by
  induction ops generalizing log with
  | nil => simp [wSkip]
  | cons op ops ih =>
    cases op with
    | write m => simp [wSkip]
    | rawWrite b =>
      unfold wSkip
      by_cases h : frame b ≤ maxMsg
      · rw [if_pos h]
      · rw [if_neg h, ih]; simp [WOp.msg]

theorem rStep_writer {frame : Bytes → Nat} {s s' : Conc} {e : Ev} (h : s.rStep frame = some (s', e)) :
    s'.wlog = s.wlog ∧ s'.wpc = s.wpc ∧ s'.wops = s.wops := by
  unfold Conc.rStep at h
  cases hpc : s.rpc with
  | idle =>
    rw [hpc] at h
    simp only at h
    cases hops : s.rops with
    | nil => rw [hops] at h; simp at h
    | cons op rest =>
      rw [hops] at h
      cases op <;>
      · simp only [Option.some.injEq, Prod.mk.injEq] at h
        obtain ⟨rfl, -⟩ := h
        exact ⟨rfl, rfl, rfl⟩
  | framing l wv =>
    rw [hpc] at h
    simp only at h
    generalize readVector s.buf s.N wv (if l = true then s.la else s.r) = rv at h
    obtain ⟨d0, d1, ok⟩ := rv
    simp only at h
    split at h <;>
    · simp only [Option.some.injEq, Prod.mk.injEq] at h
      obtain ⟨rfl, -⟩ := h
      exact ⟨rfl, rfl, rfl⟩
  | copying l len k =>
    rw [hpc] at h
    simp only at h
    split at h
    · generalize chunkAt s.N (if l = true then s.la else s.r) len s.chunk k = oc at h
      obtain ⟨off, c⟩ := oc
      simp only at h
      generalize slice s.buf off c = sl at h
      obtain ⟨bytes, ok1⟩ := sl
      simp only at h
      generalize blit s.rbuf k bytes = bl at h
      obtain ⟨rb, ok2⟩ := bl
      simp only at h
      split at h <;>
      · simp only [Option.some.injEq, Prod.mk.injEq] at h
        obtain ⟨rfl, -⟩ := h
        exact ⟨rfl, rfl, rfl⟩
    · split at h
      · cases h
      · simp only [Option.some.injEq, Prod.mk.injEq] at h
        obtain ⟨rfl, -⟩ := h
        exact ⟨rfl, rfl, rfl⟩

theorem step_acct {frame : Bytes → Nat} {IsMsg : Bytes → Prop} (fr : Framing frame IsMsg)
    {s s' : Conc} {e : Ev} {msgs0 : List Bytes} (t : Tid) (inv : Inv frame IsMsg s)
    (ac : Acct s msgs0) (h : s.step frame t = some (s', e)) : Acct s' msgs0 := by
  cases t with
  | reader =>
    obtain ⟨h1, h2, h3⟩ := rStep_writer h
    exact ⟨by unfold Conc.allMsgs; rw [h1, h2, h3]; exact ac.hall, by rw [h2]; exact ac.hdata⟩
  | writer =>
    have hall := ac.hall
    unfold Conc.allMsgs at hall
    unfold Inv at inv
    simp only [Conc.step] at h
    unfold Conc.wStep at h
    cases hpc : s.wpc with
    | idle =>
      rw [hpc] at h hall inv
      simp only at h
      cases hops : s.wops with
      | nil => rw [hops] at h; simp at h
      | cons op rest =>
        rw [hops] at h hall inv
        simp only at h
        have hm1 : (wData frame s.maxMsg op).1 = op.msg := by cases op <;> rfl
        split at h
        · simp only [Option.some.injEq, Prod.mk.injEq] at h
          obtain ⟨rfl, -⟩ := h
          refine ⟨?_, ?_⟩
          · unfold Conc.allMsgs
            simp only [WPc.msgs, hm1]
            rw [← hall]; simp [WPc.msgs]
          · intro m d k hk
            simp only [WPc.copying.injEq] at hk
            obtain ⟨rfl, rfl, -⟩ := hk
            cases op with
            | write m' =>
              simp only [wData]
              split
              · exact Or.inr rfl
              · exact Or.inl rfl
            | rawWrite b =>
              right
              simp only [wData]
              have hb : IsMsg b := inv.hops _ List.mem_cons_self
              have e : frame b = b.length := by
                have := fr.msg b [] hb
                rwa [List.append_nil] at this
              rw [e, List.take_length]
        · simp only [Option.some.injEq, Prod.mk.injEq] at h
          obtain ⟨rfl, -⟩ := h
          refine ⟨?_, by intro m d k hk; cases hk⟩
          unfold Conc.allMsgs
          simp only [WPc.msgs, List.append_nil]
          rw [wSkip_msgs, ← hall, hm1]; simp [WPc.msgs]
    | copying m data k =>
      rw [hpc] at h hall
      simp only at h
      have hd := ac.hdata m data k hpc
      split at h
      · generalize chunkAt s.N s.w data.length s.chunk k = oc at h
        obtain ⟨off, c⟩ := oc
        simp only at h
        generalize blit s.buf off ((data.drop k).take c) = bo at h
        obtain ⟨b, ok⟩ := bo
        simp only [Option.some.injEq, Prod.mk.injEq] at h
        obtain ⟨rfl, -⟩ := h
        refine ⟨by unfold Conc.allMsgs; exact hall, ?_⟩
        intro m' d' k' hk'
        simp only [WPc.copying.injEq] at hk'
        obtain ⟨rfl, rfl, -⟩ := hk'
        exact hd
      · have hentry : (if data = [] then (m, false) else (data, true)).1 = m := by
          split
          · rfl
          · rcases hd with h' | h'
            · contradiction
            · exact h'
        generalize (if data = [] then (m, false) else (data, true)) = entry at h hentry
        have hsk := wSkip_msgs frame s.maxMsg s.wops (s.wlog ++ [entry])
        generalize wSkip frame s.maxMsg s.wops (s.wlog ++ [entry]) = sk at h hsk
        obtain ⟨ops, log⟩ := sk
        simp only [Option.some.injEq, Prod.mk.injEq] at h hsk
        obtain ⟨rfl, -⟩ := h
        refine ⟨?_, by intro m d k hk; cases hk⟩
        unfold Conc.allMsgs
        simp only [WPc.msgs, List.append_nil]
        rw [hsk, ← hall, List.map_append]; simp [WPc.msgs, hentry]

theorem init_acct (frame : Bytes → Nat) (maxMsg nmsgs chunk : Nat) (wops : List WOp) (rops : List ROp) :
    Acct (Conc.init frame maxMsg nmsgs chunk wops rops) (wops.map WOp.msg) := by
  have := wSkip_msgs frame maxMsg wops []
  unfold Conc.init
  generalize wSkip frame maxMsg wops [] = sk at this
  obtain ⟨ops, log⟩ := sk
  refine ⟨?_, by intro m d k hk; cases hk⟩
  unfold Conc.allMsgs
  simpa [WPc.msgs] using this

theorem reach_acct {frame : Bytes → Nat} {IsMsg : Bytes → Prop} (fr : Framing frame IsMsg)
    {s0 s : Conc} {msgs0 : List Bytes} (h0 : Inv frame IsMsg s0) (a0 : Acct s0 msgs0)
    (h : Conc.Reach frame s0 s) : Acct s msgs0 := by
  induction h with
  | refl => exact a0
  | step t hr hs ih => exact step_acct fr t (reach_inv fr h0 hr) ih hs

/-- the published messages are a sub-sequence, in order, of the messages given to the writer -/
theorem Acct.published_sublist {s : Conc} {msgs0 : List Bytes} (ac : Acct s msgs0) :
    s.published.Sublist msgs0 := by
  rw [← ac.hall]
  unfold Conc.published pubOf Conc.allMsgs
  rw [List.append_assoc]
  exact List.Sublist.trans (List.Sublist.map _ List.filter_sublist) (List.sublist_append_left _ _)

/-! ### a quiescent state is a sequential ThreadLink holding the unread messages -/

theorem Inv.toSeq {frame : Bytes → Nat} {IsMsg : Bytes → Prop} {s : Conc} (inv : Inv frame IsMsg s)
    (hw : s.wpc = .idle) (_hr : s.rpc = .idle) :
    ∃ L, SInv frame IsMsg s.toSeq s.published s.returned.length L := by
  unfold Inv at inv
  rw [hw] at inv
  obtain ⟨L, hL1, hL2, hL3, -⟩ := inv.hreader
  have hsp := inv.hspace
  have hc := inv.hcontent
  simp only [WPc.inflight, WPc.prog, List.length_nil, Nat.add_zero, List.append_nil] at hsp hc
  exact ⟨L, {
    hN := inv.hN, hbuf := inv.hbuf, hrbuf := inv.hrbuf, hfault := inv.hfault, hP := inv.hP
    hCL := hL1, hL := hL2, hw := inv.hw, hr := inv.hr, hla := hL3, hspace := hsp, hcontent := hc }⟩

end Rtosc.Ring
