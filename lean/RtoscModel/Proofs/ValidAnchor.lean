/-
  C07 helper lemmas, part 5: the reference decoder of `Osc/Decode.lean` is anchored to the OSC 1.0
  encoder `Spec.encode` of `Osc/Spec.lean` (C01's specification side, which shares no code with the
  decoder):

      Spec.decode bs = some m   ↔   Canon m ∧ Spec.encode m = bs            (decode_iff)

  and the padding-blind decoder returns a message whose canonical encoding has the same length as
  the buffer and can differ from it only where the canonical encoding has a NUL byte.
  Property theorems are in Props/C07.lean.
-/
import RtoscModel.Proofs.ValidDecode
namespace Rtosc.Osc.V
open Rtosc Rtosc.Osc

/-! ### "equal up to the content of NUL bytes of the canonical side" -/

/-- `e` has the length of the canonical bytes `c` and differs from them at most where `c` is NUL -/
inductive PadEq : Bytes → Bytes → Prop
  | nil : PadEq [] []
  | cons {x y : UInt8} {xs ys : Bytes} : (x = y ∨ y = 0) → PadEq xs ys → PadEq (x :: xs) (y :: ys)

theorem PadEq.refl (e : Bytes) : PadEq e e := by
  induction e with
  | nil => exact .nil
  | cons x xs ih => exact .cons (Or.inl rfl) ih

theorem PadEq.append {a b c d : Bytes} (h1 : PadEq a b) (h2 : PadEq c d) : PadEq (a ++ c) (b ++ d) := by
  induction h1 with
  | nil => exact h2
  | cons h _ ih => exact .cons h ih

theorem PadEq.zeros (p : Bytes) : PadEq p (zeros p.length) := by
  induction p with
  | nil => exact .nil
  | cons x xs ih => exact .cons (Or.inr rfl) ih

theorem PadEq.length {a b : Bytes} (h : PadEq a b) : a.length = b.length := by
  induction h with
  | nil => rfl
  | cons _ _ ih => simp [ih]

/-- the only bytes in which they can differ are NUL on the canonical side -/
theorem PadEq.get {a b : Bytes} (h : PadEq a b) : ∀ (i : Nat) (x y : UInt8), a[i]? = some x → b[i]? = some y →
    x = y ∨ y = 0 := by
  induction h with
  | nil => intro i x y hx; simp at hx
  | cons h0 _ ih =>
    intro i x y hx hy
    cases i with
    | zero => simp only [List.getElem?_cons_zero, Option.some.injEq] at hx hy; subst hx hy; exact h0
    | succ i => simp only [List.getElem?_cons_succ] at hx hy; exact ih i x y hx hy

/-! ### the split at the first NUL -/

theorem tw_split (bs : Bytes) :
    bs = bs.takeWhile (· ≠ 0) ∨ ∃ r, bs = bs.takeWhile (· ≠ 0) ++ 0 :: r := by
  induction bs with
  | nil => left; rfl
  | cons b r ih =>
    by_cases hb : b = 0
    · subst hb; right; exact ⟨r, by rw [tw_nz_zero]; rfl⟩
    · rw [tw_nz_cons _ hb]
      rcases ih with h | ⟨r', h⟩
      · left; rw [← h]
      · right; exact ⟨r', by rw [List.cons_append, ← h]⟩

theorem allZero_eq_zeros (l : Bytes) (h : allZero l = true) : l = zeros l.length := by
  unfold zeros
  rw [List.eq_replicate_iff]
  refine ⟨rfl, ?_⟩
  intro x hx
  simp only [allZero, List.all_eq_true, decide_eq_true_eq] at h
  exact h x hx

/-- What an OSC-string taken off the head of a buffer looks like. -/
theorem takeStr_inv {strict : Bool} {bs s r : Bytes} (h : takeStr strict bs = some (s, r)) :
    NoNul s ∧ ∃ pad, bs = s ++ 0 :: (pad ++ r) ∧ pad.length = 3 - s.length % 4 ∧
      (strict = true → pad = zeros (3 - s.length % 4)) := by
  unfold takeStr at h
  simp only at h
  split at h
  · rename_i hc
    obtain ⟨hlen, hz⟩ := hc
    simp only [Option.some.injEq, Prod.mk.injEq] at h
    obtain ⟨hs, hr⟩ := h
    have hnn : NoNul s := by rw [← hs]; exact tw_noNul bs
    refine ⟨hnn, ?_⟩
    rw [hs] at hlen hz hr
    rcases tw_split bs with hb | ⟨r', hb⟩
    · rw [hs] at hb
      rw [hb] at hlen; omega
    · rw [hs] at hb
      have hl : bs.length = s.length + 1 + r'.length := by
        rw [hb]; simp only [List.length_append, List.length_cons]; omega
      have hk : 3 - s.length % 4 ≤ r'.length := by omega
      refine ⟨r'.take (3 - s.length % 4), ?_, by rw [List.length_take]; omega, ?_⟩
      · have hd : bs.drop (s.length + (4 - s.length % 4)) = r'.drop (3 - s.length % 4) := by
          rw [hb]
          have e : s.length + (4 - s.length % 4) = (s ++ [0]).length + (3 - s.length % 4) := by
            simp only [List.length_append, List.length_cons, List.length_nil]; omega
          have e2 : s ++ 0 :: r' = (s ++ [0]) ++ r' := by simp
          rw [e2, e, ← List.drop_drop, List.drop_left]
        rw [← hr, hd, List.take_append_drop]
        exact hb
      · intro hst
        rcases hz with hz | hz
        · rw [hst] at hz; cases hz
        · have ht : (bs.take (s.length + (4 - s.length % 4))).drop s.length = 0 :: r'.take (3 - s.length % 4) := by
            rw [hb]
            have e2 : s ++ 0 :: r' = s ++ (0 :: r') := rfl
            have e : s.length + (4 - s.length % 4) = s.length + (1 + (3 - s.length % 4)) := by omega
            rw [e, List.take_append, List.take_of_length_le (by omega), List.drop_left]
            have e3 : s.length + (1 + (3 - s.length % 4)) - s.length = (3 - s.length % 4) + 1 := by omega
            rw [e3, List.take_succ_cons]
          rw [ht] at hz
          have := allZero_eq_zeros _ hz
          simp only [List.length_cons, zeros_succ, List.cons.injEq, true_and] at this
          rw [this, List.length_take, Nat.min_eq_left hk]
  · cases h

/-! ### one argument -/

/-- four bytes are the big-endian encoding of the value they decode to -/
theorem be32_get32 (b0 b1 b2 b3 : UInt8) : be32 (get32 b0 b1 b2 b3) = [b0, b1, b2, b3] := by
  unfold be32
  rw [beN4, get32_toNat]
  have h0 := b0.toNat_lt; have h1 := b1.toNat_lt; have h2 := b2.toNat_lt; have h3 := b3.toNat_lt
  simp only [Nat.reducePow] at h0 h1 h2 h3
  simp only [List.cons.injEq, and_true]
  refine ⟨?_, ?_, ?_, ?_⟩ <;> apply UInt8.toNat_inj.mp <;> simp only [UInt8.toNat_ofNat'] <;> omega

theorem be64_get64 (b0 b1 b2 b3 b4 b5 b6 b7 : UInt8) :
    be64 (get64 b0 b1 b2 b3 b4 b5 b6 b7) = [b0, b1, b2, b3, b4, b5, b6, b7] := by
  unfold be64
  rw [beN8, get64_toNat]
  have h0 := b0.toNat_lt; have h1 := b1.toNat_lt; have h2 := b2.toNat_lt; have h3 := b3.toNat_lt
  have h4 := b4.toNat_lt; have h5 := b5.toNat_lt; have h6 := b6.toNat_lt; have h7 := b7.toNat_lt
  simp only [Nat.reducePow] at h0 h1 h2 h3 h4 h5 h6 h7
  simp only [List.cons.injEq, and_true]
  refine ⟨?_, ?_, ?_, ?_, ?_, ?_, ?_, ?_⟩ <;> apply UInt8.toNat_inj.mp <;> simp only [UInt8.toNat_ofNat'] <;> omega

/-- What one argument taken off the head of a buffer looks like: it has the kind asked for, it is
    well-formed, the bytes consumed are a (lax) encoding of it, and under the strict decoder they
    are exactly its OSC 1.0 encoding. -/
theorem takeArg_inv {strict : Bool} {k : Kind} {bs : Bytes} {a : Arg} {r : Bytes}
    (h : takeArg strict k bs = some (a, r)) :
    a.kind = k ∧ a.WF ∧ ∃ e, bs = e ++ r ∧ LaxEnc a e ∧ (strict = true → e = encArg a) := by
  unfold takeArg at h
  split at h
  · rename_i b0 b1 b2 b3 r'
    simp only [Option.some.injEq, Prod.mk.injEq] at h
    obtain ⟨rfl, rfl⟩ := h
    refine ⟨rfl, trivial, [b0, b1, b2, b3], rfl, ⟨b0, b1, b2, b3, rfl, ofNat_beVal4 ..⟩, fun _ => ?_⟩
    simp only [encArg, ofNat_beVal4, be32_get32]
  · rename_i b0 b1 b2 b3 b4 b5 b6 b7 r'
    simp only [Option.some.injEq, Prod.mk.injEq] at h
    obtain ⟨rfl, rfl⟩ := h
    refine ⟨rfl, trivial, [b0, b1, b2, b3, b4, b5, b6, b7], rfl,
      ⟨b0, b1, b2, b3, b4, b5, b6, b7, rfl, ofNat_beVal8 ..⟩, fun _ => ?_⟩
    simp only [encArg, ofNat_beVal8, be64_get64]
  · rename_i b0 b1 b2 b3 r'
    simp only [Option.some.injEq, Prod.mk.injEq] at h
    obtain ⟨rfl, rfl⟩ := h
    exact ⟨rfl, trivial, [b0, b1, b2, b3], rfl, rfl, fun _ => rfl⟩
  · rename_i bs'
    simp only [Option.map_eq_some_iff, Prod.mk.injEq] at h
    obtain ⟨⟨s, r'⟩, hs, rfl, rfl⟩ := h
    obtain ⟨hnn, pad, hbs, hpl, hz⟩ := takeStr_inv hs
    refine ⟨rfl, hnn, s ++ 0 :: pad, by rw [hbs]; simp, ⟨hnn, pad, rfl, hpl⟩, fun hst => ?_⟩
    rw [hz hst]; simp only [encArg, padStr_eq]
  · rename_i b0 b1 b2 b3 r'
    simp only at h
    split at h
    · rename_i hc
      obtain ⟨hlt, hfit, hz⟩ := hc
      simp only [Option.some.injEq, Prod.mk.injEq] at h
      obtain ⟨rfl, rfl⟩ := h
      have hn : beVal [b0, b1, b2, b3] = (get32 b0 b1 b2 b3).toNat := by rw [get32_toNat, beVal4]
      generalize hN : beVal [b0, b1, b2, b3] = n at *
      have hn_le : n ≤ r'.length := by omega
      have hdl : (r'.take n).length = n := by rw [List.length_take]; omega
      have hpl : ((r'.drop n).take (pad4 n)).length = pad4 n := by
        rw [List.length_take, List.length_drop]; omega
      have hsplit : r' = r'.take n ++ ((r'.drop n).take (pad4 n) ++ r'.drop (n + pad4 n)) := by
        rw [← List.drop_drop, List.take_append_drop, List.take_append_drop]
      refine ⟨rfl, by simp only [Arg.WF, hdl]; omega,
        b0 :: b1 :: b2 :: b3 :: (r'.take n ++ (r'.drop n).take (pad4 n)), ?_,
        ⟨b0, b1, b2, b3, _, rfl, by rw [hdl, ← hn], by rw [hdl]; exact hlt, by rw [hdl, hpl]⟩, fun hst => ?_⟩
      · simp only [List.cons_append, List.append_assoc, List.cons.injEq, true_and]
        exact hsplit
      · rcases hz with hz | hz
        · rw [hst] at hz; cases hz
        · have ht : (r'.take (n + pad4 n)).drop n = (r'.drop n).take (pad4 n) := by
            rw [List.drop_take]; congr 1; omega
          rw [ht] at hz
          have := allZero_eq_zeros _ hz
          rw [hpl] at this
          simp only [encArg, hdl, this]
          have e32 : be32 (UInt32.ofNat n) = [b0, b1, b2, b3] := by
            have : UInt32.ofNat n = get32 b0 b1 b2 b3 := by
              apply UInt32.toNat_inj.mp; rw [← hn]; simp only [UInt32.toNat_ofNat', Nat.reducePow]; omega
            rw [this, be32_get32]
          rw [e32]; simp
    · cases h
  · cases h

theorem laxEnc_padEq {a : Arg} {e : Bytes} (he : LaxEnc a e) : PadEq e (encArg a) := by
  cases a with
  | w32 v =>
    obtain ⟨b0, b1, b2, b3, rfl, rfl⟩ := he
    simp only [encArg, be32_get32]; exact PadEq.refl _
  | w64 v =>
    obtain ⟨b0, b1, b2, b3, b4, b5, b6, b7, rfl, rfl⟩ := he
    simp only [encArg, be64_get64]; exact PadEq.refl _
  | midi x y z w =>
    have he' : e = [x, y, z, w] := he
    subst he'; exact PadEq.refl _
  | str s =>
    obtain ⟨_, pad, rfl, hpad⟩ := he
    simp only [encArg, padStr_eq]
    refine PadEq.append (PadEq.refl s) (.cons (Or.inl rfl) ?_)
    rw [← hpad]; exact PadEq.zeros pad
  | blob d =>
    obtain ⟨b0, b1, b2, b3, pad, rfl, hlen, _, hpad⟩ := he
    have e32 : be32 (UInt32.ofNat d.length) = [b0, b1, b2, b3] := by
      have : UInt32.ofNat d.length = get32 b0 b1 b2 b3 := by
        apply UInt32.toNat_inj.mp; rw [hlen]; simp only [UInt32.toNat_ofNat', Nat.reducePow]
        have := (get32 b0 b1 b2 b3).toNat_lt; omega
      rw [this, be32_get32]
    simp only [encArg, e32, List.cons_append, List.nil_append]
    refine .cons (Or.inl rfl) (.cons (Or.inl rfl) (.cons (Or.inl rfl) (.cons (Or.inl rfl) ?_)))
    refine PadEq.append (PadEq.refl d) ?_
    rw [← hpad]; exact PadEq.zeros pad

/-- the strict decoder reads back the OSC 1.0 encoding of a well-formed argument -/
theorem takeArg_strict {a : Arg} (R : Bytes) (hw : a.WF) : takeArg true a.kind (encArg a ++ R) = some (a, R) := by
  cases a with
  | w32 v =>
    obtain ⟨b0, b1, b2, b3, hb, hg⟩ := get32_be32 v
    simp [encArg, hb, takeArg, Arg.kind, ofNat_beVal4, hg]
  | w64 v =>
    obtain ⟨b0, b1, b2, b3, b4, b5, b6, b7, hb, hg⟩ := get64_be64 v
    simp [encArg, hb, takeArg, Arg.kind, ofNat_beVal8, hg]
  | midi x y z w => simp [takeArg, encArg, Arg.kind]
  | str s =>
    have hs : NoNul s := hw
    have : padStr s ++ R = s ++ 0 :: (zeros (3 - s.length % 4) ++ R) := by rw [padStr_eq]; simp
    simp only [takeArg, Arg.kind, encArg, this, takeStr_strict s R _ hs rfl, Option.map_some]
  | blob d =>
    have hlt : d.length < 2147483648 := hw
    obtain ⟨b0, b1, b2, b3, hb, hg⟩ := get32_be32 (UInt32.ofNat d.length)
    have hn : beVal [b0, b1, b2, b3] = d.length := by
      rw [beVal4, ← get32_toNat, hg]; simp only [UInt32.toNat_ofNat', Nat.reducePow]; omega
    have hsplit : encArg (.blob d) ++ R = b0 :: b1 :: b2 :: b3 :: (d ++ (zeros (pad4 d.length) ++ R)) := by
      simp only [encArg, hb]; simp
    rw [hsplit]
    simp only [takeArg, Arg.kind, hn]
    have h1 : (d ++ (zeros (pad4 d.length) ++ R)).take d.length = d := List.take_left
    have e : d ++ (zeros (pad4 d.length) ++ R) = (d ++ zeros (pad4 d.length)) ++ R := by simp
    have hl : d.length + pad4 d.length = (d ++ zeros (pad4 d.length)).length := by simp
    have h2 : (d ++ (zeros (pad4 d.length) ++ R)).drop (d.length + pad4 d.length) = R := by
      rw [e, hl, List.drop_left]
    have h3 : ((d ++ (zeros (pad4 d.length) ++ R)).take (d.length + pad4 d.length)).drop d.length = zeros (pad4 d.length) := by
      rw [e, hl, List.take_left, List.drop_left]
    rw [if_pos, h1, h2]
    refine ⟨hlt, ?_, Or.inr ?_⟩
    · simp only [List.length_append, zeros_length]; omega
    · rw [h3]; simp [allZero, zeros]

/-! ### the argument list -/

theorem decodeArgs_inv {strict : Bool} : ∀ (tags bs : Bytes) (args : List Arg) (r : Bytes),
    decodeArgs strict tags bs = some (args, r) →
    Matches tags args ∧ (∀ a ∈ args, a.WF) ∧ ∃ A, bs = A ++ r ∧ LaxArgs tags args A ∧
      PadEq A (args.flatMap encArg) ∧ (strict = true → A = args.flatMap encArg) := by
  intro tags
  induction tags with
  | nil =>
    intro bs args r h
    simp only [decodeArgs, Option.some.injEq, Prod.mk.injEq] at h
    obtain ⟨rfl, rfl⟩ := h
    exact ⟨rfl, by simp, [], rfl, .nil, .nil, fun _ => rfl⟩
  | cons t ts ih =>
    intro bs args r h
    unfold decodeArgs at h
    cases hk : kind t with
    | none =>
      simp only [hk] at h
      obtain ⟨hm, hw, A, hbs, hl, hp, hs⟩ := ih bs args r h
      exact ⟨(matches_skip hk).mpr hm, hw, A, hbs, .skip hk hl, hp, hs⟩
    | some k =>
      simp only [hk] at h
      cases ha : takeArg strict k bs with
      | none => simp [ha] at h
      | some y =>
        obtain ⟨a, r1⟩ := y
        simp only [ha] at h
        cases hr : decodeArgs strict ts r1 with
        | none => simp [hr] at h
        | some z =>
          obtain ⟨as, r'⟩ := z
          simp only [hr, Option.some.injEq, Prod.mk.injEq] at h
          obtain ⟨rfl, rfl⟩ := h
          obtain ⟨hkind, hwa, e, hbs, hle, hse⟩ := takeArg_inv ha
          obtain ⟨hm, hw, A, hr1, hl, hp, hs⟩ := ih r1 as r' hr
          refine ⟨?_, ?_, e ++ A, by rw [hbs, hr1]; simp, .take (by rw [hk, hkind]) hle hl, ?_, fun hst => ?_⟩
          · simp only [Matches, matchesB, hk, hkind, decide_true, Bool.true_and]; exact hm
          · intro x hx
            rcases List.mem_cons.mp hx with rfl | hx
            · exact hwa
            · exact hw x hx
          · rw [List.flatMap_cons]; exact PadEq.append (laxEnc_padEq hle) hp
          · rw [List.flatMap_cons, hse hst, hs hst]

theorem decodeArgs_strict : ∀ (tags : Bytes) (args : List Arg), Matches tags args → (∀ a ∈ args, a.WF) →
    ∀ R, decodeArgs true tags (args.flatMap encArg ++ R) = some (args, R) := by
  intro tags
  induction tags with
  | nil =>
    intro args hm _ R
    rw [matches_nil hm]; simp [decodeArgs]
  | cons t ts ih =>
    intro args hm hw R
    unfold decodeArgs
    cases hk : kind t with
    | none => simp only; exact ih args ((matches_skip hk).mp hm) hw R
    | some k =>
      obtain ⟨a, as', rfl, hkind, hm'⟩ := matches_take hk hm
      simp only [List.flatMap_cons, List.append_assoc]
      rw [← hkind, takeArg_strict _ (hw a (by simp))]
      simp only
      rw [ih as' hm' (fun x hx => hw x (by simp [hx])) R]

/-! ### the whole message -/

/-- The messages a padding-blind decoder can return: the address starts with '/' and is printable
    ASCII, the tag bytes are not NUL, one well-formed argument per payload tag. -/
structure LaxCanon (m : Msg) : Prop where
  addr_slash : m.addr.head? = some 47
  addr_print : m.addr.all printable = true
  tags_nn : NoNul m.tags
  matches_ : Matches m.tags m.args
  args_ok : ∀ a ∈ m.args, a.WF

/-- The messages the strict OSC 1.0 decoder can return: moreover every tag is one of the 17. -/
structure Canon (m : Msg) : Prop extends LaxCanon m where
  tags_ok : m.tags.all isTag = true

theorem noNul_of_printable {s : Bytes} (h : s.all printable = true) : NoNul s := by
  intro x hx h0
  have := List.all_eq_true.mp h x hx
  rw [h0] at this; simp [printable] at this

theorem noNul_of_isTag {s : Bytes} (h : s.all isTag = true) : NoNul s := by
  intro x hx
  exact (isTag_ne_zero x (List.all_eq_true.mp h x hx)).1

/-- What either decoder returns: a `LaxCanon` message whose OSC 1.0 encoding has the length of
    the buffer and differs from it at most in bytes that are NUL in the encoding (padding); the
    strict decoder returns a `Canon` message whose encoding IS the buffer. -/
theorem decodeWith_inv {strict : Bool} {bs : Bytes} {m : Msg} (h : decodeWith strict bs = some m) :
    LaxCanon m ∧ PadEq bs (Spec.encode m) ∧ (strict = true → m.tags.all isTag = true ∧ bs = Spec.encode m) := by
  unfold decodeWith at h
  cases h1 : takeStr true bs with
  | none => simp [h1] at h
  | some x =>
    obtain ⟨addr, r1⟩ := x
    simp only [h1] at h
    split at h
    · rename_i hc
      cases h2 : takeStr strict r1 with
      | none => simp [h2] at h
      | some y =>
        obtain ⟨ts, r2⟩ := y
        simp only [h2] at h
        cases ts with
        | nil => simp at h
        | cons c tags =>
          by_cases hc44 : c = 44
          · subst hc44
            simp only at h
            split at h
            · rename_i htg
              cases h3 : decodeArgs strict tags r2 with
              | none => simp [h3] at h
              | some z =>
                obtain ⟨args, rest⟩ := z
                simp only [h3] at h
                cases rest with
                | cons _ _ => simp at h
                | nil =>
                  simp only [Option.some.injEq] at h
                  subst h
                  obtain ⟨_, pad1, hbs, _, hz1⟩ := takeStr_inv h1
                  obtain ⟨hnn2, pad2, hr1, hp2, hz2⟩ := takeStr_inv h2
                  obtain ⟨hm, hw, A, hr2, _, hpe, hse⟩ := decodeArgs_inv tags r2 args [] h3
                  have hpad1 := hz1 rfl
                  have hr2' : r2 = A := by rw [hr2]; simp
                  have hbs' : bs = padStr addr ++ ((44 :: tags) ++ 0 :: pad2 ++ A) := by
                    rw [hbs, hr1, hpad1, padStr_eq, hr2']; simp
                  have henc : Spec.encode ⟨addr, tags, args⟩ =
                      padStr addr ++ (padStr (44 :: tags) ++ args.flatMap encArg) := by simp [Spec.encode]
                  refine ⟨⟨hc.1, hc.2, fun x hx => hnn2 x (List.mem_cons_of_mem _ hx), hm, hw⟩, ?_, fun hst => ?_⟩
                  · rw [hbs', henc]
                    refine PadEq.append (PadEq.refl _) (PadEq.append ?_ hpe)
                    rw [padStr_eq]
                    refine PadEq.append (PadEq.refl _) (.cons (Or.inl rfl) ?_)
                    rw [← hp2]; exact PadEq.zeros pad2
                  · rcases htg with htg | htg
                    · rw [hst] at htg; cases htg
                    · refine ⟨htg, ?_⟩
                      rw [hbs', henc, hz2 hst, hse hst, padStr_eq (44 :: tags)]
            · simp at h
          · exfalso
            revert h
            split <;> simp_all
    · simp at h

/-- **decode ∘ encode**: the strict decoder reads the OSC 1.0 encoding of a canonical message back. -/
theorem decode_encode_canon {m : Msg} (hc : Canon m) : Spec.decode (Spec.encode m) = some m := by
  have hann : NoNul m.addr := noNul_of_printable hc.addr_print
  have htnn : NoNul (44 :: m.tags) := by
    intro x hx
    rcases List.mem_cons.mp hx with rfl | h
    · decide
    · exact hc.tags_nn x h
  have h1 : takeStr true (Spec.encode m) = some (m.addr, padStr (44 :: m.tags) ++ m.args.flatMap encArg) := by
    have := takeStr_strict m.addr (padStr (44 :: m.tags) ++ m.args.flatMap encArg) _ hann rfl
    rw [← this]; simp only [Spec.encode, padStr_eq]; simp
  have h2 : takeStr true (padStr (44 :: m.tags) ++ m.args.flatMap encArg) = some (44 :: m.tags, m.args.flatMap encArg) := by
    have := takeStr_strict (44 :: m.tags) (m.args.flatMap encArg) _ htnn rfl
    rw [← this]; simp only [padStr_eq]; simp
  have h3 : decodeArgs true m.tags (m.args.flatMap encArg) = some (m.args, []) := by
    have := decodeArgs_strict m.tags m.args hc.matches_ hc.args_ok []
    simpa using this
  unfold Spec.decode decodeWith
  simp only [h1, h2, h3, hc.addr_slash, hc.addr_print, hc.tags_ok, and_self, if_true, or_true]

/-- **the strict decoder is the inverse of the OSC 1.0 encoder**: it returns `m` for exactly one
    buffer, the encoding of `m`, and only for canonical `m`. -/
theorem decode_iff (bs : Bytes) (m : Msg) : Spec.decode bs = some m ↔ Canon m ∧ Spec.encode m = bs := by
  constructor
  · intro h
    obtain ⟨hl, _, hs⟩ := decodeWith_inv h
    obtain ⟨ht, he⟩ := hs rfl
    exact ⟨⟨hl, ht⟩, he.symm⟩
  · rintro ⟨hc, rfl⟩
    exact decode_encode_canon hc

/-- a well-formed message (C01) whose address is an OSC address is canonical -/
theorem canon_of_wf {m : Msg} (h : m.WF) (hs : m.addr.head? = some 47) (hp : m.addr.all printable = true) : Canon m :=
  ⟨⟨hs, hp, fun x hx => (isTag_ne_zero x (h.tags_ok x hx)).1, h.matches_, h.args_ok⟩,
    List.all_eq_true.mpr h.tags_ok⟩

/-- a canonical message whose encoding is shorter than 2^32 bytes is well-formed (C01) -/
theorem wf_of_canon {m : Msg} (h : Canon m) (hsz : (Spec.encode m).length < 2 ^ 32) : m.WF where
  addr_ne := by intro h0; have := h.addr_slash; rw [h0] at this; cases this
  addr_nonul := noNul_of_printable h.addr_print
  tags_ok := fun t ht => List.all_eq_true.mp h.tags_ok t ht
  matches_ := h.matches_
  args_ok := h.args_ok
  size := hsz

/-- **syntactic form of the trigger of C07-K1**: given what the padding-blind decoder returns,
    the strict decoder fails exactly if the buffer is not the OSC 1.0 encoding of that message
    (i.e., by `decodeLax_padEq`, some padding byte is not NUL) or some tag is not one of the 17. -/
theorem decode_none_iff {bs : Bytes} {m : Msg} (hl : Spec.decodeLax bs = some m) :
    (Spec.decode bs).isSome = false ↔ (bs ≠ Spec.encode m ∨ ∃ t ∈ m.tags, isTag t = false) := by
  obtain ⟨hlc, _, _⟩ := decodeWith_inv hl
  constructor
  · intro hn
    by_cases he : bs = Spec.encode m
    · right
      by_cases ht : ∃ t ∈ m.tags, isTag t = false
      · exact ht
      · exfalso
        have hall : m.tags.all isTag = true := by
          rw [List.all_eq_true]
          intro t hmem
          cases hb : isTag t with
          | true => rfl
          | false => exact absurd ⟨t, hmem, hb⟩ ht
        have := decode_encode_canon ⟨hlc, hall⟩
        rw [← he] at this; rw [this] at hn; cases hn
    · exact Or.inl he
  · intro hor
    cases hd : Spec.decode bs with
    | none => rfl
    | some m' =>
      exfalso
      have hm' := decode_strict_lax hd
      rw [hl] at hm'; cases hm'
      obtain ⟨hc, he⟩ := (decode_iff bs m).mp hd
      rcases hor with hne | ⟨t, hmem, hf⟩
      · exact hne he.symm
      · have := List.all_eq_true.mp hc.tags_ok t hmem
        rw [hf] at this; cases this

theorem decodeLax_padEq {bs : Bytes} {m : Msg} (hl : Spec.decodeLax bs = some m) :
    LaxCanon m ∧ PadEq bs (Spec.encode m) := by
  obtain ⟨h1, h2, _⟩ := decodeWith_inv hl
  exact ⟨h1, h2⟩

end Rtosc.Osc.V
