/-
  C16 — helper lemmas for the message clause: when the denoted list holds no NULL string,
  `msgArgs` (what `rtosc_avmessage` hands to `rtosc_amessage`) is defined and is one type character per
  top-level value plus one `rtosc_arg_t` per value that carries a payload.
-/
import RtoscModel.Proofs.ArgValBridge
namespace Rtosc.ArgVal
open Rtosc

/-- no NULL string among the top-level values (`rtosc_amessage` would call `strlen(NULL)`) -/
def noNullTop : List Val → Bool
  | [] => true
  | .sc (.str _ none) :: _ => false
  | _ :: vs => noNullTop vs

/-- the `rtosc_arg_t` handed to `rtosc_amessage` for one top-level value: one for a payload type, none else -/
def Val.payload (v : Val) : List Osc.CArg :=
  if Osc.hasReserved v.head.type then
    match v.head.toCArg with
    | .ok a => [a]
    | .error _ => []
  else []

theorem head_carg (v : Val) (hl : v.leaves = true) (hn : noNullTop [v] = true)
    (hr : Osc.hasReserved v.head.type = true) : ∃ a, v.head.toCArg = .ok a := by
  cases v with
  | arr t es => simp [Val.head, Cell.type, Osc.hasReserved, tyA] at hr
  | sc c =>
    have hc : c.isScalar = true := by simpa [Val.leaves] using hl
    cases c with
    | arr _ _ => simp [Cell.isScalar] at hc
    | rep _ _ => simp [Cell.isScalar] at hc
    | str ty s =>
      cases s with
      | none => simp [noNullTop] at hn
      | some b => exact ⟨_, rfl⟩
    | flag ty => cases ty <;> simp [Val.head, Cell.type, FlagTy.char, Osc.hasReserved] at hr
    | _ => exact ⟨_, rfl⟩

theorem noNullTop_cons (v : Val) (vs : List Val) :
    noNullTop (v :: vs) = (noNullTop [v] && noNullTop vs) := by
  cases v with
  | arr t es => simp [noNullTop]
  | sc c => cases c <;> first | simp [noNullTop] | (rename_i ty s; cases s <;> simp [noNullTop])

theorem msgArgs_defined : ∀ (vs : List Val), Val.leavesList vs = true → noNullTop vs = true →
    msgArgs vs = .ok (vs.map (fun v => v.head.type), vs.flatMap Val.payload) := by
  intro vs
  induction vs with
  | nil => intro _ _; rfl
  | cons v vs ih =>
    intro hl hn
    have hl' : v.leaves = true ∧ Val.leavesList vs = true := by
      simpa [Val.leavesList] using hl
    rw [noNullTop_cons] at hn
    have hn' : noNullTop [v] = true ∧ noNullTop vs = true := by simpa using hn
    have h1 := ih hl'.2 hn'.2
    by_cases hr : Osc.hasReserved v.head.type = true
    · obtain ⟨a, ha⟩ := head_carg v hl'.1 hn'.1 hr
      simp [msgArgs, h1, hr, ha, bind, Except.bind, pure, Except.pure, Val.payload]
    · simp [msgArgs, h1, hr, bind, Except.bind, pure, Except.pure, Val.payload]
end Rtosc.ArgVal
