/-
  C05, proof extension, part 1: `rtosc_match_path` / `rtosc_match` on a rendered pattern
  without any hypothesis on the digit runs of the address.

  `greedyU` is `greedy` of Proofs/MatchLemmas.lean with the index comparison the code really
  makes (`atoiU`, the 32-bit wrap of `atoi` included).  The code on a rendered pattern *is*
  `greedyU` for every C-string address (`path_greedyU`, `path_renderedU`,
  `full_renderedU`); `greedyU = greedy` as soon as the digit runs the walk meets at
  enumerations are below 2^31 (`greedyU_eq_greedy`, hypothesis `enumIdxCheck`).
-/
import RtoscModel.Proofs.MatchLemmas
import RtoscModel.Match.SpecExt
namespace Rtosc.Match
open Rtosc

/-- `#N` with no bound on the address' digit run: the comparison is the one of the code
    (`(unsigned) atoi` on both sides) -/
theorem path_enumU (ds p' : Bytes) (hne : ds ≠ []) (hds : ∀ c ∈ ds, isDigit c = true)
    (hp' : ∃ e x, p' = e :: x ∧ isDigit e = false)
    (a ex : Bytes) (ha : NulFree a) :
    path (35 :: ds ++ p') (a ++ 0 :: ex) =
      if a.takeWhile isDigit ≠ [] ∧ atoiU (a.takeWhile isDigit) < atoiU ds
      then path p' (a.dropWhile isDigit ++ 0 :: ex) else .fail := by
  rw [path_eq_body]
  have hsp : spanDigits (ds ++ p') = some (ds, p') := by
    have := spanDigits_takeWhile ds p' hp'
    rwa [takeWhile_all hds, dropWhile_all hds, List.nil_append] at this
  have hsm : spanDigits (a ++ 0 :: ex) = some (a.takeWhile isDigit, a.dropWhile isDigit ++ 0 :: ex) :=
    spanDigits_takeWhile a (0 :: ex) ⟨0, ex, rfl, isDigit_zero⟩
  obtain ⟨c, ds', rfl⟩ := List.exists_cons_of_ne_nil hne
  have hc : isDigit c = true := hds c List.mem_cons_self
  have h35 : ¬ ((35:UInt8) = 58) ∧ ¬ ((35:UInt8) = 123) ∧ ¬ ((35:UInt8) = 42) ∧ ¬ ((35:UInt8) = 47) := by decide
  cases a with
  | nil =>
    simp [body, number, hc, isDigit_zero]
  | cons d a' =>
    by_cases hd : isDigit d = true
    · have htw : (d :: a').takeWhile isDigit ≠ [] := by simp [hd]
      simp only [List.cons_append] at hsp hsm
      simp only [List.cons_append, body, h35, ↓reduceIte, number, hc, hd, Bool.not_true,
        Bool.false_eq_true, hsp, hsm, htw, ne_eq, not_false_eq_true, true_and]
      by_cases hlt : atoiU (List.takeWhile isDigit (d :: a')) < atoiU (c :: ds')
      · simp [hlt]
      · simp [hlt]
    · simp only [Bool.not_eq_true] at hd
      simp [body, number, hc, hd]

/-- What the code computes on a rendered pattern for *every* address: as `greedy`, with the
    index comparison of the code. -/
def greedyU : List Seg → Bool → Bytes → Option Bytes
  | [], false, a => if a = [] then some [] else none
  | [], true, a =>
    match a with
    | [] => none
    | d :: t => if d = 47 then some t else none
  | .lit s :: r, sub, a => if s.isPrefixOf a then greedyU r sub (a.drop s.length) else none
  | .enum ds :: r, sub, a =>
    if a.takeWhile isDigit ≠ [] ∧ atoiU (a.takeWhile isDigit) < atoiU ds
    then greedyU r sub (a.dropWhile isDigit) else none
  | .alts as :: r, sub, a =>
    match as.find? (·.isPrefixOf a) with
    | some x => greedyU r sub (a.drop x.length)
    | none => none

/-- **the code on a rendered pattern is `greedyU`**, for every C-string address -/
theorem path_greedyU (sub : Bool) (c : UInt8) (x : Bytes) (hc : c = 0 ∨ c = 58) :
    ∀ (segs : List Seg), segsWf sub segs = true → ∀ (a ex : Bytes), NulFree a →
    path (renderSegs segs ++ ((if sub then [47] else []) ++ c :: x)) (a ++ 0 :: ex) =
      match greedyU segs sub a with
      | none => .fail
      | some t => .ok (c :: x, t ++ 0 :: ex) := by
  intro segs
  induction segs with
  | nil =>
    intro _ a ex ha
    cases sub with
    | false =>
      simp only [renderSegs, Bool.false_eq_true, ↓reduceIte, List.nil_append, greedyU]
      rw [path_end c x a ex hc ha]
      by_cases h : a = [] <;> simp [h]
    | true =>
      simp only [renderSegs, ↓reduceIte, List.nil_append, List.cons_append, greedyU]
      rw [path_slash_end c x a ex hc ha]
      cases a with
      | nil => rfl
      | cons d t => by_cases h : d = 47 <;> simp [h]
  | cons s rest ih =>
    intro hwf a ex ha
    obtain ⟨hs, hrest, henum, hlit⟩ := segsWf_cons hwf
    obtain ⟨e, y, hey, hdig, hend⟩ := next_head sub c x hc rest hrest
    cases s with
    | lit t =>
      simp only [Seg.wf, Bool.and_eq_true, List.all_eq_true] at hs
      simp only [renderSegs, Seg.render, List.append_assoc, greedyU]
      rw [path_lit t _ hs.2 (fun h47 => ⟨e, y, hey, hend (fun hr => by
          cases hsub : sub with
          | true => rfl
          | false => exact absurd h47 (hlit hr hsub t rfl))⟩) a ex ha]
      by_cases hp : t.isPrefixOf a = true
      · simp only [hp, ↓reduceIte]
        exact ih hrest _ ex (ha.drop _)
      · simp [hp]
    | enum ds =>
      simp only [Seg.wf, Bool.and_eq_true, Bool.not_eq_eq_eq_not, Bool.not_true, List.isEmpty_eq_false_iff,
        List.all_eq_true, decide_eq_true_eq] at hs
      simp only [renderSegs, Seg.render, List.cons_append, List.append_assoc, greedyU]
      have := path_enumU ds (renderSegs rest ++ ((if sub then [47] else []) ++ c :: x)) hs.1.1 hs.1.2
        ⟨e, y, hey, hdig (henum ds rfl)⟩ a ex ha
      simp only [List.cons_append] at this
      rw [this]
      by_cases hp : a.takeWhile isDigit ≠ [] ∧ atoiU (a.takeWhile isDigit) < atoiU ds
      · simp only [hp, ne_eq, not_false_eq_true, and_self, ↓reduceIte]
        have hdrop : NulFree (a.dropWhile isDigit) := fun z hz => ha z ((List.dropWhile_sublist _).subset hz)
        exact ih hrest _ ex hdrop
      · simp [hp]
    | alts as =>
      simp only [Seg.wf, Bool.and_eq_true, Bool.not_eq_eq_eq_not, Bool.not_true, List.isEmpty_eq_false_iff,
        List.all_eq_true] at hs
      simp only [renderSegs, Seg.render, greedyU]
      rw [List.append_assoc, path_alts as _ hs.1 hs.2 a ex ha]
      cases hf : as.find? (·.isPrefixOf a) with
      | none => rfl
      | some z => exact ih hrest _ ex (ha.drop _)

/-- every `#N` of a well-formed segment list has N < 2^31 -/
theorem segsWf_enum {sub : Bool} : ∀ {segs : List Seg}, segsWf sub segs = true →
    ∀ ds, Seg.enum ds ∈ segs → decVal ds < 2 ^ 31 := by
  intro segs
  induction segs with
  | nil => intro _ ds h; simp at h
  | cons s r ih =>
    intro hwf ds hmem
    obtain ⟨hs, hrest, _, _⟩ := segsWf_cons hwf
    rcases List.mem_cons.mp hmem with h | h
    · subst h
      simp only [Seg.wf, Bool.and_eq_true, decide_eq_true_eq] at hs
      exact hs.2
    · exact ih hrest ds h

/-- with the digit runs at the enumerations the walk reaches below 2^31 the comparison of
    the code is the comparison of the numbers -/
theorem greedyU_eq_greedy (sub : Bool) : ∀ (segs : List Seg),
    (∀ ds, Seg.enum ds ∈ segs → decVal ds < 2 ^ 31) → ∀ (a : Bytes),
    enumIdxCheck segs a = true → greedyU segs sub a = greedy segs sub a := by
  intro segs
  induction segs with
  | nil => intro _ a _; cases sub <;> rfl
  | cons s r ih =>
    intro hN a hck
    have hN' : ∀ ds, Seg.enum ds ∈ r → decVal ds < 2 ^ 31 := fun ds h => hN ds (List.mem_cons_of_mem _ h)
    cases s with
    | lit t =>
      simp only [greedyU, greedy]
      simp only [enumIdxCheck] at hck
      by_cases hp : t.isPrefixOf a = true
      · simp only [hp, ↓reduceIte] at hck ⊢
        exact ih hN' _ hck
      · simp [hp]
    | enum ds =>
      simp only [enumIdxCheck, Bool.and_eq_true, decide_eq_true_eq] at hck
      have h1 := atoiU_of_lt hck.1
      have h2 := atoiU_of_lt (hN ds List.mem_cons_self)
      simp only [greedyU, greedy, h1, h2]
      by_cases hp : a.takeWhile isDigit ≠ [] ∧ decVal (a.takeWhile isDigit) < decVal ds
      · have hck2 := hck.2
        simp only [hp, ne_eq, not_false_eq_true, and_self, ↓reduceIte] at hck2 ⊢
        exact ih hN' _ hck2
      · simp [hp]
    | alts as =>
      simp only [greedyU, greedy]
      simp only [enumIdxCheck] at hck
      cases hf : as.find? (·.isPrefixOf a) with
      | none => rfl
      | some z =>
        simp only [hf] at hck
        exact ih hN' _ hck

/-- what is left behind `*path_end` is a suffix of the address -/
theorem greedyU_suffix (sub : Bool) : ∀ (segs : List Seg) (a t : Bytes),
    greedyU segs sub a = some t → t <:+ a := by
  intro segs
  induction segs with
  | nil =>
    intro a t h
    cases sub with
    | false =>
      simp only [greedyU] at h
      split at h
      · simp only [Option.some.injEq] at h; subst h; exact List.nil_suffix
      · simp at h
    | true =>
      simp only [greedyU] at h
      split at h
      · simp at h
      · split at h
        · simp only [Option.some.injEq] at h; subst h; exact List.suffix_cons _ _
        · simp at h
  | cons s r ih =>
    intro a t h
    cases s with
    | lit s =>
      simp only [greedyU] at h
      split at h
      · exact (ih _ _ h).trans (List.drop_suffix _ _)
      · simp at h
    | enum ds =>
      simp only [greedyU] at h
      split at h
      · exact (ih _ _ h).trans (List.dropWhile_suffix _)
      · simp at h
    | alts as =>
      simp only [greedyU] at h
      split at h
      · exact (ih _ _ h).trans (List.drop_suffix _ _)
      · simp at h

/-- `rtosc_match_path` on a pattern of the documented form and *any* C-string address -/
theorem path_renderedU {p : Pat} (hwf : p.WF0) {addr : Bytes} (ex : Bytes) (ha : NulFree addr) :
    path p.cstr (addr ++ 0 :: ex) =
      match greedyU p.segs p.sub addr with
      | none => .fail
      | some t => .ok (renderTypes p.types ++ [0], t ++ 0 :: ex) := by
  obtain ⟨c, x, hcx, hc⟩ := typesTail_head p.types
  rw [cstr_eq, hcx]
  exact path_greedyU p.sub c x hc p.segs (wf0_segs hwf) addr ex ha

/-- `rtosc_match` on a pattern of the documented form and a laid-out message with *any*
    C-string address: a total function of the address and the type string. -/
theorem full_renderedU {p : Pat} (hwf : p.WF0) {addr tags : Bytes} (rest : Bytes)
    (ha : NulFree addr) (ht : NulFree tags) :
    ∃ ex, mkMsg addr tags rest = addr ++ 0 :: ex ∧
    full p.cstr (mkMsg addr tags rest) =
      match greedyU p.segs p.sub addr with
      | none => some (false, none)
      | some t => some (match p.types with
                        | none => true
                        | some ts => typesCode ts tags, some (t ++ 0 :: ex)) := by
  obtain ⟨ex, hex⟩ := mkMsg_shape addr tags rest
  obtain ⟨k, hk⟩ := argString_mkMsg addr tags rest ha
  refine ⟨ex, hex, ?_⟩
  have hp := path_renderedU hwf ex ha
  rw [← hex] at hp
  cases hg : greedyU p.segs p.sub addr with
  | none =>
    simp only [hg] at hp
    simp [full, hp]
  | some t =>
    simp only [hg] at hp
    cases hty : p.types with
    | none =>
      simp only [hty, renderTypes, List.nil_append] at hp
      simp [full, hp]
    | some ts =>
      have htw := wf0_types hwf
      simp only [hty, typesWf, Bool.and_eq_true, Bool.not_eq_eq_eq_not, Bool.not_true,
        List.isEmpty_eq_false_iff, List.all_eq_true] at htw
      obtain ⟨a, ts', rfl⟩ := List.exists_cons_of_ne_nil htw.1
      simp only [hty, renderTypes, renderTypeAlts, List.cons_append, List.append_assoc] at hp
      have hargs := argsStart_types_eq tags (List.replicate k 0 ++ rest) ht (a :: ts') htw.1 htw.2
      simp only at hargs
      simp only [full, hp, ↓reduceIte, hk, args_colon]
      simp [hargs]

/-- the same for a pattern without type part: the type string of the message is not looked
    at, so it need not even be a C string -/
theorem full_renderedU_untyped {p : Pat} (hwf : p.WF0) (hty : p.types = none) {addr : Bytes}
    (tags rest : Bytes) (ha : NulFree addr) :
    ∃ ex, mkMsg addr tags rest = addr ++ 0 :: ex ∧
    full p.cstr (mkMsg addr tags rest) =
      match greedyU p.segs p.sub addr with
      | none => some (false, none)
      | some t => some (true, some (t ++ 0 :: ex)) := by
  obtain ⟨ex, hex⟩ := mkMsg_shape addr tags rest
  refine ⟨ex, hex, ?_⟩
  have hp := path_renderedU hwf ex ha
  rw [← hex] at hp
  cases hg : greedyU p.segs p.sub addr with
  | none =>
    simp only [hg] at hp
    simp [full, hp]
  | some t =>
    simp only [hg, hty, renderTypes, List.nil_append] at hp
    simp [full, hp]

end Rtosc.Match
