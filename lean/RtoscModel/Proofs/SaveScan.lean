/-
  C13 — the dependency scan (`scan_deps`) and the `dependees` vectors against their
  specification (`refsOf`, `Src`), and the order Kahn's algorithm outputs for a file.
-/
import RtoscModel.Save.Spec
import RtoscModel.Proofs.SaveKahn
namespace Rtosc.Save

/-- `some (a ++ b)` when both parts are defined -/
def cat2 : Option (List Nat) → Option (List Nat) → Option (List Nat)
  | some a, some b => some (a ++ b)
  | _, _ => none

/-- concatenation of the optional lists `f a`, `a ∈ l`, in order -/
def seqCat {α : Type} (f : α → Option (List Nat)) : List α → Option (List Nat)
  | [] => some []
  | a :: r => cat2 (f a) (seqCat f r)

theorem cat2_assoc (a b c : Option (List Nat)) : cat2 (cat2 a b) c = cat2 a (cat2 b c) := by
  cases a <;> cases b <;> cases c <;> simp [cat2]

theorem cat2_nil_left (a : Option (List Nat)) : cat2 (some []) a = a := by
  cases a <;> simp [cat2]

theorem seqCat_append {α : Type} (f : α → Option (List Nat)) (l₁ l₂ : List α) :
    seqCat f (l₁ ++ l₂) = cat2 (seqCat f l₁) (seqCat f l₂) := by
  induction l₁ with
  | nil => simp [seqCat, cat2_nil_left]
  | cons a r ih => simp only [List.cons_append, seqCat, ih, cat2_assoc]

theorem seqCat_flatMap {α β : Type} (f : β → Option (List Nat)) (g : α → List β) (l : List α) :
    seqCat f (l.flatMap g) = seqCat (fun a => seqCat f (g a)) l := by
  induction l with
  | nil => simp [seqCat]
  | cons a r ih => simp only [List.flatMap_cons, seqCat_append, seqCat, ih]

/-- what the scan does with one absolute path -/
def itemStep (ap : Path → Option DepMeta) (mp : MsgMap) (fuel : Nat) (Y : Path) : Option (List Nat) :=
  match mp.find Y with
  | some src => some [src]
  | none => scanDeps ap mp fuel Y

theorem scanItems_eq (ap : Path → Option DepMeta) (mp : MsgMap) (fuel : Nat) (lvl : Path) (its : List Path) :
    scanItems ap mp fuel lvl its = seqCat (itemStep ap mp fuel) (its.map fun it => rel2abs it lvl) := by
  induction its with
  | nil => simp [scanItems, seqCat]
  | cons it its ih =>
    rw [scanItems, ih]
    simp only [List.map_cons, seqCat, itemStep]
    rfl

theorem scanKeys_eq (ap : Path → Option DepMeta) (mp : MsgMap) (fuel : Nat) (lvl : Path) (ks : List (Option Path)) :
    scanKeys ap mp fuel lvl ks = seqCat (itemStep ap mp fuel)
      ((ks.filterMap id).flatMap fun v => (depItems v).map fun it => rel2abs it lvl) := by
  induction ks with
  | nil => simp [scanKeys, seqCat]
  | cons k ks ih =>
    cases k with
    | none => rw [scanKeys, ih]; rfl
    | some v =>
      rw [scanKeys, ih, scanItems_eq]
      simp only [List.filterMap_cons, id_eq, List.flatMap_cons, seqCat_append]
      rfl

/-- levels paired with the argument of `apropos` -/
def lvlPairs : List Path → Bool → List (Path × Path)
  | [], _ => []
  | l :: r, parent => (l, if parent then l ++ ['/'] else l) :: lvlPairs r true

theorem lvlPairs_true (r : List Path) : lvlPairs r true = r.map fun p => (p, p ++ ['/']) := by
  induction r with
  | nil => rfl
  | cons a r ih => simp [lvlPairs, ih]

theorem lvlArgs_eq (X : Path) : lvlArgs X = lvlPairs (levels (X.length + 1) X) false := by
  unfold lvlArgs
  cases levels (X.length + 1) X with
  | nil => rfl
  | cons l r => simp [lvlPairs, lvlPairs_true]

/-- the references found at one level -/
def refsAt (ap : Path → Option DepMeta) (la : Path × Path) : List Path :=
  match ap la.2 with
  | none => []
  | some m => (m.keys.filterMap id).flatMap fun v => (depItems v).map fun it => rel2abs it la.1

theorem scanLevels_eq (ap : Path → Option DepMeta) (mp : MsgMap) (fuel : Nat) (lvls : List Path) (parent : Bool) :
    scanLevels ap mp fuel lvls parent =
      seqCat (itemStep ap mp fuel) ((lvlPairs lvls parent).flatMap (refsAt ap)) := by
  induction lvls generalizing parent with
  | nil => simp [scanLevels, lvlPairs, seqCat]
  | cons l r ih =>
    rw [scanLevels, ih]
    simp only [lvlPairs, List.flatMap_cons, seqCat_append, refsAt]
    cases ap (if parent = true then l ++ ['/'] else l) with
    | none => simp [seqCat]; rfl
    | some m => simp only [scanKeys_eq]; rfl

theorem refsOf_eq (ap : Path → Option DepMeta) (X : Path) :
    refsOf ap X = (lvlPairs (levels (X.length + 1) X) false).flatMap (refsAt ap) := by
  unfold refsOf
  rw [lvlArgs_eq]
  rfl

/-- one step of the scan: the references of `X`, each a source or scanned in turn -/
theorem scanDeps_succ (ap : Path → Option DepMeta) (mp : MsgMap) (fuel : Nat) (X : Path) :
    scanDeps ap mp (fuel + 1) X = seqCat (itemStep ap mp fuel) (refsOf ap X) := by
  rw [scanDeps, scanLevels_eq, refsOf_eq]


/-! ### G1: the scan returns exactly the sources -/

/-- the sources found when scanning from `X`: referred to directly, or through ports without a message -/
inductive Src (ap : Path → Option DepMeta) (mp : MsgMap) : Path → Nat → Prop
  | direct {X Y : Path} {i : Nat} : Y ∈ refsOf ap X → mp.find Y = some i → Src ap mp X i
  | through {X Y : Path} {i : Nat} : Y ∈ refsOf ap X → mp.find Y = none → Src ap mp Y i → Src ap mp X i

theorem seqCat_spec {α : Type} (f : α → Option (List Nat)) (P : α → Nat → Prop) (l : List α)
    (h : ∀ a ∈ l, ∃ r, f a = some r ∧ ∀ i, i ∈ r ↔ P a i) :
    ∃ r, seqCat f l = some r ∧ ∀ i, i ∈ r ↔ ∃ a ∈ l, P a i := by
  induction l with
  | nil => exact ⟨[], rfl, by simp⟩
  | cons a l ih =>
    obtain ⟨ra, hfa, hra⟩ := h a (by simp)
    obtain ⟨rl, hfl, hrl⟩ := ih (fun b hb => h b (by simp [hb]))
    refine ⟨ra ++ rl, by simp [seqCat, hfa, hfl, cat2], ?_⟩
    intro i
    simp only [List.mem_append, hra, hrl, List.mem_cons, exists_eq_or_imp]

theorem Src_iff (ap : Path → Option DepMeta) (mp : MsgMap) (X : Path) (i : Nat) :
    Src ap mp X i ↔ ∃ Y ∈ refsOf ap X, mp.find Y = some i ∨ (mp.find Y = none ∧ Src ap mp Y i) := by
  constructor
  · intro h
    cases h with
    | direct hY hf => exact ⟨_, hY, Or.inl hf⟩
    | through hY hf hs => exact ⟨_, hY, Or.inr ⟨hf, hs⟩⟩
  · rintro ⟨Y, hY, hf | ⟨hf, hs⟩⟩
    · exact Src.direct hY hf
    · exact Src.through hY hf hs

/-- G1: with enough fuel the scan is defined and returns exactly the sources -/
theorem scanDeps_spec (ap : Path → Option DepMeta) (mp : MsgMap) (rank : Path → Nat)
    (hrank : ∀ X, ∀ Y ∈ refsOf ap X, rank Y < rank X) (fuel : Nat) (X : Path) (hf : rank X < fuel) :
    ∃ l, scanDeps ap mp fuel X = some l ∧ ∀ i, i ∈ l ↔ Src ap mp X i := by
  induction fuel generalizing X with
  | zero => omega
  | succ fuel ih =>
    rw [scanDeps_succ]
    have := seqCat_spec (itemStep ap mp fuel)
      (fun Y i => mp.find Y = some i ∨ (mp.find Y = none ∧ Src ap mp Y i)) (refsOf ap X) (by
        intro Y hY
        unfold itemStep
        cases hfind : mp.find Y with
        | some s => exact ⟨[s], rfl, by intro i; simp [eq_comm]⟩
        | none =>
          obtain ⟨l, hl, hm⟩ := ih Y (by have := hrank X Y hY; omega)
          exact ⟨l, hl, by intro i; simp [hm]⟩)
    obtain ⟨r, hr, hm⟩ := this
    exact ⟨r, hr, fun i => by rw [hm, Src_iff]⟩

/-! ### G2: the message map -/

theorem mem_emplace (m : MsgMap) (k : Path) (v : Nat) (hk : ∀ v', (k, v') ∉ m) (e : Path × Nat) :
    e ∈ m.emplace k v ↔ e = (k, v) ∨ e ∈ m := by
  induction m with
  | nil => simp [MsgMap.emplace]
  | cons x r ih =>
    obtain ⟨k', v'⟩ := x
    have hne : k' ≠ k := by
      intro h; subst h; exact hk v' (by simp)
    have ih := ih (fun v'' hm => hk v'' (by simp [hm]))
    simp only [MsgMap.emplace, if_neg hne]
    split
    · simp
    · simp only [List.mem_cons, ih]; exact or_left_comm

theorem find_eq_some_iff (m : MsgMap) (huniq : ∀ Y i i', (Y, i) ∈ m → (Y, i') ∈ m → i = i')
    (Y : Path) (i : Nat) : m.find Y = some i ↔ (Y, i) ∈ m := by
  unfold MsgMap.find
  constructor
  · intro h
    simp only [Option.map_eq_some_iff] at h
    obtain ⟨e, he, rfl⟩ := h
    have h1 := List.find?_some he
    have hm := List.mem_of_find?_eq_some he
    simp only [decide_eq_true_eq] at h1
    subst h1; exact hm
  · intro h
    cases hf : List.find? (fun e => e.1 = Y) m with
    | none =>
      rw [List.find?_eq_none] at hf
      have := hf _ h
      simp at this
    | some e =>
      have h1 := List.find?_some hf
      have hm := List.mem_of_find?_eq_some hf
      obtain ⟨k, w⟩ := e
      simp only [decide_eq_true_eq] at h1
      subst h1
      simp only [Option.map_some, Option.some.injEq]
      exact huniq _ _ _ hm h

theorem find_eq_none_iff (m : MsgMap) (Y : Path) : m.find Y = none ↔ ∀ i, (Y, i) ∉ m := by
  unfold MsgMap.find
  simp only [Option.map_eq_none_iff, List.find?_eq_none, decide_eq_true_eq]
  constructor
  · intro h i hm; exact h _ hm rfl
  · intro h e he hY; exact h e.2 (by rw [← hY]; exact he)

theorem mem_buildMap (names pre : List Path) (m : MsgMap)
    (hm : ∀ Y i, (Y, i) ∈ m ↔ pre[i]? = some Y) (hnd : (pre ++ names).Nodup) (Y : Path) (i : Nat) :
    (Y, i) ∈ buildMap names pre.length m ↔ (pre ++ names)[i]? = some Y := by
  induction names generalizing pre m with
  | nil => simp [buildMap, hm]
  | cons n r ih =>
    rw [buildMap]
    have hn : n ∉ pre := by
      intro h
      have := (List.nodup_append.1 hnd).2.2 n h n (by simp)
      exact this rfl
    have hk : ∀ v', (n, v') ∉ m := by
      intro v' hv
      exact hn (List.mem_of_getElem? ((hm _ _).1 hv))
    have := ih (pre ++ [n]) (m.emplace n pre.length) (by
      intro Y i
      rw [mem_emplace m n pre.length hk, hm, List.getElem?_append]
      by_cases hi : i < pre.length
      · simp only [hi, if_true, Prod.mk.injEq]
        constructor
        · rintro (⟨_, h⟩ | h)
          · omega
          · exact h
        · exact Or.inr
      · simp only [hi, if_false, Prod.mk.injEq]
        rw [List.getElem?_eq_none (by omega)]
        by_cases hi2 : i = pre.length
        · subst hi2; simp [eq_comm]
        · rw [List.getElem?_eq_none (by simp; omega)]; simp [hi2]) (by simpa using hnd)
    simpa using this

theorem mem_buildMap_zero (names : List Path) (hnd : names.Nodup) (Y : Path) (i : Nat) :
    (Y, i) ∈ buildMap names 0 [] ↔ names[i]? = some Y := by
  simpa using mem_buildMap names [] [] (by simp) (by simpa using hnd) Y i

theorem nodup_getElem?_inj {α : Type} (l : List α) (hnd : l.Nodup) (i j : Nat) (a : α)
    (hi : l[i]? = some a) (hj : l[j]? = some a) : i = j := by
  have hil : i < l.length := by
    by_cases h : i < l.length
    · exact h
    · rw [List.getElem?_eq_none (by omega)] at hi; simp at hi
  exact (List.getElem?_inj hil hnd).1 (hi.trans hj.symm)

/-- G2: the map built from duplicate-free names finds exactly the names -/
theorem buildMap_find (names : List Path) (hnd : names.Nodup) (Y : Path) (i : Nat) :
    (buildMap names 0 []).find Y = some i ↔ names[i]? = some Y := by
  rw [find_eq_some_iff, mem_buildMap_zero names hnd]
  intro Y i i' h h'
  rw [mem_buildMap_zero names hnd] at h h'
  exact nodup_getElem?_inj names hnd i i' Y h h'

theorem buildMap_find_none (names : List Path) (hnd : names.Nodup) (Y : Path) :
    (buildMap names 0 []).find Y = none ↔ Y ∉ names := by
  rw [find_eq_none_iff]
  constructor
  · intro h hY
    obtain ⟨i, hi⟩ := List.getElem?_of_mem hY
    exact h i ((mem_buildMap_zero names hnd Y i).2 hi)
  · intro h i hm
    exact h (List.mem_of_getElem? ((mem_buildMap_zero names hnd Y i).1 hm))

/-! ### G3: the `dependees` vectors -/

theorem pushDep_length (deps : List (List Nat)) (s t : Nat) : (pushDep deps s t).length = deps.length := by
  simp [pushDep]

theorem mem_pushDep (deps : List (List Nat)) (s t i j : Nat) :
    j ∈ (pushDep deps s t).getD i [] ↔ j ∈ deps.getD i [] ∨ (i = s ∧ j = t ∧ i < deps.length) := by
  unfold pushDep
  simp only [List.getD_eq_getElem?_getD, List.getElem?_modify]
  by_cases his : s = i
  · subst his
    by_cases hl : s < deps.length
    · simp [hl]
    · simp [hl]
  · have : ¬ i = s := fun h => his h.symm
    simp [his, this]

theorem foldl_pushDep_spec (srcs : List Nat) (deps : List (List Nat)) (idx : Nat) :
    (srcs.foldl (fun d s => pushDep d s idx) deps).length = deps.length ∧
    ∀ i j, j ∈ (srcs.foldl (fun d s => pushDep d s idx) deps).getD i [] ↔
      j ∈ deps.getD i [] ∨ (i ∈ srcs ∧ j = idx ∧ i < deps.length) := by
  induction srcs generalizing deps with
  | nil => simp
  | cons s r ih =>
    obtain ⟨hl, hm⟩ := ih (pushDep deps s idx)
    refine ⟨by simpa [pushDep_length] using hl, ?_⟩
    intro i j
    simp only [List.foldl_cons, hm, mem_pushDep, pushDep_length, List.mem_cons]
    constructor
    · rintro ((h | ⟨h1, h2, h3⟩) | ⟨h1, h2, h3⟩)
      · exact Or.inl h
      · exact Or.inr ⟨Or.inl h1, h2, h3⟩
      · exact Or.inr ⟨Or.inr h1, h2, h3⟩
    · rintro (h | ⟨h1 | h1, h2, h3⟩)
      · exact Or.inl (Or.inl h)
      · exact Or.inl (Or.inr ⟨h1, h2, h3⟩)
      · exact Or.inr ⟨h1, h2, h3⟩

theorem addEdges_spec (ap : Path → Option DepMeta) (mp : MsgMap) (fuel : Nat) (S : Path → Nat → Prop)
    (es : List (Path × Nat))
    (hs : ∀ e ∈ es, ∃ l, scanDeps ap mp fuel e.1 = some l ∧ ∀ i, i ∈ l ↔ S e.1 i)
    (deps : List (List Nat)) :
    ∃ deps', addEdges ap mp fuel es deps = some deps' ∧ deps'.length = deps.length ∧
      ∀ i j, j ∈ deps'.getD i [] ↔
        j ∈ deps.getD i [] ∨ (i < deps.length ∧ ∃ X, (X, j) ∈ es ∧ S X i) := by
  induction es generalizing deps with
  | nil => exact ⟨deps, rfl, rfl, by simp⟩
  | cons e r ih =>
    obtain ⟨name, idx⟩ := e
    obtain ⟨l, hl, hm⟩ := hs (name, idx) (by simp)
    obtain ⟨hfl, hfm⟩ := foldl_pushDep_spec l deps idx
    obtain ⟨deps', hd, hlen, hmem⟩ := ih (fun e he => hs e (by simp [he]))
      (l.foldl (fun d s => pushDep d s idx) deps)
    refine ⟨deps', by simp only [addEdges, hl, hd], by omega, ?_⟩
    intro i j
    simp only [hmem, hfm, hfl, hm, List.mem_cons, Prod.mk.injEq]
    constructor
    · rintro ((h | ⟨h1, h2, h3⟩) | ⟨h1, X, h2, h3⟩)
      · exact Or.inl h
      · exact Or.inr ⟨h3, name, Or.inl ⟨rfl, h2⟩, h1⟩
      · exact Or.inr ⟨h1, X, Or.inr h2, h3⟩
    · rintro (h | ⟨h1, X, ⟨rfl, rfl⟩ | h2, h3⟩)
      · exact Or.inl (Or.inl h)
      · exact Or.inl (Or.inr ⟨h3, rfl, h1⟩)
      · exact Or.inr ⟨h1, X, h2, h3⟩

/-- G3: the dependees vectors: j ∈ deps[i]  iff  i is a source of the scan from names[j] -/
theorem dependees_spec (ap : Path → Option DepMeta) (hr : MetaRanked ap) (names : List Path) (hnd : names.Nodup) :
    ∃ deps, dependees ap scanFuel names = some deps ∧ deps.length = names.length ∧
      ∀ i j, j ∈ deps.getD i [] ↔ (i < names.length ∧ ∃ Xj, names[j]? = some Xj ∧ Src ap (buildMap names 0 []) Xj i) := by
  obtain ⟨rank, hrank, hfuel⟩ := hr
  obtain ⟨deps, hd, hlen, hmem⟩ := addEdges_spec ap (buildMap names 0 []) scanFuel
    (Src ap (buildMap names 0 [])) (buildMap names 0 [])
    (fun e _ => scanDeps_spec ap _ rank hrank scanFuel e.1 (hfuel e.1)) (List.replicate names.length [])
  refine ⟨deps, hd, by simpa using hlen, ?_⟩
  intro i j
  rw [hmem]
  have h0 : ¬ j ∈ (List.replicate names.length ([] : List Nat)).getD i [] := by
    simp only [List.getD_eq_getElem?_getD, List.getElem?_replicate]
    split <;> simp
  simp only [h0, false_or, List.length_replicate, mem_buildMap_zero names hnd]

end Rtosc.Save
