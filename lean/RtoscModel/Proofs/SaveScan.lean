/-
  C13 — the dependency scan (`scan_deps`) and the `dependees` vectors against their
  specification (`refsOf`, `Src`), and the order Kahn's algorithm outputs for a file.
-/
import RtoscModel.Save.Spec
import RtoscModel.Proofs.SaveKahn
namespace Rtosc.Save

/-- `some (a ++ b)` when both parts are defined -/
def cat2 : Option (List Nat) → Option (List Nat) → Option (List Nat)
  | some a, some b => some (a ++ b)
  | _, _ => none

/-- concatenation of the optional lists `f a`, `a ∈ l`, in order -/
def seqCat {α : Type} (f : α → Option (List Nat)) : List α → Option (List Nat)
  | [] => some []
  | a :: r => cat2 (f a) (seqCat f r)

theorem cat2_assoc (a b c : Option (List Nat)) : cat2 (cat2 a b) c = cat2 a (cat2 b c) := by
  cases a <;> cases b <;> cases c <;> simp [cat2]

theorem cat2_nil_left (a : Option (List Nat)) : cat2 (some []) a = a := by
  cases a <;> simp [cat2]

theorem seqCat_append {α : Type} (f : α → Option (List Nat)) (l₁ l₂ : List α) :
    seqCat f (l₁ ++ l₂) = cat2 (seqCat f l₁) (seqCat f l₂) := by
  induction l₁ with
  | nil => simp [seqCat, cat2_nil_left]
  | cons a r ih => simp only [List.cons_append, seqCat, ih, cat2_assoc]

theorem seqCat_flatMap {α β : Type} (f : β → Option (List Nat)) (g : α → List β) (l : List α) :
    seqCat f (l.flatMap g) = seqCat (fun a => seqCat f (g a)) l := by
  induction l with
  | nil => simp [seqCat]
  | cons a r ih => simp only [List.flatMap_cons, seqCat_append, seqCat, ih]

/-- what the scan does with one absolute path -/
def itemStep (ap : Path → Option DepMeta) (mp : MsgMap) (fuel : Nat) (Y : Path) : Option (List Nat) :=
  match mp.find Y with
  | some src => some [src]
  | none => scanDeps ap mp fuel Y

/-- … in the loop of `scan_deps`: an entry that resolves to the scanned path itself is skipped -/
def itemStepS (ap : Path → Option DepMeta) (mp : MsgMap) (fuel : Nat) (start Y : Path) : Option (List Nat) :=
  if Y = start then some [] else itemStep ap mp fuel Y

theorem seqCat_skip {α : Type} [DecidableEq α] (f : α → Option (List Nat)) (x : α) (l : List α) :
    seqCat (fun a => if a = x then some [] else f a) l = seqCat f (l.filter fun a => decide (a ≠ x)) := by
  induction l with
  | nil => rfl
  | cons a r ih =>
    by_cases h : a = x
    · simp only [seqCat, ih, h, if_true, cat2_nil_left, List.filter_cons, ne_eq, not_true_eq_false,
        decide_false, Bool.false_eq_true, if_false]
    · simp only [seqCat, ih, h, if_false, List.filter_cons, ne_eq, not_false_eq_true, decide_true, if_true]

theorem scanItems_eq (ap : Path → Option DepMeta) (mp : MsgMap) (fuel : Nat) (start lvl : Path) (its : List Path) :
    scanItems ap mp fuel start lvl its = seqCat (itemStepS ap mp fuel start) (its.map fun it => rel2abs it lvl) := by
  induction its with
  | nil => simp [scanItems, seqCat]
  | cons it its ih =>
    rw [scanItems, ih]
    simp only [List.map_cons, seqCat, itemStepS, itemStep]
    rfl

theorem scanKeys_eq (ap : Path → Option DepMeta) (mp : MsgMap) (fuel : Nat) (start lvl : Path) (ks : List (Option Path)) :
    scanKeys ap mp fuel start lvl ks = seqCat (itemStepS ap mp fuel start)
      ((ks.filterMap id).flatMap fun v => (depItems v).map fun it => rel2abs it lvl) := by
  induction ks with
  | nil => simp [scanKeys, seqCat]
  | cons k ks ih =>
    cases k with
    | none => rw [scanKeys, ih]; rfl
    | some v =>
      rw [scanKeys, ih, scanItems_eq]
      simp only [List.filterMap_cons, id_eq, List.flatMap_cons, seqCat_append]
      rfl

/-- levels paired with the argument of `apropos` -/
def lvlPairs : List Path → Bool → List (Path × Path)
  | [], _ => []
  | l :: r, parent => (l, if parent then l ++ ['/'] else l) :: lvlPairs r true

theorem lvlPairs_true (r : List Path) : lvlPairs r true = r.map fun p => (p, p ++ ['/']) := by
  induction r with
  | nil => rfl
  | cons a r ih => simp [lvlPairs, ih]

theorem lvlArgs_eq (X : Path) : lvlArgs X = lvlPairs (levels (X.length + 1) X) false := by
  unfold lvlArgs
  cases levels (X.length + 1) X with
  | nil => rfl
  | cons l r => simp [lvlPairs, lvlPairs_true]

theorem optCat_eq (a b : Option (List Nat)) : optCat a b = cat2 a b := by
  cases a <;> cases b <;> rfl

theorem scanLevels_eq (ap : Path → Option DepMeta) (mp : MsgMap) (fuel : Nat) (start : Path) (lvls : List Path)
    (parent : Bool) :
    scanLevels ap mp fuel start lvls parent =
      seqCat (itemStepS ap mp fuel start) ((lvlPairs lvls parent).flatMap (refsAt ap)) := by
  induction lvls generalizing parent with
  | nil => simp [scanLevels, lvlPairs, seqCat]
  | cons l r ih =>
    rw [scanLevels, ih, optCat_eq, optCat_eq]
    simp only [lvlPairs, List.flatMap_cons, seqCat_append, refsAt, metaRefs]
    congr 1
    congr 1
    · cases ap (if parent = true then l ++ ['/'] else l) with
      | none => simp [seqCat]
      | some m => simp only [scanKeys_eq]
    · cases selfMeta ap l with
      | none => simp [seqCat]
      | some m => simp only [scanKeys_eq]

theorem rawRefs_eq (ap : Path → Option DepMeta) (X : Path) :
    rawRefs ap X = (lvlPairs (levels (X.length + 1) X) false).flatMap (refsAt ap) := by
  unfold rawRefs
  rw [lvlArgs_eq]

/-- one step of the scan: the references of `X`, each a source or scanned in turn -/
theorem scanDeps_succ (ap : Path → Option DepMeta) (mp : MsgMap) (fuel : Nat) (X : Path) :
    scanDeps ap mp (fuel + 1) X = seqCat (itemStep ap mp fuel) (refsOf ap X) := by
  rw [scanDeps, scanLevels_eq, ← rawRefs_eq]
  unfold refsOf itemStepS
  exact seqCat_skip (itemStep ap mp fuel) X (rawRefs ap X)

/-! ### G1: the scan returns exactly the sources -/

/-- the sources found when scanning from `X`: referred to directly, or through ports without a message -/
inductive Src (ap : Path → Option DepMeta) (mp : MsgMap) : Path → Nat → Prop
  | direct {X Y : Path} {i : Nat} : Y ∈ refsOf ap X → mp.find Y = some i → Src ap mp X i
  | through {X Y : Path} {i : Nat} : Y ∈ refsOf ap X → mp.find Y = none → Src ap mp Y i → Src ap mp X i

theorem seqCat_spec {α : Type} (f : α → Option (List Nat)) (P : α → Nat → Prop) (l : List α)
    (h : ∀ a ∈ l, ∃ r, f a = some r ∧ ∀ i, i ∈ r ↔ P a i) :
    ∃ r, seqCat f l = some r ∧ ∀ i, i ∈ r ↔ ∃ a ∈ l, P a i := by
  induction l with
  | nil => exact ⟨[], rfl, by simp⟩
  | cons a l ih =>
    obtain ⟨ra, hfa, hra⟩ := h a (by simp)
    obtain ⟨rl, hfl, hrl⟩ := ih (fun b hb => h b (by simp [hb]))
    refine ⟨ra ++ rl, by simp [seqCat, hfa, hfl, cat2], ?_⟩
    intro i
    simp only [List.mem_append, hra, hrl, List.mem_cons, exists_eq_or_imp]

theorem Src_iff (ap : Path → Option DepMeta) (mp : MsgMap) (X : Path) (i : Nat) :
    Src ap mp X i ↔ ∃ Y ∈ refsOf ap X, mp.find Y = some i ∨ (mp.find Y = none ∧ Src ap mp Y i) := by
  constructor
  · intro h
    cases h with
    | direct hY hf => exact ⟨_, hY, Or.inl hf⟩
    | through hY hf hs => exact ⟨_, hY, Or.inr ⟨hf, hs⟩⟩
  · rintro ⟨Y, hY, hf | ⟨hf, hs⟩⟩
    · exact Src.direct hY hf
    · exact Src.through hY hf hs

/-- G1: with enough fuel the scan is defined and returns exactly the sources -/
theorem scanDeps_spec (ap : Path → Option DepMeta) (mp : MsgMap) (rank : Path → Nat)
    (hrank : ∀ X, ∀ Y ∈ refsOf ap X, rank Y < rank X) (fuel : Nat) (X : Path) (hf : rank X < fuel) :
    ∃ l, scanDeps ap mp fuel X = some l ∧ ∀ i, i ∈ l ↔ Src ap mp X i := by
  induction fuel generalizing X with
  | zero => omega
  | succ fuel ih =>
    rw [scanDeps_succ]
    have := seqCat_spec (itemStep ap mp fuel)
      (fun Y i => mp.find Y = some i ∨ (mp.find Y = none ∧ Src ap mp Y i)) (refsOf ap X) (by
        intro Y hY
        unfold itemStep
        cases hfind : mp.find Y with
        | some s => exact ⟨[s], rfl, by intro i; simp [eq_comm]⟩
        | none =>
          obtain ⟨l, hl, hm⟩ := ih Y (by have := hrank X Y hY; omega)
          exact ⟨l, hl, by intro i; simp [hm]⟩)
    obtain ⟨r, hr, hm⟩ := this
    exact ⟨r, hr, fun i => by rw [hm, Src_iff]⟩

/-! ### G2: the message map -/

theorem mem_emplace (m : MsgMap) (k : Path) (v : Nat) (hk : ∀ v', (k, v') ∉ m) (e : Path × Nat) :
    e ∈ m.emplace k v ↔ e = (k, v) ∨ e ∈ m := by
  induction m with
  | nil => simp [MsgMap.emplace]
  | cons x r ih =>
    obtain ⟨k', v'⟩ := x
    have hne : k' ≠ k := by
      intro h; subst h; exact hk v' (by simp)
    have ih := ih (fun v'' hm => hk v'' (by simp [hm]))
    simp only [MsgMap.emplace, if_neg hne]
    split
    · simp
    · simp only [List.mem_cons, ih]; exact or_left_comm

theorem find_eq_some_iff (m : MsgMap) (huniq : ∀ Y i i', (Y, i) ∈ m → (Y, i') ∈ m → i = i')
    (Y : Path) (i : Nat) : m.find Y = some i ↔ (Y, i) ∈ m := by
  unfold MsgMap.find
  constructor
  · intro h
    simp only [Option.map_eq_some_iff] at h
    obtain ⟨e, he, rfl⟩ := h
    have h1 := List.find?_some he
    have hm := List.mem_of_find?_eq_some he
    simp only [decide_eq_true_eq] at h1
    subst h1; exact hm
  · intro h
    cases hf : List.find? (fun e => e.1 = Y) m with
    | none =>
      rw [List.find?_eq_none] at hf
      have := hf _ h
      simp at this
    | some e =>
      have h1 := List.find?_some hf
      have hm := List.mem_of_find?_eq_some hf
      obtain ⟨k, w⟩ := e
      simp only [decide_eq_true_eq] at h1
      subst h1
      simp only [Option.map_some, Option.some.injEq]
      exact huniq _ _ _ hm h

theorem find_eq_none_iff (m : MsgMap) (Y : Path) : m.find Y = none ↔ ∀ i, (Y, i) ∉ m := by
  unfold MsgMap.find
  simp only [Option.map_eq_none_iff, List.find?_eq_none, decide_eq_true_eq]
  constructor
  · intro h i hm; exact h _ hm rfl
  · intro h e he hY; exact h e.2 (by rw [← hY]; exact he)

theorem mem_buildMap (names pre : List Path) (m : MsgMap)
    (hm : ∀ Y i, (Y, i) ∈ m ↔ pre[i]? = some Y) (hnd : (pre ++ names).Nodup) (Y : Path) (i : Nat) :
    (Y, i) ∈ buildMap names pre.length m ↔ (pre ++ names)[i]? = some Y := by
  induction names generalizing pre m with
  | nil => simp [buildMap, hm]
  | cons n r ih =>
    rw [buildMap]
    have hn : n ∉ pre := by
      intro h
      have := (List.nodup_append.1 hnd).2.2 n h n (by simp)
      exact this rfl
    have hk : ∀ v', (n, v') ∉ m := by
      intro v' hv
      exact hn (List.mem_of_getElem? ((hm _ _).1 hv))
    have := ih (pre ++ [n]) (m.emplace n pre.length) (by
      intro Y i
      rw [mem_emplace m n pre.length hk, hm, List.getElem?_append]
      by_cases hi : i < pre.length
      · simp only [hi, if_true, Prod.mk.injEq]
        constructor
        · rintro (⟨_, h⟩ | h)
          · omega
          · exact h
        · exact Or.inr
      · simp only [hi, if_false, Prod.mk.injEq]
        rw [List.getElem?_eq_none (by omega)]
        by_cases hi2 : i = pre.length
        · subst hi2; simp [eq_comm]
        · rw [List.getElem?_eq_none (by simp; omega)]; simp [hi2]) (by simpa using hnd)
    simpa using this

theorem mem_buildMap_zero (names : List Path) (hnd : names.Nodup) (Y : Path) (i : Nat) :
    (Y, i) ∈ buildMap names 0 [] ↔ names[i]? = some Y := by
  simpa using mem_buildMap names [] [] (by simp) (by simpa using hnd) Y i

theorem nodup_getElem?_inj {α : Type} (l : List α) (hnd : l.Nodup) (i j : Nat) (a : α)
    (hi : l[i]? = some a) (hj : l[j]? = some a) : i = j := by
  have hil : i < l.length := by
    by_cases h : i < l.length
    · exact h
    · rw [List.getElem?_eq_none (by omega)] at hi; simp at hi
  exact (List.getElem?_inj hil hnd).1 (hi.trans hj.symm)

/-- G2: the map built from duplicate-free names finds exactly the names -/
theorem buildMap_find (names : List Path) (hnd : names.Nodup) (Y : Path) (i : Nat) :
    (buildMap names 0 []).find Y = some i ↔ names[i]? = some Y := by
  rw [find_eq_some_iff, mem_buildMap_zero names hnd]
  intro Y i i' h h'
  rw [mem_buildMap_zero names hnd] at h h'
  exact nodup_getElem?_inj names hnd i i' Y h h'

theorem buildMap_find_none (names : List Path) (hnd : names.Nodup) (Y : Path) :
    (buildMap names 0 []).find Y = none ↔ Y ∉ names := by
  rw [find_eq_none_iff]
  constructor
  · intro h hY
    obtain ⟨i, hi⟩ := List.getElem?_of_mem hY
    exact h i ((mem_buildMap_zero names hnd Y i).2 hi)
  · intro h i hm
    exact h (List.mem_of_getElem? ((mem_buildMap_zero names hnd Y i).1 hm))

/-! ### G3: the `dependees` vectors -/

theorem pushDep_length (deps : List (List Nat)) (s t : Nat) : (pushDep deps s t).length = deps.length := by
  simp [pushDep]

theorem mem_pushDep (deps : List (List Nat)) (s t i j : Nat) :
    j ∈ (pushDep deps s t).getD i [] ↔ j ∈ deps.getD i [] ∨ (i = s ∧ j = t ∧ i < deps.length) := by
  unfold pushDep
  simp only [List.getD_eq_getElem?_getD, List.getElem?_modify]
  by_cases his : s = i
  · subst his
    by_cases hl : s < deps.length
    · simp [hl]
    · simp [hl]
  · have : ¬ i = s := fun h => his h.symm
    simp [his, this]

theorem foldl_pushDep_spec (srcs : List Nat) (deps : List (List Nat)) (idx : Nat) :
    (srcs.foldl (fun d s => pushDep d s idx) deps).length = deps.length ∧
    ∀ i j, j ∈ (srcs.foldl (fun d s => pushDep d s idx) deps).getD i [] ↔
      j ∈ deps.getD i [] ∨ (i ∈ srcs ∧ j = idx ∧ i < deps.length) := by
  induction srcs generalizing deps with
  | nil => simp
  | cons s r ih =>
    obtain ⟨hl, hm⟩ := ih (pushDep deps s idx)
    refine ⟨by simpa [pushDep_length] using hl, ?_⟩
    intro i j
    simp only [List.foldl_cons, hm, mem_pushDep, pushDep_length, List.mem_cons]
    constructor
    · rintro ((h | ⟨h1, h2, h3⟩) | ⟨h1, h2, h3⟩)
      · exact Or.inl h
      · exact Or.inr ⟨Or.inl h1, h2, h3⟩
      · exact Or.inr ⟨Or.inr h1, h2, h3⟩
    · rintro (h | ⟨h1 | h1, h2, h3⟩)
      · exact Or.inl (Or.inl h)
      · exact Or.inl (Or.inr ⟨h1, h2, h3⟩)
      · exact Or.inr ⟨h1, h2, h3⟩

theorem addEdges_spec (ap : Path → Option DepMeta) (mp : MsgMap) (fuel : Nat) (S : Path → Nat → Prop)
    (es : List (Path × Nat))
    (hs : ∀ e ∈ es, ∃ l, scanDeps ap mp fuel e.1 = some l ∧ ∀ i, i ∈ l ↔ S e.1 i)
    (deps : List (List Nat)) :
    ∃ deps', addEdges ap mp fuel es deps = some deps' ∧ deps'.length = deps.length ∧
      ∀ i j, j ∈ deps'.getD i [] ↔
        j ∈ deps.getD i [] ∨ (i < deps.length ∧ ∃ X, (X, j) ∈ es ∧ S X i) := by
  induction es generalizing deps with
  | nil => exact ⟨deps, rfl, rfl, by simp⟩
  | cons e r ih =>
    obtain ⟨name, idx⟩ := e
    obtain ⟨l, hl, hm⟩ := hs (name, idx) (by simp)
    obtain ⟨hfl, hfm⟩ := foldl_pushDep_spec l deps idx
    obtain ⟨deps', hd, hlen, hmem⟩ := ih (fun e he => hs e (by simp [he]))
      (l.foldl (fun d s => pushDep d s idx) deps)
    refine ⟨deps', by simp only [addEdges, hl, hd], by omega, ?_⟩
    intro i j
    simp only [hmem, hfm, hfl, hm, List.mem_cons, Prod.mk.injEq]
    constructor
    · rintro ((h | ⟨h1, h2, h3⟩) | ⟨h1, X, h2, h3⟩)
      · exact Or.inl h
      · exact Or.inr ⟨h3, name, Or.inl ⟨rfl, h2⟩, h1⟩
      · exact Or.inr ⟨h1, X, Or.inr h2, h3⟩
    · rintro (h | ⟨h1, X, ⟨rfl, rfl⟩ | h2, h3⟩)
      · exact Or.inl (Or.inl h)
      · exact Or.inl (Or.inr ⟨h3, rfl, h1⟩)
      · exact Or.inr ⟨h1, X, h2, h3⟩

/-- G3: the dependees vectors: j ∈ deps[i]  iff  i is a source of the scan from names[j] -/
theorem dependees_spec (ap : Path → Option DepMeta) (hr : MetaRanked ap) (names : List Path) (hnd : names.Nodup) :
    ∃ deps, dependees ap scanFuel names = some deps ∧ deps.length = names.length ∧
      ∀ i j, j ∈ deps.getD i [] ↔ (i < names.length ∧ ∃ Xj, names[j]? = some Xj ∧ Src ap (buildMap names 0 []) Xj i) := by
  obtain ⟨rank, hrank, hfuel⟩ := hr
  obtain ⟨deps, hd, hlen, hmem⟩ := addEdges_spec ap (buildMap names 0 []) scanFuel
    (Src ap (buildMap names 0 [])) (buildMap names 0 [])
    (fun e _ => scanDeps_spec ap _ rank hrank scanFuel e.1 (hfuel e.1)) (List.replicate names.length [])
  refine ⟨deps, hd, by simpa using hlen, ?_⟩
  intro i j
  rw [hmem]
  have h0 : ¬ j ∈ (List.replicate names.length ([] : List Nat)).getD i [] := by
    simp only [List.getD_eq_getElem?_getD, List.getElem?_replicate]
    split <;> simp
  simp only [h0, false_or, List.length_replicate, mem_buildMap_zero names hnd]

/-! ### the scan's graph is acyclic and Kahn's algorithm sorts it -/

theorem Src_rank (ap : Path → Option DepMeta) (mp : MsgMap) (rank : Path → Nat)
    (hrank : ∀ X, ∀ Y ∈ refsOf ap X, rank Y < rank X) {X : Path} {i : Nat} (h : Src ap mp X i) :
    ∃ Y, mp.find Y = some i ∧ rank Y < rank X := by
  induction h with
  | direct hY hf => exact ⟨_, hf, hrank _ _ hY⟩
  | through hY _ _ ih =>
    obtain ⟨Z, hZ, hlt⟩ := ih
    exact ⟨Z, hZ, Nat.lt_trans hlt (hrank _ _ hY)⟩

theorem getElem?_lt {α : Type} {l : List α} {i : Nat} {a : α} (h : l[i]? = some a) : i < l.length := by
  by_cases hi : i < l.length
  · exact hi
  · rw [List.getElem?_eq_none (by omega)] at h; simp at h

/-- the order extends from edges to paths of edges -/
theorem order_transGen (deps : List (List Nat)) (n : Nat) (order : List Nat)
    (hperm : order.Perm (List.range n))
    (hsrc : ∀ i j, j ∈ deps.getD i [] → i < n)
    (hedge : ∀ i j, j ∈ deps.getD i [] → ∀ a b : Nat, order[a]? = some i → order[b]? = some j → a < b)
    (i j : Nat) (h : Relation.TransGen (fun i j => j ∈ deps.getD i []) i j) :
    ∀ a b : Nat, order[a]? = some i → order[b]? = some j → a < b := by
  induction h with
  | single h => exact hedge _ _ h
  | @tail m k _ hmk ih =>
    intro a b ha hb
    have hm : m ∈ order := hperm.mem_iff.2 (List.mem_range.2 (hsrc _ _ hmk))
    obtain ⟨c, hc⟩ := List.getElem?_of_mem hm
    exact Nat.lt_trans (ih a c ha hc) (hedge _ _ hmk c b hc hb)

/-- scan, edges and Kahn's algorithm for duplicate-free names and acyclic metadata -/
theorem kahn_scan (ap : Path → Option DepMeta) (hr : MetaRanked ap) (names : List Path) (hnd : names.Nodup) :
    ∃ deps order, dependees ap scanFuel names = some deps ∧ kahn deps = some order ∧
      order.Perm (List.range names.length) ∧
      ∀ i j, Relation.TransGen (fun i j => j ∈ deps.getD i []) i j →
        ∀ a b : Nat, order[a]? = some i → order[b]? = some j → a < b := by
  obtain ⟨deps, hd, hlen, hmem⟩ := dependees_spec ap hr names hnd
  obtain ⟨rank, hrank, _⟩ := hr
  have hrange : ∀ l ∈ deps, ∀ j ∈ l, j < deps.length := by
    intro l hl j hj
    obtain ⟨i, hi⟩ := List.getElem?_of_mem hl
    have : j ∈ deps.getD i [] := by
      rw [List.getD_eq_getElem?_getD, hi]; exact hj
    obtain ⟨_, Xj, hXj, _⟩ := (hmem i j).1 this
    rw [hlen]; exact getElem?_lt hXj
  have hacyc : ∀ i, ∀ j ∈ deps.getD i [],
      (fun i => rank (names.getD i [])) i < (fun i => rank (names.getD i [])) j := by
    intro i j hj
    obtain ⟨_, Xj, hXj, hs⟩ := (hmem i j).1 hj
    obtain ⟨Y, hY, hlt⟩ := Src_rank ap _ rank hrank hs
    have hYi := (buildMap_find names hnd Y i).1 hY
    simp only [List.getD_eq_getElem?_getD, hXj, hYi, Option.getD_some]
    exact hlt
  obtain ⟨order, hk, hperm, hord⟩ := kahn_spec deps hrange _ hacyc
  rw [hlen] at hperm
  refine ⟨deps, order, hd, hk, hperm, ?_⟩
  intro i j h
  exact order_transGen deps names.length order hperm (fun i j hj => ((hmem i j).1 hj).1) hord i j h

/-- for duplicate-free names and acyclic metadata the scan and Kahn's algorithm are defined and
    output every message once -/
theorem kahn_defined (ap : Path → Option DepMeta) (hr : MetaRanked ap) (names : List Path) (hnd : names.Nodup) :
    ∃ deps order, dependees ap scanFuel names = some deps ∧ kahn deps = some order ∧
      order.Perm (List.range names.length) := by
  obtain ⟨deps, order, h1, h2, h3, _⟩ := kahn_scan ap hr names hnd
  exact ⟨deps, order, h1, h2, h3⟩

/-! ### the application's addresses -/

theorem param_eq_getElem (app : App) (i : Nat) (hi : i < app.params.length) :
    app.param i = app.params[i] := by
  simp [App.param, List.getD_eq_getElem?_getD, hi]

theorem findAddr_some (app : App) (x : Path) (i : Nat) (h : app.findAddr x = some i) :
    i < app.size ∧ (app.param i).addr = x := by
  unfold App.findAddr at h
  simp only at h
  split at h
  · rename_i hlt
    simp only [Option.some.injEq] at h
    subst h
    refine ⟨hlt, ?_⟩
    rw [param_eq_getElem app _ hlt]
    have := List.findIdx_getElem (w := hlt)
    simpa using this
  · simp at h

theorem findAddr_param (app : App) (hnd : (app.params.map (·.addr)).Nodup) (i : Nat) (hi : i < app.size) :
    app.findAddr (app.param i).addr = some i := by
  have hi' : i < app.params.length := hi
  have hex : ∃ p ∈ app.params, (p.addr == (app.param i).addr) = true :=
    ⟨app.params[i], List.getElem_mem hi', by rw [param_eq_getElem app i hi']; simp⟩
  have hlt := List.findIdx_lt_length_of_exists hex
  have hsome : app.findAddr (app.param i).addr =
      some (app.params.findIdx (fun p => p.addr == (app.param i).addr)) := by
    unfold App.findAddr
    simp only [hlt, if_true]
  generalize app.params.findIdx (fun p => p.addr == (app.param i).addr) = k at hsome hlt
  obtain ⟨_, haddr⟩ := findAddr_some app _ _ hsome
  rw [hsome]
  congr 1
  apply nodup_getElem?_inj _ hnd _ _ (app.param i).addr
  · rw [List.getElem?_map, List.getElem?_eq_getElem hlt, Option.map_some, ← haddr,
      param_eq_getElem app _ hlt]
  · rw [List.getElem?_map, List.getElem?_eq_getElem hi', Option.map_some, param_eq_getElem app _ hi']

theorem Tiling.le {a b : Nat} {r : List Item} (h : Tiling a r b) : a ≤ b := by
  induction r generalizing a with
  | nil => exact Nat.le_of_eq h
  | cons it r ih =>
    obtain ⟨h1, h2, h3⟩ := h
    have := ih h3
    omega

theorem Tiling.mem {a b : Nat} {r : List Item} (h : Tiling a r b) {it : Item} (hit : it ∈ r) :
    a ≤ it.lo ∧ it.lo < it.hi ∧ it.hi ≤ b := by
  induction r generalizing a with
  | nil => simp at hit
  | cons x r ih =>
    obtain ⟨h1, h2, h3⟩ := h
    rcases List.mem_cons.1 hit with rfl | hit
    · exact ⟨by omega, h2, h3.le⟩
    · have := ih h3 hit
      omega

theorem array_bounds (app : App) (hwf : app.WF) {base : Path} {first len : Nat}
    (h : Item.array base first len ∈ app.walk) : 0 < len ∧ first + len ≤ app.size := by
  obtain ⟨rw, hperm, ht⟩ := hwf.walk_tiles
  have := ht.mem (hperm.mem_iff.2 h)
  simp only [Item.lo, Item.hi] at this
  omega

theorem array_findAddr (app : App) (hwf : app.WF) {base : Path} {first len : Nat}
    (h : Item.array base first len ∈ app.walk) (k : Nat) (hk : k < len) :
    app.findAddr (base ++ natDigits k) = some (first + k) := by
  have hb := array_bounds app hwf h
  rw [← ((hwf.array_ok base first len h).2 k hk).1]
  exact findAddr_param app hwf.addr_nodup _ (by omega)

theorem lineParams_lt (app : App) (l : Line) (p : Nat) (hp : p ∈ app.lineParams l) : p < app.size := by
  unfold App.lineParams at hp
  split at hp
  · simp only [Option.mem_toList] at hp
    exact (findAddr_some app _ _ hp).1
  · simp only [List.mem_filterMap] at hp
    obtain ⟨k, _, hk⟩ := hp
    exact (findAddr_some app _ _ hk).1

/-- the parameters of an array line are elements of its array port -/
theorem array_lineParams (app : App) (hwf : app.WF) (l : Line) (hok : app.LineOK l) (vs : List Val)
    (hargs : l.args = .arr vs) (p : Nat) (hp : p ∈ app.lineParams l) :
    ∃ first len k, Item.array l.addr first len ∈ app.walk ∧ k < len ∧ p = first + k := by
  simp only [App.LineOK, hargs] at hok
  obtain ⟨first, len, hw, hlen⟩ := hok
  simp only [App.lineParams, hargs, List.mem_filterMap, List.mem_range] at hp
  obtain ⟨k, hk, hf⟩ := hp
  have hb := array_bounds app hwf hw
  have hkl : k < len := by omega
  rw [array_findAddr app hwf hw k hkl] at hf
  exact ⟨first, len, k, hw, hkl, (Option.some.inj hf).symm⟩

theorem plain_lineParams (app : App) (l : Line) (vs : List Val)
    (hargs : l.args = .plain vs) (p : Nat) (hp : p ∈ app.lineParams l) :
    p < app.size ∧ (app.param p).addr = l.addr := by
  simp only [App.lineParams, hargs, Option.mem_toList] at hp
  exact findAddr_some app _ _ hp

/-! ### G4: declared dependencies are paths of scanned edges -/

/-- one node of the cover argument: the ancestors `A` declared along `X` -/
theorem cover_core (app : App) (names : List Path) (hnd : names.Nodup) (E : Nat → Nat → Prop)
    (hE : ∀ i j Xj, names[j]? = some Xj → Src app.apropos (buildMap names 0 []) Xj i → E i j)
    (ia : Nat) (Xa : Path) (hia : names[ia]? = some Xa)
    (D : Nat)
    (IH : ∀ m, m < D → m < app.size → ∀ a' ∈ (app.param m).anc, (app.param a').addr = Xa →
      ∃ src, Src app.apropos (buildMap names 0 []) (app.param m).addr src ∧
        (src = ia ∨ Relation.TransGen E ia src))
    (X : Path) (A : List Nat) (hA : ∀ m ∈ A, m < D ∧ m < app.size)
    (hcl : ∀ a ∈ A, (app.param a).addr ∈ refsOf app.apropos X ∨
      ∃ m ∈ A, a ∈ (app.param m).anc ∧ (app.param m).addr ∈ refsOf app.apropos X) :
    ∀ a' ∈ A, (app.param a').addr = Xa →
      ∃ src, Src app.apropos (buildMap names 0 []) X src ∧ (src = ia ∨ Relation.TransGen E ia src) := by
  intro a' ha' haddr
  rcases hcl a' ha' with hd | ⟨m, hm, ham, hmr⟩
  · have hf : (buildMap names 0 []).find (app.param a').addr = some ia :=
      (buildMap_find names hnd _ _).2 (haddr ▸ hia)
    exact ⟨ia, Src.direct hd hf, Or.inl rfl⟩
  · obtain ⟨src', hs', hor⟩ := IH m (hA m hm).1 (hA m hm).2 a' ham haddr
    cases hfm : (buildMap names 0 []).find (app.param m).addr with
    | some im =>
      have hedge : E src' im := hE _ _ _ ((buildMap_find names hnd _ _).1 hfm) hs'
      refine ⟨im, Src.direct hmr hfm, Or.inr ?_⟩
      rcases hor with rfl | h
      · exact .single hedge
      · exact .tail h hedge
    | none => exact ⟨src', Src.through hmr hfm hs', hor⟩

/-- every ancestor of `d` whose address has the message `ia` is found by the scan from `d`'s
    address: as a source itself or behind a path of edges -/
theorem cover_param (app : App) (hwf : app.WF) (hcov : app.MetaCovers)
    (names : List Path) (hnd : names.Nodup) (E : Nat → Nat → Prop)
    (hE : ∀ i j Xj, names[j]? = some Xj → Src app.apropos (buildMap names 0 []) Xj i → E i j)
    (ia : Nat) (Xa : Path) (hia : names[ia]? = some Xa) (d : Nat) :
    d < app.size → ∀ a' ∈ (app.param d).anc, (app.param a').addr = Xa →
      ∃ src, Src app.apropos (buildMap names 0 []) (app.param d).addr src ∧
        (src = ia ∨ Relation.TransGen E ia src) := by
  induction d using Nat.strongRecOn with
  | ind d ih =>
    intro hd
    exact cover_core app names hnd E hE ia Xa hia d (fun m hm hms => ih m hm hms)
      (app.param d).addr (app.param d).anc
      (fun m hm => by have := hwf.anc_lt d hd m hm; omega) (hcov.1 d hd)

theorem map_addr_getElem? (ls : List Line) (i : Nat) (a : Line) (h : ls[i]? = some a) :
    (ls.map (·.addr))[i]? = some a.addr := by
  simp [h]

/-- every dependence the application declares between two present lines is a path of edges found by
    the scan, also through absent intermediate ports: `ia` reaches `ib` in the dependees graph -/
theorem edges_cover_dependencies (app : App) (hwf : app.WF) (hcov : app.MetaCovers) (hrank : MetaRanked app.apropos)
    (ls : List Line) (hnd : (ls.map (·.addr)).Nodup) (hok : ∀ l ∈ ls, app.LineOK l)
    (deps : List (List Nat)) (hdeps : dependees app.apropos scanFuel (ls.map (·.addr)) = some deps)
    (ia ib : Nat) (a b : Line) (ha : ls[ia]? = some a) (hb : ls[ib]? = some b) (hlt : app.lineLt a b) :
    Relation.TransGen (fun i j => j ∈ deps.getD i []) ia ib := by
  obtain ⟨deps', hd', _, hmem⟩ := dependees_spec app.apropos hrank (ls.map (·.addr)) hnd
  rw [hdeps] at hd'
  obtain rfl : deps = deps' := Option.some.inj hd'
  obtain ⟨rank, hrk, _⟩ := hrank
  -- scanned sources are edges
  have hE : ∀ i j Xj, (ls.map (·.addr))[j]? = some Xj →
      Src app.apropos (buildMap (ls.map (·.addr)) 0 []) Xj i → (fun i j => j ∈ deps.getD i []) i j := by
    intro i j Xj hXj hs
    obtain ⟨Y, hY, _⟩ := Src_rank app.apropos _ rank hrk hs
    exact (hmem i j).2 ⟨getElem?_lt ((buildMap_find _ hnd Y i).1 hY), Xj, hXj, hs⟩
  have hia := map_addr_getElem? ls ia a ha
  have hib := map_addr_getElem? ls ib b hb
  obtain ⟨pa, hpa, pb, hpb, hanc⟩ := hlt
  have hpbs : pb < app.size := lineParams_lt app b pb hpb
  -- `a` is not an array line: array elements are nobody's ancestor
  have haplain : (app.param pa).addr = a.addr := by
    cases hargs : a.args with
    | plain vs => exact (plain_lineParams app a vs hargs pa hpa).2
    | arr vs =>
      obtain ⟨first, len, k, hw, hk, rfl⟩ :=
        array_lineParams app hwf a (hok a (List.mem_of_getElem? ha)) vs hargs pa hpa
      exact absurd hanc (((hwf.array_ok _ first len hw).2 k hk).2.2.2 pb hpbs)
  -- the scan from `b`'s address
  have hfin : ∃ src, Src app.apropos (buildMap (ls.map (·.addr)) 0 []) b.addr src ∧
      (src = ia ∨ Relation.TransGen (fun i j => j ∈ deps.getD i []) ia src) := by
    cases hargs : b.args with
    | plain vs =>
      obtain ⟨_, haddr⟩ := plain_lineParams app b vs hargs pb hpb
      rw [← haddr]
      exact cover_param app hwf hcov _ hnd _ hE ia a.addr hia pb hpbs pa hanc haplain
    | arr vs =>
      obtain ⟨first, len, k, hw, hk, rfl⟩ :=
        array_lineParams app hwf b (hok b (List.mem_of_getElem? hb)) vs hargs pb hpb
      have hanceq := ((hwf.array_ok _ first len hw).2 k hk).2.2.1
      rw [hanceq] at hanc
      have hb0 := array_bounds app hwf hw
      have hfs : first < app.size := by omega
      exact cover_core app _ hnd _ hE ia a.addr hia app.size
        (fun m _ hm => cover_param app hwf hcov _ hnd _ hE ia a.addr hia m hm)
        b.addr (app.param first).anc
        (fun m hm => by have := hwf.anc_lt first hfs m hm; omega)
        (hcov.2 b.addr first len hw) pa hanc haplain
  obtain ⟨src, hs, hor⟩ := hfin
  have hedge := hE src ib b.addr hib hs
  rcases hor with rfl | h
  · exact .single hedge
  · exact .tail h hedge

/-- G4 (the property's `edges_cover_dependencies` + `kahn_is_topological` combined for lines):
    whenever a line `a` must precede a line `b` (some parameter of `a` is an ancestor of one of `b`),
    `a` stands before `b` in the order Kahn's algorithm outputs — wherever the two lines stand in the
    file, and also when intermediate ports have no line. -/
theorem kahn_order_respects (app : App) (hwf : app.WF) (hcov : app.MetaCovers) (hrank : MetaRanked app.apropos)
    (ls : List Line) (hnd : (ls.map (·.addr)).Nodup) (hok : ∀ l ∈ ls, app.LineOK l) :
    ∃ deps order, dependees app.apropos scanFuel (ls.map (·.addr)) = some deps ∧ kahn deps = some order ∧
      order.Perm (List.range ls.length) ∧
      ∀ (ia ib : Nat) (a b : Line), ls[ia]? = some a → ls[ib]? = some b → app.lineLt a b →
        ∀ pa pb : Nat, order[pa]? = some ia → order[pb]? = some ib → pa < pb := by
  obtain ⟨deps, order, hd, hk, hperm, hord⟩ := kahn_scan app.apropos hrank (ls.map (·.addr)) hnd
  refine ⟨deps, order, hd, hk, by simpa using hperm, ?_⟩
  intro ia ib a b ha hb hlt
  exact hord ia ib (edges_cover_dependencies app hwf hcov hrank ls hnd hok deps hd ia ib a b ha hb hlt)

end Rtosc.Save
