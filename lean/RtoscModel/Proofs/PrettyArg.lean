/-
  C10 — tier 3 (partial): arguments that occupy several cells (arrays of scalars).

  `ArgOK t cs` generalises `TokOK`: scanner and checker read the text `t` back as the cells `cs`
  of ONE argument (a scalar, or an array header followed by its scalar elements).
  `PrintsArg opt cs` generalises `PrintsTok`: the printer appends such a text; an array may turn
  the separator in front of it into a line break (it "computes its newlines itself").
  Then the list-level theorems of PrettyList / PrettyMsg are generalised to lists of arguments
  (`list_roundtrip_args`, `message_roundtrip_args`).
-/
import RtoscModel.Proofs.PrettyMsg
namespace Rtosc.Pretty
open Rtosc Rtosc.Libc
open Rtosc.ArgVal (Cell)

/-- the cells of one argument: a scalar, or an array header followed by its scalar elements -/
inductive ArgCells : List Cell → Prop
  | scalar (c : Cell) : c.isScalar = true → ArgCells [c]
  | array (ety : UInt8) (es : List Cell) : (∀ e ∈ es, e.isScalar = true) →
      ArgCells (Cell.arr ety es.length :: es)

/-- scanner and checker read the text `t` back as the cells `cs` of one argument (nesting needs
    one more unit of fuel than a scalar: `fuel + 2`) -/
structure ArgOK (t : Bytes) (cs : List Cell) : Prop where
  start : TokStart t
  cells : ArgCells cs
  scan : ∀ (rest : Bytes) (fuel : Nat) (prev : List Cell) (ab : Nat), Sep rest →
    scanArgVal (fuel + 2) (t ++ rest) prev ab true = .ok (t.length, cs)
  skip : ∀ (rest : Bytes) (fuel : Nat) (ty : UInt8) (llhs : Option Bytes) (ib : Bool), Sep rest →
    ∃ r, skipNextPrintedArg (fuel + 2) (t ++ rest) ty llhs true ib = .ok r ∧
      r.src = some rest ∧ r.skipped = cs.length ∧ r.type = (cs.headD (Cell.flag .N)).type

/-- the printer appends a good text `t` for the argument `cs` and returns the number of characters
    added.  The state: nothing written on this line yet, or a separator blank was written last.
    An argument that "computes its newlines itself" (`breaksItself`: arrays) may have turned that
    blank into a line break: then `pre` is the output in front of the argument text. -/
def PrintsArg (opt : POpt) (cs : List Cell) : Prop :=
  ∀ (fuel : Nat) (more : List Cell) (prev : Option Cell) (st : PSt),
    (st.cols = 0 ∨ ∃ base, st.out = base ++ [32]) →
    ∃ (pre t : Bytes) (cols' : Int),
      printArgVal (fuel + 2) opt (cs ++ more) prev st =
        .ok (⟨pre ++ t, cols'⟩, t.length + (pre.length - st.out.length)) ∧
      (pre = st.out ∨
        (breaksItself (cs.headD (Cell.flag .N)) = true ∧ ∃ base, st.out = base ++ [32] ∧ pre = base ++ nl4)) ∧
      ArgOK t cs

/-! ### scalars are arguments -/

theorem ArgCells.ne_nil {cs : List Cell} (h : ArgCells cs) : cs ≠ [] := by
  cases h <;> simp

theorem ArgCells.length_pos {cs : List Cell} (h : ArgCells cs) : 0 < cs.length :=
  List.length_pos_iff.mpr h.ne_nil

theorem argOK_of_tokOK {t : Bytes} {c : Cell} (h : TokOK t c) (hsc : c.isScalar = true) : ArgOK t [c] := by
  refine ⟨h.start, ArgCells.scalar c hsc, ?_, ?_⟩
  · intro rest fuel prev ab hs
    exact h.scan rest (fuel + 1) prev ab hs
  · intro rest fuel ty llhs ib hs
    obtain ⟨r, h1, h2, h3, h4⟩ := h.skip rest (fuel + 1) ty llhs ib hs
    exact ⟨r, h1, h2, by simpa using h3, by simpa using h4⟩

theorem printsArg_of_printsTok {opt : POpt} {c : Cell} (h : PrintsTok opt c) (hsc : c.isScalar = true) :
    PrintsArg opt [c] := by
  intro fuel more prev st _
  obtain ⟨t, cols', hp, htok⟩ := h (fuel + 1) more prev st
  refine ⟨st.out, t, cols', ?_, Or.inl rfl, argOK_of_tokOK htok hsc⟩
  simpa using hp

/-- `next_arg_offset` at the start of an argument: the number of its cells -/
theorem nextArgOffset_argCells (fuel : Nat) {cs : List Cell} (more : List Cell) (h : ArgCells cs) :
    nextArgOffset (fuel + 1) (cs ++ more) = .ok cs.length := by
  cases h with
  | scalar c hsc => simpa using nextArgOffset_scalar fuel c more hsc
  | array ety es _ =>
    unfold nextArgOffset
    have : ¬ ((es.length : Int) < 0) := by omega
    simp [deref, bind, Except.bind, pure, Except.pure, this]

/-! ### texts of several arguments -/

/-- `text` consists of good texts for the arguments `css`, separated by a blank or a line break -/
inductive ArgsText : List (List Cell) → Bytes → Prop
  | nil : ArgsText [] []
  | one (t : Bytes) (cs : List Cell) : ArgOK t cs → ArgsText [cs] t
  | cons (t : Bytes) (cs : List Cell) (sep : Bytes) (css : List (List Cell)) (text : Bytes) :
      ArgOK t cs → IsSepTxt sep → css ≠ [] → ArgsText css text →
      ArgsText (cs :: css) (t ++ (sep ++ text))

theorem ArgsText.start {css : List (List Cell)} {text : Bytes} (h : ArgsText css text) (hne : css ≠ []) :
    TokStart text := by
  cases h with
  | nil => exact absurd rfl hne
  | one t cs ht => exact ht.start
  | cons t cs sep css text ht _ _ _ =>
    obtain ⟨h0, h1⟩ := ht.start
    refine ⟨by simp [h0], ?_⟩
    rw [hd_append_of_ne_nil _ _ h0]; exact h1

theorem ArgsText.length_le {css : List (List Cell)} {text : Bytes} (h : ArgsText css text) :
    css.length ≤ text.length := by
  induction h with
  | nil => simp
  | one t cs ht => have := List.length_pos_iff.mpr ht.start.1; simp only [List.length_singleton]; omega
  | cons t cs sep css text ht _ _ _ ih =>
    have := List.length_pos_iff.mpr ht.start.1
    simp only [List.length_cons, List.length_append]; omega

theorem ArgsText.length_le_flatten {css : List (List Cell)} {text : Bytes} (h : ArgsText css text) :
    css.length ≤ css.flatten.length := by
  induction h with
  | nil => simp
  | one t cs ht => have := ht.cells.length_pos; simp; omega
  | cons t cs sep css text ht _ _ _ ih =>
    have := ht.cells.length_pos
    simp only [List.length_cons, List.flatten_cons, List.length_append]; omega

/-- `can_precede_range` is defined on the cells of an argument (false for an array) -/
theorem canPrecedeRange_argCells {cs : List Cell} (h : ArgCells cs) : ∃ b, canPrecedeRange cs = .ok b := by
  cases h with
  | scalar c hsc => exact ⟨true, canPrecedeRange_scalar c [] hsc⟩
  | array ety es _ => exact ⟨false, by simp [canPrecedeRange, deref, bind, Except.bind, pure, Except.pure]⟩

/-- the scanner's loop reads a text of arguments back as their cells -/
theorem scanLoop_argsText {css : List (List Cell)} {text : Bytes} (h : ArgsText css text) :
    ∀ (fuel n i : Nat) (pok : Bool) (done : List Cell) (rd : Nat), n = i + css.flatten.length → css.length + 1 ≤ fuel →
      scanArgValsLoop fuel text n i pok done rd = .ok (rd + text.length, done ++ css.flatten) := by
  induction h with
  | nil =>
    intro fuel n i pok done rd hn hf
    cases fuel with
    | zero => omega
    | succ f =>
      simp at hn
      simp [scanArgValsLoop, hn, pure, Except.pure]
  | one t cs ht =>
    intro fuel n i pok done rd hn hf
    cases fuel with
    | zero => omega
    | succ f =>
      cases f with
      | zero => simp at hf
      | succ g =>
        have hscan := ht.scan [] t.length done.reverse (if pok then i else 0) sep_nil
        obtain ⟨b, hcpr⟩ := canPrecedeRange_argCells ht.cells
        simp only [List.append_nil] at hscan
        have hpos := ht.cells.length_pos
        simp only [List.flatten_cons, List.flatten_nil, List.append_nil] at hn ⊢
        unfold scanArgValsLoop
        have hlt : i < n := by omega
        have hnao := nextArgOffset_argCells cs.length [] ht.cells
        simp only [List.append_nil] at hnao
        simp only [hlt, ↓reduceIte, hscan, bind, Except.bind, advance, Nat.le_refl, List.drop_length,
          hnao, ne_eq, not_true_eq_false, List.length_nil,
          skipSpaceComments_nil, List.drop_zero, hcpr]
        unfold scanArgValsLoop
        have : ¬ (i + cs.length < n) := by omega
        simp [this, pure, Except.pure]
  | cons t cs sep css text ht hsep hne hrest ih =>
    intro fuel n i pok done rd hn hf
    cases fuel with
    | zero => omega
    | succ f =>
      have hstart := hrest.start hne
      have hS := sep_of_next sep text hsep hstart
      have hscan := ht.scan (sep ++ text) (t ++ (sep ++ text)).length done.reverse (if pok then i else 0) hS
      obtain ⟨b, hcpr⟩ := canPrecedeRange_argCells ht.cells
      have hpos := ht.cells.length_pos
      simp only [List.length_cons, List.flatten_cons, List.length_append] at hn hf
      unfold scanArgValsLoop
      have hlt : i < n := by omega
      have hadv : advance (t ++ (sep ++ text)) t.length = .ok (sep ++ text) := by
        simp [advance]
      have hnao := nextArgOffset_argCells cs.length [] ht.cells
      simp only [List.append_nil] at hnao
      simp only [hlt, ↓reduceIte, hscan, bind, Except.bind, hadv, hnao, ne_eq, not_true_eq_false, hcpr]
      rw [skipSpaceComments_sep _ sep text hsep hstart]
      simp only [List.drop_left]
      rw [ih f n (i + cs.length) b (done ++ cs) (rd + t.length + sep.length) (by omega) (by omega)]
      simp only [List.length_append, List.append_assoc, List.flatten_cons]
      congr 2
      omega

/-- `rtosc_scan_arg_vals` reads a text of arguments back as their cells -/
theorem scanArgVals_argsText {css : List (List Cell)} {text : Bytes} (h : ArgsText css text) :
    scanArgVals text css.flatten.length = .ok (text.length, css.flatten) := by
  unfold scanArgVals
  have hsk : skipSpaceComments (text.length + 1) text = .ok 0 := by
    by_cases hne : css = []
    · subst hne; cases h; exact skipSpaceComments_nil _
    · exact skipSpaceComments_tokStart _ text (h.start hne)
  have := scanLoop_argsText h (css.flatten.length + 1) css.flatten.length 0 true [] 0 (by simp)
    (by have := h.length_le_flatten; omega)
  simpa [hsk, bind, Except.bind] using this

/-- the checker's loop counts the cells of a text of arguments -/
theorem countLoop_argsText {css : List (List Cell)} {text : Bytes} (h : ArgsText css text) :
    ∀ (fuel : Nat) (recent : Option Bytes) (num : Int), css.length + 1 ≤ fuel →
      countLoop fuel (some text) recent num = .ok (num + css.flatten.length) := by
  induction h with
  | nil =>
    intro fuel recent num hf
    cases fuel with
    | zero => omega
    | succ f => simp [countLoop]
  | one t cs ht =>
    intro fuel recent num hf
    cases fuel with
    | zero => omega
    | succ f =>
      cases f with
      | zero => simp at hf
      | succ g =>
        obtain ⟨hne, _, h0, _, _, _, h47, _⟩ := ht.start
        obtain ⟨r, hr, hsrc, hsk, _⟩ := ht.skip [] t.length 0 recent false sep_nil
        simp only [List.append_nil] at hr
        have hr := skipNextPrintedArg_checkFuel hr
        unfold countLoop
        simp only [h0, h47, ne_eq, not_false_eq_true, and_self, ↓reduceIte, hr, bind, Except.bind, hsrc, hsk,
          skipSpace, hd_nil, not_true_eq_false, pure, Except.pure, List.length_nil]
        have hpos : 0 < t.length := List.length_pos_iff.mpr hne
        have : ¬ (0 ≥ t.length) := by omega
        simp only [ge_iff_le, this, ↓reduceIte]
        simp [countLoop]
  | cons t cs sep css text ht hsep hne hrest ih =>
    intro fuel recent num hf
    cases fuel with
    | zero => omega
    | succ f =>
      have hstart := hrest.start hne
      have hS := sep_of_next sep text hsep hstart
      obtain ⟨hne', _, h0, _, _, _, h47, _⟩ := ht.start
      obtain ⟨r, hr, hsrc, hsk, _⟩ := ht.skip (sep ++ text) (t ++ (sep ++ text)).length 0 recent false hS
      have hr := skipNextPrintedArg_checkFuel hr
      have hhd : hd (t ++ (sep ++ text)) = hd t := hd_append_of_ne_nil _ _ hne'
      have h0' : hd text ≠ 0 := hstart.2.2.1
      have h37 : hd text ≠ 37 := hstart.2.2.2.2.2.1
      simp only [List.length_cons] at hf
      unfold countLoop
      simp only [hhd, h0, h47, ne_eq, not_false_eq_true, and_self, ↓reduceIte, hr, bind, Except.bind, hsrc, hsk,
        skipSpace_sep sep text hsep hstart, h0', skipCommentLines_none _ text h37, pure, Except.pure]
      have hpos : 0 < t.length := List.length_pos_iff.mpr hne'
      have : ¬ (text.length ≥ (t ++ (sep ++ text)).length) := by
        simp only [List.length_append]; omega
      simp only [ge_iff_le, this, ↓reduceIte]
      rw [ih f (some (t ++ (sep ++ text))) (num + cs.length) (by omega)]
      simp only [List.flatten_cons, List.length_append]
      congr 1
      omega

theorem countPrintedArgVals_argsText {css : List (List Cell)} {text : Bytes} (h : ArgsText css text) :
    countPrintedArgVals text = .ok (css.flatten.length : Int) := by
  unfold countPrintedArgVals
  by_cases hne : css = []
  · subst hne
    cases h
    simp [skipSpace, skipCommentLines, countLoop, bind, Except.bind]
  · have hstart := h.start hne
    have h37 : hd text ≠ 37 := hstart.2.2.2.2.2.1
    simp only [skipSpace_tokStart text hstart, skipCommentLines_none _ text h37, bind, Except.bind]
    rw [countLoop_argsText h _ none 0 (by have := h.length_le; omega)]
    simp


/-! ### the printer's loop -/

theorem argCells_of_printsArg {opt : POpt} {cs : List Cell} (h : PrintsArg opt cs) : ArgCells cs := by
  obtain ⟨_, _, _, _, _, hok⟩ := h 0 [] none ⟨[], 0⟩ (Or.inl rfl)
  exact hok.cells

/-- one iteration of the printer's loop for an argument that is not turned into a range -/
theorem printLoop_step_arg (opt : POpt) (args : List Cell) (cs more : List Cell) (i f : Nat) (st : PSt)
    (wrt : Nat) (lastSep : Int) (awl : Nat)
    (hi : args.drop i = cs ++ more) (hcells : ArgCells cs)
    (pre t : Bytes) (cols' : Int)
    (hprint : printArgVal ((cs ++ more).length + 1 + 2) opt (cs ++ more)
      (if i = 0 then none else (args.drop (i - 1)).head?) st =
        .ok (⟨pre ++ t, cols'⟩, t.length + (pre.length - st.out.length)))
    (hpre : pre = st.out ∨
      (breaksItself (cs.headD (Cell.flag .N)) = true ∧ ∃ base, st.out = base ++ [32] ∧ pre = base ++ nl4))
    (hconv : convertToRange opt (cs ++ more) (args.length - i) = .ok none)
    (hinv : awl = 0 ∨ ∃ base, st.out = base ++ [32] ∧ lastSep = (base.length : Int)) :
    ∃ (pre1 : Bytes) (cols1 : Int) (awl1 : Nat),
      (pre1 = st.out ∨ ∃ base, st.out = base ++ [32] ∧ pre1 = base ++ nl4) ∧
      printArgValsLoop (f + 1) opt args args.length i st wrt lastSep awl =
        (if i + cs.length < args.length then
          printArgValsLoop f opt args args.length (i + cs.length) ⟨pre1 ++ t ++ [32], cols1 + 1⟩
            (wrt + t.length + (pre1.length - st.out.length) + 1) ((pre1 ++ t).length : Int) awl1
         else printArgValsLoop f opt args args.length (i + cs.length) ⟨pre1 ++ t, cols1⟩
            (wrt + t.length + (pre1.length - st.out.length)) lastSep awl1) := by
  obtain ⟨c, cs', rfl⟩ := List.exists_cons_of_ne_nil hcells.ne_nil
  have hlt : i < args.length := (drop_eq_cons_lt args i c (cs' ++ more) (by simpa using hi)).1
  simp only [List.headD_cons] at hpre
  have hlb : ∃ pre1 cols1 awl1, (if !breaksItself c
        then linebreakCheck ⟨pre ++ t, cols'⟩ (wrt + (t.length + (pre.length - st.out.length))) lastSep
          (t.length + (pre.length - st.out.length)) awl opt.linelength
        else (pure (⟨pre ++ t, cols'⟩, wrt + (t.length + (pre.length - st.out.length)), awl) : Res (PSt × Nat × Nat))) =
        .ok (⟨pre1 ++ t, cols1⟩, wrt + t.length + (pre1.length - st.out.length), awl1) ∧
      (pre1 = st.out ∨ ∃ base, st.out = base ++ [32] ∧ pre1 = base ++ nl4) := by
    by_cases hb : breaksItself c = true
    · refine ⟨pre, cols', awl, ?_, ?_⟩
      · simp only [hb, Bool.not_true, Bool.false_eq_true, ↓reduceIte, pure, Except.pure]
        congr 3
        omega
      · rcases hpre with h | ⟨_, h⟩
        · exact Or.inl h
        · exact Or.inr h
    · have hpre' : pre = st.out := by
        rcases hpre with h | ⟨h, _⟩
        · exact h
        · exact absurd h hb
      subst hpre'
      obtain ⟨pre1, cols1, awl1, h1, _, h3⟩ :=
        linebreakCheck_tok st.out t cols' (wrt + t.length) lastSep awl opt.linelength hinv
      refine ⟨pre1, cols1, awl1, ?_, h3⟩
      simp only [hb, Bool.not_false, ↓reduceIte, Nat.sub_self, Nat.add_zero]
      exact h1
  obtain ⟨pre1, cols1, awl1, hlb, hpre1⟩ := hlb
  refine ⟨pre1, cols1, awl1, hpre1, ?_⟩
  simp only [List.cons_append] at hprint hconv hi
  rw [printArgValsLoop]
  simp only [hlt, ↓reduceIte, hi, deref, hconv, bind, Except.bind]
  rw [show (c :: (cs' ++ more)).length + 3 = ((c :: (cs' ++ more)).length + 1) + 2 from rfl, hprint]
  have hnao := nextArgOffset_argCells (c :: (cs' ++ more)).length more hcells
  simp only [List.cons_append] at hnao
  simp only [hnao]
  cases hb : (!breaksItself c)
  · rw [hb] at hlb
    simp only [Bool.false_eq_true, ↓reduceIte] at hlb ⊢
    rw [hlb]
  · rw [hb] at hlb
    simp only [↓reduceIte] at hlb ⊢
    rw [hlb]


/-- the printer's loop over arguments that are not turned into ranges -/
theorem printLoop_spec_args (opt : POpt) (argss : List (List Cell))
    (hP : ∀ cs ∈ argss, PrintsArg opt cs)
    (hconv : ∀ done cs rem, argss = done ++ cs :: rem →
      convertToRange opt (cs :: rem).flatten (cs :: rem).flatten.length = .ok none) :
    ∀ (rem done : List (List Cell)), argss = done ++ rem →
      ∀ (fuel : Nat) (st : PSt) (wrt : Nat) (lastSep : Int) (awl : Nat), rem.length + 1 ≤ fuel →
        ((st.cols = 0 ∧ awl = 0) ∨ ∃ base, st.out = base ++ [32] ∧ lastSep = (base.length : Int)) →
        ∃ (st' : PSt) (pre body : Bytes),
          printArgValsLoop fuel opt argss.flatten argss.flatten.length done.flatten.length st wrt lastSep awl =
            .ok (st', wrt + ((pre ++ body).length - st.out.length)) ∧
          st'.out = pre ++ body ∧ ArgsText rem body ∧
          (pre = st.out ∨ ∃ base, st.out = base ++ [32] ∧ pre = base ++ nl4) := by
  intro rem
  induction rem with
  | nil =>
    intro done heq fuel st wrt lastSep awl hf _
    cases fuel with
    | zero => omega
    | succ f =>
      refine ⟨st, st.out, [], ?_, by simp, ArgsText.nil, Or.inl rfl⟩
      unfold printArgValsLoop
      have : ¬ (done.flatten.length < argss.flatten.length) := by
        rw [heq]; simp
      simp only [this, ↓reduceIte, pure, Except.pure]
      simp
  | cons cs rem' ih =>
    intro done heq fuel st wrt lastSep awl hf hinv
    have hpa : PrintsArg opt cs := hP cs (by rw [heq]; simp)
    have hcells := argCells_of_printsArg hpa
    have hflat : argss.flatten = done.flatten ++ (cs ++ rem'.flatten) := by
      rw [heq]; simp
    have hdrop : argss.flatten.drop done.flatten.length = cs ++ rem'.flatten := by
      rw [hflat]; exact List.drop_left
    have hlen : argss.flatten.length = done.flatten.length + (cs.length + rem'.flatten.length) := by
      rw [hflat]; simp
    cases fuel with
    | zero => omega
    | succ f =>
      have hst : st.cols = 0 ∨ ∃ base, st.out = base ++ [32] := by
        rcases hinv with ⟨h, _⟩ | ⟨base, h, _⟩
        · exact Or.inl h
        · exact Or.inr ⟨base, h⟩
      have hinv' : awl = 0 ∨ ∃ base, st.out = base ++ [32] ∧ lastSep = (base.length : Int) := by
        rcases hinv with ⟨_, h⟩ | h
        · exact Or.inl h
        · exact Or.inr h
      obtain ⟨pre, t, cols', hprint, hpre, hok⟩ := hpa ((cs ++ rem'.flatten).length + 1) rem'.flatten
        (if done.flatten.length = 0 then none else (argss.flatten.drop (done.flatten.length - 1)).head?) st hst
      have hc : convertToRange opt (cs ++ rem'.flatten) (argss.flatten.length - done.flatten.length) = .ok none := by
        have := hconv done cs rem' heq
        simp only [List.flatten_cons, List.length_append] at this
        rw [hlen, Nat.add_sub_cancel_left]
        exact this
      obtain ⟨pre1, cols1, awl1, hpre1, hstep⟩ :=
        printLoop_step_arg opt argss.flatten cs rem'.flatten done.flatten.length f st wrt lastSep awl hdrop hcells
          pre t cols' hprint hpre hc hinv'
      have hpre1len : st.out.length ≤ pre1.length := by
        rcases hpre1 with h | ⟨base, h1, h2⟩
        · rw [h]; exact Nat.le_refl _
        · rw [h1, h2]; simp [nl4]
      have hidx : done.flatten.length + cs.length = (done ++ [cs]).flatten.length := by simp
      have heq' : argss = (done ++ [cs]) ++ rem' := by rw [heq]; simp
      rw [hstep, hidx]
      by_cases hmore : rem' = []
      · -- last argument
        subst hmore
        have hnot : ¬ ((done ++ [cs]).flatten.length < argss.flatten.length) := by
          rw [hlen, ← hidx]; simp
        simp only [hnot, ↓reduceIte]
        cases f with
        | zero => simp at hf
        | succ g =>
          refine ⟨⟨pre1 ++ t, cols1⟩, pre1, t, ?_, rfl, ArgsText.one t cs hok, hpre1⟩
          unfold printArgValsLoop
          simp only [hnot, ↓reduceIte, pure, Except.pure, List.length_append]
          congr 2
          omega
      · have hlt2 : (done ++ [cs]).flatten.length < argss.flatten.length := by
          obtain ⟨cs2, rem2, rfl⟩ := List.exists_cons_of_ne_nil hmore
          have h2 : PrintsArg opt cs2 := hP cs2 (by rw [heq]; simp)
          have := (argCells_of_printsArg h2).length_pos
          rw [hlen, ← hidx]
          simp only [List.flatten_cons, List.length_append]
          omega
        simp only [hlt2, ↓reduceIte]
        obtain ⟨st', pre', body', hrun, hout, htt, hpre'⟩ :=
          ih (done ++ [cs]) heq' f ⟨pre1 ++ t ++ [32], cols1 + 1⟩ (wrt + t.length + (pre1.length - st.out.length) + 1)
            ((pre1 ++ t).length : Int) awl1 (by simp only [List.length_cons] at hf; omega)
            (Or.inr ⟨pre1 ++ t, rfl, rfl⟩)
        rw [hrun]
        -- the separator in front of the next argument
        rcases hpre' with hp | ⟨base, hb1, hb2⟩
        · refine ⟨st', pre1, t ++ ([32] ++ body'), ?_, ?_, ArgsText.cons t cs [32] rem' body' hok (Or.inl rfl) hmore htt, hpre1⟩
          · congr 2
            simp only [hp, List.length_append, List.length_cons, List.length_nil]
            omega
          · rw [hout, hp]; simp
        · have hbase : base = pre1 ++ t := by
            have := List.append_inj_left' hb1 rfl
            exact this.symm
          refine ⟨st', pre1, t ++ (nl4 ++ body'), ?_, ?_, ArgsText.cons t cs nl4 rem' body' hok (Or.inr rfl) hmore htt, hpre1⟩
          · congr 2
            simp only [hb2, hbase, nl4, List.length_append, List.length_cons, List.length_nil]
            omega
          · rw [hout, hb2, hbase]; simp


theorem length_le_flatten_of_printsArg (opt : POpt) (argss : List (List Cell))
    (hP : ∀ cs ∈ argss, PrintsArg opt cs) : argss.length ≤ argss.flatten.length := by
  induction argss with
  | nil => simp
  | cons cs css ih =>
    have := (argCells_of_printsArg (hP cs (by simp))).length_pos
    have := ih (fun x hx => hP x (by simp [hx]))
    simp only [List.length_cons, List.flatten_cons, List.length_append]; omega

/-- **Tier 3 (partial), argument lists.**  For arguments (scalars, arrays of scalars) whose texts
    are good and which the printer does not turn into ranges: the printer returns the length of the
    text it wrote, the checker counts exactly the cells, the scanner consumes the whole text and
    returns the cells. -/
theorem list_roundtrip_args (opt : POpt) (argss : List (List Cell))
    (hP : ∀ cs ∈ argss, PrintsArg opt cs)
    (hconv : ∀ done cs rem, argss = done ++ cs :: rem →
      convertToRange opt (cs :: rem).flatten (cs :: rem).flatten.length = .ok none) :
    ∃ (st : PSt) (ret : Nat),
      printArgVals opt argss.flatten ⟨[], 0⟩ = .ok (st, ret) ∧ ret = st.out.length ∧
      countPrintedArgVals st.out = .ok (argss.flatten.length : Int) ∧
      scanArgVals st.out argss.flatten.length = .ok (st.out.length, argss.flatten) := by
  have hle := length_le_flatten_of_printsArg opt argss hP
  obtain ⟨st', pre, body, hrun, hout, htt, hpre⟩ :=
    printLoop_spec_args opt argss hP hconv argss [] (by simp) (argss.flatten.length + 1) ⟨[], 0⟩ 0 (-1) 0
      (by omega) (Or.inl ⟨rfl, rfl⟩)
  have hpre0 : pre = [] := by
    rcases hpre with h | ⟨base, h1, _⟩
    · exact h
    · simp at h1
  subst hpre0
  simp only [List.nil_append, List.length_nil, Nat.sub_zero, Nat.zero_add, List.flatten_nil] at hrun hout
  refine ⟨st', body.length, ?_, by rw [hout], ?_, ?_⟩
  · unfold printArgVals
    simpa using hrun
  · rw [hout]; exact countPrintedArgVals_argsText htt
  · rw [hout]
    exact scanArgVals_argsText htt

/-- **Tier 3 (partial), whole messages.** -/
theorem message_roundtrip_args (opt : POpt) (addr : Bytes) (argss : List (List Cell)) (adrsize : Nat)
    (ha : AddrOK addr) (hal : addr.length < adrsize)
    (hP : ∀ cs ∈ argss, PrintsArg opt cs)
    (hconv : ∀ done cs rem, argss = done ++ cs :: rem →
      convertToRange opt (cs :: rem).flatten (cs :: rem).flatten.length = .ok none) :
    ∃ (st : PSt) (ret : Nat),
      printMessage opt addr argss.flatten 0 = .ok (st, ret) ∧ ret = st.out.length ∧
      countPrintedArgValsOfMsg st.out = .ok (argss.flatten.length : Int) ∧
      scanMessage st.out adrsize argss.flatten.length = .ok (st.out.length, addr, argss.flatten) := by
  obtain ⟨ha47, hasp⟩ := ha
  have hle := length_le_flatten_of_printsArg opt argss hP
  have hane : addr ≠ [] := by intro h; rw [h] at ha47; simp at ha47
  obtain ⟨st', pre, body, hrun, hout, htt, hpre⟩ :=
    printLoop_spec_args opt argss hP hconv argss [] (by simp) (argss.flatten.length + 1)
      ⟨addr ++ [32], 0 + ((addr ++ [32]).length : Nat)⟩ 0
      (((addr ++ [32]).length : Int) - 1) (if (0 + ((addr ++ [32]).length : Nat) : Int) ≠ 0 then 1 else 0) (by omega)
      (Or.inr ⟨addr, rfl, by simp⟩)
  simp only [List.flatten_nil, List.length_nil] at hrun
  -- the separator behind the address
  obtain ⟨sep, hsep, hpre'⟩ : ∃ sep, IsSepTxt sep ∧ pre = addr ++ sep := by
    rcases hpre with h | ⟨base, h1, h2⟩
    · exact ⟨[32], Or.inl rfl, h⟩
    · have : base = addr := (List.append_inj_left' h1 rfl).symm
      exact ⟨nl4, Or.inr rfl, by rw [h2, this]⟩
  have hsepsp : isspace (hd sep) = true := by rcases hsep with rfl | rfl <;> rfl
  have hsepne : sep ≠ [] := by rcases hsep with rfl | rfl <;> simp
  have htext : st'.out = addr ++ (sep ++ body) := by rw [hout, hpre', List.append_assoc]
  have hrest : sep ++ body = [] ∨ isspace (hd (sep ++ body)) = true := by
    right; rw [hd_append_of_ne_nil _ _ hsepne]; exact hsepsp
  have hskip : skipSpace (sep ++ body) = body := by
    by_cases hne : argss = []
    · subst hne; cases htt
      rcases hsep with rfl | rfl <;> rfl
    · exact skipSpace_sep sep body hsep (htt.start hne)
  have hlen : st'.out.length = addr.length + sep.length + body.length := by
    rw [htext]; simp only [List.length_append]; omega
  have haddr_sp : skipSpace (addr ++ (sep ++ body)) = addr ++ (sep ++ body) := by
    cases addr with
    | nil => exact absurd rfl hane
    | cons c r => simp [skipSpace, hasp c (by simp)]
  have hhd : hd (addr ++ (sep ++ body)) = 47 := by rw [hd_append_of_ne_nil _ _ hane]; exact ha47
  refine ⟨st', (addr ++ [32]).length + (0 + ((pre ++ body).length - (addr ++ [32]).length)), ?_, ?_, ?_, ?_⟩
  · unfold printMessage printArgVals
    simp only [bind, Except.bind, hrun, pure, Except.pure]
  · rw [hout]
    have : (addr ++ [32]).length ≤ (pre ++ body).length := by
      rw [hpre']; simp only [List.length_append, List.length_singleton]
      have := List.length_pos_iff.mpr hsepne
      omega
    omega
  · rw [htext]
    unfold countPrintedArgValsOfMsg
    simp only [haddr_sp, bind, Except.bind, skipCommentLines_none _ _ (by rw [hhd]; decide), hhd, ↓reduceIte,
      dropWhile_notspace addr (sep ++ body) hasp hrest]
    -- countPrintedArgVals (sep ++ body)
    unfold countPrintedArgVals
    rw [hskip]
    by_cases hne : argss = []
    · subst hne; cases htt
      simp [skipCommentLines, countLoop, bind, Except.bind]
    · have hstart := htt.start hne
      have h37 : hd body ≠ 37 := hstart.2.2.2.2.2.1
      simp only [skipCommentLines_none _ body h37, bind, Except.bind]
      rw [countLoop_argsText htt _ none 0 (by have := htt.length_le; omega)]
      simp
  · rw [htext]
    unfold scanMessage
    simp only [haddr_sp, Nat.sub_self, hhd, show (47 : UInt8) ≠ 37 from by decide, ↓reduceIte, pure, Except.pure,
      bind, Except.bind, List.drop_zero, Nat.add_zero, Nat.sub_zero,
      takeWhile_notspace addr (sep ++ body) hasp hrest]
    have htake : addr.take adrsize = addr := List.take_of_length_le (by omega)
    simp only [htake, List.drop_left, hskip]
    have := scanArgVals_argsText htt
    simp only [this, Nat.zero_add]
    congr 2
    simp only [List.length_append]
    omega

/-- without compression the printer makes no range -/
theorem noConversion_args_nocompress (opt : POpt) (h : opt.compress = false) (argss : List (List Cell))
    (hne : ∀ cs ∈ argss, cs ≠ []) :
    ∀ done cs rem, argss = done ++ cs :: rem →
      convertToRange opt (cs :: rem).flatten (cs :: rem).flatten.length = .ok none := by
  intro done cs rem heq
  obtain ⟨c, cs', rfl⟩ := List.exists_cons_of_ne_nil (hne cs (by rw [heq]; simp))
  simp only [List.flatten_cons, List.cons_append]
  exact convertToRange_nocompress opt h c _ _

/-- fewer than five cells: the printer makes no range -/
theorem noConversion_args_small (opt : POpt) (argss : List (List Cell)) (h : argss.flatten.length < 5) :
    ∀ done cs rem, argss = done ++ cs :: rem →
      convertToRange opt (cs :: rem).flatten (cs :: rem).flatten.length = .ok none := by
  intro done cs rem heq
  apply convertToRange_small
  rw [heq] at h
  simp only [List.flatten_append, List.length_append] at h
  omega

end Rtosc.Pretty
