/-
  C11 — white space and comments between values: what the two hand-written skipping loops of
  src/cpp/pretty-format.c do on a `Layout` of the specification.

  * the checker (`rtosc_count_printed_arg_vals`): `skip_while(isspace)`, then
    `while(*src == '%') skip_fmt("%*[^\n] %n")`        → `skipCommentLines ∘ skipSpace`
  * the scanner (`rtosc_scan_arg_vals`): `do { skip " "; while('%') skip "%*[^\n]" } while(isspace)`
                                                         → `skipSpaceComments`
  Both skip exactly `gapsBytes g` in front of anything that starts a value or ends the text.
-/
import RtoscModel.Pretty.C11Spec
import RtoscModel.Proofs.PrettyList
namespace Rtosc.Pretty.C11
open Rtosc Rtosc.Libc Rtosc.Pretty
open Rtosc.ArgVal (Cell)

/-- what can follow a run of gaps: the end of the text, or a character that is neither white
    space nor the comment sign -/
def Stop (body : Bytes) : Prop := body = [] ∨ (isspace (hd body) = false ∧ hd body ≠ 37)

theorem Stop.of_tokStart {t : Bytes} (h : TokStart t) (rest : Bytes) : Stop (t ++ rest) := by
  obtain ⟨hne, hsp, _, _, _, h37, _⟩ := h
  right
  rw [hd_append_of_ne_nil _ _ hne]
  exact ⟨hsp, h37⟩

theorem stop_nil : Stop [] := Or.inl rfl

theorem skipSpace_stop (body : Bytes) (h : Stop body) : skipSpace body = body := by
  rcases h with rfl | ⟨h, _⟩
  · rfl
  · cases body with
    | nil => rfl
    | cons c r => simp only [hd_cons] at h; simp [skipSpace, h]

theorem isspace_ws (w : Ws) : isspace w.byte = true := by cases w <;> decide

theorem ws_ne (w : Ws) : w.byte ≠ 37 ∧ w.byte ≠ 0 := by cases w <;> decide

/-! ### comment lines -/

theorem commentBody_no_nl (b : Bytes) : ∀ c ∈ commentBody b, c ≠ 10 ∧ c ≠ 0 := by
  intro c hc
  simp [commentBody] at hc
  exact hc.2

theorem takeNotNl_line (x r : Bytes) (hx : ∀ c ∈ x, c ≠ 10) :
    takeNotNl (x ++ 10 :: r) = (x, 10 :: r) := by
  induction x with
  | nil => simp [takeNotNl]
  | cons c t ih =>
    have hc : c ≠ 10 := hx c (by simp)
    have := ih (fun y hy => hx y (by simp [hy]))
    simp [takeNotNl, hc, this]

theorem takeNotNl_end (x : Bytes) (hx : ∀ c ∈ x, c ≠ 10) : takeNotNl x = (x, []) := by
  induction x with
  | nil => simp [takeNotNl]
  | cons c t ih =>
    have hc : c ≠ 10 := hx c (by simp)
    have := ih (fun y hy => hx y (by simp [hy]))
    simp [takeNotNl, hc, this]

theorem skipSpace_length_le (r : Bytes) : (skipSpace r).length ≤ r.length := by
  induction r with
  | nil => simp [skipSpace]
  | cons c t ih => simp only [skipSpace]; split <;> simp <;> omega

theorem takeNotNl_comment_line (x r : Bytes) (hx : ∀ c ∈ x, c ≠ 10) :
    takeNotNl (37 :: (x ++ 10 :: r)) = (37 :: x, 10 :: r) := by
  have := takeNotNl_line (37 :: x) r (by
    intro c hc
    rcases List.mem_cons.mp hc with rfl | h
    · decide
    · exact hx c h)
  simpa using this

theorem takeNotNl_comment_end (x : Bytes) (hx : ∀ c ∈ x, c ≠ 10) :
    takeNotNl (37 :: x) = (37 :: x, []) := by
  exact takeNotNl_end (37 :: x) (by
    intro c hc
    rcases List.mem_cons.mp hc with rfl | h
    · decide
    · exact hx c h)

/-- `skip_fmt(&src, "%*[^\n] %n")` on a comment line: the line, its line break and the white
    space behind it -/
theorem skipFmt_commentSp_line (x r : Bytes) (hx : ∀ c ∈ x, c ≠ 10) :
    skipFmt fmtCommentSp (37 :: (x ++ 10 :: r)) = (37 :: (x ++ 10 :: r)).length - (skipSpace r).length := by
  have h1 := takeNotNl_comment_line x r hx
  have h2 : skipSpace (10 :: r) = skipSpace r := by simp [skipSpace, isspace]
  have hle := skipSpace_length_le r
  simp [skipFmt, scanRd, sscanf, fmtCommentSp, sscanfGo, h1, h2]
  omega

theorem skipFmt_commentSp_end (x : Bytes) (hx : ∀ c ∈ x, c ≠ 10) :
    skipFmt fmtCommentSp (37 :: x) = (37 :: x).length := by
  have h1 := takeNotNl_comment_end x hx
  simp [skipFmt, scanRd, sscanf, fmtCommentSp, sscanfGo, h1, skipSpace]

theorem drop_skipSpace (r : Bytes) : r.drop (r.length - (skipSpace r).length) = skipSpace r := by
  induction r with
  | nil => simp [skipSpace]
  | cons c t ih =>
    simp only [skipSpace]
    split
    · have := skipSpace_length_le t
      have e : (c :: t).length - (skipSpace t).length = (t.length - (skipSpace t).length) + 1 := by
        simp; omega
      rw [e, List.drop_succ_cons, ih]
    · simp

theorem drop_pre_skipSpace (pre r : Bytes) :
    (pre ++ r).drop ((pre ++ r).length - (skipSpace r).length) = skipSpace r := by
  have hle := skipSpace_length_le r
  have e : (pre ++ r).length - (skipSpace r).length = pre.length + (r.length - (skipSpace r).length) := by
    simp only [List.length_append]; omega
  rw [e, List.drop_append, List.drop_eq_nil_of_le (by omega)]
  simp only [List.nil_append, Nat.add_sub_cancel_left]
  exact drop_skipSpace r

/-! ### the checker's loop -/

/-- number of comment lines among the gaps -/
def numComments : List Gap → Nat
  | [] => 0
  | .ws _ :: g => numComments g
  | .comment _ :: g => numComments g + 1

theorem numComments_le (g : List Gap) : numComments g ≤ (gapsBytes g).length := by
  induction g with
  | nil => simp [numComments]
  | cons x g ih =>
    cases x with
    | ws w => simp [numComments, gapsBytes, Gap.bytes] at ih ⊢; omega
    | comment b => simp [numComments, gapsBytes, Gap.bytes] at ih ⊢; omega

/-- `skip_while(isspace)` and the comment loop skip a run of gaps (one turn of the loop per
    comment line) -/
theorem skipCommentLines_gaps (g : List Gap) (body : Bytes) :
    ∀ fuel, numComments g < fuel →
      skipCommentLines fuel (skipSpace (gapsBytes g ++ body)) =
        skipCommentLines (fuel - numComments g) (skipSpace body) := by
  induction g with
  | nil => intro fuel _; simp [gapsBytes, numComments]
  | cons x g ih =>
    intro fuel hf
    cases x with
    | ws w =>
      have e : gapsBytes (Gap.ws w :: g) ++ body = w.byte :: (gapsBytes g ++ body) := by
        simp [gapsBytes, Gap.bytes]
      rw [e]
      have : skipSpace (w.byte :: (gapsBytes g ++ body)) = skipSpace (gapsBytes g ++ body) := by
        simp [skipSpace, isspace_ws]
      rw [this]
      exact ih fuel (by simpa [numComments] using hf)
    | comment b =>
      obtain ⟨f, rfl⟩ : ∃ f, fuel = f + 1 := ⟨fuel - 1, by omega⟩
      have e : gapsBytes (Gap.comment b :: g) ++ body = 37 :: (commentBody b ++ 10 :: (gapsBytes g ++ body)) := by
        simp [gapsBytes, Gap.bytes]
      rw [e]
      have hsp : skipSpace (37 :: (commentBody b ++ 10 :: (gapsBytes g ++ body))) =
          37 :: (commentBody b ++ 10 :: (gapsBytes g ++ body)) := by
        simp [skipSpace, isspace]
      rw [hsp]
      have hx : ∀ c ∈ commentBody b, c ≠ 10 := fun c hc => (commentBody_no_nl b c hc).1
      have hk := skipFmt_commentSp_line (commentBody b) (gapsBytes g ++ body) hx
      have hle := skipSpace_length_le (gapsBytes g ++ body)
      conv => lhs; unfold skipCommentLines
      simp only [hd_cons, ↓reduceIte]
      rw [hk]
      have hne : ¬ ((37 :: (commentBody b ++ 10 :: (gapsBytes g ++ body))).length -
          (skipSpace (gapsBytes g ++ body)).length = 0) := by
        simp only [List.length_cons, List.length_append] at hle ⊢; omega
      simp only [hne, ↓reduceIte]
      have hdrop : (37 :: (commentBody b ++ 10 :: (gapsBytes g ++ body))).drop
          ((37 :: (commentBody b ++ 10 :: (gapsBytes g ++ body))).length -
            (skipSpace (gapsBytes g ++ body)).length) = skipSpace (gapsBytes g ++ body) := by
        have := drop_pre_skipSpace (37 :: commentBody b ++ [10]) (gapsBytes g ++ body)
        simpa using this
      rw [hdrop, ih f (by simp [numComments] at hf; omega)]
      congr 1
      simp [numComments]

theorem skipCommentLines_stop (f : Nat) (body : Bytes) (hb : Stop body) :
    skipCommentLines (f + 1) (skipSpace body) = .ok body := by
  rw [skipSpace_stop body hb]
  have h37 : hd body ≠ 37 := by
    rcases hb with rfl | ⟨_, h⟩
    · decide
    · exact h
  exact skipCommentLines_none f body h37

/-- the unterminated comment at the very end of a text -/
theorem skipCommentLines_last (b : Bytes) (fuel : Nat) :
    skipCommentLines (fuel + 2) (37 :: commentBody b) = .ok [] := by
  have hx : ∀ c ∈ commentBody b, c ≠ 10 := fun c hc => (commentBody_no_nl b c hc).1
  have hk := skipFmt_commentSp_end (commentBody b) hx
  unfold skipCommentLines
  simp only [hd_cons, ↓reduceIte, hk]
  have : ¬ ((37 :: commentBody b).length = 0) := by simp
  simp only [this, ↓reduceIte, List.drop_length]
  exact skipCommentLines_none (fuel) [] (by decide)

/-! ### the scanner's loop -/

theorem skipSpaceComments_ws (f : Nat) (w : UInt8) (r : Bytes) (hw : isspace w = true) :
    skipSpaceComments (f + 1) (w :: r) = (skipSpaceComments (f + 1) r).map (· + 1) := by
  have hle := skipSpace_length_le r
  have h1 : skipSpace (w :: r) = skipSpace r := by simp [skipSpace, hw]
  have ha : skipFmt fmtSpace (w :: r) = skipFmt fmtSpace r + 1 := by
    rw [skipFmt_space, skipFmt_space, h1]; simp; omega
  have hd1 : (w :: r).drop (skipFmt fmtSpace r + 1) = r.drop (skipFmt fmtSpace r) := by simp
  conv => lhs; unfold skipSpaceComments
  conv => rhs; unfold skipSpaceComments
  simp only [ha, hd1]
  split
  · -- a comment follows
    cases hc : skipSpaceComments.skipComments ((List.drop (skipFmt fmtSpace r) r).length + 1)
        (List.drop (skipFmt fmtSpace r) r) with
    | error e => simp [bind, Except.bind, Except.map]
    | ok b =>
      simp only [bind, Except.bind]
      split
      · cases hm : skipSpaceComments f (List.drop b (List.drop (skipFmt fmtSpace r) r)) with
        | error e => simp [Except.map]
        | ok m => simp [Except.map, pure, Except.pure]; omega
      · simp [Except.map, pure, Except.pure]; omega
  · simp [Except.map, pure, Except.pure]

theorem skipSpaceComments_stop (f : Nat) (body : Bytes) (hb : Stop body) :
    skipSpaceComments (f + 1) body = .ok 0 := by
  have h1 := skipSpace_stop body hb
  have h37 : hd body ≠ 37 := by
    rcases hb with rfl | ⟨_, h⟩
    · decide
    · exact h
  unfold skipSpaceComments
  simp [skipFmt_space, h1, h37, pure, Except.pure]

/-- `skip_fmt(&src, "%*[^\n]%n")` on a comment line -/
theorem skipFmt_comment_line (x r : Bytes) (hx : ∀ c ∈ x, c ≠ 10) :
    skipFmt fmtComment (37 :: (x ++ 10 :: r)) = x.length + 1 := by
  have h1 := takeNotNl_comment_line x r hx
  simp [skipFmt, scanRd, sscanf, fmtComment, sscanfGo, h1]

theorem skipFmt_comment_end (x : Bytes) (hx : ∀ c ∈ x, c ≠ 10) :
    skipFmt fmtComment (37 :: x) = x.length + 1 := by
  have h1 := takeNotNl_comment_end x hx
  simp [skipFmt, scanRd, sscanf, fmtComment, sscanfGo, h1]

theorem skipComments_line (f : Nat) (x r : Bytes) (hx : ∀ c ∈ x, c ≠ 10) :
    skipSpaceComments.skipComments (f + 2) (37 :: (x ++ 10 :: r)) = .ok (x.length + 1) := by
  have hk := skipFmt_comment_line x r hx
  unfold skipSpaceComments.skipComments
  simp only [hd_cons, ↓reduceIte]
  rw [hk]
  have : ¬ (x.length + 1 = 0) := by omega
  simp only [this, ↓reduceIte]
  have hdrop : (37 :: (x ++ 10 :: r)).drop (x.length + 1) = 10 :: r := by simp
  rw [hdrop]
  unfold skipSpaceComments.skipComments
  simp [bind, Except.bind, pure, Except.pure]

theorem skipComments_end (f : Nat) (x : Bytes) (hx : ∀ c ∈ x, c ≠ 10) :
    skipSpaceComments.skipComments (f + 2) (37 :: x) = .ok (x.length + 1) := by
  have hk := skipFmt_comment_end x hx
  unfold skipSpaceComments.skipComments
  simp only [hd_cons, ↓reduceIte]
  rw [hk]
  have : ¬ (x.length + 1 = 0) := by omega
  simp only [this, ↓reduceIte]
  have hdrop : (37 :: x).drop (x.length + 1) = [] := by simp
  rw [hdrop]
  unfold skipSpaceComments.skipComments
  simp [bind, Except.bind, pure, Except.pure]

theorem skipSpaceComments_comment (f : Nat) (x r : Bytes) (hx : ∀ c ∈ x, c ≠ 10) :
    skipSpaceComments (f + 1) (37 :: (x ++ 10 :: r)) =
      (skipSpaceComments f (10 :: r)).map (· + (x.length + 1)) := by
  have h1 : skipSpace (37 :: (x ++ 10 :: r)) = 37 :: (x ++ 10 :: r) := by simp [skipSpace, isspace]
  conv => lhs; unfold skipSpaceComments
  simp only [skipFmt_space, h1, Nat.sub_self, List.drop_zero]
  simp only [hd_cons, ↓reduceIte]
  have hc := skipComments_line (x ++ 10 :: r).length x r hx
  have e : (37 :: (x ++ 10 :: r)).length + 1 = (x ++ 10 :: r).length + 2 := by simp
  rw [e, hc]
  simp only [bind, Except.bind]
  have hdrop : (37 :: (x ++ 10 :: r)).drop (x.length + 1) = 10 :: r := by simp
  rw [hdrop]
  have : isspace (hd (10 :: r)) = true := by simp [isspace]
  simp only [this, ↓reduceIte]
  cases skipSpaceComments f (10 :: r) with
  | error e => simp [Except.map]
  | ok m => simp [Except.map, pure, Except.pure]; omega

/-- the scanner's loop skips a run of gaps (one nested turn per comment line) and counts them -/
theorem skipSpaceComments_gaps (g : List Gap) (body : Bytes) :
    ∀ fuel, numComments g < fuel →
      skipSpaceComments fuel (gapsBytes g ++ body) =
        (skipSpaceComments (fuel - numComments g) body).map (· + (gapsBytes g).length) := by
  induction g with
  | nil =>
    intro fuel _
    cases h : skipSpaceComments fuel body <;> simp [gapsBytes, numComments, h, Except.map]
  | cons x g ih =>
    intro fuel hf
    obtain ⟨f, rfl⟩ : ∃ f, fuel = f + 1 := ⟨fuel - 1, by omega⟩
    cases x with
    | ws w =>
      have e : gapsBytes (Gap.ws w :: g) ++ body = w.byte :: (gapsBytes g ++ body) := by
        simp [gapsBytes, Gap.bytes]
      rw [e, skipSpaceComments_ws f _ _ (isspace_ws w), ih (f + 1) (by simpa [numComments] using hf)]
      simp only [numComments]
      cases skipSpaceComments (f + 1 - numComments g) body with
      | error e => simp [Except.map]
      | ok m => simp [Except.map, gapsBytes, Gap.bytes]; omega
    | comment b =>
      have hx : ∀ c ∈ commentBody b, c ≠ 10 := fun c hc => (commentBody_no_nl b c hc).1
      have e : gapsBytes (Gap.comment b :: g) ++ body = 37 :: (commentBody b ++ 10 :: (gapsBytes g ++ body)) := by
        simp [gapsBytes, Gap.bytes]
      rw [e, skipSpaceComments_comment f _ _ hx]
      obtain ⟨f', rfl⟩ : ∃ f', f = f' + 1 := ⟨f - 1, by simp [numComments] at hf; omega⟩
      rw [skipSpaceComments_ws f' 10 _ (by decide), ih (f' + 1) (by simp [numComments] at hf; omega)]
      have e2 : f' + 1 + 1 - numComments (Gap.comment b :: g) = f' + 1 - numComments g := by
        simp [numComments]
      rw [e2]
      cases skipSpaceComments (f' + 1 - numComments g) body with
      | error e => simp [Except.map]
      | ok m => simp [Except.map, gapsBytes, Gap.bytes]; omega

/-- the unterminated comment at the very end -/
theorem skipSpaceComments_last (f : Nat) (b : Bytes) :
    skipSpaceComments (f + 1) (37 :: commentBody b) = .ok (37 :: commentBody b).length := by
  have hx : ∀ c ∈ commentBody b, c ≠ 10 := fun c hc => (commentBody_no_nl b c hc).1
  have h1 : skipSpace (37 :: commentBody b) = 37 :: commentBody b := by simp [skipSpace, isspace]
  unfold skipSpaceComments
  simp only [skipFmt_space, h1, Nat.sub_self, List.drop_zero, hd_cons, ↓reduceIte]
  have hc := skipComments_end (commentBody b).length (commentBody b) hx
  have e : (37 :: commentBody b).length + 1 = (commentBody b).length + 2 := by simp
  rw [e, hc]
  simp [bind, Except.bind, pure, Except.pure, isspace]

end Rtosc.Pretty.C11
