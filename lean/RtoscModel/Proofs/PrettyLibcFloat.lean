/-
  C10 — lemmas about the libc float model: exactness of `roundPos`/`hexToBits` on representable
  values, the shape of `%a` and `%#.Nf` output, `scanFloat` on such texts, and the lossless
  round trip `scanFloat (fmtA b) = b` for finite floats and doubles.
-/
import RtoscModel.Proofs.PrettyLibc
import Mathlib.Tactic.Ring
import Mathlib.Tactic.Linarith
import Mathlib.Tactic.NormNum
namespace Rtosc.Libc
open Rtosc
set_option linter.unusedSimpArgs false

theorem log2_eq_of_bounds (n k : Nat) (h1 : 2 ^ k ≤ n) (h2 : n < 2 ^ (k + 1)) : Nat.log2 n = k := by
  have hn : n ≠ 0 := by
    have : 0 < 2 ^ k := Nat.two_pow_pos _
    omega
  have a : k ≤ n.log2 := (Nat.le_log2 hn).mpr h1
  have b : n.log2 < k + 1 := (Nat.log2_lt hn).mpr h2
  omega

theorem log2_mul_pow2 (n k : Nat) (hn : n ≠ 0) : Nat.log2 (n * 2 ^ k) = Nat.log2 n + k := by
  apply log2_eq_of_bounds
  · rw [Nat.pow_add]; exact Nat.mul_le_mul_right _ (Nat.log2_self_le hn)
  · have : n < 2 ^ (n.log2 + 1) := Nat.lt_log2_self
    calc n * 2 ^ k < 2 ^ (n.log2 + 1) * 2 ^ k := Nat.mul_lt_mul_of_pos_right this (Nat.two_pow_pos _)
      _ = 2 ^ (n.log2 + k + 1) := by ring

/-- `ratLog2` with a power of two as denominator -/
theorem ratLog2_pow2 (num j : Nat) (hn : num ≠ 0) : ratLog2 num (2 ^ j) = (Nat.log2 num : Int) - j := by
  unfold ratLog2
  simp only [Nat.log2_two_pow]
  have hle := Nat.log2_self_le hn
  have hge : (if (Nat.log2 num : Int) - (j : Int) ≥ 0
      then decide (num ≥ 2 ^ j * 2 ^ ((Nat.log2 num : Int) - (j : Int)).toNat)
      else decide (num * 2 ^ (-((Nat.log2 num : Int) - (j : Int))).toNat ≥ 2 ^ j)) = true := by
    split
    · next h =>
      have : j + ((Nat.log2 num : Int) - (j : Int)).toNat = Nat.log2 num := by omega
      rw [← Nat.pow_add, this]; simpa using hle
    · next h =>
      have : Nat.log2 num + (-((Nat.log2 num : Int) - (j : Int))).toNat = j := by omega
      simp only [ge_iff_le, decide_eq_true_eq]
      calc 2 ^ j = 2 ^ Nat.log2 num * 2 ^ (-((Nat.log2 num : Int) - (j : Int))).toNat := by rw [← Nat.pow_add, this]
        _ ≤ _ := Nat.mul_le_mul_right _ hle
  simp only [hge, ↓reduceIte]

/-- the encoding of the representable value `M · 2^E` -/
def encBits (F : FFmt) (M : Nat) (E : Int) : Nat :=
  if M < 2 ^ F.mbits then M else (E - F.qmin + 1).toNat * 2 ^ F.mbits + (M - 2 ^ F.mbits)

theorem roundPos_exact (F : FFmt) (num j M : Nat) (E : Int)
    (hM0 : M ≠ 0) (hM : M < 2 ^ (F.mbits + 1)) (hE : F.qmin ≤ E) (hnorm : 2 ^ F.mbits ≤ M ∨ E = F.qmin)
    (hef : (E - F.qmin + 1).toNat < F.expMax)
    (hrel : if E ≥ 0 then num = M * 2 ^ E.toNat * 2 ^ j else num * 2 ^ (-E).toNat = M * 2 ^ j) :
    roundPos F num (2 ^ j) = encBits F M E := by
  have hnum0 : num ≠ 0 := by
    intro h0; subst h0
    have hp : 0 < M * 2 ^ j := Nat.mul_pos (by omega) (Nat.two_pow_pos _)
    split at hrel
    · have : 0 < M * 2 ^ E.toNat * 2 ^ j := Nat.mul_pos (Nat.mul_pos (by omega) (Nat.two_pow_pos _)) (Nat.two_pow_pos _)
      omega
    · omega
  have hlogM : Nat.log2 M ≤ F.mbits := by
    have := (Nat.log2_lt hM0).mpr hM; omega
  have hlog : (Nat.log2 num : Int) - j = Nat.log2 M + E := by
    split at hrel
    · next h =>
      have : Nat.log2 num = Nat.log2 M + E.toNat + j := by
        rw [hrel, log2_mul_pow2 _ _ (Nat.mul_ne_zero hM0 (by have := Nat.two_pow_pos E.toNat; omega)), log2_mul_pow2 _ _ hM0]
      omega
    · next h =>
      have h1 := log2_mul_pow2 num (-E).toNat hnum0
      have h2 := log2_mul_pow2 M j hM0
      rw [hrel] at h1
      omega
  have he : max F.qmin ((Nat.log2 num : Int) - j - (F.mbits : Int)) = E := by
    rw [hlog]
    rcases hnorm with h | h
    · have : Nat.log2 M = F.mbits := by
        have := (Nat.le_log2 hM0).mpr h; omega
      omega
    · omega
  unfold roundPos
  simp only [hnum0, ↓reduceIte, ratLog2_pow2 num j hnum0, he]
  by_cases hE0 : E ≥ 0
  · simp only [hE0, ↓reduceIte] at hrel ⊢
    have hq : num / (2 ^ j * 2 ^ E.toNat) = M := by
      rw [hrel, Nat.mul_assoc, Nat.mul_comm (2 ^ E.toNat)]
      exact Nat.mul_div_cancel _ (Nat.mul_pos (Nat.two_pow_pos _) (Nat.two_pow_pos _))
    have hr : num % (2 ^ j * 2 ^ E.toNat) = 0 := by
      rw [hrel, Nat.mul_assoc, Nat.mul_comm (2 ^ E.toNat)]
      exact Nat.mul_mod_left _ _
    have hpos : 0 < 2 ^ j * 2 ^ E.toNat := Nat.mul_pos (Nat.two_pow_pos _) (Nat.two_pow_pos _)
    simp only [hq, hr]
    have h1 : ¬ (2 * 0 > 2 ^ j * 2 ^ E.toNat ∨ 2 * 0 = 2 ^ j * 2 ^ E.toNat ∧ M % 2 = 1) := by omega
    have h2 : M ≠ 2 ^ (F.mbits + 1) := by omega
    simp only [h1, h2, ↓reduceIte]
    unfold encBits
    split
    · rfl
    · have : ¬ ((E - F.qmin + 1).toNat ≥ F.expMax) := by omega
      simp only [this, ↓reduceIte]
  · simp only [hE0, ↓reduceIte] at hrel ⊢
    have hq : num * 2 ^ (-E).toNat / 2 ^ j = M := by
      rw [hrel]; exact Nat.mul_div_cancel _ (Nat.two_pow_pos _)
    have hr : num * 2 ^ (-E).toNat % 2 ^ j = 0 := by
      rw [hrel]; exact Nat.mul_mod_left _ _
    have hpos : 0 < 2 ^ j := Nat.two_pow_pos _
    simp only [hq, hr]
    have h1 : ¬ (2 * 0 > 2 ^ j ∨ 2 * 0 = 2 ^ j ∧ M % 2 = 1) := by omega
    have h2 : M ≠ 2 ^ (F.mbits + 1) := by omega
    simp only [h1, h2, ↓reduceIte]
    unfold encBits
    split
    · rfl
    · have : ¬ ((E - F.qmin + 1).toNat ≥ F.expMax) := by omega
      simp only [this, ↓reduceIte]


theorem pow2_shift (a b p q r t : Nat) (h : a * 2 ^ p = b * 2 ^ q) (hs : p + r = q + t) :
    a * 2 ^ t = b * 2 ^ r := by
  have h1 : a * 2 ^ t * 2 ^ (p + r) = b * 2 ^ r * 2 ^ (p + r) := by
    calc a * 2 ^ t * 2 ^ (p + r) = (a * 2 ^ p) * 2 ^ (t + r) := by ring
      _ = (b * 2 ^ q) * 2 ^ (t + r) := by rw [h]
      _ = b * 2 ^ r * 2 ^ (q + t) := by ring
      _ = b * 2 ^ r * 2 ^ (p + r) := by rw [hs]
  exact Nat.eq_of_mul_eq_mul_right (Nat.two_pow_pos _) h1

/-- rounding `m · 2^x` when that value is the representable `M · 2^E` -/
theorem scaled_exact (F : FFmt) (m : Nat) (x : Int) (M : Nat) (E : Int) (p q : Nat)
    (hm : m * 2 ^ p = M * 2 ^ q) (hx : x + q = E + p)
    (hM0 : M ≠ 0) (hM : M < 2 ^ (F.mbits + 1)) (hE : F.qmin ≤ E) (hnorm : 2 ^ F.mbits ≤ M ∨ E = F.qmin)
    (hef : (E - F.qmin + 1).toNat < F.expMax) :
    (if x ≥ 0 then roundPos F (m * 2 ^ x.toNat) 1 else roundPos F m (2 ^ (-x).toNat)) = encBits F M E := by
  split
  · next hx0 =>
    rw [show (1 : Nat) = 2 ^ 0 from rfl]
    apply roundPos_exact F _ 0 M E hM0 hM hE hnorm hef
    split
    · have := pow2_shift m M p q E.toNat x.toNat hm (by omega)
      rw [this]; ring
    · have := pow2_shift m M p q 0 (x.toNat + (-E).toNat) hm (by omega)
      rw [Nat.mul_assoc, ← Nat.pow_add, this]
  · next hx0 =>
    apply roundPos_exact F _ (-x).toNat M E hM0 hM hE hnorm hef
    split
    · have := pow2_shift m M p q (E.toNat + (-x).toNat) 0 hm (by omega)
      rw [Nat.mul_assoc, ← Nat.pow_add, ← this]; ring
    · exact pow2_shift m M p q (-x).toNat (-E).toNat hm (by omega)

theorem hexToBits_exact (F : FFmt) (m : Nat) (x : Int) (M : Nat) (E : Int) (p q : Nat)
    (hm : m * 2 ^ p = M * 2 ^ q) (hx : x + q = E + p)
    (hM0 : M ≠ 0) (hM : M < 2 ^ (F.mbits + 1)) (hE : F.qmin ≤ E) (hnorm : 2 ^ F.mbits ≤ M ∨ E = F.qmin)
    (hef : (E - F.qmin + 1).toNat < F.expMax)
    (hlo : -1200 ≤ E) (hhi : E + F.mbits ≤ 1100) :
    hexToBits F m x = encBits F M E := by
  have hm0 : m ≠ 0 := by
    intro h; subst h
    have : 0 < M * 2 ^ q := Nat.mul_pos (by omega) (Nat.two_pow_pos _)
    omega
  have hl : (Nat.log2 m : Int) + x = Nat.log2 M + E := by
    have h1 := log2_mul_pow2 m p hm0
    have h2 := log2_mul_pow2 M q hM0
    rw [hm] at h1
    omega
  have hlogM : Nat.log2 M ≤ F.mbits := by
    have := (Nat.log2_lt hM0).mpr hM; omega
  unfold hexToBits
  simp only [hm0, ↓reduceIte]
  have h1 : ¬ ((Nat.log2 m : Int) + x > 1100) := by omega
  have h2 : ¬ ((Nat.log2 m : Int) + x < -1200) := by omega
  simp only [h1, h2, ↓reduceIte]
  exact scaled_exact F m x M E p q hm hx hM0 hM hE hnorm hef

theorem hexToBits_zero (F : FFmt) (x : Int) : hexToBits F 0 x = 0 := by simp [hexToBits]

/-! ### digit strings -/

theorem hexDigitsAux_acc (n : Nat) (acc : Bytes) : hexDigitsAux n acc = hexDigitsAux n [] ++ acc := by
  induction n using Nat.strongRecOn generalizing acc with
  | _ n ih =>
    rw [hexDigitsAux_eq n acc, hexDigitsAux_eq n []]
    split
    · simp
    · rw [ih (n/16) (by omega) (hexDigitChar (n % 16) :: acc), ih (n/16) (by omega) [hexDigitChar (n % 16)]]
      simp

theorem hexDigitChar_facts (d : Nat) (h : d < 16) :
    isxdigit (hexDigitChar d) = true ∧ xval (hexDigitChar d) = d := by
  have : ∀ d : Fin 16, isxdigit (hexDigitChar d.val) = true ∧ xval (hexDigitChar d.val) = d.val := by decide
  exact this ⟨d, h⟩

theorem hexDigits_snoc (n : Nat) (h : n ≠ 0) :
    hexDigitsAux n [] = hexDigitsAux (n / 16) [] ++ [hexDigitChar (n % 16)] := by
  rw [hexDigitsAux_eq n []]
  simp only [h, ↓reduceIte]
  rw [hexDigitsAux_acc]

theorem hexDigits_zero : hexDigitsAux 0 [] = [] := by
  rw [hexDigitsAux_eq]; simp

theorem hexDigits_all (n : Nat) : ∀ c ∈ hexDigitsAux n [], isxdigit c = true := by
  induction n using Nat.strongRecOn with
  | _ n ih =>
    by_cases h : n = 0
    · subst h; rw [hexDigits_zero]; simp
    · rw [hexDigits_snoc n h]
      intro c hc
      simp only [List.mem_append, List.mem_singleton] at hc
      rcases hc with hc | hc
      · exact ih (n/16) (by omega) c hc
      · subst hc; exact (hexDigitChar_facts _ (by omega)).1

theorem digitsVal_hexDigits (n : Nat) : digitsVal 16 (hexDigitsAux n []) = n := by
  induction n using Nat.strongRecOn with
  | _ n ih =>
    by_cases h : n = 0
    · subst h; rw [hexDigits_zero]; rfl
    · rw [hexDigits_snoc n h, digitsVal_append, ih (n/16) (by omega)]
      simp only [List.length_singleton, Nat.pow_one, digitsVal, List.foldl_cons, List.foldl_nil, Nat.zero_mul, Nat.zero_add]
      rw [(hexDigitChar_facts _ (by omega)).2]
      omega

theorem hexDigits_length (w : Nat) : ∀ n, n < 16 ^ w → (hexDigitsAux n []).length ≤ w := by
  induction w with
  | zero => intro n h; have : n = 0 := by simpa using h
            subst this; rw [hexDigits_zero]; simp
  | succ w ih =>
    intro n h
    by_cases h0 : n = 0
    · subst h0; rw [hexDigits_zero]; simp
    · rw [hexDigits_snoc n h0]
      have : n / 16 < 16 ^ w := by
        rw [Nat.pow_succ] at h; omega
      have := ih _ this
      simp; omega

theorem decDigits_length (w : Nat) : ∀ n, n < 10 ^ w → (decDigitsAux n []).length ≤ w := by
  induction w with
  | zero => intro n h; have : n = 0 := by simpa using h
            subst this; rw [decDigits_zero]; simp
  | succ w ih =>
    intro n h
    by_cases h0 : n = 0
    · subst h0; rw [decDigits_zero]; simp
    · rw [decDigits_snoc n h0]
      have : n / 10 < 10 ^ w := by
        rw [Nat.pow_succ] at h; omega
      have := ih _ this
      simp; omega

theorem digitsVal_zeros_left (b k : Nat) (s : Bytes) : digitsVal b (List.replicate k 48 ++ s) = digitsVal b s := by
  induction k with
  | zero => simp
  | succ k ih =>
    rw [List.replicate_succ, List.cons_append]
    unfold digitsVal at ih ⊢
    simp only [List.foldl_cons]
    have : xval 48 = 0 := by decide
    simpa [this] using ih

theorem digitsVal_zeros (b k : Nat) : digitsVal b (List.replicate k 48) = 0 := by
  have := digitsVal_zeros_left b k []
  simpa [digitsVal] using this

theorem digitsVal_zeros_right (b k : Nat) (s : Bytes) :
    digitsVal b (s ++ List.replicate k 48) = digitsVal b s * b ^ k := by
  rw [digitsVal_append, digitsVal_zeros]; simp

theorem padZero_length (w : Nat) (s : Bytes) (h : s.length ≤ w) : (padZero w s).length = w := by
  simp [padZero]; omega

theorem padZero_all (P : UInt8 → Prop) (w : Nat) (s : Bytes) (h48 : P 48) (hs : ∀ c ∈ s, P c) :
    ∀ c ∈ padZero w s, P c := by
  intro c hc
  simp only [padZero, List.mem_append, List.mem_replicate] at hc
  rcases hc with ⟨_, rfl⟩ | hc
  · exact h48
  · exact hs c hc

/-! ### `stripZeros` -/

theorem stripZeros_split (s : Bytes) : ∃ z, s = stripZeros s ++ List.replicate z 48 := by
  unfold stripZeros
  refine ⟨(s.reverse.takeWhile (· = 48)).length, ?_⟩
  have h := @List.takeWhile_append_dropWhile _ (fun c : UInt8 => decide (c = 48)) s.reverse
  have h2 : (s.reverse.takeWhile (fun c : UInt8 => decide (c = 48))) =
      List.replicate (s.reverse.takeWhile (fun c : UInt8 => decide (c = 48))).length 48 := by
    apply List.eq_replicate_of_mem
    intro c hc
    have hall := @List.all_takeWhile _ (fun c : UInt8 => decide (c = 48)) s.reverse
    rw [List.all_eq_true] at hall
    simpa using hall c hc
  have h3 : s = (s.reverse.dropWhile (fun c : UInt8 => decide (c = 48))).reverse ++
      (s.reverse.takeWhile (fun c : UInt8 => decide (c = 48))).reverse := by
    rw [← List.reverse_append, h, List.reverse_reverse]
  rw [h2, List.reverse_replicate] at h3
  simpa using h3

theorem dropWhile_idem {α} (p : α → Bool) (l : List α) : (l.dropWhile p).dropWhile p = l.dropWhile p := by
  induction l with
  | nil => rfl
  | cons a t ih =>
    by_cases h : p a = true
    · simp [List.dropWhile, h, ih]
    · simp [List.dropWhile, h]

theorem stripZeros_idem (s : Bytes) : stripZeros (stripZeros s) = stripZeros s := by
  unfold stripZeros
  rw [List.reverse_reverse, dropWhile_idem]

theorem stripZeros_mem (s : Bytes) (c : UInt8) (h : c ∈ stripZeros s) : c ∈ s := by
  obtain ⟨z, hz⟩ := stripZeros_split s
  rw [hz]; simp [h]

/-! ### `hexFixed` -/

theorem hexFixed_facts (w n : Nat) (h : n < 16 ^ w) :
    (hexFixed w n).length = w ∧ (∀ c ∈ hexFixed w n, isxdigit c = true) ∧ digitsVal 16 (hexFixed w n) = n := by
  unfold hexFixed
  by_cases h0 : n = 0
  · subst h0
    simp only [↓reduceIte]
    refine ⟨padZero_length _ _ (by simp), padZero_all _ _ _ (by decide) (by simp), ?_⟩
    simp [padZero, digitsVal_zeros]
  · simp only [h0, ↓reduceIte]
    refine ⟨padZero_length _ _ (hexDigits_length w n h), padZero_all _ _ _ (by decide) (hexDigits_all n), ?_⟩
    unfold padZero
    rw [digitsVal_zeros_left, digitsVal_hexDigits]

/-! ### `takeHex`, `takeDec`, `collectFloat` on runs of digits -/

theorem digitsVal_cons (b : Nat) (c : UInt8) (xs : Bytes) :
    digitsVal b (c :: xs) = xval c * b ^ xs.length + digitsVal b xs := by
  unfold digitsVal
  simp only [List.foldl_cons, Nat.zero_mul, Nat.zero_add]
  exact foldl_digits_start b xs (xval c)

theorem takeHex_run (xs r : Bytes) (hxs : ∀ c ∈ xs, isxdigit c = true) (hr : isxdigit (hd r) = false) :
    ∀ v k, takeHex (xs ++ r) v k = (v * 16 ^ xs.length + digitsVal 16 xs, k + xs.length, r) := by
  induction xs with
  | nil =>
    intro v k
    cases r with
    | nil => simp [takeHex, digitsVal]
    | cons c t => simp only [hd_cons] at hr; simp [takeHex, hr, digitsVal]
  | cons c xs ih =>
    intro v k
    have hc := hxs c (by simp)
    simp only [List.cons_append, takeHex, hc, ↓reduceIte]
    rw [ih (fun x hx => hxs x (by simp [hx])), digitsVal_cons]
    simp only [List.length_cons, Prod.mk.injEq, and_true]
    constructor
    · ring
    · omega

theorem takeDec_run (xs r : Bytes) (hxs : ∀ c ∈ xs, isdigit c = true) (hr : isdigit (hd r) = false) :
    ∀ v k, takeDec (xs ++ r) v k = (v * 10 ^ xs.length + digitsVal 10 xs, k + xs.length, r) := by
  induction xs with
  | nil =>
    intro v k
    cases r with
    | nil => simp [takeDec, digitsVal]
    | cons c t => simp only [hd_cons] at hr; simp [takeDec, hr, digitsVal]
  | cons c xs ih =>
    intro v k
    have hc := hxs c (by simp)
    obtain ⟨_, _, _, _, hxv, _, _⟩ := isdigit_facts c hc
    simp only [List.cons_append, takeDec, hc, ↓reduceIte]
    rw [ih (fun x hx => hxs x (by simp [hx])), digitsVal_cons, hxv]
    simp only [List.length_cons, Prod.mk.injEq, and_true]
    constructor
    · ring
    · omega

/-- decimal digits are collected in every state -/
theorem collectFloat_digits (ds r : Bytes) (hds : ∀ c ∈ ds, isdigit c = true) :
    ∀ gd ge gdot hx le, collectFloat (ds ++ r) ⟨gd, ge, gdot, hx, le⟩ =
      (ds ++ (collectFloat r ⟨gd || !ds.isEmpty, ge, gdot, hx, le && ds.isEmpty⟩).1,
        (collectFloat r ⟨gd || !ds.isEmpty, ge, gdot, hx, le && ds.isEmpty⟩).2) := by
  induction ds with
  | nil => intro gd ge gdot hx le; simp
  | cons c ds ih =>
    intro gd ge gdot hx le
    have hc := hds c (by simp)
    simp only [List.cons_append, collectFloat, hc, ↓reduceIte]
    rw [ih (fun x hx => hds x (by simp [hx]))]
    simp

/-- hexadecimal digits are collected in a hexadecimal number before the exponent -/
theorem collectFloat_xdigits (xs r : Bytes) (hxs : ∀ c ∈ xs, isxdigit c = true) :
    ∀ gd gdot le, collectFloat (xs ++ r) ⟨gd, false, gdot, true, le⟩ =
      (xs ++ (collectFloat r ⟨gd || !xs.isEmpty, false, gdot, true, le && xs.isEmpty⟩).1,
        (collectFloat r ⟨gd || !xs.isEmpty, false, gdot, true, le && xs.isEmpty⟩).2) := by
  induction xs with
  | nil => intro gd gdot le; simp
  | cons c xs ih =>
    intro gd gdot le
    have hc := hxs c (by simp)
    simp only [List.cons_append, collectFloat, hc]
    by_cases hd : isdigit c = true
    · simp only [hd, ↓reduceIte]
      rw [ih (fun x hx => hxs x (by simp [hx]))]
      simp
    · simp only [hd, Bool.false_eq_true, ↓reduceIte, Bool.not_false, Bool.and_self]
      rw [ih (fun x hx => hxs x (by simp [hx]))]
      simp


/-! ### hexadecimal float text -/

/-- the text of a `%a` conversion: sign, `0x`, leading digit, fraction digits, `p`, exponent -/
def hexTxt (neg : Bool) (lead : UInt8) (fr : Bytes) (eneg : Bool) (eds : Bytes) : Bytes :=
  (if neg then [45] else []) ++ [48, 120, lead] ++ (if fr.isEmpty then [] else 46 :: fr) ++ [112] ++
    (if eneg then 45 else 43) :: eds

/-- the part of `hexTxt` behind `0x` -/
def hexBody (lead : UInt8) (fr : Bytes) (eneg : Bool) (eds : Bytes) : Bytes :=
  lead :: ((if fr.isEmpty then [] else 46 :: fr) ++ 112 :: (if eneg then 45 else 43) :: eds)

theorem hexTxt_eq (neg : Bool) (lead : UInt8) (fr : Bytes) (eneg : Bool) (eds : Bytes) :
    hexTxt neg lead fr eneg eds = (if neg then [45] else []) ++ 48 :: 120 :: hexBody lead fr eneg eds := by
  simp [hexTxt, hexBody]

theorem collectFloat_expPart (eneg : Bool) (eds rest : Bytes) (heds : ∀ c ∈ eds, isdigit c = true)
    (gdot : Bool) :
    collectFloat (112 :: (if eneg then 45 else 43) :: (eds ++ 41 :: rest)) ⟨true, false, gdot, true, false⟩ =
      (112 :: (if eneg then 45 else 43) :: eds, 41 :: rest) := by
  have h1 : isdigit 112 = false := by decide
  have h2 : isxdigit 112 = false := by decide
  have h3 : tolower 112 = 112 := by decide
  have hstop : ∀ gd', collectFloat (41 :: rest) ⟨gd', true, true, true, false⟩ = ([], 41 :: rest) := by
    intro gd'
    have a : isdigit 41 = false := by decide
    simp [collectFloat, a]
  have h41 : isdigit 41 = false := by decide
  cases eneg
  · have b1 : isdigit 43 = false := by decide
    simp [collectFloat, h1, h2, h3, b1, h41, collectFloat_digits eds (41 :: rest) heds, hstop]
  · have b1 : isdigit 45 = false := by decide
    simp [collectFloat, h1, h2, h3, b1, h41, collectFloat_digits eds (41 :: rest) heds, hstop]


theorem collectFloat_digit1 (c : UInt8) (r : Bytes) (hc : isdigit c = true) (gd ge gdot hx le : Bool) :
    collectFloat (c :: r) ⟨gd, ge, gdot, hx, le⟩ =
      (c :: (collectFloat r ⟨true, ge, gdot, hx, false⟩).1, (collectFloat r ⟨true, ge, gdot, hx, false⟩).2) := by
  have := collectFloat_digits [c] r (by simpa using hc) gd ge gdot hx le
  simpa using this

theorem collectFloat_dot (r : Bytes) (gd hx : Bool) :
    collectFloat (46 :: r) ⟨gd, false, false, hx, false⟩ =
      (46 :: (collectFloat r ⟨gd, false, true, hx, false⟩).1, (collectFloat r ⟨gd, false, true, hx, false⟩).2) := by
  have h46a : isdigit 46 = false := by decide
  have h46b : isxdigit 46 = false := by decide
  have h46c : tolower 46 = 46 := by decide
  cases hx <;> simp [collectFloat, h46a, h46b, h46c]

theorem collectFloat_hexBody (lead : UInt8) (fr : Bytes) (eneg : Bool) (eds rest : Bytes)
    (hlead : isdigit lead = true) (hfr : ∀ c ∈ fr, isxdigit c = true) (heds : ∀ c ∈ eds, isdigit c = true) :
    collectFloat (hexBody lead fr eneg eds ++ 41 :: rest) ⟨false, false, false, true, false⟩ =
      (hexBody lead fr eneg eds, 41 :: rest) := by
  unfold hexBody
  by_cases hfe : fr.isEmpty = true
  · simp only [hfe, ↓reduceIte, List.nil_append, List.cons_append]
    rw [collectFloat_digit1 _ _ hlead, collectFloat_expPart eneg eds rest heds false]
  · have : (fr.isEmpty) = false := by simpa using hfe
    simp only [hfe, Bool.false_eq_true, ↓reduceIte, List.cons_append, List.append_assoc]
    rw [collectFloat_digit1 _ _ hlead, collectFloat_dot, collectFloat_xdigits fr _ hfr]
    simp only [this, Bool.not_false, Bool.or_true, Bool.and_false]
    rw [collectFloat_expPart eneg eds rest heds true]


theorem takeExp_p (eneg : Bool) (eds : Bytes) (hne : eds ≠ []) (heds : ∀ c ∈ eds, isdigit c = true) :
    takeExp 112 (112 :: (if eneg then 45 else 43) :: eds) =
      ((if eneg then -(digitsVal 10 eds : Int) else (digitsVal 10 eds : Int)), []) := by
  have h := takeDec_run eds [] heds (by decide) 0 0
  simp only [List.append_nil, Nat.zero_mul, Nat.zero_add] at h
  have hlen : eds.length ≠ 0 := by
    intro h0; exact hne (List.length_eq_zero_iff.mp h0)
  have h3 : tolower 112 = 112 := by decide
  cases eneg <;> simp [takeExp, h3, h, hlen]

/-- `strtod` on the characters of a hexadecimal float -/
theorem strtodMag_hex (F : FFmt) (lead : UInt8) (fr : Bytes) (eneg : Bool) (eds : Bytes)
    (hlead : isdigit lead = true) (hfr : ∀ c ∈ fr, isxdigit c = true)
    (hne : eds ≠ []) (heds : ∀ c ∈ eds, isdigit c = true) :
    ∃ n, strtodMag F (48 :: 120 :: hexBody lead fr eneg eds) =
      some (hexToBits F (dval lead * 16 ^ fr.length + digitsVal 16 fr)
        ((if eneg then -(digitsVal 10 eds : Int) else (digitsVal 10 eds : Int)) - 4 * (fr.length : Int)), n) := by
  obtain ⟨_, _, _, _, hxv, _, _⟩ := isdigit_facts lead hlead
  have hxl : isxdigit lead = true := by simp [isxdigit, hlead]
  have h120 : tolower 120 = 120 := by decide
  have hv1 : digitsVal 16 [lead] = dval lead := by simp [digitsVal, hxv]
  unfold strtodMag hexBody
  simp only [h120, ↓reduceIte]
  by_cases hfe : fr.isEmpty = true
  · have hnil : fr = [] := by simpa using hfe
    subst hnil
    have h1 := takeHex_run [lead] (112 :: (if eneg then 45 else 43) :: eds) (by simpa using hxl) (by rw [hd_cons]; decide) 0 0
    simp only [List.cons_append, List.nil_append, Nat.zero_mul, Nat.zero_add, List.length_singleton, hv1] at h1
    simp only [List.isEmpty_nil, ↓reduceIte, List.nil_append, h1]
    simp [takeExp_p eneg eds hne heds, digitsVal]
  · have hfe' : fr.isEmpty = false := by simpa using hfe
    have h1 := takeHex_run [lead] (46 :: (fr ++ 112 :: (if eneg then 45 else 43) :: eds)) (by simpa using hxl) (by rw [hd_cons]; decide) 0 0
    simp only [List.cons_append, List.nil_append, Nat.zero_mul, Nat.zero_add, List.length_singleton, hv1] at h1
    have h2 := takeHex_run fr (112 :: (if eneg then 45 else 43) :: eds) hfr (by rw [hd_cons]; decide) (dval lead) 0
    simp only [Nat.zero_add] at h2
    have hlen : fr.length ≠ 0 := by
      intro h0; rw [List.length_eq_zero_iff.mp h0] at hfe'; simp at hfe'
    simp only [hfe', Bool.false_eq_true, ↓reduceIte, List.cons_append, h1, h2, takeExp_p eneg eds hne heds]
    simp


theorem hexBody_length (lead : UInt8) (fr : Bytes) (eneg : Bool) (eds : Bytes) :
    (hexBody lead fr eneg eds).length =
      1 + (if fr.isEmpty then 0 else fr.length + 1) + 2 + eds.length := by
  unfold hexBody
  split <;> simp <;> omega

/-- `%f` / `%lf` of sscanf on a hexadecimal float that is followed by ")" -/
theorem scanFloat_hexTxt (F : FFmt) (neg : Bool) (lead : UInt8) (fr : Bytes) (eneg : Bool) (eds rest : Bytes)
    (hlead : isdigit lead = true) (hfr : ∀ c ∈ fr, isxdigit c = true)
    (hne : eds ≠ []) (heds : ∀ c ∈ eds, isdigit c = true) :
    scanFloat F (hexTxt neg lead fr eneg eds ++ 41 :: rest) =
      some ((if neg then F.signBit else 0) +
        hexToBits F (dval lead * 16 ^ fr.length + digitsVal 16 fr)
          ((if eneg then -(digitsVal 10 eds : Int) else (digitsVal 10 eds : Int)) - 4 * (fr.length : Int)),
        41 :: rest) := by
  obtain ⟨n, hn⟩ := strtodMag_hex F lead fr eneg eds hlead hfr hne heds
  have hcf := collectFloat_hexBody lead fr eneg eds rest hlead hfr heds
  have hlen := hexBody_length lead fr eneg eds
  have hlen2 : (hexBody lead fr eneg eds).length + 2 ≠ 2 := by omega
  have h48 : isspace 48 = false := by decide
  have h45 : isspace 45 = false := by decide
  have ht48 : tolower 48 = 48 := by decide
  have ht120 : tolower 120 = 120 := by decide
  rw [hexTxt_eq]
  unfold scanFloat
  cases neg
  · simp [skipSpace, h48, ht48, ht120, hcf, hn, hlen2]
  · simp [skipSpace, h45, ht48, ht120, hcf, hn, hlen2]


/-! ### finite data: significand and exponent -/

/-- the integer significand of a finite datum (0 for ±0) -/
def FFmt.sig (F : FFmt) (b : Nat) : Nat := (if F.expField b = 0 then 0 else 2 ^ F.mbits) + F.frac b
/-- the exponent of the unit in the last place of a finite datum -/
def FFmt.exq (F : FFmt) (b : Nat) : Int :=
  if F.expField b = 0 then F.qmin else (F.expField b : Int) - (F.bias : Int) - (F.mbits : Int)

theorem classify_fin (F : FFmt) (b : Nat) (hfin : F.expField b ≠ F.expMax) :
    (F.sig b = 0 ∧ F.classify b = .zero) ∨ (F.sig b ≠ 0 ∧ F.classify b = .fin (F.sig b) (F.exq b)) := by
  have hp : 0 < 2 ^ F.mbits := Nat.two_pow_pos _
  unfold FFmt.classify FFmt.sig FFmt.exq
  simp only [hfin, ↓reduceIte]
  by_cases h0 : F.expField b = 0
  · simp only [h0, ↓reduceIte, Nat.zero_add]
    by_cases hf : F.frac b = 0
    · left; simp [hf]
    · right; simp [hf]
  · right
    simp only [h0, ↓reduceIte]
    refine ⟨by omega, ?_⟩
    first | rfl | trivial

theorem fmtNat_facts (n : Nat) :
    fmtNat n ≠ [] ∧ (∀ c ∈ fmtNat n, isdigit c = true) ∧ digitsVal 10 (fmtNat n) = n := by
  unfold fmtNat
  by_cases h : n = 0
  · subst h; simp only [↓reduceIte]; decide
  · simp only [h, ↓reduceIte]
    obtain ⟨d, ds, he, _, _⟩ := decDigits_head n (by omega)
    exact ⟨by rw [he]; simp, decDigits_all_digit n, digitsVal_decDigits n⟩

theorem f64_fields (b : Nat) :
    f64.sig b < 2 ^ 53 ∧ f64.frac b < 2 ^ 52 ∧ f64.expField b < 2048 ∧
    f64.mag b = f64.expField b * 2 ^ 52 + f64.frac b ∧
    b % 2 ^ 64 = (if f64.sign b then 2 ^ 63 else 0) + f64.mag b := by
  simp only [FFmt.sig, FFmt.expField, FFmt.mag, FFmt.frac, FFmt.sign, FFmt.signBit, f64, Nat.reduceAdd, Nat.reducePow]
  refine ⟨?_, ?_, ?_, ?_, ?_⟩
  · by_cases h : b % 9223372036854775808 / 4503599627370496 = 0 <;> simp only [h, ↓reduceIte] <;> omega
  · omega
  · omega
  · omega
  · by_cases h : b / 9223372036854775808 % 2 = 1 <;> simp only [h, decide_true, decide_false, Bool.false_eq_true, ↓reduceIte] <;> omega

/-- the shape and the value of `%a` output for a finite double -/
theorem fmtA_fin (B : Nat) (hfin : f64.expField B ≠ 2047) :
    ∃ lead fr eneg eds, fmtA B = hexTxt (f64.sign B) lead fr eneg eds ∧
      isdigit lead = true ∧ (∀ c ∈ fr, isxdigit c = true) ∧ stripZeros fr = fr ∧
      eds ≠ [] ∧ (∀ c ∈ eds, isdigit c = true) ∧
      ((f64.sig B = 0 ∧ dval lead * 16 ^ fr.length + digitsVal 16 fr = 0) ∨
       (f64.sig B ≠ 0 ∧ ∃ z : Nat, (dval lead * 16 ^ fr.length + digitsVal 16 fr) * 2 ^ (4 * z) = f64.sig B ∧
          (if eneg then -(digitsVal 10 eds : Int) else (digitsVal 10 eds : Int)) - 4 * (fr.length : Int) =
            f64.exq B + 4 * (z : Int))) := by
  have hmax : f64.expMax = 2047 := by decide
  rcases classify_fin f64 B (by rw [hmax]; exact hfin) with ⟨hs, hc⟩ | ⟨hs, hc⟩
  · refine ⟨48, [], false, [48], ?_, by decide, by simp, by decide, by simp, by decide, ?_⟩
    · unfold fmtA
      simp only [hc]
      cases f64.sign B <;> decide
    · left; exact ⟨hs, by decide⟩
  · obtain ⟨hsig, hfrac, hef, _, _⟩ := f64_fields B
    obtain ⟨hflen, hfall, hfval⟩ := hexFixed_facts 13 (f64.frac B) (by
      have : (16 : Nat) ^ 13 = 2 ^ 52 := by norm_num
      rw [this]; exact hfrac)
    obtain ⟨z, hz⟩ := stripZeros_split (hexFixed 13 (f64.frac B))
    generalize hfr : stripZeros (hexFixed 13 (f64.frac B)) = fr at hz
    generalize hex : (if f64.expField B = 0 then (-1022 : Int) else (f64.expField B : Int) - 1023) = ex
    obtain ⟨hn1, hn2, hn3⟩ := fmtNat_facts ex.natAbs
    refine ⟨if f64.expField B = 0 then 48 else 49, fr, decide (ex < 0), fmtNat ex.natAbs, ?_, ?_, ?_, ?_, hn1, hn2, ?_⟩
    · unfold fmtA hexTxt
      simp only [hc, hfr, hex]
      by_cases hneg : ex < 0 <;> simp [hneg]
    · split <;> decide
    · intro c hc'
      rw [← hfr] at hc'
      exact hfall c (stripZeros_mem _ c hc')
    · rw [← hfr]; exact stripZeros_idem _
    · right
      refine ⟨hs, z, ?_, ?_⟩
      · have hlen : fr.length + z = 13 := by
          have := congrArg List.length hz
          rw [hflen] at this; simp at this; omega
        have hv : f64.frac B = digitsVal 16 fr * 16 ^ z := by
          rw [← hfval, hz, digitsVal_zeros_right]
        have h16 : (2 : Nat) ^ (4 * z) = 16 ^ z := by
          rw [Nat.pow_mul]
        rw [h16, Nat.add_mul, Nat.mul_assoc, ← Nat.pow_add, hlen, ← hv]
        unfold FFmt.sig
        have h52 : f64.mbits = 52 := rfl
        rw [h52]
        split
        · simp [dval]
        · have : dval 49 = 1 := by decide
          rw [this]; norm_num
      · have hlen : (fr.length : Int) + z = 13 := by
          have := congrArg List.length hz
          rw [hflen] at this; simp at this; omega
        have hexv : (if decide (ex < 0) = true then -(digitsVal 10 (fmtNat ex.natAbs) : Int) else (digitsVal 10 (fmtNat ex.natAbs) : Int)) = ex := by
          rw [hn3]
          by_cases hneg : ex < 0
          · simp only [hneg, decide_true, ↓reduceIte]; omega
          · simp only [hneg, decide_false, Bool.false_eq_true, ↓reduceIte]; omega
        rw [hexv, ← hex]
        unfold FFmt.exq
        have hq : f64.qmin = -1074 := by decide
        have hb : (f64.bias : Int) = 1023 := by decide
        have hm : (f64.mbits : Int) = 52 := by decide
        rw [hq, hb, hm]
        split <;> omega

/-! ### the encoding of a finite datum is `encBits` of its significand and exponent -/

theorem encBits_f64 (B : Nat) (hfin : f64.expField B ≠ 2047) (hs : f64.sig B ≠ 0) :
    f64.sig B < 2 ^ (f64.mbits + 1) ∧ f64.qmin ≤ f64.exq B ∧
    (2 ^ f64.mbits ≤ f64.sig B ∨ f64.exq B = f64.qmin) ∧
    (f64.exq B - f64.qmin + 1).toNat < f64.expMax ∧ -1200 ≤ f64.exq B ∧ f64.exq B + f64.mbits ≤ 1100 ∧
    encBits f64 (f64.sig B) (f64.exq B) = f64.mag B := by
  obtain ⟨hsig, hfrac, hef, hmag, _⟩ := f64_fields B
  have hq : f64.qmin = -1074 := by decide
  have hb : (f64.bias : Int) = 1023 := by decide
  have hm : f64.mbits = 52 := by decide
  have hmax : f64.expMax = 2047 := by decide
  have hp : 0 < 2 ^ f64.mbits := Nat.two_pow_pos _
  unfold encBits
  rw [hmag]
  unfold FFmt.sig at hs hsig ⊢
  unfold FFmt.exq
  rw [hq, hb, hmax]
  by_cases h0 : f64.expField B = 0
  · rw [if_pos h0] at hs hsig
    simp only [h0, ↓reduceIte]
    rw [hm]; try rw [hm] at hs
    refine ⟨by omega, by omega, by first | omega | exact Or.inr trivial, by omega, by omega, by omega, ?_⟩
    have : 0 + f64.frac B < 2 ^ 52 := by omega
    simp only [this, ↓reduceIte]; omega
  · rw [if_neg h0] at hs hsig
    simp only [h0, ↓reduceIte]
    rw [hm]; try rw [hm] at hs
    refine ⟨by omega, by omega, by omega, by omega, by omega, by omega, ?_⟩
    have : ¬ (2 ^ 52 + f64.frac B < 2 ^ 52) := by omega
    simp only [this, ↓reduceIte]
    have : ((f64.expField B : Int) - 1023 - ((52 : Nat) : Int) - -1074 + 1).toNat = f64.expField B := by omega
    rw [this]; omega

theorem f32_fields (b : Nat) :
    f32.sig b < 2 ^ 24 ∧ f32.frac b < 2 ^ 23 ∧ f32.expField b < 256 ∧
    f32.mag b = f32.expField b * 2 ^ 23 + f32.frac b ∧
    b % 2 ^ 32 = (if f32.sign b then 2 ^ 31 else 0) + f32.mag b := by
  simp only [FFmt.sig, FFmt.expField, FFmt.mag, FFmt.frac, FFmt.sign, FFmt.signBit, f32, Nat.reduceAdd, Nat.reducePow]
  refine ⟨?_, ?_, ?_, ?_, ?_⟩
  · by_cases h : b % 2147483648 / 8388608 = 0 <;> simp only [h, ↓reduceIte] <;> omega
  · omega
  · omega
  · omega
  · by_cases h : b / 2147483648 % 2 = 1 <;> simp only [h, decide_true, decide_false, Bool.false_eq_true, ↓reduceIte] <;> omega

theorem encBits_f32 (b : Nat) (hfin : f32.expField b ≠ 255) (hs : f32.sig b ≠ 0) :
    f32.sig b < 2 ^ (f32.mbits + 1) ∧ f32.qmin ≤ f32.exq b ∧
    (2 ^ f32.mbits ≤ f32.sig b ∨ f32.exq b = f32.qmin) ∧
    (f32.exq b - f32.qmin + 1).toNat < f32.expMax ∧ -1200 ≤ f32.exq b ∧ f32.exq b + f32.mbits ≤ 1100 ∧
    encBits f32 (f32.sig b) (f32.exq b) = f32.mag b := by
  obtain ⟨hsig, hfrac, hef, hmag, _⟩ := f32_fields b
  have hq : f32.qmin = -149 := by decide
  have hb : (f32.bias : Int) = 127 := by decide
  have hm : f32.mbits = 23 := by decide
  have hmax : f32.expMax = 255 := by decide
  have hp : 0 < 2 ^ f32.mbits := Nat.two_pow_pos _
  unfold encBits
  rw [hmag]
  unfold FFmt.sig at hs hsig ⊢
  unfold FFmt.exq
  rw [hq, hb, hmax]
  by_cases h0 : f32.expField b = 0
  · rw [if_pos h0] at hs hsig
    simp only [h0, ↓reduceIte]
    rw [hm]; try rw [hm] at hs
    refine ⟨by omega, by omega, by first | omega | exact Or.inr trivial, by omega, by omega, by omega, ?_⟩
    have : 0 + f32.frac b < 2 ^ 23 := by omega
    simp only [this, ↓reduceIte]; omega
  · rw [if_neg h0] at hs hsig
    simp only [h0, ↓reduceIte]
    rw [hm]; try rw [hm] at hs
    refine ⟨by omega, by omega, by omega, by omega, by omega, by omega, ?_⟩
    have : ¬ (2 ^ 23 + f32.frac b < 2 ^ 23) := by omega
    simp only [this, ↓reduceIte]
    have : ((f32.expField b : Int) - 127 - ((23 : Nat) : Int) - -149 + 1).toNat = f32.expField b := by omega
    rw [this]; omega

/-- **lossless round trip, double**: `%lf` of sscanf reads the `%la` text of a finite double back
    bit-exactly (the text is followed by ")") -/
theorem scanFloat_fmtA_f64 (B : Nat) (hB : B < 2 ^ 64) (hfin : f64.expField B ≠ 2047) (rest : Bytes) :
    scanFloat f64 (fmtA B ++ 41 :: rest) = some (B, 41 :: rest) := by
  obtain ⟨lead, fr, eneg, eds, htxt, hlead, hfr, _, hne, heds, hval⟩ := fmtA_fin B hfin
  obtain ⟨_, _, _, hmag, hsplit⟩ := f64_fields B
  rw [Nat.mod_eq_of_lt hB] at hsplit
  have hsb : f64.signBit = 2 ^ 63 := by decide
  rw [htxt, scanFloat_hexTxt f64 _ lead fr eneg eds rest hlead hfr hne heds, hsb]
  congr 2
  rcases hval with ⟨hs, hm⟩ | ⟨hs, z, hm, hx⟩
  · rw [hm, hexToBits_zero]
    have : f64.mag B = 0 := by
      rw [hmag]
      unfold FFmt.sig at hs
      have hp : 0 < 2 ^ f64.mbits := Nat.two_pow_pos _
      by_cases h0 : f64.expField B = 0
      · simp only [h0, ↓reduceIte, Nat.zero_add] at hs; simp [h0, hs]
      · simp only [h0, ↓reduceIte] at hs; omega
    omega
  · obtain ⟨a1, a2, a3, a4, a5, a6, a7⟩ := encBits_f64 B hfin hs
    rw [hexToBits_exact f64 _ _ (f64.sig B) (f64.exq B) (4 * z) 0 (by simpa using hm) (by push_cast; omega)
      hs a1 a2 a3 a4 a5 a6, a7]
    omega

/-! ### `(double)f` -/

theorem sig_eq (F : FFmt) (b : Nat) : F.sig b = (if F.expField b = 0 then 0 else 2 ^ F.mbits) + F.frac b := rfl
theorem exq_eq (F : FFmt) (b : Nat) :
    F.exq b = if F.expField b = 0 then F.qmin else (F.expField b : Int) - (F.bias : Int) - (F.mbits : Int) := rfl

/-- the fields of a double assembled from sign, exponent field and fraction -/
theorem f64_assemble (s : Bool) (ef fr : Nat) (hef : ef < 2048) (hfr : fr < 2 ^ 52) :
    f64.sign ((if s then 2 ^ 63 else 0) + (ef * 2 ^ 52 + fr)) = s ∧
    f64.expField ((if s then 2 ^ 63 else 0) + (ef * 2 ^ 52 + fr)) = ef ∧
    f64.frac ((if s then 2 ^ 63 else 0) + (ef * 2 ^ 52 + fr)) = fr := by
  simp only [FFmt.expField, FFmt.mag, FFmt.frac, FFmt.sign, FFmt.signBit, f64, Nat.reduceAdd, Nat.reducePow]
  cases s
  · simp only [Bool.false_eq_true, ↓reduceIte, decide_eq_false_iff_not]
    refine ⟨by omega, by omega, by omega⟩
  · simp only [↓reduceIte, decide_eq_true_eq]
    refine ⟨by omega, by omega, by omega⟩

/-- `(double)f` of a finite float: same sign, same value -/
theorem promote_fin (b : Nat) (hfin : f32.expField b ≠ 255) :
    f64.expField (promote b) ≠ 2047 ∧ promote b < 2 ^ 64 ∧ f64.sign (promote b) = f32.sign b ∧
    ((f32.sig b = 0 ∧ f64.sig (promote b) = 0) ∨
     (f32.sig b ≠ 0 ∧ ∃ s : Nat, f64.sig (promote b) = f32.sig b * 2 ^ s ∧ f64.exq (promote b) = f32.exq b - s)) := by
  have hmax : f32.expMax = 255 := by decide
  unfold promote
  rcases classify_fin f32 b (by rw [hmax]; exact hfin) with ⟨hs, hc⟩ | ⟨hs, hc⟩
  · rw [hc]
    simp only [FFmt.ofMag]
    have hsb : f64.signBit = 2 ^ 63 := by decide
    rw [hsb]
    obtain ⟨a1, a2, a3⟩ := f64_assemble (f32.sign b) 0 0 (by omega) (by omega)
    simp only [Nat.zero_mul, Nat.add_zero] at a1 a2 a3
    refine ⟨by rw [a2]; omega, by split <;> omega, a1, Or.inl ⟨hs, ?_⟩⟩
    unfold FFmt.sig
    rw [a2, a3]; rfl
  · rw [hc]
    simp only [FFmt.ofMag, FFmt.ofScaled]
    have hsb : f64.signBit = 2 ^ 63 := by decide
    rw [hsb]
    obtain ⟨b1, b2, b3, b4, b5, b6, _⟩ := encBits_f32 b hfin hs
    have hq32 : f32.qmin = -149 := by decide
    have hm32 : f32.mbits = 23 := by decide
    have hx32 : f32.expMax = 255 := by decide
    rw [hm32] at b1 b3
    rw [hq32, hx32] at b4
    rw [hq32] at b2
    -- normalise the significand to 53 bits
    have hL : Nat.log2 (f32.sig b) ≤ 23 := by
      have := (Nat.log2_lt hs).mpr b1; omega
    generalize hLd : Nat.log2 (f32.sig b) = L at hL
    have hlo : 2 ^ L ≤ f32.sig b := by rw [← hLd]; exact Nat.log2_self_le hs
    have hhi : f32.sig b < 2 ^ (L + 1) := by rw [← hLd]; exact Nat.lt_log2_self
    have hp : (2 : Nat) ^ L * 2 ^ (52 - L) = 2 ^ 52 := by rw [← Nat.pow_add]; congr 1; omega
    have hp' : (2 : Nat) ^ (L + 1) * 2 ^ (52 - L) = 2 ^ 53 := by rw [← Nat.pow_add]; congr 1; omega
    have hMlo : 2 ^ 52 ≤ f32.sig b * 2 ^ (52 - L) := by
      rw [← hp]; exact Nat.mul_le_mul_right _ hlo
    have hMhi : f32.sig b * 2 ^ (52 - L) < 2 ^ 53 := by
      rw [← hp']; exact Nat.mul_lt_mul_of_pos_right hhi (Nat.two_pow_pos _)
    have hq : f64.qmin = -1074 := by decide
    have hm : f64.mbits = 52 := by decide
    have hmax64 : f64.expMax = 2047 := by decide
    have hex := scaled_exact f64 (f32.sig b) (f32.exq b) (f32.sig b * 2 ^ (52 - L)) (f32.exq b - ((52 - L : Nat) : Int))
      (52 - L) 0 (by simp) (by omega) (by omega) (by rw [hm]; exact hMhi) (by rw [hq]; omega)
      (Or.inl (by rw [hm]; exact hMlo)) (by rw [hq, hmax64]; omega)
    rw [hex]
    unfold encBits
    rw [hm, hq]
    have hnlt : ¬ (f32.sig b * 2 ^ (52 - L) < 2 ^ 52) := by omega
    simp only [hnlt, ↓reduceIte]
    generalize hEF : (f32.exq b - ((52 - L : Nat) : Int) - -1074 + 1).toNat = EF
    have hEF1 : (EF : Int) = f32.exq b - ((52 - L : Nat) : Int) + 1075 := by omega
    obtain ⟨c1, c2, c3⟩ := f64_assemble (f32.sign b) EF (f32.sig b * 2 ^ (52 - L) - 2 ^ 52) (by omega) (by omega)
    refine ⟨by rw [c2]; omega, ?_, c1, Or.inr ⟨hs, 52 - L, ?_, ?_⟩⟩
    · have : EF * 2 ^ 52 + (f32.sig b * 2 ^ (52 - L) - 2 ^ 52) < 2 ^ 63 := by omega
      split <;> omega
    · rw [sig_eq f64, c2, c3, hm]
      have : EF ≠ 0 := by omega
      simp only [this, ↓reduceIte]; omega
    · rw [exq_eq f64, c2]
      have : EF ≠ 0 := by omega
      have hb : (f64.bias : Int) = 1023 := by decide
      simp only [this, ↓reduceIte, hb, hm]; omega

/-- **lossless round trip, float**: `%f` of sscanf reads the `%a` text of a finite float (promoted
    to double by printf) back bit-exactly (the text is followed by ")") -/
theorem scanFloat_fmtA_f32 (b : Nat) (hb : b < 2 ^ 32) (hfin : f32.expField b ≠ 255) (rest : Bytes) :
    scanFloat f32 (fmtA (promote b) ++ 41 :: rest) = some (b, 41 :: rest) := by
  obtain ⟨hPfin, _, hPsign, hP⟩ := promote_fin b hfin
  obtain ⟨lead, fr, eneg, eds, htxt, hlead, hfr, _, hne, heds, hval⟩ := fmtA_fin (promote b) hPfin
  obtain ⟨_, _, _, hmag, hsplit⟩ := f32_fields b
  rw [Nat.mod_eq_of_lt hb] at hsplit
  have hsb : f32.signBit = 2 ^ 31 := by decide
  rw [htxt, scanFloat_hexTxt f32 _ lead fr eneg eds rest hlead hfr hne heds, hsb, hPsign]
  congr 2
  rcases hP with ⟨hs32, hs64⟩ | ⟨hs32, s, hsig, hexq⟩
  · rcases hval with ⟨_, hm⟩ | ⟨hs, _⟩
    · rw [hm, hexToBits_zero]
      have : f32.mag b = 0 := by
        rw [hmag]
        unfold FFmt.sig at hs32
        have hp : 0 < 2 ^ f32.mbits := Nat.two_pow_pos _
        by_cases h0 : f32.expField b = 0
        · simp only [h0, ↓reduceIte, Nat.zero_add] at hs32; simp [h0, hs32]
        · simp only [h0, ↓reduceIte] at hs32; omega
      omega
    · exact absurd hs64 hs
  · rcases hval with ⟨hs, _⟩ | ⟨hs, z, hm, hx⟩
    · rw [hsig] at hs
      have : 0 < f32.sig b * 2 ^ s := Nat.mul_pos (by omega) (Nat.two_pow_pos _)
      omega
    · obtain ⟨a1, a2, a3, a4, a5, a6, a7⟩ := encBits_f32 b hfin hs32
      rw [hexToBits_exact f32 _ _ (f32.sig b) (f32.exq b) (4 * z) s (by rw [hm, hsig]) (by rw [hx, hexq]; omega)
        hs32 a1 a2 a3 a4 a5 a6, a7]
      omega

/-! ### decimal float text -/

theorem takeDec_count_le : ∀ (s : Bytes) (v k : Nat), k ≤ (takeDec s v k).2.1 := by
  intro s
  induction s with
  | nil => intro v k; simp [takeDec]
  | cons c r ih =>
    intro v k
    simp only [takeDec]
    split
    · have := ih (v * 10 + dval c) (k + 1); omega
    · simp

/-- the decimal branch of `strtodMag` -/
def strtodDec (F : FFmt) (buf : Bytes) : Option (Nat × Nat) :=
  let (ip, ik, r1) := takeDec buf 0 0
  let (m, fk, r2) := match r1 with
    | 46 :: r' => let (v, k, r'') := takeDec r' ip 0; (v, k, r'')
    | _ => (ip, 0, r1)
  if ik + fk = 0 then none
  else
    let (ex, r3) := takeExp 101 r2
    some (decToBits F m (ex - (fk : Int)), buf.length - r3.length)

theorem strtodMag_dec (F : FFmt) (buf : Bytes) :
    strtodMag F buf = strtodDec F buf ∨ ∃ v, strtodMag F buf = some v := by
  unfold strtodMag strtodDec
  simp only []
  split
  · right; exact ⟨_, rfl⟩
  · left; rfl

/-- `strtod` converts something when the buffer starts with a digit -/
theorem strtodMag_some (F : FFmt) (d : UInt8) (r : Bytes) (hd0 : isdigit d = true) :
    ∃ v, strtodMag F (d :: r) = some v := by
  have hk : 1 ≤ (takeDec (d :: r) 0 0).2.1 := by
    simp only [takeDec, hd0, ↓reduceIte]
    exact takeDec_count_le r _ _
  rcases strtodMag_dec F (d :: r) with h | h
  · rw [h]
    unfold strtodDec
    generalize takeDec (d :: r) 0 0 = t at hk
    obtain ⟨ip, ik, r1⟩ := t
    simp only at hk
    simp only []
    split <;> (simp only []; split <;> first | omega | exact ⟨_, rfl⟩)
  · exact h

theorem digit_or_dot_facts (c : UInt8) (h : isdigit c = true ∨ c = 46) :
    tolower c ≠ 120 ∧ tolower c ≠ 110 ∧ tolower c ≠ 105 ∧ isspace c = false ∧ c ≠ 45 ∧ c ≠ 43 := by
  revert h; revert c; apply UInt8.forall_of_fin; decide +kernel

/-- the float collection loop stops -/
theorem collectFloat_stop_dec (rest : Bytes) (gd : Bool)
    (h1 : isdigit (hd rest) = false) (h2 : tolower (hd rest) ≠ 101) :
    collectFloat rest ⟨gd, false, true, false, false⟩ = ([], rest) := by
  cases rest with
  | nil => rfl
  | cons c r =>
    simp only [hd_cons] at h1 h2
    simp [collectFloat, h1, h2]

/-- the float collection loop on `digits . digits` -/
theorem collectFloat_dec (ds fr rest : Bytes) (gd : Bool) (hds : ∀ c ∈ ds, isdigit c = true)
    (hfr : ∀ c ∈ fr, isdigit c = true)
    (h1 : isdigit (hd rest) = false) (h2 : tolower (hd rest) ≠ 101) :
    collectFloat (ds ++ 46 :: (fr ++ rest)) ⟨gd, false, false, false, false⟩ = (ds ++ 46 :: fr, rest) := by
  rw [collectFloat_digits ds _ hds]
  simp only [Bool.false_and]
  rw [collectFloat_dot, collectFloat_digits fr _ hfr]
  simp only [Bool.false_and]
  rw [collectFloat_stop_dec rest _ h1 h2]
  simp

/-- `%f` / `%lf` of sscanf on `[-]digits.digits`: everything is consumed and a value is delivered -/
theorem scanFloat_dec (F : FFmt) (neg : Bool) (d : UInt8) (ds fr rest : Bytes)
    (hd0 : isdigit d = true) (hds : ∀ c ∈ ds, isdigit c = true) (hfr : ∀ c ∈ fr, isdigit c = true)
    (h1 : isdigit (hd rest) = false) (h2 : tolower (hd rest) ≠ 101) :
    ∃ v, scanFloat F ((if neg then [45] else []) ++ d :: (ds ++ 46 :: (fr ++ rest))) = some (v, rest) := by
  obtain ⟨_, t110, t105, hsp, h45, h43⟩ := digit_or_dot_facts d (Or.inl hd0)
  have hnext : tolower (hd (ds ++ 46 :: (fr ++ rest))) ≠ 120 := by
    cases ds with
    | nil => simp; decide
    | cons c t => exact (digit_or_dot_facts c (Or.inl (hds c (by simp)))).1
  obtain ⟨v, hv⟩ := strtodMag_some F d (ds ++ 46 :: fr) hd0
  have hsp45 : isspace 45 = false := by decide
  have hall : ∀ c ∈ d :: ds, isdigit c = true := by
    intro c hc; simp at hc; rcases hc with rfl | hc; exact hd0; exact hds c hc
  have hcf1 := collectFloat_dec ds fr rest true hds hfr h1 h2
  have hcf2 := collectFloat_dec (d :: ds) fr rest false hall hfr h1 h2
  simp only [List.cons_append] at hcf2
  have hne : (d :: (ds ++ 46 :: fr)) ≠ [] := by simp
  unfold scanFloat
  cases neg
  · simp only [Bool.false_eq_true, ↓reduceIte, List.nil_append, skipSpace, hsp]
    by_cases h48 : d = 48
    · subst h48
      refine ⟨v.1, ?_⟩
      simp [hnext, hcf1, hv, t110, t105]
    · refine ⟨v.1, ?_⟩
      simp [h48, h45, h43, t110, t105, hcf2, hv]
  · simp only [↓reduceIte, List.cons_append, List.nil_append, skipSpace, hsp45, Bool.false_eq_true]
    by_cases h48 : d = 48
    · subst h48
      refine ⟨F.signBit + v.1, ?_⟩
      simp [hnext, hcf1, hv, t110, t105]
    · refine ⟨F.signBit + v.1, ?_⟩
      simp [h48, t110, t105, hcf2, hv]

theorem fmtNat_shape (n : Nat) :
    ∃ d ds, fmtNat n = d :: ds ∧ isdigit d = true ∧ (∀ c ∈ ds, isdigit c = true) ∧ (d = 48 → ds = []) := by
  unfold fmtNat
  by_cases h : n = 0
  · subst h; exact ⟨48, [], by simp, by decide, by simp, fun _ => rfl⟩
  · simp only [h, ↓reduceIte]
    obtain ⟨d, ds, he, hd1, hd2⟩ := decDigits_head n (by omega)
    refine ⟨d, ds, he, hd1, ?_, fun h48 => absurd h48 hd2⟩
    intro c hc
    exact decDigits_all_digit n c (by rw [he]; simp [hc])

/-- the shape of `%#.Nf` output for a finite double: sign, integer part, ".", N digits -/
theorem fmtF_fin (p B : Nat) (hfin : f64.expField B ≠ 2047) :
    ∃ n fr, fmtF true p B = (if f64.sign B then [45] else []) ++ fmtNat n ++ 46 :: fr ∧
      (∀ c ∈ fr, isdigit c = true) ∧ fr.length = p := by
  have hmax : f64.expMax = 2047 := by decide
  have hbody : ∀ q : Nat, ∃ fr, (let ip := fmtNat (q / 10 ^ p)
      if p = 0 then (if true then ip ++ [46] else ip)
      else ip ++ 46 :: padZero p (if q % 10 ^ p = 0 then [] else decDigitsAux (q % 10 ^ p) [])) =
        fmtNat (q / 10 ^ p) ++ 46 :: fr ∧ (∀ c ∈ fr, isdigit c = true) ∧ fr.length = p := by
    intro q
    by_cases hp : p = 0
    · subst hp; exact ⟨[], by simp, by simp, rfl⟩
    · simp only [hp, ↓reduceIte]
      have hlt : q % 10 ^ p < 10 ^ p := Nat.mod_lt _ (Nat.pow_pos (by decide))
      by_cases h0 : q % 10 ^ p = 0
      · simp only [h0, ↓reduceIte]
        exact ⟨_, rfl, padZero_all _ _ _ (by decide) (by simp), padZero_length _ _ (by simp)⟩
      · simp only [h0, ↓reduceIte]
        exact ⟨_, rfl, padZero_all _ _ _ (by decide) (decDigits_all_digit _),
          padZero_length _ _ (decDigits_length p _ hlt)⟩
  unfold fmtF
  rcases classify_fin f64 B (by rw [hmax]; exact hfin) with ⟨_, hc⟩ | ⟨_, hc⟩
  · obtain ⟨fr, h1, h2, h3⟩ := hbody 0
    refine ⟨0 / 10 ^ p, fr, ?_, h2, h3⟩
    simp only [hc]
    simp only [] at h1
    rw [h1]; simp
  · obtain ⟨fr, h1, h2, h3⟩ := hbody (scaledRound (f64.sig B) (f64.exq B) p)
    refine ⟨scaledRound (f64.sig B) (f64.exq B) p / 10 ^ p, fr, ?_, h2, h3⟩
    simp only [hc]
    simp only [] at h1
    rw [h1]; simp

/-! ### integer conversions on float texts -/

theorem takeDigits_nondigit (base : Nat) (r : Bytes) (w : Option Nat) (h : digitOk base (hd r) = false) :
    takeDigits base r w = ([], r) := by
  cases r with
  | nil => rfl
  | cons c t => simp only [hd_cons] at h; simp [takeDigits, h]

/-- "-0" with `%d` / `%i` -/
theorem scanInt_negzero (conv : IntConv) (hconv : conv ≠ .x) (r : Bytes)
    (h1 : isdigit (hd r) = false) (h2 : tolower (hd r) ≠ 120) :
    scanInt conv none (45 :: 48 :: r) = some (0, r) := by
  have h45sp : isspace 45 = false := by decide
  have hd8 : digitOk 8 (hd r) = false := by simp [digitOk, h1]
  have hd10 : digitOk 10 (hd r) = false := by simp [digitOk, h1]
  unfold scanInt
  simp only [skipSpace, h45sp, Bool.false_eq_true, ↓reduceIte]
  cases conv with
  | x => exact absurd rfl hconv
  | d => simp [intPrefix10_zero r none rfl, wDec, takeDigits_nondigit 10 r none hd10, digitsVal, intValue, clampI64]
  | i => simp [intPrefix, wOk, wDec, h2, takeDigits_nondigit 8 r none hd8, digitsVal, intValue, clampI64]

theorem exists_of_map_snd {α β : Type} (o : Option (α × β)) (r : β) (h : o.map Prod.snd = some r) :
    ∃ v, o = some (v, r) := by
  cases o with
  | none => simp at h
  | some p => obtain ⟨a, b⟩ := p; simp at h; subst h; exact ⟨a, rfl⟩

/-- what follows the leading digit of a hexadecimal float text -/
def hexRest (fr : Bytes) (eneg : Bool) (eds : Bytes) : Bytes :=
  (if fr.isEmpty then [] else 46 :: fr) ++ 112 :: (if eneg then 45 else 43) :: eds

theorem hexBody_eq (lead : UInt8) (fr : Bytes) (eneg : Bool) (eds : Bytes) :
    hexBody lead fr eneg eds = lead :: hexRest fr eneg eds := rfl

theorem hexRest_hd (fr : Bytes) (eneg : Bool) (eds tail : Bytes) :
    hd (hexRest fr eneg eds ++ tail) = 46 ∨ hd (hexRest fr eneg eds ++ tail) = 112 := by
  unfold hexRest
  by_cases h : fr.isEmpty = true
  · right; simp [h]
  · left; simp [h]

theorem hexTxt_length (neg : Bool) (lead : UInt8) (fr : Bytes) (eneg : Bool) (eds : Bytes) :
    (hexTxt neg lead fr eneg eds).length = (if neg then 1 else 0) + 3 + (hexRest fr eneg eds).length ∧
    2 ≤ (hexRest fr eneg eds).length := by
  rw [hexTxt_eq, hexBody_eq]
  unfold hexRest
  cases neg <;> simp <;> omega

/-- `%i` on a hexadecimal float text reads `0x` and the leading digit -/
theorem scanInt_i_hexTxt (neg : Bool) (lead : UInt8) (fr : Bytes) (eneg : Bool) (eds tail : Bytes)
    (hlead : isdigit lead = true) :
    ∃ v, scanInt .i none (hexTxt neg lead fr eneg eds ++ tail) = some (v, hexRest fr eneg eds ++ tail) := by
  have h45sp : isspace 45 = false := by decide
  have h48sp : isspace 48 = false := by decide
  have ht120 : tolower 120 = 120 := by decide
  have hxl : isxdigit lead = true := by simp [isxdigit, hlead]
  have hnx : digitOk 16 (hd (hexRest fr eneg eds ++ tail)) = false := by
    rcases hexRest_hd fr eneg eds tail with h | h <;> rw [h] <;> decide
  have htd : takeDigits 16 (lead :: (hexRest fr eneg eds ++ tail)) none = ([lead], hexRest fr eneg eds ++ tail) := by
    simp [takeDigits, wOk, wDec, digitOk, hxl, takeDigits_nondigit 16 _ none hnx]
  rw [hexTxt_eq, hexBody_eq]
  unfold scanInt
  cases neg
  · simp only [Bool.false_eq_true, ↓reduceIte, List.nil_append, List.cons_append, skipSpace, h48sp]
    apply exists_of_map_snd
    simp [intPrefix, wOk, wDec, ht120, htd]
  · simp only [↓reduceIte, List.cons_append, List.nil_append, skipSpace, h45sp, Bool.false_eq_true]
    apply exists_of_map_snd
    simp [intPrefix, wOk, wDec, ht120, htd]

/-- `%d` on a hexadecimal float text reads the `0` -/
theorem scanInt_d_hexTxt (neg : Bool) (lead : UInt8) (fr : Bytes) (eneg : Bool) (eds tail : Bytes) :
    ∃ v, scanInt .d none (hexTxt neg lead fr eneg eds ++ tail) =
      some (v, 120 :: lead :: (hexRest fr eneg eds ++ tail)) := by
  have h45sp : isspace 45 = false := by decide
  have h48sp : isspace 48 = false := by decide
  have hnx : digitOk 10 (hd (120 :: lead :: (hexRest fr eneg eds ++ tail))) = false := by
    rw [hd_cons]; decide
  rw [hexTxt_eq, hexBody_eq]
  unfold scanInt
  cases neg
  · simp only [Bool.false_eq_true, ↓reduceIte, List.nil_append, List.cons_append, skipSpace, h48sp]
    apply exists_of_map_snd
    simp [intPrefix10_zero _ none rfl, wDec, takeDigits_nondigit 10 _ none hnx]
  · simp only [↓reduceIte, List.cons_append, List.nil_append, skipSpace, h45sp, Bool.false_eq_true]
    apply exists_of_map_snd
    simp [intPrefix10_zero _ none rfl, wDec, takeDigits_nondigit 10 _ none hnx]

/-- libc-level statement of the lossless round trip of a finite `float`:
    `sscanf("%f")` of `printf("%a", (double)f)` followed by ")" gives `f` back bit-exactly -/
theorem float_lossless_roundtrip (b : UInt32) (hfin : f32.expField b.toNat ≠ 255) (rest : Bytes) :
    scanFloat f32 (fmtA (promote b.toNat) ++ 41 :: rest) = some (b.toNat, 41 :: rest) :=
  scanFloat_fmtA_f32 b.toNat b.toNat_lt hfin rest

/-- libc-level statement of the lossless round trip of a finite `double` -/
theorem double_lossless_roundtrip (b : UInt64) (hfin : f64.expField b.toNat ≠ 2047) (rest : Bytes) :
    scanFloat f64 (fmtA b.toNat ++ 41 :: rest) = some (b.toNat, 41 :: rest) :=
  scanFloat_fmtA_f64 b.toNat b.toNat_lt hfin rest

end Rtosc.Libc
