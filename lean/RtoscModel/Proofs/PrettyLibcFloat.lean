/-
  C10 — lemmas about the libc float model: exactness of `roundPos`/`hexToBits` on representable
  values, the shape of `%a` and `%#.Nf` output, `scanFloat` on such texts, and the lossless
  round trip `scanFloat (fmtA b) = b` for finite floats and doubles.
-/
import RtoscModel.Proofs.PrettyLibc
import Mathlib.Tactic.Ring
import Mathlib.Tactic.Linarith
namespace Rtosc.Libc
open Rtosc

theorem log2_eq_of_bounds (n k : Nat) (h1 : 2 ^ k ≤ n) (h2 : n < 2 ^ (k + 1)) : Nat.log2 n = k := by
  have hn : n ≠ 0 := by
    have : 0 < 2 ^ k := Nat.two_pow_pos _
    omega
  have a : k ≤ n.log2 := (Nat.le_log2 hn).mpr h1
  have b : n.log2 < k + 1 := (Nat.log2_lt hn).mpr h2
  omega

theorem log2_mul_pow2 (n k : Nat) (hn : n ≠ 0) : Nat.log2 (n * 2 ^ k) = Nat.log2 n + k := by
  apply log2_eq_of_bounds
  · rw [Nat.pow_add]; exact Nat.mul_le_mul_right _ (Nat.log2_self_le hn)
  · have : n < 2 ^ (n.log2 + 1) := Nat.lt_log2_self
    calc n * 2 ^ k < 2 ^ (n.log2 + 1) * 2 ^ k := Nat.mul_lt_mul_of_pos_right this (Nat.two_pow_pos _)
      _ = 2 ^ (n.log2 + k + 1) := by ring

/-- `ratLog2` with a power of two as denominator -/
theorem ratLog2_pow2 (num j : Nat) (hn : num ≠ 0) : ratLog2 num (2 ^ j) = (Nat.log2 num : Int) - j := by
  unfold ratLog2
  simp only [Nat.log2_two_pow]
  have hle := Nat.log2_self_le hn
  have hge : (if (Nat.log2 num : Int) - (j : Int) ≥ 0
      then decide (num ≥ 2 ^ j * 2 ^ ((Nat.log2 num : Int) - (j : Int)).toNat)
      else decide (num * 2 ^ (-((Nat.log2 num : Int) - (j : Int))).toNat ≥ 2 ^ j)) = true := by
    split
    · next h =>
      have : j + ((Nat.log2 num : Int) - (j : Int)).toNat = Nat.log2 num := by omega
      rw [← Nat.pow_add, this]; simpa using hle
    · next h =>
      have : Nat.log2 num + (-((Nat.log2 num : Int) - (j : Int))).toNat = j := by omega
      simp only [ge_iff_le, decide_eq_true_eq]
      calc 2 ^ j = 2 ^ Nat.log2 num * 2 ^ (-((Nat.log2 num : Int) - (j : Int))).toNat := by rw [← Nat.pow_add, this]
        _ ≤ _ := Nat.mul_le_mul_right _ hle
  simp only [hge, ↓reduceIte]

/-- the encoding of the representable value `M · 2^E` -/
def encBits (F : FFmt) (M : Nat) (E : Int) : Nat :=
  if M < 2 ^ F.mbits then M else (E - F.qmin + 1).toNat * 2 ^ F.mbits + (M - 2 ^ F.mbits)

theorem roundPos_exact (F : FFmt) (num j M : Nat) (E : Int)
    (hM0 : M ≠ 0) (hM : M < 2 ^ (F.mbits + 1)) (hE : F.qmin ≤ E) (hnorm : 2 ^ F.mbits ≤ M ∨ E = F.qmin)
    (hef : (E - F.qmin + 1).toNat < F.expMax)
    (hrel : if E ≥ 0 then num = M * 2 ^ E.toNat * 2 ^ j else num * 2 ^ (-E).toNat = M * 2 ^ j) :
    roundPos F num (2 ^ j) = encBits F M E := by
  have hnum0 : num ≠ 0 := by
    intro h0; subst h0
    have hp : 0 < M * 2 ^ j := Nat.mul_pos (by omega) (Nat.two_pow_pos _)
    split at hrel
    · have : 0 < M * 2 ^ E.toNat * 2 ^ j := Nat.mul_pos (Nat.mul_pos (by omega) (Nat.two_pow_pos _)) (Nat.two_pow_pos _)
      omega
    · omega
  have hlogM : Nat.log2 M ≤ F.mbits := by
    have := (Nat.log2_lt hM0).mpr hM; omega
  have hlog : (Nat.log2 num : Int) - j = Nat.log2 M + E := by
    split at hrel
    · next h =>
      have : Nat.log2 num = Nat.log2 M + E.toNat + j := by
        rw [hrel, log2_mul_pow2 _ _ (Nat.mul_ne_zero hM0 (by have := Nat.two_pow_pos E.toNat; omega)), log2_mul_pow2 _ _ hM0]
      omega
    · next h =>
      have h1 := log2_mul_pow2 num (-E).toNat hnum0
      have h2 := log2_mul_pow2 M j hM0
      rw [hrel] at h1
      omega
  have he : max F.qmin ((Nat.log2 num : Int) - j - (F.mbits : Int)) = E := by
    rw [hlog]
    rcases hnorm with h | h
    · have : Nat.log2 M = F.mbits := by
        have := (Nat.le_log2 hM0).mpr h; omega
      omega
    · omega
  unfold roundPos
  simp only [hnum0, ↓reduceIte, ratLog2_pow2 num j hnum0, he]
  by_cases hE0 : E ≥ 0
  · simp only [hE0, ↓reduceIte] at hrel ⊢
    have hq : num / (2 ^ j * 2 ^ E.toNat) = M := by
      rw [hrel, Nat.mul_assoc, Nat.mul_comm (2 ^ E.toNat)]
      exact Nat.mul_div_cancel _ (Nat.mul_pos (Nat.two_pow_pos _) (Nat.two_pow_pos _))
    have hr : num % (2 ^ j * 2 ^ E.toNat) = 0 := by
      rw [hrel, Nat.mul_assoc, Nat.mul_comm (2 ^ E.toNat)]
      exact Nat.mul_mod_left _ _
    have hpos : 0 < 2 ^ j * 2 ^ E.toNat := Nat.mul_pos (Nat.two_pow_pos _) (Nat.two_pow_pos _)
    simp only [hq, hr]
    have h1 : ¬ (2 * 0 > 2 ^ j * 2 ^ E.toNat ∨ 2 * 0 = 2 ^ j * 2 ^ E.toNat ∧ M % 2 = 1) := by omega
    have h2 : M ≠ 2 ^ (F.mbits + 1) := by omega
    simp only [h1, h2, ↓reduceIte]
    unfold encBits
    split
    · rfl
    · have : ¬ ((E - F.qmin + 1).toNat ≥ F.expMax) := by omega
      simp only [this, ↓reduceIte]
  · simp only [hE0, ↓reduceIte] at hrel ⊢
    have hq : num * 2 ^ (-E).toNat / 2 ^ j = M := by
      rw [hrel]; exact Nat.mul_div_cancel _ (Nat.two_pow_pos _)
    have hr : num * 2 ^ (-E).toNat % 2 ^ j = 0 := by
      rw [hrel]; exact Nat.mul_mod_left _ _
    have hpos : 0 < 2 ^ j := Nat.two_pow_pos _
    simp only [hq, hr]
    have h1 : ¬ (2 * 0 > 2 ^ j ∨ 2 * 0 = 2 ^ j ∧ M % 2 = 1) := by omega
    have h2 : M ≠ 2 ^ (F.mbits + 1) := by omega
    simp only [h1, h2, ↓reduceIte]
    unfold encBits
    split
    · rfl
    · have : ¬ ((E - F.qmin + 1).toNat ≥ F.expMax) := by omega
      simp only [this, ↓reduceIte]


theorem pow2_shift (a b p q r t : Nat) (h : a * 2 ^ p = b * 2 ^ q) (hs : p + r = q + t) :
    a * 2 ^ t = b * 2 ^ r := by
  have h1 : a * 2 ^ t * 2 ^ (p + r) = b * 2 ^ r * 2 ^ (p + r) := by
    calc a * 2 ^ t * 2 ^ (p + r) = (a * 2 ^ p) * 2 ^ (t + r) := by ring
      _ = (b * 2 ^ q) * 2 ^ (t + r) := by rw [h]
      _ = b * 2 ^ r * 2 ^ (q + t) := by ring
      _ = b * 2 ^ r * 2 ^ (p + r) := by rw [hs]
  exact Nat.eq_of_mul_eq_mul_right (Nat.two_pow_pos _) h1

/-- rounding `m · 2^x` when that value is the representable `M · 2^E` -/
theorem scaled_exact (F : FFmt) (m : Nat) (x : Int) (M : Nat) (E : Int) (p q : Nat)
    (hm : m * 2 ^ p = M * 2 ^ q) (hx : x + q = E + p)
    (hM0 : M ≠ 0) (hM : M < 2 ^ (F.mbits + 1)) (hE : F.qmin ≤ E) (hnorm : 2 ^ F.mbits ≤ M ∨ E = F.qmin)
    (hef : (E - F.qmin + 1).toNat < F.expMax) :
    (if x ≥ 0 then roundPos F (m * 2 ^ x.toNat) 1 else roundPos F m (2 ^ (-x).toNat)) = encBits F M E := by
  split
  · next hx0 =>
    rw [show (1 : Nat) = 2 ^ 0 from rfl]
    apply roundPos_exact F _ 0 M E hM0 hM hE hnorm hef
    split
    · have := pow2_shift m M p q E.toNat x.toNat hm (by omega)
      rw [this]; ring
    · have := pow2_shift m M p q 0 (x.toNat + (-E).toNat) hm (by omega)
      rw [Nat.mul_assoc, ← Nat.pow_add, this]
  · next hx0 =>
    apply roundPos_exact F _ (-x).toNat M E hM0 hM hE hnorm hef
    split
    · have := pow2_shift m M p q (E.toNat + (-x).toNat) 0 hm (by omega)
      rw [Nat.mul_assoc, ← Nat.pow_add, ← this]; ring
    · exact pow2_shift m M p q (-x).toNat (-E).toNat hm (by omega)

theorem hexToBits_exact (F : FFmt) (m : Nat) (x : Int) (M : Nat) (E : Int) (p q : Nat)
    (hm : m * 2 ^ p = M * 2 ^ q) (hx : x + q = E + p)
    (hM0 : M ≠ 0) (hM : M < 2 ^ (F.mbits + 1)) (hE : F.qmin ≤ E) (hnorm : 2 ^ F.mbits ≤ M ∨ E = F.qmin)
    (hef : (E - F.qmin + 1).toNat < F.expMax)
    (hlo : -1200 ≤ E) (hhi : E + F.mbits ≤ 1100) :
    hexToBits F m x = encBits F M E := by
  have hm0 : m ≠ 0 := by
    intro h; subst h
    have : 0 < M * 2 ^ q := Nat.mul_pos (by omega) (Nat.two_pow_pos _)
    omega
  have hl : (Nat.log2 m : Int) + x = Nat.log2 M + E := by
    have h1 := log2_mul_pow2 m p hm0
    have h2 := log2_mul_pow2 M q hM0
    rw [hm] at h1
    omega
  have hlogM : Nat.log2 M ≤ F.mbits := by
    have := (Nat.log2_lt hM0).mpr hM; omega
  unfold hexToBits
  simp only [hm0, ↓reduceIte]
  have h1 : ¬ ((Nat.log2 m : Int) + x > 1100) := by omega
  have h2 : ¬ ((Nat.log2 m : Int) + x < -1200) := by omega
  simp only [h1, h2, ↓reduceIte]
  exact scaled_exact F m x M E p q hm hx hM0 hM hE hnorm hef

theorem hexToBits_zero (F : FFmt) (x : Int) : hexToBits F 0 x = 0 := by simp [hexToBits]

/-! ### digit strings -/

theorem hexDigitsAux_acc (n : Nat) (acc : Bytes) : hexDigitsAux n acc = hexDigitsAux n [] ++ acc := by
  induction n using Nat.strongRecOn generalizing acc with
  | _ n ih =>
    rw [hexDigitsAux_eq n acc, hexDigitsAux_eq n []]
    split
    · simp
    · rw [ih (n/16) (by omega) (hexDigitChar (n % 16) :: acc), ih (n/16) (by omega) [hexDigitChar (n % 16)]]
      simp

theorem hexDigitChar_facts (d : Nat) (h : d < 16) :
    isxdigit (hexDigitChar d) = true ∧ xval (hexDigitChar d) = d := by
  have : ∀ d : Fin 16, isxdigit (hexDigitChar d.val) = true ∧ xval (hexDigitChar d.val) = d.val := by decide
  exact this ⟨d, h⟩

theorem hexDigits_snoc (n : Nat) (h : n ≠ 0) :
    hexDigitsAux n [] = hexDigitsAux (n / 16) [] ++ [hexDigitChar (n % 16)] := by
  rw [hexDigitsAux_eq n []]
  simp only [h, ↓reduceIte]
  rw [hexDigitsAux_acc]

theorem hexDigits_zero : hexDigitsAux 0 [] = [] := by
  rw [hexDigitsAux_eq]; simp

theorem hexDigits_all (n : Nat) : ∀ c ∈ hexDigitsAux n [], isxdigit c = true := by
  induction n using Nat.strongRecOn with
  | _ n ih =>
    by_cases h : n = 0
    · subst h; rw [hexDigits_zero]; simp
    · rw [hexDigits_snoc n h]
      intro c hc
      simp only [List.mem_append, List.mem_singleton] at hc
      rcases hc with hc | hc
      · exact ih (n/16) (by omega) c hc
      · subst hc; exact (hexDigitChar_facts _ (by omega)).1

theorem digitsVal_hexDigits (n : Nat) : digitsVal 16 (hexDigitsAux n []) = n := by
  induction n using Nat.strongRecOn with
  | _ n ih =>
    by_cases h : n = 0
    · subst h; rw [hexDigits_zero]; rfl
    · rw [hexDigits_snoc n h, digitsVal_append, ih (n/16) (by omega)]
      simp only [List.length_singleton, Nat.pow_one, digitsVal, List.foldl_cons, List.foldl_nil, Nat.zero_mul, Nat.zero_add]
      rw [(hexDigitChar_facts _ (by omega)).2]
      omega

theorem hexDigits_length (w : Nat) : ∀ n, n < 16 ^ w → (hexDigitsAux n []).length ≤ w := by
  induction w with
  | zero => intro n h; have : n = 0 := by simpa using h
            subst this; rw [hexDigits_zero]; simp
  | succ w ih =>
    intro n h
    by_cases h0 : n = 0
    · subst h0; rw [hexDigits_zero]; simp
    · rw [hexDigits_snoc n h0]
      have : n / 16 < 16 ^ w := by
        rw [Nat.pow_succ] at h; omega
      have := ih _ this
      simp; omega

theorem decDigits_length (w : Nat) : ∀ n, n < 10 ^ w → (decDigitsAux n []).length ≤ w := by
  induction w with
  | zero => intro n h; have : n = 0 := by simpa using h
            subst this; rw [decDigits_zero]; simp
  | succ w ih =>
    intro n h
    by_cases h0 : n = 0
    · subst h0; rw [decDigits_zero]; simp
    · rw [decDigits_snoc n h0]
      have : n / 10 < 10 ^ w := by
        rw [Nat.pow_succ] at h; omega
      have := ih _ this
      simp; omega

theorem digitsVal_zeros_left (b k : Nat) (s : Bytes) : digitsVal b (List.replicate k 48 ++ s) = digitsVal b s := by
  induction k with
  | zero => simp
  | succ k ih =>
    rw [List.replicate_succ, List.cons_append]
    unfold digitsVal at ih ⊢
    simp only [List.foldl_cons]
    have : xval 48 = 0 := by decide
    simpa [this] using ih

theorem digitsVal_zeros (b k : Nat) : digitsVal b (List.replicate k 48) = 0 := by
  have := digitsVal_zeros_left b k []
  simpa [digitsVal] using this

theorem digitsVal_zeros_right (b k : Nat) (s : Bytes) :
    digitsVal b (s ++ List.replicate k 48) = digitsVal b s * b ^ k := by
  rw [digitsVal_append, digitsVal_zeros]; simp

theorem padZero_length (w : Nat) (s : Bytes) (h : s.length ≤ w) : (padZero w s).length = w := by
  simp [padZero]; omega

theorem padZero_all (P : UInt8 → Prop) (w : Nat) (s : Bytes) (h48 : P 48) (hs : ∀ c ∈ s, P c) :
    ∀ c ∈ padZero w s, P c := by
  intro c hc
  simp only [padZero, List.mem_append, List.mem_replicate] at hc
  rcases hc with ⟨_, rfl⟩ | hc
  · exact h48
  · exact hs c hc

/-! ### `stripZeros` -/

theorem stripZeros_split (s : Bytes) : ∃ z, s = stripZeros s ++ List.replicate z 48 := by
  unfold stripZeros
  refine ⟨(s.reverse.takeWhile (· = 48)).length, ?_⟩
  have h := @List.takeWhile_append_dropWhile _ (fun c : UInt8 => decide (c = 48)) s.reverse
  have h2 : (s.reverse.takeWhile (fun c : UInt8 => decide (c = 48))) =
      List.replicate (s.reverse.takeWhile (fun c : UInt8 => decide (c = 48))).length 48 := by
    apply List.eq_replicate_of_mem
    intro c hc
    have hall := @List.all_takeWhile _ (fun c : UInt8 => decide (c = 48)) s.reverse
    rw [List.all_eq_true] at hall
    simpa using hall c hc
  have h3 : s = (s.reverse.dropWhile (fun c : UInt8 => decide (c = 48))).reverse ++
      (s.reverse.takeWhile (fun c : UInt8 => decide (c = 48))).reverse := by
    rw [← List.reverse_append, h, List.reverse_reverse]
  rw [h2, List.reverse_replicate] at h3
  simpa using h3

theorem dropWhile_idem {α} (p : α → Bool) (l : List α) : (l.dropWhile p).dropWhile p = l.dropWhile p := by
  induction l with
  | nil => rfl
  | cons a t ih =>
    by_cases h : p a = true
    · simp [List.dropWhile, h, ih]
    · simp [List.dropWhile, h]

theorem stripZeros_idem (s : Bytes) : stripZeros (stripZeros s) = stripZeros s := by
  unfold stripZeros
  rw [List.reverse_reverse, dropWhile_idem]

theorem stripZeros_mem (s : Bytes) (c : UInt8) (h : c ∈ stripZeros s) : c ∈ s := by
  obtain ⟨z, hz⟩ := stripZeros_split s
  rw [hz]; simp [h]

/-! ### `hexFixed` -/

theorem hexFixed_facts (w n : Nat) (h : n < 16 ^ w) :
    (hexFixed w n).length = w ∧ (∀ c ∈ hexFixed w n, isxdigit c = true) ∧ digitsVal 16 (hexFixed w n) = n := by
  unfold hexFixed
  by_cases h0 : n = 0
  · subst h0
    simp only [↓reduceIte]
    refine ⟨padZero_length _ _ (by simp), padZero_all _ _ _ (by decide) (by simp), ?_⟩
    simp [padZero, digitsVal_zeros]
  · simp only [h0, ↓reduceIte]
    refine ⟨padZero_length _ _ (hexDigits_length w n h), padZero_all _ _ _ (by decide) (hexDigits_all n), ?_⟩
    unfold padZero
    rw [digitsVal_zeros_left, digitsVal_hexDigits]

end Rtosc.Libc
