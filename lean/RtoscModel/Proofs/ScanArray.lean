/-
  C11 — arrays: `[` blank, good arguments separated by white space, blank `]` is a good argument
  when the element types match the type of the first element (the checker's
  `arraytypes_match`).  The cells are the array header (element type of the last element, number
  of cells) followed by the cells of the elements.  Elements may be any good arguments — scalars
  in proved spellings, `nxA`, arrays again —, so nesting comes for free.
-/
import RtoscModel.Proofs.ScanRep
import RtoscModel.Proofs.ScanList
import RtoscModel.Proofs.PrettyTokArray
namespace Rtosc.Pretty.C11
open Rtosc Rtosc.Libc Rtosc.Pretty
open Rtosc.ArgVal (Cell)

/-- white space only -/
def AllWs (w : Bytes) : Prop := ∀ c ∈ w, isspace c = true

theorem skipSpace_allWs (w x : Bytes) (h : AllWs w) : skipSpace (w ++ x) = skipSpace x := by
  induction w with
  | nil => rfl
  | cons c r ih =>
    have hc := h c (by simp)
    simp [skipSpace, hc, ih (fun y hy => h y (by simp [hy]))]

/-- the elements of an array with the white space behind each of them -/
inductive ArrBody : List (Bytes × List Cell) → Bytes → Prop
  | nil : ArrBody [] []
  | last (t : Bytes) (cs : List Cell) (w : Bytes) : Arg11 t cs → AllWs w → ArrBody [(t, cs)] (t ++ w)
  | cons (t : Bytes) (cs : List Cell) (w : Bytes) (more : List (Bytes × List Cell)) (body : Bytes) :
      Arg11 t cs → AllWs w → w ≠ [] → more ≠ [] → ArrBody more body → ArrBody ((t, cs) :: more) (t ++ (w ++ body))

/-- behind the elements: the closing bracket -/
theorem ArrBody.start_or_close {tcs : List (Bytes × List Cell)} {body : Bytes} (h : ArrBody tcs body) (rest : Bytes) :
    (tcs = [] ∧ body = []) ∨ TokStart (body ++ 93 :: rest) := by
  cases h with
  | nil => left; exact ⟨rfl, rfl⟩
  | last t cs w ht _ =>
    right
    obtain ⟨h0, h1⟩ := ht.start
    refine ⟨by simp [h0], ?_⟩
    rw [List.append_assoc, hd_append_of_ne_nil _ _ h0]; exact h1
  | cons t cs w more body ht _ _ _ _ =>
    right
    obtain ⟨h0, h1⟩ := ht.start
    refine ⟨by simp [h0], ?_⟩
    rw [List.append_assoc, hd_append_of_ne_nil _ _ h0]; exact h1

theorem sep_close (w rest : Bytes) (hw : AllWs w) : Sep (w ++ 93 :: rest) := by
  have hs : skipSpace (w ++ 93 :: rest) = 93 :: rest := by
    rw [skipSpace_allWs w _ hw]; simp [skipSpace, isspace]
  refine ⟨?_, by rw [hs]; simp, by rw [hs]; rfl⟩
  cases w with
  | nil => right; right; rfl
  | cons c r => right; left; simpa using hw c (by simp)

theorem sep_next (w x : Bytes) (hw : AllWs w) (hne : w ≠ []) (hx : TokStart x) : Sep (w ++ x) := by
  have hs : skipSpace (w ++ x) = x := by
    rw [skipSpace_allWs w _ hw]; exact skipSpace_tokStart x hx
  obtain ⟨h0, _, _, h40, h46, _⟩ := hx
  refine ⟨?_, by rw [hs]; exact h40, by rw [hs]; exact startsWith_dots_hd _ h46⟩
  cases w with
  | nil => exact absurd rfl hne
  | cons c r => right; left; simpa using hw c (by simp)

/-- the element type recorded for the array: that of the last element (`' '` for none) -/
def lastTy : UInt8 → List (Bytes × List Cell) → UInt8
  | ty, [] => ty
  | _, [(_, cs)] => match elemTy cs with | .ok t => t | .error _ => 32
  | ty, _ :: r => lastTy ty r

theorem lastTy_cons (ty : UInt8) (p : Bytes × List Cell) (more : List (Bytes × List Cell)) (h : more ≠ []) :
    lastTy ty (p :: more) = lastTy ty more := by
  cases more with
  | nil => exact absurd rfl h
  | cons q r => cases p; rfl

theorem lastTy_ne (a b : UInt8) : ∀ (more : List (Bytes × List Cell)), more ≠ [] → lastTy a more = lastTy b more := by
  intro more
  induction more with
  | nil => intro h; exact absurd rfl h
  | cons p r ih =>
    intro _
    cases r with
    | nil => cases p; rfl
    | cons q r' =>
      rw [lastTy_cons a p (q :: r') (by simp), lastTy_cons b p (q :: r') (by simp)]
      exact ih (by simp)

/-! ### the scanner's element loop -/

theorem scanElems_step (f : Nat) (t : Bytes) (cs : List Cell) (rest : Bytes) (lf : Nat) (prev : List Cell) (i : Nat)
    (pok : Bool) (acc : List Cell) (ty : UInt8) (ht : Arg11 t cs) (hs : Sep rest) (hf : t.length ≤ f) :
    ∃ (b : Bool) (ty' : UInt8), elemTy cs = .ok ty' ∧
      C11.scanArrayElems (C11.scanArgVal (f + 1)) (lf + 1) (t ++ rest) prev i pok acc ty =
        C11.scanArrayElems (C11.scanArgVal (f + 1)) lf (skipSpace rest) (cs.reverse ++ prev) (i + 1) b (acc ++ cs) ty' := by
  obtain ⟨b, hb⟩ := ht.cpr
  obtain ⟨ty', hty⟩ := ht.ety
  refine ⟨b, ty', hty, ?_⟩
  obtain ⟨h0, _, hn0, _, _, _, _, h93⟩ := ht.start
  have hhd : hd (t ++ rest) = hd t := hd_append_of_ne_nil _ _ h0
  have hscan := ht.scan rest f prev (if pok then acc.length else 0) true hs hf
  have hpos : t.length ≠ 0 := by
    have := List.length_pos_iff.mpr h0; omega
  have hadv : advance (t ++ rest) t.length = .ok rest := by simp [advance]
  obtain ⟨c0, r0, hc0⟩ := List.exists_cons_of_ne_nil ht.ne
  have hty' : (do
      let c0 ← deref cs
      match c0 with
        | Cell.rep _ hdl => (do let c ← deref (cs.drop (if hdl ≠ 0 then 2 else 1)); pure c.type)
        | c => pure c.type : Res UInt8) = .ok ty' := hty
  conv => lhs; unfold C11.scanArrayElems
  simp only [hhd, ne_eq, hn0, not_false_eq_true, h93, and_self, ↓reduceIte, hscan, bind, Except.bind, hpos,
    hadv, hb, pure, Except.pure]
  simp only [bind, Except.bind, pure, Except.pure] at hty'
  rw [hc0] at hty' ⊢
  simp only [deref] at hty' ⊢
  have hoff := ht.off
  rw [hc0] at hoff
  cases c0 <;> simp_all

/-- the scanner's element loop over the elements of an array -/
theorem scanElems_body {tcs : List (Bytes × List Cell)} {body : Bytes} (h : ArrBody tcs body) :
    ∀ (rest : Bytes) (f lf : Nat) (prev : List Cell) (i : Nat) (pok : Bool) (acc : List Cell) (ty : UInt8),
      tcs.length + 1 ≤ lf → (∀ p ∈ tcs, p.1.length ≤ f) →
      ∃ prev' i' pok', C11.scanArrayElems (C11.scanArgVal (f + 1)) lf (body ++ 93 :: rest) prev i pok acc ty =
        C11.scanArrayElems (C11.scanArgVal (f + 1)) (lf - tcs.length) (93 :: rest) prev' i' pok' (acc ++ allCells tcs)
          (lastTy ty tcs) := by
  induction h with
  | nil =>
    intro rest f lf prev i pok acc ty _ _
    exact ⟨prev, i, pok, by simp [allCells, lastTy]⟩
  | last t cs w ht hw =>
    intro rest f lf prev i pok acc ty hlf hlen
    obtain ⟨l, rfl⟩ : ∃ l, lf = l + 1 := ⟨lf - 1, by simp at hlf; omega⟩
    obtain ⟨b, ty', hty, hstep⟩ := scanElems_step f t cs (w ++ 93 :: rest) l prev i pok acc ty ht
      (sep_close w rest hw) (hlen (t, cs) (by simp))
    have hsk : skipSpace (w ++ 93 :: rest) = 93 :: rest := by
      rw [skipSpace_allWs w _ hw]; simp [skipSpace, isspace]
    refine ⟨cs.reverse ++ prev, i + 1, b, ?_⟩
    rw [List.append_assoc, hstep, hsk]
    simp [allCells, lastTy, hty]
  | cons t cs w more body ht hw hwne hmore hbody ih =>
    intro rest f lf prev i pok acc ty hlf hlen
    obtain ⟨l, rfl⟩ : ∃ l, lf = l + 1 := ⟨lf - 1, by simp at hlf; omega⟩
    have hstart : TokStart (body ++ 93 :: rest) := by
      rcases hbody.start_or_close rest with ⟨h1, _⟩ | h
      · exact absurd h1 hmore
      · exact h
    obtain ⟨b, ty', hty, hstep⟩ := scanElems_step f t cs (w ++ (body ++ 93 :: rest)) l prev i pok acc ty ht
      (sep_next w _ hw hwne hstart) (hlen (t, cs) (by simp))
    have hsk : skipSpace (w ++ (body ++ 93 :: rest)) = body ++ 93 :: rest := by
      rw [skipSpace_allWs w _ hw]; exact skipSpace_tokStart _ hstart
    obtain ⟨prev', i', pok', hrec⟩ := ih rest f l (cs.reverse ++ prev) (i + 1) b (acc ++ cs) ty'
      (by simp at hlf; omega) (fun p hp => hlen p (by simp [hp]))
    refine ⟨prev', i', pok', ?_⟩
    have e : t ++ (w ++ body) ++ 93 :: rest = t ++ (w ++ (body ++ 93 :: rest)) := by simp
    rw [e, hstep, hsk, hrec, lastTy_cons _ _ _ hmore, lastTy_ne ty' ty more hmore]
    simp [allCells, List.append_assoc]

/-! ### the checker's element loop -/

/-- the type the checker reports for an argument -/
def skipTy (cs : List Cell) : UInt8 := (cs.headD (Cell.flag .N)).type

/-- every element type matches the type `aty` the checker has recorded -/
def TypesOK (aty : UInt8) (tcs : List (Bytes × List Cell)) : Prop := ∀ p ∈ tcs, arraytypesMatch aty (skipTy p.2) = true

theorem skipElems_step (f : Nat) (t : Bytes) (cs : List Cell) (rest : Bytes) (lf : Nat) (recent : Option Bytes)
    (aty : UInt8) (skipped : Int) (ht : Arg11 t cs) (hs : Sep rest) (hf : t.length ≤ f)
    (hty : aty = 0 ∨ arraytypesMatch aty (skipTy cs) = true) :
    skipArrayElems (C11.skipNextPrintedArg (f + 1)) (lf + 1) (some (t ++ rest)) recent aty skipped =
      skipArrayElems (C11.skipNextPrintedArg (f + 1)) lf (some (skipSpace rest)) (some (t ++ rest))
        (if aty = 0 then skipTy cs else aty) (skipped + cs.length) := by
  obtain ⟨h0, _, hn0, _, _, _, _, h93⟩ := ht.start
  have hhd : hd (t ++ rest) = hd t := hd_append_of_ne_nil _ _ h0
  obtain ⟨r, hr, hsrc, hsk, hrty⟩ := ht.skip rest f 20 recent true true hs hf
  have hlt : ¬ ((skipSpace rest).length ≥ (t ++ rest).length) := by
    have := skipSpace_length_le rest
    have := List.length_pos_iff.mpr h0
    simp only [List.length_append]; omega
  conv => lhs; unfold skipArrayElems
  simp only [hhd, ne_eq, hn0, not_false_eq_true, h93, and_self, ↓reduceIte, hr, bind, Except.bind, hsrc,
    Option.map_some]
  have hrty' : r.type = skipTy cs := hrty
  by_cases ha : aty = 0
  · simp only [ha, ↓reduceIte, hlt, pure, Except.pure, hrty', hsk]
  · have hm : arraytypesMatch aty (skipTy cs) = true := by
      rcases hty with h | h
      · exact absurd h ha
      · exact h
    simp only [ha, ↓reduceIte, hrty', hm, Bool.not_true, Bool.false_eq_true, hlt, pure, Except.pure, hsk]

theorem cell_type_ne_zero (c : Cell) : c.type ≠ 0 := by
  cases c <;> simp [ArgVal.Cell.type, ArgVal.tyA, ArgVal.tyRange]
  all_goals first | (rename_i ty _; cases ty <;> decide) | (rename_i ty; cases ty <;> decide) | decide

/-- the checker's element loop over the elements of an array, once the array type is recorded -/
theorem skipElems_body {tcs : List (Bytes × List Cell)} {body : Bytes} (h : ArrBody tcs body) :
    ∀ (rest : Bytes) (f lf : Nat) (recent : Option Bytes) (aty : UInt8) (skipped : Int),
      tcs.length + 1 ≤ lf → (∀ p ∈ tcs, p.1.length ≤ f) → aty ≠ 0 → TypesOK aty tcs →
      ∃ recent', skipArrayElems (C11.skipNextPrintedArg (f + 1)) lf (some (body ++ 93 :: rest)) recent aty skipped =
        skipArrayElems (C11.skipNextPrintedArg (f + 1)) (lf - tcs.length) (some (93 :: rest)) recent' aty
          (skipped + (allCells tcs).length) := by
  induction h with
  | nil =>
    intro rest f lf recent aty skipped _ _ _ _
    exact ⟨recent, by simp [allCells]⟩
  | last t cs w ht hw =>
    intro rest f lf recent aty skipped hlf hlen ha htys
    simp only [List.length_cons, List.length_nil] at hlf
    obtain ⟨l, rfl⟩ : ∃ l, lf = l + 1 := ⟨lf - 1, by omega⟩
    have hstep := skipElems_step f t cs (w ++ 93 :: rest) l recent aty skipped ht (sep_close w rest hw)
      (hlen (t, cs) (by simp)) (Or.inr (htys (t, cs) (by simp)))
    have hsk : skipSpace (w ++ 93 :: rest) = 93 :: rest := by
      rw [skipSpace_allWs w _ hw]; simp [skipSpace, isspace]
    refine ⟨some (t ++ (w ++ 93 :: rest)), ?_⟩
    rw [List.append_assoc, hstep, hsk]
    simp [allCells, ha]
  | cons t cs w more body ht hw hwne hmore hbody ih =>
    intro rest f lf recent aty skipped hlf hlen ha htys
    simp only [List.length_cons] at hlf
    obtain ⟨l, rfl⟩ : ∃ l, lf = l + 1 := ⟨lf - 1, by omega⟩
    have hstart : TokStart (body ++ 93 :: rest) := by
      rcases hbody.start_or_close rest with ⟨h1, _⟩ | h
      · exact absurd h1 hmore
      · exact h
    have hstep := skipElems_step f t cs (w ++ (body ++ 93 :: rest)) l recent aty skipped ht
      (sep_next w _ hw hwne hstart) (hlen (t, cs) (by simp)) (Or.inr (htys (t, cs) (by simp)))
    have hsk : skipSpace (w ++ (body ++ 93 :: rest)) = body ++ 93 :: rest := by
      rw [skipSpace_allWs w _ hw]; exact skipSpace_tokStart _ hstart
    obtain ⟨recent', hrec⟩ := ih rest f l (some (t ++ (w ++ (body ++ 93 :: rest)))) aty (skipped + cs.length)
      (by omega) (fun p hp => hlen p (by simp [hp])) ha (fun p hp => htys p (by simp [hp]))
    refine ⟨recent', ?_⟩
    have e : t ++ (w ++ body) ++ 93 :: rest = t ++ (w ++ (body ++ 93 :: rest)) := by simp
    rw [e, hstep, hsk]
    simp only [ha, ↓reduceIte]
    rw [hrec]
    have e1 : l + 1 - ((t, cs) :: more).length = l - more.length := by simp
    have e2 : skipped + (cs.length : Int) + ((allCells more).length : Int) =
        skipped + ((allCells ((t, cs) :: more)).length : Int) := by
      simp only [allCells, List.map_cons, List.flatten_cons, List.length_append]
      push_cast
      omega
    rw [e1, e2]

/-! ### the array -/

/-- the text of an array -/
def arrText (b0 body : Bytes) : Bytes := 91 :: (b0 ++ (body ++ [93]))

theorem body_length_le {tcs : List (Bytes × List Cell)} {body : Bytes} (h : ArrBody tcs body) :
    tcs.length ≤ body.length ∧ ∀ p ∈ tcs, p.1.length ≤ body.length := by
  induction h with
  | nil => simp
  | last t cs w ht _ =>
    have := List.length_pos_iff.mpr ht.start.1
    refine ⟨by simp; omega, ?_⟩
    intro p hp; simp at hp; subst hp; simp
  | cons t cs w more body ht _ _ _ _ ih =>
    have := List.length_pos_iff.mpr ht.start.1
    refine ⟨by simp only [List.length_cons, List.length_append]; omega, ?_⟩
    intro p hp
    simp only [List.mem_cons] at hp
    rcases hp with rfl | hp
    · simp
    · have := ih.2 p hp
      simp only [List.length_append]; omega

/-- the types of all elements match the type of the first one -/
def ElemTypesOK : List (Bytes × List Cell) → Prop
  | [] => True
  | p :: more => TypesOK (skipTy p.2) more

theorem allCells_ne {tcs : List (Bytes × List Cell)} {body : Bytes} (h : ArrBody tcs body) (hne : tcs ≠ []) :
    allCells tcs ≠ [] := by
  cases h with
  | nil => exact absurd rfl hne
  | last t cs w ht _ => simpa [allCells] using ht.ne
  | cons t cs w more body ht _ _ _ _ => simp [allCells, ht.ne]

/-- **arrays**: the text `[`, blank, elements, `]` is a good argument -/
theorem arg11_array {tcs : List (Bytes × List Cell)} {body : Bytes} (h : ArrBody tcs body) (b0 : Bytes)
    (hb0 : AllWs b0) (htys : ElemTypesOK tcs) :
    Arg11 (arrText b0 body) (Cell.arr (lastTy 32 tcs) (allCells tcs).length :: allCells tcs) := by
  have hstart : TokStart (arrText b0 body) := ⟨by simp [arrText], by simp only [arrText, hd_cons]; decide⟩
  obtain ⟨hlen1, hlen2⟩ := body_length_le h
  have htl : (arrText b0 body).length = b0.length + body.length + 2 := by simp [arrText]; omega
  have happ : ∀ rest, arrText b0 body ++ rest = 91 :: (b0 ++ (body ++ 93 :: rest)) := by
    intro rest; simp [arrText]
  have hsk0 : ∀ rest, skipSpace (b0 ++ (body ++ 93 :: rest)) = body ++ 93 :: rest := by
    intro rest
    rw [skipSpace_allWs b0 _ hb0]
    rcases h.start_or_close rest with ⟨_, h2⟩ | hs
    · rw [h2]; simp [skipSpace, isspace]
    · exact skipSpace_tokStart _ hs
  refine ⟨hstart, by simp, ?_, ⟨false, by simp [canPrecedeRange, deref, bind, Except.bind, pure, Except.pure]⟩,
    ⟨97, by simp [elemTy, deref, bind, Except.bind, pure, Except.pure, ArgVal.Cell.type, ArgVal.tyA]⟩, ?_, ?_⟩
  · -- next_arg_offset
    unfold nextArgOffset
    have : ¬ (((allCells tcs).length : Int) < 0) := by omega
    simp [deref, bind, Except.bind, pure, Except.pure, this]
  · intro rest fuel prev ab fe hs hf
    obtain ⟨f, rfl⟩ : ∃ f, fuel = f + 1 := ⟨fuel - 1, by omega⟩
    obtain ⟨prev', i', pok', hloop⟩ := scanElems_body h rest f ((arrText b0 body ++ rest).length + 1)
      (Cell.arr 32 0 :: prev) 0 true [] 32 (by simp only [List.length_append]; omega)
      (fun p hp => by have := hlen2 p hp; omega)
    unfold C11.scanArgVal
    have hscanV : C11.scanValue (C11.scanArgVal (f + 1)) (arrText b0 body ++ rest) prev =
        .ok ⟨rest, Cell.arr (lastTy 32 tcs) (allCells tcs).length :: allCells tcs, true⟩ := by
      unfold C11.scanValue
      rw [happ]
      simp only [hd_cons, ↓reduceIte]
      unfold C11.scanArray
      simp only [List.drop_succ_cons, List.drop_zero, hsk0 rest]
      have hl : (91 :: (b0 ++ (body ++ 93 :: rest))).length + 1 = (arrText b0 body ++ rest).length + 1 := by
        rw [happ]
      rw [hl, hloop]
      have hfuel : (arrText b0 body ++ rest).length + 1 - tcs.length = ((arrText b0 body ++ rest).length - tcs.length) + 1 := by
        simp only [List.length_append]; omega
      rw [hfuel]
      unfold C11.scanArrayElems
      simp [bind, Except.bind, pure, Except.pure, advance]
    rw [hscanV]
    simp only [bind, Except.bind]
    exact finishArg_plain _ _ rest _ true prev ab fe hs
  · intro rest fuel ty llhs fe ib hs hf
    obtain ⟨f, rfl⟩ : ∃ f, fuel = f + 1 := ⟨fuel - 1, by omega⟩
    have h3 := (sep_skipSpace_facts rest hs).2
    refine ⟨⟨some rest, 1 + (allCells tcs).length, 97⟩, ?_, rfl, by simp; omega, by simp [ArgVal.Cell.type, ArgVal.tyA]⟩
    have hall : ∀ p ∈ tcs, p.1.length ≤ f := fun p hp => by have := hlen2 p hp; omega
    have hfuel : tcs.length + 1 ≤ (arrText b0 body ++ rest).length := by
      simp only [List.length_append]; omega
    -- the element loop
    have hloop : skipArrayElems (C11.skipNextPrintedArg (f + 1)) ((arrText b0 body ++ rest).length + 1)
        (some (body ++ 93 :: rest)) none 0 1 = .ok (some (93 :: rest), 1 + (allCells tcs).length) := by
      cases h with
      | nil =>
        unfold skipArrayElems
        simp [allCells]
      | last t cs w ht hw =>
        have hstep := skipElems_step f t cs (w ++ 93 :: rest) (arrText b0 (t ++ w) ++ rest).length none 0 1 ht
          (sep_close w rest hw) (hall (t, cs) (by simp)) (Or.inl rfl)
        have hsk : skipSpace (w ++ 93 :: rest) = 93 :: rest := by
          rw [skipSpace_allWs w _ hw]; simp [skipSpace, isspace]
        rw [List.append_assoc, hstep, hsk]
        obtain ⟨l, hl⟩ : ∃ l, (arrText b0 (t ++ w) ++ rest).length = l + 1 := ⟨_, by simp [arrText]; rfl⟩
        rw [hl]
        unfold skipArrayElems
        simp [allCells]
      | cons t cs w more body' ht hw hwne hmore hbody =>
        have hstart : TokStart (body' ++ 93 :: rest) := by
          rcases hbody.start_or_close rest with ⟨h1, _⟩ | h
          · exact absurd h1 hmore
          · exact h
        have hstep := skipElems_step f t cs (w ++ (body' ++ 93 :: rest))
          (arrText b0 (t ++ (w ++ body')) ++ rest).length none 0 1 ht
          (sep_next w _ hw hwne hstart) (hall (t, cs) (by simp)) (Or.inl rfl)
        have hsk : skipSpace (w ++ (body' ++ 93 :: rest)) = body' ++ 93 :: rest := by
          rw [skipSpace_allWs w _ hw]; exact skipSpace_tokStart _ hstart
        have hne0 : skipTy cs ≠ 0 := by
          obtain ⟨c, r, hc⟩ := List.exists_cons_of_ne_nil ht.ne
          simp only [skipTy, hc, List.headD_cons]
          exact cell_type_ne_zero c
        obtain ⟨hl1, hl2⟩ := body_length_le hbody
        obtain ⟨recent', hrec⟩ := skipElems_body hbody rest f (arrText b0 (t ++ (w ++ body')) ++ rest).length
          (some (t ++ (w ++ (body' ++ 93 :: rest)))) (skipTy cs) (1 + cs.length)
          (by simp only [List.length_cons] at hfuel; omega)
          (fun p hp => hall p (by simp [hp])) hne0 htys
        have e : t ++ (w ++ body') ++ 93 :: rest = t ++ (w ++ (body' ++ 93 :: rest)) := by simp
        rw [e, hstep, hsk]
        simp only [↓reduceIte]
        rw [hrec]
        obtain ⟨l, hl⟩ : ∃ l, (arrText b0 (t ++ (w ++ body')) ++ rest).length - more.length = l + 1 :=
          ⟨(arrText b0 (t ++ (w ++ body')) ++ rest).length - more.length - 1, by
            simp only [List.length_cons] at hfuel; omega⟩
        rw [hl]
        unfold skipArrayElems
        simp only [hd_cons, ne_eq, not_true_eq_false, and_false, ↓reduceIte]
        have e2 : (1 : Int) + (cs.length : Int) + ((allCells more).length : Int) =
            1 + ((allCells ((t, cs) :: more)).length : Int) := by
          simp only [allCells, List.map_cons, List.flatten_cons, List.length_append]
          push_cast
          omega
        rw [e2]
    unfold C11.skipNextPrintedArg
    have hsv : skipValue (C11.skipNextPrintedArg (f + 1)) (arrText b0 body ++ rest) ty ib =
        .ok (some ⟨some rest, 1 + (allCells tcs).length, 97, 0⟩) := by
      rw [happ, skipValue_bracket _ _ _ _ (by simp)]
      unfold skipArray
      simp only [List.drop_succ_cons, List.drop_zero, hsk0 rest]
      have hl : (91 :: (b0 ++ (body ++ 93 :: rest))).length + 1 = (arrText b0 body ++ rest).length + 1 := by
        rw [happ]
      rw [hl, hloop]
      simp [bind, Except.bind, pure, Except.pure]
    rw [hsv]
    simp [bind, Except.bind, h3, pure, Except.pure]

end Rtosc.Pretty.C11
