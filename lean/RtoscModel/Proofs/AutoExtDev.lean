/-
  C19 — how far the float model's argument of `expf` can be from the exact logarithmic
  interpolation.  For a log-scale automation at the default gain and offset the executable
  model (`IEEE.ieee`: IEEE-754 binary32/binary64 round-to-nearest-even) computes, with 16
  roundings, the value  c = clamp(L0, L1, fl(fl(x·fl(cp3 − cp1)) + cp1))  and emits `expf c`;
  the exact map is  t = L0 + x·(L1 − L0)  (L0, L1: the stored `logf` of the bounds).
  `ieee_log_arg_deviation`:  |c − t| ≤ 60·2⁻²⁴·(M + 2⁻¹²⁶)  whenever |L0|, |L1| ≤ M.

  Method: every rounding errs by at most half a unit in the last place, i.e. by at most
  2⁻²⁴·|y| + 2⁻¹⁵⁰ (`rnd32_err`; the second term covers subnormal results); `Apx k e y z`
  ("y approximates z with error e·2⁻²⁴·M', and |z| ≤ k·M'") is propagated through the
  sixteen operations.
-/
import Mathlib.Tactic.Linarith
import Mathlib.Tactic.Positivity
import Mathlib.Tactic.FieldSimp
import Mathlib.Tactic.Ring
import Mathlib.Tactic.NormNum
import Mathlib.Algebra.Order.Field.Power
import Mathlib.Data.Rat.Floor
import RtoscModel.Proofs.AutoFloatLemmas
namespace Rtosc.Auto.IEEE

/-! ### one rounding errs by at most half an ulp -/

theorem rhe_err (q : ℚ) (hq : 0 ≤ q) : |((roundHalfEven q : ℕ) : ℚ) - q| ≤ 1/2 := by
  obtain ⟨b1, b2, _, _⟩ := rhe_bounds q hq
  unfold roundHalfEven
  simp only [show q.floor = ⌊q⌋ from rfl]
  rw [abs_le]
  split
  · constructor <;> linarith
  · split
    · push_cast; constructor <;> linarith
    · split
      · constructor <;> linarith
      · push_cast; constructor <;> linarith

theorem rnd_err_pos (p : ℕ) (emin : ℤ) (x : ℚ) (hx : 0 < x) :
    |rnd p emin x - x| ≤ pow2 (ueOf p emin x) / 2 := by
  rw [rnd_pos_eq p emin x hx]
  have hU : 0 < pow2 (ueOf p emin x) := pow2_pos _
  have h := rhe_err (x / pow2 (ueOf p emin x)) (div_nonneg hx.le hU.le)
  have e : ((roundHalfEven (x / pow2 (ueOf p emin x)) : ℕ) : ℚ) * pow2 (ueOf p emin x) - x =
      (((roundHalfEven (x / pow2 (ueOf p emin x)) : ℕ) : ℚ) - x / pow2 (ueOf p emin x)) * pow2 (ueOf p emin x) := by
    field_simp
  rw [e, abs_mul, abs_of_pos hU]
  calc _ ≤ 1/2 * pow2 (ueOf p emin x) := mul_le_mul_of_nonneg_right h hU.le
    _ = pow2 (ueOf p emin x) / 2 := by ring

theorem half_ulp_le (p : ℕ) (emin : ℤ) (x : ℚ) (hx : 0 < x) :
    pow2 (ueOf p emin x) / 2 ≤ x * pow2 (-(p : ℤ)) + pow2 (emin - 1) := by
  have sx := (ilog2_spec x (ne_of_gt hx)).1
  rw [abs_of_pos hx] at sx
  have h2 : pow2 (-1) = 1/2 := by decide +kernel
  unfold ueOf
  rcases le_total (ilog2 x - ((p : ℤ) - 1)) emin with h | h
  · rw [max_eq_right h]
    have : pow2 (emin - 1) = pow2 emin / 2 := by
      rw [show emin - 1 = emin + (-1) by ring, pow2_add, h2]; ring
    rw [this]
    have : 0 ≤ x * pow2 (-(p : ℤ)) := mul_nonneg hx.le (pow2_pos _).le
    linarith
  · rw [max_eq_left h]
    have e : pow2 (ilog2 x - ((p : ℤ) - 1)) / 2 = pow2 (ilog2 x) * pow2 (-(p : ℤ)) := by
      rw [show ilog2 x - ((p : ℤ) - 1) = ilog2 x + (-(p : ℤ)) + 1 by ring, pow2_add, pow2_add]
      have : pow2 1 = 2 := by decide +kernel
      rw [this]; ring
    rw [e]
    have : pow2 (ilog2 x) * pow2 (-(p : ℤ)) ≤ x * pow2 (-(p : ℤ)) :=
      mul_le_mul_of_nonneg_right sx (pow2_pos _).le
    have : 0 < pow2 (emin - 1) := pow2_pos _
    linarith

/-- |rnd x − x| ≤ 2^-p·|x| + 2^(emin−1) -/
theorem rnd_err (p : ℕ) (emin : ℤ) (x : ℚ) :
    |rnd p emin x - x| ≤ |x| * pow2 (-(p : ℤ)) + pow2 (emin - 1) := by
  rcases lt_trichotomy x 0 with h | h | h
  · have h' : 0 < -x := by linarith
    have := le_trans (rnd_err_pos p emin (-x) h') (half_ulp_le p emin (-x) h')
    rw [rnd_neg] at this
    rw [abs_of_neg h]
    have e : |rnd p emin x - x| = |-rnd p emin x - -x| := by
      rw [← abs_neg]; congr 1; ring
    rw [e]; exact this
  · subst h
    rw [rnd_zero]; simp
    exact (pow2_pos _).le
  · rw [abs_of_pos h]
    exact le_trans (rnd_err_pos p emin x h) (half_ulp_le p emin x h)

/-- unit roundoff of binary32 -/
def u32 : ℚ := 1 / 2 ^ 24
/-- the smallest normal binary32 number -/
def tiny : ℚ := 1 / 2 ^ 126

theorem u32_pos : 0 < u32 := by unfold u32; positivity
theorem tiny_pos : 0 < tiny := by unfold tiny; positivity

theorem rnd32_err (x : ℚ) : |rnd32 x - x| ≤ u32 * (|x| + tiny) := by
  have h := rnd_err 24 (-149) x
  have e1 : pow2 (-((24 : ℕ) : ℤ)) = u32 := by unfold u32; decide +kernel
  have e2 : pow2 (-149 - 1) = u32 * tiny := by unfold u32 tiny; decide +kernel
  rw [e1, e2] at h
  unfold rnd32
  calc _ ≤ |x| * u32 + u32 * tiny := h
    _ = u32 * (|x| + tiny) := by ring

theorem rnd64_err (x : ℚ) : |rnd64 x - x| ≤ u32 * (|x| + tiny) := by
  have h := rnd_err 53 (-1074) x
  have e1 : pow2 (-((53 : ℕ) : ℤ)) ≤ u32 := by unfold u32; decide +kernel
  have e2 : pow2 (-1074 - 1) ≤ u32 * tiny := by unfold u32 tiny; decide +kernel
  unfold rnd64
  calc _ ≤ |x| * pow2 (-((53 : ℕ) : ℤ)) + pow2 (-1074 - 1) := h
    _ ≤ |x| * u32 + u32 * tiny := by
        have := mul_le_mul_of_nonneg_left e1 (abs_nonneg x)
        linarith
    _ = u32 * (|x| + tiny) := by ring

/-! ### propagation -/

/-- `y` approximates `z` with error at most `e·u32·M'`, and `|z| ≤ k·M'` -/
def Apx (M' k e y z : ℚ) : Prop := |y - z| ≤ e * u32 * M' ∧ |z| ≤ k * M'

variable {M' : ℚ} {tab : List (ℚ × ℚ)}

theorem apx_exact {k z : ℚ} (h : |z| ≤ k * M') : Apx M' k 0 z z := by
  refine ⟨?_, h⟩; simp

theorem apx_add {k1 e1 y1 z1 k2 e2 y2 z2 : ℚ} (h1 : Apx M' k1 e1 y1 z1) (h2 : Apx M' k2 e2 y2 z2) :
    Apx M' (k1 + k2) (e1 + e2) (y1 + y2) (z1 + z2) := by
  refine ⟨?_, ?_⟩
  · have : y1 + y2 - (z1 + z2) = (y1 - z1) + (y2 - z2) := by ring
    rw [this]
    calc _ ≤ |y1 - z1| + |y2 - z2| := abs_add_le _ _
      _ ≤ e1 * u32 * M' + e2 * u32 * M' := add_le_add h1.1 h2.1
      _ = _ := by ring
  · calc _ ≤ |z1| + |z2| := abs_add_le _ _
      _ ≤ k1 * M' + k2 * M' := add_le_add h1.2 h2.2
      _ = _ := by ring

theorem apx_sub {k1 e1 y1 z1 k2 e2 y2 z2 : ℚ} (h1 : Apx M' k1 e1 y1 z1) (h2 : Apx M' k2 e2 y2 z2) :
    Apx M' (k1 + k2) (e1 + e2) (y1 - y2) (z1 - z2) := by
  refine ⟨?_, ?_⟩
  · have : y1 - y2 - (z1 - z2) = (y1 - z1) - (y2 - z2) := by ring
    rw [this]
    calc _ ≤ |y1 - z1| + |y2 - z2| := abs_sub _ _
      _ ≤ e1 * u32 * M' + e2 * u32 * M' := add_le_add h1.1 h2.1
      _ = _ := by ring
  · calc _ ≤ |z1| + |z2| := abs_sub _ _
      _ ≤ k1 * M' + k2 * M' := add_le_add h1.2 h2.2
      _ = _ := by ring

/-- multiplication by an exactly known factor `c` with `|c| ≤ a` -/
theorem apx_mul_const {k e y z : ℚ} (c a : ℚ) (hc : |c| ≤ a)
    (h : Apx M' k e y z) : Apx M' (a * k) (a * e) (c * y) (c * z) := by
  have ha : 0 ≤ a := le_trans (abs_nonneg c) hc
  refine ⟨?_, ?_⟩
  · rw [← mul_sub, abs_mul]
    calc _ ≤ a * (e * u32 * M') := mul_le_mul hc h.1 (abs_nonneg _) ha
      _ = _ := by ring
  · rw [abs_mul]
    calc _ ≤ a * (k * M') := mul_le_mul hc h.2 (abs_nonneg _) ha
      _ = _ := by ring

/-- better knowledge about the size of the exact value -/
theorem apx_rekey {k k' e y z : ℚ} (h : Apx M' k e y z) (hz : |z| ≤ k' * M') : Apx M' k' e y z := ⟨h.1, hz⟩

theorem apx_weaken {k e e' y z : ℚ} (h : Apx M' k e y z) (he : e ≤ e') (hM : 0 ≤ M') : Apx M' k e' y z := by
  refine ⟨le_trans h.1 ?_, h.2⟩
  have : 0 ≤ u32 * M' := mul_nonneg u32_pos.le hM
  nlinarith

/-- one rounding (either format): the error grows by `k + 1` units -/
theorem apx_round {k e y z : ℚ} (r : ℚ → ℚ) (hr : ∀ x, |r x - x| ≤ u32 * (|x| + tiny))
    (hM : tiny ≤ M') (heu : e * u32 ≤ 1) (h : Apx M' k e y z) :
    Apx M' k (e + k + 2) (r y) z := by
  have hM0 : 0 ≤ M' := le_trans tiny_pos.le hM
  refine ⟨?_, h.2⟩
  have hy : |y| ≤ (k + 1) * M' := by
    have : |y| ≤ |y - z| + |z| := by
      have := abs_add_le (y - z) z
      simpa using this
    have h1 : e * u32 * M' ≤ 1 * M' := mul_le_mul_of_nonneg_right heu hM0
    linarith [h.1, h.2]
  have := hr y
  have hsplit : |r y - z| ≤ |r y - y| + |y - z| := by
    have := abs_add_le (r y - y) (y - z)
    simpa using this
  have hu := u32_pos
  calc |r y - z| ≤ u32 * (|y| + tiny) + e * u32 * M' := by linarith [h.1]
    _ ≤ u32 * ((k + 1) * M' + M') + e * u32 * M' := by
        have : u32 * (|y| + tiny) ≤ u32 * ((k + 1) * M' + M') :=
          mul_le_mul_of_nonneg_left (by linarith) hu.le
        linarith
    _ = (e + k + 2) * u32 * M' := by ring

theorem apx_r32 {k e y z : ℚ} (hM : tiny ≤ M') (heu : e * u32 ≤ 1)
    (h : Apx M' k e y z) : Apx M' k (e + k + 2) (rnd32 y) z := apx_round rnd32 rnd32_err hM heu h

theorem apx_r64 {k e y z : ℚ} (hM : tiny ≤ M') (heu : e * u32 ≤ 1)
    (h : Apx M' k e y z) : Apx M' k (e + k + 2) (rnd64 y) z := apx_round rnd64 rnd64_err hM heu h

/-! ### the control points at gain 100 / offset 0 -/

theorem half_const : rnd64 (1 / 2 + rnd64 (0 / 100)) = 1 / 2 := by
  have : rnd64 (0 / 100) = 0 := by rw [zero_div]; exact rnd_zero _ _
  rw [this, add_zero]; decide +kernel

/-- the control points the float model computes at the default gain and offset approximate
    the stored bounds: each within `25·2⁻²⁴·(M + 2⁻¹²⁶)` -/
theorem mapping_dev (tab : List (ℚ × ℚ)) (L0 L1 M : ℚ) (h0 : |L0| ≤ M) (h1 : |L1| ≤ M) :
    Apx (M + tiny) 1 25 (mapping (ieee tab) L0 L1 100 0).1 L0 ∧
    Apx (M + tiny) 1 25 (mapping (ieee tab) L0 L1 100 0).2 L1 := by
  have hM0 : 0 ≤ M := le_trans (abs_nonneg _) h0
  have hM : tiny ≤ M + tiny := by linarith
  have hM' : 0 ≤ M + tiny := by linarith [tiny_pos]
  have k0 : |L0| ≤ 1 * (M + tiny) := by linarith [tiny_pos]
  have k1 : |L1| ≤ 1 * (M + tiny) := by linarith [tiny_pos]
  have a0 : Apx (M + tiny) 1 0 L0 L0 := apx_exact k0
  have a1 : Apx (M + tiny) 1 0 L1 L1 := apx_exact k1
  -- center
  have s := apx_r32 hM (by norm_num [u32]) (apx_add a0 a1)
  have c1 := apx_mul_const (1/2) (1/2) (by norm_num) s
  have c2 := apx_r64 hM (by norm_num [u32]) c1
  have c3 := apx_r32 hM (by norm_num [u32]) c2
  -- range
  have d := apx_r32 hM (by norm_num [u32]) (apx_sub a1 a0)
  have g1 := apx_mul_const 100 100 (by norm_num) d
  have g2 := apx_r32 hM (by norm_num [u32]) g1
  have r1 := apx_mul_const (1/100) (1/100) (by norm_num) g2
  have r2 := apx_r64 hM (by norm_num [u32]) r1
  have r3 := apx_r32 hM (by norm_num [u32]) r2
  have q1 := apx_mul_const (1/2) (1/2) (by norm_num) r3
  have q2 := apx_r64 hM (by norm_num [u32]) q1
  -- the two control points
  have e0 : 1 / 2 * (L0 + L1) - 1 / 2 * (1 / 100 * (100 * (L1 - L0))) = L0 := by ring
  have e1 : 1 / 2 * (L0 + L1) + 1 / 2 * (1 / 100 * (100 * (L1 - L0))) = L1 := by ring
  have p1 := apx_sub c3 q2
  rw [e0] at p1
  have p2 := apx_r64 hM (by norm_num [u32]) (apx_rekey p1 k0)
  have p3 := apx_r32 hM (by norm_num [u32]) p2
  have t1 := apx_add c3 q2
  rw [e1] at t1
  have t2 := apx_r64 hM (by norm_num [u32]) (apx_rekey t1 k1)
  have t3 := apx_r32 hM (by norm_num [u32]) t2
  have f1 : (mapping (ieee tab) L0 L1 100 0).1 =
      rnd32 (rnd64 (rnd32 (rnd64 (1 / 2 * rnd32 (L0 + L1))) -
        rnd64 (1 / 2 * rnd32 (rnd64 (1 / 100 * rnd32 (100 * rnd32 (L1 - L0))))))) := by
    simp only [mapping, ieee, half_const]
    congr 3
    · rw [mul_comm]
    · congr 1; rw [div_eq_mul_inv, mul_comm]; congr 1
      · norm_num
      · congr 2; rw [div_eq_mul_inv, mul_comm]; congr 1
        · norm_num
        · congr 1; rw [mul_comm]
  have f2 : (mapping (ieee tab) L0 L1 100 0).2 =
      rnd32 (rnd64 (rnd32 (rnd64 (1 / 2 * rnd32 (L0 + L1))) +
        rnd64 (1 / 2 * rnd32 (rnd64 (1 / 100 * rnd32 (100 * rnd32 (L1 - L0))))))) := by
    simp only [mapping, ieee, half_const]
    congr 3
    · rw [mul_comm]
    · congr 1; rw [div_eq_mul_inv, mul_comm]; congr 1
      · norm_num
      · congr 2; rw [div_eq_mul_inv, mul_comm]; congr 1
        · norm_num
        · congr 1; rw [mul_comm]
  rw [f1, f2]
  exact ⟨apx_weaken p3 (by norm_num) hM', apx_weaken t3 (by norm_num) hM'⟩

/-! ### the argument of `expf` -/

theorem clamp_dev (L0 L1 v t : ℚ) (h0 : L0 ≤ t) (h1 : t ≤ L1) :
    L0 ≤ clamp (ieee tab) L0 L1 v ∧ clamp (ieee tab) L0 L1 v ≤ L1 ∧
    |clamp (ieee tab) L0 L1 v - t| ≤ |v - t| := by
  unfold clamp Arith.gt
  simp only [ieee, Bool.not_eq_eq_eq_not, Bool.not_true, decide_eq_false_iff_not, not_le]
  by_cases c1 : L1 < v
  · simp only [c1, ↓reduceIte]
    refine ⟨by linarith, le_refl _, ?_⟩
    rw [abs_of_nonneg (by linarith), abs_of_nonneg (by linarith)]; linarith
  · simp only [c1, ↓reduceIte]
    by_cases c2 : v < L0
    · simp only [c2, ↓reduceIte]
      refine ⟨le_refl _, by linarith, ?_⟩
      rw [abs_of_nonpos (by linarith), abs_of_nonpos (by linarith)]; linarith
    · simp only [c2, ↓reduceIte]
      exact ⟨by linarith, by linarith, le_refl _⟩

/-- **the float model's argument of `expf`** for a log-scale automation at the default gain
    and offset: the model emits one message whose value is the argument `c` (the model reports
    the argument of `expf`, `IEEE.ieee` has `expf = id`); `c` lies between the stored bounds and
    `|c − (L0 + x·(L1 − L0))| ≤ 86·2⁻²⁴·(M + 2⁻¹²⁶)` for every `M ≥ |L0|, |L1|`. -/
theorem ieee_log_arg_deviation (tab : List (ℚ × ℚ)) (au : Automation ℚ) (x : ℚ) (hu : au.used = true)
    (hty : au.ty = 'i' ∨ au.ty = 'f') (hl : au.logScale = true)
    (hcp : (au.cp1, au.cp3) = mapping (ieee tab) au.pmin au.pmax 100 0) (hm : au.pmin ≤ au.pmax)
    (M : ℚ) (h0 : |au.pmin| ≤ M) (h1 : |au.pmax| ≤ M) (hx0 : 0 ≤ x) (hx1 : x ≤ 1) :
    ∃ c : ℚ,
      emit (ieee tab) au x =
        [ if au.ty = 'i' then { addr := au.path, ty := 'i', val := .int (trunc (roundAway c)), expArg := some c }
          else { addr := au.path, ty := 'f', val := .flt c, expArg := some c } ] ∧
      au.pmin ≤ c ∧ c ≤ au.pmax ∧
      |c - (au.pmin + x * (au.pmax - au.pmin))| ≤ 86 * u32 * (M + tiny) := by
  have hM0 : 0 ≤ M := le_trans (abs_nonneg _) h0
  have hM : tiny ≤ M + tiny := by linarith
  have hM' : 0 ≤ M + tiny := by linarith [tiny_pos]
  obtain ⟨m1, m3⟩ := mapping_dev tab au.pmin au.pmax M h0 h1
  rw [← hcp] at m1 m3
  simp only at m1 m3
  have hd : 0 ≤ au.pmax - au.pmin := by linarith
  have ht0 : au.pmin ≤ au.pmin + x * (au.pmax - au.pmin) := by nlinarith
  have ht1 : au.pmin + x * (au.pmax - au.pmin) ≤ au.pmax := by nlinarith
  have htM : |x * (au.pmax - au.pmin) + au.pmin| ≤ 1 * (M + tiny) := by
    rw [abs_le] at h0 h1 ⊢
    constructor <;> nlinarith [tiny_pos]
  have w1 := apx_r32 hM (by norm_num [u32]) (apx_sub m3 m1)
  have w2 := apx_mul_const x 1 (by rw [abs_of_nonneg hx0]; exact hx1) w1
  have w3 := apx_r32 hM (by norm_num [u32]) w2
  have w4 := apx_r32 hM (by norm_num [u32]) (apx_rekey (apx_add w3 m1) htM)
  have w5 := apx_weaken w4 (show _ ≤ (86 : ℚ) by norm_num) hM'
  have ev : x * (au.pmax - au.pmin) + au.pmin = au.pmin + x * (au.pmax - au.pmin) := by ring
  rw [ev] at w5
  obtain ⟨c0, c1, c2⟩ := clamp_dev (tab := tab) au.pmin au.pmax
    (rnd32 (rnd32 (x * rnd32 (au.cp3 - au.cp1)) + au.cp1)) _ ht0 ht1
  refine ⟨clamp (ieee tab) au.pmin au.pmax (rnd32 (rnd32 (x * rnd32 (au.cp3 - au.cp1)) + au.cp1)), ?_,
    c0, c1, le_trans c2 w5.1⟩
  unfold emit
  simp only [hu, Bool.not_true, Bool.false_eq_true, ↓reduceIte, hl]
  rcases hty with hi | hf
  · simp [hi, ieee]
  · simp [hf, ieee]

end Rtosc.Auto.IEEE
