/-
  C15 — helper lemmas about the undo-history model (core Lean only).
-/
import RtoscModel.UndoSpec
namespace Rtosc.Undo
open Rtosc


theorem rewindN_spec : ∀ (n : Nat) (s : State), WF s →
    rewindN n s = if n ≤ s.pos then
        some (⟨s.hist, s.pos - n⟩, ((s.hist.take s.pos).reverse.take n).map (fun x => rewindMsg x.2))
      else none := by
  intro n
  induction n with
  | zero => intro s _; simp [rewindN]
  | succ n ih =>
    intro s hwf
    obtain ⟨h, pos⟩ := s
    cases pos with
    | zero => simp [rewindN]
    | succ p =>
      have hp : p < h.length := hwf
      simp only [rewindN, List.getElem?_eq_getElem hp]
      rw [ih ⟨h, p⟩ (Nat.le_of_lt hp)]
      have ht : (h.take (p + 1)).reverse = h[p] :: (h.take p).reverse := by
        rw [List.take_add_one, List.getElem?_eq_getElem hp]; simp
      by_cases hn : n ≤ p
      · simp [hn, ht]
      · simp [hn]

theorem replayN_spec : ∀ (n : Nat) (s : State), WF s →
    replayN n s = if s.pos + n ≤ s.hist.length then
        some (⟨s.hist, s.pos + n⟩, ((s.hist.drop s.pos).take n).flatMap (fun x => replayMsg x.2))
      else none := by
  intro n
  induction n with
  | zero => intro s h; simp [replayN]; exact h
  | succ n ih =>
    intro s hwf
    obtain ⟨h, pos⟩ := s
    by_cases hp : pos < h.length
    · simp only [replayN, List.getElem?_eq_getElem hp]
      rw [ih ⟨h, pos + 1⟩ hp]
      have hd : h.drop pos = h[pos] :: h.drop (pos + 1) := List.drop_eq_getElem_cons hp
      by_cases hn : pos + 1 + n ≤ h.length
      · have hn' : pos + (n + 1) ≤ h.length := by omega
        simp only [hn, hn', hd, if_true, Option.map_some, List.take_succ_cons, List.flatMap_cons]
        simp only [Nat.add_assoc, Nat.add_comm 1 n]
      · have hn' : ¬ pos + (n + 1) ≤ h.length := by omega
        simp [hn, hn']
    · have : h[pos]? = none := by simp; omega
      have hn' : ¬ pos + (n + 1) ≤ h.length := by omega
      simp [replayN, this, hn']

theorem seek_neg (s : State) (hwf : WF s) (k : Nat) :
    seekHistory s (-(k : Int)) =
      some (⟨s.hist, s.pos - k⟩, ((s.hist.take s.pos).reverse.take k).map (fun x => rewindMsg x.2)) := by
  obtain ⟨h, pos⟩ := s
  have hwf' : pos ≤ h.length := hwf
  unfold seekHistory
  simp only
  by_cases hk : k ≤ pos
  · have h1 : ¬ ((pos : Int) + -(k : Int) < 0) := by omega
    have h2 : ¬ ((pos : Int) + -(k : Int) > (h.length : Int)) := by omega
    simp only [h1, h2, if_false]
    by_cases hk0 : k = 0
    · subst hk0; simp
    · have h3 : ¬ (-(k : Int) = 0) := by omega
      have h4 : -(k : Int) < 0 := by omega
      simp only [h3, h4, if_false, if_true, Int.natAbs_neg, Int.natAbs_natCast]
      rw [rewindN_spec k ⟨h, pos⟩ hwf]; simp [hk]
  · have h1 : ((pos : Int) + -(k : Int) < 0) := by omega
    have h2 : ¬ ((pos : Int) + -(k : Int) > (h.length : Int)) := by omega
    simp only [h1, h2, if_false, if_true]
    have e : -(k : Int) - ((pos : Int) + -(k : Int)) = -(pos : Int) := by omega
    rw [e]
    have hlen : (List.take pos h).reverse.length ≤ k := by simp; omega
    by_cases hp0 : pos = 0
    · subst hp0; simp
    · have h3 : ¬ (-(pos : Int) = 0) := by omega
      have h4 : -(pos : Int) < 0 := by omega
      simp only [h3, h4, if_false, if_true, Int.natAbs_neg, Int.natAbs_natCast]
      rw [rewindN_spec pos ⟨h, pos⟩ hwf]
      have : pos - k = 0 := by omega
      have t2 : ((List.take pos h).reverse).take pos = (List.take pos h).reverse :=
        List.take_of_length_le (by simp; omega)
      rw [List.take_of_length_le hlen]
      simp only [t2, this, Nat.le_refl, if_true, Nat.sub_self]

theorem seek_pos (s : State) (hwf : WF s) (k : Nat) :
    seekHistory s (k : Int) =
      some (⟨s.hist, min (s.pos + k) s.hist.length⟩,
            ((s.hist.drop s.pos).take k).flatMap (fun x => replayMsg x.2)) := by
  obtain ⟨h, pos⟩ := s
  have hwf' : pos ≤ h.length := hwf
  unfold seekHistory
  simp only
  have h1 : ¬ ((pos : Int) + (k : Int) < 0) := by omega
  simp only [h1, if_false]
  by_cases hk : pos + k ≤ h.length
  · have h2 : ¬ ((pos : Int) + (k : Int) > (h.length : Int)) := by omega
    simp only [h2, if_false]
    have hm : min (pos + k) h.length = pos + k := by omega
    by_cases hk0 : k = 0
    · subst hk0; simp [hwf']
    · have h3 : ¬ ((k : Int) = 0) := by omega
      have h4 : ¬ ((k : Int) < 0) := by omega
      simp only [h3, h4, if_false, Int.toNat_natCast]
      rw [replayN_spec k ⟨h, pos⟩ hwf]; simp [hk, hm]
  · have h2 : ((pos : Int) + (k : Int) > (h.length : Int)) := by omega
    simp only [h2, if_true]
    have hm : min (pos + k) h.length = h.length := by omega
    have hlen : (List.drop pos h).length ≤ k := by simp; omega
    by_cases hp0 : pos = h.length
    · subst hp0; simp
    · have h3 : ¬ ((h.length : Int) - (pos : Int) = 0) := by omega
      have h4 : ¬ ((h.length : Int) - (pos : Int) < 0) := by omega
      have e : ((h.length : Int) - (pos : Int)).toNat = h.length - pos := by omega
      simp only [h3, h4, if_false, e]
      rw [replayN_spec (h.length - pos) ⟨h, pos⟩ hwf]
      have : pos + (h.length - pos) = h.length := by omega
      have t2 : (List.drop pos h).take (h.length - pos) = List.drop pos h :=
        List.take_of_length_le (by simp)
      rw [List.take_of_length_le hlen]
      simp only [t2, this, hm, Nat.le_refl, if_true]

theorem take_len {s : State} (hwf : WF s) : (s.hist.take s.pos).length = s.pos := by
  rw [List.length_take]; exact Nat.min_eq_left hwf

theorem mergeRev_skip (now : Int) (ev : Event) (a b : List Entry)
    (ha : ∀ x ∈ a, x.2.addr ≠ ev.addr) :
    mergeRev now ev (a ++ b) = (mergeRev now ev b).map (a ++ ·) := by
  induction a with
  | nil => simp
  | cons x a ih =>
    obtain ⟨t, e⟩ := x
    have hx : e.addr ≠ ev.addr := ha (t, e) (by simp)
    have ih' := ih (fun y hy => ha y (by simp [hy]))
    simp only [List.cons_append, mergeRev, hx, ne_eq, not_false_eq_true, if_true, ih']
    cases mergeRev now ev b <;> simp

theorem mergeRev_absent (now : Int) (ev : Event) (l : List Entry)
    (hl : ∀ x ∈ l, x.2.addr ≠ ev.addr) : mergeRev now ev l = none := by
  have := mergeRev_skip now ev l [] hl
  simpa [mergeRev] using this

theorem mergeRev_length (now : Int) (ev : Event) : ∀ (l l' : List Entry),
    mergeRev now ev l = some l' → l'.length = l.length := by
  intro l
  induction l with
  | nil => intro l' h; simp [mergeRev] at h
  | cons x l ih =>
    obtain ⟨t, e⟩ := x
    intro l' h
    simp only [mergeRev] at h
    split at h
    · cases hm : mergeRev now ev l with
      | none => simp [hm] at h
      | some r => simp [hm] at h; subst h; simp [ih r hm]
    · split at h
      · simp at h
      · simp at h; subst h; simp

theorem mergeEvent_eq (now : Int) (ev : Event) (h : List Entry) (pos : Nat) (hp : h.length = pos) :
    mergeEvent now ev h pos = (mergeRev now ev h.reverse).map List.reverse := by
  unfold mergeEvent
  by_cases h0 : pos = 0
  · subst h0
    have : h = [] := List.length_eq_zero_iff.mp hp
    subst this; simp [mergeRev]
  · simp [h0]

theorem resize_eq (s : State) (_hwf : WF s) :
    (if s.hist.length ≠ s.pos then s.hist.take s.pos else s.hist) = s.hist.take s.pos := by
  by_cases h : s.hist.length = s.pos
  · simp only [h, ne_eq, not_true_eq_false, if_false]
    rw [← h, List.take_length]
  · simp [h]

/-- `recordEvent` on a well-formed state, in terms of the applied prefix. -/
theorem recordEvent_eq (now : Int) (ev : Event) (s : State) (hwf : WF s) :
    recordEvent now ev s =
      match (mergeRev now ev (s.hist.take s.pos).reverse).map List.reverse with
      | some h' => ⟨h', s.pos⟩
      | none =>
        if (s.hist.take s.pos ++ [(now, ev)]).length > Generated.maxHistory
        then ⟨(s.hist.take s.pos ++ [(now, ev)]).drop 1, s.pos + 1 - 1⟩
        else ⟨s.hist.take s.pos ++ [(now, ev)], s.pos + 1⟩ := by
  unfold recordEvent
  simp only [resize_eq s hwf]
  rw [mergeEvent_eq now ev _ s.pos (take_len hwf)]
  cases mergeRev now ev (List.take s.pos s.hist).reverse <;> rfl

theorem record_merge (now : Int) (ev : Event) (s : State) (hwf : WF s)
    (pre post : List Entry) (t : Int) (e : Event)
    (hd : s.hist.take s.pos = pre ++ (t, e) :: post) (he : e.addr = ev.addr)
    (hpost : ∀ x ∈ post, x.2.addr ≠ ev.addr) (hw : now - t ≤ Generated.mergeWindow) :
    recordEvent now ev s = ⟨pre ++ (now, splice e ev) :: post, s.pos⟩ := by
  rw [recordEvent_eq now ev s hwf, hd]
  have hr : (pre ++ (t, e) :: post).reverse = post.reverse ++ ((t, e) :: pre.reverse) := by simp
  rw [hr, mergeRev_skip now ev _ _ (by simpa using hpost)]
  have hw' : ¬ (now - t > Generated.mergeWindow) := by omega
  simp [mergeRev, he, hw']

theorem record_append (now : Int) (ev : Event) (s : State) (hwf : WF s)
    (hno : (∀ x ∈ s.hist.take s.pos, x.2.addr ≠ ev.addr) ∨
           ∃ pre post t e, s.hist.take s.pos = pre ++ (t, e) :: post ∧ e.addr = ev.addr ∧
             (∀ x ∈ post, x.2.addr ≠ ev.addr) ∧ now - t > Generated.mergeWindow) :
    recordEvent now ev s =
      if s.pos + 1 > Generated.maxHistory
      then ⟨(s.hist.take s.pos ++ [(now, ev)]).drop 1, s.pos⟩
      else ⟨s.hist.take s.pos ++ [(now, ev)], s.pos + 1⟩ := by
  rw [recordEvent_eq now ev s hwf]
  have hnone : mergeRev now ev (s.hist.take s.pos).reverse = none := by
    rcases hno with h | ⟨pre, post, t, e, hd, he, hpost, hw⟩
    · exact mergeRev_absent now ev _ (by simpa using h)
    · have hr : (pre ++ (t, e) :: post).reverse = post.reverse ++ ((t, e) :: pre.reverse) := by simp
      rw [hd, hr, mergeRev_skip now ev _ _ (by simpa using hpost)]
      simp [mergeRev, he, hw]
  have hl : (s.hist.take s.pos ++ [(now, ev)]).length = s.pos + 1 := by
    rw [List.length_append, take_len hwf]; rfl
  simp only [hnone, Option.map_none, hl, Nat.add_sub_cancel]

theorem record_pos_size (now : Int) (ev : Event) (s : State) (hwf : WF s) :
    (recordEvent now ev s).pos = (recordEvent now ev s).hist.length := by
  rw [recordEvent_eq now ev s hwf]
  have hl : (s.hist.take s.pos).length = s.pos := take_len hwf
  cases hm : mergeRev now ev (s.hist.take s.pos).reverse with
  | some r =>
    have := mergeRev_length now ev _ r hm
    simp [this, hl]
  | none =>
    simp only [Option.map_none]
    split
    · simp [hl]
    · simp [hl]

theorem record_size_le (now : Int) (ev : Event) (s : State) (hwf : WF s) :
    (recordEvent now ev s).hist.length ≤ Generated.maxHistory ∨
    (recordEvent now ev s).hist.length ≤ s.pos := by
  rw [recordEvent_eq now ev s hwf]
  have hl : (s.hist.take s.pos).length = s.pos := take_len hwf
  cases hm : mergeRev now ev (s.hist.take s.pos).reverse with
  | some r =>
    have := mergeRev_length now ev _ r hm
    right; simp [this, hl]
  | none =>
    simp only [Option.map_none]
    split
    · rename_i h; right; simp [hl] at h ⊢
    · rename_i h; left; simp [hl] at h ⊢; omega


theorem set_same (σ : Store) (a : Bytes) (v : UInt32) : (σ.set a v) a = v := by simp [Store.set]
theorem set_other (σ : Store) (a b : Bytes) (v : UInt32) (h : b ≠ a) : (σ.set a v) b = σ b := by
  simp [Store.set, h]
theorem set_set (σ : Store) (a : Bytes) (v w : UInt32) : (σ.set a v).set a w = σ.set a w := by
  funext b; by_cases h : b = a <;> simp [Store.set, h]
theorem set_comm (σ : Store) (a b : Bytes) (v w : UInt32) (h : a ≠ b) :
    (σ.set a v).set b w = (σ.set b w).set a v := by
  funext c
  by_cases h1 : c = a
  · have h2 : ¬ c = b := fun hcb => h (h1.symm.trans hcb)
    simp [Store.set, h1, h]
  · by_cases h2 : c = b
    · have : ¬ b = a := fun hba => h hba.symm
      simp [Store.set, h2, this]
    · simp [Store.set, h1, h2]
theorem set_self (σ : Store) (a : Bytes) (v : UInt32) (h : σ a = v) : σ.set a v = σ := by
  funext b; by_cases hb : b = a <;> simp [Store.set, hb, h]

theorem applyEmits_cons (σ : Store) (m : Emit) (ms : List Emit) :
    applyEmits σ (m :: ms) = applyEmits (applyEmit σ m) ms := rfl

theorem applyEmits_append (σ : Store) (a b : List Emit) :
    applyEmits σ (a ++ b) = applyEmits (applyEmits σ a) b := by
  simp [applyEmits, List.foldl_append]

/-- Undoing the events `r` (oldest first) newest-first: every touched address ends at the
    old value of its oldest event. -/
theorem applyEmits_undo (r : List Entry) : ∀ (σ : Store) (a : Bytes),
    applyEmits σ (r.reverse.map fun x => undoMsg x.2) a =
      match r.find? (fun x => x.2.addr = a) with
      | some x => x.2.old
      | none => σ a := by
  induction r with
  | nil => intro σ a; simp [applyEmits]
  | cons x r ih =>
    intro σ a
    rw [List.reverse_cons, List.map_append, applyEmits_append]
    simp only [List.map_cons, List.map_nil, List.find?_cons]
    by_cases hx : x.2.addr = a
    · simp [hx, applyEmits, applyEmit, undoMsg, Store.set]
    · have : ¬ (a = x.2.addr) := fun h => hx h.symm
      simp only [hx, decide_false]
      simp only [applyEmits, List.foldl_cons, List.foldl_nil, applyEmit, undoMsg, Store.set, this, if_false]
      exact ih σ a

/-- Redoing the events `r` oldest-first: every touched address ends at the new value of
    its newest event. -/
theorem applyEmits_redo (r : List Entry) : ∀ (σ : Store) (a : Bytes),
    applyEmits σ (r.map fun x => redoMsg x.2) a =
      match r.reverse.find? (fun x => x.2.addr = a) with
      | some x => x.2.new
      | none => σ a := by
  induction r with
  | nil => intro σ a; simp [applyEmits]
  | cons x r ih =>
    intro σ a
    rw [List.map_cons, applyEmits_cons, ih, List.reverse_cons, List.find?_append]
    cases hf : List.find? (fun x => decide (x.2.addr = a)) r.reverse with
    | some y => simp
    | none =>
      by_cases hx : x.2.addr = a
      · simp [hx, applyEmit, redoMsg, Store.set]
      · have : ¬ (a = x.2.addr) := fun h => hx h.symm
        simp [hx, applyEmit, redoMsg, Store.set, this]

/-- Under `RChain` the store holds, for every touched address, the new value of its newest entry. -/
theorem RChain_current : ∀ (l : List Entry) (σ : Store) (a : Bytes) (x : Entry),
    RChain σ l → l.find? (fun x => x.2.addr = a) = some x → σ a = x.2.new := by
  intro l
  induction l with
  | nil => intro σ a x _ h; simp at h
  | cons y l ih =>
    intro σ a x hc hf
    obtain ⟨h1, h2⟩ := hc
    by_cases hy : y.2.addr = a
    · simp [hy] at hf; subst hf; rw [← hy]; exact h1
    · simp [hy] at hf
      have := ih _ a x h2 hf
      rw [set_other _ _ _ _ (fun h => hy h.symm)] at this
      exact this

theorem RChain_dropLast : ∀ (l : List Entry) (σ : Store), RChain σ l → RChain σ l.dropLast := by
  intro l
  induction l with
  | nil => intro σ h; exact h
  | cons x l ih =>
    intro σ h
    cases l with
    | nil => simp [List.dropLast, RChain]
    | cons y l =>
      simp only [List.dropLast]
      exact ⟨h.1, ih _ h.2⟩

/-- Merging a new change `a : _ → v` into a newest-first chain keeps the chain for the
    updated store. -/
theorem RChain_merge (now : Int) (ev : Event) : ∀ (l l' : List Entry) (σ : Store),
    RChain σ l → mergeRev now ev l = some l' → RChain (σ.set ev.addr ev.new) l' := by
  intro l
  induction l with
  | nil => intro l' σ _ h; simp [mergeRev] at h
  | cons x l ih =>
    obtain ⟨t, e⟩ := x
    intro l' σ hc hm
    obtain ⟨h1, h2⟩ := hc
    simp only [mergeRev] at hm
    split at hm
    · rename_i hne
      cases hr : mergeRev now ev l with
      | none => simp [hr] at hm
      | some r =>
        simp [hr] at hm; subst hm
        have hne' : e.addr ≠ ev.addr := by simpa using hne
        refine ⟨?_, ?_⟩
        · show (σ.set ev.addr ev.new) e.addr = e.new
          rw [set_other _ _ _ _ hne']; exact h1
        · show RChain ((σ.set ev.addr ev.new).set e.addr e.old) r
          rw [set_comm _ _ _ _ _ (fun h => hne' h.symm)]
          exact ih r _ h2 hr
    · rename_i heq
      have heq' : e.addr = ev.addr := by simpa using heq
      split at hm
      · simp at hm
      · simp at hm; subst hm
        refine ⟨?_, ?_⟩
        · show (σ.set ev.addr ev.new) (splice e ev).addr = (splice e ev).new
          simp [splice, set_same]
        · show RChain ((σ.set ev.addr ev.new).set (splice e ev).addr (splice e ev).old) l
          simp only [splice, set_set]
          have : σ.set ev.addr e.old = σ.set e.addr e.old := by rw [heq']
          rw [this]; exact h2

theorem reverse_take_succ (h : List Entry) (p : Nat) (hp : p < h.length) :
    (h.take (p + 1)).reverse = h[p] :: (h.take p).reverse := by
  rw [List.take_add_one, List.getElem?_eq_getElem hp]; simp

theorem rewindMsg_fit (e : Event) (h : fits e.addr = true) : rewindMsg e = undoMsg e := by
  simp [rewindMsg, undoMsg, h]
theorem replayMsg_fit (e : Event) (h : fits e.addr = true) : replayMsg e = [redoMsg e] := by
  simp [replayMsg, redoMsg, h]

/-- one undo step keeps the chain invariant -/
theorem inv_undo1 (h : List Entry) (p : Nat) (hp : p < h.length) (σ : Store)
    (hi : Inv ⟨h, p + 1⟩ σ) : Inv ⟨h, p⟩ (applyEmit σ (undoMsg h[p].2)) := by
  obtain ⟨h1, h2⟩ := hi
  simp only [applied, undone] at h1 h2 ⊢
  rw [reverse_take_succ h p hp] at h1
  obtain ⟨h1a, h1b⟩ := h1
  refine ⟨h1b, ?_⟩
  show Chain _ (List.drop p h)
  rw [List.drop_eq_getElem_cons hp]
  refine ⟨by simp [applyEmit, undoMsg, set_same], ?_⟩
  simp only [applyEmit, undoMsg, set_set]
  rw [set_self σ _ _ h1a]; exact h2

/-- one redo step keeps the chain invariant -/
theorem inv_redo1 (h : List Entry) (p : Nat) (hp : p < h.length) (σ : Store)
    (hi : Inv ⟨h, p⟩ σ) : Inv ⟨h, p + 1⟩ (applyEmit σ (redoMsg h[p].2)) := by
  obtain ⟨h1, h2⟩ := hi
  simp only [applied, undone] at h1 h2 ⊢
  rw [List.drop_eq_getElem_cons hp] at h2
  obtain ⟨h2a, h2b⟩ := h2
  refine ⟨?_, h2b⟩
  show RChain _ (List.take (p + 1) h).reverse
  rw [reverse_take_succ h p hp]
  refine ⟨by simp [applyEmit, redoMsg, set_same], ?_⟩
  simp only [applyEmit, redoMsg, set_set]
  rw [set_self σ _ _ h2a]; exact h1

theorem inv_rewindN : ∀ (n : Nat) (u u' : State) (ms : List Emit) (σ : Store),
    AddrsFit u → Inv u σ → rewindN n u = some (u', ms) → Inv u' (applyEmits σ ms) := by
  intro n
  induction n with
  | zero => intro u u' ms σ _ hi h; simp [rewindN] at h; obtain ⟨rfl, rfl⟩ := h; exact hi
  | succ n ih =>
    intro u u' ms σ hf hi h
    obtain ⟨hist, pos⟩ := u
    cases pos with
    | zero => simp [rewindN] at h
    | succ p =>
      simp only [rewindN] at h
      by_cases hp : p < hist.length
      · simp only [List.getElem?_eq_getElem hp] at h
        cases hr : rewindN n ⟨hist, p⟩ with
        | none => simp [hr] at h
        | some r =>
          obtain ⟨u1, ms1⟩ := r
          simp [hr] at h
          obtain ⟨rfl, rfl⟩ := h
          have hfit : fits hist[p].2.addr = true := hf _ (List.getElem_mem hp)
          rw [rewindMsg_fit _ hfit, applyEmits_cons]
          exact ih ⟨hist, p⟩ _ _ _ hf (inv_undo1 hist p hp σ hi) hr
      · have : hist[p]? = none := by simp; omega
        simp [this] at h

theorem inv_replayN : ∀ (n : Nat) (u u' : State) (ms : List Emit) (σ : Store),
    AddrsFit u → Inv u σ → replayN n u = some (u', ms) → Inv u' (applyEmits σ ms) := by
  intro n
  induction n with
  | zero => intro u u' ms σ _ hi h; simp [replayN] at h; obtain ⟨rfl, rfl⟩ := h; exact hi
  | succ n ih =>
    intro u u' ms σ hf hi h
    obtain ⟨hist, pos⟩ := u
    simp only [replayN] at h
    by_cases hp : pos < hist.length
    · simp only [List.getElem?_eq_getElem hp] at h
      cases hr : replayN n ⟨hist, pos + 1⟩ with
      | none => simp [hr] at h
      | some r =>
        obtain ⟨u1, ms1⟩ := r
        simp [hr] at h
        obtain ⟨rfl, rfl⟩ := h
        have hfit : fits hist[pos].2.addr = true := hf _ (List.getElem_mem hp)
        rw [replayMsg_fit _ hfit, List.singleton_append, applyEmits_cons]
        exact ih ⟨hist, pos + 1⟩ _ _ _ hf (inv_redo1 hist pos hp σ hi) hr
    · have : hist[pos]? = none := by simp; omega
      simp [this] at h

theorem seek_cases (s : State) (d : Int) (r : State × List Emit) (h : seekHistory s d = some r) :
    r = (s, []) ∨ (∃ n, rewindN n s = some r) ∨ (∃ n, replayN n s = some r) := by
  have key : ∀ d2 : Int, (if d2 = 0 then some (s, []) else if d2 < 0 then rewindN d2.natAbs s
      else replayN d2.toNat s) = some r →
      r = (s, []) ∨ (∃ n, rewindN n s = some r) ∨ (∃ n, replayN n s = some r) := by
    intro d2 h
    by_cases h0 : d2 = 0
    · left; simpa [h0] using h.symm
    · by_cases h1 : d2 < 0
      · right; left; exact ⟨_, by simpa [h0, h1] using h⟩
      · right; right; exact ⟨_, by simpa [h0, h1] using h⟩
  unfold seekHistory at h
  exact key _ h

theorem rewindN_hist : ∀ (n : Nat) (u u' : State) (ms : List Emit),
    rewindN n u = some (u', ms) → u'.hist = u.hist ∧ u'.pos ≤ u.pos := by
  intro n
  induction n with
  | zero => intro u u' ms h; simp [rewindN] at h; obtain ⟨rfl, rfl⟩ := h; simp
  | succ n ih =>
    intro u u' ms h
    obtain ⟨hist, pos⟩ := u
    cases pos with
    | zero => simp [rewindN] at h
    | succ p =>
      simp only [rewindN] at h
      cases hg : hist[p]? with
      | none => simp [hg] at h
      | some x =>
        simp only [hg] at h
        cases hr : rewindN n ⟨hist, p⟩ with
        | none => simp [hr] at h
        | some r =>
          obtain ⟨u1, ms1⟩ := r
          simp [hr] at h
          obtain ⟨rfl, rfl⟩ := h
          have := ih _ _ _ hr
          exact ⟨this.1, by have := this.2; simp at this ⊢; omega⟩

theorem replayN_hist : ∀ (n : Nat) (u u' : State) (ms : List Emit),
    WF u → replayN n u = some (u', ms) → u'.hist = u.hist ∧ WF u' := by
  intro n
  induction n with
  | zero => intro u u' ms hw h; simp [replayN] at h; obtain ⟨rfl, rfl⟩ := h; exact ⟨rfl, hw⟩
  | succ n ih =>
    intro u u' ms hw h
    obtain ⟨hist, pos⟩ := u
    simp only [replayN] at h
    by_cases hp : pos < hist.length
    · simp only [List.getElem?_eq_getElem hp] at h
      cases hr : replayN n ⟨hist, pos + 1⟩ with
      | none => simp [hr] at h
      | some r =>
        obtain ⟨u1, ms1⟩ := r
        simp [hr] at h
        obtain ⟨rfl, rfl⟩ := h
        have := ih ⟨hist, pos + 1⟩ _ _ (show WF ⟨hist, pos + 1⟩ from hp) hr
        exact ⟨this.1, this.2⟩
    · have : hist[pos]? = none := by simp; omega
      simp [this] at h

/-- `seekHistory` never changes the recorded events and keeps the cursor inside. -/
theorem seek_hist (s s' : State) (d : Int) (ms : List Emit) (hw : WF s)
    (h : seekHistory s d = some (s', ms)) : s'.hist = s.hist ∧ WF s' := by
  rcases seek_cases s d _ h with h | ⟨n, h⟩ | ⟨n, h⟩
  · simp at h; obtain ⟨rfl, _⟩ := h; exact ⟨rfl, hw⟩
  · have := rewindN_hist n s s' ms h
    refine ⟨this.1, ?_⟩
    unfold WF at hw ⊢; rw [this.1]; omega
  · exact replayN_hist n s s' ms hw h

/-- dispatching the messages of any seek back into the application keeps the chain invariant -/
theorem inv_seek (s s' : State) (d : Int) (ms : List Emit) (σ : Store)
    (hf : AddrsFit s) (hi : Inv s σ) (h : seekHistory s d = some (s', ms)) :
    Inv s' (applyEmits σ ms) := by
  rcases seek_cases s d _ h with h | ⟨n, h⟩ | ⟨n, h⟩
  · simp at h; obtain ⟨rfl, rfl⟩ := h; exact hi
  · exact inv_rewindN n s s' ms σ hf hi h
  · exact inv_replayN n s s' ms σ hf hi h

theorem mergeRev_mem (now : Int) (ev : Event) : ∀ (l l' : List Entry),
    mergeRev now ev l = some l' → ∀ x ∈ l', x ∈ l ∨ x.2.addr = ev.addr := by
  intro l
  induction l with
  | nil => intro l' h; simp [mergeRev] at h
  | cons y l ih =>
    obtain ⟨t, e⟩ := y
    intro l' h x hx
    simp only [mergeRev] at h
    split at h
    · cases hm : mergeRev now ev l with
      | none => simp [hm] at h
      | some r =>
        simp [hm] at h; subst h
        rcases List.mem_cons.mp hx with rfl | hx
        · left; simp
        · rcases ih r hm x hx with h | h
          · left; simp [h]
          · right; exact h
    · split at h
      · simp at h
      · simp at h; subst h
        rcases List.mem_cons.mp hx with rfl | hx
        · right; simp [splice]
        · left; simp [hx]

theorem fit_record (now : Int) (ev : Event) (s : State) (hwf : WF s) (hf : AddrsFit s)
    (he : fits ev.addr = true) : AddrsFit (recordEvent now ev s) := by
  rw [recordEvent_eq now ev s hwf]
  have htake : ∀ x ∈ s.hist.take s.pos, fits x.2.addr = true :=
    fun x hx => hf x (List.mem_of_mem_take hx)
  cases hm : mergeRev now ev (s.hist.take s.pos).reverse with
  | some r =>
    intro x hx
    simp only [Option.map_some, List.mem_reverse] at hx
    rcases mergeRev_mem now ev _ r hm x hx with h | h
    · exact htake x (by simpa using h)
    · rw [h]; exact he
  | none =>
    have happ : ∀ x ∈ s.hist.take s.pos ++ [(now, ev)], fits x.2.addr = true := by
      intro x hx
      rcases List.mem_append.mp hx with h | h
      · exact htake x h
      · simp at h; subst h; exact he
    simp only [Option.map_none]
    split
    · intro x hx; exact happ x (List.mem_of_mem_drop hx)
    · exact happ

theorem inv_record (now : Int) (a : Bytes) (tag : UInt8) (v : UInt32) (s : State) (σ : Store)
    (hwf : WF s) (hi : Inv s σ) :
    Inv (recordEvent now ⟨a, tag, σ a, v⟩ s) (σ.set a v) := by
  have hps := record_pos_size now ⟨a, tag, σ a, v⟩ s hwf
  obtain ⟨h1, _⟩ := hi
  simp only [applied] at h1
  unfold Inv applied undone
  rw [hps, List.take_length, List.drop_length]
  refine ⟨?_, trivial⟩
  rw [recordEvent_eq now _ s hwf]
  cases hm : mergeRev now ⟨a, tag, σ a, v⟩ (s.hist.take s.pos).reverse with
  | some r =>
    simp only [Option.map_some, List.reverse_reverse]
    exact RChain_merge now ⟨a, tag, σ a, v⟩ _ r σ h1 hm
  | none =>
    have hfull : RChain (σ.set a v) (s.hist.take s.pos ++ [(now, (⟨a, tag, σ a, v⟩ : Event))]).reverse := by
      rw [List.reverse_append]
      refine ⟨by simp [set_same], ?_⟩
      show RChain ((σ.set a v).set a (σ a)) (s.hist.take s.pos).reverse
      rw [set_set, set_self σ a (σ a) rfl]; exact h1
    simp only [Option.map_none]
    split
    · show RChain _ (List.drop 1 _).reverse
      rw [List.reverse_drop]
      have := RChain_dropLast _ _ hfull
      rw [List.dropLast_eq_take] at this
      rw [List.length_reverse] at this
      exact this
    · exact hfull

theorem flatMap_replay_fit (l : List Entry) (hf : ∀ x ∈ l, fits x.2.addr = true) :
    l.flatMap (fun x => replayMsg x.2) = l.map (fun x => redoMsg x.2) := by
  induction l with
  | nil => rfl
  | cons x l ih =>
    simp only [List.flatMap_cons, List.map_cons]
    rw [replayMsg_fit _ (hf x (by simp)), ih (fun y hy => hf y (by simp [hy]))]; rfl

theorem map_rewind_fit (l : List Entry) (hf : ∀ x ∈ l, fits x.2.addr = true) :
    l.map (fun x => rewindMsg x.2) = l.map (fun x => undoMsg x.2) := by
  apply List.map_congr_left
  intro x hx; exact rewindMsg_fit _ (hf x hx)

/-- the last `k` applied entries, newest first, are entries `pos-k .. pos-1` reversed -/
theorem reverse_take_take (h : List Entry) (pos k : Nat) (hk : k ≤ pos) (hp : pos ≤ h.length) :
    (h.take pos).reverse.take k = ((h.drop (pos - k)).take k).reverse := by
  have h1 : h.take pos = h.take (pos - k) ++ (h.drop (pos - k)).take k := by
    have : (h.drop (pos - k)).take k = (h.take pos).drop (pos - k) := by
      rw [List.drop_take]; congr 1; omega
    rw [this]
    have : h.take (pos - k) = (h.take pos).take (pos - k) := by
      rw [List.take_take]; congr 1; omega
    rw [this, List.take_append_drop]
  rw [h1, List.reverse_append]
  have hl : ((h.drop (pos - k)).take k).reverse.length = k := by
    simp; omega
  rw [List.take_append_of_le_length (by omega), List.take_of_length_le (by omega)]

theorem find_reverse_none (l : List Entry) (p : Entry → Bool) (h : l.reverse.find? p = none) :
    l.find? p = none := by
  rw [List.find?_eq_none] at h ⊢
  intro x hx; exact h x (by simpa using hx)

/-- The run-time facts the application-level theorems need. -/
structure Good (A : App) : Prop where
  wf   : WF A.u
  size : A.u.hist.length ≤ Generated.maxHistory
  fit  : AddrsFit A.u
  inv  : Inv A.u A.σ

theorem good_init (σ0 : Store) (t0 : Int) : Good (App.init σ0 t0) :=
  ⟨by simp [App.init, Undo.init, WF], by simp [App.init, Undo.init],
   by intro x hx; simp [App.init, Undo.init] at hx,
   by simp [App.init, Undo.init, Inv, applied, undone, RChain, Chain]⟩

theorem seek_total (s : State) (hw : WF s) (d : Int) : ∃ r, seekHistory s d = some r := by
  rcases Int.eq_nat_or_neg d with ⟨k, rfl | rfl⟩
  · exact ⟨_, seek_pos s hw k⟩
  · exact ⟨_, seek_neg s hw k⟩

theorem size_record (now : Int) (ev : Event) (s : State) (hwf : WF s)
    (hs : s.hist.length ≤ Generated.maxHistory) :
    (recordEvent now ev s).hist.length ≤ Generated.maxHistory := by
  rcases record_size_le now ev s hwf with h | h
  · exact h
  · unfold WF at hwf; omega

theorem wf_record (now : Int) (ev : Event) (s : State) (hwf : WF s) : WF (recordEvent now ev s) := by
  unfold WF; rw [record_pos_size now ev s hwf]; exact Nat.le_refl _

theorem good_step (A A' : App) (o : Op) (ms : List Emit) (hg : Good A)
    (hfit : OpFit o)
    (h : A.step o = some (A', ms)) : Good A' := by
  cases o with
  | set a tag v =>
    simp only [App.step] at h
    split at h
    · simp at h; obtain ⟨rfl, _⟩ := h; exact hg
    · simp at h; obtain ⟨rfl, _⟩ := h
      exact ⟨wf_record _ _ _ hg.wf, size_record _ _ _ hg.wf hg.size,
             fit_record _ _ _ hg.wf hg.fit hfit, inv_record _ a tag v _ _ hg.wf hg.inv⟩
  | seek k =>
    simp only [App.step] at h
    cases hs : seekHistory A.u k with
    | none => simp [hs] at h
    | some r =>
      obtain ⟨u', ms'⟩ := r
      simp [hs] at h; obtain ⟨rfl, rfl⟩ := h
      have hh := seek_hist A.u u' k ms' hg.wf hs
      refine ⟨hh.2, by show u'.hist.length ≤ _; rw [hh.1]; exact hg.size,
              by intro x hx; exact hg.fit x (by rw [← hh.1]; exact hx), ?_⟩
      exact inv_seek A.u u' k ms' A.σ hg.fit hg.inv hs
  | tick d =>
    simp only [App.step] at h
    simp at h; obtain ⟨rfl, _⟩ := h
    exact ⟨hg.wf, hg.size, hg.fit, hg.inv⟩

theorem step_total (A : App) (o : Op) (hw : WF A.u) : ∃ r, A.step o = some r := by
  cases o with
  | set a tag v => simp only [App.step]; split <;> exact ⟨_, rfl⟩
  | seek k =>
    obtain ⟨r, hr⟩ := seek_total A.u hw k
    exact ⟨_, by simp only [App.step, hr, Option.map_some]; rfl⟩
  | tick d => exact ⟨_, rfl⟩

theorem run_good : ∀ (ops : List Op) (A : App), OpsFit ops → Good A →
    ∃ A', A.run ops = some A' ∧ Good A' := by
  intro ops
  induction ops with
  | nil => intro A _ hg; exact ⟨A, rfl, hg⟩
  | cons o ops ih =>
    intro A hf hg
    obtain ⟨⟨A1, ms⟩, hr⟩ := step_total A o hg.wf
    have hfo : OpFit o ∧ OpsFit ops :=
      ⟨hf o (by simp), fun x hx => hf x (by simp [hx])⟩
    have hg1 := good_step A A1 o ms hg hfo.1 hr
    obtain ⟨A', hr', hg'⟩ := ih A1 hfo.2 hg1
    exact ⟨A', by simp [App.run, hr, hr'], hg'⟩

theorem reachable_wf_size (s : State) (h : Reachable s) :
    WF s ∧ s.hist.length ≤ Generated.maxHistory := by
  induction h with
  | init => simp [WF, Undo.init]
  | record now ev _ ih => exact ⟨wf_record _ _ _ ih.1, size_record _ _ _ ih.1 ih.2⟩
  | seek d ms _ hs ih =>
    have := seek_hist _ _ d ms ih.1 hs
    exact ⟨this.2, by rw [this.1]; exact ih.2⟩
end Rtosc.Undo
