/-
  C10 — tier 3: arithmetic runs of characters.  With range compression on, a list that is one
  arithmetic run of `n ≥ 5` printable chars is printed as `'a' ... 'e'` (step ±1) or
  `'a' 'c' ... 'i'` (other steps); checker and scanner read the text back as the range block.
  The chain of `PrettyRunInt.lean` with `Cell.int .c`, type code 99 and `charText`.
-/
import RtoscModel.Proofs.PrettyRunInt
import RtoscModel.Proofs.PrettyTokChar
namespace Rtosc.Pretty
open Rtosc Rtosc.Libc
open Rtosc.ArgVal (Cell)

/-- the arithmetic run `a, a+d, …, a+(n-1)d` as 'c' cells -/
def charRun (a d : Int) (n : Nat) : List Cell :=
  (List.range n).map (fun (k : Nat) => Cell.int .c (a + (k : Int) * d))

/-! ### arithmetic: a run of `CharOK` values is tiny -/

theorem charOK_bounds (v : Int) (h : CharOK v) : 0 ≤ v ∧ v ≤ 126 := by
  unfold CharOK at h; omega

theorem mul_bound_c (n : Nat) (d : Int) (hwidth : ((n : Int) - 1) * d.natAbs ≤ 126) (k : Nat)
    (hk : (k : Int) ≤ (n : Int) - 1) :
    -126 ≤ (k : Int) * d ∧ (k : Int) * d ≤ 126 := by
  obtain ⟨m, rfl | rfl⟩ := Int.eq_nat_or_neg d
  · simp only [Int.natAbs_natCast] at hwidth
    have h1 : (k : Int) * (m : Int) ≤ ((n : Int) - 1) * (m : Int) :=
      Int.mul_le_mul_of_nonneg_right hk (Int.natCast_nonneg _)
    have h0 : 0 ≤ (k : Int) * (m : Int) := Int.mul_nonneg (Int.natCast_nonneg _) (Int.natCast_nonneg _)
    omega
  · simp only [Int.natAbs_neg, Int.natAbs_natCast] at hwidth
    have h1 : (k : Int) * (m : Int) ≤ ((n : Int) - 1) * (m : Int) :=
      Int.mul_le_mul_of_nonneg_right hk (Int.natCast_nonneg _)
    have h0 : 0 ≤ (k : Int) * (m : Int) := Int.mul_nonneg (Int.natCast_nonneg _) (Int.natCast_nonneg _)
    rw [Int.mul_neg]
    omega

/-- the width of a run of chars -/
theorem charRun_width (a d : Int) (n : Nat) (hn : 5 ≤ n)
    (hchars : ∀ k : Nat, k < n → CharOK (a + (k : Int) * d)) : ((n : Int) - 1) * d.natAbs ≤ 126 := by
  have h0 := charOK_bounds _ (hchars 0 (by omega))
  have hz := charOK_bounds _ (hchars (n - 1) (by omega))
  simp only [Int.natCast_zero, Int.zero_mul, Int.add_zero] at h0
  rw [show ((n - 1 : Nat) : Int) = (n : Int) - 1 from by omega] at hz
  obtain ⟨m, rfl | rfl⟩ := Int.eq_nat_or_neg d
  · simp only [Int.natAbs_natCast]; omega
  · simp only [Int.natAbs_neg, Int.natAbs_natCast]
    rw [Int.mul_neg] at hz
    omega

/-- the hypotheses on the run: those of the integer run (which hold with a wide margin) and the
    three values that are printed are chars of the domain -/
structure CharRunHyp (a d : Int) (n : Nat) : Prop where
  run : RunHyp a d n
  c0 : CharOK a
  c1 : CharOK (a + d)
  cz : CharOK (a + ((n - 1 : Nat) : Int) * d)

theorem charRunHyp_mk (a d : Int) (n : Nat) (hn : 5 ≤ n) (hd : d ≠ 0)
    (hchars : ∀ k : Nat, k < n → CharOK (a + (k : Int) * d)) : CharRunHyp a d n := by
  have hw := charRun_width a d n hn hchars
  have h0 := hchars 0 (by omega)
  have h1 := hchars 1 (by omega)
  simp only [Int.natCast_zero, Int.zero_mul, Int.add_zero, Int.natCast_one, Int.one_mul] at h0 h1
  have b0 := charOK_bounds _ h0
  have b1 := charOK_bounds _ h1
  have habs : (1 : Int) ≤ (d.natAbs : Int) := by omega
  have hnw := Int.mul_le_mul_of_nonneg_left habs (show (0 : Int) ≤ (n : Int) - 1 by omega)
  refine ⟨⟨hn, hd, ?_, by omega, by omega⟩, h0, h1, hchars (n - 1) (by omega)⟩
  intro k hk
  by_cases hkn : k = n
  · subst hkn
    have hm := mul_bound_c k d hw (k - 1) (by omega)
    have hs : (k : Int) * d = ((k - 1 : Nat) : Int) * d + d := by
      rw [show k = (k - 1) + 1 from by omega]; simpa using succ_mul' (k - 1) d
    omega
  · have hm := mul_bound_c n d hw k (by omega)
    omega

/-! ### the run -/

theorem charRun_length (a d : Int) (n : Nat) : (charRun a d n).length = n := by
  simp [charRun]

theorem charRun_drop (a d : Int) (n k : Nat) (hk : k < n) :
    (charRun a d n).drop k = Cell.int .c (a + (k : Int) * d) :: (charRun a d n).drop (k + 1) := by
  rw [List.drop_eq_getElem_cons (by rw [charRun_length]; exact hk)]
  simp [charRun]

theorem charRun_cons (a d : Int) (n : Nat) (hn : 0 < n) :
    charRun a d n = Cell.int .c a :: (charRun a d n).drop 1 := by
  have := charRun_drop a d n 0 hn
  simpa using this

theorem eqSingle_char (x y : Int) (l r : List Cell) :
    eqSingle (Cell.int .c x :: l) (Cell.int .c y :: r) = .ok (decide (x = y)) := by
  simp [eqSingle, ArgVal.eqSingle, ArgVal.deref, ArgVal.Cell.asArr, ArgVal.eqScalar, ArgVal.Cell.type, liftAV, bind, Except.bind,
    pure, Except.pure]

theorem addAV_char (x y : Int) : addAV (Cell.int .c x) (Cell.int .c y) = .ok (some (Cell.int .c (toI32 (x + y)))) := by
  simp [addAV, ArgVal.Cell.type]

theorem subAV_char (x y : Int) : subAV (Cell.int .c x) (Cell.int .c y) = .ok (some (Cell.int .c (toI32 (x - y)))) := by
  simp [subAV, ArgVal.Cell.type]

theorem multAV_char (x y : Int) : multAV (Cell.int .c x) (Cell.int .c y) = .ok (some (Cell.int .c (toI32 (x * y)))) := by
  simp [multAV, ArgVal.Cell.type]

/-! ### stage 1: `rtosc_convert_to_range` -/

theorem countCommon_run_c (a d : Int) (n : Nat) :
    ∀ (fuel i m : Nat), i ≤ n → n - i < fuel →
      countCommon fuel 99 (charRun a d n) n i m = .ok (m + (n - i)) := by
  intro fuel
  induction fuel with
  | zero => intro i m _ h; omega
  | succ f ih =>
    intro i m hi hf
    unfold countCommon
    by_cases hlt : i < n
    · simp only [hlt, ↓reduceIte, charRun_drop a d n i hlt, deref, bind, Except.bind,
        incsize_scalar _ _ (show (Cell.int .c (a + (i : Int) * d)).isScalar = true from rfl)]
      simp only [ArgVal.Cell.type, ArgVal.IntTy.char, ne_eq, not_true_eq_false, ↓reduceIte]
      rw [ih (i + 1) (m + 1) (by omega) (by omega)]
      congr 1; omega
    · simp only [hlt, ↓reduceIte, pure, Except.pure]
      congr 1; omega

theorem extendRun_run_c {a d : Int} {n : Nat} (h : RunHyp a d n) :
    ∀ (fuel s c : Nat), 1 ≤ s → s < n → n - s < fuel →
      extendRun fuel (charRun a d n) n (some (Cell.int .c d)) s c = .ok (n, c + (n - s)) := by
  intro fuel
  induction fuel with
  | zero => intro s c _ _ hf; omega
  | succ f ih =>
    intro s c hs1 hsn hf
    unfold extendRun
    have hr := h.hrange (s + 1) (by omega)
    have hr0 := h.hrange s (by omega)
    rw [succ_mul'] at hr
    have hso : rangeStepOverflows (Cell.int .c (a + (s : Int) * d)) (Cell.int .c d) = false := by
      simp only [rangeStepOverflows, Bool.or_eq_false_iff, decide_eq_false_iff_not]
      omega
    have hadd : addAV (Cell.int .c (a + (s : Int) * d)) (Cell.int .c d) =
        .ok (some (Cell.int .c (a + ((s + 1 : Nat) : Int) * d))) := by
      rw [addAV_char, succ_mul', toI32_id _ (by omega) (by omega), Int.add_assoc]
    simp only [charRun_drop a d n s hsn, deref, bind, Except.bind,
      incsize_scalar _ _ (show (Cell.int .c (a + (s : Int) * d)).isScalar = true from rfl), hso, hadd, must,
      pure, Except.pure, Bool.false_eq_true, ↓reduceIte]
    by_cases hge : s + 1 ≥ n
    · simp only [hge, ↓reduceIte]
      congr 2 <;> omega
    · have hlt : s + 1 < n := by omega
      have hw := h.mul (s + 1) (by omega)
      have hwo : rangeWidthOverflows (Cell.int .c a) (Cell.int .c (a + ((s + 1 : Nat) : Int) * d)) = false := by
        simp only [rangeWidthOverflows, Bool.or_eq_false_iff, decide_eq_false_iff_not]
        omega
      simp only [hge, ↓reduceIte, charRun_drop a d n (s + 1) hlt, eqSingle_char, decide_true, Bool.not_true,
        Bool.false_eq_true]
      rw [charRun_cons a d n (by omega)]
      simp only [hwo, Bool.false_eq_true, ↓reduceIte]
      rw [← charRun_cons a d n (by omega), ih (s + 1) (c + 1) (by omega) hlt (by omega)]
      congr 2; omega

theorem convertToRange_run_c (opt : POpt) (hc : opt.compress = true) {a d : Int} {n : Nat} (h : RunHyp a d n) :
    convertToRange opt (charRun a d n) n =
      .ok (some (n, [Cell.rep n 1, Cell.int .c d, Cell.int .c a])) := by
  have hn := h.hn
  have hdb := h.dbound
  have hr0 := h.hrange 0 (by omega)
  have hr1 := h.hrange 1 (by omega)
  simp only [Int.natCast_zero, Int.zero_mul, Int.add_zero, Int.natCast_one, Int.one_mul] at hr0 hr1
  have hnot : ¬ (n < rangeMin) := by unfold rangeMin; omega
  have hnot' : ¬ (n < 5) := by omega
  have hd1 : (charRun a d n).drop 1 = Cell.int .c (a + d) :: (charRun a d n).drop 2 := by
    have := charRun_drop a d n 1 (by omega)
    simpa using this
  unfold convertToRange
  rw [charRun_cons a d n (by omega)]
  simp only [hnot, ↓reduceIte, deref, bind, Except.bind, hc, Bool.not_true, Bool.false_eq_true, or_false,
    ArgVal.Cell.type, ArgVal.IntTy.char, ArgVal.tyRange, show ((99 : UInt8) = 45) = False from by decide]
  rw [← charRun_cons a d n (by omega), countCommon_run_c a d n (n + 1) 0 0 (by omega) (by omega)]
  simp only [Nat.zero_add, Nat.sub_zero, hnot, ↓reduceIte]
  rw [charRun_cons a d n (by omega)]
  simp only [incsize_scalar _ _ (show (Cell.int .c a).isScalar = true from rfl), List.drop_succ_cons, List.drop_zero]
  rw [← charRun_cons a d n (by omega), hd1]
  have hne : ¬ (a = a + d) := by have := h.hd; omega
  have hident : rangeArgsIdentical (charRun a d n) (Cell.int .c (a + d) :: (charRun a d n).drop 2) = .ok false := by
    unfold rangeArgsIdentical
    rw [charRun_cons a d n (by omega)]
    simp [eqSingle_char, hne, bind, Except.bind, pure, Except.pure]
  have hsub : subAV (Cell.int .c (a + d)) (Cell.int .c a) = .ok (some (Cell.int .c d)) := by
    rw [subAV_char, toI32_id _ (by omega) (by omega)]
    congr 3; omega
  have hso : rangeStepOverflows (Cell.int .c a) (Cell.int .c d) = false := by
    simp only [rangeStepOverflows, Bool.or_eq_false_iff, decide_eq_false_iff_not]
    omega
  simp only [hident, Bool.false_eq_true, ↓reduceIte, show (lit "cihTF").contains (99 : UInt8) = true from by decide,
    hsub, must, bind, Except.bind, pure, Except.pure, hso]
  rw [extendRun_run_c h (n + 1) 1 1 (by omega) (by omega) (by omega)]
  have : 1 + (n - 1) = n := by omega
  simp only [this, rangeMin, ge_iff_le, hn, ↓reduceIte, Option.isSome_some, List.cons_append, List.nil_append]
  rw [charRun_cons a d n (by omega)]
  simp

/-! ### stage 2: the printer -/

theorem rangeArg_char (hdr : Cell) (d a k : Int) (more : List Cell) :
    rangeArg (hdr :: Cell.int .c d :: Cell.int .c a :: more) k =
      .ok (some (Cell.int .c (toI32 (a + toI32 (k * d))))) := by
  simp [rangeArg, fromInt, multAV_char, addAV_char, bind, Except.bind]

/-- the text in front of the ellipsis -/
def charRunHead (a d : Int) : Bytes := if d = 1 ∨ d = -1 then charText a else charText a ++ 32 :: charText (a + d)

/-- the text of the whole range; `sep` is a blank or a line break -/
def charRunText (a d : Int) (n : Nat) (sep : Bytes) : Bytes :=
  charRunHead a d ++ ([32, 46, 46, 46] ++ (sep ++ charText (a + ((n - 1 : Nat) : Int) * d)))

theorem printRangeElems_last_c (opt : POpt) {a d : Int} {n : Nat} (h : RunHyp a d n) (f : Nat) (pre : Bytes)
    (cols : Int) (wrt : Nat) :
    ∃ (sep : Bytes) (cols' : Int), IsSepTxt sep ∧
      printRangeElems (printArgVal (f + 1) opt) opt [Cell.rep n 1, Cell.int .c d, Cell.int .c a] 1
        ((n - 1 : Nat) : Int) ⟨pre ++ lit " ... ", cols⟩ wrt (((pre ++ lit " ... ").length : Int) - 1) 1 1 =
      .ok (⟨pre ++ [32, 46, 46, 46] ++ sep ++ charText (a + ((n - 1 : Nat) : Int) * d) ++ [32], cols'⟩,
           wrt + (charText (a + ((n - 1 : Nat) : Int) * d)).length + (sep.length - 1) + 1) := by
  have hn := h.hn
  have hrz := h.hrange (n - 1) (by omega)
  have hmz := h.mul (n - 1) (by omega)
  have hz : rangeArg [Cell.rep n 1, Cell.int .c d, Cell.int .c a] ((n - 1 : Nat) : Int) =
      .ok (some (Cell.int .c (a + ((n - 1 : Nat) : Int) * d))) := by
    rw [rangeArg_char, toI32_id (((n - 1 : Nat) : Int) * d) (by omega) (by omega), toI32_id _ hrz.1 hrz.2]
  generalize hZ : charText (a + ((n - 1 : Nat) : Int) * d) = Z at *
  have hout : pre ++ lit " ... " = (pre ++ [32, 46, 46, 46]) ++ [32] := by simp [lit_ell]
  obtain ⟨pre1, cols1, awl1, hlb, _, hpre1⟩ := linebreakCheck_tok (pre ++ lit " ... ") Z
    (cols + (Z.length : Nat)) (wrt + Z.length) (((pre ++ lit " ... ").length : Int) - 1) 1 opt.linelength
    (Or.inr ⟨pre ++ [32, 46, 46, 46], hout, by rw [hout]; simp; omega⟩)
  unfold printRangeElems
  simp only [show ((1 : Int) ≠ 0) from by decide, ne_eq, not_false_eq_true, ↓reduceIte, hz, must, bind, Except.bind, pure, Except.pure,
    printArgVal_char, hZ, hlb]
  unfold printRangeElems
  rcases hpre1 with hp | ⟨base, hb1, hb2⟩
  · refine ⟨[32], cols1 + 1, Or.inl rfl, ?_⟩
    subst hp
    simp [lit_ell]
  · have hbase : base = pre ++ [32, 46, 46, 46] := by
      rw [hout] at hb1
      exact (List.append_inj_left' hb1 rfl).symm
    refine ⟨nl4, cols1 + 1, Or.inr rfl, ?_⟩
    subst hb2; subst hbase
    simp [lit_ell, nl4]

theorem printRange_run_c (opt : POpt) (hc : opt.compress = true) {a d : Int} {n : Nat} (h : RunHyp a d n)
    (f : Nat) (st : PSt) (hcols : 0 ≤ st.cols) :
    ∃ (sep : Bytes) (cols' : Int), IsSepTxt sep ∧
      printRange (printArgVal (f + 1) opt) opt [Cell.rep n 1, Cell.int .c d, Cell.int .c a] none st =
        .ok (⟨st.out ++ charRunText a d n sep, cols'⟩, (charRunText a d n sep).length) := by
  have hn := h.hn
  have hdb := h.dbound
  have hr0 := h.hrange 0 (by omega)
  have hr1 := h.hrange 1 (by omega)
  have hrz := h.hrange (n - 1) (by omega)
  have hmz := h.mul (n - 1) (by omega)
  simp only [Int.natCast_zero, Int.zero_mul, Int.add_zero, Int.natCast_one, Int.one_mul] at hr0 hr1
  have hn0 : ¬ ((n : Int) = 0) := by omega
  have hstart : (n : Int) - 1 = ((n - 1 : Nat) : Int) := by omega
  have hb : rangeArg [Cell.rep n 1, Cell.int .c d, Cell.int .c a] 1 = .ok (some (Cell.int .c (a + d))) := by
    rw [rangeArg_char, Int.one_mul, toI32_id d (by omega) (by omega), toI32_id _ hr1.1 hr1.2]
  unfold printRange
  simp only [deref, bind, Except.bind, hc, ↓reduceIte, show ((1 : Int) ≠ 0) from by decide, ne_eq,
    List.drop_succ_cons, List.drop_zero, printArgVal_char, fromInt, must, pure, Except.pure, eqSingle_char,
    hn0, not_false_eq_true, or_false, hstart]
  have hone : ((n : Int) - ((n - 1 : Nat) : Int)).toNat = 1 := by omega
  have hlt : ((n - 1 : Nat) : Int) < (n : Int) := by omega
  simp only [hone, hlt, ↓reduceIte, hb, printArgVal_char]
  by_cases hu : d = 1 ∨ d = -1
  · have hun : (if decide (d = 1) = true then Except.ok true else Except.ok (decide (d = -1)) : Res Bool) = .ok true := by
      rcases hu with rfl | rfl <;> simp
    simp only [hun, Bool.not_false, Bool.and_self, decide_false, Bool.or_false, ↓reduceIte]
    rw [initArgsWritten_ell _ _ (by omega)]
    obtain ⟨sep, cols', hsep, hpe⟩ := printRangeElems_last_c opt h f (st.out ++ charText a)
      (st.cols + ((charText a).length : Nat) + 5) ((charText a).length + 5)
    simp only [hpe]
    refine ⟨sep, cols', hsep, ?_⟩
    have hsl : 1 ≤ sep.length := by rcases hsep with rfl | rfl <;> simp
    rw [List.dropLast_concat]
    simp only [charRunText, charRunHead, hu, ↓reduceIte, List.append_assoc, List.length_append, List.length_cons,
      List.length_nil]
    congr 2
    omega
  · have hun : (if decide (d = 1) = true then Except.ok true else Except.ok (decide (d = -1)) : Res Bool) = .ok false := by
      have h1 : ¬ d = 1 := fun e => hu (Or.inl e)
      have h2 : ¬ d = -1 := fun e => hu (Or.inr e)
      simp [h1, h2]
    simp only [hun, Bool.not_false, decide_false, Bool.or_false, ↓reduceIte, Bool.false_eq_true, Bool.and_true]
    rw [initArgsWritten_ell _ _ (by omega)]
    obtain ⟨sep, cols', hsep, hpe⟩ := printRangeElems_last_c opt h f (st.out ++ charText a ++ [32] ++ charText (a + d))
      (st.cols + ((charText a).length : Nat) + 1 + ((charText (a + d)).length : Nat) + 5)
      ((charText a).length + 1 + (charText (a + d)).length + 5)
    simp only [hpe]
    refine ⟨sep, cols', hsep, ?_⟩
    have hsl : 1 ≤ sep.length := by rcases hsep with rfl | rfl <;> simp
    rw [List.dropLast_concat]
    simp only [charRunText, charRunHead, hu, ↓reduceIte, List.append_assoc, List.length_append, List.length_cons,
      List.cons_append, List.nil_append]
    congr 2
    omega

theorem printArgVals_run_c (opt : POpt) (hc : opt.compress = true) {a d : Int} {n : Nat} (h : RunHyp a d n) :
    ∃ (sep : Bytes) (cols' : Int), IsSepTxt sep ∧
      printArgVals opt (charRun a d n) ⟨[], 0⟩ = .ok (⟨charRunText a d n sep, cols'⟩, (charRunText a d n sep).length) := by
  have hn := h.hn
  obtain ⟨sep, cols', hsep, hpr⟩ := printRange_run_c opt hc h (n + 1) ⟨[], 0⟩ (Int.le_refl _)
  refine ⟨sep, cols', hsep, ?_⟩
  have hderef : deref (charRun a d n) = .ok (Cell.int .c a) := by
    rw [charRun_cons a d n (by omega)]; rfl
  have hlt : 0 < n := by omega
  unfold printArgVals
  simp only [charRun_length]
  rw [printArgValsLoop]
  simp only [hlt, ↓reduceIte, List.drop_zero, Nat.sub_zero, convertToRange_run_c opt hc h, hderef, bind, Except.bind,
    charRun_length, printArgVal_rep, hpr, List.nil_append]
  have hbi : breaksItself (Cell.int .c a) = false := by
    simp only [breaksItself, ArgVal.Cell.type, ArgVal.IntTy.char]; decide
  have hlb : ∀ (st : PSt) (w : Nat) (ls : Int) (inc : Nat), linebreakCheck st w ls inc 0 opt.linelength = .ok (st, w, 1) := by
    intro st w ls inc
    simp [linebreakCheck]
  simp only [hbi, Bool.not_false, ↓reduceIte, ne_eq, not_true_eq_false, hlb, pure, Except.pure, Nat.zero_add,
    Nat.lt_irrefl]
  exact printArgValsLoop_done_ri n hlt opt _ n n (Nat.lt_irrefl _) _ _ _ _

/-! ### char tokens in front of an ellipsis

`tokOK_char` is stated for `Sep rest`, which forbids "..." behind the token; what the two
`switch`es deliver for a char token does not depend on what follows at all. -/

theorem charText_cases (v : Int) (h : CharOK v) :
    (∃ x, charText v = [39, x, 39] ∧ x ≠ 92 ∧ scharVal x = v) ∨
    (∃ e, charText v = [39, 92, e, 39] ∧ scharVal (getEscapedChar e true) = v ∧ (getEscapedChar e true ≠ 0 ∨ e = 48)) :=
  charShape_inv _ _ (charShape_ok v h)

theorem tokStart_charText (v : Int) (h : CharOK v) : TokStart (charText v) := (tokOK_char v h).start

/-- the scanner's `switch` on a char token, whatever follows -/
theorem scanValue_charW (se : ElemScanner) (v : Int) (h : CharOK v) (rest : Bytes) (prev : List Cell) :
    scanValue se (charText v ++ rest) prev = .ok ⟨rest, [Cell.int .c v], true⟩ := by
  rcases charText_cases v h with ⟨x, ht, hx, hv⟩ | ⟨e, ht, hv, he⟩
  · rw [ht, ← hv, scanValue_char _ _ _ rfl]
    simp [scanChar, advance, hx, bind, Except.bind, pure, Except.pure]
  · rw [ht, ← hv, scanValue_char _ _ _ rfl]
    simp [scanChar, advance, at?, isspace, bind, Except.bind, pure, Except.pure]

/-- the checker's `switch` on a char token, whatever follows -/
theorem skipValue_charW (sk : ArgSkipper) (v : Int) (h : CharOK v) (rest : Bytes) (ty : UInt8) (ib : Bool) :
    skipValue sk (charText v ++ rest) ty ib = .ok (some ⟨some rest, 1, 99, 0⟩) := by
  rcases charText_cases v h with ⟨x, ht, hx, hv⟩ | ⟨e, ht, hv, he⟩
  · rw [ht, skipValue_char _ _ _ _ rfl]
    simp [skipChar, hx]
  · rw [ht, skipValue_char _ _ _ _ rfl]
    simp [skipChar, isspace]
    intro h0; rcases he with he | he
    · exact absurd h0 he
    · exact he

/-- without `follow_ellipsis` the scanner reads just the token -/
theorem scanArgVal_char_noell (f : Nat) (v : Int) (h : CharOK v) (rest : Bytes) (prev : List Cell) (ab : Nat) :
    scanArgVal (f + 1) (charText v ++ rest) prev ab false = .ok ((charText v).length, [Cell.int .c v]) := by
  unfold scanArgVal
  simp only [scanValue_charW _ v h rest, bind, Except.bind]
  unfold finishArg
  simp [pure, Except.pure]

/-- without `follow_ellipsis` the checker skips just the token -/
theorem skipNext_char_noell (f : Nat) (v : Int) (h : CharOK v) (rest : Bytes) (ty : UInt8) (llhs : Option Bytes)
    (ib : Bool) :
    skipNextPrintedArg (f + 1) (charText v ++ rest) ty llhs false ib = .ok ⟨some rest, 1, 99⟩ := by
  unfold skipNextPrintedArg
  simp [skipValue_charW _ v h rest ty ib, bind, Except.bind, pure, Except.pure]

theorem scanOne_char (v : Int) (h : CharOK v) (rest : Bytes) : scanOne (charText v ++ rest) = .ok (Cell.int .c v) := by
  unfold scanOne
  simp [scanArgVal_char_noell _ v h rest, bind, Except.bind]

theorem nomult_char (v : Int) (h : CharOK v) (rest : Bytes) : isRangeMultiplier (charText v ++ rest) = false := by
  rcases charText_cases v h with ⟨x, ht, _, _⟩ | ⟨e, ht, _, _⟩ <;>
    simp [ht, isRangeMultiplier, isdigit]

/-! ### `delta_from_arg_vals` on the run -/

theorem cmpCell_char (x y : Int) : cmpCell (Cell.int .c x) (Cell.int .c y) = .ok (ArgVal.cmp3 x y) := by
  simp [cmpCell, ArgVal.Cell.isScalar, ArgVal.cmpScalar, ArgVal.Cell.type]

theorem eqCell_char (x y : Int) : eqCell (Cell.int .c x) (Cell.int .c y) = .ok (decide (x = y)) := by
  simp [eqCell, ArgVal.eqScalar, ArgVal.Cell.type, liftAV, pure, Except.pure]

theorem divAV_char (x y : Int) (hy : y ≠ 0) (hx : x ≠ -2147483648) :
    divAV (Cell.int .c x) (Cell.int .c y) = .ok (some (Cell.int .c (Int.tdiv x y))) := by
  simp [divAV, ArgVal.Cell.type, cdiv, hy, hx, bind, Except.bind, pure, Except.pure]

/-! the arithmetic of `delta_from_arg_vals` (`Pretty/C11Float.lean`) on char cells is the integer one -/
theorem fromIntF_char (x k : Int) : C11.fromIntF (Cell.int .c x) k = fromInt (Cell.int .c x) k := rfl
theorem negateF_char (x : Int) : C11.negateF (Cell.int .c x) = negate (Cell.int .c x) := rfl
theorem roundF_char (x : Int) : C11.roundF (Cell.int .c x) = roundAV (Cell.int .c x) := rfl
theorem subF_char (x y : Int) : C11.subF (Cell.int .c x) (Cell.int .c y) = subAV (Cell.int .c x) (Cell.int .c y) := rfl
theorem multF_char (x y : Int) : C11.multF (Cell.int .c x) (Cell.int .c y) = multAV (Cell.int .c x) (Cell.int .c y) := rfl
theorem divF_char (x y : Int) : C11.divF (Cell.int .c x) (Cell.int .c y) = divAV (Cell.int .c x) (Cell.int .c y) := rfl
theorem toIntF_char (x : Int) : C11.toIntF (Cell.int .c x) = toIntAV (Cell.int .c x) := rfl
theorem eqTolCell_char (x y : Int) : C11.eqTolCell (Cell.int .c x) (Cell.int .c y) = eqCell (Cell.int .c x) (Cell.int .c y) := rfl

/-- `delta_from_arg_vals` with `must_be_unity`: the delta is ±1 -/
theorem delta_unity_c (x z q dl : Int) (hdl : (dl = 1 ∧ x < z) ∨ (dl = -1 ∧ z < x)) (hq : z - x = q * dl)
    (hw1 : -2147483647 ≤ z - x) (hw2 : z - x ≤ 2147483647) (hq1 : -2147483648 ≤ q + 1) (hq2 : q + 1 ≤ 2147483647) :
    deltaFromArgVals none (Cell.int .c x) (some (Cell.int .c z)) true = .ok (q + 1, Cell.int .c dl) := by
  have hdl0 : dl ≠ 0 := by omega
  have htd : Int.tdiv (z - x) dl = q := by rw [hq]; exact Int.mul_tdiv_cancel _ hdl0
  have hsub : subAV (Cell.int .c z) (Cell.int .c x) = .ok (some (Cell.int .c (z - x))) := by
    rw [subAV_char, toI32_id _ (by omega) (by omega)]
  have hmul : multAV (Cell.int .c q) (Cell.int .c dl) = .ok (some (Cell.int .c (z - x))) := by
    rw [multAV_char, ← hq, toI32_id _ (by omega) (by omega)]
  have hcmp0 : ¬ (ArgVal.cmp3 x z = 0) := cmp3_ne x z (by omega)
  unfold deltaFromArgVals
  simp only [↓reduceIte, cmpCell_char, fromIntF_char, fromInt, must, bind, Except.bind, pure, Except.pure]
  rcases hdl with ⟨rfl, hlt⟩ | ⟨rfl, hlt⟩
  · simp only [cmp3_lt x z hlt, show ¬ ((-1 : Int) > 0) from by decide, show ¬ ((-1 : Int) = 0) from by decide,
      ↓reduceIte, subF_char, hsub, divF_char, divAV_char (z - x) 1 hdl0 (by omega), htd, roundF_char, roundAV,
      multF_char, hmul, toIntF_char, toIntAV,
      eqTolCell_char, eqCell_char, decide_true, Bool.not_true, Bool.false_eq_true, toI32_id _ hq1 hq2]
  · simp only [cmp3_gt x z hlt, show ((1 : Int) > 0) from by decide, show ¬ ((1 : Int) = 0) from by decide,
      negateF_char, negate,
      show ¬ ((1 : Int) = -2147483648) from by decide,
      ↓reduceIte, subF_char, hsub, divF_char, divAV_char (z - x) (-1) hdl0 (by omega), htd, roundF_char, roundAV,
      multF_char, hmul, toIntF_char, toIntAV,
      eqTolCell_char, eqCell_char, decide_true, Bool.not_true, Bool.false_eq_true, toI32_id _ hq1 hq2]

/-- `delta_from_arg_vals` with a usable left-hand neighbour: the delta is `lhs - llhs` -/
theorem delta_step_c (p x z q dl : Int) (hdl0 : dl ≠ 0) (hp : x - p = dl) (hd1 : -2147483648 ≤ dl) (hd2 : dl ≤ 2147483647)
    (hq : z - x = q * dl)
    (hw1 : -2147483647 ≤ z - x) (hw2 : z - x ≤ 2147483647) (hq1 : -2147483648 ≤ q + 1) (hq2 : q + 1 ≤ 2147483647) :
    deltaFromArgVals (some (Cell.int .c p)) (Cell.int .c x) (some (Cell.int .c z)) false = .ok (q + 1, Cell.int .c dl) := by
  have htd : Int.tdiv (z - x) dl = q := by rw [hq]; exact Int.mul_tdiv_cancel _ hdl0
  have hsub : subAV (Cell.int .c z) (Cell.int .c x) = .ok (some (Cell.int .c (z - x))) := by
    rw [subAV_char, toI32_id _ (by omega) (by omega)]
  have hsub0 : subAV (Cell.int .c x) (Cell.int .c p) = .ok (some (Cell.int .c dl)) := by
    rw [subAV_char, hp, toI32_id _ hd1 hd2]
  have hmul : multAV (Cell.int .c q) (Cell.int .c dl) = .ok (some (Cell.int .c (z - x))) := by
    rw [multAV_char, ← hq, toI32_id _ (by omega) (by omega)]
  have hcmp0 : ¬ (ArgVal.cmp3 dl 0 = 0) := cmp3_ne dl 0 hdl0
  unfold deltaFromArgVals
  simp only [Bool.false_eq_true, ↓reduceIte, subF_char, hsub0, nullVal, cmpCell_char, must, bind, Except.bind, pure, Except.pure]
  simp only [hcmp0, ↓reduceIte, hsub, divF_char, divAV_char (z - x) dl hdl0 (by omega), htd, roundF_char, roundAV,
    multF_char, hmul, toIntF_char, toIntAV,
    eqTolCell_char, eqCell_char, decide_true, Bool.not_true, Bool.false_eq_true, toI32_id _ hq1 hq2]

theorem delta_run_unit_c {a d : Int} {n : Nat} (h : RunHyp a d n) (hu : d = 1 ∨ d = -1) :
    deltaFromArgVals none (Cell.int .c a) (some (Cell.int .c (a + ((n - 1 : Nat) : Int) * d))) true =
      .ok ((n : Int), Cell.int .c d) := by
  have hn := h.hn
  have hn32 := h.hn32
  have hq : (((n - 1 : Nat) : Int)) + 1 = (n : Int) := by omega
  rw [← hq]
  apply delta_unity_c a _ ((n - 1 : Nat) : Int) d
  · rcases hu with rfl | rfl
    · left; exact ⟨rfl, by omega⟩
    · right; exact ⟨rfl, by omega⟩
  · omega
  · rcases hu with rfl | rfl <;> omega
  · rcases hu with rfl | rfl <;> omega
  · omega
  · omega

theorem delta_run_step_c {a d : Int} {n : Nat} (h : RunHyp a d n) :
    deltaFromArgVals (some (Cell.int .c a)) (Cell.int .c (a + d)) (some (Cell.int .c (a + ((n - 1 : Nat) : Int) * d)))
      false = .ok ((n : Int) - 1, Cell.int .c d) := by
  have hn := h.hn
  have hn32 := h.hn32
  have hdb := h.dbound
  have hm := h.mul (n - 2) (by omega)
  have hs : ((n - 1 : Nat) : Int) * d = ((n - 2 : Nat) : Int) * d + d := by
    rw [show n - 1 = (n - 2) + 1 from by omega]; exact succ_mul' _ _
  have hq : (((n - 2 : Nat) : Int)) + 1 = (n : Int) - 1 := by omega
  rw [← hq]
  apply delta_step_c a (a + d) _ ((n - 2 : Nat) : Int) d h.hd <;> omega

/-! ### stage 3: the scanner -/

theorem scanArgVal_ell_c (f : Nat) (x z : Int) (hx : CharOK x) (hz : CharOK z) (sep : Bytes) (hsep : IsSepTxt sep)
    (prev : List Cell) (ab : Nat)
    (hp : (ab = 0 ∧ prev = []) ∨ (ab = 1 ∧ ∃ p, prev = [Cell.int .c p] ∧ p ≠ x)) (num : Int) (dl : Cell)
    (hdelta : deltaFromArgVals prev.head? (Cell.int .c x) (some (Cell.int .c z)) (decide (ab = 0)) = .ok (num, dl)) :
    scanArgVal (f + 2) (charText x ++ ellRest sep (charText z)) prev ab true =
      .ok ((charText x ++ ellRest sep (charText z)).length, [Cell.rep num 1, dl, Cell.int .c x]) := by
  obtain ⟨hW, hsk1, hsk2⟩ := ellRest_facts sep (charText z) hsep (tokStart_charText z hz)
  have hrhs := scanArgVal_char_noell f z hz [] [] 0
  simp only [List.append_nil] at hrhs
  have h93 : hd (charText z) ≠ 93 := (tokStart_charText z hz).2.2.2.2.2.2.2
  unfold scanArgVal
  simp only [scanValue_charW _ x hx, bind, Except.bind]
  unfold finishArg
  rcases hp with ⟨rfl, rfl⟩ | ⟨rfl, p, rfl, hpx⟩
  · simp only [List.head?_nil, decide_true] at hdelta
    simp only [hsk1, startsWith, List.cons_append, List.nil_append, List.isPrefixOf, BEq.rfl, Bool.and_self, and_self,
      ↓reduceIte, Bool.not_true, Bool.false_eq_true, deref, bind, Except.bind, List.drop_succ_cons, List.drop_zero,
      hsk2, h93, decide_false, pure, Except.pure, hrhs, advance, Nat.le_refl, List.drop_length, List.drop_nil,
      List.head?_nil, Nat.zero_lt_one, gt_iff_lt, Nat.not_lt_zero, false_and, hdelta,
      ArgVal.Cell.type, ArgVal.IntTy.char, show numericRangeTypes.contains (99 : UInt8) = true from by decide]
    simp
  · simp only [List.head?_cons, show decide ((1 : Nat) = 0) = false from by decide] at hdelta
    have hcmp : cmpCell (Cell.int .c p) (Cell.int .c x) = .ok (ArgVal.cmp3 p x) := cmpCell_char p x
    have hc0 := cmp3_ne p x hpx
    simp only [hsk1, startsWith, List.cons_append, List.nil_append, List.isPrefixOf, BEq.rfl, Bool.and_self, and_self,
      ↓reduceIte, Bool.not_true, Bool.false_eq_true, deref, bind, Except.bind, List.drop_succ_cons, List.drop_zero,
      hsk2, h93, decide_false, pure, Except.pure, hrhs, advance, Nat.le_refl, List.drop_length, List.drop_nil,
      List.head?_nil, List.head?_cons, Nat.lt_irrefl, gt_iff_lt, false_and, Bool.and_false,
      ArgVal.Cell.type, ArgVal.IntTy.char, ArgVal.tyRange, show ((99 : UInt8) = 45) = False from by decide,
      show typesMatch 99 99 = true from by decide, hcmp, hc0, hdelta,
      show numericRangeTypes.contains (99 : UInt8) = true from by decide]
    simp

theorem charRunText_unit (a d : Int) (n : Nat) (sep : Bytes) (hu : d = 1 ∨ d = -1) :
    charRunText a d n sep = charText a ++ ellRest sep (charText (a + ((n - 1 : Nat) : Int) * d)) := by
  simp [charRunText, charRunHead, hu, ellRest]

theorem charRunText_step (a d : Int) (n : Nat) (sep : Bytes) (hu : ¬ (d = 1 ∨ d = -1)) :
    charRunText a d n sep =
      charText a ++ ([32] ++ (charText (a + d) ++ ellRest sep (charText (a + ((n - 1 : Nat) : Int) * d)))) := by
  simp [charRunText, charRunHead, hu, ellRest]

theorem scan_run_unit_c {a d : Int} {n : Nat} (h : CharRunHyp a d n) (hu : d = 1 ∨ d = -1) (sep : Bytes)
    (hsep : IsSepTxt sep) :
    scanArgVals (charRunText a d n sep) 3 =
      .ok ((charRunText a d n sep).length, [Cell.rep n 1, Cell.int .c d, Cell.int .c a]) := by
  have hn := h.run.hn
  rw [charRunText_unit a d n sep hu]
  generalize hT : charText a ++ ellRest sep (charText (a + ((n - 1 : Nat) : Int) * d)) = T
  have hscan := scanArgVal_ell_c T.length a _ h.c0 h.cz sep hsep [] 0 (Or.inl ⟨rfl, rfl⟩) n (Cell.int .c d)
    (by simpa using delta_run_unit_c h.run hu)
  rw [hT] at hscan
  have hstartT : TokStart T := by rw [← hT]; exact tokStart_append_ri _ _ (tokStart_charText _ h.c0)
  unfold scanArgVals
  simp only [skipSpaceComments_tokStart _ _ hstartT, bind, Except.bind, List.drop_zero]
  rw [scanArgValsLoop]
  simp only [show (0 : Nat) < 3 from by decide, ↓reduceIte, List.reverse_nil, hscan, bind, Except.bind, advance,
    Nat.le_refl, List.drop_length, List.length_cons, List.length_nil, Nat.zero_add, Nat.reduceAdd,
    nextArgOffset_range _ _ _ (show (Cell.int .c d).isScalar = true from rfl), ne_eq, not_true_eq_false,
    skipSpaceComments_nil, List.drop_nil, List.nil_append, canPrecedeRange_delta]
  rw [scanArgValsLoop]
  simp [pure, Except.pure]

theorem scan_run_step_c {a d : Int} {n : Nat} (h : CharRunHyp a d n) (hu : ¬ (d = 1 ∨ d = -1)) (sep : Bytes)
    (hsep : IsSepTxt sep) :
    scanArgVals (charRunText a d n sep) 4 =
      .ok ((charRunText a d n sep).length,
        [Cell.int .c a, Cell.rep ((n : Int) - 1) 1, Cell.int .c d, Cell.int .c (a + d)]) := by
  have hn := h.run.hn
  rw [charRunText_step a d n sep hu]
  generalize hT2 : charText (a + d) ++ ellRest sep (charText (a + ((n - 1 : Nat) : Int) * d)) = T2
  have hstart2 : TokStart T2 := by rw [← hT2]; exact tokStart_append_ri _ _ (tokStart_charText _ h.c1)
  have hS : Sep ([32] ++ T2) := sep_of_next [32] T2 (Or.inl rfl) hstart2
  have hscan1 := (tokOK_char a h.c0).scan ([32] ++ T2) ((charText a ++ ([32] ++ T2)).length + 1) [] 0 hS
  have hne : a ≠ a + d := by have := h.run.hd; omega
  have hscan2 := scanArgVal_ell_c T2.length (a + d) _ h.c1 h.cz sep hsep [Cell.int .c a] 1
    (Or.inr ⟨rfl, a, rfl, hne⟩) ((n : Int) - 1) (Cell.int .c d) (by simpa using delta_run_step_c h.run)
  rw [hT2] at hscan2
  have hadv : advance (charText a ++ ([32] ++ T2)) (charText a).length = .ok ([32] ++ T2) := by simp [advance]
  have hstartT : TokStart (charText a ++ ([32] ++ T2)) := tokStart_append_ri _ _ (tokStart_charText _ h.c0)
  unfold scanArgVals
  simp only [skipSpaceComments_tokStart _ _ hstartT, bind, Except.bind, List.drop_zero]
  rw [scanArgValsLoop]
  simp only [show (0 : Nat) < 4 from by decide, ↓reduceIte, List.reverse_nil, hscan1, bind, Except.bind, hadv,
    nextArgOffset_scalar _ (Cell.int .c a) [] rfl, List.length_singleton, ne_eq, not_true_eq_false,
    skipSpaceComments_sep _ [32] T2 (Or.inl rfl) hstart2, List.nil_append, Nat.zero_add,
    canPrecedeRange_scalar (Cell.int .c a) [] rfl]
  simp only [List.singleton_append, List.drop_succ_cons, List.drop_zero]
  rw [show scanArgValsLoop 4 = scanArgValsLoop (3 + 1) from rfl, scanArgValsLoop]
  simp only [show (1 : Nat) < 4 from by decide, ↓reduceIte, List.reverse_cons, List.reverse_nil, List.nil_append, hscan2,
    bind, Except.bind, advance, Nat.le_refl, List.drop_length, List.length_cons, List.length_nil, Nat.zero_add,
    Nat.reduceAdd, nextArgOffset_range _ _ _ (show (Cell.int .c d).isScalar = true from rfl), ne_eq, not_true_eq_false,
    skipSpaceComments_nil, List.drop_nil, canPrecedeRange_delta]
  rw [scanArgValsLoop]
  simp [pure, Except.pure]
  omega

/-! ### stage 4: the checker -/

theorem skipNext_ell_c (f : Nat) (x z : Int) (hx : CharOK x) (hz : CharOK z) (sep : Bytes) (hsep : IsSepTxt sep)
    (ty : UInt8) (ib : Bool) (llhs : Option Bytes) (useless : Bool) (ll : Option Cell)
    (hll : (llhs = none ∧ useless = true ∧ ll = none) ∨
      (∃ p : Int, CharOK p ∧ p ≠ x ∧
        llhs = some (charText p ++ ([32] ++ (charText x ++ ellRest sep (charText z)))) ∧ useless = false ∧
        ll = some (Cell.int .c p)))
    (num : Int) (dl : Cell)
    (hdelta : deltaFromArgVals ll (Cell.int .c x) (some (Cell.int .c z)) useless = .ok (num, dl)) (hnum : num ≠ -1) :
    skipNextPrintedArg (f + 2) (charText x ++ ellRest sep (charText z)) ty llhs true ib = .ok ⟨some [], 3, 45⟩ := by
  have hZs := tokStart_charText z hz
  obtain ⟨hW, hsk1, hsk2⟩ := ellRest_facts sep (charText z) hsep hZs
  have h93 : hd (charText z) ≠ 93 := hZs.2.2.2.2.2.2.2
  have hrsk := skipNext_char_noell f z hz [] 120 none ib
  have hrsc := scanOne_char z hz []
  simp only [List.append_nil] at hrsk hrsc
  have hlsc := scanOne_char x hx (ellRest sep (charText z))
  have hnm := nomult_char x hx (ellRest sep (charText z))
  unfold skipNextPrintedArg
  simp only [skipValue_charW _ x hx _ ty ib, bind, Except.bind, hsk1, startsWith, List.cons_append,
    List.nil_append, List.isPrefixOf, BEq.rfl, Bool.and_self, and_self, ↓reduceIte]
  unfold ellipsisTail
  rcases hll with ⟨rfl, rfl, rfl⟩ | ⟨p, hp, hpx, rfl, rfl, rfl⟩
  · simp only [List.drop_succ_cons, List.drop_zero, hsk2, hnm, Bool.false_eq_true, ↓reduceIte, ne_eq,
      not_true_eq_false, show numericRangeTypes.contains (99 : UInt8) = true from by decide, or_true, h93,
      Bool.not_true, hrsk, hrsc, hlsc, hdelta, hnum, bind, Except.bind, pure, Except.pure, true_or, and_true,
      decide_true]
    rfl
  · generalize hT2 : charText x ++ ellRest sep (charText z) = T2 at *
    have hstart2 : TokStart T2 := by rw [← hT2]; exact tokStart_append_ri _ _ (tokStart_charText _ hx)
    have hlsk := skipNext_char_noell f p hp ([32] ++ T2) 0 none ib
    have hllsc := scanOne_char p hp ([32] ++ T2)
    have hnm2 := nomult_char p hp ([32] ++ T2)
    have hsk3 : skipSpace ([32] ++ T2) = T2 := skipSpace_sep [32] T2 (Or.inl rfl) hstart2
    have hsw := startsWith_ell_of_tokStart T2 hstart2
    simp only [startsWith] at hsw
    have hcmp : cmpCell (Cell.int .c p) (Cell.int .c x) = .ok (ArgVal.cmp3 p x) := cmpCell_char p x
    have hc0 := cmp3_ne p x hpx
    simp only [List.drop_succ_cons, List.drop_zero, hsk2, hnm, Bool.false_eq_true, ↓reduceIte, ne_eq,
      not_true_eq_false, show numericRangeTypes.contains (99 : UInt8) = true from by decide, or_true, h93,
      Bool.not_true, hrsk, hrsc, hlsc, hdelta, hnum, bind, Except.bind, pure, Except.pure,
      decide_true, hlsk, Option.map_some, hsk3, hsw, and_false, hnm2, hllsc, hcmp, hc0,
      show typesMatch 99 99 = true from by decide, startsWith]
    simp

theorem count_run_unit_c {a d : Int} {n : Nat} (h : CharRunHyp a d n) (hu : d = 1 ∨ d = -1) (sep : Bytes)
    (hsep : IsSepTxt sep) :
    countPrintedArgVals (charRunText a d n sep) = .ok 3 := by
  have hn := h.run.hn
  rw [charRunText_unit a d n sep hu]
  have hskip := fun f => skipNext_ell_c f a _ h.c0 h.cz sep hsep 0 false none true none
    (Or.inl ⟨rfl, rfl, rfl⟩) n (Cell.int .c d) (delta_run_unit_c h.run hu) (by omega)
  generalize hT : charText a ++ ellRest sep (charText (a + ((n - 1 : Nat) : Int) * d)) = T at *
  have hstart : TokStart T := by rw [← hT]; exact tokStart_append_ri _ _ (tokStart_charText _ h.c0)
  obtain ⟨hne, _, h0, _, _, h37, h47, _⟩ := hstart
  have hpos : 0 < T.length := List.length_pos_iff.mpr hne
  unfold countPrintedArgVals
  simp only [skipSpace_tokStart T ⟨hne, ‹_›, h0, ‹_›, ‹_›, h37, h47, ‹_›⟩, skipCommentLines_none _ T h37, bind,
    Except.bind]
  rw [countLoop]
  simp only [h0, h47, ne_eq, not_false_eq_true, and_self, ↓reduceIte, skipNextPrintedArg_checkFuel (hskip T.length), bind, Except.bind, skipSpace,
    hd_nil, not_true_eq_false, pure, Except.pure, List.length_nil, ge_iff_le, Nat.le_zero_eq,
    show ¬ (T.length = 0) from by omega]
  obtain ⟨m, hm⟩ : ∃ m, T.length = m + 1 := ⟨T.length - 1, by omega⟩
  rw [hm, countLoop]
  simp

theorem count_run_step_c {a d : Int} {n : Nat} (h : CharRunHyp a d n) (hu : ¬ (d = 1 ∨ d = -1)) (sep : Bytes)
    (hsep : IsSepTxt sep) :
    countPrintedArgVals (charRunText a d n sep) = .ok 4 := by
  have hn := h.run.hn
  rw [charRunText_step a d n sep hu]
  have hne : a ≠ a + d := by have := h.run.hd; omega
  have hskip2 := fun f => skipNext_ell_c f (a + d) _ h.c1 h.cz sep hsep 0 false
    (some (charText a ++ ([32] ++ (charText (a + d) ++ ellRest sep (charText (a + ((n - 1 : Nat) : Int) * d))))))
    false (some (Cell.int .c a))
    (Or.inr ⟨a, h.c0, hne, rfl, rfl, rfl⟩) ((n : Int) - 1) (Cell.int .c d) (delta_run_step_c h.run) (by omega)
  generalize hT2 : charText (a + d) ++ ellRest sep (charText (a + ((n - 1 : Nat) : Int) * d)) = T2 at *
  have hstart2 : TokStart T2 := by rw [← hT2]; exact tokStart_append_ri _ _ (tokStart_charText _ h.c1)
  have hS : Sep ([32] ++ T2) := sep_of_next [32] T2 (Or.inl rfl) hstart2
  obtain ⟨r, hr, hsrc, hsk, _⟩ := (tokOK_char a h.c0).skip ([32] ++ T2) ((charText a ++ ([32] ++ T2)).length + 1) 0
    none false hS
  generalize hT : charText a ++ ([32] ++ T2) = T at *
  have hstart : TokStart T := by rw [← hT]; exact tokStart_append_ri _ _ (tokStart_charText _ h.c0)
  have hlen : T.length = (charText a).length + 1 + T2.length := by rw [← hT]; simp; omega
  have hpos2 : 0 < T2.length := List.length_pos_iff.mpr hstart2.1
  have h0 := hstart.2.2.1
  have h37 := hstart.2.2.2.2.2.1
  have h47 := hstart.2.2.2.2.2.2.1
  have h0' := hstart2.2.2.1
  have h37' := hstart2.2.2.2.2.2.1
  have h47' := hstart2.2.2.2.2.2.2.1
  unfold countPrintedArgVals
  simp only [skipSpace_tokStart T hstart, skipCommentLines_none _ T h37, bind, Except.bind]
  rw [countLoop]
  simp only [h0, h47, ne_eq, not_false_eq_true, and_self, ↓reduceIte, skipNextPrintedArg_checkFuel hr, bind, Except.bind, hsrc, hsk,
    skipSpace_sep [32] T2 (Or.inl rfl) hstart2, h0', skipCommentLines_none _ T2 h37', pure, Except.pure, ge_iff_le,
    show ¬ (T.length ≤ T2.length) from by omega]
  obtain ⟨m, hm⟩ : ∃ m, T.length = m + 2 := ⟨T.length - 2, by omega⟩
  rw [hm, countLoop]
  simp only [h0', h47', ne_eq, not_false_eq_true, and_self, ↓reduceIte, skipNextPrintedArg_checkFuel (hskip2 T2.length), bind, Except.bind, skipSpace,
    hd_nil, not_true_eq_false, pure, Except.pure, List.length_nil, ge_iff_le, Nat.le_zero_eq,
    show ¬ (T2.length = 0) from by omega]
  rw [countLoop_end _ (by omega)]
  rfl

/-! ### stage 5: the round trip -/

/-- the conclusion of the round trip theorem -/
def CharRunRoundTrips (opt : POpt) (a d : Int) (n : Nat) : Prop :=
  ∃ (st : PSt) (ret : Nat) (cells : List Cell),
    printArgVals opt (charRun a d n) ⟨[], 0⟩ = .ok (st, ret) ∧ ret = st.out.length ∧
    countPrintedArgVals st.out = .ok (cells.length : Int) ∧
    scanArgVals st.out cells.length = .ok (st.out.length, cells) ∧
    cells = (if d = 1 ∨ d = -1 then [Cell.rep n 1, Cell.int .c d, Cell.int .c a]
             else [Cell.int .c a, Cell.rep ((n : Int) - 1) 1, Cell.int .c d, Cell.int .c (a + d)])

/-- the round trip under what the proof really uses: the int32 hypotheses of the integer run and
    `CharOK` of the three values that are PRINTED (first, second, last); the values in between
    need not be chars of the domain (`'\0' '\b' ... ' '` = 0, 8, 16, 24, 32). -/
theorem char_run_roundtrip_printed (opt : POpt) (hc : opt.compress = true) {a d : Int} {n : Nat}
    (h : CharRunHyp a d n) : CharRunRoundTrips opt a d n := by
  obtain ⟨sep, cols', hsep, hpr⟩ := printArgVals_run_c opt hc h.run
  by_cases hu : d = 1 ∨ d = -1
  · refine ⟨⟨charRunText a d n sep, cols'⟩, _, [Cell.rep n 1, Cell.int .c d, Cell.int .c a], hpr, rfl,
      count_run_unit_c h hu sep hsep, scan_run_unit_c h hu sep hsep, by simp [hu]⟩
  · refine ⟨⟨charRunText a d n sep, cols'⟩, _,
      [Cell.int .c a, Cell.rep ((n : Int) - 1) 1, Cell.int .c d, Cell.int .c (a + d)], hpr, rfl,
      count_run_step_c h hu sep hsep, scan_run_step_c h hu sep hsep, by simp [hu]⟩

/-- **Tier 3, arithmetic runs of chars.**  With range compression on, one arithmetic run of
    `n ≥ 5` chars of the domain (`CharOK`: NUL, the C escapes, printable ASCII) is printed as
    `'a' ... 'z'` (step ±1) or `'a' 'b' ... 'z'`; the checker counts the cells of the range block,
    the scanner returns the block.  No overflow hypotheses: all values lie in 0..126. -/
theorem char_run_roundtrip (opt : POpt) (hc : opt.compress = true) (a d : Int) (n : Nat) (hn : 5 ≤ n) (hd : d ≠ 0)
    (hchars : ∀ k : Nat, k < n → CharOK (a + (k : Int) * d)) :
    ∃ (st : PSt) (ret : Nat) (cells : List Cell),
      printArgVals opt (charRun a d n) ⟨[], 0⟩ = .ok (st, ret) ∧ ret = st.out.length ∧
      countPrintedArgVals st.out = .ok (cells.length : Int) ∧
      scanArgVals st.out cells.length = .ok (st.out.length, cells) ∧
      cells = (if d = 1 ∨ d = -1 then [Cell.rep n 1, Cell.int .c d, Cell.int .c a]
               else [Cell.int .c a, Cell.rep ((n : Int) - 1) 1, Cell.int .c d, Cell.int .c (a + d)]) :=
  char_run_roundtrip_printed opt hc (charRunHyp_mk a d n hn hd hchars)

/-- the printed text, for reference: `'a' ... 'z'` or `'a' 'b' ... 'z'` -/
theorem char_run_text (opt : POpt) (hc : opt.compress = true) (a d : Int) (n : Nat) (hn : 5 ≤ n) (hd : d ≠ 0)
    (hchars : ∀ k : Nat, k < n → CharOK (a + (k : Int) * d)) :
    ∃ (st : PSt) (ret : Nat) (sep : Bytes), IsSepTxt sep ∧
      printArgVals opt (charRun a d n) ⟨[], 0⟩ = .ok (st, ret) ∧
      st.out = (if d = 1 ∨ d = -1 then charText a else charText a ++ lit " " ++ charText (a + d)) ++ lit " ..." ++ sep ++
        charText (a + ((n : Int) - 1) * d) := by
  have h := charRunHyp_mk a d n hn hd hchars
  obtain ⟨sep, cols', hsep, hpr⟩ := printArgVals_run_c opt hc h.run
  refine ⟨⟨charRunText a d n sep, cols'⟩, _, sep, hsep, hpr, ?_⟩
  have : ((n - 1 : Nat) : Int) = (n : Int) - 1 := by omega
  by_cases hu : d = 1 ∨ d = -1 <;>
    simp [charRunText, charRunHead, hu, this, show lit " ..." = [32, 46, 46, 46] from by decide,
      show lit " " = [32] from by decide]

/-! ### the theorem applies to concrete runs -/

/-- `'a' ... 'g'` -/
example := char_run_roundtrip defaultOpt rfl 97 1 7 (by decide) (by decide) (by intro k hk; unfold CharOK; omega)
/-- `'z' 'x' ... 'r'` -/
example := char_run_roundtrip defaultOpt rfl 122 (-2) 5 (by decide) (by decide) (by intro k hk; unfold CharOK; omega)
/-- `'\a' ... '\r'` -/
example := char_run_roundtrip defaultOpt rfl 7 1 7 (by decide) (by decide) (by intro k hk; unfold CharOK; omega)
/-- `'~' ... 'z'` -/
example := char_run_roundtrip defaultOpt rfl 126 (-1) 5 (by decide) (by decide) (by intro k hk; unfold CharOK; omega)

/-! ### outside the domain: a value above 127

`val.i` of a 'c' argument is an `int`; the printer writes its low byte, the scanner reads the byte
back as a (signed) `char`.  The run 124, 125, …, 128 is printed as `'|' ... '\x80'`; the scanner
reads the right-hand side as -128 and returns a run of 253 chars going DOWN from 124.  Some bound
on the values (here `CharOK`, 0..126) is necessary. -/
theorem char_run_signed_counterexample : ¬ CharRunRoundTrips defaultOpt 124 1 5 := by
  rintro ⟨st, ret, cells, h1, _, _, h4, h5⟩
  have hp : (printArgVals defaultOpt (charRun 124 1 5) ⟨[], 0⟩).toOption =
      some (⟨[39, 124, 39, 32, 46, 46, 46, 32, 39, 128, 39], 12⟩, 11) := by decide +kernel
  have hs : (scanArgVals [39, 124, 39, 32, 46, 46, 46, 32, 39, 128, 39] 3).toOption =
      some (11, [Cell.rep 253 1, Cell.int .c (-1), Cell.int .c 124]) := by decide +kernel
  rw [h1] at hp
  simp only [Except.toOption, Option.some.injEq, Prod.mk.injEq] at hp
  obtain ⟨rfl, _⟩ := hp
  simp only [Int.reduceNeg, true_or, ↓reduceIte] at h5
  subst h5
  simp only [List.length_cons, List.length_nil, Nat.zero_add, Nat.reduceAdd] at h4
  rw [h4] at hs
  simp [Except.toOption] at hs

end Rtosc.Pretty
