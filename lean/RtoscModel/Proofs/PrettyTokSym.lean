/-
  C10 — the symbol token printed without quotes: an identifier `[A-Za-z_][A-Za-z0-9_]*` that is
  not a reserved word.  Scanner cases `scanKeyword` (t f n i), `scanMidi` (M), `scanBlob` (B) and
  the identifier branch of the `switch`; checker cases `skipKeyword`, `skipMidi`, `skipBlob` and
  the identifier branch.  In every case the text is read by `parse_identifier` / `skip_identifier`.
-/
import RtoscModel.Proofs.PrettyTokWord
namespace Rtosc.Pretty
open Rtosc Rtosc.Libc
open Rtosc.ArgVal (Cell)

/-! ### facts about identifier characters -/

theorem identChar_facts (c : UInt8) (h : isIdentChar c = true) :
    c ≠ 0 ∧ c ≠ 47 ∧ c ≠ 93 ∧ c ≠ 46 ∧ c ≠ 37 ∧ isspace c = false ∧ c ≠ 91 ∧
    asEscapedChar c false = none := by
  revert h; revert c; apply UInt8.forall_of_fin; decide +kernel

theorem identStart_facts (c : UInt8) (h : isIdentStart c = true) :
    isIdentChar c = true ∧ isdigit c = false ∧ c ≠ 35 ∧ c ≠ 39 ∧ c ≠ 34 ∧ c ≠ 91 ∧
    isspace c = false ∧ c ≠ 0 ∧ c ≠ 40 ∧ c ≠ 46 ∧ c ≠ 37 ∧ c ≠ 47 ∧ c ≠ 93 := by
  revert h; revert c; apply UInt8.forall_of_fin; decide +kernel

/-- an identifier: what `symbolPlain` says about the characters -/
def IdentText (s : Bytes) : Prop := isIdentStart (hd s) = true ∧ ∀ x ∈ s, isIdentChar x = true

theorem symbolPlain_ident (s : Bytes) (hq : symbolPlain s = true) :
    IdentText s ∧ ∀ w ∈ reservedWords, s ≠ w := by
  unfold symbolPlain at hq
  simp only [Bool.and_eq_true, Bool.not_eq_eq_eq_not, Bool.not_true, List.all_eq_true] at hq
  obtain ⟨⟨h1, h2⟩, h3⟩ := hq
  refine ⟨⟨h1, ?_⟩, ?_⟩
  · cases s with
    | nil => simp
    | cons c t =>
      intro x hx
      simp only [List.mem_cons] at hx
      rcases hx with rfl | hx
      · exact (identStart_facts _ h1).1
      · exact h2 x (by simpa using hx)
  · intro w hw he
    subst he
    have : reservedWords.contains s = true := List.contains_iff_mem.mpr hw
    rw [this] at h3; cases h3

theorem identText_ne_nil (s : Bytes) (h : IdentText s) : s ≠ [] := by
  intro he; subst he; exact absurd h.1 (by decide)

/-! ### the identifier functions on an identifier followed by a non-identifier character -/

theorem takeIdentChars_append (s rest : Bytes) (hs : ∀ x ∈ s, isIdentChar x = true)
    (hr : isIdentChar (hd rest) = false) : takeIdentChars (s ++ rest) = s := by
  induction s with
  | nil =>
    cases rest with
    | nil => rfl
    | cons c r => simp only [hd_cons] at hr; simp [takeIdentChars, hr]
  | cons c t ih =>
    simp [takeIdentChars, hs c (by simp), ih (fun x hx => hs x (by simp [hx]))]

theorem skipIdentChars_append (s rest : Bytes) (hs : ∀ x ∈ s, isIdentChar x = true)
    (hr : isIdentChar (hd rest) = false) : skipIdentChars (s ++ rest) = rest := by
  induction s with
  | nil =>
    cases rest with
    | nil => rfl
    | cons c r => simp only [hd_cons] at hr; simp [skipIdentChars, hr]
  | cons c t ih =>
    simp [skipIdentChars, hs c (by simp), ih (fun x hx => hs x (by simp [hx]))]

theorem parseIdentifier_append (s rest : Bytes) (hs : ∀ x ∈ s, isIdentChar x = true)
    (hr : isIdentChar (hd rest) = false) :
    parseIdentifier (s ++ rest) = (rest, Cell.str .S (some s)) := by
  unfold parseIdentifier
  simp [takeIdentChars_append s rest hs hr]

theorem skipIdentifier_append (s rest : Bytes) (h : IdentText s)
    (hr : isIdentChar (hd rest) = false) : skipIdentifier (s ++ rest) = some rest := by
  have hne := identText_ne_nil s h
  cases s with
  | nil => exact absurd rfl hne
  | cons c t =>
    have h1 : isIdentStart c = true := h.1
    unfold skipIdentifier
    simp [h1, skipIdentChars_append t rest (fun x hx => h.2 x (by simp [hx])) hr]

/-! ### a word in front of an identifier -/

/-- if the text `s ++ rest` starts with a word `w ≠ s` made of identifier characters, the
    character behind the word is an identifier character (of `s`) -/
theorem prefix_ident (w : Bytes) : ∀ (s rest : Bytes), (∀ x ∈ w, isIdentChar x = true) →
    (∀ x ∈ s, isIdentChar x = true) → s ≠ w → isIdentChar (hd rest) = false →
    startsWith (s ++ rest) w = true → isIdentChar (hd ((s ++ rest).drop w.length)) = true := by
  induction w with
  | nil =>
    intro s rest _ hs hne _ _
    cases s with
    | nil => exact absurd rfl hne
    | cons c t => simpa using hs c (by simp)
  | cons a w' ih =>
    intro s rest hw hs hne hr hst
    cases s with
    | nil =>
      cases rest with
      | nil => simp [startsWith] at hst
      | cons b r =>
        simp only [hd_cons] at hr
        simp only [startsWith, List.nil_append, List.isPrefixOf, Bool.and_eq_true, beq_iff_eq] at hst
        have := hw a (by simp)
        rw [hst.1, hr] at this; cases this
    | cons c t =>
      simp only [startsWith, List.cons_append, List.isPrefixOf, Bool.and_eq_true, beq_iff_eq] at hst
      obtain ⟨hac, hst'⟩ := hst
      subst hac
      have := ih t rest (fun x hx => hw x (by simp [hx])) (fun x hx => hs x (by simp [hx]))
        (by intro he; exact hne (by rw [he])) hr hst'
      simpa using this

theorem skipWord_ident (w s rest : Bytes) (hw : ∀ x ∈ w, isIdentChar x = true)
    (hs : ∀ x ∈ s, isIdentChar x = true) (hne : s ≠ w) (hr : isIdentChar (hd rest) = false) :
    skipWord w (s ++ rest) = none := by
  unfold skipWord
  by_cases hst : startsWith (s ++ rest) w = true
  · obtain ⟨a1, a2, a3, a4, a5, a6, _⟩ := identChar_facts _ (prefix_ident w s rest hw hs hne hr hst)
    simp [hst, a1, a2, a3, a4, a5, a6]
  · simp [hst]


theorem lit_MIDI : lit "MIDI" = [77, 73, 68, 73] := by decide
theorem lit_BLOB : lit "BLOB" = [66, 76, 79, 66] := by decide

theorem reserved_ident : ∀ w ∈ reservedWords, ∀ x ∈ w, isIdentChar x = true := by decide

/-- `skip_word` with a reserved word fails on a plain symbol -/
theorem skipWord_reserved (w s rest : Bytes) (hw : w ∈ reservedWords) (hs : IdentText s)
    (hne : ∀ w ∈ reservedWords, s ≠ w) (hr : isIdentChar (hd rest) = false) :
    skipWord w (s ++ rest) = none :=
  skipWord_ident w s rest (reserved_ident w hw) hs.2 (hne w hw) hr

/-! ### the keyword case -/

theorem scanKeyword_ident (s rest : Bytes) (hs : IdentText s) (hne : ∀ w ∈ reservedWords, s ≠ w)
    (hr : isIdentChar (hd rest) = false) :
    scanKeyword (s ++ rest) = ⟨rest, [Cell.str .S (some s)], true⟩ := by
  have k := fun w hw => skipWord_reserved w s rest hw hs hne hr
  unfold scanKeyword
  simp only [k (lit "immediately") (by decide), k (lit "now") (by decide), k (lit "true") (by decide),
    k (lit "false") (by decide), k (lit "nil") (by decide), k (lit "inf") (by decide),
    parseIdentifier_append s rest hs.2 hr]

theorem skipKeyword_ident (s rest : Bytes) (hs : IdentText s) (hne : ∀ w ∈ reservedWords, s ≠ w)
    (hr : isIdentChar (hd rest) = false) :
    skipKeyword (s ++ rest) = ⟨some rest, 1, 83, 0⟩ := by
  have k := fun w hw => skipWord_reserved w s rest hw hs hne hr
  unfold skipKeyword
  simp only [k (lit "immediately") (by decide), k (lit "now") (by decide), k (lit "true") (by decide),
    k (lit "false") (by decide), k (lit "nil") (by decide), k (lit "inf") (by decide),
    skipIdentifier_append s rest hs hr]
  split
  · rfl
  · split
    · rfl
    · split <;> rfl

/-! ### the MIDI case -/

theorem midi_cond_false (s rest : Bytes) (hs : IdentText s) (hne : ∀ w ∈ reservedWords, s ≠ w)
    (hr : isIdentChar (hd rest) = false) :
    ¬ (startsWith (s ++ rest) (lit "MIDI") = true ∧
        (isspace (hd ((s ++ rest).drop 4)) = true ∨ hd ((s ++ rest).drop 4) = 91)) := by
  intro ⟨h1, h2⟩
  have := prefix_ident (lit "MIDI") s rest (reserved_ident _ (by decide)) hs.2 (hne _ (by decide)) hr h1
  obtain ⟨_, _, _, _, _, a6, a7, _⟩ := identChar_facts _ this
  have hl : (lit "MIDI").length = 4 := by decide
  rw [hl] at a6 a7
  rcases h2 with h2 | h2
  · rw [a6] at h2; cases h2
  · exact a7 h2

theorem scanMidi_ident (s rest : Bytes) (hs : IdentText s) (hne : ∀ w ∈ reservedWords, s ≠ w)
    (hr : isIdentChar (hd rest) = false) :
    scanMidi (s ++ rest) = .ok ⟨rest, [Cell.str .S (some s)], true⟩ := by
  unfold scanMidi
  rw [if_neg (midi_cond_false s rest hs hne hr)]
  simp only [parseIdentifier_append s rest hs.2 hr]
  rfl

theorem skipMidi_ident (s rest : Bytes) (hs : IdentText s) (hne : ∀ w ∈ reservedWords, s ≠ w)
    (hr : isIdentChar (hd rest) = false) :
    skipMidi (s ++ rest) = ⟨some rest, 1, 83, 0⟩ := by
  unfold skipMidi
  rw [if_neg (midi_cond_false s rest hs hne hr)]
  rw [skipIdentifier_append s rest hs hr]

/-! ### the BLOB case -/

/-- literal directives in front of a format -/
theorem sscanfGo_lits (w : Bytes) : ∀ (ds : List Dir) (x : Bytes) (k : Nat) (acc : List SVal),
    sscanfGo (w.map Dir.lit ++ ds) x k acc =
      if startsWith x w then sscanfGo ds (x.drop w.length) (k + w.length) acc else acc.reverse := by
  induction w with
  | nil => intro ds x k acc; simp [startsWith]
  | cons a w' ih =>
    intro ds x k acc
    cases x with
    | nil => simp [sscanfGo, startsWith]
    | cons b r =>
      simp only [List.map_cons, List.cons_append, sscanfGo, startsWith, List.isPrefixOf]
      by_cases hab : b = a
      · subst hab
        simp only [↓reduceIte, ih, startsWith, BEq.rfl, Bool.true_and, List.length_cons,
          List.drop_succ_cons]
        have e : k + 1 + w'.length = k + (w'.length + 1) := by omega
        rw [e]
        by_cases hp : w'.isPrefixOf r = true
        · simp only [hp, if_true]
        · simp only [hp]
      · have : (a == b) = false := by simp [Ne.symm hab]
        simp [hab, this]

/-- "BLOB" followed by white space and "[" does not match a plain symbol -/
theorem blobOpen_fails (ds : List Dir) (s rest : Bytes) (hs : IdentText s)
    (hne : ∀ w ∈ reservedWords, s ≠ w) (hr : isIdentChar (hd rest) = false) :
    sscanf (lits "BLOB" ++ .ws :: .lit 91 :: ds) (s ++ rest) = [] := by
  unfold sscanf lits
  rw [sscanfGo_lits]
  by_cases hst : startsWith (s ++ rest) (lit "BLOB") = true
  · have := prefix_ident (lit "BLOB") s rest (reserved_ident _ (by decide)) hs.2 (hne _ (by decide)) hr hst
    obtain ⟨a0, _, _, _, _, a6, a7, _⟩ := identChar_facts _ this
    rw [if_pos hst]
    cases hx : (s ++ rest).drop (lit "BLOB").length with
    | nil => rw [hx] at a0; exact absurd rfl a0
    | cons c r =>
      rw [hx] at a6 a7
      simp only [hd_cons] at a6 a7
      simp [sscanfGo, skipSpace, a6, a7]
  · simp [hst]

theorem scanBlob_ident (s rest : Bytes) (hs : IdentText s) (hne : ∀ w ∈ reservedWords, s ≠ w)
    (hr : isIdentChar (hd rest) = false) :
    scanBlob (s ++ rest) = .ok ⟨rest, [Cell.str .S (some s)], true⟩ := by
  have h : sscanf fmtBlobOpenLen (s ++ rest) = [] := by
    have := blobOpen_fails [.ws, .int .i none false, .ws, .n] s rest hs hne hr
    simpa [fmtBlobOpenLen] using this
  unfold scanBlob
  rw [h]
  simp only [parseIdentifier_append s rest hs.2 hr]
  rfl

theorem skipBlob_ident (s rest : Bytes) (hs : IdentText s) (hne : ∀ w ∈ reservedWords, s ≠ w)
    (hr : isIdentChar (hd rest) = false) :
    skipBlob (s ++ rest) = ⟨some rest, 1, 83, 0⟩ := by
  have h : skipFmt fmtBlobOpen (s ++ rest) = 0 := by
    have := blobOpen_fails [.ws, .n] s rest hs hne hr
    unfold skipFmt scanRd
    have e : fmtBlobOpen = lits "BLOB" ++ [.ws, .lit 91, .ws, .n] := rfl
    rw [e, this]
  unfold skipBlob
  simp only [h, ne_eq, not_true_eq_false, ↓reduceIte, skipIdentifier_append s rest hs hr]


/-! ### the `switch` on an identifier -/

theorem isRangeMultiplier_ident (x : Bytes) (h : isIdentStart (hd x) = true) :
    isRangeMultiplier x = false := by
  unfold isRangeMultiplier
  simp [(identStart_facts _ h).2.1]

theorem scanValue_ident (se : ElemScanner) (s rest : Bytes) (prev : List Cell) (hs : IdentText s)
    (hne : ∀ w ∈ reservedWords, s ≠ w) (hr : isIdentChar (hd rest) = false) :
    scanValue se (s ++ rest) prev = .ok ⟨rest, [Cell.str .S (some s)], true⟩ := by
  have hh : hd (s ++ rest) = hd s := hd_append_of_ne_nil _ _ (identText_ne_nil s hs)
  have h1 : isIdentStart (hd (s ++ rest)) = true := by rw [hh]; exact hs.1
  obtain ⟨_, _, a35, a39, a34, a91, _⟩ := identStart_facts _ h1
  unfold scanValue
  by_cases hk : hd (s ++ rest) = 116 ∨ hd (s ++ rest) = 102 ∨ hd (s ++ rest) = 110 ∨ hd (s ++ rest) = 105
  · simp only [hk, ↓reduceIte, scanKeyword_ident s rest hs hne hr]; rfl
  · simp only [hk, ↓reduceIte, a35, a39, a34, a91]
    by_cases hm : hd (s ++ rest) = 77
    · simp only [hm, ↓reduceIte]; exact scanMidi_ident s rest hs hne hr
    · simp only [hm, ↓reduceIte]
      by_cases hb : hd (s ++ rest) = 66
      · simp only [hb, ↓reduceIte]; exact scanBlob_ident s rest hs hne hr
      · simp only [hb, ↓reduceIte, isRangeMultiplier_ident _ h1, h1, Bool.false_eq_true,
          parseIdentifier_append s rest hs.2 hr]
        rfl

theorem skipValue_ident (sk : ArgSkipper) (s rest : Bytes) (ty : UInt8) (ib : Bool) (hs : IdentText s)
    (hne : ∀ w ∈ reservedWords, s ≠ w) (hr : isIdentChar (hd rest) = false) :
    skipValue sk (s ++ rest) ty ib = .ok (some ⟨some rest, 1, 83, 0⟩) := by
  have hh : hd (s ++ rest) = hd s := hd_append_of_ne_nil _ _ (identText_ne_nil s hs)
  have h1 : isIdentStart (hd (s ++ rest)) = true := by rw [hh]; exact hs.1
  obtain ⟨_, _, a35, a39, a34, a91, _⟩ := identStart_facts _ h1
  unfold skipValue
  by_cases hk : hd (s ++ rest) = 116 ∨ hd (s ++ rest) = 102 ∨ hd (s ++ rest) = 110 ∨ hd (s ++ rest) = 105
  · simp only [hk, ↓reduceIte, skipKeyword_ident s rest hs hne hr]; rfl
  · simp only [hk, ↓reduceIte, a35, a39, a34, a91]
    by_cases hm : hd (s ++ rest) = 77
    · simp only [hm, ↓reduceIte, skipMidi_ident s rest hs hne hr]; rfl
    · simp only [hm, ↓reduceIte]
      by_cases hb : hd (s ++ rest) = 66
      · simp only [hb, ↓reduceIte, skipBlob_ident s rest hs hne hr]; rfl
      · simp only [hb, ↓reduceIte, isRangeMultiplier_ident _ h1, h1, Bool.false_eq_true,
          skipIdentChars_append s rest hs.2 hr]
        rfl

/-- a plain symbol is a good token -/
theorem tokOK_symbol_plain (s : Bytes) (hq : symbolPlain s = true) :
    TokOK s (Cell.str .S (some s)) := by
  obtain ⟨hs, hne⟩ := symbolPlain_ident s hq
  refine ⟨?_, ?_, ?_⟩
  · obtain ⟨_, _, _, _, _, _, b1, b2, b3, b4, b5, b6, b7⟩ := identStart_facts _ hs.1
    exact ⟨identText_ne_nil s hs, b1, b2, b3, b4, b5, b6, b7⟩
  · intro rest fuel prev ab hsep
    have hr := (sep_hd_facts rest hsep).2.2.2.2.2.2.1
    apply scanArgVal_of_value _ _ _ _ _ _ hsep
    exact scanValue_ident _ s rest prev hs hne hr
  · intro rest fuel ty llhs ib hsep
    have hr := (sep_hd_facts rest hsep).2.2.2.2.2.2.1
    apply skipNext_of_value _ _ 83 0 _ _ _ _ hsep
    exact skipValue_ident _ s rest ty ib hs hne hr

/-! ### the printer -/

theorem printStrChars_plain (ll : Int) (s : Bytes) (hs : ∀ x ∈ s, isIdentChar x = true) :
    ∀ st : PSt, printStrChars true ll s st = ⟨st.out ++ s, st.cols + s.length⟩ := by
  induction s with
  | nil => intro st; simp [printStrChars]
  | cons c t ih =>
    intro st
    have hc := (identChar_facts c (hs c (by simp))).2.2.2.2.2.2.2
    simp only [printStrChars, hc, Bool.not_true, Bool.false_and, Bool.false_eq_true, ↓reduceIte]
    rw [ih (fun x hx => hs x (by simp [hx]))]
    simp only [List.append_assoc, List.singleton_append, List.length_cons, PSt.mk.injEq, true_and]
    push_cast
    omega

theorem takeWhile_all (p : UInt8 → Bool) (s : Bytes) (h : ∀ x ∈ s, p x = true) : s.takeWhile p = s := by
  induction s with
  | nil => rfl
  | cons c t ih =>
    rw [List.takeWhile_cons, h c (by simp), if_pos rfl, ih (fun x hx => h x (by simp [hx]))]

/-- 'S' printed without quotes: an identifier `[A-Za-z_][A-Za-z0-9_]*` that is not one of the
    reserved words (true false nil inf immediately now MIDI BLOB) scans back as the same symbol -/
theorem printsTok_symbol_plain (opt : POpt) (s : Bytes) (hq : symbolPlain s = true) :
    PrintsTok opt (Cell.str .S (some s)) := by
  intro fuel more prev st
  obtain ⟨hs, _⟩ := symbolPlain_ident s hq
  refine ⟨s, st.cols + s.length, ?_, tokOK_symbol_plain s hq⟩
  have htw : s.takeWhile (fun x => !decide (x = 0)) = s :=
    takeWhile_all _ s (fun x hx => by simp [(identChar_facts x (hs.2 x hx)).1])
  simp [printArgVal, deref, bind, Except.bind, pure, Except.pure, htw, hq,
    printStrChars_plain _ s hs.2]

end Rtosc.Pretty
