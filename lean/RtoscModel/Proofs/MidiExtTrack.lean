/-
  C20 (extension) — the value a controller last sent, as a function of the HISTORY (`lastVals`), and
  the invariant that ties it to the value slots of the realtime half (`Track`): along a hazard-free
  history each mapping entry's half of its value slot holds the last value its controller sent while
  bound (0 if none), and a half nobody owns holds 0.
-/
import RtoscModel.Proofs.MidiExtClone
set_option linter.unusedSimpArgs false
namespace Rtosc.Midi

/-! ### specification: the last value of a controller, read off the history -/

/-- The last value controller `x` sent while the realtime half had it bound, 0 if there is none;
    a controller that a delivered snapshot no longer binds forgets its value.  (History: most recent
    step first; every entry is the state BEFORE the step and the step.) -/
def lastVals : List (Sys × Op) → Nat → Nat
  | [] => fun _ => 0
  | (s, op) :: h =>
    match op with
    | .cc id v => fun x => if x = id ∧ (s.rt.binding id).isSome then v else lastVals h x
    | .deliverRT =>
      match s.toRT with
      | .bind ns _ :: _ => fun x => if (ns.binding x).isSome then lastVals h x else 0
      | _ => lastVals h
    | _ => lastVals h

theorem lastVals_cc (s : Sys) (id v : Nat) (h) (x : Nat) :
    lastVals ((s, .cc id v) :: h) x = if x = id ∧ (s.rt.binding id).isSome then v else lastVals h x := rfl

theorem lastVals_map (s : Sys) (a k h) : lastVals ((s, .map a k) :: h) = lastVals h := rfl
theorem lastVals_unmap (s : Sys) (a k h) : lastVals ((s, .unmap a k) :: h) = lastVals h := rfl
theorem lastVals_clear (s : Sys) (h) : lastVals ((s, .clear) :: h) = lastVals h := rfl
theorem lastVals_deliverNRT (s : Sys) (h) : lastVals ((s, .deliverNRT) :: h) = lastVals h := rfl

theorem lastVals_bind {s : Sys} {ns ans rest} (hq : s.toRT = .bind ns ans :: rest) (h) (x : Nat) :
    lastVals ((s, .deliverRT) :: h) x = if (ns.binding x).isSome then lastVals h x else 0 := by
  simp only [lastVals, hq]

theorem lastVals_nobind {s : Sys} (hq : ∀ ns ans rest, s.toRT ≠ .bind ns ans :: rest) (h) :
    lastVals ((s, .deliverRT) :: h) = lastVals h := by
  cases hto : s.toRT with
  | nil => simp only [lastVals, hto]
  | cons m rest =>
    cases m with
    | addWatch => simp only [lastVals, hto]
    | bind ns ans => exact absurd hto (hq ns ans rest)

/-- a controller's last value is a 7-bit value -/
theorem lastVals_lt {P h s} (t : Trace P h s) : ∀ x, lastVals h x < 128 := by
  induction t with
  | init => intro x; simp [lastVals]
  | step t hwf hs ih =>
    rename_i h0 s0 s1 op out
    intro x
    cases op with
    | cc id v =>
      rw [lastVals_cc]; split
      · simp only [Op.wf] at hwf; omega
      · exact ih x
    | deliverRT =>
      cases hto : s0.toRT with
      | nil => rw [lastVals_nobind (by simp [hto])]; exact ih x
      | cons m rest =>
        cases m with
        | addWatch => rw [lastVals_nobind (by simp [hto])]; exact ih x
        | bind ns ans =>
          rw [lastVals_bind hto]; split
          · exact ih x
          · decide
    | map a k => exact ih x
    | unmap a k => exact ih x
    | clear => exact ih x
    | deliverNRT => exact ih x

/-! ### every snapshot the non-realtime half sends starts with zeroed values -/

def ZeroVals (st : Storage) : Prop := ∀ v ∈ st.values, v = 0

theorem zeroVals_replicate (m : List MapEnt) (c : List Cb) (n : Nat) : ZeroVals ⟨m, c, List.replicate n 0⟩ := by
  intro v hv; exact (List.mem_replicate.mp hv).2

theorem unMap_zero {P n} (h : NrtOk P n) {a k n' ms} (heq : n.unMap a k = some (n', ms)) :
    ∀ st ans, RtMsg.bind st ans ∈ ms → ZeroVals st := by
  intro st ans hin
  rcases unMap_eq h a k with ⟨_, h1⟩ | ⟨im, _, _, h1⟩ | ⟨im, c, st0, _, _, _, _, h1⟩
  · rw [heq] at h1; cases h1; cases hin
  · rw [heq] at h1; cases h1; cases hin
  · rw [heq] at h1; cases h1
    simp only [List.mem_singleton, RtMsg.bind.injEq] at hin
    obtain ⟨rfl, _⟩ := hin
    exact zeroVals_replicate _ _ _

theorem map_zero {P : List PortSpec} {n} (h : NrtOk P n) {a k n' ms} (ha : a < P.length)
    (heq : n.map a k = some (n', ms)) : ∀ st ans, RtMsg.bind st ans ∈ ms → ZeroVals st := by
  intro st ans hin
  rcases map_ok h a k ha with ⟨_, h1⟩ | ⟨_, n1, ms1, hun, h1, _⟩
  · rw [heq] at h1; cases h1; cases hin
  · rw [heq] at h1; cases h1
    simp only [List.mem_append, List.mem_singleton] at hin
    rcases hin with hin | hin
    · exact unMap_zero h hun st ans hin
    · cases hin

theorem useFreeID_zero {P n} (h : NrtOk P n) {id n' ms} (heq : NRT.useFreeID P n id = some (n', ms)) :
    ∀ st ans, RtMsg.bind st ans ∈ ms → ZeroVals st := by
  intro st ans hin
  cases hq : n.learnQ with
  | nil => simp [NRT.useFreeID, hq] at heq; obtain ⟨_, rfl⟩ := heq; cases hin
  | cons x q =>
    obtain ⟨a, k⟩ := x
    obtain ⟨p, _, hcase⟩ := useFreeID_eq id h hq
    rcases hcase with ⟨_, h1⟩ | ⟨im, st0, _, _, h1⟩
    · rw [heq] at h1; cases h1
      simp only [List.mem_singleton, RtMsg.bind.injEq] at hin
      obtain ⟨rfl, _⟩ := hin
      exact zeroVals_replicate _ _ _
    · rw [heq] at h1; cases h1
      simp only [List.mem_singleton, RtMsg.bind.injEq] at hin
      obtain ⟨rfl, _⟩ := hin
      exact zeroVals_replicate _ _ _

/-! ### one controller value, at the level of the value vector -/

theorem halfAt_set {vals : List Nat} {e old : Nat} (c : Bool) {v : Nat} (hold : vals[e]? = some old)
    (hv : v < 128) (ho : old < 16384) (slot : Nat) (c' : Bool) :
    halfAt slot c' (vals.set e (blit c v old)) =
      if slot = e ∧ c' = c then some v else halfAt slot c' vals := by
  have hlt : e < vals.length := (List.getElem?_eq_some_iff.mp hold).1
  by_cases hs : slot = e
  · subst hs
    by_cases hc : c' = c
    · subst hc
      simp [halfAt, List.getElem?_set_self hlt, half_blit_same _ _ _ hv ho]
    · have hc' : c' = !c := by cases c <;> cases c' <;> simp_all
      subst hc'
      have : ¬(slot = slot ∧ (!c) = c) := by cases c <;> simp
      rw [if_neg this]
      simp only [halfAt, List.getElem?_set_self hlt, Option.map_some, hold,
        half_blit_other _ _ _ hv ho]
  · have : ¬(slot = e ∧ c' = c) := fun h => hs h.1
    rw [if_neg this]
    simp only [halfAt, List.getElem?_set_ne (Ne.symm hs)]

theorem handleCC_none_storage {r r' : RT} {id val req} (h : r.handleCC id val = some (r', none, req)) :
    r'.storage = r.storage := by
  unfold RT.handleCC at h
  cases hst : r.storage with
  | none =>
    simp [hst] at h
    split at h <;> (simp at h; obtain ⟨rfl, _⟩ := h; rfl)
  | some st =>
    simp only [hst] at h
    cases hh : st.handleCC id val with
    | none => simp [hh] at h
    | some y =>
      obtain ⟨st2, m2⟩ := y
      simp only [hh, Option.map_some] at h
      cases m2 with
      | some mm => simp at h
      | none =>
        have hst2 : st2 = st := by
          unfold Storage.handleCC at hh
          split at hh
          · simp at hh; exact hh.symm
          · split at hh <;> simp at hh
        simp only at h
        split at h <;> (simp at h; obtain ⟨rfl, _⟩ := h; simp [hst2])

/-- a controller value the realtime half does not handle leaves its snapshot alone -/
theorem cc_step_unhandled {P s id val s'} (h : step P s (.cc id val) = some (s', [])) :
    s'.rt.storage = s.rt.storage ∧ s'.toRT = s.toRT := by
  simp only [step] at h
  cases hm : s.rt.handleCC id val with
  | none => simp [hm] at h
  | some r =>
    obtain ⟨r', m, req⟩ := r
    simp [hm] at h; obtain ⟨rfl, hout⟩ := h
    cases m with
    | some mm => simp at hout
    | none => exact ⟨handleCC_none_storage hm, rfl⟩

/-! ### the snapshots of a hazard-free history are views of consistent non-realtime states -/

theorem rt_view_ok {P h s} (t : Trace P h s) (hf : HazardFree h) :
    ∃ n, NrtOk P n ∧ viewOf s.rt.storage = viewOf n.storage := by
  obtain ⟨⟨n, hn, hv⟩, _⟩ := views_are_past t
  exact ⟨n, past_nrtOk t hf n hn, hv⟩

theorem pairInj_of_view {P n} (hok : NrtOk P n) {st : Storage} (hv : viewOf (some st) = viewOf n.storage) :
    PairInj st.mapping := by
  have := pairInj_of_nrtOk hok
  cases hs : n.storage with
  | none => simp [viewOf, hs] at hv; intro e1 h1; simp [hv.1] at h1
  | some st2 =>
    simp only [viewOf, hs, Prod.mk.injEq] at hv
    simpa [NRT.mapping, hs, hv.1] using this

theorem rt_pairInj {P h s} (t : Trace P h s) (hf : HazardFree h) {st} (hst : s.rt.storage = some st) :
    PairInj st.mapping := by
  obtain ⟨n, hok, hv⟩ := rt_view_ok t hf
  rw [hst] at hv
  exact pairInj_of_view hok hv

theorem flight_pairInj {P h s} (t : Trace P h s) (hf : HazardFree h) {ns ans} (hin : RtMsg.bind ns ans ∈ s.toRT) :
    PairInj ns.mapping := by
  obtain ⟨n, hn, hview⟩ := (views_are_past t).2 ns ans hin
  exact pairInj_of_view (past_nrtOk t hf n hn) hview

/-! ### the invariant -/

/-- What the value slots of the realtime half hold, in terms of the history. -/
structure Track (h : List (Sys × Op)) (s : Sys) : Prop where
  zero : ∀ st ans, RtMsg.bind st ans ∈ s.toRT → ZeroVals st
  unb : ∀ id, s.rt.binding id = none → lastVals h id = 0
  own : ∀ st, s.rt.storage = some st → ∀ e ∈ st.mapping,
    halfAt e.slot e.coarse st.values = some (lastVals h e.id)
  free : ∀ st, s.rt.storage = some st → ∀ slot c, slot < st.values.length →
    (∀ e ∈ st.mapping, ¬(e.slot = slot ∧ e.coarse = c)) → halfAt slot c st.values = some 0

theorem track_init : Track [] Sys.init := by
  constructor <;> simp [Sys.init, RT.init, lastVals]

/-- a step of the non-realtime half: the realtime half and the last values are as before, the
    snapshots sent are zeroed -/
theorem track_nrt {h0 : List (Sys × Op)} {s0 s1 : Sys} {op : Op} (T : Track h0 s0)
    (hl : lastVals ((s0, op) :: h0) = lastVals h0) (hrt : s1.rt = s0.rt) (ms : List RtMsg)
    (hto : s1.toRT = s0.toRT ++ ms) (hz : ∀ st ans, RtMsg.bind st ans ∈ ms → ZeroVals st) :
    Track ((s0, op) :: h0) s1 := by
  constructor
  · intro st ans hin
    rw [hto, List.mem_append] at hin
    rcases hin with hin | hin
    · exact T.zero st ans hin
    · exact hz st ans hin
  · intro id hb; rw [hl]; rw [hrt] at hb; exact T.unb id hb
  · intro st hst; rw [hl]; rw [hrt] at hst; exact T.own st hst
  · intro st hst; rw [hrt] at hst; exact T.free st hst

theorem rt_binding_storage {r r' : RT} (h : r'.storage = r.storage) : r'.binding = r.binding := by
  funext x; simp [RT.binding, h]

end Rtosc.Midi
