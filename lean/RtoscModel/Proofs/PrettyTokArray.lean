/-
  C10 — tier 3 (partial): arrays of scalar values that the printer does not compress.

  * `argOK_arrayText`: the text `[` tokens separated by a blank or a line break `]` is read back by
    scanner and checker as the array (header tagged with the type of the last element);
  * `printsArg_array`: the printer writes such a text (possibly turning the blank in front of the
    `[` into a line break) and returns the number of characters added;
  * `noConversion_array`: when the printer makes no range inside an array;
  * `list_roundtrip_goodArgs`, `message_roundtrip_goodArgs`, `array_roundtrip`: the round trip for
    lists / messages of scalars and arrays of scalars (instances of PrettyArg's list theorems).
-/
import RtoscModel.Proofs.PrettyArg
namespace Rtosc.Pretty
open Rtosc Rtosc.Libc
open Rtosc.ArgVal (Cell)

/-! ### the text of an array -/

/-- `text` = (separator ++ good token)* for the scalar cells `cs` -/
inductive ElemTail : List Cell → Bytes → Prop
  | nil : ElemTail [] []
  | cons (t : Bytes) (c : Cell) (sep : Bytes) (cs : List Cell) (text : Bytes) :
      TokOK t c → c.isScalar = true → IsSepTxt sep → ElemTail cs text →
      ElemTail (c :: cs) (sep ++ (t ++ text))

/-- the text between the brackets: good tokens separated by a blank or a line break -/
inductive ArrBody : List Cell → Bytes → Prop
  | nil : ArrBody [] []
  | cons (t : Bytes) (c : Cell) (cs : List Cell) (tail : Bytes) :
      TokOK t c → c.isScalar = true → ElemTail cs tail → ArrBody (c :: cs) (t ++ tail)

/-- the element type the scanner writes into the array header: the type of the last element -/
def lastTy (cs : List Cell) (d : UInt8) : UInt8 :=
  match cs.getLast? with
  | some e => e.type
  | none => d

theorem lastTy_cons (c : Cell) (cs : List Cell) (d : UInt8) : lastTy (c :: cs) d = lastTy cs c.type := by
  cases cs with
  | nil => rfl
  | cons x xs =>
    cases h : (x :: xs).getLast? with
    | none => simp at h
    | some e => simp [lastTy, List.getLast?_cons_cons, h]

theorem sep_close (rest : Bytes) : Sep (93 :: rest) := by
  refine ⟨Or.inr (Or.inr rfl), ?_, ?_⟩
  · simp [skipSpace, show isspace 93 = false from by decide]
  · simp [skipSpace, show isspace 93 = false from by decide, startsWith, List.isPrefixOf]

theorem skipSpace_close (rest : Bytes) : skipSpace (93 :: rest) = 93 :: rest := by
  simp [skipSpace, show isspace 93 = false from by decide]

theorem tokStart_append {t : Bytes} (h : TokStart t) (r : Bytes) : TokStart (t ++ r) := by
  obtain ⟨h0, h1⟩ := h
  refine ⟨by simp [h0], ?_⟩
  rw [hd_append_of_ne_nil _ _ h0]; exact h1

theorem ElemTail.sep {cs : List Cell} {tail : Bytes} (h : ElemTail cs tail) (rest : Bytes) :
    Sep (tail ++ 93 :: rest) := by
  cases h with
  | nil => exact sep_close rest
  | cons t c sep cs text ht _ hsep _ =>
    have := sep_of_next sep (t ++ (text ++ 93 :: rest)) hsep (tokStart_append ht.start _)
    simpa [List.append_assoc] using this

theorem ElemTail.skipSpace_cons {t : Bytes} {c : Cell} (ht : TokOK t c) {sep : Bytes} (hsep : IsSepTxt sep)
    (text rest : Bytes) :
    skipSpace ((sep ++ (t ++ text)) ++ 93 :: rest) = t ++ (text ++ 93 :: rest) := by
  have := skipSpace_sep sep (t ++ (text ++ 93 :: rest)) hsep (tokStart_append ht.start _)
  simpa [List.append_assoc] using this

theorem ElemTail.length_le {cs : List Cell} {tail : Bytes} (h : ElemTail cs tail) : cs.length ≤ tail.length := by
  induction h with
  | nil => simp
  | cons t c sep cs text ht _ _ _ ih =>
    have := List.length_pos_iff.mpr ht.start.1
    simp only [List.length_cons, List.length_append]; omega

theorem ArrBody.length_le {cs : List Cell} {body : Bytes} (h : ArrBody cs body) : cs.length ≤ body.length := by
  cases h with
  | nil => simp
  | cons t c cs tail ht _ htl =>
    have := List.length_pos_iff.mpr ht.start.1
    have := htl.length_le
    simp only [List.length_cons, List.length_append]; omega

theorem ArrBody.toTail {cs : List Cell} {body : Bytes} (h : ArrBody cs body) :
    ∃ tail, ElemTail cs tail ∧ ∀ X, skipSpace (tail ++ X) = skipSpace (body ++ X) := by
  cases h with
  | nil => exact ⟨[], ElemTail.nil, fun _ => rfl⟩
  | cons t c cs tail ht hsc htl =>
    refine ⟨[32] ++ (t ++ tail), ElemTail.cons t c [32] cs tail ht hsc (Or.inl rfl) htl, ?_⟩
    intro X
    simp [skipSpace, show isspace 32 = true from by decide]

theorem skipSpace_length_le (s : Bytes) : (skipSpace s).length ≤ s.length := by
  induction s with
  | nil => simp [skipSpace]
  | cons c r ih =>
    unfold skipSpace
    split
    · simp only [List.length_cons]; omega
    · exact Nat.le_refl _

theorem Cell.type_ne_zero (c : Cell) : c.type ≠ 0 := by
  cases c with
  | int ty v => cases ty <;> simp [ArgVal.Cell.type, ArgVal.IntTy.char]
  | str ty s => cases ty <;> simp [ArgVal.Cell.type, ArgVal.StrTy.char]
  | flag ty => cases ty <;> simp [ArgVal.Cell.type, ArgVal.FlagTy.char]
  | _ => simp [ArgVal.Cell.type, ArgVal.tyA, ArgVal.tyRange]

/-! ### the scanner -/

/-- the scanner's element loop reads the rest of an array text -/
theorem scanArrayElems_tail (fuel : Nat) {cs : List Cell} {tail : Bytes} (h : ElemTail cs tail) (rest : Bytes) :
    ∀ (lf : Nat) (prev : List Cell) (i : Nat) (pok : Bool) (acc : List Cell) (ty : UInt8), cs.length + 1 ≤ lf →
      scanArrayElems (scanArgVal (fuel + 1)) lf (skipSpace (tail ++ 93 :: rest)) prev i pok acc ty =
        .ok (93 :: rest, acc ++ cs, lastTy cs ty) := by
  induction h with
  | nil =>
    intro lf prev i pok acc ty hlf
    cases lf with
    | zero => omega
    | succ f =>
      simp only [List.nil_append, skipSpace_close]
      unfold scanArrayElems
      simp [pure, Except.pure, lastTy]
  | cons t c sep cs text ht hsc hsep hrest ih =>
    intro lf prev i pok acc ty hlf
    cases lf with
    | zero => omega
    | succ f =>
      obtain ⟨hne, _, h0, _, _, _, _, h93⟩ := ht.start
      have hS := hrest.sep rest
      have hscan := ht.scan (text ++ 93 :: rest) fuel prev (if pok then acc.length else 0) hS
      have hhd : hd (t ++ (text ++ 93 :: rest)) = hd t := hd_append_of_ne_nil _ _ hne
      have hlen : t.length ≠ 0 := by have := List.length_pos_iff.mpr hne; omega
      have hadv : advance (t ++ (text ++ 93 :: rest)) t.length = .ok (text ++ 93 :: rest) := by
        simp [advance]
      rw [ElemTail.skipSpace_cons ht hsep]
      unfold scanArrayElems
      simp only [hhd, h0, h93, ne_eq, not_false_eq_true, and_self, ↓reduceIte, hscan, bind, Except.bind, hlen,
        hadv, deref, nextArgOffset_scalar _ c [] hsc, List.length_singleton, not_true_eq_false,
        pure, Except.pure, canPrecedeRange_scalar c [] hsc]
      simp only [List.length_cons] at hlf
      split
      · simp [ArgVal.Cell.isScalar] at hsc
      · rw [ih f _ (i + 1) true (acc ++ [c]) c.type (by omega)]
        simp [lastTy_cons]


/-! ### the checker -/

/-- the checker's element loop skips the rest of an array text -/
theorem skipArrayElems_tail (fuel : Nat) {cs : List Cell} {tail : Bytes} (h : ElemTail cs tail) (rest : Bytes) :
    ∀ (lf : Nat) (recent : Option Bytes) (aty : UInt8) (skipped : Int), cs.length + 1 ≤ lf →
      (∀ e ∈ cs, arraytypesMatch (if aty = 0 then (cs.headD (Cell.flag .N)).type else aty) e.type = true) →
      skipArrayElems (skipNextPrintedArg (fuel + 1)) lf (some (skipSpace (tail ++ 93 :: rest))) recent aty skipped =
        .ok (some (93 :: rest), skipped + cs.length) := by
  induction h with
  | nil =>
    intro lf recent aty skipped hlf _
    cases lf with
    | zero => omega
    | succ f =>
      simp only [List.nil_append, skipSpace_close]
      unfold skipArrayElems
      simp
  | cons t c sep cs text ht hsc hsep hrest ih =>
    intro lf recent aty skipped hlf hT
    cases lf with
    | zero => omega
    | succ f =>
      obtain ⟨hne, _, h0, _, _, _, _, h93⟩ := ht.start
      have hS := hrest.sep rest
      obtain ⟨r, hr, hsrc, hsk, hrty⟩ := ht.skip (text ++ 93 :: rest) fuel 20 recent true hS
      have hhd : hd (t ++ (text ++ 93 :: rest)) = hd t := hd_append_of_ne_nil _ _ hne
      have hprog : ¬ ((skipSpace (text ++ 93 :: rest)).length ≥ (t ++ (text ++ 93 :: rest)).length) := by
        have := skipSpace_length_le (text ++ 93 :: rest)
        have := List.length_pos_iff.mpr hne
        simp only [List.length_append] at *
        omega
      simp only [List.length_cons] at hlf
      rw [ElemTail.skipSpace_cons ht hsep]
      unfold skipArrayElems
      simp only [hhd, h0, h93, ne_eq, not_false_eq_true, and_self, ↓reduceIte, hr, bind, Except.bind, hsrc, hsk,
        hrty, Option.map_some]
      by_cases ha : aty = 0
      · subst ha
        simp only [↓reduceIte, List.headD_cons] at hT
        have hT' : ∀ e ∈ cs, arraytypesMatch (if c.type = 0 then (cs.headD (Cell.flag .N)).type else c.type) e.type = true := by
          intro e he
          simp only [Cell.type_ne_zero c, ↓reduceIte]
          exact hT e (by simp [he])
        simp only [↓reduceIte, ge_iff_le, hprog]
        rw [ih f _ c.type (skipped + 1) (by omega) hT']
        simp only [List.length_cons]
        congr 2
        omega
      · simp only [ha, ↓reduceIte] at hT
        have hc := hT c (by simp)
        have hT' : ∀ e ∈ cs, arraytypesMatch (if aty = 0 then (cs.headD (Cell.flag .N)).type else aty) e.type = true := by
          intro e he
          simp only [ha, ↓reduceIte]
          exact hT e (by simp [he])
        simp only [ha, ↓reduceIte, hc, Bool.not_true, Bool.false_eq_true, ge_iff_le, hprog]
        rw [ih f _ aty (skipped + 1) (by omega) hT']
        simp only [List.length_cons]
        congr 2
        omega

/-! ### an array text is a good argument text -/

theorem scanValue_bracket (se : ElemScanner) (src : Bytes) (prev : List Cell) (h : hd src = 91) :
    scanValue se src prev = scanArray se src prev := by
  unfold scanValue
  simp [h]

theorem skipValue_bracket (sk : ArgSkipper) (src : Bytes) (ty : UInt8) (ib : Bool) (h : hd src = 91) :
    skipValue sk src ty ib = (do let r ← skipArray sk src; pure (some r)) := by
  unfold skipValue
  simp [h]

/-- **the text `[` elements `]` is read back as the array** (element type: that of the last
    element, 32 if there is none), provided the elements are of one type for the checker -/
theorem argOK_arrayText {es : List Cell} {body : Bytes} (hb : ArrBody es body)
    (hty : ∀ e ∈ es, typesMatch ((es.headD (Cell.flag .N)).type) e.type = true) :
    ArgOK (91 :: (body ++ [93])) (Cell.arr (lastTy es 32) es.length :: es) := by
  obtain ⟨tail, htail, hsp⟩ := hb.toTail
  have hlen := hb.length_le
  have hsc : ∀ e ∈ es, e.isScalar = true := by
    intro e he
    clear hsp hty hb hlen
    induction htail with
    | nil => simp at he
    | cons t c sep cs text _ hc _ _ ih =>
      rcases List.mem_cons.mp he with rfl | h
      · exact hc
      · exact ih h
  have htxt : ∀ rest : Bytes, (91 :: (body ++ [93])) ++ rest = 91 :: (body ++ 93 :: rest) := by
    intro rest; simp
  refine ⟨?_, ArgCells.array _ es hsc, ?_, ?_⟩
  · refine ⟨by simp, ?_⟩
    simp only [hd_cons]
    decide
  · intro rest fuel prev ab hS
    have hloop := scanArrayElems_tail fuel htail rest ((91 :: (body ++ 93 :: rest)).length + 1)
      (Cell.arr 32 0 :: prev) 0 true [] 32 (by simp only [List.length_cons, List.length_append]; omega)
    rw [hsp] at hloop
    have hval : scanValue (scanArgVal (fuel + 1)) (91 :: (body ++ 93 :: rest)) prev =
        .ok ⟨rest, Cell.arr (lastTy es 32) es.length :: es, true⟩ := by
      rw [scanValue_bracket _ _ _ (by simp)]
      unfold scanArray
      simp only [List.drop_succ_cons, List.drop_zero, hloop, bind, Except.bind]
      simp only [advance, List.length_cons, Nat.le_add_left, ↓reduceIte, pure, Except.pure, List.nil_append,
        List.drop_succ_cons, List.drop_zero]
    unfold scanArgVal
    rw [htxt, hval]
    simp only [bind, Except.bind]
    rw [← htxt]
    exact finishArg_plain _ _ rest _ true prev ab true hS
  · intro rest fuel ty llhs ib hS
    have hT : ∀ e ∈ es, arraytypesMatch (if (0 : UInt8) = 0 then (es.headD (Cell.flag .N)).type else 0) e.type = true := by
      intro e he
      simp only [↓reduceIte, arraytypesMatch, hty e he, Bool.or_true]
    have hloop := skipArrayElems_tail fuel htail rest ((91 :: (body ++ 93 :: rest)).length + 1)
      none 0 1 (by simp only [List.length_cons, List.length_append]; omega) hT
    rw [hsp] at hloop
    have h3 := (sep_skipSpace_facts rest hS).2
    refine ⟨⟨some rest, 1 + es.length, 97⟩, ?_, rfl, ?_, rfl⟩
    · unfold skipNextPrintedArg
      rw [htxt, skipValue_bracket _ _ _ _ (by simp)]
      unfold skipArray
      simp only [List.drop_succ_cons, List.drop_zero, hloop, bind, Except.bind]
      simp [pure, Except.pure, h3]
    · simp only [List.length_cons]
      omega


/-! ### the printer -/

/-- `linebreak_check_after_write` after the token `t` has been appended behind at most one other
    character `mid` (the opening bracket): the separator in front of `mid` stays or becomes a line
    break -/
theorem linebreakCheck_mid (out mid t : Bytes) (cols : Int) (wrt : Nat) (lastSep : Int) (awl : Nat) (ll : Int)
    (hmid : mid.length ≤ 1)
    (hinv : awl = 0 ∨ ∃ base, out = base ++ [32] ∧ lastSep = (base.length : Int)) :
    ∃ pre cols' awl', linebreakCheck ⟨out ++ mid ++ t, cols⟩ wrt lastSep t.length awl ll =
        .ok (⟨pre ++ mid ++ t, cols'⟩, wrt + (pre.length - out.length), awl') ∧ 1 ≤ awl' ∧
      (pre = out ∨ ∃ base, out = base ++ [32] ∧ pre = base ++ nl4) := by
  unfold linebreakCheck
  by_cases hbr : cols > ll ∧ awl + 1 > 1
  · have hawl : awl ≠ 0 := by omega
    rcases hinv with h | ⟨base, hout, hls⟩
    · exact absurd h hawl
    · refine ⟨base ++ nl4, 4 + (t.length : Int), 1, ?_, by omega, Or.inr ⟨base, hout, rfl⟩⟩
      subst hout; subst hls
      have h1 : ¬ ((base.length : Int) < 0 ∨ (base.length : Int) ≥ ((base ++ [32] ++ mid ++ t).length : Int)) := by
        simp only [List.length_append, List.length_singleton]; omega
      simp only [hbr, and_self, ↓reduceIte, h1, Int.toNat_natCast]
      have h2 : (base ++ [32] ++ mid ++ t).drop (base.length + 1) = mid ++ t := by
        rw [show base.length + 1 = (base ++ [32]).length from by simp, List.append_assoc (base ++ [32])]
        exact List.drop_left
      have h3 : (base ++ [32] ++ mid ++ t).take base.length = base := by
        rw [List.append_assoc, List.append_assoc]; exact List.take_left
      rw [h2, h3]
      have : ¬ ((mid ++ t).length > t.length + 1) := by simp only [List.length_append]; omega
      rw [if_neg this]
      congr 2
      · simp [nl4]
      · congr 1
        simp only [nl4, List.length_append, List.length_cons, List.length_nil]
        omega
  · refine ⟨out, cols, awl + 1, ?_, by omega, Or.inl rfl⟩
    simp only [hbr, ↓reduceIte, Nat.sub_self, Nat.add_zero]

theorem initArgsWritten_spec (st : PSt) (h : st.cols = 0 ∨ ∃ base, st.out = base ++ [32]) :
    ∃ awl, initArgsWritten st = .ok awl ∧
      (awl = 0 ∨ ∃ base, st.out = base ++ [32] ∧ (st.out.length : Int) - 1 = (base.length : Int)) := by
  unfold initArgsWritten
  by_cases hc : st.cols = 0
  · exact ⟨0, by simp [hc], Or.inl rfl⟩
  · rcases h with h | ⟨base, hb⟩
    · exact absurd h hc
    · refine ⟨1, ?_, Or.inr ⟨base, hb, ?_⟩⟩
      · simp [hc, hb, show isspace 32 = true from by decide]
      · rw [hb]; simp

theorem breaksItself_arr (ety : UInt8) (len : Int) : breaksItself (Cell.arr ety len) = true := by
  rfl

/-- the element loop of the array printer behind the first element: the state ends with the
    separator blank behind the previous element, `lastSep` points to it -/
theorem printArrayElems_rest (opt : POpt) (fuel : Nat) (hdr : Cell) (es more : List Cell)
    (hes : ∀ e ∈ es, e.isScalar = true ∧ PrintsTok opt e)
    (hconv : ∀ i, i < es.length → convertToRange opt (es.drop i ++ more) (es.length - i) = .ok none) :
    ∀ (rem : List Cell) (k : Nat), es.drop k = rem →
      ∀ (lf : Nat) (P : Bytes) (cols : Int) (wrt : Nat) (awl : Nat), rem.length + 1 ≤ lf →
        ∃ (tail : Bytes) (cols' : Int),
          printArrayElems (printArgVal (fuel + 1) opt) opt (hdr :: (es ++ more)) es.length (k + 1)
            ⟨P ++ [32], cols⟩ wrt (P.length : Int) awl lf = .ok (⟨P ++ tail ++ [32], cols'⟩, wrt + tail.length) ∧
          ElemTail rem tail := by
  intro rem
  induction rem with
  | nil =>
    intro k hk lf P cols wrt awl _
    have hge : es.length ≤ k := List.drop_eq_nil_iff.mp hk
    refine ⟨[], cols, ?_, ElemTail.nil⟩
    unfold printArrayElems
    have : ¬ (k + 1 ≤ es.length) := by omega
    simp [this, pure, Except.pure]
  | cons c rem' ih =>
    intro k hk lf P cols wrt awl hlf
    obtain ⟨hlt, hdrop⟩ := drop_eq_cons_lt es k c rem' hk
    have hmem : c ∈ es := List.mem_of_mem_drop (by rw [hk]; simp)
    obtain ⟨hsc, hpt⟩ := hes c hmem
    cases lf with
    | zero => omega
    | succ lf' =>
      have hle : k + 1 ≤ es.length := hlt
      have hcur : (hdr :: (es ++ more)).drop (k + 1) = c :: (rem' ++ more) := by
        rw [List.drop_succ_cons, List.drop_append_of_le_length (Nat.le_of_lt hlt), hk]; rfl
      have hcv : convertToRange opt (c :: (rem' ++ more)) (es.length + 1 - (k + 1)) = .ok none := by
        have := hconv k hlt
        rw [hk] at this
        rw [show es.length + 1 - (k + 1) = es.length - k from by omega]
        exact this
      obtain ⟨x, xs, hdx⟩ : ∃ x xs, (hdr :: (es ++ more)).drop (k + 1 - 1) = x :: xs := by
        cases hd : (hdr :: (es ++ more)).drop (k + 1 - 1) with
        | nil =>
          have := List.drop_eq_nil_iff.mp hd
          simp only [List.length_cons, List.length_append] at this
          omega
        | cons x xs => exact ⟨x, xs, rfl⟩
      obtain ⟨t, cols1, hprint, htok⟩ := hpt fuel (rem' ++ more) (if k + 1 = 1 then none else some x) ⟨P ++ [32], cols⟩
      obtain ⟨pre1, cols2, awl2, h1, _, hpre1⟩ :=
        linebreakCheck_tok (P ++ [32]) t cols1 (wrt + t.length) (P.length : Int) awl opt.linelength
          (Or.inr ⟨P, rfl, rfl⟩)
      simp only [List.length_cons] at hlf
      obtain ⟨tail', cols', hrun, htail'⟩ :=
        ih (k + 1) hdrop lf' (pre1 ++ t) (cols2 + 1) (wrt + t.length + (pre1.length - (P ++ [32]).length) + 1) awl2
          (by omega)
      have hstep : printArrayElems (printArgVal (fuel + 1) opt) opt (hdr :: (es ++ more)) es.length (k + 1)
            ⟨P ++ [32], cols⟩ wrt (P.length : Int) awl (lf' + 1) =
          .ok (⟨pre1 ++ t ++ tail' ++ [32], cols'⟩,
            wrt + t.length + (pre1.length - (P ++ [32]).length) + 1 + tail'.length) := by
        rw [printArrayElems]
        by_cases hk1 : k + 1 = 1
        · have hk1' := eq_true hk1
          simp only [hk1', ↓reduceIte] at hprint
          simp only [hle, ↓reduceIte, hcur, hcv, bind, Except.bind, hk1', pure, Except.pure, hprint,
            nextArgOffset_scalar _ c (rem' ++ more) hsc, h1]
          exact hrun
        · simp only [hk1, ↓reduceIte] at hprint
          simp only [hle, ↓reduceIte, hcur, hcv, bind, Except.bind, hk1, hdx, deref, pure, Except.pure, hprint,
            nextArgOffset_scalar _ c (rem' ++ more) hsc, h1]
          exact hrun
      rw [hstep]
      rcases hpre1 with hp | ⟨base, hb1, hb2⟩
      · refine ⟨[32] ++ (t ++ tail'), cols', ?_, ElemTail.cons t c [32] rem' tail' htok hsc (Or.inl rfl) htail'⟩
        subst hp
        congr 2
        · simp
        · simp only [List.length_append, List.length_cons, List.length_nil]
          omega
      · have hbase : base = P := (List.append_inj_left' hb1 rfl).symm
        subst hbase
        refine ⟨nl4 ++ (t ++ tail'), cols', ?_, ElemTail.cons t c nl4 rem' tail' htok hsc (Or.inr rfl) htail'⟩
        subst hb2
        congr 2
        · simp
        · simp only [nl4, List.length_append, List.length_cons, List.length_nil]
          omega


/-- **an array of scalars** whose element tokens are good, of one type for the checker, tagged
    with the type the scanner reconstructs (that of its last element; 32 = ' ' if empty), and in
    which the printer makes no range. -/
theorem printsArg_array (opt : POpt) (ety : UInt8) (es : List Cell)
    (hes : ∀ e ∈ es, e.isScalar = true ∧ PrintsTok opt e)
    (hty : ∀ e ∈ es, typesMatch ((es.headD (Cell.flag .N)).type) e.type = true)
    (hety : ety = (match es.getLast? with | some e => e.type | none => 32))
    (hconv : ∀ more i, i < es.length → convertToRange opt (es.drop i ++ more) (es.length - i) = .ok none) :
    PrintsArg opt (Cell.arr ety es.length :: es) := by
  intro fuel more prev st hst
  obtain ⟨awl, hawl, hinv⟩ := initArgsWritten_spec st hst
  have hety' : ety = lastTy es 32 := hety
  subst hety'
  have hbr := breaksItself_arr (lastTy es 32) es.length
  cases es with
  | nil =>
    refine ⟨st.out, [91, 93], st.cols + 1 + 1 + 1, ?_, Or.inl rfl, ?_⟩
    · unfold printArgVal
      simp [deref, bind, Except.bind, pure, Except.pure, hawl]
    · have := argOK_arrayText ArrBody.nil (by simp)
      simpa using this
  | cons e es' =>
    obtain ⟨hsc, hpt⟩ := hes e (by simp)
    obtain ⟨t, cols1, hprint, htok⟩ := hpt fuel (es' ++ more) none ⟨st.out ++ [91], st.cols + 1⟩
    obtain ⟨pre, cols2, awl2, hlb, _, hpre⟩ :=
      linebreakCheck_mid st.out [91] t cols1 (1 + t.length) ((st.out.length : Int) - 1) awl opt.linelength
        (by simp) hinv
    obtain ⟨tail, cols', hrun, htail⟩ :=
      printArrayElems_rest opt fuel (Cell.arr (lastTy (e :: es') 32) (e :: es').length) (e :: es') more hes
        (hconv more) es' 1 rfl (es'.length + 1) (pre ++ [91] ++ t) (cols2 + 1)
        (1 + t.length + (pre.length - st.out.length) + 1) awl2 (Nat.le_refl _)
    have hc0 := hconv more 0 (by simp)
    simp only [List.drop_zero, Nat.sub_zero, List.cons_append, List.length_cons] at hc0
    simp only [List.cons_append] at hrun
    have hloop : printArrayElems (printArgVal (fuel + 1) opt) opt
        (Cell.arr (lastTy (e :: es') 32) (e :: es').length :: e :: (es' ++ more)) (es'.length + 1) 1
        ⟨st.out ++ [91], st.cols + 1⟩ 1 ((st.out.length : Int) - 1) awl (es'.length + 1 + 1) =
        .ok (⟨pre ++ [91] ++ t ++ tail ++ [32], cols'⟩,
          1 + t.length + (pre.length - st.out.length) + 1 + tail.length) := by
      rw [printArrayElems]
      simp only [Nat.le_add_left, ↓reduceIte, List.drop_succ_cons, List.drop_zero, Nat.add_sub_cancel, hc0,
        bind, Except.bind, pure, Except.pure, hprint, List.length_cons,
        nextArgOffset_scalar _ e (es' ++ more) hsc, hlb]
      exact hrun
    refine ⟨pre, 91 :: ((t ++ tail) ++ [93]), cols' + 1, ?_, ?_, ?_⟩
    · unfold printArgVal
      simp only [List.cons_append, deref, bind, Except.bind, ↓reduceIte, Int.toNat_natCast, hawl,
        List.length_cons, ne_eq, Nat.add_eq_zero_iff, Nat.succ_ne_self, and_false, not_false_eq_true,
        pure, Except.pure]
      simp only [List.length_cons] at hloop
      rw [hloop]
      have hneg' : ¬ ((es'.length : Int) + 1 < 0) := by omega
      simp only [List.length_cons, List.length_append, List.length_nil, Int.natCast_add,
        Int.cast_ofNat_Int, hneg', ↓reduceIte, List.append_assoc, List.cons_append, List.nil_append]
      have hdl : (pre ++ 91 :: (t ++ (tail ++ [32]))).dropLast = pre ++ 91 :: (t ++ tail) := by
        have : pre ++ 91 :: (t ++ (tail ++ [32])) = (pre ++ 91 :: (t ++ tail)) ++ [32] := by simp
        rw [this, List.dropLast_concat]
      rw [hdl]
      congr 2
      · simp
      · omega
    · rcases hpre with h | h
      · exact Or.inl h
      · exact Or.inr ⟨hbr, h⟩
    · exact argOK_arrayText (ArrBody.cons t e es' tail htok hsc htail) hty


/-! ### when the printer makes no range inside an array -/

theorem incsize_cons_append (c : Cell) (r more : List Cell) : incsize ((c :: r) ++ more) = incsize (c :: r) := by
  unfold incsize
  simp [deref]

/-- the type-counting loop does not look behind the first `size` cells -/
theorem countCommon_append (ty : UInt8) (l more : List Cell) (size : Nat) (hsize : size ≤ l.length) :
    ∀ (fuel i n : Nat), countCommon fuel ty (l ++ more) size i n = countCommon fuel ty l size i n := by
  intro fuel
  induction fuel with
  | zero => intro i n; simp [countCommon]
  | succ f ih =>
    intro i n
    rw [countCommon, countCommon]
    by_cases hlt : i < size
    · simp only [hlt, ↓reduceIte]
      obtain ⟨c, r, hd⟩ : ∃ c r, l.drop i = c :: r := by
        cases hd : l.drop i with
        | nil => have := List.drop_eq_nil_iff.mp hd; omega
        | cons c r => exact ⟨c, r, rfl⟩
      rw [List.drop_append_of_le_length (by omega), hd, incsize_cons_append]
      simp only [List.cons_append, deref, bind, Except.bind, ih]
    · simp only [hlt, ↓reduceIte]

/-- `convertToRange_shortRun` with further cells behind the inspected ones -/
theorem convertToRange_shortRun_append (opt : POpt) (c : Cell) (l' more : List Cell) (size : Nat)
    (hsize : size = (c :: l').length)
    (hsc : ∀ x ∈ c :: l', x.isScalar = true) (h : shortRun (c :: l') = true) :
    convertToRange opt ((c :: l') ++ more) size = .ok none := by
  unfold convertToRange
  by_cases hs : size < rangeMin
  · simp [hs, pure, Except.pure]
  · simp only [hs, ↓reduceIte, List.cons_append, deref, bind, Except.bind]
    by_cases hcr : c.type = ArgVal.tyRange ∨ (!opt.compress) = true
    · rcases hcr with hcr | hcr <;> simp [hcr, pure, Except.pure]
    · simp only [hcr, ↓reduceIte]
      simp only [shortRun, Bool.or_eq_true, decide_eq_true_eq, List.any_eq_true] at h
      have hlen : ¬ ((c :: l').length < 5) := by rw [← hsize]; exact hs
      rcases h with h | ⟨x, hx, hxt⟩
      · exact absurd h hlen
      · obtain ⟨j, hj, hjx⟩ := List.getElem_of_mem hx
        have hj5 : j < 5 := by
          have := hj; simp only [List.length_take] at this; omega
        have hjl : j < (c :: l').length := by
          have := hj; simp only [List.length_take] at this; omega
        have hget : (c :: l').getD j (.flag .N) = x := by
          rw [List.getElem_take] at hjx
          simp [List.getD, List.getElem?_eq_getElem hjl, hjx]
        have hxt' : ((c :: l').getD j (.flag .N)).type ≠ c.type := by
          rw [hget]; simpa using hxt
        obtain ⟨m, hcc⟩ := countCommon_ok c.type (c :: l') hsc size (by omega) (size + 1) 0 0 (by omega)
        have := countCommon_le c.type (c :: l') hsc size j hjl (by omega) hxt' _ 0 0 (Nat.zero_le _) m hcc
        have hm : m < rangeMin := by unfold rangeMin; omega
        have hcc' : countCommon (size + 1) c.type (c :: (l' ++ more)) size 0 0 = .ok m := by
          rw [← List.cons_append, countCommon_append _ _ _ _ (by omega)]; exact hcc
        simp [hcc', hm, pure, Except.pure]

/-- compression switched off, or no five same-typed elements in a row: no range is made inside
    the array (the hypothesis `hconv` of `printsArg_array`) -/
theorem noConversion_array (opt : POpt) (es : List Cell) (hsc : ∀ c ∈ es, c.isScalar = true)
    (h : opt.compress = false ∨ NoLongRun es) :
    ∀ more i, i < es.length → convertToRange opt (es.drop i ++ more) (es.length - i) = .ok none := by
  intro more i hi
  obtain ⟨c, r, hd⟩ : ∃ c r, es.drop i = c :: r := by
    cases hd : es.drop i with
    | nil => have := List.drop_eq_nil_iff.mp hd; omega
    | cons c r => exact ⟨c, r, rfl⟩
  have hl : es.length - i = (c :: r).length := by rw [← hd, List.length_drop]
  rw [hd, hl]
  rcases h with h | h
  · exact convertToRange_nocompress opt h c _ _
  · apply convertToRange_shortRun_append opt c r more _ rfl
    · intro x hx; exact hsc x (List.mem_of_mem_drop (by rw [hd]; exact hx))
    · rw [← hd]; exact h i hi

/-! ### lists of scalars and arrays -/

/-- an argument the round-trip theorems cover: a scalar with a good token, or an array of such
    scalars, of one type (true/false count as one), tagged with the type of its last element,
    without compressible runs -/
inductive GoodArg (opt : POpt) : List Cell → Prop
  | scalar (c : Cell) : c.isScalar = true → PrintsTok opt c → GoodArg opt [c]
  | array (es : List Cell) :
      (∀ e ∈ es, e.isScalar = true ∧ PrintsTok opt e) →
      (∀ e ∈ es, typesMatch ((es.headD (Cell.flag .N)).type) e.type = true) →
      (opt.compress = false ∨ NoLongRun es) →
      GoodArg opt (Cell.arr (lastTy es 32) es.length :: es)

theorem GoodArg.prints {opt : POpt} {cs : List Cell} (h : GoodArg opt cs) : PrintsArg opt cs := by
  cases h with
  | scalar c hsc hp => exact printsArg_of_printsTok hp hsc
  | array es hes hty hc =>
    exact printsArg_array opt _ es hes hty rfl (noConversion_array opt es (fun e he => (hes e he).1) hc)

/-- **Tier 3 (partial), lists of scalars and arrays of scalars.** -/
theorem list_roundtrip_goodArgs (opt : POpt) (argss : List (List Cell))
    (hP : ∀ cs ∈ argss, GoodArg opt cs)
    (hconv : ∀ done cs rem, argss = done ++ cs :: rem →
      convertToRange opt (cs :: rem).flatten (cs :: rem).flatten.length = .ok none) :
    ∃ (st : PSt) (ret : Nat),
      printArgVals opt argss.flatten ⟨[], 0⟩ = .ok (st, ret) ∧ ret = st.out.length ∧
      countPrintedArgVals st.out = .ok (argss.flatten.length : Int) ∧
      scanArgVals st.out argss.flatten.length = .ok (st.out.length, argss.flatten) :=
  list_roundtrip_args opt argss (fun cs h => (hP cs h).prints) hconv

/-- **Tier 3 (partial), messages with scalars and arrays of scalars.** -/
theorem message_roundtrip_goodArgs (opt : POpt) (addr : Bytes) (argss : List (List Cell)) (adrsize : Nat)
    (ha : AddrOK addr) (hal : addr.length < adrsize)
    (hP : ∀ cs ∈ argss, GoodArg opt cs)
    (hconv : ∀ done cs rem, argss = done ++ cs :: rem →
      convertToRange opt (cs :: rem).flatten (cs :: rem).flatten.length = .ok none) :
    ∃ (st : PSt) (ret : Nat),
      printMessage opt addr argss.flatten 0 = .ok (st, ret) ∧ ret = st.out.length ∧
      countPrintedArgValsOfMsg st.out = .ok (argss.flatten.length : Int) ∧
      scanMessage st.out adrsize argss.flatten.length = .ok (st.out.length, addr, argss.flatten) :=
  message_roundtrip_args opt addr argss adrsize ha hal (fun cs h => (hP cs h).prints) hconv

/-- a single array round-trips on its own -/
theorem array_roundtrip (opt : POpt) (es : List Cell)
    (hes : ∀ e ∈ es, e.isScalar = true ∧ PrintsTok opt e)
    (hty : ∀ e ∈ es, typesMatch ((es.headD (Cell.flag .N)).type) e.type = true)
    (hc : opt.compress = false ∨ NoLongRun es)
    (hconv : convertToRange opt (Cell.arr (lastTy es 32) es.length :: es) (es.length + 1) = .ok none) :
    ∃ (st : PSt) (ret : Nat),
      printArgVals opt (Cell.arr (lastTy es 32) es.length :: es) ⟨[], 0⟩ = .ok (st, ret) ∧ ret = st.out.length ∧
      countPrintedArgVals st.out = .ok ((es.length : Int) + 1) ∧
      scanArgVals st.out (es.length + 1) = .ok (st.out.length, Cell.arr (lastTy es 32) es.length :: es) := by
  have := list_roundtrip_goodArgs opt [Cell.arr (lastTy es 32) es.length :: es]
    (by intro cs h; simp only [List.mem_singleton] at h; subst h; exact GoodArg.array es hes hty hc)
    (by
      intro done cs rem heq
      have : done = [] ∧ cs = Cell.arr (lastTy es 32) es.length :: es ∧ rem = [] := by
        cases done with
        | nil => simp at heq; exact ⟨rfl, heq.1.symm, heq.2⟩
        | cons d ds => simp at heq
      obtain ⟨_, rfl, rfl⟩ := this
      simpa using hconv)
  simpa using this

end Rtosc.Pretty
