/-
  C18 — `TreeNumOK` (the hypothesis of the lookup clause for enumerated rows,
  RtoscModel/Path/EnumNum.lean) from a syntactic, decidable condition on the names
  (`CanonList` / `canonListB`).
-/
import RtoscModel.Proofs.PathEnumExt
namespace Rtosc.Path
open Rtosc

/-! ### printing and reading numbers -/

theorem decimalF_fuel : ∀ (f g k : Nat), k < f → k < g → decimalF f k = decimalF g k
  | 0, _, _, h, _ => by omega
  | _, 0, _, _, h => by omega
  | f + 1, g + 1, k, h1, h2 => by
    rw [decimalF, decimalF]
    by_cases hk : k < 10
    · simp [hk]
    · simp only [hk, ↓reduceIte]
      rw [decimalF_fuel f g (k / 10) (by omega) (by omega)]

theorem decimal_step (n : Nat) (h : 10 ≤ n) :
    decimal n = decimal (n / 10) ++ [UInt8.ofNat (48 + n % 10)] := by
  unfold decimal
  rw [decimalF, if_neg (by omega), decimalF_fuel n (n / 10 + 1) (n / 10) (by omega) (by omega)]

theorem decimal_small (n : Nat) (h : n < 10) : decimal n = [UInt8.ofNat (48 + n)] := by
  unfold decimal
  rw [decimalF, if_pos h]

theorem digit_ofNat {c : UInt8} (h : isDigit c = true) : UInt8.ofNat (48 + (c.toNat - 48)) = c ∧ c.toNat - 48 < 10 := by
  simp only [isDigit, decide_eq_true_eq, UInt8.le_iff_toNat_le] at h
  have h1 : 48 + (c.toNat - 48) = c.toNat := by
    have := h.1; simp at this; omega
  refine ⟨by rw [h1]; exact UInt8.ofNat_toNat, ?_⟩
  have := h.2; simp at this; omega

theorem atoiAux_ge : ∀ (l : Bytes) (acc : Nat), acc ≤ atoiAux acc l
  | [], acc => Nat.le_refl _
  | c :: r, acc => by
    rw [atoiAux]
    split
    · exact Nat.le_trans (by omega) (atoiAux_ge r _)
    · exact Nat.le_refl _

theorem atoiAux_append_digits : ∀ (r s : Bytes) (acc : Nat), (∀ c ∈ r, isDigit c = true) →
    atoiAux acc (r ++ s) = atoiAux (atoiAux acc r) s
  | [], s, acc, _ => rfl
  | c :: r, s, acc, h => by
    have hc := h c List.mem_cons_self
    simp only [List.cons_append, atoiAux, hc, ↓reduceIte]
    exact atoiAux_append_digits r s _ (fun x hx => h x (List.mem_cons_of_mem _ hx))

/-- a prefix of a digit string has a value that is not larger -/
theorem atoi_prefix_le {r D : Bytes} (h : r <+: D) (hr : ∀ c ∈ r, isDigit c = true) : atoi r ≤ atoi D := by
  obtain ⟨s, rfl⟩ := h
  unfold atoi
  rw [atoiAux_append_digits r s 0 hr]
  exact atoiAux_ge s _

theorem atoi_nondigit {r : Bytes} (h : isDigit (hd r) = false) : atoi r = 0 := by
  cases r with
  | nil => rfl
  | cons c t => simp only [hd_cons] at h; simp [atoi, atoiAux, h]

theorem atoi_takeWhile (r : Bytes) : atoi (r.takeWhile isDigit) = atoi r := by
  conv => rhs; rw [← List.takeWhile_append_dropWhile (p := isDigit) (l := r)]
  exact (atoi_append _ _ (fun c hc => mem_takeWhile_sat _ _ c hc) (isDigit_hd_dropWhile r)).symm

/-- a printed number begins with `0` only if it is `0` -/
theorem decimal_hd_zero : ∀ (n : Nat), hd (decimal n) = 48 → n = 0 := by
  intro n
  induction n using Nat.strongRecOn with
  | _ n ih =>
    intro h
    by_cases hn : n < 10
    · rw [decimal_small n hn] at h
      simp only [hd_cons] at h
      have : n = 0 ∨ n = 1 ∨ n = 2 ∨ n = 3 ∨ n = 4 ∨ n = 5 ∨ n = 6 ∨ n = 7 ∨ n = 8 ∨ n = 9 := by omega
      rcases this with rfl | rfl | rfl | rfl | rfl | rfl | rfl | rfl | rfl | rfl <;> first | rfl | (exfalso; revert h; decide)
    · exfalso
      rw [decimal_step n (by omega)] at h
      have hne := (decimal_digits (n / 10)).1
      have h' : hd (decimal (n / 10)) = 48 := by
        cases hd' : decimal (n / 10) with
        | nil => exact absurd hd' hne
        | cons c t => rw [hd'] at h; simpa using h
      have := ih (n / 10) (by omega) h'
      omega

/-- a digit string that does not begin with `0` is the print of its value -/
theorem canon_of_hd_len : ∀ (n : Nat) (D : Bytes), D.length = n → Digits D → hd D ≠ 48 → Canon D ∧ 0 < atoi D := by
  intro n
  induction n with
  | zero => intro D hl h; exact absurd (List.length_eq_zero_iff.mp hl) h.1
  | succ n ih =>
    intro D hl hD hh
    obtain ⟨D', c, rfl⟩ : ∃ D' c, D = D' ++ [c] :=
      ⟨D.dropLast, D.getLast hD.1, (List.dropLast_concat_getLast hD.1).symm⟩
    have hl' : D'.length = n := by simpa using hl
    have hc : isDigit c = true := hD.2 c (by simp)
    have hD' : ∀ x ∈ D', isDigit x = true := fun x hx => hD.2 x (by simp [hx])
    obtain ⟨hc1, hc2⟩ := digit_ofNat hc
    have hval : atoi (D' ++ [c]) = atoi D' * 10 + (c.toNat - 48) := atoiAux_snoc D' c 0 hD' hc
    by_cases hn : D' = []
    · subst hn
      simp only [List.nil_append, hd_cons] at hh
      simp only [List.nil_append] at hval ⊢
      have h0 : atoi ([] : Bytes) = 0 := rfl
      rw [h0] at hval
      unfold Canon
      constructor
      · rw [hval, Nat.zero_mul, Nat.zero_add, decimal_small _ hc2, hc1]
      · rw [hval]
        rcases Nat.eq_zero_or_pos (c.toNat - 48) with h | h
        · exfalso; rw [h] at hc1; exact hh hc1.symm
        · omega
    · have hh' : hd D' ≠ 48 := by
        cases D' with
        | nil => exact absurd rfl hn
        | cons x _ => simpa using hh
      obtain ⟨ihc, ihp⟩ := ih D' hl' ⟨hn, hD'⟩ hh'
      unfold Canon at ihc ⊢
      constructor
      · rw [hval, decimal_step _ (by omega)]
        have e1 : (atoi D' * 10 + (c.toNat - 48)) / 10 = atoi D' := by omega
        have e2 : (atoi D' * 10 + (c.toNat - 48)) % 10 = c.toNat - 48 := by omega
        rw [e1, e2, ← ihc, hc1]
      · omega

theorem canon_of_hd (D : Bytes) (hD : Digits D) (hh : hd D ≠ 48) : Canon D ∧ 0 < atoi D :=
  canon_of_hd_len D.length D rfl hD hh

theorem canon_iff {S : Bytes} (hS : Digits S) : Canon S ↔ (S = [48] ∨ hd S ≠ 48) := by
  constructor
  · intro h
    by_cases h0 : hd S = 48
    · left
      unfold Canon at h
      rw [h] at h0
      have := decimal_hd_zero _ h0
      rw [h, this]; decide
    · exact Or.inr h0
  · rintro (rfl | h)
    · unfold Canon; decide
    · exact (canon_of_hd S hS h).1

/-- a non-empty prefix of a printed number is a printed number -/
theorem canon_prefix {D S : Bytes} (hS : Digits S) (hc : Canon S) (hD : D ≠ []) (h : D <+: S) : Canon D := by
  have hDd : Digits D := ⟨hD, fun c hc' => hS.2 c (h.subset hc')⟩
  rw [canon_iff hDd]
  rcases (canon_iff hS).mp hc with rfl | h0
  · left
    cases D with
    | nil => exact absurd rfl hD
    | cons x t =>
      obtain ⟨rfl, ht⟩ := List.cons_prefix_cons.mp h
      simp at ht; rw [ht]
  · right
    cases D with
    | nil => exact absurd rfl hD
    | cons x t =>
      obtain ⟨u, rfl⟩ := h
      simpa using h0


/-! ### a syntactic condition that gives `TableNumOK` -/

theorem takeWhile_append_nondigit : ∀ (a z : Bytes), (∃ c ∈ a, isDigit c = false) →
    (a ++ z).takeWhile isDigit = a.takeWhile isDigit
  | [], _, h => by simp at h
  | c :: a, z, h => by
    simp only [List.cons_append, List.takeWhile_cons]
    by_cases hc : isDigit c = true
    · simp only [hc, ↓reduceIte]
      rw [takeWhile_append_nondigit a z]
      obtain ⟨y, hy, hy2⟩ := h
      simp only [List.mem_cons] at hy
      rcases hy with rfl | hy
      · rw [hc] at hy2; cases hy2
      · exact ⟨y, hy, hy2⟩
    · simp [hc]

theorem takeWhile_digits_run : ∀ (d rest : Bytes), (∀ c ∈ d, isDigit c = true) → isDigit (hd rest) = false →
    (d ++ rest).takeWhile isDigit = d
  | [], rest, _, hr => by
    cases rest with
    | nil => rfl
    | cons c r => simp only [hd_cons] at hr; simp [hr]
  | c :: d, rest, hd', hr => by
    have hc : isDigit c = true := hd' c List.mem_cons_self
    simp only [List.cons_append, List.takeWhile_cons, hc, ↓reduceIte]
    rw [takeWhile_digits_run d rest (fun x hx => hd' x (List.mem_cons_of_mem _ hx)) hr]

/-- the expanded names of a canonical name have canonical digit runs -/
theorem goodRuns_expand {n e : Bytes} (hn : EnumName n) (hc : CanonName (lit n)) (he : e ∈ expandName (lit n)) :
    GoodRuns e := by
  rcases mem_expandName he with ⟨hs, rfl⟩ | ⟨pre, d, post, k, hs, hk, rfl⟩
  · unfold CanonName at hc; rw [hs] at hc; exact hc
  · unfold CanonName at hc; rw [hs] at hc
    obtain ⟨gpre, gpost, hlast⟩ := hc
    obtain ⟨_, _, _, _, hd', hmax, hpd, _⟩ := enum_row hn hs
    obtain ⟨hk1, hk2⟩ := decimal_digits k
    have hpostd : isDigit (hd post) = false := hpd
    have hboundary : Canon ((decimal k ++ post).takeWhile isDigit) ∧
        atoi ((decimal k ++ post).takeWhile isDigit) < 2147483648 := by
      rw [takeWhile_digits_run (decimal k) post hk2 hpostd]
      unfold Canon
      rw [atoi_decimal]
      exact ⟨rfl, by omega⟩
    intro x y hxy hx hy
    rcases List.append_eq_append_iff.mp hxy with ⟨as, h1, h2⟩ | ⟨bs, h1, h2⟩
    · by_cases has : as = []
      · subst has
        simp only [List.nil_append] at h2
        rw [← h2]; exact hboundary
      · rcases List.append_eq_append_iff.mp h2 with ⟨cs, h3, h4⟩ | ⟨ds, h3, h4⟩
        · -- as = decimal k ++ cs, post = cs ++ y
          by_cases hcs : cs = []
          · subst hcs
            simp only [List.nil_append] at h4
            rw [← h4, hpostd] at hy; cases hy
          · refine gpost cs y h4 ?_ hy
            intro c hc
            apply hx c
            rw [h1, h3, ← List.append_assoc, getLast?_append_ne _ _ hcs]; exact hc
        · -- decimal k = as ++ ds: the split lies inside the index
          exfalso
          obtain ⟨c, hc⟩ : ∃ c, as.getLast? = some c := by
            cases h : as.getLast? with
            | none => exact absurd (List.getLast?_eq_none_iff.mp h) has
            | some c => exact ⟨c, rfl⟩
          have hcd : isDigit c = true := hk2 c (by rw [h3]; exact List.mem_append_left _ (List.mem_of_getLast? hc))
          have := hx c (by rw [h1, getLast?_append_ne _ _ has]; exact hc)
          rw [hcd] at this; cases this
    · by_cases hbs : bs = []
      · subst hbs
        simp only [List.nil_append] at h2
        rw [h2]; exact hboundary
      · have hbl : ∃ c ∈ bs, isDigit c = false := by
          obtain ⟨c, hc⟩ : ∃ c, bs.getLast? = some c := by
            cases h : bs.getLast? with
            | none => exact absurd (List.getLast?_eq_none_iff.mp h) hbs
            | some c => exact ⟨c, rfl⟩
          exact ⟨c, List.mem_of_getLast? hc, hlast c (by rw [h1, getLast?_append_ne _ _ hbs]; exact hc)⟩
        have hyb : isDigit (hd bs) = true := by
          cases bs with
          | nil => exact absurd rfl hbs
          | cons b _ => rw [h2] at hy; simpa using hy
        have := gpre x bs h1 hx hyb
        rw [h2, takeWhile_append_nondigit bs _ hbl]
        exact this

theorem takeWhile_digits_append : ∀ (D z : Bytes), (∀ c ∈ D, isDigit c = true) →
    (D ++ z).takeWhile isDigit = D ++ z.takeWhile isDigit
  | [], _, _ => rfl
  | c :: D, z, h => by
    have hc := h c List.mem_cons_self
    simp only [List.cons_append, List.takeWhile_cons, hc, ↓reduceIte]
    rw [takeWhile_digits_append D z (fun x hx => h x (List.mem_cons_of_mem _ hx))]

theorem takeWhile_all_digits : ∀ (r : Bytes), (∀ c ∈ r, isDigit c = true) → r.takeWhile isDigit = r
  | [], _ => rfl
  | c :: r, h => by
    have hc := h c List.mem_cons_self
    simp only [List.takeWhile_cons, hc, ↓reduceIte]
    rw [takeWhile_all_digits r (fun x hx => h x (List.mem_cons_of_mem _ hx))]

/-- **a syntactic sufficient condition for `TableNumOK`**: if, besides `TableOKE`, every
    enumerated row has `N ≥ 1` and every name is canonical (its literal digit runs are numbers
    below 2^31 printed without leading zeros, and its `#` does not follow a digit), then the
    leading-zero readings of `rtosc_match_number` cannot hit a sibling's expanded name. -/
theorem tableNumOK_of_canon {ps : List PortT} (hE : TableOKE ps)
    (hc : ∀ q ∈ ps, EnumPos (lit q.name) ∧ CanonName (lit q.name)) : TableNumOK ps := by
  refine ⟨fun q hq => (hc q hq).1, ?_⟩
  intro i j p q hp hq hij a ha
  have hpm : p ∈ ps := List.mem_of_getElem? hp
  have hqm : q ∈ ps := List.mem_of_getElem? hq
  have ga : GoodRuns a := goodRuns_expand (hE.1 p hpm).1 (hc p hpm).2 ha
  have hab : ∀ b' ∈ expandName (lit q.name), ¬ a <+: b' ∧ ¬ b' <+: a := fun b' hb' =>
    ⟨hE.2 i j p q hp hq hij a ha b' hb', hE.2 j i q p hq hp (Ne.symm hij) b' hb' a ha⟩
  obtain ⟨hposq, hcq⟩ := hc q hqm
  cases hs : splitHash (lit q.name) with
  | none =>
    constructor
    · unfold IndexFits; rw [hs]; trivial
    · intro b hb
      unfold AcceptsName at hb; rw [hs] at hb; subst hb
      exact hab _ (by unfold expandName; rw [hs]; exact List.mem_singleton.mpr rfl)
  | some t =>
    obtain ⟨pre, d, post⟩ := t
    obtain ⟨_, _, _, _, hd', hmax, hpd, _⟩ := enum_row (hE.1 q hqm).1 hs
    unfold CanonName at hcq; rw [hs] at hcq
    obtain ⟨_, _, hlastq⟩ := hcq
    unfold EnumPos at hposq; rw [hs] at hposq
    simp only at hposq
    have hmem : ∀ m, m < atoi d → pre ++ (decimal m ++ post) ∈ expandName (lit q.name) := by
      intro m hm
      unfold expandName; rw [hs]
      simp only [List.mem_map, List.mem_range]
      exact ⟨m, hm, by simp⟩
    have hnotpre : ¬ a <+: pre := fun h => (hab _ (hmem 0 hposq)).1 (h.trans (List.prefix_append _ _))
    have hrun : ∀ r, a = pre ++ r → isDigit (hd r) = true →
        Canon (r.takeWhile isDigit) ∧ atoi (r.takeWhile isDigit) < 2147483648 :=
      fun r hr hdg => ga pre r hr hlastq hdg
    constructor
    · unfold IndexFits; rw [hs]
      intro r hr
      by_cases hdg : isDigit (hd r) = true
      · have := (hrun r hr hdg).2; rwa [atoi_takeWhile] at this
      · rw [atoi_nondigit (by simpa using hdg)]; omega
    · intro b hb
      unfold AcceptsName at hb; rw [hs] at hb
      obtain ⟨D, hD, hlt, rfl⟩ := hb
      have hhdD : ∀ z : Bytes, isDigit (hd (D ++ z)) = true := fun z => hd_digits_append hD z
      have key : Canon D → ¬ a <+: pre ++ (D ++ post) ∧ ¬ pre ++ (D ++ post) <+: a := by
        intro h
        have := hab _ (hmem (atoi D) hlt)
        unfold Canon at h; rw [← h] at this; exact this
      constructor
      · intro hab1
        rcases List.prefix_or_prefix_of_prefix hab1 (List.prefix_append pre _) with h | ⟨r, hr⟩
        · exact hnotpre h
        · have hr' : r <+: D ++ post := by
            rw [← hr] at hab1; exact (List.prefix_append_right_inj pre).mp hab1
          have caseA : r <+: D → False := by
            intro h
            by_cases hrn : r = []
            · subst hrn; rw [List.append_nil] at hr; exact hnotpre (hr ▸ List.prefix_refl _)
            · have hrd : ∀ c ∈ r, isDigit c = true := fun c hc => hD.2 c (h.subset hc)
              have hhd : isDigit (hd r) = true := by
                cases r with
                | nil => exact absurd rfl hrn
                | cons c _ => exact hrd c List.mem_cons_self
              obtain ⟨hcr, _⟩ := hrun r hr.symm hhd
              rw [takeWhile_all_digits r hrd] at hcr
              have hle := atoi_prefix_le h hrd
              have hm := hmem (atoi r) (by omega)
              unfold Canon at hcr; rw [← hcr] at hm
              exact (hab _ hm).1 (by rw [← hr]; exact ⟨post, by simp⟩)
          rcases List.prefix_or_prefix_of_prefix hr' (List.prefix_append D post) with h | ⟨r', hr2⟩
          · exact caseA h
          · by_cases hr'n : r' = []
            · subst hr'n; rw [List.append_nil] at hr2; exact caseA (hr2 ▸ List.prefix_refl _)
            · have hr'p : r' <+: post := by
                rw [← hr2] at hr'; exact (List.prefix_append_right_inj D).mp hr'
              have hnd : isDigit (hd r') = false := by
                cases r' with
                | nil => exact absurd rfl hr'n
                | cons c _ =>
                  cases post with
                  | nil => simp at hr'p
                  | cons e _ =>
                    obtain ⟨rfl, _⟩ := List.cons_prefix_cons.mp hr'p
                    simpa using hpd
              have h1 := (hrun r hr.symm (by rw [← hr2]; exact hhdD r')).1
              rw [← hr2, takeWhile_digits_run D r' hD.2 hnd] at h1
              exact (key h1).1 hab1
      · intro hba
        obtain ⟨x, hx⟩ := hba
        have hr : a = pre ++ (D ++ (post ++ x)) := by rw [← hx]; simp
        have h1 := (hrun _ hr (hhdD _)).1
        rw [takeWhile_digits_append D _ hD.2] at h1
        have hS : Digits (D ++ (post ++ x).takeWhile isDigit) :=
          ⟨by simp [hD.1], fun c hc => by
            rcases List.mem_append.mp hc with h | h
            · exact hD.2 c h
            · exact mem_takeWhile_sat _ _ c h⟩
        have hcD := canon_prefix hS h1 hD.1 (List.prefix_append _ _)
        exact (key hcD).2 ⟨x, hx⟩

theorem canonList_mem : ∀ (ps : List PortT), CanonList ps → ∀ q ∈ ps, EnumPos (lit q.name) ∧ CanonName (lit q.name)
  | [], _, q, hq => by simp at hq
  | .mk n m h cs :: r, hc, q, hq => by
    rw [CanonList, CanonPort] at hc
    simp only [List.mem_cons] at hq
    rcases hq with rfl | hq
    · exact hc.1.1
    · exact canonList_mem r hc.2 q hq

mutual
theorem subTablesNumOK_of_canon : ∀ (ps : List PortT), SubTablesOKE ps → CanonList ps → SubTablesNumOK ps
  | [], _, _ => trivial
  | p :: r, hE, hc => by
    rw [SubTablesOKE] at hE
    rw [CanonList] at hc
    exact ⟨portNumOK_of_canon p hE.1 hc.1, subTablesNumOK_of_canon r hE.2 hc.2⟩
theorem portNumOK_of_canon : ∀ (p : PortT), PortOKE p → CanonPort p → PortNumOK p
  | .mk n m h cs, hE, hc => by
    rw [PortOKE] at hE
    rw [CanonPort] at hc
    exact ⟨tableNumOK_of_canon hE.1 (canonList_mem cs hc.2), subTablesNumOK_of_canon cs hE.2 hc.2⟩
end

/-- the syntactic condition for whole trees -/
theorem treeNumOK_of_canon (ps : List PortT) (hE : TreeOKE ps) (hc : CanonList ps) : TreeNumOK ps :=
  ⟨tableNumOK_of_canon hE.1 (canonList_mem ps hc), subTablesNumOK_of_canon ps hE.2 hc⟩


/-! ### the syntactic condition is decidable -/

theorem noDigitLast_iff (x : Bytes) : noDigitLast x = true ↔ ∀ c, x.getLast? = some c → isDigit c = false := by
  unfold noDigitLast
  cases x.getLast? with
  | none => simp
  | some c => simp

theorem goodRuns_of_B {s : Bytes} (h : goodRunsB s = true) : GoodRuns s := by
  intro x y hxy hx hy
  have hk := List.all_eq_true.mp h x.length (by rw [List.mem_range, hxy]; simp; omega)
  have e1 : s.take x.length = x := by rw [hxy]; simp
  have e2 : s.drop x.length = y := by rw [hxy]; simp
  rw [e1, e2, (noDigitLast_iff x).mpr hx, hy] at hk
  simpa [Canon] using hk

theorem canonName_of_B {l : Bytes} (h : canonNameB l = true) : CanonName l := by
  unfold canonNameB at h
  unfold CanonName
  cases hs : splitHash l with
  | none => rw [hs] at h; exact goodRuns_of_B h
  | some t =>
    obtain ⟨pre, d, post⟩ := t
    rw [hs] at h
    simp only [Bool.and_eq_true] at h
    exact ⟨goodRuns_of_B h.1.1, goodRuns_of_B h.1.2, (noDigitLast_iff pre).mp h.2⟩

mutual
theorem canonList_of_B : ∀ (ps : List PortT), canonListB ps = true → CanonList ps
  | [], _ => trivial
  | p :: r, h => by
    simp only [canonListB, Bool.and_eq_true] at h
    exact ⟨canonPort_of_B p h.1, canonList_of_B r h.2⟩
theorem canonPort_of_B : ∀ (p : PortT), canonPortB p = true → CanonPort p
  | .mk n m hp cs, h => by
    simp only [canonPortB, Bool.and_eq_true, decide_eq_true_eq] at h
    exact ⟨⟨h.1.1, canonName_of_B h.1.2⟩, canonList_of_B cs h.2⟩
end


end Rtosc.Path
