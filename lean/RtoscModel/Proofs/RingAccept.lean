/-
  C06 — which writes are accepted under concurrency (review A2): the writer's load of the read
  index decides, and it decides by the true number of queued bytes at that moment.
-/
import RtoscModel.Proofs.RingConc
namespace Rtosc.Ring
open Rtosc

/-- bytes of the messages that are published and not yet returned by a consuming read
    (what the bounded FIFO calls `used`) -/
def Conc.queuedBytes (s : Conc) : Nat :=
  s.published.flatten.length - (s.published.take s.returned.length).flatten.length

theorem queuedBytes_eq (s : Conc) :
    s.queuedBytes = (pubOf s.wlog).flatten.length - offs (pubOf s.wlog) (retOf s.rlog).length := rfl

theorem inv_accept {frame : Bytes → Nat} {IsMsg : Bytes → Prop} (fr : Framing frame IsMsg)
    {s : Conc} (inv : Inv frame IsMsg s) {op : WOp} {rest : List WOp}
    (hpc : s.wpc = .idle) (hop : s.wops = op :: rest) :
    ∃ s', s.step frame .writer = some (s', .loadR s.r) ∧
      (if op.msg.length ≤ s.maxMsg ∧ s.queuedBytes + op.msg.length ≤ s.N - 1
       then s'.wpc = .copying op.msg op.msg 0 ∧ s'.wlog = s.wlog
       else s'.wpc.inflight = [] ∧ s'.published = s.published) ∧
      s'.buf = s.buf ∧ s'.w = s.w := by
  unfold Inv at inv
  rw [hpc, hop] at inv
  have hmsg : IsMsg op.msg := inv.hops op List.mem_cons_self
  have hws := inv.writeSize
  have hoff := offs_le_total (pubOf s.wlog) (retOf s.rlog).length
  have hN := inv.hN
  have hq := queuedBytes_eq s
  -- the data the operation wants to transfer
  have hdata : (wData frame s.maxMsg op).1 = op.msg ∧
      (wData frame s.maxMsg op).2 = (if op.msg.length ≤ s.maxMsg then op.msg else []) := by
    cases op with
    | write m => exact ⟨rfl, rfl⟩
    | rawWrite b =>
      have hb : IsMsg b := hmsg
      have e : frame b = b.length := by
        have := fr.msg b [] hb
        rwa [List.append_nil] at this
      have hl : frame b ≤ s.maxMsg := inv.hnorm rfl b rest rfl
      simp only [wData, WOp.msg, e, List.take_length]
      have hle : b.length ≤ s.maxMsg := by omega
      exact ⟨trivial, (if_pos hle).symm⟩
  simp only [Conc.step, Conc.wStep, hpc, hop]
  rcases hd : wData frame s.maxMsg op with ⟨m, data⟩
  rw [hd] at hdata
  obtain ⟨rfl, hdata2⟩ := hdata
  simp only
  by_cases hmx : op.msg.length ≤ s.maxMsg
  · rw [if_pos hmx] at hdata2
    subst hdata2
    by_cases hfit : writeSize s.w s.r s.N ≥ op.msg.length
    · rw [if_pos hfit]
      refine ⟨_, rfl, ?_, rfl, rfl⟩
      rw [if_pos ⟨hmx, by omega⟩]
      exact ⟨rfl, rfl⟩
    · rw [if_neg hfit]
      refine ⟨_, rfl, ?_, rfl, rfl⟩
      rw [if_neg (by omega)]
      refine ⟨rfl, ?_⟩
      show pubOf (wSkip frame s.maxMsg rest (s.wlog ++ [(op.msg, false)])).2 = pubOf s.wlog
      rw [(wSkip_spec frame s.maxMsg rest _).1, pubOf_append_false]
  · rw [if_neg hmx] at hdata2
    subst hdata2
    rw [if_pos (by simp)]
    refine ⟨_, rfl, ?_, rfl, rfl⟩
    rw [if_neg (fun hc => hmx hc.1)]
    exact ⟨rfl, rfl⟩

theorem step_publish (frame : Bytes → Nat) (s : Conc) (m d : Bytes) (k : Nat)
    (hpc : s.wpc = .copying m d k) (hk : d.length ≤ k) :
    ∃ s', s.step frame .writer = some (s', .storeW ((s.w + d.length) % s.N)) ∧
      s'.published = s.published ++ (if d = [] then [] else [d]) ∧ s'.wpc = .idle := by
  simp only [Conc.step, Conc.wStep, hpc]
  rw [if_neg (by omega)]
  refine ⟨_, rfl, ?_, rfl⟩
  show pubOf (wSkip frame s.maxMsg s.wops (s.wlog ++ [if d = [] then (m, false) else (d, true)])).2 = _
  rw [(wSkip_spec frame s.maxMsg s.wops _).1]
  by_cases hd : d = []
  · simp only [hd, if_true, List.append_nil]
    exact pubOf_append_false _ _
  · simp only [hd, if_false]
    exact pubOf_append_true _ _

end Rtosc.Ring
