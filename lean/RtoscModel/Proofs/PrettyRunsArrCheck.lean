/-
  C10 — tier 3, compressed runs AND arrays (1): the syntax checker.

  * the array loop of `rtosc_skip_next_printed_arg` over a body text of segments
    (`skipArr_seg`, `skipArrayElems_segs`), the array as one argument (`skipNext_arrSegs`);
  * the loop of `rtosc_count_printed_arg_vals` over a text of pieces (`countLoop_aseg`,
    `countLoop_asegs`, `countPrintedArgVals_asegs`).
-/
import RtoscModel.Proofs.PrettyRunsArrDefs
set_option linter.unusedSimpArgs false
set_option linter.unusedVariables false
namespace Rtosc.Pretty
open Rtosc Rtosc.Libc
open Rtosc.ArgVal (Cell)

/-! ### what follows an element of an array -/

/-- what follows an element text inside an array: the closing bracket, or a separator and the
    next element -/
def TailB (sep next : Bytes) : Prop := (sep = [] ∧ ∃ rest, next = 93 :: rest) ∨ (IsSepTxt sep ∧ TokStart next)

theorem TailB.toR {sep next : Bytes} (h : TailB sep next) : TailR sep next := by
  rcases h with ⟨rfl, rest, rfl⟩ | ⟨h1, h2⟩
  · exact tailR_close rest
  · exact tailR_sep sep next h1 h2

theorem TailB.cur {sep next : Bytes} (h : TailB sep next) (hcur : TokStart next) : IsSepTxt sep := by
  rcases h with ⟨_, rest, rfl⟩ | ⟨h, _⟩
  · exact absurd rfl hcur.2.2.2.2.2.2.2
  · exact h

theorem SegsText.tailB_end {L : Option Cell} {segs : List RSeg} {text sep : Bytes} (h : SegsText L segs text)
    (h1 : segs = [] → sep = []) (h2 : segs ≠ [] → IsSepTxt sep) (rest : Bytes) :
    TailB sep (text ++ 93 :: rest) := by
  by_cases hne : segs = []
  · subst hne
    cases h
    exact Or.inl ⟨h1 rfl, rest, rfl⟩
  · exact Or.inr ⟨h2 hne, tokStart_append_ri _ _ (h.start hne)⟩

/-! ### the element types -/

/-- the invariant of the checker's `arraytype` in front of the original cells `cells` of the rest
    of the array: a range (matches everything), not yet set, or the type of all the cells -/
def ATy (aty : UInt8) (cells : List Cell) : Prop :=
  aty = 45 ∨ (aty = 0 ∧ ∀ e ∈ cells, typesMatch (cells.headD (Cell.flag .N)).type e.type = true) ∨
  (aty ≠ 0 ∧ ∀ e ∈ cells, typesMatch aty e.type = true)

theorem aTy_of_arrTypesOK {body : List RSeg} (h : ArrTypesOK body) : ATy 0 (cellsAll body) :=
  Or.inr (Or.inl ⟨rfl, h⟩)

/-- an element of type '-' (a range) -/
theorem aTy_range {aty : UInt8} (X more : List Cell) (h : ATy aty (X ++ more)) :
    (aty = 0 ∨ arraytypesMatch aty 45 = true) ∧ ATy (if aty = 0 then 45 else aty) more := by
  refine ⟨Or.inr (by simp [arraytypesMatch]), ?_⟩
  rcases h with h | ⟨h, _⟩ | ⟨h, h'⟩
  · subst h; exact Or.inl (by simp)
  · subst h; exact Or.inl (by simp)
  · simp only [h, ↓reduceIte]
    exact Or.inr (Or.inr ⟨h, fun e he => h' e (by simp [he])⟩)

/-- an element that is the value `c` -/
theorem aTy_tok {aty : UInt8} (c : Cell) (more : List Cell) (h : ATy aty (c :: more)) :
    (aty = 0 ∨ arraytypesMatch aty c.type = true) ∧ ATy (if aty = 0 then c.type else aty) more := by
  rcases h with h | ⟨h, h'⟩ | ⟨h, h'⟩
  · subst h
    exact ⟨Or.inr (by simp [arraytypesMatch]), Or.inl (by simp)⟩
  · subst h
    refine ⟨Or.inl rfl, Or.inr (Or.inr ⟨?_, fun e he => ?_⟩)⟩
    · simp only [↓reduceIte]; exact Cell.type_ne_zero c
    · simp only [↓reduceIte]
      have := h' e (by simp [he])
      simpa using this
  · refine ⟨Or.inr ?_, ?_⟩
    · simp [arraytypesMatch, h' c (by simp)]
    · simp only [h, ↓reduceIte]
      exact Or.inr (Or.inr ⟨h, fun e he => h' e (by simp [he])⟩)

/-! ### the array loop of the checker -/

/-- one element in the array loop of `rtosc_skip_next_printed_arg` -/
theorem skipArr_one (sk : ArgSkipper) (T sep next : Bytes) (hT : TokStart T) (htail : TailR sep next) (lf : Nat)
    (recent : Option Bytes) (aty : UInt8) (skipped k : Int) (ty : UInt8)
    (hskip : sk (T ++ (sep ++ next)) 20 recent true true = .ok ⟨some (sep ++ next), k, ty⟩)
    (hm : aty = 0 ∨ arraytypesMatch aty ty = true) :
    skipArrayElems sk (lf + 1) (some (T ++ (sep ++ next))) recent aty skipped =
      skipArrayElems sk lf (some next) (some (T ++ (sep ++ next))) (if aty = 0 then ty else aty) (skipped + k) := by
  obtain ⟨hne, _, h0, _, _, _, _, h93⟩ := hT
  have hhd : hd (T ++ (sep ++ next)) = hd T := hd_append_of_ne_nil _ _ hne
  have hpos : 0 < T.length := List.length_pos_iff.mpr hne
  have hprog : ¬ (next.length ≥ (T ++ (sep ++ next)).length) := by
    simp only [List.length_append]; omega
  rw [skipArrayElems]
  by_cases ha : aty = 0
  · subst ha
    simp only [hhd, h0, h93, ne_eq, not_false_eq_true, and_self, ↓reduceIte, hskip, bind, Except.bind,
      Option.map_some, htail.2, ge_iff_le, pure, Except.pure]
    simp only [ge_iff_le] at hprog
    simp only [hprog, ↓reduceIte]
  · have hm' : arraytypesMatch aty ty = true := by
      rcases hm with h | h
      · exact absurd h ha
      · exact h
    simp only [hhd, h0, h93, ne_eq, not_false_eq_true, and_self, ↓reduceIte, hskip, bind, Except.bind,
      Option.map_some, htail.2, ge_iff_le, pure, Except.pure, ha, hm', Bool.not_true, Bool.false_eq_true]
    simp only [ge_iff_le] at hprog
    simp only [hprog, ↓reduceIte]

theorem arithRun_cons_append {a d : Int} {n : Nat} (h : RunHyp a d n) (more : List Cell) :
    arithRun a d n ++ more = Cell.int .i a :: ((arithRun a d n).drop 1 ++ more) := by
  have := arithRun_cons a d n (by have := h.hn; omega)
  rw [List.cons_append.symm, ← this]

/-- **one segment in the array loop of `rtosc_skip_next_printed_arg`** -/
theorem skipArr_seg (fuel : Nat) {L : Option Cell} {s : RSeg} {T : Bytes} (hT : SegText L s T) (sep next : Bytes)
    (htail : TailB sep next) (recent : Option Bytes) (hinv : CheckInv L recent (T ++ (sep ++ next))) (lf : Nat)
    (aty : UInt8) (skipped : Int) (more : List Cell) (hty : ATy aty (s.cells ++ more)) :
    ∃ recent' aty', skipArrayElems (skipNextPrintedArg (fuel + 3)) (lf + s.nargs L) (some (T ++ (sep ++ next))) recent aty skipped =
        skipArrayElems (skipNextPrintedArg (fuel + 3)) lf (some next) recent' aty' (skipped + ((s.scanned L).length : Nat)) ∧
      CheckInv (some s.last) recent' next ∧ ATy aty' more := by
  have hR := htail.toR
  have hS := hR.1
  have hTs := hT.start
  cases hT with
  | tok t c ht hsc =>
    obtain ⟨r, hr, hsrc, hsk, hrty⟩ := ht.skip (sep ++ next) (fuel + 2) 20 recent true hS
    have hr' : skipNextPrintedArg (fuel + 3) (T ++ (sep ++ next)) 20 recent true true = .ok r := hr
    obtain ⟨hm, hty'⟩ := aTy_tok c more (by simpa [RSeg.cells] using hty)
    refine ⟨some (T ++ (sep ++ next)), _, ?_, ?_, hty'⟩
    · simp only [RSeg.nargs, RSeg.scanned, List.length_singleton]
      have := skipArr_one (skipNextPrintedArg (fuel + 3)) T sep next hTs hR lf recent aty skipped 1 c.type (by
        rw [hr']; cases r; simp_all) hm
      simpa using this
    · exact ⟨_, rfl, fun hcur tail _ => checkL_tok ht hsc sep next tail (htail.cur hcur) hcur⟩
  | crun m t c ht hsc hm1 hm2 =>
    obtain ⟨hm, hty'⟩ := aTy_range _ more hty
    refine ⟨some (runText m t ++ (sep ++ next)), _, ?_, ?_, hty'⟩
    · simp only [RSeg.nargs, RSeg.scanned, List.length_cons, List.length_nil]
      have := skipArr_one _ (runText m t) sep next hTs hR lf recent aty skipped 2 45
        (skipNext_runG m hm1 t c ht hsc (fuel + 1) 20 recent true true _ hS) hm
      simpa using this
    · exact ⟨_, rfl, fun hcur tail _ => checkL_crun m hm1 ht hsc sep next tail (htail.cur hcur) hcur⟩
  | short a d m sp h hsf hsp =>
    obtain ⟨hu, hnc⟩ := shortForm_unit hsf
    obtain ⟨hm, hty'⟩ := aTy_range _ more hty
    have hn := h.hn
    have hn32 := h.hn32
    have e : fmtDec a ++ ellRest sp (fmtDec (zOf a d m)) ++ (sep ++ next) =
        fmtDec a ++ ellRest sp (fmtDec (zOf a d m) ++ (sep ++ next)) := by
      rw [List.append_assoc, ellRest_append]
    refine ⟨some (fmtDec a ++ ellRest sp (fmtDec (zOf a d m)) ++ (sep ++ next)), _, ?_, ?_, hty'⟩
    · simp only [RSeg.nargs, RSeg.scanned, hsf, ↓reduceIte, List.length_cons, List.length_nil]
      have hll := checkInv_hll hinv (tokStart_append_ri _ _ hTs) (sp ++ (fmtDec (zOf a d m) ++ (sep ++ next))) (by
        rw [e]; simp only [List.length_append, ellRest_length]; omega)
      have hskip := skipNext_ellG fuel
        a (zOf a d m) h.r0.1 h.r0.2 h.rz.1 h.rz.2 sp hsp (sep ++ next) hS.toW 20 true recent L hll true
        (uselessFor_of_not_confusing L a hnc) m (Cell.int .i d) (by simpa [zOf] using delta_run_unit h hu) (by omega)
      rw [← e] at hskip
      have := skipArr_one _ _ sep next hTs hR lf recent aty skipped 3 45 hskip hm
      simpa using this
    · refine ⟨_, rfl, fun hcur tail hlen => ?_⟩
      rw [e]
      exact checkL_ell a (zOf a d m) h.r0.1 h.r0.2 h.rz.1 h.rz.2 sp hsp sep next tail (htail.cur hcur) hcur hlen
  | long a d m sp h hsf hsp =>
    have hn := h.hn
    have hn32 := h.hn32
    have hne : a ≠ a + d := by have := h.hd; omega
    obtain ⟨hm1, hty1⟩ := aTy_tok (Cell.int .i a) _ (by
      have := hty; simp only [RSeg.cells] at this; rwa [arithRun_cons_append h] at this)
    simp only [type_int_i] at hm1 hty1
    obtain ⟨hm2, hty2⟩ := aTy_range _ more hty1
    -- the text behind the first token
    generalize hT2 : fmtDec (a + d) ++ ellRest sp (fmtDec (zOf a d m)) = T2 at *
    have hT2s : TokStart T2 := by rw [← hT2]; exact tokStart_append_ri _ _ (tokStart_fmtDec _ h.r1.1 h.r1.2)
    have e1 : fmtDec a ++ ([32] ++ T2) ++ (sep ++ next) = fmtDec a ++ ([32] ++ (T2 ++ (sep ++ next))) := by
      simp [List.append_assoc]
    have e2 : T2 ++ (sep ++ next) = fmtDec (a + d) ++ ellRest sp (fmtDec (zOf a d m) ++ (sep ++ next)) := by
      rw [← hT2, List.append_assoc, ellRest_append]
    have hstart2 : TokStart (T2 ++ (sep ++ next)) := tokStart_append_ri _ _ hT2s
    have htail1 : TailR [32] (T2 ++ (sep ++ next)) := tailR_sep _ _ (Or.inl rfl) hstart2
    have hta := tokOK_int a h.r0.1 h.r0.2
    obtain ⟨r, hr, hsrc, hsk, hrty⟩ := hta.skip ([32] ++ (T2 ++ (sep ++ next))) (fuel + 2) 20 recent true htail1.1
    have hr' : skipNextPrintedArg (fuel + 3) (fmtDec a ++ ([32] ++ (T2 ++ (sep ++ next)))) 20 recent true true = .ok r := hr
    have h1 := skipArr_one (skipNextPrintedArg (fuel + 3)) (fmtDec a) [32] (T2 ++ (sep ++ next)) hta.start htail1 (lf + 1)
      recent aty skipped 1 105 (by rw [hr']; cases r; simp_all [type_int_i]) hm1
    have hck : CheckL (fmtDec a ++ ([32] ++ (T2 ++ (sep ++ next)))) (sp ++ (fmtDec (zOf a d m) ++ (sep ++ next)))
        (Cell.int .i a) := checkL_tok hta rfl [32] _ _ (Or.inl rfl) hstart2
    have hskip := skipNext_ellG fuel
      (a + d) (zOf a d m) h.r1.1 h.r1.2 h.rz.1 h.rz.2 sp hsp (sep ++ next) hS.toW 20 true
      (some (fmtDec a ++ ([32] ++ (T2 ++ (sep ++ next))))) (some (Cell.int .i a))
      (Or.inr ⟨_, _, rfl, rfl, hck⟩) false (Or.inr ⟨a, rfl, by simp [hne]⟩) ((m : Int) - 1) (Cell.int .i d)
      (by simpa [zOf] using delta_run_step h) (by omega)
    rw [← e2] at hskip
    have h2 := skipArr_one (skipNextPrintedArg (fuel + 3)) T2 sep next hT2s hR lf
      (some (fmtDec a ++ ([32] ++ (T2 ++ (sep ++ next))))) _ (skipped + 1) 3 45 hskip hm2
    refine ⟨some (T2 ++ (sep ++ next)), _, ?_, ?_, hty2⟩
    · simp only [RSeg.nargs, RSeg.scanned, hsf, Bool.false_eq_true, ↓reduceIte, List.length_cons, List.length_nil]
      rw [e1, show lf + 2 = (lf + 1) + 1 from rfl, h1, h2]
      congr 1
      omega
    · refine ⟨_, rfl, fun hcur tail hlen => ?_⟩
      rw [e2]
      exact checkL_ell (a + d) (zOf a d m) h.r1.1 h.r1.2 h.rz.1 h.rz.2 sp hsp sep next tail (htail.cur hcur) hcur hlen

/-- the array loop of the checker skips a body text of segments up to the closing bracket -/
theorem skipArrayElems_segs' (fuel : Nat) {L : Option Cell} {segs : List RSeg} {text : Bytes} (h : SegsText L segs text)
    (rest : Bytes) :
    ∀ (lf : Nat) (recent : Option Bytes) (aty : UInt8) (skipped : Int), nargsAll L segs + 1 ≤ lf →
      CheckInv L recent (text ++ 93 :: rest) → ATy aty (cellsAll segs) →
      skipArrayElems (skipNextPrintedArg (fuel + 3)) lf (some (text ++ 93 :: rest)) recent aty skipped =
        .ok (some (93 :: rest), skipped + ((scannedAll L segs).length : Nat)) := by
  induction h with
  | nil L =>
    intro lf recent aty skipped hf _ _
    obtain ⟨g, rfl⟩ : ∃ g, lf = g + 1 := ⟨lf - 1, by omega⟩
    simp [skipArrayElems, scannedAll]
  | cons L s segs T sep text hT hrest h1 h2 ih =>
    intro lf recent aty skipped hf hinv hty
    have htail := hrest.tailB_end h1 h2 rest
    have e : T ++ (sep ++ text) ++ 93 :: rest = T ++ (sep ++ (text ++ 93 :: rest)) := by
      simp [List.append_assoc]
    simp only [nargsAll] at hf
    simp only [cellsAll] at hty
    rw [e] at hinv ⊢
    obtain ⟨g, rfl⟩ : ∃ g, lf = g + s.nargs L := ⟨lf - s.nargs L, by omega⟩
    obtain ⟨recent', aty', hstep, hinv', hty'⟩ :=
      skipArr_seg fuel hT sep (text ++ 93 :: rest) htail recent hinv g aty skipped (cellsAll segs) hty
    rw [hstep, ih g recent' aty' _ (by omega) hinv' hty']
    simp only [scannedAll, List.length_append, Int.natCast_add]
    congr 2
    omega

/-- **the array loop of the checker over a body text of segments** whose values are of one type -/
theorem skipArrayElems_segs (fuel : Nat) {segs : List RSeg} {text : Bytes} (h : SegsText none segs text)
    (hty : ArrTypesOK segs) (rest : Bytes) (lf : Nat) (skipped : Int) (hlf : nargsAll none segs + 1 ≤ lf) :
    skipArrayElems (skipNextPrintedArg (fuel + 3)) lf (some (text ++ 93 :: rest)) none 0 skipped =
      .ok (some (93 :: rest), skipped + ((scannedAll none segs).length : Nat)) :=
  skipArrayElems_segs' fuel h rest lf none 0 skipped hlf rfl (aTy_of_arrTypesOK hty)

/-! ### the array as one argument -/

/-- **`rtosc_skip_next_printed_arg` on `[` body `]`**, the body a text of segments -/
theorem skipNext_arrSegs (fuel : Nat) {body : List RSeg} {B : Bytes} (hB : SegsText none body B) (hty : ArrTypesOK body)
    (rest : Bytes) (hS : Sep rest) (ty : UInt8) (llhs : Option Bytes) (fe ib : Bool) :
    skipNextPrintedArg (fuel + 4) (91 :: (B ++ 93 :: rest)) ty llhs fe ib =
      .ok ⟨some rest, 1 + (((scannedAll none body).length : Nat) : Int), 97⟩ := by
  have hsp : skipSpace (B ++ 93 :: rest) = B ++ 93 :: rest := by
    by_cases hne : body = []
    · subst hne; cases hB; exact skipSpace_close rest
    · exact skipSpace_tokStart _ (tokStart_append_ri _ _ (hB.start hne))
  have hle := hB.nargs_le
  have hloop := skipArrayElems_segs fuel hB hty rest ((91 :: (B ++ 93 :: rest)).length + 1) 1 (by
    simp only [List.length_cons, List.length_append]; omega)
  have h3 := (sep_skipSpace_facts rest hS).2
  unfold skipNextPrintedArg
  rw [skipValue_bracket _ _ _ _ (by simp)]
  unfold skipArray
  simp only [List.drop_succ_cons, List.drop_zero, hsp, hloop, bind, Except.bind]
  simp [pure, Except.pure, h3]

/-! ### what the checker finds left of a range, with a lower bound on the fuel -/

/-- like `CheckL`, for element skippers with at least `F + 2` fuel -/
def CheckLf (F : Nat) (ll0 tail : Bytes) (c : Cell) : Prop :=
  ∀ (f : Nat) (ib : Bool), F ≤ f → ∃ (ra : SkipRes) (a0 : Bytes) (rl : SkipRes),
    skipNextPrintedArg (f + 2) ll0 0 none false ib = .ok ra ∧ ra.src = some a0 ∧
    skipNextPrintedArg (f + 2) (pickLl1 ll0 a0 tail) 0 none false ib = .ok rl ∧ rl.type = c.type ∧
    (typesMatch c.type 105 = true → scanOne (pickLl1 ll0 a0 tail) = .ok c)

theorem CheckL.toLf {ll0 tail : Bytes} {c : Cell} (h : CheckL ll0 tail c) (F : Nat) : CheckLf F ll0 tail c :=
  fun f ib _ => h f ib

/-- what the checker knows in front of the text `cur` (cf. `CheckInv`) -/
def CheckInvA (L : Option Cell) (recent : Option Bytes) (cur : Bytes) : Prop :=
  match L with
  | none => recent = none
  | some c => ∃ ll0, recent = some ll0 ∧ (TokStart cur → ∀ tail : Bytes, tail.length ≤ cur.length → CheckLf 3 ll0 tail c)

theorem checkInvA_hll {L : Option Cell} {recent : Option Bytes} {cur : Bytes} (h : CheckInvA L recent cur)
    (hcur : TokStart cur) (tail : Bytes) (hlen : tail.length ≤ cur.length) :
    (recent = none ∧ L = none) ∨ ∃ ll0 c, recent = some ll0 ∧ L = some c ∧ CheckLf 3 ll0 tail c := by
  cases L with
  | none => exact Or.inl ⟨h, rfl⟩
  | some c =>
    obtain ⟨ll0, h1, h2⟩ := h
    exact Or.inr ⟨ll0, c, h1, rfl, h2 hcur tail hlen⟩

/-- `skipNext_ellG` with the weaker knowledge `CheckLf` about the previous argument -/
theorem skipNext_ellGf (F f : Nat) (hF : F ≤ f) (x z : Int) (hx1 : -2147483648 ≤ x) (hx2 : x ≤ 2147483647)
    (hz1 : -2147483648 ≤ z) (hz2 : z ≤ 2147483647) (sep : Bytes) (hsep : IsSepTxt sep) (rest : Bytes) (hrest : SepW rest)
    (ty : UInt8) (ib : Bool) (llhs : Option Bytes) (L : Option Cell)
    (hll : (llhs = none ∧ L = none) ∨
      ∃ ll0 c, llhs = some ll0 ∧ L = some c ∧ CheckLf F ll0 (sep ++ (fmtDec z ++ rest)) c)
    (useless : Bool) (hu : UselessFor L x useless) (num : Int) (dl : Cell)
    (hdelta : deltaFromArgVals (if useless then none else L) (Cell.int .i x) (some (Cell.int .i z)) useless = .ok (num, dl))
    (hnum : num ≠ -1) :
    skipNextPrintedArg (f + 3) (fmtDec x ++ ellRest sep (fmtDec z ++ rest)) ty llhs true ib = .ok ⟨some rest, 3, 45⟩ := by
  have hZs := tokStart_fmtDec z hz1 hz2
  obtain ⟨hW, hsk1, hsk2⟩ := ellRest_factsG sep (fmtDec z) rest hsep hZs
  have h93 : hd (fmtDec z ++ rest) ≠ 93 := (tokStart_append_ri _ rest hZs).2.2.2.2.2.2.2
  have hrsk := skipNext_int_noell (f + 1) z hz1 hz2 rest hrest 120 none ib
  have hrsc := scanOne_int z hz1 hz2 rest hrest
  have hlsc := scanOne_int x hx1 hx2 _ hW
  have hnm := nomult_int x hx1 hx2 _ hW
  unfold skipNextPrintedArg
  simp only [skipValue_intW _ x _ hW ty ib hx1 hx2, bind, Except.bind, hsk1, startsWith, List.cons_append,
    List.nil_append, List.isPrefixOf, BEq.rfl, Bool.and_self, and_self, ↓reduceIte]
  unfold ellipsisTail
  rcases hll with ⟨rfl, rfl⟩ | ⟨ll0, c, rfl, rfl, hck⟩
  · have hu' : useless = true := hu
    subst hu'
    simp only [↓reduceIte] at hdelta
    simp only [List.drop_succ_cons, List.drop_zero, hsk2, hnm, Bool.false_eq_true, ↓reduceIte, ne_eq,
      not_true_eq_false, show numericRangeTypes.contains (105 : UInt8) = true from by decide, or_true, h93,
      Bool.not_true, hrsk, hrsc, hlsc, hdelta, hnum, bind, Except.bind, pure, Except.pure, true_or, and_true,
      decide_true]
    rfl
  · obtain ⟨ra, a0, rl, h1, h2, h3, h4, h5⟩ := hck f ib hF
    have hpick : (if (skipSpace a0).length > (46 :: 46 :: 46 :: (sep ++ (fmtDec z ++ rest))).length ∧
          startsWith (skipSpace a0) [46, 46, 46] = true then skipSpace (List.drop 3 (skipSpace a0))
        else if isRangeMultiplier ll0 = true then afterX ll0 else ll0) = pickLl1 ll0 a0 (sep ++ (fmtDec z ++ rest)) := rfl
    rcases hu with ⟨hty, rfl⟩ | ⟨p, rfl, rfl⟩
    · simp only [↓reduceIte] at hdelta
      simp only [List.drop_succ_cons, List.drop_zero, hsk2, hnm, Bool.false_eq_true, ↓reduceIte, ne_eq,
        not_true_eq_false, show numericRangeTypes.contains (105 : UInt8) = true from by decide, or_true, h93,
        Bool.not_true, hrsk, hrsc, hlsc, bind, Except.bind, pure, Except.pure,
        decide_true, h1, h2, Option.map_some, hpick, h3, h4, hty, and_false, hdelta, hnum, true_or, and_true]
      rfl
    · have hsc1 := h5 rfl
      by_cases hpx : p = x
      · subst hpx
        simp only [decide_true, ↓reduceIte] at hdelta
        simp only [List.drop_succ_cons, List.drop_zero, hsk2, hnm, Bool.false_eq_true, ↓reduceIte, ne_eq,
          not_true_eq_false, show numericRangeTypes.contains (105 : UInt8) = true from by decide, or_true, h93,
          Bool.not_true, hrsk, hrsc, hlsc, bind, Except.bind, pure, Except.pure,
          decide_true, h1, h2, Option.map_some, hpick, h3, h4, type_int_i, show typesMatch 105 105 = true from by decide,
          and_self, hsc1, cmpCell_int, cmp3_self, delta_llhs_irrel, hdelta, hnum, true_or, and_true]
        rfl
      · have hc0 := cmp3_ne p x hpx
        simp only [hpx, decide_false, Bool.false_eq_true, ↓reduceIte] at hdelta
        simp only [List.drop_succ_cons, List.drop_zero, hsk2, hnm, Bool.false_eq_true, ↓reduceIte, ne_eq,
          not_true_eq_false, show numericRangeTypes.contains (105 : UInt8) = true from by decide, or_true, h93,
          Bool.not_true, hrsk, hrsc, hlsc, bind, Except.bind, pure, Except.pure,
          decide_true, h1, h2, Option.map_some, hpick, h3, h4, type_int_i, show typesMatch 105 105 = true from by decide,
          and_self, hsc1, cmpCell_int, hc0, hdelta, hnum, or_self, and_false]
        rfl

theorem arr_text_append (B rest : Bytes) : (91 :: (B ++ [93])) ++ rest = 91 :: (B ++ 93 :: rest) := by simp

theorem type_arrHdrS (body : List RSeg) : (arrHdrS body).type = 97 := rfl

/-- an array in front of the range: the checker finds an 'a' -/
theorem checkLf_arr {body : List RSeg} {B : Bytes} (hB : SegsText none body B) (hty : ArrTypesOK body)
    (sp cur tail : Bytes) (hsp : IsSepTxt sp) (hcur : TokStart cur) :
    CheckLf 3 (91 :: (B ++ 93 :: (sp ++ cur))) tail (arrHdrS body) := by
  intro f ib hf
  obtain ⟨g, rfl⟩ : ∃ g, f = g + 2 := ⟨f - 2, by omega⟩
  have hS := sep_of_next sp cur hsp hcur
  have hskip : skipNextPrintedArg (g + 2 + 2) (91 :: (B ++ 93 :: (sp ++ cur))) 0 none false ib =
      .ok ⟨some (sp ++ cur), 1 + (((scannedAll none body).length : Nat) : Int), 97⟩ :=
    skipNext_arrSegs g hB hty (sp ++ cur) hS 0 none false ib
  have hpick : pickLl1 (91 :: (B ++ 93 :: (sp ++ cur))) (sp ++ cur) tail = 91 :: (B ++ 93 :: (sp ++ cur)) := by
    unfold pickLl1
    rw [skipSpace_sep sp cur hsp hcur, startsWith_ell_of_tokStart cur hcur]
    simp [isRangeMultiplier, show isdigit 91 = false from by decide]
  refine ⟨_, sp ++ cur, _, hskip, rfl, by rw [hpick]; exact hskip, rfl, ?_⟩
  intro hint
  rw [type_arrHdrS] at hint
  exact absurd hint (by decide)

/-- **`rtosc_skip_next_printed_arg` on `nx[` body `]`** -/
theorem skipNext_arunSegs (fuel : Nat) (n : Nat) (hn : 1 ≤ n) {body : List RSeg} {B : Bytes} (hB : SegsText none body B)
    (hty : ArrTypesOK body) (rest : Bytes) (hS : Sep rest) (ty : UInt8) (llhs : Option Bytes) (fe ib : Bool) :
    skipNextPrintedArg (fuel + 5) (runText n (91 :: (B ++ [93])) ++ rest) ty llhs fe ib =
      .ok ⟨some rest, 1 + (1 + (((scannedAll none body).length : Nat) : Int)), 45⟩ := by
  have hr' := skipNext_arrSegs fuel hB hty rest hS 0 none false ib
  have h3 := hS.2.2
  rw [runText_append, arr_text_append]
  rw [show fuel + 5 = (fuel + 4) + 1 from rfl]
  unfold skipNextPrintedArg
  rw [skipValue_mult _ _ _ _ (hd_mult n hn _) (isRangeMultiplier_mult n hn _)]
  unfold skipMultiplier
  simp only [afterX_mult n hn _, hr', bind, Except.bind, pure, Except.pure, h3]
  simp

/-- `nx[…]` in front of the range: the checker finds an 'a' -/
theorem checkLf_arun (n : Nat) (hn : 1 ≤ n) {body : List RSeg} {B : Bytes} (hB : SegsText none body B)
    (hty : ArrTypesOK body) (sp cur tail : Bytes) (hsp : IsSepTxt sp) (hcur : TokStart cur) :
    CheckLf 3 (runText n (91 :: (B ++ [93])) ++ (sp ++ cur)) tail (arrHdrS body) := by
  intro f ib hf
  obtain ⟨g, rfl⟩ : ∃ g, f = g + 3 := ⟨f - 3, by omega⟩
  have hS := sep_of_next sp cur hsp hcur
  have hskip := skipNext_arunSegs g n hn hB hty (sp ++ cur) hS 0 none false ib
  have hskip2 : skipNextPrintedArg (g + 3 + 2) (91 :: (B ++ 93 :: (sp ++ cur))) 0 none false ib =
      .ok ⟨some (sp ++ cur), 1 + (((scannedAll none body).length : Nat) : Int), 97⟩ :=
    skipNext_arrSegs (g + 1) hB hty (sp ++ cur) hS 0 none false ib
  have hpick : pickLl1 (runText n (91 :: (B ++ [93])) ++ (sp ++ cur)) (sp ++ cur) tail = 91 :: (B ++ 93 :: (sp ++ cur)) := by
    unfold pickLl1
    rw [skipSpace_sep sp cur hsp hcur, startsWith_ell_of_tokStart cur hcur, runText_append,
      isRangeMultiplier_mult n hn, afterX_mult n hn, arr_text_append]
    simp
  refine ⟨_, sp ++ cur, _, hskip, rfl, by rw [hpick]; exact hskip2, rfl, ?_⟩
  intro hint
  rw [type_arrHdrS] at hint
  exact absurd hint (by decide)

/-- behind an array, and when the printer's left neighbour is not confusing, the left neighbour
    is useless for the readers -/
theorem uselessFor_rd {pL rL : Option Cell} (hctx : RdCtx pL rL) (a : Int) (h : confusing pL a = false) :
    UselessFor rL a true := by
  rcases hctx with rfl | ⟨ety, len, rfl⟩
  · exact uselessFor_of_not_confusing _ a h
  · exact Or.inl ⟨rfl, rfl⟩

/-! ### the checker's top-level loop over pieces -/

/-- **one piece in the loop of `rtosc_count_printed_arg_vals`** -/
theorem countLoop_aseg {pL rL : Option Cell} {x : ASeg} {T : Bytes} (hT : ASegText pL x T) (hctx : RdCtx pL rL)
    (sep text : Bytes) (htail : Tail sep text) (recent : Option Bytes)
    (hinv : CheckInvA rL recent (T ++ (sep ++ text))) (f : Nat) (num : Int) :
    ∃ recent', countLoop (f + x.nargs pL) (some (T ++ (sep ++ text))) recent num =
        countLoop f (some text) recent' (num + ((x.scanned pL).length : Nat)) ∧
      CheckInvA (some x.rlast) recent' text := by
  have hS := htail.sep
  have hTs := hT.start
  cases hT with
  | arr body B hB hty =>
    refine ⟨some (91 :: (B ++ [93]) ++ (sep ++ text)), ?_, ?_⟩
    · simp only [ASeg.nargs, ASeg.scanned, List.length_cons]
      have eX : 91 :: (B ++ [93]) ++ (sep ++ text) = 91 :: (B ++ 93 :: (sep ++ text)) := arr_text_append _ _
      have hlen : (91 :: (B ++ 93 :: (sep ++ text))).length - 2 + 4 = (91 :: (B ++ 93 :: (sep ++ text))).length + 2 := by
        simp only [List.length_cons, List.length_append]; omega
      have hskip := skipNext_arrSegs ((91 :: (B ++ 93 :: (sep ++ text))).length - 2) hB hty (sep ++ text) hS 0 recent
        true false
      rw [hlen, ← eX] at hskip
      have := countLoop_one _ sep text hTs htail f recent num _ 97 hskip
      rw [this]
      congr 1
      simp only [Int.natCast_add, Int.natCast_one]
      omega
    · refine ⟨_, rfl, fun hcur tail _ => ?_⟩
      rw [arr_text_append]
      exact checkLf_arr hB hty sep text tail (htail.cur hcur) hcur
  | arun m body B hB hty hm1 hm2 =>
    have hl4 : 4 ≤ (runText m (91 :: (B ++ [93]))).length := by
      have : 1 ≤ (fmtDec (m : Int)).length := by
        obtain ⟨c, r, _, _, _, hc, _⟩ := fmtDec_pos_shape m hm1
        rw [hc]; simp
      simp only [runText, List.length_append, List.length_cons, List.length_nil]; omega
    refine ⟨some (runText m (91 :: (B ++ [93])) ++ (sep ++ text)), ?_, ?_⟩
    · simp only [ASeg.nargs, ASeg.scanned, List.length_cons]
      have hlen : (runText m (91 :: (B ++ [93])) ++ (sep ++ text)).length - 3 + 5 =
          (runText m (91 :: (B ++ [93])) ++ (sep ++ text)).length + 2 := by
        simp only [List.length_append] at hl4 ⊢; omega
      have hskip := skipNext_arunSegs ((runText m (91 :: (B ++ [93])) ++ (sep ++ text)).length - 3) m hm1 hB hty
        (sep ++ text) hS 0 recent true false
      rw [hlen] at hskip
      have := countLoop_one _ sep text hTs htail f recent num _ 45 hskip
      rw [this]
      congr 1
      simp only [Int.natCast_add, Int.natCast_one]
      omega
    · exact ⟨_, rfl, fun hcur tail _ => checkLf_arun m hm1 hB hty sep text tail (htail.cur hcur) hcur⟩
  | seg s T hT =>
  simp only [ASeg.nargs, ASeg.scanned, ASeg.rlast]
  cases hT with
  | tok t c ht hsc =>
    obtain ⟨r, hr, hsrc, hsk, hty⟩ := ht.skip (sep ++ text) ((T ++ (sep ++ text)).length + 1) 0 recent false hS
    refine ⟨some (T ++ (sep ++ text)), ?_, ?_⟩
    · simp only [RSeg.nargs, RSeg.scanned, List.length_singleton]
      have := countLoop_one T sep text hTs htail f recent num 1 c.type (by
        rw [hr]; cases r; simp_all)
      simpa using this
    · exact ⟨_, rfl, fun hcur tail _ => (checkL_tok ht hsc sep text tail (htail.cur hcur) hcur).toLf 3⟩
  | crun m t c ht hsc hm1 hm2 =>
    refine ⟨some (runText m t ++ (sep ++ text)), ?_, ?_⟩
    · simp only [RSeg.nargs, RSeg.scanned, List.length_cons, List.length_nil]
      have := countLoop_one (runText m t) sep text hTs htail f recent num 2 45
        (skipNext_runG m hm1 t c ht hsc _ 0 recent true false _ hS)
      simpa using this
    · exact ⟨_, rfl, fun hcur tail _ => (checkL_crun m hm1 ht hsc sep text tail (htail.cur hcur) hcur).toLf 3⟩
  | short a d m sp h hsf hsp =>
    obtain ⟨hu, hnc⟩ := shortForm_unit hsf
    have hn := h.hn
    have hn32 := h.hn32
    have e : fmtDec a ++ ellRest sp (fmtDec (zOf a d m)) ++ (sep ++ text) =
        fmtDec a ++ ellRest sp (fmtDec (zOf a d m) ++ (sep ++ text)) := by
      rw [List.append_assoc, ellRest_append]
    have hpos := List.length_pos_iff.mpr (tokStart_fmtDec a h.r0.1 h.r0.2).1
    refine ⟨some (fmtDec a ++ ellRest sp (fmtDec (zOf a d m)) ++ (sep ++ text)), ?_, ?_⟩
    · simp only [RSeg.nargs, RSeg.scanned, hsf, ↓reduceIte, List.length_cons, List.length_nil]
      have hll := checkInvA_hll hinv (tokStart_append_ri _ _ hTs) (sp ++ (fmtDec (zOf a d m) ++ (sep ++ text))) (by
        rw [e]; simp only [List.length_append, ellRest_length]; omega)
      have hskip := skipNext_ellGf 3 ((fmtDec a ++ ellRest sp (fmtDec (zOf a d m)) ++ (sep ++ text)).length - 1)
        (by rw [e]; simp only [List.length_append, ellRest_length]; omega)
        a (zOf a d m) h.r0.1 h.r0.2 h.rz.1 h.rz.2 sp hsp (sep ++ text) hS.toW 0 false recent rL hll true
        (uselessFor_rd hctx a hnc) m (Cell.int .i d) (by simpa [zOf] using delta_run_unit h hu) (by omega)
      have hlen : (fmtDec a ++ ellRest sp (fmtDec (zOf a d m)) ++ (sep ++ text)).length - 1 + 3 =
          (fmtDec a ++ ellRest sp (fmtDec (zOf a d m)) ++ (sep ++ text)).length + 2 := by
        have := List.length_pos_iff.mpr (tokStart_append_ri _ (sep ++ text) hTs).1
        omega
      rw [hlen, ← e] at hskip
      have := countLoop_one _ sep text hTs htail f recent num 3 45 hskip
      simpa using this
    · refine ⟨_, rfl, fun hcur tail hlen => ?_⟩
      rw [e]
      exact (checkL_ell a (zOf a d m) h.r0.1 h.r0.2 h.rz.1 h.rz.2 sp hsp sep text tail (htail.cur hcur) hcur hlen).toLf 3
  | long a d m sp h hsf hsp =>
    have hn := h.hn
    have hn32 := h.hn32
    have hne : a ≠ a + d := by have := h.hd; omega
    -- the text behind the first token
    generalize hT2 : fmtDec (a + d) ++ ellRest sp (fmtDec (zOf a d m)) = T2 at *
    have hT2s : TokStart T2 := by rw [← hT2]; exact tokStart_append_ri _ _ (tokStart_fmtDec _ h.r1.1 h.r1.2)
    have e1 : fmtDec a ++ ([32] ++ T2) ++ (sep ++ text) = fmtDec a ++ ([32] ++ (T2 ++ (sep ++ text))) := by
      simp [List.append_assoc]
    have e2 : T2 ++ (sep ++ text) = fmtDec (a + d) ++ ellRest sp (fmtDec (zOf a d m) ++ (sep ++ text)) := by
      rw [← hT2, List.append_assoc, ellRest_append]
    have hstart2 : TokStart (T2 ++ (sep ++ text)) := tokStart_append_ri _ _ hT2s
    have htail1 : Tail [32] (T2 ++ (sep ++ text)) := Or.inr ⟨Or.inl rfl, hstart2⟩
    have hta := tokOK_int a h.r0.1 h.r0.2
    obtain ⟨r, hr, hsrc, hsk, hty⟩ := hta.skip ([32] ++ (T2 ++ (sep ++ text)))
      ((fmtDec a ++ ([32] ++ (T2 ++ (sep ++ text)))).length + 1) 0 recent false htail1.sep
    have h1 := countLoop_one (fmtDec a) [32] (T2 ++ (sep ++ text)) hta.start htail1 (f + 1) recent num 1 105 (by
      rw [hr]; cases r; simp_all [type_int_i])
    have hck : CheckL (fmtDec a ++ ([32] ++ (T2 ++ (sep ++ text)))) (sp ++ (fmtDec (zOf a d m) ++ (sep ++ text)))
        (Cell.int .i a) := checkL_tok hta rfl [32] _ _ (Or.inl rfl) hstart2
    have hskip := skipNext_ellG ((T2 ++ (sep ++ text)).length - 1)
      (a + d) (zOf a d m) h.r1.1 h.r1.2 h.rz.1 h.rz.2 sp hsp (sep ++ text) hS.toW 0 false
      (some (fmtDec a ++ ([32] ++ (T2 ++ (sep ++ text))))) (some (Cell.int .i a))
      (Or.inr ⟨_, _, rfl, rfl, hck⟩) false (Or.inr ⟨a, rfl, by simp [hne]⟩) ((m : Int) - 1) (Cell.int .i d)
      (by simpa [zOf] using delta_run_step h) (by omega)
    have hlen : (T2 ++ (sep ++ text)).length - 1 + 3 = (T2 ++ (sep ++ text)).length + 2 := by
      have := List.length_pos_iff.mpr hstart2.1
      omega
    rw [hlen, ← e2] at hskip
    have h2 := countLoop_one T2 sep text hT2s htail f (some (fmtDec a ++ ([32] ++ (T2 ++ (sep ++ text))))) (num + 1) 3 45
      hskip
    refine ⟨some (T2 ++ (sep ++ text)), ?_, ?_⟩
    · simp only [RSeg.nargs, RSeg.scanned, hsf, Bool.false_eq_true, ↓reduceIte, List.length_cons, List.length_nil]
      rw [e1, show f + 2 = (f + 1) + 1 from rfl, h1, h2]
      congr 1
      omega
    · refine ⟨_, rfl, fun hcur tail hlen => ?_⟩
      rw [e2]
      exact (checkL_ell (a + d) (zOf a d m) h.r1.1 h.r1.2 h.rz.1 h.rz.2 sp hsp sep text tail (htail.cur hcur) hcur hlen).toLf 3

/-- the loop of `rtosc_count_printed_arg_vals` counts the scanned cells of a text of pieces -/
theorem countLoop_asegs {pL : Option Cell} {xs : List ASeg} {text : Bytes} (h : ASegsText pL xs text) :
    ∀ (f : Nat) (recent : Option Bytes) (num : Int) (rL : Option Cell), RdCtx pL rL → CheckInvA rL recent text →
      nargsAllA pL xs + 1 ≤ f →
      countLoop f (some text) recent num = .ok (num + ((scannedAllA pL xs).length : Nat)) := by
  induction h with
  | nil L =>
    intro f recent num rL _ _ hf
    obtain ⟨g, rfl⟩ : ∃ g, f = g + 1 := ⟨f - 1, by omega⟩
    simp [countLoop, scannedAllA]
  | cons L x xs T sep text hT hrest h1 h2 ih =>
    intro f recent num rL hctx hinv hf
    have htail := hrest.tail h1 h2
    simp only [nargsAllA] at hf
    obtain ⟨g, rfl⟩ : ∃ g, f = g + x.nargs L := ⟨f - x.nargs L, by omega⟩
    obtain ⟨recent', hstep, hinv'⟩ := countLoop_aseg hT hctx sep text htail recent hinv g num
    rw [hstep, ih g recent' _ (some x.rlast) (rdCtx_next x) hinv' (by omega)]
    simp only [scannedAllA, List.length_append, Int.natCast_add]
    congr 1
    omega

/-- **`rtosc_count_printed_arg_vals` on a text of pieces** (segments and arrays of segments) -/
theorem countPrintedArgVals_asegs {xs : List ASeg} {text : Bytes} (h : ASegsText none xs text) :
    countPrintedArgVals text = .ok ((scannedAllA none xs).length : Int) := by
  unfold countPrintedArgVals
  by_cases hne : xs = []
  · subst hne
    cases h
    simp [skipSpace, skipCommentLines, countLoop, bind, Except.bind, scannedAllA]
  · have hstart := h.start hne
    have h37 : hd text ≠ 37 := hstart.2.2.2.2.2.1
    simp only [skipSpace_tokStart text hstart, skipCommentLines_none _ text h37, bind, Except.bind]
    have hle := h.nargs_le
    rw [countLoop_asegs h _ none 0 none (rdCtx_refl none) rfl (by omega)]
    simp

end Rtosc.Pretty
