/-
  C10 — tier 3, compressed runs AND arrays (4): the structured view.  The cells the scanner returns
  for a list of pieces are the flat form of the items `itemsAllA` (values, repetitions, ranges,
  arrays of them), the original cells are the flat form of `origItemsA` (values and arrays of
  values), and both expand to the same value list `valsA`.
-/
import RtoscModel.Proofs.PrettyRunsArrDefs
set_option linter.unusedSimpArgs false
set_option linter.unusedVariables false
namespace Rtosc.Pretty
open Rtosc Rtosc.Libc
open Rtosc.ArgVal (Cell Item flatList expandList Val)

/-- the scanned piece as items -/
def ASeg.items (pL : Option Cell) : ASeg → List Item
  | .seg s => s.items pL
  | .arr body => [Item.arr (lastTyS body 32) (itemsAll none body)]
  | .arun n body => [Item.rep n (Item.arr (lastTyS body 32) (itemsAll none body))]

def itemsAllA : Option Cell → List ASeg → List Item
  | _, [] => []
  | L, x :: r => x.items L ++ itemsAllA (some x.plast) r

/-- the piece in the original argument list as items: plain values, or an array of plain values
    tagged with the type of its last value -/
def ASeg.origItems : ASeg → List Item
  | .seg s => s.cells.map Item.val
  | .arr body => [Item.arr (lastTyS body 32) ((cellsAll body).map Item.val)]
  | .arun n body => List.replicate n (Item.arr (lastTyS body 32) ((cellsAll body).map Item.val))

def origItemsA : List ASeg → List Item
  | [] => []
  | x :: r => x.origItems ++ origItemsA r

/-- the values both denote -/
def ASeg.vals : ASeg → List Val
  | .seg s => s.cells.map Val.sc
  | .arr body => [Val.arr (lastTyS body 32) ((cellsAll body).map Val.sc)]
  | .arun n body => List.replicate n (Val.arr (lastTyS body 32) ((cellsAll body).map Val.sc))

def valsA : List ASeg → List Val
  | [] => []
  | x :: r => x.vals ++ valsA r

theorem flatList_replicate (n : Nat) (x : Item) : flatList (List.replicate n x) = (List.replicate n x.flat).flatten := by
  induction n with
  | zero => simp [flatList]
  | succ k ih => simp [List.replicate_succ, flatList, ih]

theorem expandList_replicate (n : Nat) (x : Item) (v : Val) (h : x.expand = some [v]) :
    expandList (List.replicate n x) = some (List.replicate n v) := by
  induction n with
  | zero => simp [expandList]
  | succ k ih => simp [List.replicate_succ, expandList, h, ih]

theorem flatList_origItemsA (xs : List ASeg) : flatList (origItemsA xs) = cellsAllA xs := by
  induction xs with
  | nil => simp [origItemsA, cellsAllA, flatList]
  | cons x r ih =>
    simp only [origItemsA, cellsAllA, flatList_append, ih]
    congr 1
    cases x with
    | seg s => simp [ASeg.origItems, ASeg.cells, flatList_valsX]
    | arr body => simp [ASeg.origItems, ASeg.cells, flatList, Item.flat, flatList_valsX, arrHdr]
    | arun n body => simp [ASeg.origItems, ASeg.cells, flatList_replicate, Item.flat, flatList_valsX, arrHdr]

/-- the tag `lastTyS` is the type of the last original cell of the body -/
theorem lastTyS_eq_lastTy {opt : POpt} {segs : List RSeg} (h : Segmented opt segs) (d : UInt8) :
    lastTyS segs d = lastTy (cellsAll segs) d := by
  induction h generalizing d with
  | nil => simp [lastTyS, cellsAll, lastTy]
  | tok c segs _ _ _ _ ih =>
    simp only [lastTyS, cellsAll, RSeg.cells, RSeg.last, List.singleton_append, lastTy_cons, ih]
  | crun n c segs _ _ hn _ _ _ ih =>
    simp only [lastTyS, cellsAll, RSeg.cells, RSeg.last, ih]
    have key : ∀ (m : Nat) (l : List Cell) (d : UInt8), 1 ≤ m → lastTy (List.replicate m c ++ l) d = lastTy l c.type := by
      intro m
      induction m with
      | zero => intro l d h; omega
      | succ k ihk =>
        intro l d _
        rw [List.replicate_succ, List.cons_append, lastTy_cons]
        by_cases hk : 1 ≤ k
        · exact ihk l c.type hk
        · have : k = 0 := by omega
          subst this; simp
    exact (key n _ d (by omega)).symm
  | irun a d' n segs hr _ _ ih =>
    simp only [lastTyS, cellsAll, RSeg.cells, RSeg.last, ih, type_int_i]
    have hn := hr.hn
    have key : ∀ (ks : List Nat) (l : List Cell) (d : UInt8), ks ≠ [] →
        lastTy (ks.map (fun (k : Nat) => Cell.int .i (a + (k : Int) * d')) ++ l) d = lastTy l 105 := by
      intro ks
      induction ks with
      | nil => intro l d h; exact absurd rfl h
      | cons k ks ihk =>
        intro l d _
        rw [List.map_cons, List.cons_append, lastTy_cons]
        by_cases hk : ks = []
        · subst hk; simp [type_int_i]
        · exact ihk l _ hk
    have hne : List.range n ≠ [] := by
      intro e
      have := congrArg List.length e
      simp at this; omega
    exact (key (List.range n) _ d hne).symm

theorem expandList_append_some (xs ys : List Item) (a b : List Val) (h1 : expandList xs = some a)
    (h2 : expandList ys = some b) : expandList (xs ++ ys) = some (a ++ b) := expandList_append xs ys a b h1 h2

/-- the original items expand to the values -/
theorem expandList_origItemsA {opt : POpt} {xs : List ASeg} (h : ASegmented opt xs) :
    expandList (origItemsA xs) = some (valsA xs) := by
  induction h with
  | nil => simp [origItemsA, valsA, expandList]
  | tok c xs hsc _ _ _ ih =>
    simp only [origItemsA, valsA, ASeg.origItems, ASeg.vals, RSeg.cells]
    exact expandList_append _ _ _ _ (expandList_valsX [c] (by simpa using hsc)) ih
  | crun n c xs hsc _ _ _ _ _ ih =>
    simp only [origItemsA, valsA, ASeg.origItems, ASeg.vals, RSeg.cells]
    exact expandList_append _ _ _ _ (expandList_valsX _ (by intro x hx; rw [(List.mem_replicate.mp hx).2]; exact hsc)) ih
  | irun a d n xs _ _ _ ih =>
    simp only [origItemsA, valsA, ASeg.origItems, ASeg.vals, RSeg.cells]
    exact expandList_append _ _ _ _ (expandList_valsX _ (by
      intro x hx; simp only [arithRun, List.mem_map] at hx; obtain ⟨k, _, rfl⟩ := hx; rfl)) ih
  | arr body xs hb _ _ _ ih =>
    simp only [origItemsA, valsA, ASeg.origItems, ASeg.vals]
    refine expandList_append _ _ _ _ ?_ ih
    simp [expandList, Item.expand, expandList_valsX _ hb.scalars]
  | arun n body xs hb _ _ _ _ _ ih =>
    simp only [origItemsA, valsA, ASeg.origItems, ASeg.vals]
    refine expandList_append _ _ _ _ ?_ ih
    exact expandList_replicate n _ _ (by simp [Item.expand, expandList_valsX _ hb.scalars])

/-- the scanned cells are the flat form of the items -/
theorem flatList_itemsAllA {opt : POpt} {xs : List ASeg} (h : ASegmented opt xs) :
    ∀ L, flatList (itemsAllA L xs) = scannedAllA L xs := by
  induction h with
  | nil => intro L; simp [itemsAllA, scannedAllA, flatList]
  | tok c xs _ _ _ _ ih =>
    intro L
    simp [itemsAllA, scannedAllA, ASeg.items, ASeg.scanned, RSeg.items, RSeg.scanned, flatList, Item.flat, ih]
  | crun n c xs _ _ _ _ _ _ ih =>
    intro L
    simp [itemsAllA, scannedAllA, ASeg.items, ASeg.scanned, RSeg.items, RSeg.scanned, flatList, Item.flat, ih]
  | irun a d n xs hr _ _ ih =>
    intro L
    have hn := hr.hn
    have e : ((n - 1 : Nat) : Int) = (n : Int) - 1 := by omega
    by_cases hs : shortForm L a d = true
    · simp [itemsAllA, scannedAllA, ASeg.items, ASeg.scanned, RSeg.items, RSeg.scanned, hs, flatList, Item.flat, ih]
    · simp [itemsAllA, scannedAllA, ASeg.items, ASeg.scanned, RSeg.items, RSeg.scanned, hs, flatList, Item.flat, ih, e]
  | arr body xs hb _ _ _ ih =>
    intro L
    simp [itemsAllA, scannedAllA, ASeg.items, ASeg.scanned, flatList, Item.flat, ih, flatList_itemsAll hb none, arrHdrS]
  | arun n body xs hb _ _ _ _ _ ih =>
    intro L
    simp [itemsAllA, scannedAllA, ASeg.items, ASeg.scanned, flatList, Item.flat, ih, flatList_itemsAll hb none, arrHdrS]

/-- the scanned items expand to the original values -/
theorem expandList_itemsAllA {opt : POpt} {xs : List ASeg} (h : ASegmented opt xs) :
    ∀ L, expandList (itemsAllA L xs) = some (valsA xs) := by
  induction h with
  | nil => intro L; simp [itemsAllA, valsA, expandList]
  | tok c xs hsc _ _ _ ih =>
    intro L
    simp only [itemsAllA, valsA, ASeg.items, ASeg.vals, RSeg.items, RSeg.cells]
    exact expandList_append _ _ _ _ (by simp [expandList, Item.expand, hsc]) (ih _)
  | crun n c xs hsc _ hn _ _ _ ih =>
    intro L
    simp only [itemsAllA, valsA, ASeg.items, ASeg.vals, RSeg.items, RSeg.cells]
    exact expandList_append _ _ _ _ (by simp [expandList, Item.expand, hsc, show 1 ≤ n from by omega]) (ih _)
  | irun a d n xs hr _ _ ih =>
    intro L
    simp only [itemsAllA, valsA, ASeg.items, ASeg.vals, RSeg.items, RSeg.cells]
    by_cases hs : shortForm L a d = true
    · simp only [hs, ↓reduceIte]
      exact expandList_append _ _ _ _ (by simp [expandList, expand_range_run hr]) (ih _)
    · have hs' : shortForm L a d = false := by simpa using hs
      simp only [hs', Bool.false_eq_true, ↓reduceIte]
      exact expandList_append _ _ _ _ (expand_range_run_long hr) (ih _)
  | arr body xs hb _ _ _ ih =>
    intro L
    simp only [itemsAllA, valsA, ASeg.items, ASeg.vals]
    refine expandList_append _ _ _ _ ?_ (ih _)
    simp [expandList, Item.expand, expandList_itemsAll hb none]
  | arun n body xs hb _ hn _ _ _ ih =>
    intro L
    simp only [itemsAllA, valsA, ASeg.items, ASeg.vals]
    refine expandList_append _ _ _ _ ?_ (ih _)
    simp [expandList, Item.expand, expandList_itemsAll hb none, show 1 ≤ n from by omega]

end Rtosc.Pretty
