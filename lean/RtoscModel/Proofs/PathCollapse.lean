/-
  C18 — helper lemmas for `collapsePath` (model: RtoscModel/Path/Collapse.lean).
  The buffer is always split as  `A ++ '/' :: x ++ M ++ O`:
  `A` unread chunks, `'/' :: x` the chunk under the read cursor, `M` the gap between the
  cursors (junk), `O` what has been written already plus the terminator and the rest.
-/
import RtoscModel.Path.Collapse
namespace Rtosc.Path
open Rtosc

/-! ### backward formulation of the cancellation -/

/-- what the loop does with one component, seen from the right: `(consuming, kept)` -/
def bwStep (c : Bytes) (acc : Nat × List Bytes) : Nat × List Bytes :=
  if c = DOTDOT then (acc.1 + 1, acc.2)
  else if acc.1 ≠ 0 then (acc.1 - 1, acc.2)
  else (0, c :: acc.2)

theorem fw_bw (comps : List Bytes) : ∀ st : List Bytes,
    comps.foldl stackStep st =
      ((comps.foldr bwStep (0, [])).2).reverse ++ st.drop (comps.foldr bwStep (0, [])).1 := by
  induction comps with
  | nil => intro st; simp
  | cons x xs ih =>
    intro st
    simp only [List.foldl_cons, List.foldr_cons]
    rw [ih]
    generalize List.foldr bwStep (0, []) xs = acc
    obtain ⟨c, out⟩ := acc
    unfold bwStep stackStep
    by_cases hx : x = DOTDOT
    · simp [hx, List.drop_drop, Nat.add_comm]
    · by_cases hc : c = 0
      · simp [hx, hc]
      · obtain ⟨c', rfl⟩ : ∃ c', c = c' + 1 := ⟨c - 1, by omega⟩
        simp [hx]

theorem cancel_eq_bw (comps : List Bytes) : cancel comps = (comps.foldr bwStep (0, [])).2 := by
  unfold cancel
  rw [fw_bw]
  simp

theorem bw_mem (comps : List Bytes) (acc : Nat × List Bytes) :
    ∀ c ∈ (comps.foldr bwStep acc).2, c ∈ comps ∨ c ∈ acc.2 := by
  induction comps with
  | nil => intro c hc; exact Or.inr hc
  | cons x xs ih =>
    intro c hc
    simp only [List.foldr_cons] at hc
    unfold bwStep at hc
    split at hc
    · rcases ih c hc with h | h
      · exact Or.inl (List.mem_cons_of_mem _ h)
      · exact Or.inr h
    · split at hc
      · rcases ih c hc with h | h
        · exact Or.inl (List.mem_cons_of_mem _ h)
        · exact Or.inr h
      · simp only [List.mem_cons] at hc
        rcases hc with rfl | hc
        · exact Or.inl List.mem_cons_self
        · rcases ih c hc with h | h
          · exact Or.inl (List.mem_cons_of_mem _ h)
          · exact Or.inr h

/-! ### list plumbing -/

theorem get_at (l1 : Bytes) (a : UInt8) (l2 : Bytes) (n : Nat) (h : n = l1.length) :
    (l1 ++ a :: l2)[n]? = some a := by
  subst h; simp

theorem set_at (l1 : Bytes) (a b : UInt8) (l2 : Bytes) (n : Nat) (h : n = l1.length) :
    (l1 ++ a :: l2).set n b = l1 ++ b :: l2 := by
  subst h; simp

theorem render_append (a b : List Bytes) : render (a ++ b) = render a ++ render b := by
  simp [render]

theorem render_cons (x : Bytes) (b : List Bytes) : render (x :: b) = SLASH :: x ++ render b := by
  simp [render]

/-! ### one chunk under the cursor -/

theorem readPath_chunk (xr : Bytes) (hx : ∀ c ∈ xr, c ≠ SLASH) : ∀ (A P : Bytes),
    readPath (A ++ SLASH :: xr.reverse ++ P) (A.length + 1 + xr.length) = some A.length := by
  induction xr with
  | nil =>
    intro A P
    simp only [List.reverse_nil, List.length_nil, Nat.add_zero]
    rw [readPath]
    rw [show A ++ SLASH :: [] ++ P = A ++ SLASH :: P by simp, get_at A SLASH P _ rfl]
    simp
  | cons c xr' ih =>
    intro A P
    have hc : c ≠ SLASH := hx c List.mem_cons_self
    have hx' : ∀ d ∈ xr', d ≠ SLASH := fun d hd => hx d (List.mem_cons_of_mem _ hd)
    have e1 : A ++ SLASH :: (c :: xr').reverse ++ P = (A ++ SLASH :: xr'.reverse) ++ c :: P := by simp
    have e2 : A.length + 1 + (c :: xr').length = (A.length + 1 + xr'.length) + 1 := by simp; omega
    rw [e2, readPath, e1, get_at _ c P _ (by simp; omega)]
    simp only [hc, ↓reduceIte]
    have := ih hx' A (c :: P)
    simpa using this

/-- one step of `move_path` on a buffer `A ++ c :: M ++ O` with the read cursor on `c`
    and the write cursor on the last byte of `c :: M` -/
theorem movePath_step (A : Bytes) (c : UInt8) (M O : Bytes) :
    movePath (A ++ c :: M ++ O) (A.length + 1) (A.length + 1 + M.length) =
      if c = SLASH then some (A ++ (c :: M).dropLast ++ c :: O, A.length, A.length + M.length)
      else movePath (A ++ (c :: M).dropLast ++ c :: O) A.length (A.length + M.length) := by
  have hne : c :: M ≠ [] := by simp
  have hsplit : A ++ c :: M ++ O = (A ++ (c :: M).dropLast) ++ (c :: M).getLast hne :: O := by
    have := List.dropLast_concat_getLast hne
    calc A ++ c :: M ++ O = A ++ ((c :: M).dropLast ++ [(c :: M).getLast hne]) ++ O := by rw [this]
      _ = _ := by simp
  have hlen : (A ++ (c :: M).dropLast).length = A.length + M.length := by simp
  have hget : (A ++ c :: M ++ O)[A.length]? = some c := by
    rw [show A ++ c :: M ++ O = A ++ c :: (M ++ O) by simp]; exact get_at A c _ _ rfl
  rw [show A.length + 1 + M.length = (A.length + M.length) + 1 by omega, movePath, hget]
  simp only
  have hlt : A.length + M.length < (A ++ c :: M ++ O).length := by simp; omega
  rw [if_pos hlt]
  have hset : (A ++ c :: M ++ O).set (A.length + M.length) c = A ++ (c :: M).dropLast ++ c :: O := by
    rw [hsplit]; exact set_at _ _ c O _ hlen.symm
  rw [hset]

theorem movePath_chunk (xr : Bytes) (hx : ∀ c ∈ xr, c ≠ SLASH) : ∀ (A M O : Bytes),
    ∃ M' : Bytes, M'.length = M.length ∧
      movePath (A ++ SLASH :: xr.reverse ++ M ++ O) (A.length + 1 + xr.length)
          (A.length + 1 + xr.length + M.length) =
        some (A ++ M' ++ SLASH :: xr.reverse ++ O, A.length, A.length + M.length) := by
  induction xr with
  | nil =>
    intro A M O
    refine ⟨(SLASH :: M).dropLast, by simp, ?_⟩
    have := movePath_step A SLASH M O
    simpa using this
  | cons c xr' ih =>
    intro A M O
    have hc : c ≠ SLASH := hx c List.mem_cons_self
    have hx' : ∀ d ∈ xr', d ≠ SLASH := fun d hd => hx d (List.mem_cons_of_mem _ hd)
    obtain ⟨M', hM', hmove⟩ := ih hx' A (c :: M).dropLast (c :: O)
    refine ⟨M', by simpa using hM', ?_⟩
    have step := movePath_step (A ++ SLASH :: xr'.reverse) c M O
    simp only [hc, ↓reduceIte] at step
    have e1 : A ++ SLASH :: (c :: xr').reverse ++ M ++ O = A ++ SLASH :: xr'.reverse ++ c :: M ++ O := by simp
    have l1 : (A ++ SLASH :: xr'.reverse).length = A.length + 1 + xr'.length := by simp; omega
    rw [e1]
    rw [show A.length + 1 + (c :: xr').length = (A ++ SLASH :: xr'.reverse).length + 1 by simp; omega]
    rw [step, l1]
    have hd : ((c :: M).dropLast).length = M.length := by simp
    rw [hd] at hmove
    rw [hmove]
    simp

theorem get_back (t P : Bytes) (i : Nat) (h : i < t.length) :
    (t.reverse ++ P)[t.length - 1 - i]? = t[i]? := by
  rw [List.getElem?_append_left (by simp; omega), List.getElem?_reverse (by omega)]
  congr 1; omega

/-- `parent_path_p` looks at the three bytes that end at the cursor -/
theorem parentPathP_rev (t P : Bytes) :
    parentPathP (t.reverse ++ P) t.length =
      some (match t with
            | a :: b :: c :: _ => decide (a = DOT ∧ b = DOT ∧ c = SLASH)
            | _ => false) := by
  match t with
  | [] => simp [parentPathP]
  | [_] => simp [parentPathP]
  | [_, _] => simp [parentPathP]
  | a :: b :: c :: rest =>
    have h0 := get_back (a :: b :: c :: rest) P 0 (by simp)
    have h1 := get_back (a :: b :: c :: rest) P 1 (by simp)
    have h2 := get_back (a :: b :: c :: rest) P 2 (by simp)
    simp only [List.length_cons, List.getElem?_cons_zero, List.getElem?_cons_succ] at h0 h1 h2
    unfold parentPathP
    have hl : ¬ (a :: b :: c :: rest).length < 3 := by simp
    rw [if_neg hl]
    simp only [List.length_cons]
    rw [show rest.length + 1 + 1 + 1 - 1 = rest.length + 1 + 1 + 1 - 1 - 0 by omega, h0]
    rw [show rest.length + 1 + 1 + 1 - 2 = rest.length + 1 + 1 + 1 - 1 - 1 by omega, h1]
    rw [show rest.length + 1 + 1 + 1 - 3 = rest.length + 1 + 1 + 1 - 1 - 2 by omega, h2]
    by_cases ha : a = DOT <;> by_cases hb : b = DOT <;> simp [ha, hb]

theorem parentPathP_chunk (xr : Bytes) (hx : ∀ c ∈ xr, c ≠ SLASH) (A P : Bytes) :
    parentPathP (A ++ SLASH :: xr.reverse ++ P) (A.length + 1 + xr.length) =
      some (decide (xr = [DOT, DOT])) := by
  have e : A ++ SLASH :: xr.reverse ++ P = (xr ++ SLASH :: A.reverse).reverse ++ P := by simp
  have l : A.length + 1 + xr.length = (xr ++ SLASH :: A.reverse).length := by simp; omega
  rw [e, l, parentPathP_rev]
  match xr, hx with
  | [], _ =>
    simp only [List.nil_append]
    split
    · next h => simp only [List.cons.injEq] at h; simp [← h.1, SLASH, DOT]
    · simp
  | [a], _ =>
    simp only [List.cons_append, List.nil_append]
    split
    · next h => simp only [List.cons.injEq] at h; simp [← h.2.1, SLASH, DOT]
    · simp
  | [a, b], _ => simp
  | a :: b :: c :: rest, hx =>
    have hc : c ≠ SLASH := hx c (by simp)
    simp [hc]

/-! ### the main loop -/

theorem render_length_cons (x : Bytes) (b : List Bytes) :
    (render (x :: b)).length = 1 + x.length + (render b).length := by
  rw [render_cons]; simp; omega

theorem loop_spec : ∀ (rc : List Bytes), (∀ c ∈ rc, CompWF c) →
    ∀ (M : Bytes) (outc : List Bytes) (T : Bytes) (k fuel : Nat),
    (render rc.reverse).length ≤ fuel →
    ∃ J : Bytes,
      collapseLoop fuel (render rc.reverse ++ M ++ render outc ++ T) (render rc.reverse).length
          ((render rc.reverse).length + M.length) k =
        some (J ++ render (rc.reverse.foldr bwStep (k, outc)).2 ++ T, J.length) ∧
      J.length + (render (rc.reverse.foldr bwStep (k, outc)).2).length =
        (render rc.reverse).length + M.length + (render outc).length := by
  intro rc
  induction rc with
  | nil =>
    intro _ M outc T k fuel _
    refine ⟨M, ?_, by simp [render]⟩
    cases fuel <;> simp [render, collapseLoop]
  | cons x rc' ih =>
    intro hwf M outc T k fuel hfuel
    have hwf' : ∀ c ∈ rc', CompWF c := fun c hc => hwf c (List.mem_cons_of_mem _ hc)
    have hxwf : CompWF x := hwf x List.mem_cons_self
    obtain ⟨xr, rfl⟩ : ∃ xr, x = xr.reverse := ⟨x.reverse, by simp⟩
    have hxs : ∀ c ∈ xr, c ≠ SLASH := fun c hc => (hxwf c (by simpa using hc)).2
    have hr : render (xr.reverse :: rc').reverse = render rc'.reverse ++ SLASH :: xr.reverse := by
      simp [render]
    have hfold : ∀ acc, List.foldr bwStep acc (xr.reverse :: rc').reverse =
        List.foldr bwStep (bwStep xr.reverse acc) rc'.reverse := by
      intro acc; simp
    rw [hr] at hfuel
    rw [hr, hfold]
    generalize hA : render rc'.reverse = A at *
    have hlen : (A ++ SLASH :: xr.reverse).length = A.length + 1 + xr.length := by simp; omega
    rw [hlen] at hfuel ⊢
    obtain ⟨f, rfl⟩ : ∃ f, fuel = f + 1 := ⟨fuel - 1, by omega⟩
    have hf : A.length ≤ f := by omega
    have ebuf : A ++ SLASH :: xr.reverse ++ M ++ render outc ++ T =
        A ++ SLASH :: xr.reverse ++ (M ++ render outc ++ T) := by simp
    rw [collapseLoop, if_neg (by omega), ebuf, parentPathP_chunk xr hxs]
    by_cases hdd : xr = [DOT, DOT]
    · -- a `..` chunk: skip it, consuming+1
      have hx : xr.reverse = DOTDOT := by subst hdd; rfl
      simp only [hdd, decide_true]
      rw [← hdd, readPath_chunk xr hxs]
      simp only
      obtain ⟨J, h1, h2⟩ := ih hwf' (SLASH :: xr.reverse ++ M) outc T (k + 1) f hf
      refine ⟨J, ?_, ?_⟩
      · have e2 : A ++ SLASH :: xr.reverse ++ (M ++ render outc ++ T) =
            A ++ (SLASH :: xr.reverse ++ M) ++ render outc ++ T := by simp
        have e3 : A.length + 1 + xr.length + M.length = A.length + (SLASH :: xr.reverse ++ M).length := by
          simp; omega
        rw [e2, e3, h1]
        simp [bwStep, hx]
      · rw [show bwStep xr.reverse (k, outc) = (k + 1, outc) by simp [bwStep, hx]]
        rw [h2]; simp; omega
    · have hx : xr.reverse ≠ DOTDOT := by
        intro h; apply hdd
        have := congrArg List.reverse h
        simpa [DOTDOT] using this
      simp only [hdd, decide_false]
      by_cases hk : k = 0
      · -- write the chunk through
        subst hk
        simp only [ne_eq, not_true_eq_false, ↓reduceIte]
        obtain ⟨M', hM', hmove⟩ := movePath_chunk xr hxs A M (render outc ++ T)
        have e2 : A ++ SLASH :: xr.reverse ++ (M ++ render outc ++ T) =
            A ++ SLASH :: xr.reverse ++ M ++ (render outc ++ T) := by simp
        rw [e2, hmove]
        simp only
        obtain ⟨J, h1, h2⟩ := ih hwf' M' (xr.reverse :: outc) T 0 f hf
        refine ⟨J, ?_, ?_⟩
        · have e3 : A ++ M' ++ SLASH :: xr.reverse ++ (render outc ++ T) =
              A ++ M' ++ render (xr.reverse :: outc) ++ T := by simp [render_cons]
          rw [e3, ← hM', h1]
          simp [bwStep, hx]
        · rw [show bwStep xr.reverse (0, outc) = (0, xr.reverse :: outc) by simp [bwStep, hx]]
          rw [h2, render_length_cons, hM']; simp; omega
      · -- consume the chunk, consuming-1
        simp only [ne_eq, hk, not_false_eq_true, ↓reduceIte]
        rw [readPath_chunk xr hxs]
        simp only
        obtain ⟨J, h1, h2⟩ := ih hwf' (SLASH :: xr.reverse ++ M) outc T (k - 1) f hf
        refine ⟨J, ?_, ?_⟩
        · have e2 : A ++ SLASH :: xr.reverse ++ (M ++ render outc ++ T) =
              A ++ (SLASH :: xr.reverse ++ M) ++ render outc ++ T := by simp
          have e3 : A.length + 1 + xr.length + M.length = A.length + (SLASH :: xr.reverse ++ M).length := by
            simp; omega
          rw [e2, e3, h1]
          simp [bwStep, hx, hk]
        · rw [show bwStep xr.reverse (k, outc) = (k - 1, outc) by simp [bwStep, hx, hk]]
          rw [h2]; simp; omega

/-! ### strings -/

theorem strlen_append_nul (s t : Bytes) (hs : ∀ c ∈ s, c ≠ 0) : strlen (s ++ 0 :: t) = some s.length := by
  induction s with
  | nil => simp [strlen]
  | cons a r ih =>
    have ha : a ≠ 0 := hs a List.mem_cons_self
    simp [strlen, ha, ih (fun c hc => hs c (List.mem_cons_of_mem _ hc))]

theorem cstr_append_nul (s t : Bytes) (hs : ∀ c ∈ s, c ≠ 0) : cstr (s ++ 0 :: t) = some s := by
  induction s with
  | nil => simp [cstr]
  | cons a r ih =>
    have ha : a ≠ 0 := hs a List.mem_cons_self
    simp [cstr, ha, ih (fun c hc => hs c (List.mem_cons_of_mem _ hc))]

theorem render_no_nul (cs : List Bytes) (h : ∀ c ∈ cs, CompWF c) : ∀ b ∈ render cs, b ≠ 0 := by
  induction cs with
  | nil => simp [render]
  | cons x r ih =>
    intro b hb
    rw [render_cons] at hb
    simp only [List.cons_append, List.mem_cons, List.mem_append] at hb
    rcases hb with rfl | hb | hb
    · simp [SLASH]
    · exact (h x List.mem_cons_self b hb).1
    · exact ih (fun c hc => h c (List.mem_cons_of_mem _ hc)) b hb

theorem cancel_wf (comps : List Bytes) (h : ∀ c ∈ comps, CompWF c) : ∀ c ∈ cancel comps, CompWF c := by
  intro c hc
  rw [cancel_eq_bw] at hc
  rcases bw_mem comps (0, []) c hc with h1 | h1
  · exact h c h1
  · simp at h1

/-- the whole run on an absolute path: the block afterwards is some junk `J`, the
    collapsed path, the untouched terminator and rest; the returned offset is `|J|` -/
theorem collapse_core (comps : List Bytes) (tail : Bytes) (hwf : ∀ c ∈ comps, CompWF c) :
    ∃ J : Bytes,
      collapse (render comps ++ 0 :: tail) = some (J ++ render (cancel comps) ++ 0 :: tail, J.length) ∧
      J.length + (render (cancel comps)).length = (render comps).length := by
  have hn := strlen_append_nul (render comps) tail (render_no_nul comps hwf)
  have hwf' : ∀ c ∈ comps.reverse, CompWF c := fun c hc => hwf c (by simpa using hc)
  obtain ⟨J, h1, h2⟩ := loop_spec comps.reverse hwf' [] [] (0 :: tail) 0 (render comps).length (by simp)
  simp only [List.reverse_reverse, List.append_nil, List.length_nil, Nat.add_zero,
    show render [] = [] from rfl] at h1 h2
  refine ⟨J, ?_, ?_⟩
  · unfold collapse
    rw [hn]
    simp only
    rw [h1, cancel_eq_bw]
  · rw [cancel_eq_bw]; exact h2

end Rtosc.Path
