/-
  C12 — what an array line carries: the current values of the leading elements up to and including the last
  one that differs from its default (`first_equal_index`, src/cpp/savefile.cpp).
-/
import RtoscModel.Proofs.SaveLoad

namespace Rtosc.Save

/-- `first_equal_index` returns its accumulator, or one past the position of a differing pair -/
theorem firstEqualIndex_cases (ds rs : List Val) (i acc : Nat) :
    firstEqualIndex ds rs i acc = acc ∨
    ∃ j, ∃ (h1 : j < ds.length) (h2 : j < rs.length), firstEqualIndex ds rs i acc = i + j + 1 ∧ ds[j] ≠ rs[j] := by
  induction ds generalizing rs i acc with
  | nil => left; unfold firstEqualIndex; rfl
  | cons d ds ih =>
    cases rs with
    | nil => left; unfold firstEqualIndex; rfl
    | cons r rs =>
      unfold firstEqualIndex
      by_cases hdr : d = r
      · rw [if_pos hdr]
        rcases ih rs (i + 1) acc with h | ⟨j, h1, h2, h, hne⟩
        · exact Or.inl h
        · exact Or.inr ⟨j + 1, by simp only [List.length_cons]; omega, by simp only [List.length_cons]; omega,
            by rw [h]; omega, by simpa using hne⟩
      · rw [if_neg hdr]
        rcases ih rs (i + 1) (i + 1) with h | ⟨j, h1, h2, h, hne⟩
        · exact Or.inr ⟨0, by simp, by simp, by rw [h], by simpa using hdr⟩
        · exact Or.inr ⟨j + 1, by simp only [List.length_cons]; omega, by simp only [List.length_cons]; omega,
            by rw [h]; omega, by simpa using hne⟩

/-- the prefix `first_equal_index` keeps of an array that differs from its defaults: non-empty, within the array,
    its last element differs from the default, everything behind it equals the default -/
theorem arr_prefix (f g : Nat → Val) (first len : Nat)
    (hne : (((List.range len).map (· + first)).map f) ≠ (((List.range len).map (· + first)).map g)) :
    ∃ n, firstEqualIndex (((List.range len).map (· + first)).map f) (((List.range len).map (· + first)).map g) 0 0 = n ∧
      0 < n ∧ n ≤ len ∧ f (first + (n - 1)) ≠ g (first + (n - 1)) ∧
      ∀ k, n ≤ k → k < len → f (first + k) = g (first + k) := by
  obtain ⟨hsuf, hpos⟩ := arr_lists f g first len
  have hpos := hpos hne
  rcases firstEqualIndex_cases (((List.range len).map (· + first)).map f)
      (((List.range len).map (· + first)).map g) 0 0 with h0 | ⟨j, h1, h2, hj, hd⟩
  · rw [h0] at hpos; omega
  · have hjl : j < len := by simpa using h1
    refine ⟨j + 1, by rw [hj]; omega, by omega, by omega, ?_, ?_⟩
    · simp only [List.getElem_map, List.getElem_range] at hd
      rw [Nat.add_sub_cancel, Nat.add_comm]
      exact hd
    · intro k hk hkl
      exact hsuf k hkl (by rw [hj]; omega)

/-- the line of an array port: the current values of the elements `0 … n-1`, where element `n-1` is the last one
    that — as the line spells it, option indices as symbols — differs from its default (constant or
    preset-dependent); everything behind it equals its default -/
theorem saved_array_value (app : App) (hwf : app.WF) (s : State) (base : Path) (first len : Nat)
    (hi : Item.array base first len ∈ app.walk) (l : Line) (hl : l ∈ app.save s) (ha : l.addr = base) :
    ∃ n, 0 < n ∧ n ≤ len ∧
      l = ⟨base, .arr ((List.range n).map fun k => mapArgVal (app.param (first + k)).kind (s (first + k)))⟩ ∧
      mapArgVal (app.param (first + (n - 1))).kind (s (first + (n - 1))) ≠ evalDflt (app.param (first + (n - 1))) s ∧
      ∀ k, n ≤ k → k < len → s (first + k) = evalDflt (app.param (first + k)) s := by
  obtain ⟨it, hit, hr, hs⟩ := (mem_save_iff app hwf s l).1 hl
  have := saveItem_addr app s it l hs
  have hit' : it = Item.array base first len := item_of_addr app hwf it _ hit hi (by rw [← this, ha]; rfl)
  subst hit'
  rw [App.saveItem_array] at hs
  simp only [App.itemReached] at hr
  rw [if_pos hr] at hs
  split at hs
  · cases hs
  · next hne =>
    obtain ⟨n, hn, hpos, hle, hlast, hsuf⟩ :=
      arr_prefix (fun i => evalDflt (app.param i) s) (fun i => mapArgVal (app.param i).kind (s i)) first len (by
        intro heq
        apply hne
        apply List.map_congr_left
        intro i hi
        exact mapArgVal_eq_evalDflt _ s _ ((List.map_inj_left.mp heq) i hi))
    rw [hn, arr_vals_eq (fun i => mapArgVal (app.param i).kind (s i)), Nat.min_eq_left hle,
      ← List.range_eq_range'] at hs
    cases hs
    exact ⟨n, hpos, hle, rfl, fun h => hlast h.symm, fun k h1 h2 => (mapArgVal_eq_evalDflt _ s _ (hsuf k h1 h2)).symm⟩

end Rtosc.Save
